/-
  Proofs/WireCanon.lean — on wire-canonical types nothing is normalised and there is no ordering
  invariant: `norm = id`, `canon = true`.
-/
import Scale.Canon
namespace Scale

theorem map_id' {α} (f : α → α) (l : List α) (h : ∀ a ∈ l, f a = a) : l.map f = l := by
  induction l with
  | nil => rfl
  | cons a l ih =>
    simp only [List.map_cons, h a (List.mem_cons_self), ih (fun b hb => h b (List.mem_cons_of_mem _ hb))]

mutual
theorem norm_id : ∀ (ty : Ty), wireCanon ty = true → ∀ v, norm ty v = v
  | .unit, _, v => by cases v <;> simp [norm]
  | .bool, _, v => by cases v <;> simp [norm]
  | .optionBool, _, v => by cases v <;> simp [norm]
  | .prim _, _, v => by cases v <;> simp [norm]
  | .nonZero _, _, v => by cases v <;> simp [norm]
  | .compact _, _, v => by cases v <;> simp [norm]
  | .option t, h, v => by
    cases v <;> simp only [norm]
    case some v => rw [norm_id t (by simpa [wireCanon] using h) v]
  | .result t e, h, v => by
    simp only [wireCanon, Bool.and_eq_true] at h
    cases v <;> simp only [norm]
    case ok v => rw [norm_id t h.1 v]
    case err v => rw [norm_id e h.2 v]
  | .tuple ts, h, v => by
    cases v <;> simp only [norm]
    case seq vs => rw [normList_id ts (by simpa [wireCanon] using h) vs]
  | .array n t, h, v => by
    cases v <;> simp only [norm]
    case seq vs => rw [map_id' _ _ (fun a _ => norm_id t (by simpa [wireCanon] using h) a)]
  | .garray n t, h, v => by
    cases v <;> simp only [norm]
    case seq vs => rw [map_id' _ _ (fun a _ => norm_id t (by simpa [wireCanon] using h) a)]
  | .seq k sz t, h, v => by
    simp only [wireCanon, Bool.and_eq_true] at h
    cases v <;> simp only [norm]
    case seq vs =>
      have := map_id' _ vs (fun a _ => norm_id t h.1 a)
      cases k <;> simp_all
  | .str, _, v => by cases v <;> simp [norm]
  | .bytes, _, v => by cases v <;> simp [norm]
  | .box sz t, h, v => by
    simp only [norm]; exact norm_id t (by simpa [wireCanon] using h) v
  | .wrap t, h, v => by
    simp only [norm]; exact norm_id t (by simpa [wireCanon] using h) v
  | .duration, _, v => by cases v <;> simp [norm]
  | .range t, h, v => by
    have ht : wireCanon t = true := by simpa [wireCanon] using h
    cases v <;> try (simp [norm]; done)
    case seq vs =>
      cases vs with
      | nil => simp [norm]
      | cons a vs =>
        cases vs with
        | nil => simp [norm]
        | cons b vs =>
          cases vs with
          | nil => simp [norm, norm_id t ht]
          | cons c vs => simp [norm]
  | .bitseq _ _, h, _ => by simp [wireCanon] at h
  | .enum idxs ts, h, v => by
    cases v <;> simp only [norm]
    case variant idx pv => rw [normVariant_id idxs ts (by simpa [wireCanon] using h) idx pv]

theorem normList_id : ∀ (ts : List Ty), wireCanon.wireCanonList ts = true → ∀ vs, normList ts vs = vs
  | [], _, vs => by simp [normList]
  | t :: ts, h, vs => by
    simp only [wireCanon.wireCanonList, Bool.and_eq_true] at h
    cases vs with
    | nil => simp [normList]
    | cons v vs => simp [normList, norm_id t h.1 v, normList_id ts h.2 vs]

theorem normVariant_id : ∀ (idxs : List Nat) (ts : List Ty), wireCanon.wireCanonList ts = true →
    ∀ idx v, normVariant idxs ts idx v = v
  | [], _, _, _, _ => by simp [normVariant]
  | _ :: _, [], _, _, _ => by simp [normVariant]
  | i :: is, t :: ts, h, idx, v => by
    simp only [wireCanon.wireCanonList, Bool.and_eq_true] at h
    simp only [normVariant]
    split
    · exact norm_id t h.1 v
    · exact normVariant_id is ts h.2 idx v
end

mutual
theorem canon_true : ∀ (ty : Ty), wireCanon ty = true → ∀ v, canon ty v = true
  | .unit, _, v => by cases v <;> simp [canon]
  | .bool, _, v => by cases v <;> simp [canon]
  | .optionBool, _, v => by cases v <;> simp [canon]
  | .prim _, _, v => by cases v <;> simp [canon]
  | .nonZero _, _, v => by cases v <;> simp [canon]
  | .compact _, _, v => by cases v <;> simp [canon]
  | .option t, h, v => by
    cases v <;> simp only [canon]
    case some v => exact canon_true t (by simpa [wireCanon] using h) v
  | .result t e, h, v => by
    simp only [wireCanon, Bool.and_eq_true] at h
    cases v <;> simp only [canon]
    case ok v => exact canon_true t h.1 v
    case err v => exact canon_true e h.2 v
  | .tuple ts, h, v => by
    cases v <;> simp only [canon]
    case seq vs => exact canonList_true ts (by simpa [wireCanon] using h) vs
  | .array n t, h, v => by
    cases v <;> simp only [canon]
    case seq vs =>
      simp only [List.all_eq_true]
      exact fun a _ => canon_true t (by simpa [wireCanon] using h) a
  | .garray n t, h, v => by
    cases v <;> simp only [canon]
    case seq vs =>
      simp only [List.all_eq_true]
      exact fun a _ => canon_true t (by simpa [wireCanon] using h) a
  | .seq k sz t, h, v => by
    simp only [wireCanon, Bool.and_eq_true] at h
    cases v <;> simp only [canon]
    case seq vs =>
      have : vs.all (canon t) = true := by
        simp only [List.all_eq_true]
        exact fun a _ => canon_true t h.1 a
      cases k <;> simp_all
  | .str, _, v => by cases v <;> simp [canon]
  | .bytes, _, v => by cases v <;> simp [canon]
  | .box sz t, h, v => by
    simp only [canon]; exact canon_true t (by simpa [wireCanon] using h) v
  | .wrap t, h, v => by
    simp only [canon]; exact canon_true t (by simpa [wireCanon] using h) v
  | .duration, _, v => by cases v <;> simp [canon]
  | .range t, h, v => by
    have ht : wireCanon t = true := by simpa [wireCanon] using h
    cases v <;> try (simp [canon]; done)
    case seq vs =>
      cases vs with
      | nil => simp [canon]
      | cons a vs =>
        cases vs with
        | nil => simp [canon]
        | cons b vs =>
          cases vs with
          | nil => simp [canon, canon_true t ht]
          | cons c vs => simp [canon]
  | .bitseq _ _, h, _ => by simp [wireCanon] at h
  | .enum idxs ts, h, v => by
    cases v <;> simp only [canon]
    case variant idx pv => exact canonVariant_true idxs ts (by simpa [wireCanon] using h) idx pv

theorem canonList_true : ∀ (ts : List Ty), wireCanon.wireCanonList ts = true → ∀ vs, canonList ts vs = true
  | [], _, vs => by simp [canonList]
  | t :: ts, h, vs => by
    simp only [wireCanon.wireCanonList, Bool.and_eq_true] at h
    cases vs with
    | nil => simp [canonList]
    | cons v vs => simp [canonList, canon_true t h.1 v, canonList_true ts h.2 vs]

theorem canonVariant_true : ∀ (idxs : List Nat) (ts : List Ty), wireCanon.wireCanonList ts = true →
    ∀ idx v, canonVariant idxs ts idx v = true
  | [], _, _, _, _ => by simp [canonVariant]
  | _ :: _, [], _, _, _ => by simp [canonVariant]
  | i :: is, t :: ts, h, idx, v => by
    simp only [wireCanon.wireCanonList, Bool.and_eq_true] at h
    simp only [canonVariant]
    split
    · exact canon_true t h.1 v
    · exact canonVariant_true is ts h.2 idx v
end

end Scale
