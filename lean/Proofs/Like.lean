/-
  Proofs/Like.lean — the encoding depends only on the shape of a type.
-/
import Scale.Like
import Scale.Encode
import Scale.Wf
import Proofs.Le
namespace Scale

mutual
theorem tyEq_eq : ∀ (a b : Ty), tyEq a b = true → a = b
  | .unit, b, h => by cases b <;> simp_all [tyEq]
  | .bool, b, h => by cases b <;> simp_all [tyEq]
  | .optionBool, b, h => by cases b <;> simp_all [tyEq]
  | .prim p, b, h => by cases b <;> simp_all [tyEq]
  | .nonZero p, b, h => by cases b <;> simp_all [tyEq]
  | .compact w, b, h => by cases b <;> simp_all [tyEq]
  | .option t, b, h => by
    cases b <;> try (simp [tyEq] at h; done)
    case option u => rw [tyEq_eq t u (by simpa [tyEq] using h)]
  | .result t e, b, h => by
    cases b <;> try (simp [tyEq] at h; done)
    case result u f =>
      simp only [tyEq, Bool.and_eq_true] at h
      rw [tyEq_eq t u h.1, tyEq_eq e f h.2]
  | .tuple ts, b, h => by
    cases b <;> try (simp [tyEq] at h; done)
    case tuple us => rw [tyEqList_eq ts us (by simpa [tyEq] using h)]
  | .array n t, b, h => by
    cases b <;> try (simp [tyEq] at h; done)
    case array m u =>
      simp only [tyEq, Bool.and_eq_true, beq_iff_eq] at h
      rw [h.1, tyEq_eq t u h.2]
  | .garray n t, b, h => by
    cases b <;> try (simp [tyEq] at h; done)
    case garray m u =>
      simp only [tyEq, Bool.and_eq_true, beq_iff_eq] at h
      rw [h.1, tyEq_eq t u h.2]
  | .seq k s t, b, h => by
    cases b <;> try (simp [tyEq] at h; done)
    case seq k' s' u =>
      simp only [tyEq, Bool.and_eq_true, beq_iff_eq] at h
      rw [h.1.1, h.1.2, tyEq_eq t u h.2]
  | .str, b, h => by cases b <;> simp_all [tyEq]
  | .bytes, b, h => by cases b <;> simp_all [tyEq]
  | .box s t, b, h => by
    cases b <;> try (simp [tyEq] at h; done)
    case box s' u =>
      simp only [tyEq, Bool.and_eq_true, beq_iff_eq] at h
      rw [h.1, tyEq_eq t u h.2]
  | .wrap t, b, h => by
    cases b <;> try (simp [tyEq] at h; done)
    case wrap u => rw [tyEq_eq t u (by simpa [tyEq] using h)]
  | .duration, b, h => by cases b <;> simp_all [tyEq]
  | .range t, b, h => by
    cases b <;> try (simp [tyEq] at h; done)
    case range u => rw [tyEq_eq t u (by simpa [tyEq] using h)]
  | .bitseq p m, b, h => by cases b <;> simp_all [tyEq]
  | .enum is ts, b, h => by
    cases b <;> try (simp [tyEq] at h; done)
    case «enum» js us =>
      simp only [tyEq, Bool.and_eq_true, beq_iff_eq] at h
      rw [h.1, tyEqList_eq ts us h.2]

theorem tyEqList_eq : ∀ (as bs : List Ty), tyEqList as bs = true → as = bs
  | [], [], _ => rfl
  | [], _ :: _, h => by simp [tyEqList] at h
  | _ :: _, [], h => by simp [tyEqList] at h
  | a :: as, b :: bs, h => by
    simp only [tyEqList, Bool.and_eq_true] at h
    rw [tyEq_eq a b h.1, tyEqList_eq as bs h.2]
end

mutual
/-- The SCALE encoding does not see holders or the flavour of a collection. -/
theorem encode_shape : ∀ (ty : Ty) (v : Val), Spec.encode (shape ty) v = Spec.encode ty v
  | .unit, v => by simp [shape]
  | .bool, v => by simp [shape]
  | .optionBool, v => by simp [shape]
  | .prim _, v => by simp [shape]
  | .nonZero _, v => by simp [shape]
  | .compact _, v => by simp [shape]
  | .option t, v => by
    cases v <;> simp [shape, Spec.encode, encode_shape t]
  | .result t e, v => by
    cases v <;> simp [shape, Spec.encode, encode_shape t, encode_shape e]
  | .tuple ts, v => by
    cases v <;> simp [shape, Spec.encode, encodeList_shape ts]
  | .array n t, v => by
    have e : Spec.encode (shape t) = Spec.encode t := funext (encode_shape t)
    cases v <;> simp [shape, Spec.encode, e]
  | .garray n t, v => by
    have e : Spec.encode (shape t) = Spec.encode t := funext (encode_shape t)
    cases v <;> simp [shape, Spec.encode, e]
  | .seq k s t, v => by
    have e : Spec.encode (shape t) = Spec.encode t := funext (encode_shape t)
    cases v <;> simp [shape, Spec.encode, e]
  | .str, v => by simp [shape]
  | .bytes, v => by simp [shape]
  | .box s t, v => by simp only [shape, Spec.encode]; exact encode_shape t v
  | .wrap t, v => by simp only [shape, Spec.encode]; exact encode_shape t v
  | .duration, v => by simp [shape]
  | .range t, v => by
    cases v <;> try (simp [shape, Spec.encode]; done)
    case seq vs =>
      cases vs with
      | nil => simp [shape, Spec.encode]
      | cons a vs =>
        cases vs with
        | nil => simp [shape, Spec.encode]
        | cons b vs =>
          cases vs with
          | nil => simp [shape, Spec.encode, encode_shape t]
          | cons c vs => simp [shape, Spec.encode]
  | .bitseq _ _, v => by simp [shape]
  | .enum is ts, v => by
    cases v <;> simp [shape, Spec.encode, encodeVariant_shape is ts]

theorem encodeList_shape : ∀ (ts : List Ty) (vs : List Val),
    Spec.encodeList (shapeList ts) vs = Spec.encodeList ts vs
  | [], vs => by simp [shapeList, Spec.encodeList]
  | t :: ts, vs => by
    cases vs with
    | nil => simp [shapeList, Spec.encodeList]
    | cons v vs => simp [shapeList, Spec.encodeList, encode_shape t, encodeList_shape ts]

theorem encodeVariant_shape : ∀ (is : List Nat) (ts : List Ty) (idx : Nat) (v : Val),
    Spec.encodeVariant is (shapeList ts) idx v = Spec.encodeVariant is ts idx v
  | [], ts, idx, v => by cases ts <;> simp [shapeList, Spec.encodeVariant]
  | i :: is, [], idx, v => by simp [shapeList, Spec.encodeVariant]
  | i :: is, t :: ts, idx, v => by
    simp only [shapeList, Spec.encodeVariant, encode_shape t, encodeVariant_shape is ts]
end

mutual
/-- … and neither does well-formedness. -/
theorem wf_shape : ∀ (ty : Ty) (v : Val), wf (shape ty) v = wf ty v
  | .unit, v => by simp [shape]
  | .bool, v => by simp [shape]
  | .optionBool, v => by simp [shape]
  | .prim _, v => by simp [shape]
  | .nonZero _, v => by simp [shape]
  | .compact _, v => by simp [shape]
  | .option t, v => by cases v <;> simp [shape, wf, wf_shape t]
  | .result t e, v => by cases v <;> simp [shape, wf, wf_shape t, wf_shape e]
  | .tuple ts, v => by cases v <;> simp [shape, wf, wfList_shape ts]
  | .array n t, v => by
    cases v <;> try (simp [shape, wf]; done)
    case seq vs => simp only [shape, wf]; congr 2; funext x; exact wf_shape t x
  | .garray n t, v => by
    cases v <;> try (simp [shape, wf]; done)
    case seq vs => simp only [shape, wf]; congr 2; funext x; exact wf_shape t x
  | .seq k s t, v => by
    cases v <;> try (simp [shape, wf]; done)
    case seq vs => simp only [shape, wf]; congr 2; funext x; exact wf_shape t x
  | .str, v => by simp [shape]
  | .bytes, v => by simp [shape]
  | .box s t, v => by simp only [shape, wf]; exact wf_shape t v
  | .wrap t, v => by simp only [shape, wf]; exact wf_shape t v
  | .duration, v => by simp [shape]
  | .range t, v => by
    cases v <;> try (simp [shape, wf]; done)
    case seq vs =>
      cases vs with
      | nil => simp [shape, wf]
      | cons a vs =>
        cases vs with
        | nil => simp [shape, wf]
        | cons b vs =>
          cases vs with
          | nil => simp [shape, wf, wf_shape t]
          | cons c vs => simp [shape, wf]
  | .bitseq _ _, v => by simp [shape]
  | .enum is ts, v => by cases v <;> simp [shape, wf, wfVariant_shape is ts]

theorem wfList_shape : ∀ (ts : List Ty) (vs : List Val), wfList (shapeList ts) vs = wfList ts vs
  | [], vs => by simp [shapeList]
  | t :: ts, vs => by
    cases vs with
    | nil => simp [shapeList, wfList]
    | cons v vs => simp [shapeList, wfList, wf_shape t, wfList_shape ts]

theorem wfVariant_shape : ∀ (is : List Nat) (ts : List Ty) (idx : Nat) (v : Val),
    wfVariant is (shapeList ts) idx v = wfVariant is ts idx v
  | [], ts, idx, v => by cases ts <;> simp [shapeList, wfVariant]
  | i :: is, [], idx, v => by simp [shapeList, wfVariant]
  | i :: is, t :: ts, idx, v => by
    simp only [shapeList, wfVariant, wf_shape t, wfVariant_shape is ts]
end

end Scale
