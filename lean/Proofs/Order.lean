/-
  Proofs/Order.lean — facts about the modelled key order and `from_iter` on sorted input.
-/
import Scale.Canon
namespace Scale

theorem cmpBytes_swap : ∀ (a b : Bytes), cmpBytes b a = (cmpBytes a b).swap
  | [], [] => by simp [cmpBytes]
  | [], _ :: _ => by simp [cmpBytes]
  | _ :: _, [] => by simp [cmpBytes]
  | x :: xs, y :: ys => by
    simp only [cmpBytes]
    by_cases h1 : x.toNat < y.toNat
    · have : ¬ y.toNat < x.toNat := by omega
      simp [h1, this]
    · by_cases h2 : y.toNat < x.toNat
      · simp [h1, h2]
      · simp only [h1, h2, if_false]
        exact cmpBytes_swap xs ys

theorem cmpBits_swap : ∀ (a b : List Bool), cmpBits b a = (cmpBits a b).swap
  | [], [] => by simp [cmpBits]
  | [], _ :: _ => by simp [cmpBits]
  | _ :: _, [] => by simp [cmpBits]
  | x :: xs, y :: ys => by
    simp only [cmpBits]
    by_cases h1 : x = y
    · subst h1
      simp only [if_true]
      exact cmpBits_swap xs ys
    · have h2 : ¬ y = x := fun e => h1 e.symm
      simp only [h1, h2, if_false]
      cases x <;> cases y <;> simp_all

mutual
theorem Val.cmp_swap : ∀ (a b : Val), Val.cmp b a = (Val.cmp a b).swap
  | .unit, b => by cases b <;> (simp only [Val.cmp, Val.rank, Nat.compare_swap] <;> try rfl)
  | .bool x, b => by
    cases b <;> (simp only [Val.cmp, Val.rank, Nat.compare_swap] <;> try rfl)
    case bool y => cases x <;> cases y <;> simp
  | .nat x, b => by cases b <;> (simp only [Val.cmp, Val.rank, Nat.compare_swap] <;> try rfl)
  | .int x, b => by cases b <;> (simp only [Val.cmp, Val.rank, Nat.compare_swap, Int.compare_swap] <;> try rfl)
  | .none, b => by cases b <;> (simp only [Val.cmp, Val.rank, Nat.compare_swap] <;> try rfl)
  | .some x, b => by
    cases b <;> (simp only [Val.cmp, Val.rank, Nat.compare_swap] <;> try rfl)
    case some y => exact Val.cmp_swap x y
  | .ok x, b => by
    cases b <;> (simp only [Val.cmp, Val.rank, Nat.compare_swap] <;> try rfl)
    case ok y => exact Val.cmp_swap x y
  | .err x, b => by
    cases b <;> (simp only [Val.cmp, Val.rank, Nat.compare_swap] <;> try rfl)
    case err y => exact Val.cmp_swap x y
  | .seq xs, b => by
    cases b <;> (simp only [Val.cmp, Val.rank, Nat.compare_swap] <;> try rfl)
    case seq ys => exact Val.cmpList_swap xs ys
  | .bytes x, b => by
    cases b <;> (simp only [Val.cmp, Val.rank, Nat.compare_swap] <;> try rfl)
    case bytes y => exact cmpBytes_swap x y
  | .bits x, b => by
    cases b <;> (simp only [Val.cmp, Val.rank, Nat.compare_swap] <;> try rfl)
    case bits y => exact cmpBits_swap x y
  | .variant i x, b => by
    cases b <;> (simp only [Val.cmp, Val.rank, Nat.compare_swap] <;> try rfl)
    case variant j y =>
      by_cases h1 : i < j
      · have : ¬ j < i := by omega
        simp [h1, this]
      · by_cases h2 : j < i
        · simp [h1, h2]
        · simp only [h1, h2, if_false]
          exact Val.cmp_swap x y
  | .skipped, b => by cases b <;> (simp only [Val.cmp, Val.rank, Nat.compare_swap] <;> try rfl)

theorem Val.cmpList_swap : ∀ (a b : List Val), Val.cmpList b a = (Val.cmpList a b).swap
  | [], [] => by simp [Val.cmpList]
  | [], _ :: _ => by simp [Val.cmpList]
  | _ :: _, [] => by simp [Val.cmpList]
  | x :: xs, y :: ys => by
    simp only [Val.cmpList]
    rw [Val.cmp_swap x y]
    cases hxy : Val.cmp x y with
    | lt => simp
    | gt => simp
    | eq => simp [Val.cmpList_swap xs ys]
end

theorem Val.cmp_lt_gt {a b : Val} (h : Val.cmp a b = .lt) : Val.cmp b a = .gt := by
  rw [Val.cmp_swap a b, h]; rfl

/-- Inserting an entry whose key is larger than every key present appends it. -/
theorem insertBy_append (key : Val → Val) (x : Val) :
    ∀ (l : List Val), (∀ y ∈ l, Val.cmp (key y) (key x) = .lt) → insertBy Val.cmp key x l = l ++ [x]
  | [], _ => rfl
  | y :: ys, h => by
    have hy := Val.cmp_lt_gt (h y (List.mem_cons_self))
    simp only [insertBy, hy, List.cons_append]
    rw [insertBy_append key x ys (fun z hz => h z (List.mem_cons_of_mem _ hz))]

theorem strictSorted_append {key : Val → Val} {l : List Val} {x : Val}
    (h : strictSorted key (l ++ [x]) = true) :
    strictSorted key l = true ∧ ∀ y ∈ l, Val.cmp (key y) (key x) = .lt := by
  induction l with
  | nil => simp [strictSorted]
  | cons a l ih =>
    simp only [List.cons_append, strictSorted, Bool.and_eq_true, List.all_eq_true, List.mem_append,
      List.mem_singleton, beq_iff_eq] at h
    obtain ⟨h1, h2⟩ := h
    obtain ⟨ih1, ih2⟩ := ih h2
    refine ⟨?_, ?_⟩
    · simp only [strictSorted, Bool.and_eq_true, List.all_eq_true, beq_iff_eq]
      exact ⟨fun b hb => h1 b (Or.inl hb), ih1⟩
    · intro y hy
      rcases List.mem_cons.mp hy with rfl | hy
      · exact h1 x (Or.inr rfl)
      · exact ih2 y hy

theorem strictSorted_prefix {key : Val → Val} :
    ∀ (l m : List Val), strictSorted key (l ++ m) = true → strictSorted key l = true
  | [], _, _ => rfl
  | a :: l, m, h => by
    simp only [List.cons_append, strictSorted, Bool.and_eq_true, List.all_eq_true, beq_iff_eq,
      List.mem_append] at h ⊢
    exact ⟨fun b hb => h.1 b (Or.inl hb), strictSorted_prefix l m h.2⟩

/-- `from_iter` of a strictly sorted entry list is that list: a map or set value survives the
    decode unchanged. -/
theorem fromIter_sorted (key : Val → Val) (l : List Val) (h : strictSorted key l = true) :
    fromIter Val.cmp key l = l := by
  unfold fromIter
  -- generalise to folding over a suffix
  suffices H : ∀ (pre suf : List Val), strictSorted key (pre ++ suf) = true →
      suf.foldl (fun acc x => insertBy Val.cmp key x acc) pre = pre ++ suf by
    simpa using H [] l (by simpa using h)
  intro pre suf
  induction suf generalizing pre with
  | nil => simp
  | cons x xs ih =>
    intro hs
    simp only [List.foldl_cons]
    have hs' : strictSorted key ((pre ++ [x]) ++ xs) = true := by simpa using hs
    have hpx : strictSorted key (pre ++ [x]) = true := strictSorted_prefix (pre ++ [x]) xs hs'
    rw [insertBy_append key x pre (strictSorted_append hpx).2]
    rw [ih (pre ++ [x]) hs']
    simp

theorem insertSorted_perm (x : Val) : ∀ (l : List Val), (insertSorted Val.cmp x l).Perm (x :: l)
  | [] => List.Perm.refl _
  | y :: ys => by
    simp only [insertSorted]
    split
    · exact ((insertSorted_perm x ys).cons y).trans (List.Perm.swap x y ys)
    · exact List.Perm.refl _

/-- Sorting a decoded heap only permutes it: equality as a multiset. -/
theorem sortVals_perm (l : List Val) : (sortVals Val.cmp l).Perm l := by
  unfold sortVals
  suffices H : ∀ (acc suf : List Val), (suf.foldl (fun acc x => insertSorted Val.cmp x acc) acc).Perm (suf.reverse ++ acc) by
    have := H [] l
    simp only [List.append_nil] at this
    exact this.trans (List.reverse_perm l)
  intro acc suf
  induction suf generalizing acc with
  | nil => simp
  | cons x xs ih =>
    simp only [List.foldl_cons, List.reverse_cons, List.append_assoc, List.singleton_append]
    exact (ih _).trans ((insertSorted_perm x acc).append_left _)

end Scale
