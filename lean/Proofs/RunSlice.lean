/-
  Proofs/RunSlice.lean — how `run sliceInput` steps through the primitive calls.
-/
import Scale.Input
import Proofs.Le
namespace Scale

@[simp] theorem run_pure {σ α} (I : InputOps σ) (a : α) (s : σ) : run I (.pure a) s = (.ok a, s) := rfl
@[simp] theorem run_fail {σ α} (I : InputOps σ) (s : σ) : run I (.fail : Prog α) s = (.err, s) := rfl
@[simp] theorem run_panic {σ α} (I : InputOps σ) (s : σ) : run I (.panic : Prog α) s = (.panic, s) := rfl

theorem run_slice_read {α} (n : Nat) (k : Bytes → Prog α) (s : Bytes) :
    run sliceInput (.read n k) s =
      if n > s.length then (.err, s) else run sliceInput (k (s.take n)) (s.drop n) := by
  by_cases h : n > s.length
  · simp [run, sliceInput, sliceRead_eq, h]
  · simp [run, sliceInput, sliceRead_eq, h]

@[simp] theorem run_slice_readByte_nil {α} (k : UInt8 → Prog α) :
    run sliceInput (.readByte k) [] = (.err, []) := rfl

@[simp] theorem run_slice_readByte_cons {α} (k : UInt8 → Prog α) (b : UInt8) (s : Bytes) :
    run sliceInput (.readByte k) (b :: s) = run sliceInput (k b) s := rfl

@[simp] theorem run_slice_descend {α} (k : Unit → Prog α) (s : Bytes) :
    run sliceInput (.descend k) s = run sliceInput (k ()) s := rfl

@[simp] theorem run_slice_ascend {α} (k : Unit → Prog α) (s : Bytes) :
    run sliceInput (.ascend k) s = run sliceInput (k ()) s := rfl

@[simp] theorem run_slice_alloc {α} (n : Nat) (k : Unit → Prog α) (s : Bytes) :
    run sliceInput (.alloc n k) s = run sliceInput (k ()) s := rfl

theorem run_slice_read_append {α} {n : Nat} (k : Bytes → Prog α) {bs : Bytes} (rest : Bytes)
    (h : bs.length = n) : run sliceInput (.read n k) (bs ++ rest) = run sliceInput (k bs) rest := by
  rw [run_slice_read]
  have : ¬ n > (bs ++ rest).length := by simp; omega
  simp only [this, if_false]
  subst h
  simp

theorem run_slice_read_ok {α} {n : Nat} {k : Bytes → Prog α} {s rest : Bytes} {x : α}
    (h : run sliceInput (.read n k) s = (.ok x, rest)) :
    ∃ b tl, s = b ++ tl ∧ b.length = n ∧ run sliceInput (k b) tl = (.ok x, rest) := by
  rw [run_slice_read] at h
  split at h
  · cases h
  · next hn =>
    refine ⟨s.take n, s.drop n, (List.take_append_drop n s).symm, ?_, h⟩
    simp; omega

/-- Generic bind rule. -/
theorem run_bind {σ α β} (I : InputOps σ) (p : Prog α) (f : α → Prog β) (s : σ) :
    run I (p.bind f) s =
      match run I p s with
      | (.ok a, s1) => run I (f a) s1
      | (.err, s1) => (.err, s1)
      | (.panic, s1) => (.panic, s1) := by
  induction p generalizing s with
  | pure a => simp [Prog.bind]
  | fail => simp [Prog.bind]
  | panic => simp [Prog.bind]
  | read n k ih =>
    simp only [Prog.bind, run]
    cases h : I.read n s with
    | mk r s1 => cases r <;> simp [ih]
  | readByte k ih =>
    simp only [Prog.bind, run]
    cases h : I.readByte s with
    | mk r s1 => cases r <;> simp [ih]
  | descend k ih =>
    simp only [Prog.bind, run]
    cases h : I.descend s with
    | mk r s1 => cases r <;> simp [ih]
  | ascend k ih => simp only [Prog.bind, run, ih]
  | alloc n k ih =>
    simp only [Prog.bind, run]
    cases h : I.onAlloc n s with
    | mk r s1 => cases r <;> simp [ih]
  | bulk sz c k ih =>
    simp only [Prog.bind, run]
    cases h : runBulk I sz c s with
    | mk r s1 => cases r <;> simp [ih]
  | rawBytes n k ih =>
    simp only [Prog.bind, run]
    cases h : runRawBytes I n s with
    | mk r s1 => cases r <;> simp [ih]

theorem run_slice_replicate_rdByte_append {n : Nat} {bs : Bytes} (rest : Bytes) (h : bs.length = n) :
    run sliceInput (Prog.replicateM n Prog.rdByte) (bs ++ rest) = (.ok bs, rest) := by
  induction n generalizing bs with
  | zero =>
    have : bs = [] := List.eq_nil_of_length_eq_zero h
    subst this; rfl
  | succ n ih =>
    match bs, h with
    | b :: bs', h =>
      simp only [List.length_cons, Nat.add_right_cancel_iff] at h
      have ih' := ih (bs := bs') h
      simp only [Prog.rdByte] at ih'
      simp only [Prog.replicateM, run_bind, Prog.rdByte, List.cons_append, run_slice_readByte_cons,
        run_pure, ih']

theorem run_slice_replicate_rdByte_ok {n : Nat} {s rest v : Bytes}
    (h : run sliceInput (Prog.replicateM n Prog.rdByte) s = (.ok v, rest)) :
    s = v ++ rest ∧ v.length = n := by
  induction n generalizing s v with
  | zero =>
    simp only [Prog.replicateM, run_pure, Prod.mk.injEq, Res.ok.injEq] at h
    obtain ⟨rfl, rfl⟩ := h
    simp
  | succ n ih =>
    cases s with
    | nil => simp [Prog.replicateM, run_bind, Prog.rdByte] at h
    | cons b s' =>
      simp only [Prog.replicateM, run_bind, Prog.rdByte, run_slice_readByte_cons, run_pure] at h
      cases hr : run sliceInput (Prog.replicateM n (Prog.readByte Prog.pure)) s' with
      | mk r s1 =>
        rw [hr] at h
        cases r with
        | ok a =>
          simp only [Prod.mk.injEq, Res.ok.injEq] at h
          obtain ⟨rfl, rfl⟩ := h
          have := ih (s := s') (v := a) (by simpa [Prog.rdByte] using hr)
          simp [this.1, this.2]
        | err => simp at h
        | panic => simp at h

end Scale
