/-
  Proofs/Derive.lean — facts about the derive's decision logic.
-/
import Scale.Derive
namespace Scale
open Derive

theorem hasDuplicate_iff : ∀ (xs : List Nat), hasDuplicate xs = true ↔ ¬ xs.Nodup
  | [] => by simp [hasDuplicate]
  | x :: xs => by
    have ih := hasDuplicate_iff xs
    simp only [hasDuplicate, Bool.or_eq_true, List.any_eq_true, beq_iff_eq, List.nodup_cons]
    constructor
    · rintro (⟨y, hy, rfl⟩ | h)
      · exact fun hn => hn.1 hy
      · exact fun hn => (ih.mp h) hn.2
    · intro hn
      by_cases hx : x ∈ xs
      · exact Or.inl ⟨x, hx, rfl⟩
      · exact Or.inr (ih.mpr (fun hnd => hn ⟨hx, hnd⟩))

theorem hasInvalidIndex_iff (xs : List Nat) : hasInvalidIndex xs = false ↔ ∀ i ∈ xs, i < 256 := by
  simp only [hasInvalidIndex, List.any_eq_false, decide_eq_true_eq]
  constructor
  · intro h i hi; have := h i hi; omega
  · intro h i hi; have := h i hi; omega

def plainVariant (v : Variant) : Prop := v.indexAttr = none ∧ v.discriminant = none

/-- Implicit indices count only the non-skipped variants. -/
theorem implicit_indices : ∀ (vs : List Variant) (i : Nat), (∀ v ∈ vs, plainVariant v) →
    indicesFrom i vs = List.range' i ((vs.filter fun v => !v.skip).length)
  | [], i, _ => by simp [indicesFrom]
  | v :: vs, i, h => by
    have hv := h v (List.mem_cons_self)
    have ih := fun j => implicit_indices vs j (fun w hw => h w (List.mem_cons_of_mem _ hw))
    simp only [indicesFrom]
    by_cases hs : v.skip = true
    · simp [hs, ih]
    · have hs' : v.skip = false := by simpa using hs
      simp [hs', ih, variantIndex, hv.1, hv.2, List.range'_succ]

theorem indices_payloads_length : ∀ (vs : List Variant) (i : Nat),
    (indicesFrom i vs).length = (payloadsOf vs).length
  | [], _ => rfl
  | v :: vs, i => by
    simp only [indicesFrom, payloadsOf]
    split
    · exact indices_payloads_length vs i
    · simp [indices_payloads_length vs (i + 1)]

end Scale
