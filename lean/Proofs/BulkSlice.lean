/-
  Proofs/BulkSlice.lean — `read_vec_from_u8s` on a slice: all or nothing.
-/
import Proofs.RunSlice
namespace Scale

theorem chunkLoop_slice (sz cl : Nat) (hcl : 1 ≤ cl) :
    ∀ (fuel rem : Nat) (acc s : Bytes), rem ≤ fuel → rem * sz ≤ s.length →
      chunkLoop sliceInput sz cl fuel rem acc s = (.ok (acc ++ s.take (rem * sz)), s.drop (rem * sz)) := by
  intro fuel
  induction fuel with
  | zero =>
    intro rem acc s h1 _
    have : rem = 0 := by omega
    subst this
    simp [chunkLoop]
  | succ fuel ih =>
    intro rem acc s h1 h2
    unfold chunkLoop
    by_cases h0 : rem = 0
    · subst h0; simp
    · simp only [h0, if_false]
      have hc1 : 1 ≤ min cl rem := by omega
      have hc2 : min cl rem ≤ rem := Nat.min_le_right _ _
      have hle : min cl rem * sz ≤ s.length := Nat.le_trans (Nat.mul_le_mul_right sz hc2) h2
      have hrd : sliceInput.read (min cl rem * sz) s =
          (.ok (s.take (min cl rem * sz)), s.drop (min cl rem * sz)) := by
        simp [sliceInput, sliceRead_eq]; omega
      have hal : sliceInput.onAlloc (satMul (min cl rem) sz) s = (.ok (), s) := rfl
      simp only [hal, hrd]
      have hsub : (rem - min cl rem) * sz = rem * sz - min cl rem * sz := Nat.sub_mul _ _ _
      have hle2 : min cl rem * sz ≤ rem * sz := Nat.mul_le_mul_right sz hc2
      rw [ih (rem - min cl rem) _ _ (by omega) (by simp; omega)]
      simp only [List.append_assoc, List.drop_drop, Prod.mk.injEq, Res.ok.injEq, List.append_cancel_left_eq]
      constructor
      · rw [← List.take_add]
        congr 1; omega
      · congr 1; omega

theorem runBulk_slice {sz n : Nat} (h1 : 1 ≤ sz) (h2 : sz ≤ maxPrealloc) (s : Bytes) :
    runBulk sliceInput sz n s =
      if n * sz > usizeMax ∨ s.length < n * sz then (.err, s)
      else (.ok (s.take (n * sz)), s.drop (n * sz)) := by
  unfold runBulk
  have hg : ¬ sz > maxPrealloc := by omega
  simp only [hg, if_false]
  by_cases hov : n * sz > usizeMax
  · simp [hov]
  · simp only [hov, if_false, false_or]
    have hrl : sliceInput.remainingLen s = (.ok (some s.length), s) := rfl
    simp only [hrl]
    by_cases hlen : s.length < n * sz
    · simp [hlen]
    · simp only [hlen, if_false]
      have hz : ¬ sz = 0 := by omega
      simp only [hz, if_false]
      have hcl : 1 ≤ maxPrealloc / sz := (Nat.one_le_div_iff (by omega)).mpr h2
      rw [chunkLoop_slice sz _ hcl n n [] s (Nat.le_refl _) (by omega)]
      simp

theorem run_slice_bulk {α} {sz n : Nat} (h1 : 1 ≤ sz) (h2 : sz ≤ maxPrealloc) (k : Bytes → Prog α) (s : Bytes) :
    run sliceInput (.bulk sz n k) s =
      if n * sz > usizeMax ∨ s.length < n * sz then (.err, s)
      else run sliceInput (k (s.take (n * sz))) (s.drop (n * sz)) := by
  simp only [run, runBulk_slice h1 h2]
  by_cases h : n * sz > usizeMax ∨ s.length < n * sz
  · simp [h]
  · simp [h]

theorem run_slice_rawBytes {α} (n : Nat) (k : Bytes → Prog α) (s : Bytes) :
    run sliceInput (.rawBytes n k) s =
      if n > usizeMax ∨ s.length < n then (.err, s)
      else run sliceInput (k (s.take n)) (s.drop n) := by
  have : runRawBytes sliceInput n s = runBulk sliceInput 1 n s := rfl
  simp only [run, this, runBulk_slice (Nat.le_refl 1) (by decide : 1 ≤ maxPrealloc), Nat.mul_one]
  by_cases h : n > usizeMax ∨ s.length < n
  · simp [h]
  · simp [h]

end Scale
