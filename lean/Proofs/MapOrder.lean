/-
  Proofs/MapOrder.lean — a map or set built from the same entries in any insertion order iterates
  (hence encodes) identically: `from_iter`/repeated `insert` over a lawful key order is canonical.
-/
import Scale.Order
namespace Scale

/-- The laws of `Ord` the argument uses (std's contract for key types). -/
structure LawfulCmp (cmp : Val → Val → Ordering) : Prop where
  swap : ∀ a b, cmp b a = (cmp a b).swap
  trans : ∀ a b c, cmp a b = .lt → cmp b c = .lt → cmp a c = .lt
  eq_key : ∀ a b, cmp a b = .eq → a = b

def SortedBy (cmp : Val → Val → Ordering) (key : Val → Val) : List Val → Prop
  | [] => True
  | a :: rest => (∀ b ∈ rest, cmp (key a) (key b) = .lt) ∧ SortedBy cmp key rest

theorem mem_insertBy {cmp : Val → Val → Ordering} {key : Val → Val} (x : Val) :
    ∀ (l : List Val) (y : Val), y ∈ insertBy cmp key x l → y = x ∨ y ∈ l
  | [], y, h => by simp [insertBy] at h; exact Or.inl h
  | z :: zs, y, h => by
    simp only [insertBy] at h
    split at h
    · rcases List.mem_cons.mp h with rfl | h
      · exact Or.inl rfl
      · exact Or.inr h
    · rcases List.mem_cons.mp h with rfl | h
      · exact Or.inl rfl
      · exact Or.inr (List.mem_cons_of_mem _ h)
    · rcases List.mem_cons.mp h with rfl | h
      · exact Or.inr (List.mem_cons_self)
      · rcases mem_insertBy x zs y h with h | h
        · exact Or.inl h
        · exact Or.inr (List.mem_cons_of_mem _ h)

/-- Insertion keeps the entry list strictly sorted by key. -/
theorem insertBy_sorted {cmp : Val → Val → Ordering} (hc : LawfulCmp cmp) {key : Val → Val} (x : Val) :
    ∀ (l : List Val), SortedBy cmp key l → SortedBy cmp key (insertBy cmp key x l)
  | [], _ => by simp [insertBy, SortedBy]
  | y :: ys, h => by
    obtain ⟨h1, h2⟩ := h
    simp only [insertBy]
    cases hxy : cmp (key x) (key y) with
    | lt =>
      refine ⟨fun b hb => ?_, h1, h2⟩
      rcases List.mem_cons.mp hb with rfl | hb
      · exact hxy
      · exact hc.trans _ _ _ hxy (h1 b hb)
    | eq =>
      have e := hc.eq_key _ _ hxy
      refine ⟨fun b hb => ?_, h2⟩
      rw [e]; exact h1 b hb
    | gt =>
      have hyx : cmp (key y) (key x) = .lt := by rw [hc.swap, hxy]; rfl
      refine ⟨fun b hb => ?_, insertBy_sorted hc x ys h2⟩
      rcases mem_insertBy x ys b hb with rfl | hb
      · exact hyx
      · exact h1 b hb

theorem fromIter_sorted_any {cmp : Val → Val → Ordering} (hc : LawfulCmp cmp) (key : Val → Val) (l : List Val) :
    SortedBy cmp key (fromIter cmp key l) := by
  unfold fromIter
  suffices H : ∀ (acc : List Val), SortedBy cmp key acc →
      SortedBy cmp key (l.foldl (fun acc x => insertBy cmp key x acc) acc) from H [] trivial
  induction l with
  | nil => intro acc h; exact h
  | cons x xs ih => intro acc h; exact ih _ (insertBy_sorted hc x acc h)

theorem lt_irrefl {cmp : Val → Val → Ordering} (hc : LawfulCmp cmp) (a : Val) : cmp a a ≠ .lt := by
  intro h
  have := hc.swap a a
  rw [h] at this
  cases this

/-- Two strictly sorted entry lists with the same members are the same list. -/
theorem sorted_unique {cmp : Val → Val → Ordering} (hc : LawfulCmp cmp) {key : Val → Val} :
    ∀ (l₁ l₂ : List Val), SortedBy cmp key l₁ → SortedBy cmp key l₂ → (∀ x, x ∈ l₁ ↔ x ∈ l₂) → l₁ = l₂
  | [], [], _, _, _ => rfl
  | [], b :: _, _, _, h => by have := (h b).mpr (List.mem_cons_self); cases this
  | a :: _, [], _, _, h => by have := (h a).mp (List.mem_cons_self); cases this
  | a :: as, b :: bs, h1, h2, h => by
    obtain ⟨ha, has⟩ := h1
    obtain ⟨hb, hbs⟩ := h2
    have hab : a = b := by
      rcases List.mem_cons.mp ((h a).mp (List.mem_cons_self)) with e | ha'
      · exact e
      · rcases List.mem_cons.mp ((h b).mpr (List.mem_cons_self)) with e | hb'
        · exact e.symm
        · -- a ∈ bs so key b < key a; b ∈ as so key a < key b
          have l1 := hb a ha'
          have l2 := ha b hb'
          exact absurd (hc.trans _ _ _ l1 l2) (lt_irrefl hc _)
    subst hab
    congr 1
    apply sorted_unique hc as bs has hbs
    intro x
    constructor
    · intro hx
      rcases List.mem_cons.mp ((h x).mp (List.mem_cons_of_mem _ hx)) with e | hx'
      · subst e; exact absurd (ha x hx) (lt_irrefl hc _)
      · exact hx'
    · intro hx
      rcases List.mem_cons.mp ((h x).mpr (List.mem_cons_of_mem _ hx)) with e | hx'
      · subst e; exact absurd (hb x hx) (lt_irrefl hc _)
      · exact hx'

end Scale

namespace Scale

def DistinctKeys (cmp : Val → Val → Ordering) (key : Val → Val) : List Val → Prop
  | [] => True
  | a :: rest => (∀ b ∈ rest, cmp (key a) (key b) ≠ .eq) ∧ DistinctKeys cmp key rest

theorem mem_insertBy_iff {cmp : Val → Val → Ordering} {key : Val → Val} (x : Val) :
    ∀ (l : List Val), (∀ y ∈ l, cmp (key x) (key y) ≠ .eq) → ∀ z, z ∈ insertBy cmp key x l ↔ z = x ∨ z ∈ l
  | [], _, z => by simp [insertBy]
  | y :: ys, h, z => by
    simp only [insertBy]
    cases hxy : cmp (key x) (key y) with
    | lt => simp
    | eq => exact absurd hxy (h y (List.mem_cons_self))
    | gt =>
      simp only [List.mem_cons]
      rw [mem_insertBy_iff x ys (fun w hw => h w (List.mem_cons_of_mem _ hw)) z]
      constructor
      · rintro (h | h | h)
        · exact Or.inr (Or.inl h)
        · exact Or.inl h
        · exact Or.inr (Or.inr h)
      · rintro (h | h | h)
        · exact Or.inr (Or.inl h)
        · exact Or.inl h
        · exact Or.inr (Or.inr h)

theorem mem_fromIter_iff {cmp : Val → Val → Ordering} (hc : LawfulCmp cmp) {key : Val → Val} (l : List Val)
    (hd : DistinctKeys cmp key l) : ∀ z, z ∈ fromIter cmp key l ↔ z ∈ l := by
  unfold fromIter
  suffices H : ∀ (suf acc : List Val), DistinctKeys cmp key suf →
      (∀ x ∈ suf, ∀ y ∈ acc, cmp (key x) (key y) ≠ .eq) →
      ∀ z, z ∈ suf.foldl (fun acc x => insertBy cmp key x acc) acc ↔ z ∈ acc ∨ z ∈ suf by
    intro z
    have := H l [] hd (fun _ _ _ h => by cases h) z
    simpa using this
  intro suf
  induction suf with
  | nil => intro acc _ _ z; simp
  | cons x xs ih =>
    intro acc hd hx z
    obtain ⟨hd1, hd2⟩ := hd
    simp only [List.foldl_cons]
    rw [ih (insertBy cmp key x acc) hd2 ?_ z]
    · rw [mem_insertBy_iff x acc (fun y hy => hx x (List.mem_cons_self) y hy) z]
      simp only [List.mem_cons]
      constructor
      · rintro ((h | h) | h)
        · exact Or.inr (Or.inl h)
        · exact Or.inl h
        · exact Or.inr (Or.inr h)
      · rintro (h | h | h)
        · exact Or.inl (Or.inr h)
        · exact Or.inl (Or.inl h)
        · exact Or.inr h
    · intro w hw y hy
      rcases (mem_insertBy_iff x acc (fun y hy => hx x (List.mem_cons_self) y hy) y).mp hy with rfl | hy
      · -- key w vs key x: distinct since x precedes w in the entry list
        intro he
        have := hd1 w hw
        rw [hc.swap, he] at this
        exact this rfl
      · exact hx w (List.mem_cons_of_mem _ hw) y hy

/-- **Insertion-order independence**: the same entries (distinct keys) inserted in any order give
    the same iteration order, hence the same encoding. -/
theorem fromIter_perm {cmp : Val → Val → Ordering} (hc : LawfulCmp cmp) (key : Val → Val) (l₁ l₂ : List Val)
    (hp : l₁.Perm l₂) (hd₁ : DistinctKeys cmp key l₁) (hd₂ : DistinctKeys cmp key l₂) :
    fromIter cmp key l₁ = fromIter cmp key l₂ := by
  apply sorted_unique hc _ _ (fromIter_sorted_any hc key l₁) (fromIter_sorted_any hc key l₂)
  intro x
  rw [mem_fromIter_iff hc l₁ hd₁, mem_fromIter_iff hc l₂ hd₂]
  exact hp.mem_iff

end Scale
