/-
  Proofs/RoundTrip.lean — `decode (encode v ++ rest) = (norm v, rest)` through the real decoder
  structure (chunked readers, bulk paths, hooks), for every well-formed value of every type.
-/
import Scale.Decode
import Scale.Encode
import Scale.Canon
import Proofs.CompactDec
import Proofs.BulkSlice
import Proofs.Prim
import Proofs.Order
import Proofs.EncodeRef
import Proofs.Bits
namespace Scale
open Impl

theorem run_compactDec_enc {w x : Nat} (hw : w = 1 ∨ w = 2 ∨ w = 4 ∨ w = 8 ∨ w = 16)
    (hx : x < 2 ^ (8 * w)) (rest : Bytes) :
    run sliceInput (compactDec w) (Spec.compact x ++ rest) = (.ok x, rest) :=
  compactDecode_rt hw hx rest

theorem run_len_enc {n : Nat} (h : n ≤ u32Max) (rest : Bytes) :
    run sliceInput (compactDec 4) (Spec.compact n ++ rest) = (.ok n, rest) :=
  run_compactDec_enc (by simp) (by simp [u32Max] at h; omega) rest

/-- Decoding `n` encoded items one after another. -/
theorem run_replicateM_enc {item : Prog Val} {enc : Val → Bytes} {nrm : Val → Val} :
    ∀ (vs : List Val),
      (∀ v ∈ vs, ∀ rest, run sliceInput item (enc v ++ rest) = (.ok (nrm v), rest)) →
      ∀ rest, run sliceInput (Prog.replicateM vs.length item) ((vs.map enc).flatten ++ rest) =
        (.ok (vs.map nrm), rest)
  | [], _, rest => by simp [Prog.replicateM]
  | v :: vs, h, rest => by
    simp only [List.length_cons, Prog.replicateM, List.map_cons, List.flatten_cons, List.append_assoc,
      run_bind, h v (List.mem_cons_self)]
    rw [run_replicateM_enc vs (fun u hu => h u (List.mem_cons_of_mem _ hu)) rest]
    simp

theorem flatten_take_drop (enc : Val → Bytes) (vs : List Val) (c : Nat) :
    (vs.map enc).flatten = ((vs.take c).map enc).flatten ++ ((vs.drop c).map enc).flatten := by
  rw [← List.flatten_append, ← List.map_append, List.take_append_drop]

/-- The chunked element-by-element reader decodes exactly the `n` items, for every `n`. -/
theorem run_itemChunks_enc {sz : Nat} (hcl : 1 ≤ chunkLenOf sz) {item : Prog Val} {enc : Val → Bytes}
    {nrm : Val → Val} :
    ∀ (fuel : Nat) (vs : List Val), vs.length ≤ fuel →
      (∀ v ∈ vs, ∀ rest, run sliceInput item (enc v ++ rest) = (.ok (nrm v), rest)) →
      ∀ rest, run sliceInput (itemChunks sz item fuel vs.length) ((vs.map enc).flatten ++ rest) =
        (.ok (vs.map nrm), rest) := by
  intro fuel
  induction fuel with
  | zero =>
    intro vs hl _ rest
    have : vs = [] := List.eq_nil_of_length_eq_zero (by omega)
    subst this
    simp [itemChunks]
  | succ fuel ih =>
    intro vs hl h rest
    unfold itemChunks
    by_cases h0 : vs.length = 0
    · have : vs = [] := List.eq_nil_of_length_eq_zero h0
      subst this
      simp
    · simp only [h0, if_false, run_slice_alloc, run_bind]
      have hc1 : 1 ≤ min (chunkLenOf sz) vs.length := by omega
      have hc2 : min (chunkLenOf sz) vs.length ≤ vs.length := Nat.min_le_right _ _
      generalize hc : min (chunkLenOf sz) vs.length = c at *
      have hlt : (vs.take c).length = c := by simp; omega
      have e1 := run_replicateM_enc (item := item) (enc := enc) (nrm := nrm) (vs.take c)
        (fun v hv => h v (List.mem_of_mem_take hv))
      rw [hlt] at e1
      rw [flatten_take_drop enc vs c, List.append_assoc, e1]
      simp only
      have hld : (vs.drop c).length = vs.length - c := by simp
      have e2 := ih (vs.drop c) (by omega) (fun v hv => h v (List.mem_of_mem_drop hv)) rest
      rw [hld] at e2
      rw [e2]
      simp only [run_pure]
      rw [← List.map_append, List.take_append_drop]

theorem prim_size_le (p : Prim) : 1 ≤ p.size ∧ p.size ≤ 16 := by cases p <;> simp [Prim.size]

theorem run_bulk_enc {α} (p : Prim) (vs : List Val) (hw : ∀ v ∈ vs, primWf p v = true)
    (hl : vs.length ≤ u32Max) (k : Bytes → Prog α) (rest : Bytes) :
    run sliceInput (.bulk p.size vs.length k) ((vs.map (primBytes p)).flatten ++ rest) =
      run sliceInput (k (vs.map (primBytes p)).flatten) rest := by
  have ⟨h1, h16⟩ := prim_size_le p
  rw [run_slice_bulk h1 (by simp [maxPrealloc]; omega)]
  have hlen : (vs.map (primBytes p)).flatten.length = vs.length * p.size := by
    have := flatten_length_const (vs.map (primBytes p)) (size := p.size)
      (by intro c hc; obtain ⟨v, hv, rfl⟩ := List.mem_map.mp hc; exact primBytes_length (hw v hv))
    simpa using this
  have hc : ¬ (vs.length * p.size > usizeMax ∨
      ((vs.map (primBytes p)).flatten ++ rest).length < vs.length * p.size) := by
    simp only [List.length_append, hlen, usizeMax]
    simp only [u32Max] at hl
    have : vs.length * p.size ≤ (2 ^ 32 - 1) * 16 := Nat.mul_le_mul hl h16
    omega
  simp only [hc, if_false]
  rw [List.take_left' hlen, List.drop_left' hlen]

theorem primElems_enc (p : Prim) (vs : List Val) (hw : ∀ v ∈ vs, primWf p v = true) :
    primElems p vs.length (vs.map (primBytes p)).flatten = vs := by
  unfold primElems
  have := chunksOf_flatten (size := p.size) (vs.map (primBytes p))
    (by intro c hc; obtain ⟨v, hv, rfl⟩ := List.mem_map.mp hc; exact primBytes_length (hw v hv)) []
  simp only [List.length_map, List.append_nil] at this
  rw [this, List.map_map]
  conv => rhs; rw [← List.map_id vs]
  apply List.map_congr_left
  intro v hv
  simp [primVal_primBytes (hw v hv)]

end Scale

namespace Scale
open Impl

theorem all_mem {p : Val → Bool} {vs : List Val} (h : vs.all p = true) : ∀ v ∈ vs, p v = true := by
  simpa using h

theorem norm_prim (p : Prim) (v : Val) : norm (.prim p) v = v := by
  cases v <;> simp [norm]

theorem chunkLenOf_pos {sz : Nat} (h : sz ≤ maxPrealloc) : 1 ≤ chunkLenOf sz := by
  unfold chunkLenOf
  split
  · simp [usizeMax]
  · next hz => exact (Nat.one_le_div_iff (by omega)).mpr h

/-- `decode_vec_with_len` on an encoded element sequence. -/
theorem run_decodeVecWithLen_enc {sz : Nat} (hsz : sz ≤ maxPrealloc) (t : Ty) (vs : List Val)
    (hl : vs.length ≤ u32Max) (hwf : ∀ v ∈ vs, wf t v = true)
    (h : ∀ v ∈ vs, ∀ rest, run sliceInput (decodeP t) (Spec.encode t v ++ rest) = (.ok (norm t v), rest))
    (rest : Bytes) :
    run sliceInput (decodeVecWithLen sz t (decodeP t) vs.length)
      ((vs.map (Spec.encode t)).flatten ++ rest) = (.ok (vs.map (norm t)), rest) := by
  unfold decodeVecWithLen
  split
  · next p =>
    have hw : ∀ v ∈ vs, primWf p v = true := fun v hv => by simpa [wf] using hwf v hv
    have e : vs.map (Spec.encode (.prim p)) = vs.map (primBytes p) :=
      List.map_congr_left (fun v _ => by rw [Spec.encode])
    rw [e, run_bulk_enc p vs hw hl, primElems_enc p vs hw]
    simp only [run_pure, Prod.mk.injEq, Res.ok.injEq, and_true]
    conv => lhs; rw [← List.map_id vs]
    exact List.map_congr_left (fun v _ => (norm_prim p v).symm)
  · unfold decodeItems
    simp only [run_slice_descend, run_bind]
    rw [run_itemChunks_enc (chunkLenOf_pos hsz) vs.length vs (Nat.le_refl _) h rest]
    simp

mutual
theorem decode_encode : ∀ (ty : Ty) (v : Val), wf ty v = true → canon ty v = true → layoutOk ty = true →
    ∀ rest, run sliceInput (decodeP ty) (Spec.encode ty v ++ rest) = (.ok (norm ty v), rest)
  | .unit, v, h, _hc, _hl, rest => by
    cases v <;> try (simp [wf] at h; done)
    simp [decodeP, Spec.encode, norm]
  | .bool, v, h, _hc, _hl, rest => by
    cases v <;> try (simp [wf] at h; done)
    case bool b => cases b <;> simp [decodeP, Spec.encode, norm]
  | .optionBool, v, h, _hc, _hl, rest => by
    cases v <;> try (simp [wf] at h; done)
    case none => simp [decodeP, Spec.encode, norm]
    case some v =>
      cases v <;> try (simp [wf] at h; done)
      case bool b => cases b <;> simp [decodeP, Spec.encode, norm]
  | .prim p, v, h, _hc, _hl, rest => by
    simp only [wf] at h
    have hl := primBytes_length h
    simp only [decodeP, decodePrim, Spec.encode, norm_prim]
    by_cases h1 : p.size = 1
    · simp only [h1, if_true]
      rw [h1] at hl
      match hb : primBytes p v, hl with
      | [b], _ =>
        simp only [List.cons_append, List.nil_append, run_slice_readByte_cons, run_pure]
        rw [← hb, primVal_primBytes h]
    · simp only [h1, if_false]
      rw [run_slice_read_append _ rest hl]
      simp [primVal_primBytes h]
  | .nonZero p, v, h, _hc, _hl, rest => by
    simp only [wf, Bool.and_eq_true, Bool.not_eq_true'] at h
    have hl := primBytes_length h.1
    have hn : norm (.nonZero p) v = v := by cases v <;> simp [norm]
    simp only [decodeP, decodePrim, Spec.encode, hn, run_bind]
    by_cases h1 : p.size = 1
    · simp only [h1, if_true]
      rw [h1] at hl
      match hb : primBytes p v, hl with
      | [b], _ =>
        simp only [List.cons_append, List.nil_append, run_slice_readByte_cons, run_pure]
        rw [← hb, primVal_primBytes h.1]
        simp [h.2]
    · simp only [h1, if_false]
      rw [run_slice_read_append _ rest hl]
      simp [primVal_primBytes h.1, h.2]
  | .compact w, v, h, _hc, _hl, rest => by
    cases v <;> try (simp [wf] at h; done)
    case nat n =>
      simp only [wf, Bool.and_eq_true, decide_eq_true_eq] at h
      simp only [decodeP, Spec.encode, run_bind, run_compactDec_enc (widthOk_iff h.1) h.2, norm]
      simp
  | .option t, v, h, hc, hl, rest => by
    cases v <;> try (simp [wf] at h; done)
    case none => simp [decodeP, Spec.encode, norm]
    case some v =>
      simp only [wf] at h; simp only [canon] at hc; simp only [layoutOk] at hl
      simp [decodeP, Spec.encode, norm, run_bind, decode_encode t v h hc hl]
  | .result t e, v, h, hc, hl, rest => by
    simp only [layoutOk, Bool.and_eq_true] at hl
    cases v <;> try (simp [wf] at h; done)
    case ok v =>
      simp only [wf] at h; simp only [canon] at hc
      simp [decodeP, Spec.encode, norm, run_bind, decode_encode t v h hc hl.1]
    case err v =>
      simp only [wf] at h; simp only [canon] at hc
      simp [decodeP, Spec.encode, norm, run_bind, decode_encode e v h hc hl.2]
  | .tuple ts, v, h, hc, hl, rest => by
    cases v <;> try (simp [wf] at h; done)
    case seq vs =>
      simp only [wf] at h; simp only [canon] at hc; simp only [layoutOk] at hl
      simp [decodeP, Spec.encode, norm, run_bind, decodeList_encode ts vs h hc hl]
  | .array n t, v, h, hc, hl, rest => by
    cases v <;> try (simp [wf] at h; done)
    case seq vs =>
      simp only [wf, Bool.and_eq_true, beq_iff_eq] at h
      simp only [canon] at hc; simp only [layoutOk] at hl
      obtain ⟨hn, hall⟩ := h
      subst hn
      have hwf := all_mem hall
      have hcn := all_mem hc
      simp only [decodeP, Spec.encode, norm]
      split
      · next p =>
        have hw : ∀ v ∈ vs, primWf p v = true := fun v hv => by simpa [wf] using hwf v hv
        have e : vs.map (Spec.encode (.prim p)) = vs.map (primBytes p) :=
          List.map_congr_left (fun v _ => by rw [Spec.encode])
        have hlen : (vs.map (primBytes p)).flatten.length = vs.length * p.size := by
          have := flatten_length_const (vs.map (primBytes p)) (size := p.size)
            (by intro c hc; obtain ⟨v, hv, rfl⟩ := List.mem_map.mp hc; exact primBytes_length (hw v hv))
          simpa using this
        rw [e, run_slice_read_append _ rest hlen, primElems_enc p vs hw]
        simp only [run_pure, Prod.mk.injEq, Res.ok.injEq, Val.seq.injEq, and_true]
        conv => lhs; rw [← List.map_id vs]
        exact List.map_congr_left (fun v _ => (norm_prim p v).symm)
      · simp only [run_bind]
        rw [run_replicateM_enc vs (fun v hv rest => decode_encode t v (hwf v hv) (hcn v hv) hl rest) rest]
        simp
  | .garray n t, v, h, hc, hl, rest => by
    cases v <;> try (simp [wf] at h; done)
    case seq vs =>
      simp only [wf, Bool.and_eq_true, beq_iff_eq] at h
      simp only [canon] at hc; simp only [layoutOk] at hl
      obtain ⟨hn, hall⟩ := h
      subst hn
      have hwf := all_mem hall
      have hcn := all_mem hc
      simp only [decodeP, Spec.encode, norm, run_bind]
      rw [run_replicateM_enc vs (fun v hv rest => decode_encode t v (hwf v hv) (hcn v hv) hl rest) rest]
      simp
  | .seq k sz t, v, h, hc, hl, rest => by
    cases v <;> try (simp [wf] at h; done)
    case seq vs =>
      simp only [wf, Bool.and_eq_true, decide_eq_true_eq] at h
      simp only [canon, Bool.and_eq_true] at hc
      simp only [layoutOk, Bool.and_eq_true] at hl
      obtain ⟨hlen, hall⟩ := h
      have hwf := all_mem hall
      have hcn := all_mem hc.1
      have hel : ∀ v ∈ vs, ∀ rest, run sliceInput (decodeP t) (Spec.encode t v ++ rest) = (.ok (norm t v), rest) :=
        fun v hv rest => decode_encode t v (hwf v hv) (hcn v hv) hl.1 rest
      simp only [decodeP, Spec.encode, List.append_assoc, run_bind, run_len_enc hlen]
      cases k
      · have hsz : sz ≤ maxPrealloc := by simpa using hl.2
        simp only [run_bind, run_decodeVecWithLen_enc hsz t vs hlen hwf hel rest, run_pure, norm]
      · have hsz : sz ≤ maxPrealloc := by simpa using hl.2
        simp only [run_bind, run_decodeVecWithLen_enc hsz t vs hlen hwf hel rest, run_pure, norm]
      · have hsz : sz ≤ maxPrealloc := by simpa using hl.2
        simp only [run_bind, run_decodeVecWithLen_enc hsz t vs hlen hwf hel rest, run_pure, norm]
      · simp only [run_slice_descend, run_slice_alloc, run_bind, run_replicateM_enc vs hel rest,
          run_slice_ascend, run_pure, norm]
      · have hs : strictSorted id (vs.map (norm t)) = true := by simpa using hc.2
        simp only [run_slice_descend, run_slice_alloc, run_bind, run_replicateM_enc vs hel rest,
          run_slice_ascend, run_pure, norm, fromIter_sorted id _ hs]
      · have hs : strictSorted entryKey (vs.map (norm t)) = true := by simpa using hc.2
        simp only [run_slice_descend, run_slice_alloc, run_bind, run_replicateM_enc vs hel rest,
          run_slice_ascend, run_pure, norm, fromIter_sorted entryKey _ hs]
  | .str, v, h, _hc, _hl, rest => by
    cases v <;> try (simp [wf] at h; done)
    case bytes bs =>
      simp only [wf, Bool.and_eq_true, decide_eq_true_eq] at h
      simp only [decodeP, Spec.encode, List.append_assoc, run_bind, run_len_enc h.1, norm]
      rw [run_slice_bulk (Nat.le_refl 1) (by decide)]
      have hc : ¬ (bs.length > usizeMax ∨ (bs ++ rest).length < bs.length) := by
        have := h.1; simp [u32Max, usizeMax] at this ⊢; omega
      simp only [Nat.mul_one, hc, if_false, List.take_left' rfl, List.drop_left' rfl, h.2, if_true, run_pure]
  | .bytes, v, h, _hc, _hl, rest => by
    cases v <;> try (simp [wf] at h; done)
    case bytes bs =>
      simp only [wf, decide_eq_true_eq] at h
      simp only [decodeP, Spec.encode, List.append_assoc, run_bind, run_len_enc h, norm]
      rw [run_slice_rawBytes]
      have hc : ¬ (bs.length > usizeMax ∨ (bs ++ rest).length < bs.length) := by
        simp [u32Max, usizeMax] at h ⊢; omega
      simp only [hc, if_false, List.take_left' rfl, List.drop_left' rfl, run_pure]
  | .box sz t, v, h, hc, hl, rest => by
    simp only [wf] at h; simp only [canon] at hc; simp only [layoutOk] at hl
    simp [decodeP, Spec.encode, norm, run_bind, decode_encode t v h hc hl]
  | .wrap t, v, h, hc, hl, rest => by
    simp only [wf] at h; simp only [canon] at hc; simp only [layoutOk] at hl
    simp [decodeP, Spec.encode, norm, run_bind, decode_encode t v h hc hl]
  | .duration, v, h, _hc, _hl, rest => by
    obtain ⟨s, n, rfl, hs, hn⟩ := wf_duration h
    have h8 : fromLe (leBytes 8 s) = s := fromLe_leBytes_of_lt (by rw [pow256]; exact hs)
    have h4 : fromLe (leBytes 4 n) = n := fromLe_leBytes_of_lt (by rw [pow256]; omega)
    simp only [decodeP, Spec.encode, norm, List.append_assoc]
    rw [run_slice_read_append _ _ (leBytes_length 8 s), run_slice_read_append _ _ (leBytes_length 4 n)]
    have : ¬ 1000000000 ≤ n := by omega
    simp [this, h8, h4]
  | .range t, v, h, hc, hl, rest => by
    obtain ⟨a, b, rfl, ha, hb⟩ := wf_range h
    simp only [canon, Bool.and_eq_true] at hc; simp only [layoutOk] at hl
    simp [decodeP, Spec.encode, norm, run_bind, decode_encode t a ha hc.1 hl, decode_encode t b hb hc.2 hl]
  | .bitseq store msb, v, h, _hc, _hl, rest => by
    cases v <;> try (simp [wf] at h; done)
    case bits bs =>
      simp only [wf, Bool.and_eq_true, decide_eq_true_eq] at h
      have hlen : bs.length ≤ u32Max := by have := h.2; simp [maxBits, u32Max] at this ⊢; omega
      have hmb : ¬ bs.length > maxBits := by omega
      obtain ⟨r1, r2, r3⟩ := bits_roundtrip store msb bs
      have ⟨hs1, hs16⟩ := prim_size_le store
      simp only [decodeP, Spec.encode, List.append_assoc, run_bind, run_len_enc hlen, hmb, if_false, norm]
      rw [run_slice_bulk hs1 (by simp [maxPrealloc]; omega)]
      simp only [elts]
      have e : bytesOfBits store msb bs = ((bitChunks (8 * store.size) bs.length bs).map fun c =>
        leBytes store.size (bitsToElem (8 * store.size) msb 0 c)).flatten := rfl
      rw [← e]
      have hc : ¬ ((bs.length + 8 * store.size - 1) / (8 * store.size) * store.size > usizeMax ∨
          (bytesOfBits store msb bs ++ rest).length < (bs.length + 8 * store.size - 1) / (8 * store.size) * store.size) := by
        simp only [List.length_append, r1, usizeMax]
        have : (bs.length + 8 * store.size - 1) / (8 * store.size) ≤ bs.length + 8 * store.size - 1 := Nat.div_le_self _ _
        have h2 := Nat.mul_le_mul this hs16
        simp [maxBits] at h
        omega
      simp only [hc, if_false, List.take_left' r1, List.drop_left' r1]
      have e2 : ((chunksOf store.size ((bs.length + 8 * store.size - 1) / (8 * store.size)) (bytesOfBits store msb bs)).map
          fun e => elemToBits (8 * store.size) msb (fromLe e)).flatten =
          bitsOfBytes store msb ((bs.length + 8 * store.size - 1) / (8 * store.size)) (bytesOfBits store msb bs) := rfl
      simp only [e2, r2, if_true, r3, run_pure]
  | .enum idxs ts, v, h, hc, hl, rest => by
    cases v <;> try (simp [wf] at h; done)
    case variant idx v =>
      simp only [wf] at h; simp only [canon] at hc
      have hl' : layoutOk.layoutOkList ts = true := by simpa [layoutOk] using hl
      obtain ⟨hidx, payload, he, hd⟩ := decodeVariant_encode idxs ts idx v h hc hl'
      have : (UInt8.ofNat idx).toNat = idx := by rw [UInt8.toNat_ofNat']; omega
      simp only [norm, Spec.encode, he, decodeP, List.cons_append, run_slice_readByte_cons, this, hd rest]

theorem decodeList_encode : ∀ (ts : List Ty) (vs : List Val), wfList ts vs = true → canonList ts vs = true →
    layoutOk.layoutOkList ts = true →
    ∀ rest, run sliceInput (decodeList ts) (Spec.encodeList ts vs ++ rest) = (.ok (normList ts vs), rest)
  | [], vs, h, _hc, _hl, rest => by
    cases vs <;> simp [wfList] at h
    simp [decodeList, Spec.encodeList, normList]
  | t :: ts, vs, h, hc, hl, rest => by
    cases vs <;> try (simp [wfList] at h; done)
    case cons v vs =>
      simp only [wfList, Bool.and_eq_true] at h
      simp only [canonList, Bool.and_eq_true] at hc
      simp only [layoutOk.layoutOkList, Bool.and_eq_true] at hl
      simp [decodeList, Spec.encodeList, normList, run_bind, decode_encode t v h.1 hc.1 hl.1,
        decodeList_encode ts vs h.2 hc.2 hl.2]

theorem decodeVariant_encode : ∀ (idxs : List Nat) (ts : List Ty) (idx : Nat) (v : Val),
    wfVariant idxs ts idx v = true → canonVariant idxs ts idx v = true → layoutOk.layoutOkList ts = true →
    idx < 256 ∧ ∃ payload, Spec.encodeVariant idxs ts idx v = UInt8.ofNat idx :: payload ∧
      ∀ rest, run sliceInput (decodeVariant idxs ts idx) (payload ++ rest) =
        (.ok (.variant idx (normVariant idxs ts idx v)), rest)
  | [], ts, idx, v, h, _, _ => by simp [wfVariant] at h
  | i :: is, [], idx, v, h, _, _ => by simp [wfVariant] at h
  | i :: is, t :: ts, idx, v, h, hc, hl => by
    simp only [wfVariant, Bool.and_eq_true, decide_eq_true_eq] at h
    simp only [layoutOk.layoutOkList, Bool.and_eq_true] at hl
    obtain ⟨hlt, h⟩ := h
    by_cases hi : i = idx
    · subst hi
      simp only [if_true] at h
      simp only [canonVariant, if_true] at hc
      refine ⟨hlt, Spec.encode t v, by simp [Spec.encodeVariant], fun rest => ?_⟩
      have : i % 256 = i := by omega
      simp [decodeVariant, this, run_bind, decode_encode t v h hc hl.1 rest, normVariant]
    · simp only [hi, if_false] at h
      simp only [canonVariant, hi, if_false] at hc
      obtain ⟨hidx, payload, he, hd⟩ := decodeVariant_encode is ts idx v h hc hl.2
      refine ⟨hidx, payload, by simp [Spec.encodeVariant, hi, he], fun rest => ?_⟩
      have : ¬ i % 256 = idx := by omega
      simp [decodeVariant, this, hd rest, normVariant, hi]
end

end Scale
