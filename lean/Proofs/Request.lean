/-
  Proofs/Request.lean — part 1: the request-instrumented decoder `decodeR` is the decoder `decodeP`
  up to `alloc` nodes, so both return the same result and leave the same rest on every input whose
  `on_before_alloc_mem` hook is a no-op (slice, reader, shared buffer).
-/
import Scale.Request
import Proofs.RunSlice
import Proofs.Sim
import Proofs.Wrappers
namespace Scale
open Impl Prog

/-- Erase every `alloc` node. -/
def strip {α : Type} : Prog α → Prog α
  | .pure a => .pure a
  | .fail => .fail
  | .panic => .panic
  | .read n k => .read n fun b => strip (k b)
  | .readByte k => .readByte fun b => strip (k b)
  | .descend k => .descend fun u => strip (k u)
  | .ascend k => .ascend fun u => strip (k u)
  | .alloc _ k => strip (k ())
  | .bulk sz c k => .bulk sz c fun b => strip (k b)
  | .rawBytes n k => .rawBytes n fun b => strip (k b)

theorem strip_bind {α β : Type} (p : Prog α) (f : α → Prog β) :
    strip (p.bind f) = (strip p).bind (fun a => strip (f a)) := by
  induction p with
  | pure a => rfl
  | fail => rfl
  | panic => rfl
  | read n k ih => simp only [Prog.bind, strip]; congr; funext b; exact ih b
  | readByte k ih => simp only [Prog.bind, strip]; congr; funext b; exact ih b
  | descend k ih => simp only [Prog.bind, strip]; congr; funext b; exact ih b
  | ascend k ih => simp only [Prog.bind, strip]; congr; funext b; exact ih b
  | alloc n k ih => simp only [Prog.bind, strip]; exact ih ()
  | bulk sz c k ih => simp only [Prog.bind, strip]; congr; funext b; exact ih b
  | rawBytes n k ih => simp only [Prog.bind, strip]; congr; funext b; exact ih b

theorem strip_ite {α : Type} (c : Prop) [Decidable c] (p q : Prog α) :
    strip (if c then p else q) = if c then strip p else strip q := by
  split <;> rfl

theorem strip_replicateM {α : Type} (p : Prog α) : ∀ n, strip (replicateM n p) = replicateM n (strip p)
  | 0 => rfl
  | n+1 => by
    simp only [replicateM, strip_bind, strip_replicateM p n]
    rfl

/-- Erasing `alloc` nodes does not change a run over an input whose hook is a no-op. -/
theorem run_strip {σ α : Type} (I : InputOps σ) (hI : ∀ n s, I.onAlloc n s = (.ok (), s)) (p : Prog α) :
    ∀ s, run I (strip p) s = run I p s := by
  induction p with
  | pure a => intro s; rfl
  | fail => intro s; rfl
  | panic => intro s; rfl
  | read n k ih =>
    intro s; simp only [strip, run]
    rcases h : I.read n s with ⟨r, s1⟩
    cases r <;> simp [ih]
  | readByte k ih =>
    intro s; simp only [strip, run]
    rcases h : I.readByte s with ⟨r, s1⟩
    cases r <;> simp [ih]
  | descend k ih =>
    intro s; simp only [strip, run]
    rcases h : I.descend s with ⟨r, s1⟩
    cases r <;> simp [ih]
  | ascend k ih => intro s; simp only [strip, run, ih]
  | alloc n k ih => intro s; simp only [strip, run, hI, ih]
  | bulk sz c k ih =>
    intro s; simp only [strip, run]
    rcases h : runBulk I sz c s with ⟨r, s1⟩
    cases r <;> simp [ih]
  | rawBytes n k ih =>
    intro s; simp only [strip, run]
    rcases h : runRawBytes I n s with ⟨r, s1⟩
    cases r <;> simp [ih]

theorem strip_nodeItem (node : Nat) (item : Prog Val) : strip (nodeItem node item) = strip item := by
  simp only [nodeItem, strip_bind, strip]
  exact Prog.bind_pure_id _

theorem strip_itemChunks_congr (sz : Nat) {item item' : Prog Val} (h : strip item = strip item') :
    ∀ fuel rem, strip (itemChunks sz item fuel rem) = strip (itemChunks sz item' fuel rem)
  | 0, _ => rfl
  | fuel+1, rem => by
    unfold itemChunks
    split
    · rfl
    · simp only [strip, strip_bind, strip_replicateM, h, strip_itemChunks_congr sz h fuel]

theorem strip_decodeVecWithLen_congr (sz : Nat) (t : Ty) {item item' : Prog Val} (h : strip item = strip item')
    (len : Nat) : strip (decodeVecWithLen sz t item len) = strip (decodeVecWithLen sz t item' len) := by
  unfold decodeVecWithLen
  split
  · rfl
  · simp only [decodeItems, strip, strip_bind, strip_itemChunks_congr sz h]

mutual
theorem strip_decodeR : ∀ ty : Ty, strip (decodeR ty) = strip (decodeP ty)
  | .unit => rfl
  | .bool => rfl
  | .optionBool => rfl
  | .prim _ => rfl
  | .nonZero _ => rfl
  | .compact _ => rfl
  | .duration => rfl
  | .str => rfl
  | .bytes => rfl
  | .bitseq _ _ => rfl
  | .option t => by
    simp only [decodeR, decodeP, strip, strip_ite, strip_bind, strip_decodeR t]
  | .result t e => by
    simp only [decodeR, decodeP, strip, strip_ite, strip_bind, strip_decodeR t, strip_decodeR e]
  | .tuple ts => by
    simp only [decodeR, decodeP, strip_bind, strip_decodeListR ts]
  | .array n t => by
    unfold decodeR decodeP
    split
    · rfl
    · simp only [strip_bind, strip_replicateM, strip_decodeR t]
  | .garray n t => by
    simp only [decodeR, decodeP, strip_bind, strip_replicateM, strip_decodeR t]
  | .seq k sz t => by
    have ih := strip_decodeR t
    cases k <;>
      simp only [decodeR, decodeP, strip, strip_bind, strip_replicateM, strip_nodeItem, ih,
        strip_decodeVecWithLen_congr sz t ih]
  | .box sz t => by
    simp only [decodeR, decodeP, strip, strip_bind, strip_decodeR t]
  | .wrap t => by
    simp only [decodeR, decodeP, strip, strip_bind, strip_decodeR t]
  | .range t => by
    simp only [decodeR, decodeP, strip, strip_bind, strip_decodeR t]
  | .enum idxs ts => by
    simp only [decodeR, decodeP, strip]
    congr; funext b
    exact strip_decodeVariantR idxs ts b.toNat

theorem strip_decodeListR : ∀ ts : List Ty, strip (decodeListR ts) = strip (decodeList ts)
  | [] => rfl
  | t :: ts => by
    simp only [decodeListR, decodeList, strip_bind, strip_decodeR t, strip_decodeListR ts]

theorem strip_decodeVariantR : ∀ (idxs : List Nat) (ts : List Ty) (b : Nat),
    strip (decodeVariantR idxs ts b) = strip (decodeVariant idxs ts b)
  | [], _, _ => by simp [decodeVariantR, decodeVariant]
  | _ :: _, [], _ => by simp [decodeVariantR, decodeVariant]
  | i :: is, t :: ts, b => by
    simp only [decodeVariantR, decodeVariant, strip_ite, strip_bind, strip_decodeR t,
      strip_decodeVariantR is ts b]
end

/-- **Same results.** Over any input whose allocation hook is a no-op, the request-instrumented
    decoder returns what the decoder returns and leaves the input in the same state. -/
theorem run_decodeR {σ : Type} (I : InputOps σ) (hI : ∀ n s, I.onAlloc n s = (.ok (), s)) (ty : Ty) (s : σ) :
    run I (decodeR ty) s = run I (decodeP ty) s := by
  rw [← run_strip I hI (decodeR ty), ← run_strip I hI (decodeP ty), strip_decodeR]


/-! ### the fast request recorder computes the requests of the trace -/

theorem allocsOf_snoc_alloc (t : List Hook) (n : Nat) : allocsOf (t ++ [.alloc n]) = allocsOf t ++ [n] := by
  simp [allocsOf, List.filterMap_append]
theorem allocsOf_snoc_desc (t : List Hook) : allocsOf (t ++ [.desc]) = allocsOf t := by
  simp [allocsOf, List.filterMap_append]
theorem allocsOf_snoc_asc (t : List Hook) : allocsOf (t ++ [.asc]) = allocsOf t := by
  simp [allocsOf, List.filterMap_append]

theorem trace_req_exact {σ : Type} (I : InputOps σ) :
    ExactOps (traceRec I) (reqRec I) (fun a b => b.1 = a.1 ∧ b.2 = (allocsOf a.2).reverse) where
  remainingLen := by rintro ⟨s, t⟩ ⟨s', u⟩ ⟨h1, h2⟩; simp only at h1 h2; subst h1; subst h2; exact ⟨rfl, rfl, rfl⟩
  read := by rintro n ⟨s, t⟩ ⟨s', u⟩ ⟨h1, h2⟩; simp only at h1 h2; subst h1; subst h2; exact ⟨rfl, rfl, rfl⟩
  readByte := by rintro ⟨s, t⟩ ⟨s', u⟩ ⟨h1, h2⟩; simp only at h1 h2; subst h1; subst h2; exact ⟨rfl, rfl, rfl⟩
  descend := by
    rintro ⟨s, t⟩ ⟨s', u⟩ ⟨h1, h2⟩; simp only at h1 h2; subst h1; subst h2
    simp only [traceRec, reqRec]
    rcases res_cases (I.descend s') with ⟨x, s1, h⟩ | ⟨s1, h⟩ | ⟨s1, h⟩
    · cases x; simp [h, allocsOf_snoc_desc]
    · simp [h]
    · simp [h]
  ascend := by
    rintro ⟨s, t⟩ ⟨s', u⟩ ⟨h1, h2⟩; simp only at h1 h2; subst h1; subst h2
    exact ⟨rfl, by simp [traceRec, reqRec, allocsOf_snoc_asc]⟩
  onAlloc := by
    rintro n ⟨s, t⟩ ⟨s', u⟩ ⟨h1, h2⟩; simp only at h1 h2; subst h1; subst h2
    simp only [traceRec, reqRec]
    rcases res_cases (I.onAlloc n s') with ⟨x, s1, h⟩ | ⟨s1, h⟩ | ⟨s1, h⟩ <;> rw [h]
    · cases x; exact ⟨rfl, rfl, by simp [allocsOf_snoc_alloc]⟩
    · exact ⟨rfl, rfl, rfl⟩
    · exact ⟨rfl, rfl, rfl⟩
  rawNone := ⟨rfl, rfl⟩

/-- **The executable request recorder is the request trace.** What the driver prints for a `reqs`
    request is the result, the rest and `requestsOn` of the traced run the theorems speak about. -/
theorem requestsFast_eq (I : InputOps Bytes) (ty : Ty) (bs : Bytes) :
    requestsFast I ty bs =
      ((run (traceRec I) (decodeR ty) (bs, [])).1, (run (traceRec I) (decodeR ty) (bs, [])).2.1, requestsOn I ty bs) := by
  have h := run_exact (trace_req_exact I) (decodeR ty) (bs, []) (bs, []) ⟨rfl, rfl⟩
  simp only [requestsFast, requestsOn]
  rw [← h.1, h.2.1, h.2.2]
  simp

end Scale
