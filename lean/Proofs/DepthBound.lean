/-
  Proofs/DepthBound.lean — under a depth limit `L` the decoder never has more than `L` container
  levels open at once, for every program, inner input and byte string (successful decode or not).
  `traceRec (depthInput L I)` records the `descend_ref` calls the limiter ACCEPTED.
-/
import Scale.Ghost
import Proofs.Trace
import Proofs.HookFacts
namespace Scale
open Prog

abbrev DepSt (σ : Type) := (σ × Nat) × List Hook

/-- while nothing was refused: the limiter's counter is the number of currently open accepted
    descents, and the maximum so far is within the limit -/
def DepInv {σ : Type} (L : Nat) (st : DepSt σ) : Prop :=
  (depthFold st.2 (0, 0)).1 = st.1.2 ∧ (depthFold st.2 (0, 0)).2 ≤ L

def DepFin {σ : Type} (L : Nat) (st : DepSt σ) : Prop := (depthFold st.2 (0, 0)).2 ≤ L

theorem DepInv.fin {σ : Type} {L : Nat} {st : DepSt σ} (h : DepInv L st) : DepFin L st := h.2

theorem depthFold_snoc (t : List Hook) (h : Hook) : depthFold (t ++ [h]) (0, 0) = Hook.depthStep (depthFold t (0, 0)) h := by
  simp [depthFold, List.foldl_append]

theorem dep_descend {σ : Type} (I : InputOps σ) (L : Nat) (st : DepSt σ) (h : DepInv L st) :
    (((traceRec (depthInput L I)).descend st).1 = .ok () → DepInv L ((traceRec (depthInput L I)).descend st).2) ∧
    DepFin L ((traceRec (depthInput L I)).descend st).2 := by
  obtain ⟨⟨s, d⟩, tr⟩ := st
  obtain ⟨e, m⟩ := h
  simp only at e m
  simp only [traceRec, depthInput]
  rcases res_cases (I.descend s) with ⟨x, s1, hx⟩ | ⟨s1, hx⟩ | ⟨s1, hx⟩ <;> simp only [hx]
  · cases x
    by_cases hgt : d + 1 > L
    · simp only [hgt, if_true]
      exact ⟨(fun hc => by cases hc), m⟩
    · simp only [hgt, if_false]
      have hs : depthFold (tr ++ [Hook.desc]) (0, 0) = ((depthFold tr (0, 0)).1 + 1, max (depthFold tr (0, 0)).2 ((depthFold tr (0, 0)).1 + 1)) := by
        rw [depthFold_snoc]; rfl
      refine ⟨fun _ => ⟨?_, ?_⟩, ?_⟩
      · show (depthFold (tr ++ [Hook.desc]) (0, 0)).1 = d + 1
        rw [hs]; simp only; omega
      · show (depthFold (tr ++ [Hook.desc]) (0, 0)).2 ≤ L
        rw [hs]; simp only; omega
      · show (depthFold (tr ++ [Hook.desc]) (0, 0)).2 ≤ L
        rw [hs]; simp only; omega
  · exact ⟨(fun hc => by cases hc), m⟩
  · exact ⟨(fun hc => by cases hc), m⟩

theorem dep_ascend {σ : Type} (I : InputOps σ) (L : Nat) (st : DepSt σ) (h : DepInv L st) :
    DepInv L ((traceRec (depthInput L I)).ascend st) := by
  obtain ⟨⟨s, d⟩, tr⟩ := st
  obtain ⟨e, m⟩ := h
  simp only at e m
  have hs : depthFold (tr ++ [Hook.asc]) (0, 0) = ((depthFold tr (0, 0)).1 - 1, (depthFold tr (0, 0)).2) := by
    rw [depthFold_snoc]; rfl
  refine ⟨?_, ?_⟩
  · show (depthFold (tr ++ [Hook.asc]) (0, 0)).1 = d - 1
    rw [hs]; simp only; omega
  · show (depthFold (tr ++ [Hook.asc]) (0, 0)).2 ≤ L
    rw [hs]; exact m

theorem dep_onAlloc {σ : Type} (I : InputOps σ) (L n : Nat) (st : DepSt σ) (h : DepInv L st) :
    DepInv L ((traceRec (depthInput L I)).onAlloc n st).2 := by
  obtain ⟨⟨s, d⟩, tr⟩ := st
  obtain ⟨e, m⟩ := h
  simp only at e m
  simp only [traceRec, depthInput]
  rcases res_cases (I.onAlloc n s) with ⟨x, s1, hx⟩ | ⟨s1, hx⟩ | ⟨s1, hx⟩ <;> simp only [hx]
  · cases x
    have hs : depthFold (tr ++ [Hook.alloc n]) (0, 0) = depthFold tr (0, 0) := by rw [depthFold_snoc]; rfl
    exact ⟨by show (depthFold (tr ++ [Hook.alloc n]) (0, 0)).1 = d; rw [hs]; exact e,
           by show (depthFold (tr ++ [Hook.alloc n]) (0, 0)).2 ≤ L; rw [hs]; exact m⟩
  · exact ⟨e, m⟩
  · exact ⟨e, m⟩

theorem dep_read {σ : Type} (I : InputOps σ) (L n : Nat) (st : DepSt σ) (h : DepInv L st) :
    DepInv L ((traceRec (depthInput L I)).read n st).2 := by
  obtain ⟨⟨s, d⟩, tr⟩ := st
  exact h

theorem dep_readByte {σ : Type} (I : InputOps σ) (L : Nat) (st : DepSt σ) (h : DepInv L st) :
    DepInv L ((traceRec (depthInput L I)).readByte st).2 := by
  obtain ⟨⟨s, d⟩, tr⟩ := st
  exact h

theorem dep_remainingLen {σ : Type} (I : InputOps σ) (L : Nat) (st : DepSt σ) (h : DepInv L st) :
    DepInv L ((traceRec (depthInput L I)).remainingLen st).2 := by
  obtain ⟨⟨s, d⟩, tr⟩ := st
  exact h

theorem dep_chunkLoop {σ : Type} (I : InputOps σ) (L : Nat) (sz cl : Nat) :
    ∀ (fuel rem : Nat) (acc : Bytes) (st : DepSt σ), DepInv L st →
      DepInv L (chunkLoop (traceRec (depthInput L I)) sz cl fuel rem acc st).2 := by
  intro fuel
  induction fuel with
  | zero => intro rem acc st h; simp only [chunkLoop]; exact h
  | succ fuel ih =>
    intro rem acc st h
    rw [chunkLoop]
    by_cases h0 : rem = 0
    · simp only [h0, if_true]; exact h
    · simp only [h0, if_false]
      have ha := dep_onAlloc I L (satMul (min cl rem) sz) st h
      rcases res_cases ((traceRec (depthInput L I)).onAlloc (satMul (min cl rem) sz) st) with ⟨x, s1, e⟩ | ⟨s1, e⟩ | ⟨s1, e⟩
      · simp only [e] at ha ⊢
        cases x
        have hr := dep_read I L (min cl rem * sz) s1 ha
        rcases res_cases ((traceRec (depthInput L I)).read (min cl rem * sz) s1) with ⟨b, s2, e2⟩ | ⟨s2, e2⟩ | ⟨s2, e2⟩
        · simp only [e2] at hr ⊢; exact ih _ _ _ hr
        · simp only [e2] at hr ⊢; exact hr
        · simp only [e2] at hr ⊢; exact hr
      · simp only [e] at ha ⊢; exact ha
      · simp only [e] at ha ⊢; exact ha

theorem dep_runBulk {σ : Type} (I : InputOps σ) (L : Nat) (sz count : Nat) (st : DepSt σ) (h : DepInv L st) :
    DepInv L (runBulk (traceRec (depthInput L I)) sz count st).2 := by
  unfold runBulk
  by_cases h1 : sz > maxPrealloc
  · simp only [h1, if_true]; exact h
  · simp only [h1, if_false]
    by_cases h2 : count * sz > usizeMax
    · simp only [h2, if_true]; exact h
    · simp only [h2, if_false]
      have hr := dep_remainingLen I L st h
      rcases res_cases ((traceRec (depthInput L I)).remainingLen st) with ⟨x, s1, e⟩ | ⟨s1, e⟩ | ⟨s1, e⟩
      · simp only [e] at hr ⊢
        cases x with
        | none => exact dep_chunkLoop I L sz _ count count [] s1 hr
        | some r =>
          simp only []
          split
          · exact hr
          · exact dep_chunkLoop I L sz _ count count [] s1 hr
      · simp only [e] at hr ⊢; exact hr
      · simp only [e] at hr ⊢; exact hr

/-- **For every program**, inner input, limit and byte string: at every end of the run the
    accepted descents were never more than `L` deep. -/
theorem dep_run {σ α : Type} (I : InputOps σ) (L : Nat) (p : Prog α) :
    ∀ st : DepSt σ, DepInv L st →
      ((∃ a, (run (traceRec (depthInput L I)) p st).1 = .ok a) → DepInv L (run (traceRec (depthInput L I)) p st).2) ∧
      DepFin L (run (traceRec (depthInput L I)) p st).2 := by
  induction p with
  | pure a => intro st h; exact ⟨fun _ => h, h.fin⟩
  | fail => intro st h; exact ⟨fun _ => h, h.fin⟩
  | panic => intro st h; exact ⟨fun _ => h, h.fin⟩
  | read n k ih =>
    intro st h
    have hr := dep_read I L n st h
    simp only [run]
    rcases res_cases ((traceRec (depthInput L I)).read n st) with ⟨x, s1, e⟩ | ⟨s1, e⟩ | ⟨s1, e⟩
    · simp only [e] at hr ⊢; exact ih x s1 hr
    · simp only [e] at hr ⊢; exact ⟨(fun hh => by obtain ⟨_, hh⟩ := hh; cases hh), hr.fin⟩
    · simp only [e] at hr ⊢; exact ⟨(fun hh => by obtain ⟨_, hh⟩ := hh; cases hh), hr.fin⟩
  | readByte k ih =>
    intro st h
    have hr := dep_readByte I L st h
    simp only [run]
    rcases res_cases ((traceRec (depthInput L I)).readByte st) with ⟨x, s1, e⟩ | ⟨s1, e⟩ | ⟨s1, e⟩
    · simp only [e] at hr ⊢; exact ih x s1 hr
    · simp only [e] at hr ⊢; exact ⟨(fun hh => by obtain ⟨_, hh⟩ := hh; cases hh), hr.fin⟩
    · simp only [e] at hr ⊢; exact ⟨(fun hh => by obtain ⟨_, hh⟩ := hh; cases hh), hr.fin⟩
  | descend k ih =>
    intro st h
    have hd := dep_descend I L st h
    simp only [run]
    rcases res_cases ((traceRec (depthInput L I)).descend st) with ⟨x, s1, e⟩ | ⟨s1, e⟩ | ⟨s1, e⟩
    · simp only [e] at hd ⊢; cases x; exact ih () s1 (hd.1 trivial)
    · simp only [e] at hd ⊢; exact ⟨(fun hh => by obtain ⟨_, hh⟩ := hh; cases hh), hd.2⟩
    · simp only [e] at hd ⊢; exact ⟨(fun hh => by obtain ⟨_, hh⟩ := hh; cases hh), hd.2⟩
  | ascend k ih =>
    intro st h
    simp only [run]
    exact ih () _ (dep_ascend I L st h)
  | alloc n k ih =>
    intro st h
    have ha := dep_onAlloc I L n st h
    simp only [run]
    rcases res_cases ((traceRec (depthInput L I)).onAlloc n st) with ⟨x, s1, e⟩ | ⟨s1, e⟩ | ⟨s1, e⟩
    · simp only [e] at ha ⊢; exact ih x s1 ha
    · simp only [e] at ha ⊢; exact ⟨(fun hh => by obtain ⟨_, hh⟩ := hh; cases hh), ha.fin⟩
    · simp only [e] at ha ⊢; exact ⟨(fun hh => by obtain ⟨_, hh⟩ := hh; cases hh), ha.fin⟩
  | bulk sz c k ih =>
    intro st h
    have hb := dep_runBulk I L sz c st h
    simp only [run]
    rcases res_cases (runBulk (traceRec (depthInput L I)) sz c st) with ⟨x, s1, e⟩ | ⟨s1, e⟩ | ⟨s1, e⟩
    · simp only [e] at hb ⊢; exact ih x s1 hb
    · simp only [e] at hb ⊢; exact ⟨(fun hh => by obtain ⟨_, hh⟩ := hh; cases hh), hb.fin⟩
    · simp only [e] at hb ⊢; exact ⟨(fun hh => by obtain ⟨_, hh⟩ := hh; cases hh), hb.fin⟩
  | rawBytes n k ih =>
    intro st h
    have e0 : runRawBytes (traceRec (depthInput L I)) n st = runBulk (traceRec (depthInput L I)) 1 n st := rfl
    have hb := dep_runBulk I L 1 n st h
    simp only [run, e0]
    rcases res_cases (runBulk (traceRec (depthInput L I)) 1 n st) with ⟨x, s1, e⟩ | ⟨s1, e⟩ | ⟨s1, e⟩
    · simp only [e] at hb ⊢; exact ih x s1 hb
    · simp only [e] at hb ⊢; exact ⟨(fun hh => by obtain ⟨_, hh⟩ := hh; cases hh), hb.fin⟩
    · simp only [e] at hb ⊢; exact ⟨(fun hh => by obtain ⟨_, hh⟩ := hh; cases hh), hb.fin⟩

end Scale
