/-
  Proofs/Trace.lean — the hook trace of a run: how it composes, and how the depth and memory ghosts
  (hence `needDepth` and `usedMem`) are functions of it. All statements are over arbitrary programs.
-/
import Scale.Ghost
import Proofs.Sim
import Proofs.Wrappers
import Proofs.BulkSlice
namespace Scale

theorem traceRec_exact {σ : Type} (I : InputOps σ) (hraw : I.rawBytes = none) :
    ExactOps I (traceRec I) (fun s b => b.1 = s) where
  remainingLen := by rintro s ⟨s', u⟩ rfl; exact ⟨rfl, rfl⟩
  read := by rintro n s ⟨s', u⟩ rfl; exact ⟨rfl, rfl⟩
  readByte := by rintro s ⟨s', u⟩ rfl; exact ⟨rfl, rfl⟩
  descend := by
    rintro s ⟨s', u⟩ rfl
    simp only [traceRec]
    rcases res_cases (I.descend s') with ⟨x, s1, h⟩ | ⟨s1, h⟩ | ⟨s1, h⟩ <;> rw [h]
    · cases x; exact ⟨rfl, rfl⟩
    · exact ⟨rfl, rfl⟩
    · exact ⟨rfl, rfl⟩
  ascend := by rintro s ⟨s', u⟩ rfl; rfl
  onAlloc := by
    rintro n s ⟨s', u⟩ rfl
    simp only [traceRec]
    rcases res_cases (I.onAlloc n s') with ⟨x, s1, h⟩ | ⟨s1, h⟩ | ⟨s1, h⟩ <;> rw [h]
    · cases x; exact ⟨rfl, rfl⟩
    · exact ⟨rfl, rfl⟩
    · exact ⟨rfl, rfl⟩
  rawNone := ⟨hraw, rfl⟩

/-- Starting the recorder with a non-empty trace only prefixes what it records. -/
theorem traceRec_shift {σ : Type} (I : InputOps σ) (pre : List Hook) :
    ExactOps (traceRec I) (traceRec I) (fun a b => b.1 = a.1 ∧ b.2 = pre ++ a.2) where
  remainingLen := by rintro ⟨s, t⟩ ⟨s', t'⟩ ⟨h1, h2⟩; simp only at h1 h2; subst h1; subst h2; exact ⟨rfl, rfl, rfl⟩
  read := by rintro n ⟨s, t⟩ ⟨s', t'⟩ ⟨h1, h2⟩; simp only at h1 h2; subst h1; subst h2; exact ⟨rfl, rfl, rfl⟩
  readByte := by rintro ⟨s, t⟩ ⟨s', t'⟩ ⟨h1, h2⟩; simp only at h1 h2; subst h1; subst h2; exact ⟨rfl, rfl, rfl⟩
  descend := by
    rintro ⟨s, t⟩ ⟨s', t'⟩ ⟨h1, h2⟩; simp only at h1 h2; subst h1; subst h2
    simp only [traceRec]
    rcases res_cases (I.descend s') with ⟨x, s1, h⟩ | ⟨s1, h⟩ | ⟨s1, h⟩ <;> rw [h]
    · cases x; exact ⟨rfl, rfl, by simp⟩
    · exact ⟨rfl, rfl, rfl⟩
    · exact ⟨rfl, rfl, rfl⟩
  ascend := by rintro ⟨s, t⟩ ⟨s', t'⟩ ⟨h1, h2⟩; simp only at h1 h2; subst h1; subst h2; exact ⟨rfl, by simp [traceRec]⟩
  onAlloc := by
    rintro n ⟨s, t⟩ ⟨s', t'⟩ ⟨h1, h2⟩; simp only at h1 h2; subst h1; subst h2
    simp only [traceRec]
    rcases res_cases (I.onAlloc n s') with ⟨x, s1, h⟩ | ⟨s1, h⟩ | ⟨s1, h⟩ <;> rw [h]
    · cases x; exact ⟨rfl, rfl, by simp⟩
    · exact ⟨rfl, rfl, rfl⟩
    · exact ⟨rfl, rfl, rfl⟩
  rawNone := ⟨rfl, rfl⟩

/-- The memory ghost is the saturating fold of the trace. -/
theorem trace_mem_exact {σ : Type} (I : InputOps σ) :
    ExactOps (traceRec I) (memRec I) (fun a b => b.1 = a.1 ∧ b.2 = memFold a.2 0) where
  remainingLen := by rintro ⟨s, t⟩ ⟨s', u⟩ ⟨h1, h2⟩; simp only at h1 h2; subst h1; subst h2; exact ⟨rfl, rfl, rfl⟩
  read := by rintro n ⟨s, t⟩ ⟨s', u⟩ ⟨h1, h2⟩; simp only at h1 h2; subst h1; subst h2; exact ⟨rfl, rfl, rfl⟩
  readByte := by rintro ⟨s, t⟩ ⟨s', u⟩ ⟨h1, h2⟩; simp only at h1 h2; subst h1; subst h2; exact ⟨rfl, rfl, rfl⟩
  descend := by
    rintro ⟨s, t⟩ ⟨s', u⟩ ⟨h1, h2⟩; simp only at h1 h2; subst h1; subst h2
    simp only [traceRec, memRec]
    rcases res_cases (I.descend s') with ⟨x, s1, h⟩ | ⟨s1, h⟩ | ⟨s1, h⟩
    · cases x; simp [h, memFold, Hook.memStep]
    · simp [h]
    · simp [h]
  ascend := by rintro ⟨s, t⟩ ⟨s', u⟩ ⟨h1, h2⟩; simp only at h1 h2; subst h1; subst h2; exact ⟨rfl, by simp [traceRec, memRec, memFold, Hook.memStep]⟩
  onAlloc := by
    rintro n ⟨s, t⟩ ⟨s', u⟩ ⟨h1, h2⟩; simp only at h1 h2; subst h1; subst h2
    simp only [traceRec, memRec]
    rcases res_cases (I.onAlloc n s') with ⟨x, s1, h⟩ | ⟨s1, h⟩ | ⟨s1, h⟩ <;> rw [h]
    · cases x; exact ⟨rfl, rfl, by simp [memFold, Hook.memStep]⟩
    · exact ⟨rfl, rfl, rfl⟩
    · exact ⟨rfl, rfl, rfl⟩
  rawNone := ⟨rfl, rfl⟩

/-- The depth ghost is the depth fold of the trace. -/
theorem trace_depth_exact {σ : Type} (I : InputOps σ) :
    ExactOps (traceRec I) (depthRec I) (fun a b => b.1 = a.1 ∧ b.2 = depthFold a.2 (0, 0)) where
  remainingLen := by rintro ⟨s, t⟩ ⟨s', u⟩ ⟨h1, h2⟩; simp only at h1 h2; subst h1; subst h2; exact ⟨rfl, rfl, rfl⟩
  read := by rintro n ⟨s, t⟩ ⟨s', u⟩ ⟨h1, h2⟩; simp only at h1 h2; subst h1; subst h2; exact ⟨rfl, rfl, rfl⟩
  readByte := by rintro ⟨s, t⟩ ⟨s', u⟩ ⟨h1, h2⟩; simp only at h1 h2; subst h1; subst h2; exact ⟨rfl, rfl, rfl⟩
  descend := by
    rintro ⟨s, t⟩ ⟨s', u⟩ ⟨h1, h2⟩; simp only at h1 h2; subst h1; subst h2
    simp only [traceRec, depthRec]
    rcases res_cases (I.descend s') with ⟨x, s1, h⟩ | ⟨s1, h⟩ | ⟨s1, h⟩ <;> rw [h]
    · cases x; exact ⟨rfl, rfl, by simp [depthFold, Hook.depthStep]⟩
    · exact ⟨rfl, rfl, rfl⟩
    · exact ⟨rfl, rfl, rfl⟩
  ascend := by
    rintro ⟨s, t⟩ ⟨s', u⟩ ⟨h1, h2⟩; simp only at h1 h2; subst h1; subst h2
    exact ⟨rfl, by simp [traceRec, depthRec, depthFold, Hook.depthStep]⟩
  onAlloc := by
    rintro n ⟨s, t⟩ ⟨s', u⟩ ⟨h1, h2⟩; simp only at h1 h2; subst h1; subst h2
    simp only [traceRec, depthRec]
    rcases res_cases (I.onAlloc n s') with ⟨x, s1, h⟩ | ⟨s1, h⟩ | ⟨s1, h⟩
    · cases x; simp [h, depthFold, Hook.depthStep]
    · simp [h]
    · simp [h]
  rawNone := ⟨rfl, rfl⟩

/-- **`used_mem()` is the saturating sum of the trace**, for every program and input. -/
theorem usedMem_eq_memFold {α : Type} (p : Prog α) (bs : Bytes) : usedMem p bs = memFold (traceOf p bs) 0 := by
  have h := run_exact (trace_mem_exact sliceInput) p (bs, []) (bs, 0) ⟨rfl, rfl⟩
  simp only [usedMem, traceOf]
  exact h.2.2

/-- **The needed depth is the maximum of the trace's depth profile.** -/
theorem needDepth_eq_depthFold {α : Type} (p : Prog α) (bs : Bytes) :
    needDepth p bs = (depthFold (traceOf p bs) (0, 0)).2 := by
  have h := run_exact (trace_depth_exact sliceInput) p (bs, []) (bs, 0, 0) ⟨rfl, rfl⟩
  simp only [needDepth, traceOf]
  rw [h.2.2]

/-- A traced run is the slice run plus the trace appended to what was there. -/
theorem runT_eq {α : Type} (p : Prog α) (bs : Bytes) (tr : List Hook) :
    run (traceRec sliceInput) p (bs, tr) =
      ((run sliceInput p bs).1, ((run sliceInput p bs).2, tr ++ traceOf p bs)) := by
  have h1 := run_exact (traceRec_exact sliceInput rfl) p bs (bs, tr) rfl
  have h2 := run_exact (traceRec_shift sliceInput tr) p (bs, []) (bs, tr) ⟨rfl, by simp⟩
  apply Prod.ext
  · exact h1.1.symm
  · apply Prod.ext
    · exact h1.2
    · simp only [traceOf]; exact h2.2.2

/-! ### composition rules for `traceOf` -/

theorem traceOf_bind {α β : Type} {p : Prog α} {bs rest : Bytes} {a : α}
    (h : run sliceInput p bs = (.ok a, rest)) (f : α → Prog β) :
    traceOf (p.bind f) bs = traceOf p bs ++ traceOf (f a) rest := by
  simp only [traceOf]
  rw [run_bind, runT_eq p bs [], h]
  simp only [List.nil_append]
  rw [runT_eq (f a) rest]
  rfl

@[simp] theorem traceOf_pure {α : Type} (a : α) (bs : Bytes) : traceOf (.pure a : Prog α) bs = [] := rfl
@[simp] theorem traceOf_fail {α : Type} (bs : Bytes) : traceOf (.fail : Prog α) bs = [] := rfl

theorem traceOf_descend {α : Type} (k : Unit → Prog α) (bs : Bytes) :
    traceOf (.descend k) bs = .desc :: traceOf (k ()) bs := by
  have : run (traceRec sliceInput) (.descend k) (bs, []) = run (traceRec sliceInput) (k ()) (bs, [.desc]) := rfl
  simp only [traceOf, this, runT_eq (k ()) bs [.desc]]
  rfl

theorem traceOf_ascend {α : Type} (k : Unit → Prog α) (bs : Bytes) :
    traceOf (.ascend k) bs = .asc :: traceOf (k ()) bs := by
  have : run (traceRec sliceInput) (.ascend k) (bs, []) = run (traceRec sliceInput) (k ()) (bs, [.asc]) := rfl
  simp only [traceOf, this, runT_eq (k ()) bs [.asc]]
  rfl

theorem traceOf_alloc {α : Type} (n : Nat) (k : Unit → Prog α) (bs : Bytes) :
    traceOf (.alloc n k) bs = .alloc n :: traceOf (k ()) bs := by
  have : run (traceRec sliceInput) (.alloc n k) (bs, []) = run (traceRec sliceInput) (k ()) (bs, [.alloc n]) := rfl
  simp only [traceOf, this, runT_eq (k ()) bs [.alloc n]]
  rfl

@[simp] theorem traceOf_readByte_cons {α : Type} (k : UInt8 → Prog α) (b : UInt8) (s : Bytes) :
    traceOf (.readByte k) (b :: s) = traceOf (k b) s := rfl

theorem traceOf_read_append {α : Type} {n : Nat} (k : Bytes → Prog α) {bs : Bytes} (rest : Bytes)
    (h : bs.length = n) : traceOf (.read n k) (bs ++ rest) = traceOf (k bs) rest := by
  have hr : sliceInput.read n (bs ++ rest) = (.ok bs, rest) := by
    subst h; simp [sliceInput, sliceRead_eq]
  simp only [traceOf, run, traceRec, hr]

end Scale
