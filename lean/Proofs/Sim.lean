/-
  Proofs/Sim.lean — one simulation theorem for all decoder programs, two `Input` implementations.

  `SimExact`: both inputs answer every primitive call identically in related states ⇒ every decoder
  program returns the same result in related states (also when it fails).

  `SimLax`: the second input may additionally *fail where the first does not* (a limit wrapper);
  after such a divergence the first run continues alone and a relation `div` that is stable under
  the first input's own steps is maintained. Conclusion for every program: equal results in related
  states, or the second failed (and `div` holds of the final states), or both failed.
-/
import Proofs.RunSlice
namespace Scale

/-! ### exact simulation -/

structure ExactOps {σ₁ σ₂ : Type} (I₁ : InputOps σ₁) (I₂ : InputOps σ₂) (R : σ₁ → σ₂ → Prop) : Prop where
  remainingLen : ∀ s₁ s₂, R s₁ s₂ →
    (I₁.remainingLen s₁).1 = (I₂.remainingLen s₂).1 ∧ R (I₁.remainingLen s₁).2 (I₂.remainingLen s₂).2
  read : ∀ n s₁ s₂, R s₁ s₂ → (I₁.read n s₁).1 = (I₂.read n s₂).1 ∧ R (I₁.read n s₁).2 (I₂.read n s₂).2
  readByte : ∀ s₁ s₂, R s₁ s₂ → (I₁.readByte s₁).1 = (I₂.readByte s₂).1 ∧ R (I₁.readByte s₁).2 (I₂.readByte s₂).2
  descend : ∀ s₁ s₂, R s₁ s₂ → (I₁.descend s₁).1 = (I₂.descend s₂).1 ∧ R (I₁.descend s₁).2 (I₂.descend s₂).2
  ascend : ∀ s₁ s₂, R s₁ s₂ → R (I₁.ascend s₁) (I₂.ascend s₂)
  onAlloc : ∀ n s₁ s₂, R s₁ s₂ → (I₁.onAlloc n s₁).1 = (I₂.onAlloc n s₂).1 ∧ R (I₁.onAlloc n s₁).2 (I₂.onAlloc n s₂).2
  rawNone : I₁.rawBytes = none ∧ I₂.rawBytes = none

def ExactSim {σ₁ σ₂ α : Type} (R : σ₁ → σ₂ → Prop) (m₁ : σ₁ → Res α × σ₁) (m₂ : σ₂ → Res α × σ₂) : Prop :=
  ∀ s₁ s₂, R s₁ s₂ → (m₁ s₁).1 = (m₂ s₂).1 ∧ R (m₁ s₁).2 (m₂ s₂).2

theorem chunkLoop_exact {σ₁ σ₂ : Type} {I₁ : InputOps σ₁} {I₂ : InputOps σ₂} {R : σ₁ → σ₂ → Prop}
    (h : ExactOps I₁ I₂ R) (sz cl : Nat) :
    ∀ (fuel rem : Nat) (acc : Bytes), ExactSim R (chunkLoop I₁ sz cl fuel rem acc) (chunkLoop I₂ sz cl fuel rem acc) := by
  intro fuel
  induction fuel with
  | zero => intro rem acc s₁ s₂ hr; simp [chunkLoop, hr]
  | succ fuel ih =>
    intro rem acc s₁ s₂ hr
    unfold chunkLoop
    by_cases h0 : rem = 0
    · simp [h0, hr]
    · simp only [h0, if_false]
      obtain ⟨e1, r1⟩ := h.onAlloc (satMul (min cl rem) sz) s₁ s₂ hr
      cases ha1 : I₁.onAlloc (satMul (min cl rem) sz) s₁ with
      | mk x1 t1 =>
        cases ha2 : I₂.onAlloc (satMul (min cl rem) sz) s₂ with
        | mk x2 t2 =>
          rw [ha1, ha2] at e1 r1
          simp only at e1 r1
          subst e1
          cases x1 with
          | ok u =>
            simp only
            obtain ⟨e2, r2⟩ := h.read (min cl rem * sz) t1 t2 r1
            cases hb1 : I₁.read (min cl rem * sz) t1 with
            | mk y1 u1 =>
              cases hb2 : I₂.read (min cl rem * sz) t2 with
              | mk y2 u2 =>
                rw [hb1, hb2] at e2 r2
                simp only at e2 r2
                subst e2
                cases y1 with
                | ok b => exact ih _ _ u1 u2 r2
                | err => exact ⟨rfl, r2⟩
                | panic => exact ⟨rfl, r2⟩
          | err => exact ⟨rfl, r1⟩
          | panic => exact ⟨rfl, r1⟩

theorem runBulk_exact {σ₁ σ₂ : Type} {I₁ : InputOps σ₁} {I₂ : InputOps σ₂} {R : σ₁ → σ₂ → Prop}
    (h : ExactOps I₁ I₂ R) (sz c : Nat) : ExactSim R (runBulk I₁ sz c) (runBulk I₂ sz c) := by
  intro s₁ s₂ hr
  unfold runBulk
  by_cases hg : sz > maxPrealloc
  · simp [hg, hr]
  simp only [hg, if_false]
  by_cases hov : c * sz > usizeMax
  · simp [hov, hr]
  · simp only [hov, if_false]
    obtain ⟨e1, r1⟩ := h.remainingLen s₁ s₂ hr
    cases ha1 : I₁.remainingLen s₁ with
    | mk x1 t1 =>
      cases ha2 : I₂.remainingLen s₂ with
      | mk x2 t2 =>
        rw [ha1, ha2] at e1 r1
        simp only at e1 r1
        subst e1
        cases x1 with
        | ok o =>
          cases o with
          | some r =>
            simp only
            by_cases hl : r < c * sz
            · simp [hl, r1]
            · simp only [hl, if_false]
              exact chunkLoop_exact h _ _ _ _ _ t1 t2 r1
          | none => exact chunkLoop_exact h _ _ _ _ _ t1 t2 r1
        | err => exact ⟨rfl, r1⟩
        | panic => exact ⟨rfl, r1⟩

theorem runRawBytes_exact {σ₁ σ₂ : Type} {I₁ : InputOps σ₁} {I₂ : InputOps σ₂} {R : σ₁ → σ₂ → Prop}
    (h : ExactOps I₁ I₂ R) (n : Nat) : ExactSim R (runRawBytes I₁ n) (runRawBytes I₂ n) := by
  intro s₁ s₂ hr
  unfold runRawBytes
  rw [h.rawNone.1, h.rawNone.2]
  exact runBulk_exact h 1 n s₁ s₂ hr

/-- **Exact simulation theorem.** -/
theorem run_exact {σ₁ σ₂ α : Type} {I₁ : InputOps σ₁} {I₂ : InputOps σ₂} {R : σ₁ → σ₂ → Prop}
    (h : ExactOps I₁ I₂ R) (p : Prog α) : ExactSim R (run I₁ p) (run I₂ p) := by
  induction p with
  | pure a => intro s₁ s₂ hr; exact ⟨rfl, hr⟩
  | fail => intro s₁ s₂ hr; exact ⟨rfl, hr⟩
  | panic => intro s₁ s₂ hr; exact ⟨rfl, hr⟩
  | read n k ih =>
    intro s₁ s₂ hr
    simp only [run]
    obtain ⟨e, r⟩ := h.read n s₁ s₂ hr
    cases h1 : I₁.read n s₁ with
    | mk x1 t1 =>
      cases h2 : I₂.read n s₂ with
      | mk x2 t2 =>
        rw [h1, h2] at e r; simp only at e r; subst e
        cases x1 with
        | ok b => exact ih b t1 t2 r
        | err => exact ⟨rfl, r⟩
        | panic => exact ⟨rfl, r⟩
  | readByte k ih =>
    intro s₁ s₂ hr
    simp only [run]
    obtain ⟨e, r⟩ := h.readByte s₁ s₂ hr
    cases h1 : I₁.readByte s₁ with
    | mk x1 t1 =>
      cases h2 : I₂.readByte s₂ with
      | mk x2 t2 =>
        rw [h1, h2] at e r; simp only at e r; subst e
        cases x1 with
        | ok b => exact ih b t1 t2 r
        | err => exact ⟨rfl, r⟩
        | panic => exact ⟨rfl, r⟩
  | descend k ih =>
    intro s₁ s₂ hr
    simp only [run]
    obtain ⟨e, r⟩ := h.descend s₁ s₂ hr
    cases h1 : I₁.descend s₁ with
    | mk x1 t1 =>
      cases h2 : I₂.descend s₂ with
      | mk x2 t2 =>
        rw [h1, h2] at e r; simp only at e r; subst e
        cases x1 with
        | ok b => exact ih b t1 t2 r
        | err => exact ⟨rfl, r⟩
        | panic => exact ⟨rfl, r⟩
  | ascend k ih =>
    intro s₁ s₂ hr
    simp only [run]
    exact ih () _ _ (h.ascend s₁ s₂ hr)
  | alloc n k ih =>
    intro s₁ s₂ hr
    simp only [run]
    obtain ⟨e, r⟩ := h.onAlloc n s₁ s₂ hr
    cases h1 : I₁.onAlloc n s₁ with
    | mk x1 t1 =>
      cases h2 : I₂.onAlloc n s₂ with
      | mk x2 t2 =>
        rw [h1, h2] at e r; simp only at e r; subst e
        cases x1 with
        | ok b => exact ih b t1 t2 r
        | err => exact ⟨rfl, r⟩
        | panic => exact ⟨rfl, r⟩
  | bulk sz c k ih =>
    intro s₁ s₂ hr
    simp only [run]
    obtain ⟨e, r⟩ := runBulk_exact h sz c s₁ s₂ hr
    cases h1 : runBulk I₁ sz c s₁ with
    | mk x1 t1 =>
      cases h2 : runBulk I₂ sz c s₂ with
      | mk x2 t2 =>
        rw [h1, h2] at e r; simp only at e r; subst e
        cases x1 with
        | ok b => exact ih b t1 t2 r
        | err => exact ⟨rfl, r⟩
        | panic => exact ⟨rfl, r⟩
  | rawBytes n k ih =>
    intro s₁ s₂ hr
    simp only [run]
    obtain ⟨e, r⟩ := runRawBytes_exact h n s₁ s₂ hr
    cases h1 : runRawBytes I₁ n s₁ with
    | mk x1 t1 =>
      cases h2 : runRawBytes I₂ n s₂ with
      | mk x2 t2 =>
        rw [h1, h2] at e r; simp only at e r; subst e
        cases x1 with
        | ok b => exact ih b t1 t2 r
        | err => exact ⟨rfl, r⟩
        | panic => exact ⟨rfl, r⟩

end Scale

namespace Scale

/-! ### lax simulation (limit wrappers) -/

structure LaxRel (σ₁ σ₂ : Type) where
  ok : σ₁ → σ₂ → Prop
  div : σ₁ → σ₂ → Prop

def LaxSim {σ₁ σ₂ α : Type} (R : LaxRel σ₁ σ₂) (m₁ : σ₁ → Res α × σ₁) (m₂ : σ₂ → Res α × σ₂) : Prop :=
  ∀ s₁ s₂, R.ok s₁ s₂ →
    ((m₁ s₁).1 = (m₂ s₂).1 ∧ R.ok (m₁ s₁).2 (m₂ s₂).2) ∨
    ((m₂ s₂).1 = .err ∧ R.div (m₁ s₁).2 (m₂ s₂).2) ∨
    ((m₁ s₁).1 = .err ∧ (m₂ s₂).1 = .err)

def Stable {σ₁ σ₂ α : Type} (R : LaxRel σ₁ σ₂) (m₁ : σ₁ → Res α × σ₁) : Prop :=
  ∀ s₁ s₂, R.div s₁ s₂ → R.div (m₁ s₁).2 s₂

/-- Sequencing an operation with a continuation, as `run` does. -/
def andThen {σ α β : Type} (o : σ → Res β × σ) (k : β → σ → Res α × σ) (s : σ) : Res α × σ :=
  match o s with
  | (.ok b, s1) => k b s1
  | (.err, s1) => (.err, s1)
  | (.panic, s1) => (.panic, s1)

theorem lax_andThen {σ₁ σ₂ α β : Type} {R : LaxRel σ₁ σ₂}
    {o₁ : σ₁ → Res β × σ₁} {o₂ : σ₂ → Res β × σ₂}
    {k₁ : β → σ₁ → Res α × σ₁} {k₂ : β → σ₂ → Res α × σ₂}
    (ho : LaxSim R o₁ o₂) (hk : ∀ b, LaxSim R (k₁ b) (k₂ b)) (hs : ∀ b, Stable R (k₁ b)) :
    LaxSim R (andThen o₁ k₁) (andThen o₂ k₂) := by
  intro s₁ s₂ hr
  unfold andThen
  rcases ho s₁ s₂ hr with ⟨e, r⟩ | ⟨e, d⟩ | ⟨e1, e2⟩
  · cases h1 : o₁ s₁ with
    | mk x1 t1 =>
      cases h2 : o₂ s₂ with
      | mk x2 t2 =>
        rw [h1, h2] at e r; simp only at e r; subst e
        cases x1 with
        | ok b => exact hk b t1 t2 r
        | err => exact Or.inl ⟨rfl, r⟩
        | panic => exact Or.inl ⟨rfl, r⟩
  · cases h1 : o₁ s₁ with
    | mk x1 t1 =>
      cases h2 : o₂ s₂ with
      | mk x2 t2 =>
        rw [h1, h2] at d; rw [h2] at e; simp only at e d; subst e
        cases x1 with
        | ok b => exact Or.inr (Or.inl ⟨rfl, hs b t1 t2 d⟩)
        | err => exact Or.inr (Or.inl ⟨rfl, d⟩)
        | panic => exact Or.inr (Or.inl ⟨rfl, d⟩)
  · cases h1 : o₁ s₁ with
    | mk x1 t1 =>
      cases h2 : o₂ s₂ with
      | mk x2 t2 =>
        rw [h1] at e1; rw [h2] at e2; simp only at e1 e2; subst e1; subst e2
        exact Or.inr (Or.inr ⟨rfl, rfl⟩)

theorem stable_andThen {σ₁ σ₂ α β : Type} {R : LaxRel σ₁ σ₂}
    {o₁ : σ₁ → Res β × σ₁} {k₁ : β → σ₁ → Res α × σ₁}
    (ho : Stable R o₁) (hs : ∀ b, Stable R (k₁ b)) : Stable R (andThen o₁ k₁) := by
  intro s₁ s₂ hd
  unfold andThen
  have := ho s₁ s₂ hd
  cases h1 : o₁ s₁ with
  | mk x1 t1 =>
    rw [h1] at this
    cases x1 with
    | ok b => exact hs b t1 s₂ this
    | err => exact this
    | panic => exact this

structure LaxOps {σ₁ σ₂ : Type} (I₁ : InputOps σ₁) (I₂ : InputOps σ₂) (R : LaxRel σ₁ σ₂) : Prop where
  read : ∀ n, LaxSim R (I₁.read n) (I₂.read n)
  readByte : LaxSim R I₁.readByte I₂.readByte
  descend : LaxSim R I₁.descend I₂.descend
  ascend : ∀ s₁ s₂, R.ok s₁ s₂ → R.ok (I₁.ascend s₁) (I₂.ascend s₂)
  onAlloc : ∀ n, LaxSim R (I₁.onAlloc n) (I₂.onAlloc n)
  bulk : ∀ sz c, LaxSim R (runBulk I₁ sz c) (runBulk I₂ sz c)
  raw : ∀ n, LaxSim R (runRawBytes I₁ n) (runRawBytes I₂ n)
  sRead : ∀ n, Stable R (I₁.read n)
  sReadByte : Stable R I₁.readByte
  sDescend : Stable R I₁.descend
  sAscend : ∀ s₁ s₂, R.div s₁ s₂ → R.div (I₁.ascend s₁) s₂
  sOnAlloc : ∀ n, Stable R (I₁.onAlloc n)
  sBulk : ∀ sz c, Stable R (runBulk I₁ sz c)
  sRaw : ∀ n, Stable R (runRawBytes I₁ n)

theorem run_read_eq {σ α} (I : InputOps σ) (n : Nat) (k : Bytes → Prog α) :
    run I (.read n k) = andThen (I.read n) (fun b => run I (k b)) := by
  funext s; simp only [run, andThen]
  cases I.read n s with | mk r s1 => cases r <;> rfl
theorem run_readByte_eq {σ α} (I : InputOps σ) (k : UInt8 → Prog α) :
    run I (.readByte k) = andThen I.readByte (fun b => run I (k b)) := by
  funext s; simp only [run, andThen]
  cases I.readByte s with | mk r s1 => cases r <;> rfl
theorem run_descend_eq {σ α} (I : InputOps σ) (k : Unit → Prog α) :
    run I (.descend k) = andThen I.descend (fun b => run I (k b)) := by
  funext s; simp only [run, andThen]
  cases I.descend s with | mk r s1 => cases r <;> rfl
theorem run_alloc_eq {σ α} (I : InputOps σ) (n : Nat) (k : Unit → Prog α) :
    run I (.alloc n k) = andThen (I.onAlloc n) (fun b => run I (k b)) := by
  funext s; simp only [run, andThen]
  cases I.onAlloc n s with | mk r s1 => cases r <;> rfl
theorem run_bulk_eq {σ α} (I : InputOps σ) (sz c : Nat) (k : Bytes → Prog α) :
    run I (.bulk sz c k) = andThen (runBulk I sz c) (fun b => run I (k b)) := by
  funext s; simp only [run, andThen]
  cases runBulk I sz c s with | mk r s1 => cases r <;> rfl
theorem run_rawBytes_eq {σ α} (I : InputOps σ) (n : Nat) (k : Bytes → Prog α) :
    run I (.rawBytes n k) = andThen (runRawBytes I n) (fun b => run I (k b)) := by
  funext s; simp only [run, andThen]
  cases runRawBytes I n s with | mk r s1 => cases r <;> rfl

/-- **Lax simulation theorem.** -/
theorem run_lax {σ₁ σ₂ α : Type} {I₁ : InputOps σ₁} {I₂ : InputOps σ₂} {R : LaxRel σ₁ σ₂}
    (h : LaxOps I₁ I₂ R) (p : Prog α) : LaxSim R (run I₁ p) (run I₂ p) ∧ Stable R (run I₁ p) := by
  induction p with
  | pure a => exact ⟨fun s₁ s₂ hr => Or.inl ⟨rfl, hr⟩, fun s₁ s₂ hd => hd⟩
  | fail => exact ⟨fun s₁ s₂ hr => Or.inl ⟨rfl, hr⟩, fun s₁ s₂ hd => hd⟩
  | panic => exact ⟨fun s₁ s₂ hr => Or.inl ⟨rfl, hr⟩, fun s₁ s₂ hd => hd⟩
  | read n k ih =>
    rw [run_read_eq, run_read_eq]
    exact ⟨lax_andThen (h.read n) (fun b => (ih b).1) (fun b => (ih b).2),
      stable_andThen (h.sRead n) (fun b => (ih b).2)⟩
  | readByte k ih =>
    rw [run_readByte_eq, run_readByte_eq]
    exact ⟨lax_andThen h.readByte (fun b => (ih b).1) (fun b => (ih b).2),
      stable_andThen h.sReadByte (fun b => (ih b).2)⟩
  | descend k ih =>
    rw [run_descend_eq, run_descend_eq]
    exact ⟨lax_andThen h.descend (fun b => (ih b).1) (fun b => (ih b).2),
      stable_andThen h.sDescend (fun b => (ih b).2)⟩
  | ascend k ih =>
    refine ⟨fun s₁ s₂ hr => ?_, fun s₁ s₂ hd => ?_⟩
    · simp only [run]; exact (ih ()).1 _ _ (h.ascend s₁ s₂ hr)
    · simp only [run]; exact (ih ()).2 _ _ (h.sAscend s₁ s₂ hd)
  | alloc n k ih =>
    rw [run_alloc_eq, run_alloc_eq]
    exact ⟨lax_andThen (h.onAlloc n) (fun b => (ih b).1) (fun b => (ih b).2),
      stable_andThen (h.sOnAlloc n) (fun b => (ih b).2)⟩
  | bulk sz c k ih =>
    rw [run_bulk_eq, run_bulk_eq]
    exact ⟨lax_andThen (h.bulk sz c) (fun b => (ih b).1) (fun b => (ih b).2),
      stable_andThen (h.sBulk sz c) (fun b => (ih b).2)⟩
  | rawBytes n k ih =>
    rw [run_rawBytes_eq, run_rawBytes_eq]
    exact ⟨lax_andThen (h.raw n) (fun b => (ih b).1) (fun b => (ih b).2),
      stable_andThen (h.sRaw n) (fun b => (ih b).2)⟩

end Scale

namespace Scale

/-! ### the bulk reader is simulated whenever the primitive calls are -/

structure LaxPrims {σ₁ σ₂ : Type} (I₁ : InputOps σ₁) (I₂ : InputOps σ₂) (R : LaxRel σ₁ σ₂) : Prop where
  remainingLen : LaxSim R I₁.remainingLen I₂.remainingLen
  read : ∀ n, LaxSim R (I₁.read n) (I₂.read n)
  readByte : LaxSim R I₁.readByte I₂.readByte
  descend : LaxSim R I₁.descend I₂.descend
  ascend : ∀ s₁ s₂, R.ok s₁ s₂ → R.ok (I₁.ascend s₁) (I₂.ascend s₂)
  onAlloc : ∀ n, LaxSim R (I₁.onAlloc n) (I₂.onAlloc n)
  sRemainingLen : Stable R I₁.remainingLen
  sRead : ∀ n, Stable R (I₁.read n)
  sReadByte : Stable R I₁.readByte
  sDescend : Stable R I₁.descend
  sAscend : ∀ s₁ s₂, R.div s₁ s₂ → R.div (I₁.ascend s₁) s₂
  sOnAlloc : ∀ n, Stable R (I₁.onAlloc n)
  rawNone : I₁.rawBytes = none ∧ I₂.rawBytes = none

theorem laxSim_pure {σ₁ σ₂ α : Type} {R : LaxRel σ₁ σ₂} (r : Res α) :
    LaxSim R (fun s => (r, s)) (fun s => (r, s)) := fun _ _ hr => Or.inl ⟨rfl, hr⟩

theorem stable_pure {σ₁ σ₂ α : Type} {R : LaxRel σ₁ σ₂} (r : Res α) :
    Stable R (fun (s : σ₁) => (r, s)) := fun _ _ hd => hd

theorem chunkLoop_eq {σ} (I : InputOps σ) (sz cl fuel rem : Nat) (acc : Bytes) :
    chunkLoop I sz cl (fuel + 1) rem acc =
      if rem = 0 then (fun s => (.ok acc, s)) else
        andThen (I.onAlloc (satMul (min cl rem) sz)) (fun _ =>
          andThen (I.read (min cl rem * sz)) (fun b =>
            chunkLoop I sz cl fuel (rem - min cl rem) (acc ++ b))) := by
  funext s
  conv => lhs; unfold chunkLoop
  by_cases h0 : rem = 0
  · simp [h0]
  · simp only [h0, if_false, andThen]
    cases I.onAlloc (satMul (min cl rem) sz) s with
    | mk r s1 =>
      cases r with
      | ok u =>
        cases u
        simp only
        cases I.read (min cl rem * sz) s1 with
        | mk r2 s2 => cases r2 <;> rfl
      | err => rfl
      | panic => rfl

theorem chunkLoop_lax {σ₁ σ₂ : Type} {I₁ : InputOps σ₁} {I₂ : InputOps σ₂} {R : LaxRel σ₁ σ₂}
    (h : LaxPrims I₁ I₂ R) (sz cl : Nat) :
    ∀ (fuel rem : Nat) (acc : Bytes),
      LaxSim R (chunkLoop I₁ sz cl fuel rem acc) (chunkLoop I₂ sz cl fuel rem acc) ∧
      Stable R (chunkLoop I₁ sz cl fuel rem acc) := by
  intro fuel
  induction fuel with
  | zero =>
    intro rem acc
    have e1 : chunkLoop I₁ sz cl 0 rem acc = fun s => (.ok acc, s) := by funext s; simp [chunkLoop]
    have e2 : chunkLoop I₂ sz cl 0 rem acc = fun s => (.ok acc, s) := by funext s; simp [chunkLoop]
    rw [e1, e2]
    exact ⟨laxSim_pure _, stable_pure _⟩
  | succ fuel ih =>
    intro rem acc
    rw [chunkLoop_eq, chunkLoop_eq]
    by_cases h0 : rem = 0
    · simp only [h0, if_true]
      exact ⟨laxSim_pure _, stable_pure _⟩
    · simp only [h0, if_false]
      refine ⟨lax_andThen (h.onAlloc _) (fun _ => lax_andThen (h.read _) (fun b => (ih _ _).1)
          (fun b => (ih _ _).2)) (fun _ => stable_andThen (h.sRead _) (fun b => (ih _ _).2)), ?_⟩
      exact stable_andThen (h.sOnAlloc _) (fun _ => stable_andThen (h.sRead _) (fun b => (ih _ _).2))

theorem runBulk_eq {σ} (I : InputOps σ) (sz c : Nat) :
    runBulk I sz c =
      if sz > maxPrealloc then (fun s => (.panic, s)) else
      if c * sz > usizeMax then (fun s => (.err, s)) else
        andThen I.remainingLen (fun o =>
          match o with
          | some r => if r < c * sz then (fun s => (.err, s))
              else chunkLoop I sz (if sz = 0 then usizeMax else maxPrealloc / sz) c c []
          | none => chunkLoop I sz (if sz = 0 then usizeMax else maxPrealloc / sz) c c []) := by
  funext s
  unfold runBulk
  by_cases hg : sz > maxPrealloc
  · simp [hg]
  simp only [hg, if_false]
  by_cases hov : c * sz > usizeMax
  · simp [hov]
  · simp only [hov, if_false, andThen]
    cases I.remainingLen s with
    | mk r s1 =>
      cases r with
      | ok o =>
        cases o with
        | some r => simp only; split <;> rfl
        | none => rfl
      | err => rfl
      | panic => rfl

theorem runBulk_lax {σ₁ σ₂ : Type} {I₁ : InputOps σ₁} {I₂ : InputOps σ₂} {R : LaxRel σ₁ σ₂}
    (h : LaxPrims I₁ I₂ R) (sz c : Nat) :
    LaxSim R (runBulk I₁ sz c) (runBulk I₂ sz c) ∧ Stable R (runBulk I₁ sz c) := by
  rw [runBulk_eq, runBulk_eq]
  by_cases hg : sz > maxPrealloc
  · simp only [hg, if_true]
    exact ⟨laxSim_pure _, stable_pure _⟩
  simp only [hg, if_false]
  by_cases hov : c * sz > usizeMax
  · simp only [hov, if_true]
    exact ⟨laxSim_pure _, stable_pure _⟩
  · simp only [hov, if_false]
    have hk : ∀ (o : Option Nat),
        LaxSim R
          (match o with
            | some r => if r < c * sz then (fun s => ((.err : Res Bytes), s))
                else chunkLoop I₁ sz (if sz = 0 then usizeMax else maxPrealloc / sz) c c []
            | none => chunkLoop I₁ sz (if sz = 0 then usizeMax else maxPrealloc / sz) c c [])
          (match o with
            | some r => if r < c * sz then (fun s => ((.err : Res Bytes), s))
                else chunkLoop I₂ sz (if sz = 0 then usizeMax else maxPrealloc / sz) c c []
            | none => chunkLoop I₂ sz (if sz = 0 then usizeMax else maxPrealloc / sz) c c []) ∧
        Stable R
          (match o with
            | some r => if r < c * sz then (fun s => ((.err : Res Bytes), s))
                else chunkLoop I₁ sz (if sz = 0 then usizeMax else maxPrealloc / sz) c c []
            | none => chunkLoop I₁ sz (if sz = 0 then usizeMax else maxPrealloc / sz) c c []) := by
      intro o
      cases o with
      | none => exact chunkLoop_lax h _ _ _ _ _
      | some r =>
        simp only
        by_cases hl : r < c * sz
        · simp only [hl, if_true]; exact ⟨laxSim_pure _, stable_pure _⟩
        · simp only [hl, if_false]; exact chunkLoop_lax h _ _ _ _ _
    exact ⟨lax_andThen h.remainingLen (fun o => (hk o).1) (fun o => (hk o).2),
      stable_andThen h.sRemainingLen (fun o => (hk o).2)⟩

theorem laxOps_of_prims {σ₁ σ₂ : Type} {I₁ : InputOps σ₁} {I₂ : InputOps σ₂} {R : LaxRel σ₁ σ₂}
    (h : LaxPrims I₁ I₂ R) : LaxOps I₁ I₂ R where
  read := h.read
  readByte := h.readByte
  descend := h.descend
  ascend := h.ascend
  onAlloc := h.onAlloc
  bulk := fun sz c => (runBulk_lax h sz c).1
  raw := fun n => by
    have e1 : runRawBytes I₁ n = runBulk I₁ 1 n := by funext s; simp [runRawBytes, h.rawNone.1]
    have e2 : runRawBytes I₂ n = runBulk I₂ 1 n := by funext s; simp [runRawBytes, h.rawNone.2]
    rw [e1, e2]; exact (runBulk_lax h 1 n).1
  sRead := h.sRead
  sReadByte := h.sReadByte
  sDescend := h.sDescend
  sAscend := h.sAscend
  sOnAlloc := h.sOnAlloc
  sBulk := fun sz c => (runBulk_lax h sz c).2
  sRaw := fun n => by
    have e1 : runRawBytes I₁ n = runBulk I₁ 1 n := by funext s; simp [runRawBytes, h.rawNone.1]
    rw [e1]; exact (runBulk_lax h 1 n).2

end Scale
