/-
  Proofs/Skip.lean — `Decode::skip` agrees with `Decode::decode` (outcome and position), including
  the array override that skips fixed-size elements one by one while `decode` reads them in bulk.
-/
import Scale.Entry
import Proofs.Canonical
namespace Scale
open Impl

/-- `p` behaves like `q` with the value forgotten: same success/failure, same position on success. -/
def SkipEq {α β} (p : Prog α) (q : Prog β) : Prop :=
  ∀ s, (∀ a r, run sliceInput p s = (.ok a, r) → ∃ b, run sliceInput q s = (.ok b, r)) ∧
       (∀ b r, run sliceInput q s = (.ok b, r) → ∃ a, run sliceInput p s = (.ok a, r)) ∧
       ((run sliceInput p s).1 = .panic ↔ (run sliceInput q s).1 = .panic)

theorem skipEq_bind_pure {α β} (q : Prog α) (f : α → β) : SkipEq (q.bind fun a => .pure (f a)) q := by
  intro s
  rw [run_bind]
  cases hr : run sliceInput q s with
  | mk res s1 => cases res <;> simp

theorem skipEq_trans {α β γ} {p : Prog α} {q : Prog β} {r : Prog γ} (h1 : SkipEq p q) (h2 : SkipEq q r) :
    SkipEq p r := by
  intro s
  obtain ⟨a1, a2, a3⟩ := h1 s
  obtain ⟨b1, b2, b3⟩ := h2 s
  refine ⟨fun a r h => ?_, fun c r h => ?_, a3.trans b3⟩
  · obtain ⟨b, hb⟩ := a1 a r h; exact b1 b r hb
  · obtain ⟨b, hb⟩ := b2 c r h; exact a2 b r hb

theorem skipEq_symm {α β} {p : Prog α} {q : Prog β} (h : SkipEq p q) : SkipEq q p := by
  intro s
  obtain ⟨a1, a2, a3⟩ := h s
  exact ⟨a2, a1, a3.symm⟩

theorem run_cases {α} (p : Prog α) (s : Bytes) :
    (∃ a r, run sliceInput p s = (.ok a, r)) ∨ (∃ r, run sliceInput p s = (.err, r)) ∨
    (∃ r, run sliceInput p s = (.panic, r)) := by
  cases h : run sliceInput p s with
  | mk res r => cases res <;> simp

theorem skipEq_bind {α β γ δ} {p : Prog α} {q : Prog β} {f : α → Prog γ} {g : β → Prog δ}
    (h1 : SkipEq p q) (h2 : ∀ a b, SkipEq (f a) (g b)) : SkipEq (p.bind f) (q.bind g) := by
  intro s
  obtain ⟨a1, a2, a3⟩ := h1 s
  refine ⟨fun c r h => ?_, fun d r h => ?_, ?_⟩
  · obtain ⟨a, s1, e1, e2⟩ := run_bind_ok h
    obtain ⟨b, hb⟩ := a1 a s1 e1
    obtain ⟨d, hd⟩ := (h2 a b s1).1 c r e2
    exact ⟨d, by rw [run_bind, hb]; exact hd⟩
  · obtain ⟨b, s1, e1, e2⟩ := run_bind_ok h
    obtain ⟨a, ha⟩ := a2 b s1 e1
    obtain ⟨c, hc⟩ := (h2 a b s1).2.1 d r e2
    exact ⟨c, by rw [run_bind, ha]; exact hc⟩
  · rw [run_bind, run_bind]
    rcases run_cases p s with ⟨a, r, hp⟩ | ⟨r, hp⟩ | ⟨r, hp⟩
    · obtain ⟨b, hq⟩ := a1 a r hp
      rw [hp, hq]
      exact (h2 a b r).2.2
    · rcases run_cases q s with ⟨b, r', hq⟩ | ⟨r', hq⟩ | ⟨r', hq⟩
      · obtain ⟨a, ha⟩ := a2 b r' hq
        rw [hp] at ha; cases ha
      · rw [hp, hq]; simp
      · have := a3.mpr (by rw [hq])
        rw [hp] at this; cases this
    · have := a3.mp (by rw [hp])
      rcases run_cases q s with ⟨b, r', hq⟩ | ⟨r', hq⟩ | ⟨r', hq⟩
      · rw [hq] at this; cases this
      · rw [hq] at this; cases this
      · rw [hp, hq]; simp

theorem skipEq_replicateM {α β} {p : Prog α} {q : Prog β} (h : SkipEq p q) :
    ∀ n, SkipEq (Prog.replicateM n p) (Prog.replicateM n q)
  | 0 => by intro s; simp [Prog.replicateM]
  | n + 1 => by
    simp only [Prog.replicateM]
    exact skipEq_bind h (fun _ _ => skipEq_bind (skipEq_replicateM h n)
      (fun _ _ => by intro s; simp))

/-- `n` reads of `size` bytes behave like one read of `n * size` bytes (up to the value). -/
theorem skipEq_reads (size : Nat) : ∀ (n : Nat),
    SkipEq (Prog.replicateM n (Prog.read size fun (_ : Bytes) => (Prog.pure () : Prog Unit)))
      (Prog.read (n * size) fun (_ : Bytes) => (Prog.pure () : Prog Unit))
  | 0 => by
    intro s
    simp [Prog.replicateM, run_slice_read]
  | n + 1 => by
    have ih := skipEq_reads size n
    intro s
    simp only [Prog.replicateM, run_bind, run_slice_read]
    by_cases h1 : size > s.length
    · have h2 : (n + 1) * size > s.length := by rw [Nat.succ_mul]; omega
      simp [h1, h2]
    · simp only [h1, if_false, run_pure]
      obtain ⟨a1, a2, a3⟩ := ih (s.drop size)
      simp only [run_slice_read, run_pure] at a1 a2 a3
      by_cases h2 : (n + 1) * size > s.length
      · have h3 : n * size > (s.drop size).length := by simp; rw [Nat.succ_mul] at h2; omega
        simp only [h2, if_true]
        simp only [h3, if_true] at a1 a2 a3
        rcases run_cases (Prog.replicateM n (Prog.read size fun (_ : Bytes) => (Prog.pure () : Prog Unit))) (s.drop size)
          with ⟨a, r, hp⟩ | ⟨r, hp⟩ | ⟨r, hp⟩
        · obtain ⟨_, hb⟩ := a1 a r hp; cases hb
        · simp [hp]
        · have := a3.mp (by rw [hp]); cases this
      · have h3 : ¬ n * size > (s.drop size).length := by simp; rw [Nat.succ_mul] at h2; omega
        simp only [h2, if_false]
        simp only [h3, if_false] at a1 a2 a3
        obtain ⟨as, has⟩ := a2 () _ rfl
        rw [has]
        have hd : (s.drop size).drop (n * size) = s.drop ((n + 1) * size) := by
          rw [List.drop_drop, Nat.succ_mul]; congr 1; omega
        simp [hd]

theorem encodedFixedSize_prim_array {n : Nat} {p : Prim} (h : (encodedFixedSize (.array n (.prim p))).isSome = true) :
    p.size ≠ 1 := by
  intro h1
  simp [encodedFixedSize, h1] at h

/-- `T::skip` ≈ `T::decode` for every type. -/
theorem skip_eq_decode : ∀ (ty : Ty), SkipEq (skipP ty) (decodeP ty)
  | .array n t => by
    unfold skipP
    split
    · next hfix =>
      -- elements have a fixed size: skipped one by one
      have hrec := skip_eq_decode t
      cases t with
      | prim p =>
        have hs := encodedFixedSize_prim_array hfix
        have e1 : skipP (.prim p) = (decodeP (.prim p)).bind fun _ => .pure () := by simp [skipP]
        have e2 : decodeP (.prim p) = .read p.size fun bs => .pure (primVal p bs) := by
          simp [decodeP, decodePrim, hs]
        have e3 : decodeP (.array n (.prim p)) = .read (n * p.size) fun bs => .pure (.seq (primElems p n bs)) := by
          simp [decodeP]
        have s1 : SkipEq (skipP (.prim p)) (Prog.read p.size fun (_ : Bytes) => (Prog.pure () : Prog Unit)) := by
          rw [e1, e2]
          intro s
          simp only [run_bind, run_slice_read]
          by_cases hc : p.size > s.length
          · simp [hc]
          · simp [hc]
        have s2 : SkipEq (Prog.read (n * p.size) fun (_ : Bytes) => (Prog.pure () : Prog Unit))
            (decodeP (.array n (.prim p))) := by
          rw [e3]
          intro s
          simp only [run_slice_read]
          by_cases hc : n * p.size > s.length
          · simp [hc]
          · simp [hc]
        exact skipEq_trans (skipEq_bind_pure _ _)
          (skipEq_trans (skipEq_replicateM s1 n) (skipEq_trans (skipEq_reads p.size n) s2))
      | _ =>
        all_goals
          simp only [decodeP]
          exact skipEq_trans (skipEq_bind_pure _ _)
            (skipEq_trans (skipEq_replicateM hrec n) (skipEq_symm (skipEq_bind_pure _ _)))
    · exact skipEq_bind_pure _ _
  | .unit => by unfold skipP; exact skipEq_bind_pure _ _
  | .bool => by unfold skipP; exact skipEq_bind_pure _ _
  | .optionBool => by unfold skipP; exact skipEq_bind_pure _ _
  | .prim _ => by unfold skipP; exact skipEq_bind_pure _ _
  | .nonZero _ => by unfold skipP; exact skipEq_bind_pure _ _
  | .compact _ => by unfold skipP; exact skipEq_bind_pure _ _
  | .option _ => by unfold skipP; exact skipEq_bind_pure _ _
  | .result _ _ => by unfold skipP; exact skipEq_bind_pure _ _
  | .tuple _ => by unfold skipP; exact skipEq_bind_pure _ _
  | .garray _ _ => by unfold skipP; exact skipEq_bind_pure _ _
  | .seq _ _ _ => by unfold skipP; exact skipEq_bind_pure _ _
  | .str => by unfold skipP; exact skipEq_bind_pure _ _
  | .bytes => by unfold skipP; exact skipEq_bind_pure _ _
  | .box _ _ => by unfold skipP; exact skipEq_bind_pure _ _
  | .wrap _ => by unfold skipP; exact skipEq_bind_pure _ _
  | .duration => by unfold skipP; exact skipEq_bind_pure _ _
  | .range _ => by unfold skipP; exact skipEq_bind_pure _ _
  | .bitseq _ _ => by unfold skipP; exact skipEq_bind_pure _ _
  | .enum _ _ => by unfold skipP; exact skipEq_bind_pure _ _

/-- A reported fixed size is the encoded length of every value. -/
theorem fixedSize_exact : ∀ (ty : Ty) (n : Nat), encodedFixedSize ty = some n →
    ∀ v, wf ty v = true → (Spec.encode ty v).length = n
  | .prim p, n, h, v, hw => by
    simp only [encodedFixedSize] at h
    split at h
    · cases h
    · cases h
      simp only [Spec.encode]
      exact primBytes_length (by simpa [wf] using hw)
  | .bool, n, h, v, hw => by
    simp only [encodedFixedSize, Option.some.injEq] at h
    subst h
    cases v <;> simp [wf] at hw
    simp [Spec.encode]
  | .array m t, n, h, v, hw => by
    simp only [encodedFixedSize, Option.map_eq_some_iff] at h
    obtain ⟨k, hk, rfl⟩ := h
    cases v <;> try (simp [wf] at hw; done)
    case seq vs =>
      simp only [wf, Bool.and_eq_true, beq_iff_eq, List.all_eq_true] at hw
      obtain ⟨rfl, hall⟩ := hw
      simp only [Spec.encode]
      have := flatten_length_const (vs.map (Spec.encode t)) (size := k)
        (by intro c hc; obtain ⟨v, hv, rfl⟩ := List.mem_map.mp hc; exact fixedSize_exact t k hk v (hall v hv))
      simpa [Nat.mul_comm] using this
  | .unit, _, h, _, _ => by simp [encodedFixedSize] at h
  | .optionBool, _, h, _, _ => by simp [encodedFixedSize] at h
  | .nonZero _, _, h, _, _ => by simp [encodedFixedSize] at h
  | .compact _, _, h, _, _ => by simp [encodedFixedSize] at h
  | .option _, _, h, _, _ => by simp [encodedFixedSize] at h
  | .result _ _, _, h, _, _ => by simp [encodedFixedSize] at h
  | .tuple _, _, h, _, _ => by simp [encodedFixedSize] at h
  | .garray _ _, _, h, _, _ => by simp [encodedFixedSize] at h
  | .seq _ _ _, _, h, _, _ => by simp [encodedFixedSize] at h
  | .str, _, h, _, _ => by simp [encodedFixedSize] at h
  | .bytes, _, h, _, _ => by simp [encodedFixedSize] at h
  | .box _ _, _, h, _, _ => by simp [encodedFixedSize] at h
  | .wrap _, _, h, _, _ => by simp [encodedFixedSize] at h
  | .duration, _, h, _, _ => by simp [encodedFixedSize] at h
  | .range _, _, h, _, _ => by simp [encodedFixedSize] at h
  | .bitseq _ _, _, h, _, _ => by simp [encodedFixedSize] at h
  | .enum _ _, _, h, _, _ => by simp [encodedFixedSize] at h

end Scale
