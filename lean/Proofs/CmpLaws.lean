/-
  Proofs/CmpLaws.lean — the modelled `Ord` (`Val.cmp`) is a lawful total order on all values:
  antisymmetric under swap, transitive, and `Equal` only on identical values. This discharges the
  hypothesis `LawfulCmp` of the map/set theorems for the order the model itself uses.
-/
import Scale.Order
import Proofs.MapOrder
namespace Scale

theorem cmp_of_rank_lt : ∀ {a b : Val}, a.rank < b.rank → Val.cmp a b = .lt := by
  intro a b h
  cases a <;> cases b <;> simp [Val.rank] at h <;> simp [Val.cmp, Val.rank, Nat.compare_eq_lt]

theorem cmp_of_rank_gt : ∀ {a b : Val}, b.rank < a.rank → Val.cmp a b = .gt := by
  intro a b h
  cases a <;> cases b <;> simp [Val.rank] at h <;> simp [Val.cmp, Val.rank, Nat.compare_eq_gt]

theorem rank_le_of_lt {a b : Val} (h : Val.cmp a b = .lt) : a.rank ≤ b.rank := by
  by_cases hgt : b.rank < a.rank
  · rw [cmp_of_rank_gt hgt] at h; cases h
  · omega

theorem rank_eq_of_eq {a b : Val} (h : Val.cmp a b = .eq) : a.rank = b.rank := by
  by_cases hgt : b.rank < a.rank
  · rw [cmp_of_rank_gt hgt] at h; cases h
  · by_cases hlt : a.rank < b.rank
    · rw [cmp_of_rank_lt hlt] at h; cases h
    · omega

/-! ### byte strings and bit lists -/

theorem cmpBytes_swap : ∀ (a b : Bytes), cmpBytes b a = (cmpBytes a b).swap
  | [], [] => rfl
  | [], _ :: _ => rfl
  | _ :: _, [] => rfl
  | x :: xs, y :: ys => by
    simp only [cmpBytes]
    by_cases h1 : x.toNat < y.toNat
    · have : ¬ y.toNat < x.toNat := by omega
      simp [h1, this]
    · by_cases h2 : y.toNat < x.toNat
      · simp [h1, h2]
      · simp [h1, h2, cmpBytes_swap xs ys]

theorem cmpBytes_eq : ∀ (a b : Bytes), cmpBytes a b = .eq → a = b
  | [], [], _ => rfl
  | [], _ :: _, h => by simp [cmpBytes] at h
  | _ :: _, [], h => by simp [cmpBytes] at h
  | x :: xs, y :: ys, h => by
    simp only [cmpBytes] at h
    by_cases h1 : x.toNat < y.toNat
    · simp [h1] at h
    · by_cases h2 : y.toNat < x.toNat
      · simp [h1, h2] at h
      · simp only [h1, h2, if_false] at h
        have : x = y := UInt8.toNat_inj.mp (by omega)
        rw [this, cmpBytes_eq xs ys h]

theorem cmpBytes_refl : ∀ (a : Bytes), cmpBytes a a = .eq
  | [] => rfl
  | x :: xs => by simp [cmpBytes, cmpBytes_refl xs]

theorem cmpBytes_trans : ∀ (a b c : Bytes), cmpBytes a b = .lt → cmpBytes b c = .lt → cmpBytes a c = .lt
  | [], [], _, h, _ => by simp [cmpBytes] at h
  | [], _ :: _, [], _, h => by simp [cmpBytes] at h
  | [], _ :: _, _ :: _, _, _ => rfl
  | _ :: _, [], _, h, _ => by simp [cmpBytes] at h
  | _ :: _, _ :: _, [], _, h => by simp [cmpBytes] at h
  | x :: xs, y :: ys, z :: zs, h1, h2 => by
    simp only [cmpBytes] at h1 h2 ⊢
    by_cases a1 : x.toNat < y.toNat
    · by_cases b1 : y.toNat < z.toNat
      · have : x.toNat < z.toNat := by omega
        simp [this]
      · by_cases b2 : z.toNat < y.toNat
        · simp [b1, b2] at h2
        · have : x.toNat < z.toNat := by omega
          simp [this]
    · by_cases a2 : y.toNat < x.toNat
      · simp [a1, a2] at h1
      · simp only [a1, a2, if_false] at h1
        by_cases b1 : y.toNat < z.toNat
        · have : x.toNat < z.toNat := by omega
          simp [this]
        · by_cases b2 : z.toNat < y.toNat
          · simp [b1, b2] at h2
          · simp only [b1, b2, if_false] at h2
            have c1 : ¬ x.toNat < z.toNat := by omega
            have c2 : ¬ z.toNat < x.toNat := by omega
            simp only [c1, c2, if_false]
            exact cmpBytes_trans xs ys zs h1 h2

theorem cmpBits_swap : ∀ (a b : List Bool), cmpBits b a = (cmpBits a b).swap
  | [], [] => rfl
  | [], _ :: _ => rfl
  | _ :: _, [] => rfl
  | x :: xs, y :: ys => by
    cases x <;> cases y <;> simp [cmpBits, cmpBits_swap xs ys]

theorem cmpBits_eq : ∀ (a b : List Bool), cmpBits a b = .eq → a = b
  | [], [], _ => rfl
  | [], _ :: _, h => by simp [cmpBits] at h
  | _ :: _, [], h => by simp [cmpBits] at h
  | x :: xs, y :: ys, h => by
    cases x <;> cases y <;> simp [cmpBits] at h <;> simp [cmpBits_eq xs ys h]

theorem cmpBits_refl : ∀ (a : List Bool), cmpBits a a = .eq
  | [] => rfl
  | x :: xs => by simp [cmpBits, cmpBits_refl xs]

theorem cmpBits_trans : ∀ (a b c : List Bool), cmpBits a b = .lt → cmpBits b c = .lt → cmpBits a c = .lt
  | [], [], _, h, _ => by simp [cmpBits] at h
  | [], _ :: _, [], _, h => by simp [cmpBits] at h
  | [], _ :: _, _ :: _, _, _ => rfl
  | _ :: _, [], _, h, _ => by simp [cmpBits] at h
  | _ :: _, _ :: _, [], _, h => by simp [cmpBits] at h
  | x :: xs, y :: ys, z :: zs, h1, h2 => by
    cases x <;> cases y <;> cases z <;> simp [cmpBits] at h1 h2 ⊢ <;> exact cmpBits_trans xs ys zs h1 h2

/-! ### the order on values -/

mutual
theorem cmp_refl : ∀ (a : Val), Val.cmp a a = .eq
  | .unit => rfl
  | .bool b => by simp [Val.cmp]
  | .nat n => by simp [Val.cmp]
  | .int i => by simp [Val.cmp]
  | .none => rfl
  | .some a => by simp only [Val.cmp]; exact cmp_refl a
  | .ok a => by simp only [Val.cmp]; exact cmp_refl a
  | .err a => by simp only [Val.cmp]; exact cmp_refl a
  | .seq as => by simp only [Val.cmp]; exact cmpList_refl as
  | .bytes b => by simp only [Val.cmp]; exact cmpBytes_refl b
  | .bits b => by simp only [Val.cmp]; exact cmpBits_refl b
  | .variant i a => by simp [Val.cmp, cmp_refl a]
  | .skipped => by simp [Val.cmp, Val.rank]

theorem cmpList_refl : ∀ (as : List Val), Val.cmpList as as = .eq
  | [] => rfl
  | a :: as => by simp [Val.cmpList, cmp_refl a, cmpList_refl as]
end

mutual
theorem cmp_swap : ∀ (a b : Val), Val.cmp b a = (Val.cmp a b).swap
  | .unit, b => by cases b <;> simp [Val.cmp, Val.rank, Nat.compare_swap]
  | .bool x, b => by
    cases b <;> try (simp [Val.cmp, Val.rank, Nat.compare_swap]; done)
    case bool y => cases x <;> cases y <;> simp [Val.cmp]
  | .nat x, b => by
    cases b <;> simp [Val.cmp, Val.rank, Nat.compare_swap]
  | .int x, b => by
    cases b <;> try (simp [Val.cmp, Val.rank, Nat.compare_swap]; done)
    case int y => simp [Val.cmp, Int.compare_swap]
  | .none, b => by cases b <;> simp [Val.cmp, Val.rank, Nat.compare_swap]
  | .some x, b => by
    cases b <;> try (simp [Val.cmp, Val.rank, Nat.compare_swap]; done)
    case some y => simp only [Val.cmp]; exact cmp_swap x y
  | .ok x, b => by
    cases b <;> try (simp [Val.cmp, Val.rank, Nat.compare_swap]; done)
    case ok y => simp only [Val.cmp]; exact cmp_swap x y
  | .err x, b => by
    cases b <;> try (simp [Val.cmp, Val.rank, Nat.compare_swap]; done)
    case err y => simp only [Val.cmp]; exact cmp_swap x y
  | .seq xs, b => by
    cases b <;> try (simp [Val.cmp, Val.rank, Nat.compare_swap]; done)
    case seq ys => simp only [Val.cmp]; exact cmpList_swap xs ys
  | .bytes x, b => by
    cases b <;> try (simp [Val.cmp, Val.rank, Nat.compare_swap]; done)
    case bytes y => simp only [Val.cmp]; exact cmpBytes_swap x y
  | .bits x, b => by
    cases b <;> try (simp [Val.cmp, Val.rank, Nat.compare_swap]; done)
    case bits y => simp only [Val.cmp]; exact cmpBits_swap x y
  | .variant i x, b => by
    cases b <;> try (simp [Val.cmp, Val.rank, Nat.compare_swap]; done)
    case variant j y =>
      simp only [Val.cmp]
      by_cases h1 : i < j
      · have : ¬ j < i := by omega
        simp [h1, this]
      · by_cases h2 : j < i
        · simp [h1, h2]
        · simp [h1, h2, cmp_swap x y]
  | .skipped, b => by cases b <;> simp [Val.cmp, Val.rank, Nat.compare_swap]

theorem cmpList_swap : ∀ (as bs : List Val), Val.cmpList bs as = (Val.cmpList as bs).swap
  | [], [] => rfl
  | [], _ :: _ => rfl
  | _ :: _, [] => rfl
  | a :: as, b :: bs => by
    simp only [Val.cmpList]
    rw [cmp_swap a b]
    cases h : Val.cmp a b <;> simp [Ordering.swap, cmpList_swap as bs]
end

mutual
theorem cmp_eq : ∀ (a b : Val), Val.cmp a b = .eq → a = b
  | .unit, b, h => by
    have hr := rank_eq_of_eq h
    cases b <;> simp [Val.rank] at hr <;> rfl
  | .bool x, b, h => by
    have hr := rank_eq_of_eq h
    cases b <;> simp [Val.rank] at hr
    case bool y => cases x <;> cases y <;> simp [Val.cmp] at h ⊢
  | .nat x, b, h => by
    have hr := rank_eq_of_eq h
    cases b <;> simp [Val.rank] at hr
    case nat y => simp only [Val.cmp, Nat.compare_eq_eq] at h; rw [h]
  | .int x, b, h => by
    have hr := rank_eq_of_eq h
    cases b <;> simp [Val.rank] at hr
    case int y => simp only [Val.cmp, Int.compare_eq_eq] at h; rw [h]
  | .none, b, h => by
    have hr := rank_eq_of_eq h
    cases b <;> simp [Val.rank] at hr <;> rfl
  | .some x, b, h => by
    have hr := rank_eq_of_eq h
    cases b <;> simp [Val.rank] at hr
    case some y => simp only [Val.cmp] at h; rw [cmp_eq x y h]
  | .ok x, b, h => by
    have hr := rank_eq_of_eq h
    cases b <;> simp [Val.rank] at hr
    case ok y => simp only [Val.cmp] at h; rw [cmp_eq x y h]
  | .err x, b, h => by
    have hr := rank_eq_of_eq h
    cases b <;> simp [Val.rank] at hr
    case err y => simp only [Val.cmp] at h; rw [cmp_eq x y h]
  | .seq xs, b, h => by
    have hr := rank_eq_of_eq h
    cases b <;> simp [Val.rank] at hr
    case seq ys => simp only [Val.cmp] at h; rw [cmpList_eq xs ys h]
  | .bytes x, b, h => by
    have hr := rank_eq_of_eq h
    cases b <;> simp [Val.rank] at hr
    case bytes y => simp only [Val.cmp] at h; rw [cmpBytes_eq x y h]
  | .bits x, b, h => by
    have hr := rank_eq_of_eq h
    cases b <;> simp [Val.rank] at hr
    case bits y => simp only [Val.cmp] at h; rw [cmpBits_eq x y h]
  | .variant i x, b, h => by
    have hr := rank_eq_of_eq h
    cases b <;> simp [Val.rank] at hr
    case variant j y =>
      simp only [Val.cmp] at h
      by_cases h1 : i < j
      · simp [h1] at h
      · by_cases h2 : j < i
        · simp [h1, h2] at h
        · simp only [h1, h2, if_false] at h
          have : i = j := by omega
          rw [this, cmp_eq x y h]
  | .skipped, b, h => by
    have hr := rank_eq_of_eq h
    cases b <;> simp [Val.rank] at hr <;> rfl

theorem cmpList_eq : ∀ (as bs : List Val), Val.cmpList as bs = .eq → as = bs
  | [], [], _ => rfl
  | [], _ :: _, h => by simp [Val.cmpList] at h
  | _ :: _, [], h => by simp [Val.cmpList] at h
  | a :: as, b :: bs, h => by
    simp only [Val.cmpList] at h
    cases hc : Val.cmp a b with
    | eq => rw [hc] at h; rw [cmp_eq a b hc, cmpList_eq as bs h]
    | lt => rw [hc] at h; cases h
    | gt => rw [hc] at h; cases h
end

end Scale

namespace Scale

/-- Mismatched constructors are ordered by rank, so three values in a `<` chain either have
    strictly increasing ranks at the ends (done) or all the same rank (same constructor). -/
theorem trans_by_rank {a b c : Val} (h1 : Val.cmp a b = .lt) (h2 : Val.cmp b c = .lt)
    (hne : ¬ (a.rank = b.rank ∧ b.rank = c.rank)) : Val.cmp a c = .lt := by
  have := rank_le_of_lt h1
  have := rank_le_of_lt h2
  exact cmp_of_rank_lt (by omega)

mutual
theorem cmp_trans : ∀ (a b c : Val), Val.cmp a b = .lt → Val.cmp b c = .lt → Val.cmp a c = .lt
  | .unit, b, c, h1, h2 => by
    by_cases hr : Val.unit.rank = b.rank ∧ b.rank = c.rank
    · cases b <;> simp [Val.rank] at hr
      simp [Val.cmp] at h1
    · exact trans_by_rank h1 h2 hr
  | .bool x, b, c, h1, h2 => by
    by_cases hr : (Val.bool x).rank = b.rank ∧ b.rank = c.rank
    · cases b <;> simp [Val.rank] at hr
      cases c <;> simp [Val.rank] at hr
      rename_i y z
      cases x <;> cases y <;> cases z <;> simp [Val.cmp] at h1 h2 ⊢
    · exact trans_by_rank h1 h2 hr
  | .nat x, b, c, h1, h2 => by
    by_cases hr : (Val.nat x).rank = b.rank ∧ b.rank = c.rank
    · cases b <;> simp [Val.rank] at hr
      cases c <;> simp [Val.rank] at hr
      simp only [Val.cmp, Nat.compare_eq_lt] at h1 h2 ⊢
      omega
    · exact trans_by_rank h1 h2 hr
  | .int x, b, c, h1, h2 => by
    by_cases hr : (Val.int x).rank = b.rank ∧ b.rank = c.rank
    · cases b <;> simp [Val.rank] at hr
      cases c <;> simp [Val.rank] at hr
      simp only [Val.cmp, Int.compare_eq_lt] at h1 h2 ⊢
      omega
    · exact trans_by_rank h1 h2 hr
  | .none, b, c, h1, h2 => by
    by_cases hr : Val.none.rank = b.rank ∧ b.rank = c.rank
    · cases b <;> simp [Val.rank] at hr
      simp [Val.cmp] at h1
    · exact trans_by_rank h1 h2 hr
  | .some x, b, c, h1, h2 => by
    by_cases hr : (Val.some x).rank = b.rank ∧ b.rank = c.rank
    · cases b <;> simp [Val.rank] at hr
      cases c <;> simp [Val.rank] at hr
      simp only [Val.cmp] at h1 h2 ⊢
      exact cmp_trans x _ _ h1 h2
    · exact trans_by_rank h1 h2 hr
  | .ok x, b, c, h1, h2 => by
    by_cases hr : (Val.ok x).rank = b.rank ∧ b.rank = c.rank
    · cases b <;> simp [Val.rank] at hr
      cases c <;> simp [Val.rank] at hr
      simp only [Val.cmp] at h1 h2 ⊢
      exact cmp_trans x _ _ h1 h2
    · exact trans_by_rank h1 h2 hr
  | .err x, b, c, h1, h2 => by
    by_cases hr : (Val.err x).rank = b.rank ∧ b.rank = c.rank
    · cases b <;> simp [Val.rank] at hr
      cases c <;> simp [Val.rank] at hr
      simp only [Val.cmp] at h1 h2 ⊢
      exact cmp_trans x _ _ h1 h2
    · exact trans_by_rank h1 h2 hr
  | .seq xs, b, c, h1, h2 => by
    by_cases hr : (Val.seq xs).rank = b.rank ∧ b.rank = c.rank
    · cases b <;> simp [Val.rank] at hr
      cases c <;> simp [Val.rank] at hr
      simp only [Val.cmp] at h1 h2 ⊢
      exact cmpList_trans xs _ _ h1 h2
    · exact trans_by_rank h1 h2 hr
  | .bytes x, b, c, h1, h2 => by
    by_cases hr : (Val.bytes x).rank = b.rank ∧ b.rank = c.rank
    · cases b <;> simp [Val.rank] at hr
      cases c <;> simp [Val.rank] at hr
      simp only [Val.cmp] at h1 h2 ⊢
      exact cmpBytes_trans x _ _ h1 h2
    · exact trans_by_rank h1 h2 hr
  | .bits x, b, c, h1, h2 => by
    by_cases hr : (Val.bits x).rank = b.rank ∧ b.rank = c.rank
    · cases b <;> simp [Val.rank] at hr
      cases c <;> simp [Val.rank] at hr
      simp only [Val.cmp] at h1 h2 ⊢
      exact cmpBits_trans x _ _ h1 h2
    · exact trans_by_rank h1 h2 hr
  | .variant i x, b, c, h1, h2 => by
    by_cases hr : (Val.variant i x).rank = b.rank ∧ b.rank = c.rank
    · cases b <;> simp [Val.rank] at hr
      cases c <;> simp [Val.rank] at hr
      rename_i j y k z
      simp only [Val.cmp] at h1 h2 ⊢
      by_cases a1 : i < j
      · by_cases b1 : j < k
        · have : i < k := by omega
          simp [this]
        · by_cases b2 : k < j
          · simp [b1, b2] at h2
          · have : i < k := by omega
            simp [this]
      · by_cases a2 : j < i
        · simp [a1, a2] at h1
        · simp only [a1, a2, if_false] at h1
          by_cases b1 : j < k
          · have : i < k := by omega
            simp [this]
          · by_cases b2 : k < j
            · simp [b1, b2] at h2
            · simp only [b1, b2, if_false] at h2
              have c1 : ¬ i < k := by omega
              have c2 : ¬ k < i := by omega
              simp only [c1, c2, if_false]
              exact cmp_trans x _ _ h1 h2
    · exact trans_by_rank h1 h2 hr
  | .skipped, b, c, h1, h2 => by
    by_cases hr : Val.skipped.rank = b.rank ∧ b.rank = c.rank
    · cases b <;> simp [Val.rank] at hr
      simp [Val.cmp, Val.rank] at h1
    · exact trans_by_rank h1 h2 hr

theorem cmpList_trans : ∀ (as bs cs : List Val), Val.cmpList as bs = .lt → Val.cmpList bs cs = .lt →
    Val.cmpList as cs = .lt
  | [], [], _, h, _ => by simp [Val.cmpList] at h
  | [], _ :: _, [], _, h => by simp [Val.cmpList] at h
  | [], _ :: _, _ :: _, _, _ => rfl
  | _ :: _, [], _, h, _ => by simp [Val.cmpList] at h
  | _ :: _, _ :: _, [], _, h => by simp [Val.cmpList] at h
  | a :: as, b :: bs, c :: cs, h1, h2 => by
    simp only [Val.cmpList] at h1 h2 ⊢
    cases hab : Val.cmp a b with
    | gt => rw [hab] at h1; cases h1
    | lt =>
      cases hbc : Val.cmp b c with
      | gt => rw [hbc] at h2; cases h2
      | lt => rw [cmp_trans a b c hab hbc]
      | eq => rw [← cmp_eq b c hbc, hab]
    | eq =>
      rw [hab] at h1
      have e := cmp_eq a b hab
      subst e
      cases hbc : Val.cmp a c with
      | gt => rw [hbc] at h2; cases h2
      | lt => rfl
      | eq =>
        rw [hbc] at h2
        exact cmpList_trans as bs cs h1 h2
end

/-- **The modelled order is lawful.** -/
theorem valCmp_lawful : LawfulCmp Val.cmp where
  swap := fun a b => cmp_swap a b
  trans := cmp_trans
  eq_key := cmp_eq

end Scale
