/-
  Proofs/Mel.lean — declared maximum / constant encoded lengths are true.
-/
import Scale.Mel
import Scale.Encode
import Scale.Wf
import Proofs.CompactEnc
import Proofs.Prim
import Proofs.EncodeRef
namespace Scale
open Impl

theorem satAdd_min (a b : Nat) : satAdd (min a usizeMax) (min b usizeMax) = min (a + b) usizeMax := by
  unfold satAdd; omega

theorem satAdd_min_one (a : Nat) : satAdd (min a usizeMax) 1 = min (a + 1) usizeMax := by
  unfold satAdd; simp only [usizeMax]; omega

theorem satMul_min (a n : Nat) : satMul (min a usizeMax) n = min (a * n) usizeMax := by
  unfold satMul
  by_cases h : a ≤ usizeMax
  · rw [Nat.min_eq_left h]
  · have h' : usizeMax < a := by omega
    rw [Nat.min_eq_right (Nat.le_of_lt h')]
    cases n with
    | zero => simp
    | succ n =>
      have h1 : usizeMax ≤ usizeMax * (n + 1) := Nat.le_mul_of_pos_right _ (by omega)
      have h2 : usizeMax * (n + 1) ≤ a * (n + 1) := Nat.mul_le_mul_right _ (Nat.le_of_lt h')
      rw [Nat.min_eq_right h1, Nat.min_eq_right (Nat.le_trans h1 h2)]

theorem max_min (a b : Nat) : max (min a usizeMax) (min b usizeMax) = min (max a b) usizeMax := by omega

mutual
theorem mel_eq_min : ∀ (ty : Ty), mel ty = min (melNat ty) usizeMax
  | .unit => by simp [mel, melNat]
  | .bool => by simp [mel, melNat, usizeMax]
  | .optionBool => by simp [mel, melNat]
  | .prim p => by cases p <;> simp [mel, melNat, Prim.size, usizeMax]
  | .nonZero p => by cases p <;> simp [mel, melNat, Prim.size, usizeMax]
  | .compact w => by
    simp only [mel, melNat, compactMel]
    split <;> simp [usizeMax]
  | .option t => by simp only [mel, melNat, mel_eq_min t, satAdd_min_one]
  | .result t e => by simp only [mel, melNat, mel_eq_min t, mel_eq_min e, max_min, satAdd_min_one]
  | .tuple ts => by simp only [mel, melNat, melSum_eq_min ts]
  | .array n t => by simp only [mel, melNat, mel_eq_min t, satMul_min]
  | .garray _ _ => by simp [mel, melNat]
  | .seq _ _ _ => by simp [mel, melNat]
  | .str => by simp [mel, melNat]
  | .bytes => by simp [mel, melNat]
  | .box _ t => by simp only [mel, melNat, mel_eq_min t]
  | .wrap _ => by simp [mel, melNat]
  | .duration => by simp [mel, melNat, usizeMax]
  | .range t => by simp only [mel, melNat, mel_eq_min t, satMul_min]
  | .bitseq _ _ => by simp [mel, melNat]
  | .enum _ ts => by simp only [mel, melNat, melMax_eq_min ts, satAdd_min_one]

theorem melSum_eq_min : ∀ (ts : List Ty), mel.melSum ts = min (melNat.melNatSum ts) usizeMax
  | [] => by simp [mel.melSum, melNat.melNatSum]
  | t :: ts => by simp only [mel.melSum, melNat.melNatSum, mel_eq_min t, melSum_eq_min ts, satAdd_min]

theorem melMax_eq_min : ∀ (ts : List Ty), mel.melMax ts = min (melNat.melNatMax ts) usizeMax
  | [] => by simp [mel.melMax, melNat.melNatMax]
  | t :: ts => by simp only [mel.melMax, melNat.melNatMax, mel_eq_min t, melMax_eq_min ts, max_min]
end

theorem compact_length_le_mel {w n : Nat} (hw : widthOk w = true) (hn : n < 2 ^ (8 * w)) :
    (Spec.compact n).length ≤ compactMel w := by
  have hw' := widthOk_iff hw
  rw [spec_compact_length]
  have := spec_compactLen_le_cap hw' hn
  rcases hw' with rfl | rfl | rfl | rfl | rfl <;> simpa [compactCap, compactMel] using this

theorem flatten_length_le (cs : List Bytes) (m : Nat) (h : ∀ c ∈ cs, c.length ≤ m) :
    cs.flatten.length ≤ m * cs.length := by
  induction cs with
  | nil => simp
  | cons c cs ih =>
    have h1 := h c (List.mem_cons_self)
    have h2 := ih (fun c' hc' => h c' (List.mem_cons_of_mem _ hc'))
    simp only [List.flatten_cons, List.length_append, List.length_cons, Nat.mul_succ]
    omega

mutual
/-- No value encodes to more bytes than the (unsaturated) declared maximum. -/
theorem encode_le_melNat : ∀ (ty : Ty) (v : Val), hasMel ty = true → wf ty v = true →
    (Spec.encode ty v).length ≤ melNat ty
  | .unit, v, _, _ => by simp [Spec.encode, melNat]
  | .bool, v, _, h => by
    cases v <;> try (simp [wf] at h; done)
    simp [Spec.encode, melNat]
  | .optionBool, _, hm, _ => by simp [hasMel] at hm
  | .prim p, v, _, h => by
    simp only [wf] at h
    simp [Spec.encode, melNat, primBytes_length h]
  | .nonZero p, v, _, h => by
    simp only [wf, Bool.and_eq_true] at h
    simp [Spec.encode, melNat, primBytes_length h.1]
  | .compact w, v, _, h => by
    cases v <;> try (simp [wf] at h; done)
    case nat n =>
      simp only [wf, Bool.and_eq_true, decide_eq_true_eq] at h
      simp only [Spec.encode, melNat]
      exact compact_length_le_mel h.1 h.2
  | .option t, v, hm, h => by
    simp only [hasMel] at hm
    cases v <;> try (simp [wf] at h; done)
    case none => simp [Spec.encode, melNat]
    case some v =>
      have := encode_le_melNat t v hm (by simpa [wf] using h)
      simp only [Spec.encode, melNat, List.length_cons]; omega
  | .result t e, v, hm, h => by
    simp only [hasMel, Bool.and_eq_true] at hm
    cases v <;> try (simp [wf] at h; done)
    case ok v =>
      have := encode_le_melNat t v hm.1 (by simpa [wf] using h)
      simp only [Spec.encode, melNat, List.length_cons]; omega
    case err v =>
      have := encode_le_melNat e v hm.2 (by simpa [wf] using h)
      simp only [Spec.encode, melNat, List.length_cons]; omega
  | .tuple ts, v, hm, h => by
    cases v <;> try (simp [wf] at h; done)
    case seq vs =>
      simp only [Spec.encode, melNat]
      exact encodeList_le_melNat ts vs (by simpa [hasMel] using hm) (by simpa [wf] using h)
  | .array n t, v, hm, h => by
    simp only [hasMel] at hm
    cases v <;> try (simp [wf] at h; done)
    case seq vs =>
      simp only [wf, Bool.and_eq_true, beq_iff_eq, List.all_eq_true] at h
      obtain ⟨rfl, hall⟩ := h
      simp only [Spec.encode, melNat]
      have := flatten_length_le (vs.map (Spec.encode t)) (melNat t)
        (by intro c hc; obtain ⟨v, hv, rfl⟩ := List.mem_map.mp hc; exact encode_le_melNat t v hm (hall v hv))
      simpa using this
  | .garray _ _, _, hm, _ => by simp [hasMel] at hm
  | .seq _ _ _, _, hm, _ => by simp [hasMel] at hm
  | .str, _, hm, _ => by simp [hasMel] at hm
  | .bytes, _, hm, _ => by simp [hasMel] at hm
  | .box _ t, v, hm, h => by
    simp only [Spec.encode, melNat]
    exact encode_le_melNat t v (by simpa [hasMel] using hm) (by simpa [wf] using h)
  | .wrap _, _, hm, _ => by simp [hasMel] at hm
  | .duration, v, _, h => by
    obtain ⟨s, n, rfl, _, _⟩ := wf_duration h
    simp [Spec.encode, melNat]
  | .range t, v, hm, h => by
    simp only [hasMel] at hm
    obtain ⟨a, b, rfl, ha, hb⟩ := wf_range h
    have h1 := encode_le_melNat t a hm ha
    have h2 := encode_le_melNat t b hm hb
    simp only [Spec.encode, melNat, List.length_append]; omega
  | .bitseq _ _, _, hm, _ => by simp [hasMel] at hm
  | .enum idxs ts, v, hm, h => by
    cases v <;> try (simp [wf] at h; done)
    case variant idx pv =>
      simp only [Spec.encode, melNat]
      exact encodeVariant_le_melNat idxs ts idx pv (by simpa [hasMel] using hm) (by simpa [wf] using h)

theorem encodeList_le_melNat : ∀ (ts : List Ty) (vs : List Val), hasMel.hasMelList ts = true →
    wfList ts vs = true → (Spec.encodeList ts vs).length ≤ melNat.melNatSum ts
  | [], vs, _, _ => by cases vs <;> simp [Spec.encodeList, melNat.melNatSum]
  | t :: ts, vs, hm, h => by
    simp only [hasMel.hasMelList, Bool.and_eq_true] at hm
    cases vs with
    | nil => simp [wfList] at h
    | cons v vs =>
      simp only [wfList, Bool.and_eq_true] at h
      have h1 := encode_le_melNat t v hm.1 h.1
      have h2 := encodeList_le_melNat ts vs hm.2 h.2
      simp only [Spec.encodeList, melNat.melNatSum, List.length_append]; omega

theorem encodeVariant_le_melNat : ∀ (idxs : List Nat) (ts : List Ty) (idx : Nat) (v : Val),
    hasMel.hasMelList ts = true → wfVariant idxs ts idx v = true →
    (Spec.encodeVariant idxs ts idx v).length ≤ melNat.melNatMax ts + 1
  | [], _, _, _, _, h => by simp [wfVariant] at h
  | _ :: _, [], _, _, _, h => by simp [wfVariant] at h
  | i :: is, t :: ts, idx, v, hm, h => by
    simp only [hasMel.hasMelList, Bool.and_eq_true] at hm
    simp only [wfVariant, Bool.and_eq_true, decide_eq_true_eq] at h
    simp only [Spec.encodeVariant, melNat.melNatMax]
    split
    · next hi =>
      simp only [hi, if_true] at h
      have := encode_le_melNat t v hm.1 h.2
      simp only [List.length_cons]; omega
    · next hi =>
      simp only [hi, if_false] at h
      have := encodeVariant_le_melNat is ts idx v hm.2 h.2
      omega
end

mutual
/-- Constant-length types: every value encodes to exactly the declared length. -/
theorem encode_eq_melNat : ∀ (ty : Ty) (v : Val), isCel ty = true → wf ty v = true →
    (Spec.encode ty v).length = melNat ty
  | .unit, v, _, _ => by simp [Spec.encode, melNat]
  | .bool, v, _, h => by
    cases v <;> try (simp [wf] at h; done)
    simp [Spec.encode, melNat]
  | .prim p, v, _, h => by
    simp only [wf] at h
    simp [Spec.encode, melNat, primBytes_length h]
  | .nonZero p, v, _, h => by
    simp only [wf, Bool.and_eq_true] at h
    simp [Spec.encode, melNat, primBytes_length h.1]
  | .tuple ts, v, hm, h => by
    cases v <;> try (simp [wf] at h; done)
    case seq vs =>
      simp only [Spec.encode, melNat]
      exact encodeList_eq_melNat ts vs (by simpa [isCel] using hm) (by simpa [wf] using h)
  | .array n t, v, hm, h => by
    simp only [isCel] at hm
    cases v <;> try (simp [wf] at h; done)
    case seq vs =>
      simp only [wf, Bool.and_eq_true, beq_iff_eq, List.all_eq_true] at h
      obtain ⟨rfl, hall⟩ := h
      simp only [Spec.encode, melNat]
      have := flatten_length_const (vs.map (Spec.encode t)) (size := melNat t)
        (by intro c hc; obtain ⟨v, hv, rfl⟩ := List.mem_map.mp hc; exact encode_eq_melNat t v hm (hall v hv))
      simpa [Nat.mul_comm] using this
  | .box _ t, v, hm, h => by
    simp only [Spec.encode, melNat]
    exact encode_eq_melNat t v (by simpa [isCel] using hm) (by simpa [wf] using h)
  | .wrap _, _, hm, _ => by simp [isCel] at hm
  | .duration, v, _, h => by
    obtain ⟨s, n, rfl, _, _⟩ := wf_duration h
    simp [Spec.encode, melNat]
  | .range t, v, hm, h => by
    simp only [isCel] at hm
    obtain ⟨a, b, rfl, ha, hb⟩ := wf_range h
    have h1 := encode_eq_melNat t a hm ha
    have h2 := encode_eq_melNat t b hm hb
    simp only [Spec.encode, melNat, List.length_append]; omega
  | .optionBool, _, hm, _ => by simp [isCel] at hm
  | .compact _, _, hm, _ => by simp [isCel] at hm
  | .option _, _, hm, _ => by simp [isCel] at hm
  | .result _ _, _, hm, _ => by simp [isCel] at hm
  | .garray _ _, _, hm, _ => by simp [isCel] at hm
  | .seq _ _ _, _, hm, _ => by simp [isCel] at hm
  | .str, _, hm, _ => by simp [isCel] at hm
  | .bytes, _, hm, _ => by simp [isCel] at hm
  | .bitseq _ _, _, hm, _ => by simp [isCel] at hm
  | .enum _ _, _, hm, _ => by simp [isCel] at hm

theorem encodeList_eq_melNat : ∀ (ts : List Ty) (vs : List Val), isCel.isCelList ts = true →
    wfList ts vs = true → (Spec.encodeList ts vs).length = melNat.melNatSum ts
  | [], vs, _, _ => by cases vs <;> simp [Spec.encodeList, melNat.melNatSum]
  | t :: ts, vs, hm, h => by
    simp only [isCel.isCelList, Bool.and_eq_true] at hm
    cases vs with
    | nil => simp [wfList] at h
    | cons v vs =>
      simp only [wfList, Bool.and_eq_true] at h
      have h1 := encode_eq_melNat t v hm.1 h.1
      have h2 := encodeList_eq_melNat ts vs hm.2 h.2
      simp only [Spec.encodeList, melNat.melNatSum, List.length_append]; omega
end

end Scale
