/-
  Proofs/Stack.lean — the provided input wrappers are transparent to each other: a counting wrapper
  changes neither results nor the state of what it wraps (whatever that is — a slice, a memory
  tracker, a depth limiter over a memory tracker …).
-/
import Proofs.Sim
import Proofs.Wrappers
namespace Scale

/-- `CountedInput` forwards every call: the wrapped input goes through exactly the states it would
    go through alone, and every result is the wrapped input's result. -/
theorem counted_transparent_exact {σ : Type} (I : InputOps σ) (hraw : I.rawBytes = none) :
    ExactOps I (countedInput I) (fun s b => b.1 = s) where
  remainingLen := by rintro s ⟨s', c⟩ rfl; exact ⟨rfl, rfl⟩
  read := by
    rintro n s ⟨s', c⟩ rfl
    simp only [countedInput]
    rcases res_cases (I.read n s') with ⟨x, s1, h⟩ | ⟨s1, h⟩ | ⟨s1, h⟩ <;> rw [h] <;> exact ⟨rfl, rfl⟩
  readByte := by
    rintro s ⟨s', c⟩ rfl
    simp only [countedInput]
    rcases res_cases (I.readByte s') with ⟨x, s1, h⟩ | ⟨s1, h⟩ | ⟨s1, h⟩ <;> rw [h] <;> exact ⟨rfl, rfl⟩
  descend := by rintro s ⟨s', c⟩ rfl; exact ⟨rfl, rfl⟩
  ascend := by rintro s ⟨s', c⟩ rfl; rfl
  onAlloc := by rintro n s ⟨s', c⟩ rfl; exact ⟨rfl, rfl⟩
  rawNone := ⟨hraw, rfl⟩

/-- For every program: result and wrapped state through a counting wrapper are those without it. -/
theorem counted_transparent {σ α : Type} (I : InputOps σ) (hraw : I.rawBytes = none) (p : Prog α) (s : σ) (c : Nat) :
    (run (countedInput I) p (s, c)).1 = (run I p s).1 ∧ (run (countedInput I) p (s, c)).2.1 = (run I p s).2 := by
  obtain ⟨e, r⟩ := run_exact (counted_transparent_exact I hraw) p s (s, c) rfl
  exact ⟨e.symm, r⟩

end Scale
