/-
  Proofs/Wrappers.lean — the three `Input` wrappers of the crate, related to the recording inputs
  and to the wrapped input by the simulation theorems, for an arbitrary wrapped input `I`.
-/
import Scale.Ghost
import Proofs.Sim
namespace Scale

/-! ### CountedInput -/

def countRel {σ : Type} : σ × Nat → σ × Nat → Prop := fun a b => a.1 = b.1 ∧ b.2 = min a.2 u64Max

theorem counted_exact {σ : Type} (I : InputOps σ) (hraw : I.rawBytes = none) :
    ExactOps (tallyInput I) (countedInput I) countRel where
  remainingLen := by
    rintro ⟨s, t⟩ ⟨s', c⟩ ⟨rfl, hc⟩
    simp only [tallyInput, countedInput, countRel] at hc ⊢
    exact ⟨by trivial, by trivial, hc⟩
  read := by
    rintro n ⟨s, t⟩ ⟨s', c⟩ ⟨rfl, hc⟩
    simp only [tallyInput, countedInput, countRel] at hc ⊢
    cases h : I.read n s with
    | mk r s1 =>
      cases r with
      | ok b => simp only [u64Max] at hc ⊢; refine ⟨by trivial, by trivial, ?_⟩; omega
      | err => exact ⟨by trivial, by trivial, hc⟩
      | panic => exact ⟨by trivial, by trivial, hc⟩
  readByte := by
    rintro ⟨s, t⟩ ⟨s', c⟩ ⟨rfl, hc⟩
    simp only [tallyInput, countedInput, countRel] at hc ⊢
    cases h : I.readByte s with
    | mk r s1 =>
      cases r with
      | ok b => simp only [u64Max] at hc ⊢; refine ⟨by trivial, by trivial, ?_⟩; omega
      | err => exact ⟨by trivial, by trivial, hc⟩
      | panic => exact ⟨by trivial, by trivial, hc⟩
  descend := by
    rintro ⟨s, t⟩ ⟨s', c⟩ ⟨rfl, hc⟩
    simp only [tallyInput, countedInput, countRel] at hc ⊢
    exact ⟨by trivial, by trivial, hc⟩
  ascend := by
    rintro ⟨s, t⟩ ⟨s', c⟩ ⟨rfl, hc⟩
    exact ⟨rfl, hc⟩
  onAlloc := by
    rintro n ⟨s, t⟩ ⟨s', c⟩ ⟨rfl, hc⟩
    simp only [tallyInput, countedInput, countRel] at hc ⊢
    exact ⟨by trivial, by trivial, hc⟩
  rawNone := ⟨rfl, rfl⟩

/-- On a slice the exact tally is the number of bytes consumed. -/
def tallySliceRel (total : Nat) : Bytes → Bytes × Nat → Prop := fun s b => b.1 = s ∧ b.2 + s.length = total

theorem tally_slice_exact (total : Nat) : ExactOps sliceInput (tallyInput sliceInput) (tallySliceRel total) where
  remainingLen := by
    rintro s ⟨s', t⟩ ⟨rfl, ht⟩
    exact ⟨by trivial, by trivial, ht⟩
  read := by
    rintro n s ⟨s', t⟩ ⟨rfl, ht⟩
    simp only [tallyInput, tallySliceRel, sliceInput, sliceRead_eq] at ht ⊢
    by_cases h : n > s'.length
    · simp [h, ht]
    · simp only [h, if_false]
      refine ⟨by trivial, by trivial, ?_⟩
      simp; omega
  readByte := by
    rintro s ⟨s', t⟩ ⟨rfl, ht⟩
    simp only [tallyInput, tallySliceRel, sliceInput] at ht ⊢
    cases s' with
    | nil => exact ⟨by trivial, by trivial, ht⟩
    | cons b tl => refine ⟨by trivial, by trivial, ?_⟩; simp at ht ⊢; omega
  descend := by
    rintro s ⟨s', t⟩ ⟨rfl, ht⟩
    exact ⟨by trivial, by trivial, ht⟩
  ascend := by
    rintro s ⟨s', t⟩ ⟨rfl, ht⟩
    exact ⟨rfl, ht⟩
  onAlloc := by
    rintro n s ⟨s', t⟩ ⟨rfl, ht⟩
    exact ⟨by trivial, by trivial, ht⟩
  rawNone := ⟨rfl, rfl⟩

end Scale

namespace Scale

/-! ### helpers for forwarding wrappers -/

theorem res_cases {α σ} (x : Res α × σ) :
    (∃ a s, x = (.ok a, s)) ∨ (∃ s, x = (.err, s)) ∨ (∃ s, x = (.panic, s)) := by
  obtain ⟨r, s⟩ := x
  cases r <;> simp

/-! ### depth limit -/

/-- `I` vs `depthInput L I`: transparent or failing. -/
def depthTransRel {σ : Type} : LaxRel σ (σ × Nat) := { ok := fun s b => b.1 = s, div := fun _ _ => True }

theorem depth_trans_prims {σ : Type} (L : Nat) (I : InputOps σ) (hraw : I.rawBytes = none) :
    LaxPrims I (depthInput L I) depthTransRel where
  remainingLen := by rintro s ⟨s', d⟩ rfl; exact Or.inl ⟨rfl, rfl⟩
  read := by rintro n s ⟨s', d⟩ rfl; exact Or.inl ⟨rfl, rfl⟩
  readByte := by rintro s ⟨s', d⟩ rfl; exact Or.inl ⟨rfl, rfl⟩
  descend := by
    rintro s ⟨s', d⟩ rfl
    simp only [depthInput, depthTransRel]
    rcases res_cases (I.descend s') with ⟨u, s1, h⟩ | ⟨s1, h⟩ | ⟨s1, h⟩ <;> rw [h]
    · cases u
      by_cases hd : d + 1 > L
      · simp only [hd, if_true]; exact Or.inr (Or.inl ⟨by trivial, trivial⟩)
      · simp only [hd, if_false]; exact Or.inl ⟨by trivial, by trivial⟩
    · exact Or.inl ⟨rfl, rfl⟩
    · exact Or.inl ⟨rfl, rfl⟩
  ascend := by rintro s ⟨s', d⟩ rfl; rfl
  onAlloc := by rintro n s ⟨s', d⟩ rfl; exact Or.inl ⟨rfl, rfl⟩
  sRemainingLen := fun _ _ _ => trivial
  sRead := fun _ _ _ _ => trivial
  sReadByte := fun _ _ _ => trivial
  sDescend := fun _ _ _ => trivial
  sAscend := fun _ _ _ => trivial
  sOnAlloc := fun _ _ _ _ => trivial
  rawNone := ⟨hraw, rfl⟩

/-- `depthRec I` vs `depthInput L I`, in-sync relation carrying `max ≤ L`. -/
def depthLeRel {σ : Type} (L : Nat) : LaxRel (σ × Nat × Nat) (σ × Nat) :=
  { ok := fun a b => a.1 = b.1 ∧ a.2.1 = b.2 ∧ a.2.2 ≤ L, div := fun _ _ => True }

theorem depth_le_prims {σ : Type} (L : Nat) (I : InputOps σ) :
    LaxPrims (depthRec I) (depthInput L I) (depthLeRel L) where
  remainingLen := by rintro ⟨s, d, m⟩ ⟨s', d'⟩ ⟨rfl, rfl, hm⟩; exact Or.inl ⟨rfl, rfl, rfl, hm⟩
  read := by rintro n ⟨s, d, m⟩ ⟨s', d'⟩ ⟨rfl, rfl, hm⟩; exact Or.inl ⟨rfl, rfl, rfl, hm⟩
  readByte := by rintro ⟨s, d, m⟩ ⟨s', d'⟩ ⟨rfl, rfl, hm⟩; exact Or.inl ⟨rfl, rfl, rfl, hm⟩
  descend := by
    rintro ⟨s, d, m⟩ ⟨s', d'⟩ ⟨rfl, rfl, hm⟩
    simp only [depthInput, depthRec, depthLeRel] at hm ⊢
    rcases res_cases (I.descend s) with ⟨u, s1, h⟩ | ⟨s1, h⟩ | ⟨s1, h⟩ <;> rw [h]
    · cases u
      by_cases hd : d + 1 > L
      · simp only [hd, if_true]; exact Or.inr (Or.inl ⟨by trivial, trivial⟩)
      · simp only [hd, if_false]; exact Or.inl ⟨by trivial, by trivial, by trivial, by omega⟩
    · exact Or.inl ⟨rfl, rfl, rfl, hm⟩
    · exact Or.inl ⟨rfl, rfl, rfl, hm⟩
  ascend := by rintro ⟨s, d, m⟩ ⟨s', d'⟩ ⟨rfl, rfl, hm⟩; exact ⟨rfl, rfl, hm⟩
  onAlloc := by rintro n ⟨s, d, m⟩ ⟨s', d'⟩ ⟨rfl, rfl, hm⟩; exact Or.inl ⟨rfl, rfl, rfl, hm⟩
  sRemainingLen := fun _ _ _ => trivial
  sRead := fun _ _ _ _ => trivial
  sReadByte := fun _ _ _ => trivial
  sDescend := fun _ _ _ => trivial
  sAscend := fun _ _ _ => trivial
  sOnAlloc := fun _ _ _ _ => trivial
  rawNone := ⟨rfl, rfl⟩

/-- `depthRec I` vs `depthInput L I`, divergence relation `max > L`. -/
def depthGtRel {σ : Type} (L : Nat) : LaxRel (σ × Nat × Nat) (σ × Nat) :=
  { ok := fun a b => a.1 = b.1 ∧ a.2.1 = b.2, div := fun a _ => a.2.2 > L }

theorem depth_gt_prims {σ : Type} (L : Nat) (I : InputOps σ) :
    LaxPrims (depthRec I) (depthInput L I) (depthGtRel L) where
  remainingLen := by rintro ⟨s, d, m⟩ ⟨s', d'⟩ ⟨rfl, rfl⟩; exact Or.inl ⟨rfl, rfl, rfl⟩
  read := by rintro n ⟨s, d, m⟩ ⟨s', d'⟩ ⟨rfl, rfl⟩; exact Or.inl ⟨rfl, rfl, rfl⟩
  readByte := by rintro ⟨s, d, m⟩ ⟨s', d'⟩ ⟨rfl, rfl⟩; exact Or.inl ⟨rfl, rfl, rfl⟩
  descend := by
    rintro ⟨s, d, m⟩ ⟨s', d'⟩ ⟨rfl, rfl⟩
    simp only [depthInput, depthRec, depthGtRel]
    rcases res_cases (I.descend s) with ⟨u, s1, h⟩ | ⟨s1, h⟩ | ⟨s1, h⟩ <;> rw [h]
    · cases u
      by_cases hd : d + 1 > L
      · simp only [hd, if_true]; exact Or.inr (Or.inl ⟨by trivial, by omega⟩)
      · simp only [hd, if_false]; exact Or.inl ⟨by trivial, by trivial, by trivial⟩
    · exact Or.inl ⟨rfl, rfl, rfl⟩
    · exact Or.inl ⟨rfl, rfl, rfl⟩
  ascend := by rintro ⟨s, d, m⟩ ⟨s', d'⟩ ⟨rfl, rfl⟩; exact ⟨rfl, rfl⟩
  onAlloc := by rintro n ⟨s, d, m⟩ ⟨s', d'⟩ ⟨rfl, rfl⟩; exact Or.inl ⟨rfl, rfl, rfl⟩
  sRemainingLen := by rintro ⟨s, d, m⟩ b h; exact h
  sRead := by rintro n ⟨s, d, m⟩ b h; exact h
  sReadByte := by rintro ⟨s, d, m⟩ b h; exact h
  sDescend := by
    rintro ⟨s, d, m⟩ b h
    simp only [depthRec, depthGtRel] at h ⊢
    rcases res_cases (I.descend s) with ⟨u, s1, e⟩ | ⟨s1, e⟩ | ⟨s1, e⟩ <;> rw [e]
    · cases u; simp only; omega
    · exact h
    · exact h
  sAscend := by rintro ⟨s, d, m⟩ b h; exact h
  sOnAlloc := by rintro n ⟨s, d, m⟩ b h; exact h
  rawNone := ⟨rfl, rfl⟩

/-- The recording input answers exactly like the input it wraps. -/
theorem depthRec_exact {σ : Type} (I : InputOps σ) (hraw : I.rawBytes = none) :
    ExactOps I (depthRec I) (fun s b => b.1 = s) where
  remainingLen := by rintro s ⟨s', dm⟩ rfl; exact ⟨rfl, rfl⟩
  read := by rintro n s ⟨s', dm⟩ rfl; exact ⟨rfl, rfl⟩
  readByte := by rintro s ⟨s', dm⟩ rfl; exact ⟨rfl, rfl⟩
  descend := by
    rintro s ⟨s', dm⟩ rfl
    simp only [depthRec]
    rcases res_cases (I.descend s') with ⟨u, s1, h⟩ | ⟨s1, h⟩ | ⟨s1, h⟩ <;> rw [h]
    · cases u; exact ⟨rfl, rfl⟩
    · exact ⟨rfl, rfl⟩
    · exact ⟨rfl, rfl⟩
  ascend := by rintro s ⟨s', dm⟩ rfl; rfl
  onAlloc := by rintro n s ⟨s', dm⟩ rfl; exact ⟨rfl, rfl⟩
  rawNone := ⟨hraw, rfl⟩

/-! ### memory limit -/

def memTransRel {σ : Type} : LaxRel σ (σ × Nat) := { ok := fun s b => b.1 = s, div := fun _ _ => True }

theorem mem_trans_prims {σ : Type} (L : Nat) (I : InputOps σ) (hraw : I.rawBytes = none) :
    LaxPrims I (memInput L I) memTransRel where
  remainingLen := by rintro s ⟨s', u⟩ rfl; exact Or.inl ⟨rfl, rfl⟩
  read := by rintro n s ⟨s', u⟩ rfl; exact Or.inl ⟨rfl, rfl⟩
  readByte := by rintro s ⟨s', u⟩ rfl; exact Or.inl ⟨rfl, rfl⟩
  descend := by rintro s ⟨s', u⟩ rfl; exact Or.inl ⟨rfl, rfl⟩
  ascend := by rintro s ⟨s', u⟩ rfl; rfl
  onAlloc := by
    rintro n s ⟨s', u⟩ rfl
    simp only [memInput, memTransRel]
    rcases res_cases (I.onAlloc n s') with ⟨x, s1, h⟩ | ⟨s1, h⟩ | ⟨s1, h⟩ <;> rw [h]
    · cases x
      by_cases hd : satAdd u n ≥ L
      · simp only [hd, if_true]; exact Or.inr (Or.inl ⟨by trivial, trivial⟩)
      · simp only [hd, if_false]; exact Or.inl ⟨by trivial, by trivial⟩
    · exact Or.inl ⟨rfl, rfl⟩
    · exact Or.inl ⟨rfl, rfl⟩
  sRemainingLen := fun _ _ _ => trivial
  sRead := fun _ _ _ _ => trivial
  sReadByte := fun _ _ _ => trivial
  sDescend := fun _ _ _ => trivial
  sAscend := fun _ _ _ => trivial
  sOnAlloc := fun _ _ _ _ => trivial
  rawNone := ⟨hraw, rfl⟩

/-- `memRec I` vs `memInput L I`; in sync, the usage is 0 or below the limit. -/
def memLtRel {σ : Type} (L : Nat) : LaxRel (σ × Nat) (σ × Nat) :=
  { ok := fun a b => a.1 = b.1 ∧ a.2 = b.2 ∧ (a.2 = 0 ∨ a.2 < L), div := fun _ _ => True }

theorem mem_lt_prims {σ : Type} (L : Nat) (I : InputOps σ) :
    LaxPrims (memRec I) (memInput L I) (memLtRel L) where
  remainingLen := by rintro ⟨s, u⟩ ⟨s', u'⟩ ⟨rfl, rfl, hm⟩; exact Or.inl ⟨rfl, rfl, rfl, hm⟩
  read := by rintro n ⟨s, u⟩ ⟨s', u'⟩ ⟨rfl, rfl, hm⟩; exact Or.inl ⟨rfl, rfl, rfl, hm⟩
  readByte := by rintro ⟨s, u⟩ ⟨s', u'⟩ ⟨rfl, rfl, hm⟩; exact Or.inl ⟨rfl, rfl, rfl, hm⟩
  descend := by rintro ⟨s, u⟩ ⟨s', u'⟩ ⟨rfl, rfl, hm⟩; exact Or.inl ⟨rfl, rfl, rfl, hm⟩
  ascend := by rintro ⟨s, u⟩ ⟨s', u'⟩ ⟨rfl, rfl, hm⟩; exact ⟨rfl, rfl, hm⟩
  onAlloc := by
    rintro n ⟨s, u⟩ ⟨s', u'⟩ ⟨rfl, rfl, hm⟩
    simp only [memInput, memRec, memLtRel] at hm ⊢
    rcases res_cases (I.onAlloc n s) with ⟨x, s1, h⟩ | ⟨s1, h⟩ | ⟨s1, h⟩ <;> rw [h]
    · cases x
      by_cases hd : satAdd u n ≥ L
      · simp only [hd, if_true]; exact Or.inr (Or.inl ⟨by trivial, trivial⟩)
      · simp only [hd, if_false]; exact Or.inl ⟨by trivial, by trivial, by trivial, Or.inr (by omega)⟩
    · exact Or.inl ⟨rfl, rfl, rfl, hm⟩
    · exact Or.inl ⟨rfl, rfl, rfl, hm⟩
  sRemainingLen := fun _ _ _ => trivial
  sRead := fun _ _ _ _ => trivial
  sReadByte := fun _ _ _ => trivial
  sDescend := fun _ _ _ => trivial
  sAscend := fun _ _ _ => trivial
  sOnAlloc := fun _ _ _ _ => trivial
  rawNone := ⟨rfl, rfl⟩

/-- `memRec I` vs `memInput L I`; after a divergence the recorded usage is at least the limit. -/
def memGeRel {σ : Type} (L : Nat) : LaxRel (σ × Nat) (σ × Nat) :=
  { ok := fun a b => a.1 = b.1 ∧ a.2 = b.2, div := fun a _ => a.2 ≥ L }

theorem satAdd_ge (a b : Nat) (h : a ≤ usizeMax) : a ≤ satAdd a b := by
  unfold satAdd; omega

theorem mem_ge_prims {σ : Type} (L : Nat) (hL : L ≤ usizeMax) (I : InputOps σ) :
    LaxPrims (memRec I) (memInput L I) (memGeRel L) where
  remainingLen := by rintro ⟨s, u⟩ ⟨s', u'⟩ ⟨rfl, rfl⟩; exact Or.inl ⟨rfl, rfl, rfl⟩
  read := by rintro n ⟨s, u⟩ ⟨s', u'⟩ ⟨rfl, rfl⟩; exact Or.inl ⟨rfl, rfl, rfl⟩
  readByte := by rintro ⟨s, u⟩ ⟨s', u'⟩ ⟨rfl, rfl⟩; exact Or.inl ⟨rfl, rfl, rfl⟩
  descend := by rintro ⟨s, u⟩ ⟨s', u'⟩ ⟨rfl, rfl⟩; exact Or.inl ⟨rfl, rfl, rfl⟩
  ascend := by rintro ⟨s, u⟩ ⟨s', u'⟩ ⟨rfl, rfl⟩; exact ⟨rfl, rfl⟩
  onAlloc := by
    rintro n ⟨s, u⟩ ⟨s', u'⟩ ⟨rfl, rfl⟩
    simp only [memInput, memRec, memGeRel]
    rcases res_cases (I.onAlloc n s) with ⟨x, s1, h⟩ | ⟨s1, h⟩ | ⟨s1, h⟩ <;> rw [h]
    · cases x
      by_cases hd : satAdd u n ≥ L
      · simp only [hd, if_true]; exact Or.inr (Or.inl ⟨by trivial, by trivial⟩)
      · simp only [hd, if_false]; exact Or.inl ⟨by trivial, by trivial, by trivial⟩
    · exact Or.inl ⟨rfl, rfl, rfl⟩
    · exact Or.inl ⟨rfl, rfl, rfl⟩
  sRemainingLen := by rintro ⟨s, u⟩ b h; exact h
  sRead := by rintro n ⟨s, u⟩ b h; exact h
  sReadByte := by rintro ⟨s, u⟩ b h; exact h
  sDescend := by rintro ⟨s, u⟩ b h; exact h
  sAscend := by rintro ⟨s, u⟩ b h; exact h
  sOnAlloc := by
    rintro n ⟨s, u⟩ b h
    simp only [memRec, memGeRel] at h ⊢
    rcases res_cases (I.onAlloc n s) with ⟨x, s1, e⟩ | ⟨s1, e⟩ | ⟨s1, e⟩ <;> rw [e]
    · cases x
      -- the limit is a `usize`: saturation cannot drop below it
      simp only [satAdd]
      omega
    · exact h
    · exact h
  rawNone := ⟨rfl, rfl⟩

theorem memRec_exact {σ : Type} (I : InputOps σ) (hraw : I.rawBytes = none) :
    ExactOps I (memRec I) (fun s b => b.1 = s) where
  remainingLen := by rintro s ⟨s', u⟩ rfl; exact ⟨rfl, rfl⟩
  read := by rintro n s ⟨s', u⟩ rfl; exact ⟨rfl, rfl⟩
  readByte := by rintro s ⟨s', u⟩ rfl; exact ⟨rfl, rfl⟩
  descend := by rintro s ⟨s', u⟩ rfl; exact ⟨rfl, rfl⟩
  ascend := by rintro s ⟨s', u⟩ rfl; rfl
  onAlloc := by
    rintro n s ⟨s', u⟩ rfl
    simp only [memRec]
    rcases res_cases (I.onAlloc n s') with ⟨x, s1, h⟩ | ⟨s1, h⟩ | ⟨s1, h⟩ <;> rw [h]
    · cases x; exact ⟨rfl, rfl⟩
    · exact ⟨rfl, rfl⟩
    · exact ⟨rfl, rfl⟩
  rawNone := ⟨hraw, rfl⟩

end Scale

namespace Scale

/-! ### the thresholds, for an arbitrary wrapped input -/

theorem depth_generic {σ α : Type} (I : InputOps σ) (hraw : I.rawBytes = none) (L : Nat) (p : Prog α) (s : σ) :
    (((run (depthInput L I) p (s, 0)).1 = (run I p s).1 ∧ (run (depthInput L I) p (s, 0)).2.1 = (run I p s).2) ∨
      (run (depthInput L I) p (s, 0)).1 = .err) ∧
    (∀ v, (run I p s).1 = .ok v →
      (((run (depthInput L I) p (s, 0)).1 = .ok v ∧ (run (depthInput L I) p (s, 0)).2.1 = (run I p s).2) ↔
        (run (depthRec I) p (s, 0, 0)).2.2.2 ≤ L)) := by
  have ht := (run_lax (laxOps_of_prims (depth_trans_prims L I hraw)) p).1 s (s, 0) rfl
  have hrec := run_exact (depthRec_exact I hraw) p s (s, 0, 0) rfl
  have hle := (run_lax (laxOps_of_prims (depth_le_prims L I)) p).1 (s, 0, 0) (s, 0) ⟨rfl, rfl, Nat.zero_le _⟩
  have hgt := (run_lax (laxOps_of_prims (depth_gt_prims L I)) p).1 (s, 0, 0) (s, 0) ⟨rfl, rfl⟩
  refine ⟨?_, fun v hv => ⟨fun hl => ?_, fun hn => ?_⟩⟩
  · rcases ht with ⟨e, r⟩ | ⟨e, _⟩ | ⟨_, e⟩
    · exact Or.inl ⟨e.symm, r⟩
    · exact Or.inr e
    · exact Or.inr e
  · rcases hle with ⟨_, _, _, hm⟩ | ⟨e, _⟩ | ⟨_, e⟩
    · exact hm
    · rw [hl.1] at e; cases e
    · rw [hl.1] at e; cases e
  · rcases hgt with ⟨e, r1, _⟩ | ⟨_, d⟩ | ⟨e, _⟩
    · exact ⟨by rw [← e, ← hrec.1]; exact hv, by rw [← r1]; exact hrec.2⟩
    · exfalso; simp only [depthGtRel] at d; omega
    · rw [← hrec.1, hv] at e; cases e

theorem mem_generic {σ α : Type} (I : InputOps σ) (hraw : I.rawBytes = none) (L : Nat) (hL : L ≤ usizeMax)
    (p : Prog α) (s : σ) :
    (((run (memInput L I) p (s, 0)).1 = (run I p s).1 ∧ (run (memInput L I) p (s, 0)).2.1 = (run I p s).2) ∨
      (run (memInput L I) p (s, 0)).1 = .err) ∧
    (∀ v, (run I p s).1 = .ok v →
      (L > (run (memRec I) p (s, 0)).2.2 →
        (run (memInput L I) p (s, 0)).1 = .ok v ∧ (run (memInput L I) p (s, 0)).2.1 = (run I p s).2 ∧
        (run (memInput L I) p (s, 0)).2.2 = (run (memRec I) p (s, 0)).2.2) ∧
      ((run (memRec I) p (s, 0)).2.2 > 0 → L ≤ (run (memRec I) p (s, 0)).2.2 →
        (run (memInput L I) p (s, 0)).1 = .err)) := by
  have ht := (run_lax (laxOps_of_prims (mem_trans_prims L I hraw)) p).1 s (s, 0) rfl
  have hrec := run_exact (memRec_exact I hraw) p s (s, 0) rfl
  have hlt := (run_lax (laxOps_of_prims (mem_lt_prims L I)) p).1 (s, 0) (s, 0) ⟨rfl, rfl, Or.inl rfl⟩
  have hge := (run_lax (laxOps_of_prims (mem_ge_prims L hL I)) p).1 (s, 0) (s, 0) ⟨rfl, rfl⟩
  refine ⟨?_, fun v hv => ⟨fun hgtU => ?_, fun hpos hle => ?_⟩⟩
  · rcases ht with ⟨e, r⟩ | ⟨e, _⟩ | ⟨_, e⟩
    · exact Or.inl ⟨e.symm, r⟩
    · exact Or.inr e
    · exact Or.inr e
  · rcases hge with ⟨e, r1, r2⟩ | ⟨_, d⟩ | ⟨e, _⟩
    · exact ⟨by rw [← e, ← hrec.1]; exact hv, by rw [← r1]; exact hrec.2, r2.symm⟩
    · exfalso; simp only [memGeRel] at d; omega
    · rw [← hrec.1, hv] at e; cases e
  · rcases hlt with ⟨_, _, _, hm⟩ | ⟨e, _⟩ | ⟨_, e⟩
    · exfalso; omega
    · exact e
    · exact e

end Scale
