/-
  Proofs/Renorm.lean — the decoder of a type with ordered collections is the decoder of its
  "listified" twin followed by order-normalisation; hence the exact accepted language of every type
  without bit sequences.
-/
import Scale.Renorm
import Scale.Decode
import Scale.Wf
import Scale.Canon
import Proofs.RunSlice
import Proofs.BulkSlice
import Proofs.Canonical
import Proofs.WireCanon
import Proofs.RoundTrip
namespace Scale
open Impl

def mapR {α β σ : Type} (f : α → β) (x : Res α × σ) : Res β × σ := (x.1.map f, x.2)

/-- `p` behaves like `q` followed by applying `f` to the result (over the slice input). -/
def Sim {α β : Type} (f : α → β) (p : Prog β) (q : Prog α) : Prop :=
  ∀ s, run sliceInput p s = mapR f (run sliceInput q s)

theorem Sim.pure {α β : Type} (f : α → β) (a : α) : Sim f (.pure (f a)) (.pure a) := fun _ => rfl
theorem Sim.fail {α β : Type} (f : α → β) : Sim f (.fail) (.fail) := fun _ => rfl
theorem Sim.panic {α β : Type} (f : α → β) : Sim f (.panic) (.panic) := fun _ => rfl

theorem Sim.refl {α : Type} (p : Prog α) : Sim id p p := by
  intro s
  simp only [mapR]
  cases h : run sliceInput p s with
  | mk r s' => cases r <;> rfl

theorem Sim.bind {α β γ δ : Type} {f : α → β} {g : γ → δ} {p : Prog β} {q : Prog α}
    {k : β → Prog δ} {k' : α → Prog γ} (h : Sim f p q) (hk : ∀ a, Sim g (k (f a)) (k' a)) :
    Sim g (p.bind k) (q.bind k') := by
  intro s
  rw [run_bind, run_bind, h s]
  cases hq : run sliceInput q s with
  | mk r s' =>
    cases r with
    | ok a => simp only [mapR, Res.map]; exact hk a s'
    | err => rfl
    | panic => rfl

theorem Sim.readByte {α β : Type} {f : α → β} {k : UInt8 → Prog β} {k' : UInt8 → Prog α}
    (h : ∀ b, Sim f (k b) (k' b)) : Sim f (.readByte k) (.readByte k') := by
  intro s
  cases s with
  | nil => rfl
  | cons b s => exact h b s

theorem Sim.read {α β : Type} {f : α → β} (n : Nat) {k : Bytes → Prog β} {k' : Bytes → Prog α}
    (h : ∀ b, Sim f (k b) (k' b)) : Sim f (.read n k) (.read n k') := by
  intro s
  rw [run_slice_read, run_slice_read]
  split
  · rfl
  · exact h _ _

theorem Sim.descend {α β : Type} {f : α → β} {k : Unit → Prog β} {k' : Unit → Prog α}
    (h : Sim f (k ()) (k' ())) : Sim f (.descend k) (.descend k') := fun s => h s
theorem Sim.ascend {α β : Type} {f : α → β} {k : Unit → Prog β} {k' : Unit → Prog α}
    (h : Sim f (k ()) (k' ())) : Sim f (.ascend k) (.ascend k') := fun s => h s
/-- Over a slice the announced size is irrelevant. -/
theorem Sim.alloc {α β : Type} {f : α → β} (n m : Nat) {k : Unit → Prog β} {k' : Unit → Prog α}
    (h : Sim f (k ()) (k' ())) : Sim f (.alloc n k) (.alloc m k') := fun s => h s

theorem Sim.bulk {α β : Type} {f : α → β} (sz n : Nat) {k : Bytes → Prog β} {k' : Bytes → Prog α}
    (h : ∀ b, Sim f (k b) (k' b)) : Sim f (.bulk sz n k) (.bulk sz n k') := by
  intro s
  simp only [run]
  cases hb : runBulk sliceInput sz n s with
  | mk r s' =>
    cases r with
    | ok b => exact h b s'
    | err => rfl
    | panic => rfl

theorem Sim.rawBytes {α β : Type} {f : α → β} (n : Nat) {k : Bytes → Prog β} {k' : Bytes → Prog α}
    (h : ∀ b, Sim f (k b) (k' b)) : Sim f (.rawBytes n k) (.rawBytes n k') := by
  intro s
  simp only [run]
  cases hb : runRawBytes sliceInput n s with
  | mk r s' =>
    cases r with
    | ok b => exact h b s'
    | err => rfl
    | panic => rfl

theorem Sim.ite {α β : Type} {f : α → β} {c : Prop} [Decidable c] {p p' : Prog β} {q q' : Prog α}
    (h : Sim f p q) (h' : Sim f p' q') : Sim f (if c then p else p') (if c then q else q') := by
  split <;> assumption

theorem Sim.replicateM {α β : Type} {f : α → β} {p : Prog β} {q : Prog α} (h : Sim f p q) :
    ∀ n, Sim (List.map f) (Prog.replicateM n p) (Prog.replicateM n q)
  | 0 => Sim.pure (List.map f) []
  | n+1 => by
    simp only [Prog.replicateM]
    exact Sim.bind h fun a => Sim.bind (Sim.replicateM h n) fun as => Sim.pure (List.map f) (a :: as)

theorem Sim.itemChunks {f : Val → Val} {p q : Prog Val} (h : Sim f p q) (sz : Nat) :
    ∀ fuel rem, Sim (List.map f) (itemChunks sz p fuel rem) (itemChunks sz q fuel rem) := by
  intro fuel
  induction fuel with
  | zero => intro rem; exact Sim.pure (List.map f) []
  | succ fuel ih =>
    intro rem
    unfold Impl.itemChunks
    refine Sim.ite (Sim.pure (List.map f) []) ?_
    refine Sim.alloc _ _ ?_
    refine Sim.bind (Sim.replicateM h _) fun xs => ?_
    refine Sim.bind (ih _) fun ys => ?_
    have : (List.map f xs ++ List.map f ys) = List.map f (xs ++ ys) := by simp
    rw [this]
    exact Sim.pure (List.map f) (xs ++ ys)

/-- If `g` and `g'` agree on everything `q` can return, they are interchangeable. -/
theorem Sim.congr_on {α β : Type} {g g' : α → β} {p : Prog β} {q : Prog α} (h : Sim g p q)
    (hq : ∀ s a s', run sliceInput q s = (.ok a, s') → g a = g' a) : Sim g' p q := by
  intro s
  rw [h s]
  cases hr : run sliceInput q s with
  | mk r s' =>
    cases r with
    | ok a => simp only [mapR, Res.map]; rw [hq s a s' hr]
    | err => rfl
    | panic => rfl

end Scale

namespace Scale
open Impl

theorem Sim.pure' {α β : Type} {f : α → β} {a : α} {b : β} (h : f a = b) : Sim f (.pure b) (.pure a) := by
  subst h; exact Sim.pure f a

theorem Sim.of_eq {α : Type} {f : α → α} (hf : ∀ a, f a = a) (p : Prog α) : Sim f p p := by
  have : f = id := funext hf
  rw [this]; exact Sim.refl p

theorem listify_prim_iff (t : Ty) : (∃ p, listify t = .prim p) ↔ ∃ p, t = .prim p := by
  constructor
  · rintro ⟨p, h⟩; cases t <;> simp [listify] at h; exact ⟨_, rfl⟩
  · rintro ⟨p, rfl⟩; exact ⟨p, rfl⟩

theorem sim_decodeVecWithLen (sz : Nat) (t : Ty) (len : Nat) (h : Sim (renorm t) (decodeP t) (decodeP (listify t))) :
    Sim (List.map (renorm t)) (decodeVecWithLen sz t (decodeP t) len)
      (decodeVecWithLen sz (listify t) (decodeP (listify t)) len) := by
  cases t <;> try (simp only [decodeVecWithLen, listify, decodeItems]
                   exact Sim.descend (Sim.bind (Sim.itemChunks h sz len len) fun xs => Sim.ascend (Sim.pure _ xs)))
  case prim p =>
    simp only [decodeVecWithLen, listify]
    refine Sim.bulk _ _ fun b => Sim.pure' ?_
    have : ∀ l : List Val, (∀ v ∈ l, renorm (.prim p) v = v) → List.map (renorm (.prim p)) l = l := by
      intro l hl
      conv => rhs; rw [← List.map_id l]
      exact List.map_congr_left hl
    exact this _ (fun v _ => by cases v <;> simp [renorm])

theorem decodeVariant_shape : ∀ (idxs : List Nat) (ts : List Ty) (b : Nat) (s : Bytes) (a : Val) (s' : Bytes),
    run sliceInput (decodeVariant idxs ts b) s = (.ok a, s') → ∃ i v, a = .variant i v ∧ i % 256 = b
  | [], ts, b, s, a, s', h => by cases ts <;> simp [decodeVariant] at h
  | i :: is, [], b, s, a, s', h => by simp [decodeVariant] at h
  | i :: is, t :: ts, b, s, a, s', h => by
    simp only [decodeVariant] at h
    by_cases hi : i % 256 = b
    · simp only [hi, if_true] at h
      obtain ⟨v, s1, _, h2⟩ := run_bind_ok h
      obtain ⟨rfl, _⟩ := run_pure_ok h2
      exact ⟨i, v, rfl, hi⟩
    · simp only [hi, if_false] at h
      exact decodeVariant_shape is ts b s a s' h

theorem decodeP_array_nonprim (n : Nat) (t : Ty) (h : ∀ p, t ≠ .prim p) :
    decodeP (.array n t) = (Prog.replicateM n (decodeP t)).bind fun vs => .pure (.seq vs) := by
  cases t <;> first | (exact absurd rfl (h _)) | simp only [decodeP]

theorem sim_decodeArray (n : Nat) (t : Ty) (h : Sim (renorm t) (decodeP t) (decodeP (listify t))) :
    Sim (renorm (.array n t)) (decodeP (.array n t)) (decodeP (listify (.array n t))) := by
  by_cases hp : ∃ p, t = .prim p
  · obtain ⟨p, rfl⟩ := hp
    simp only [decodeP, listify]
    refine Sim.read _ fun b => Sim.pure' ?_
    simp only [renorm]
    congr 1
    conv => rhs; rw [← List.map_id (primElems p n b)]
    exact List.map_congr_left (fun v _ => by cases v <;> simp [renorm])
  · have h1 : ∀ p, t ≠ .prim p := fun p e => hp ⟨p, e⟩
    have h2 : ∀ p, listify t ≠ .prim p := fun p e => hp ((listify_prim_iff t).mp ⟨p, e⟩)
    have e : listify (.array n t) = .array n (listify t) := by simp [listify]
    rw [e, decodeP_array_nonprim n t h1, decodeP_array_nonprim n (listify t) h2]
    exact Sim.bind (Sim.replicateM h n) fun vs => Sim.pure' (by simp [renorm])

mutual
/-- **Decoding = decoding the listified type, then order-normalising.** -/
theorem sim_decodeP : ∀ (ty : Ty), Sim (renorm ty) (decodeP ty) (decodeP (listify ty))
  | .unit => Sim.of_eq (fun v => by cases v <;> simp [renorm]) _
  | .bool => Sim.of_eq (fun v => by cases v <;> simp [renorm]) _
  | .optionBool => Sim.of_eq (fun v => by cases v <;> simp [renorm]) _
  | .prim p => Sim.of_eq (fun v => by cases v <;> simp [renorm]) _
  | .nonZero p => Sim.of_eq (fun v => by cases v <;> simp [renorm]) _
  | .compact w => Sim.of_eq (fun v => by cases v <;> simp [renorm]) _
  | .str => Sim.of_eq (fun v => by cases v <;> simp [renorm]) _
  | .bytes => Sim.of_eq (fun v => by cases v <;> simp [renorm]) _
  | .duration => Sim.of_eq (fun v => by cases v <;> simp [renorm]) _
  | .bitseq s m => Sim.of_eq (fun v => by cases v <;> simp [renorm]) _
  | .option t => by
    simp only [decodeP, listify]
    refine Sim.readByte fun b => Sim.ite (Sim.pure' (by simp [renorm])) (Sim.ite ?_ (Sim.fail _))
    exact Sim.bind (sim_decodeP t) fun v => Sim.pure' (by simp [renorm])
  | .result t e => by
    simp only [decodeP, listify]
    refine Sim.readByte fun b => Sim.ite ?_ (Sim.ite ?_ (Sim.fail _))
    · exact Sim.bind (sim_decodeP t) fun v => Sim.pure' (by simp [renorm])
    · exact Sim.bind (sim_decodeP e) fun v => Sim.pure' (by simp [renorm])
  | .tuple ts => by
    simp only [decodeP, listify]
    exact Sim.bind (sim_decodeList ts) fun vs => Sim.pure' (by simp [renorm])
  | .array n t => sim_decodeArray n t (sim_decodeP t)
  | .garray n t => by
    simp only [decodeP, listify]
    exact Sim.bind (Sim.replicateM (sim_decodeP t) n) fun vs => Sim.pure' (by simp [renorm])
  | .seq k sz t => by
    simp only [decodeP, listify]
    refine Sim.bind (Sim.refl _) fun len => ?_
    simp only [id]
    cases k
    · exact Sim.bind (sim_decodeVecWithLen sz t len (sim_decodeP t)) fun vs => Sim.pure' (by simp [renorm, postKind])
    · exact Sim.bind (sim_decodeVecWithLen sz t len (sim_decodeP t)) fun vs => Sim.pure' (by simp [renorm, postKind])
    · simp only [listifyKind]
      exact Sim.bind (sim_decodeVecWithLen sz t len (sim_decodeP t)) fun vs => Sim.pure' (by simp [renorm, postKind])
    · exact Sim.descend (Sim.alloc _ _ (Sim.bind (Sim.replicateM (sim_decodeP t) len) fun vs =>
        Sim.ascend (Sim.pure' (by simp [renorm, postKind]))))
    · simp only [listifyKind]
      exact Sim.descend (Sim.alloc _ _ (Sim.bind (Sim.replicateM (sim_decodeP t) len) fun vs =>
        Sim.ascend (Sim.pure' (by simp [renorm, postKind]))))
    · simp only [listifyKind]
      exact Sim.descend (Sim.alloc _ _ (Sim.bind (Sim.replicateM (sim_decodeP t) len) fun vs =>
        Sim.ascend (Sim.pure' (by simp [renorm, postKind]))))
  | .box sz t => by
    simp only [decodeP, listify]
    exact Sim.descend (Sim.alloc _ _ (Sim.bind (sim_decodeP t) fun v => Sim.ascend (Sim.pure' (by simp [renorm]))))
  | .wrap t => by
    simp only [decodeP, listify]
    exact Sim.descend (Sim.bind (sim_decodeP t) fun v => Sim.ascend (Sim.pure' (by simp [renorm])))
  | .range t => by
    simp only [decodeP, listify]
    exact Sim.bind (sim_decodeP t) fun a => Sim.bind (sim_decodeP t) fun b => Sim.pure' (by simp [renorm])
  | .enum idxs ts => by
    simp only [decodeP, listify]
    refine Sim.readByte fun b => ?_
    refine Sim.congr_on (sim_decodeVariant idxs ts b.toNat) ?_
    intro s a s' hr
    obtain ⟨i, v, rfl, hi⟩ := decodeVariant_shape idxs (listify.listifyList ts) b.toNat s a s' hr
    simp [renorm, hi]

theorem sim_decodeList : ∀ (ts : List Ty), Sim (renormList ts) (decodeList ts) (decodeList (listify.listifyList ts))
  | [] => by
    simp only [decodeList, listify.listifyList]
    exact Sim.pure' (by simp [renormList])
  | t :: ts => by
    simp only [decodeList, listify.listifyList]
    exact Sim.bind (sim_decodeP t) fun v => Sim.bind (sim_decodeList ts) fun vs => Sim.pure' (by simp [renormList])

theorem sim_decodeVariant : ∀ (idxs : List Nat) (ts : List Ty) (b : Nat),
    Sim (fun val => match val with
          | .variant i v => .variant i (renormPayload idxs ts b v)
          | x => x)
      (decodeVariant idxs ts b) (decodeVariant idxs (listify.listifyList ts) b)
  | [], ts, b => by cases ts <;> simp only [decodeVariant, listify.listifyList] <;> exact Sim.fail _
  | i :: is, [], b => by simp only [decodeVariant, listify.listifyList]; exact Sim.fail _
  | i :: is, t :: ts, b => by
    simp only [decodeVariant, listify.listifyList]
    by_cases hi : i % 256 = b
    · simp only [hi, if_true]
      exact Sim.bind (sim_decodeP t) fun v => Sim.pure' (by simp [renormPayload, hi])
    · simp only [hi, if_false]
      have := sim_decodeVariant is ts b
      intro s
      rw [this s]
      cases hr : run sliceInput (decodeVariant is (listify.listifyList ts) b) s with
      | mk r s' =>
        cases r with
        | ok a => cases a <;> simp [mapR, Res.map, renormPayload, hi]
        | err => rfl
        | panic => rfl
end

end Scale

namespace Scale
open Impl

mutual
theorem wf_listify : ∀ (ty : Ty) (v : Val), wf (listify ty) v = wf ty v
  | .unit, v => rfl
  | .bool, v => rfl
  | .optionBool, v => rfl
  | .prim p, v => rfl
  | .nonZero p, v => rfl
  | .compact w, v => rfl
  | .str, v => rfl
  | .bytes, v => rfl
  | .duration, v => rfl
  | .bitseq s m, v => rfl
  | .option t, v => by cases v <;> simp [listify, wf, wf_listify t]
  | .result t e, v => by cases v <;> simp [listify, wf, wf_listify t, wf_listify e]
  | .tuple ts, v => by cases v <;> simp [listify, wf, wfList_listify ts]
  | .array n t, v => by
    cases v <;> simp only [listify, wf]
    case seq vs =>
      have e : wf (listify t) = wf t := funext (wf_listify t)
      rw [e]
  | .garray n t, v => by
    cases v <;> simp only [listify, wf]
    case seq vs =>
      have e : wf (listify t) = wf t := funext (wf_listify t)
      rw [e]
  | .seq k sz t, v => by
    cases v <;> simp only [listify, wf]
    case seq vs =>
      have e : wf (listify t) = wf t := funext (wf_listify t)
      rw [e]
  | .box sz t, v => by simp only [listify, wf]; exact wf_listify t v
  | .wrap t, v => by simp only [listify, wf]; exact wf_listify t v
  | .range t, v => by
    cases v with
    | seq vs =>
      match vs with
      | [] => simp [listify, wf]
      | [a] => simp [listify, wf]
      | [a, b] => simp [listify, wf, wf_listify t]
      | a :: b :: c :: r => simp [listify, wf]
    | _ => simp [listify, wf]
  | .enum idxs ts, v => by cases v <;> simp [listify, wf, wfVariant_listify idxs ts]

theorem wfList_listify : ∀ (ts : List Ty) (vs : List Val), wfList (listify.listifyList ts) vs = wfList ts vs
  | [], vs => by cases vs <;> simp [listify.listifyList, wfList]
  | t :: ts, vs => by
    cases vs with
    | nil => simp [listify.listifyList, wfList]
    | cons v vs => simp [listify.listifyList, wfList, wf_listify t v, wfList_listify ts vs]

theorem wfVariant_listify : ∀ (idxs : List Nat) (ts : List Ty) (idx : Nat) (v : Val),
    wfVariant idxs (listify.listifyList ts) idx v = wfVariant idxs ts idx v
  | [], ts, _, _ => by cases ts <;> simp [listify.listifyList, wfVariant]
  | _ :: _, [], _, _ => by simp [listify.listifyList, wfVariant]
  | i :: is, t :: ts, idx, v => by
    simp only [listify.listifyList, wfVariant, wf_listify t v, wfVariant_listify is ts idx v]
end

mutual
theorem encode_listify : ∀ (ty : Ty) (v : Val), Spec.encode (listify ty) v = Spec.encode ty v
  | .unit, v => rfl
  | .bool, v => rfl
  | .optionBool, v => rfl
  | .prim p, v => rfl
  | .nonZero p, v => rfl
  | .compact w, v => rfl
  | .str, v => rfl
  | .bytes, v => rfl
  | .duration, v => rfl
  | .bitseq s m, v => rfl
  | .option t, v => by cases v <;> simp [listify, Spec.encode, encode_listify t]
  | .result t e, v => by cases v <;> simp [listify, Spec.encode, encode_listify t, encode_listify e]
  | .tuple ts, v => by cases v <;> simp [listify, Spec.encode, encodeList_listify ts]
  | .array n t, v => by
    cases v <;> simp only [listify, Spec.encode]
    case seq vs => rw [List.map_congr_left (fun v _ => encode_listify t v)]
  | .garray n t, v => by
    cases v <;> simp only [listify, Spec.encode]
    case seq vs => rw [List.map_congr_left (fun v _ => encode_listify t v)]
  | .seq k sz t, v => by
    cases v <;> simp only [listify, Spec.encode]
    case seq vs => rw [List.map_congr_left (fun v _ => encode_listify t v)]
  | .box sz t, v => by simp only [listify, Spec.encode]; exact encode_listify t v
  | .wrap t, v => by simp only [listify, Spec.encode]; exact encode_listify t v
  | .range t, v => by
    cases v with
    | seq vs =>
      match vs with
      | [] => simp [listify, Spec.encode]
      | [a] => simp [listify, Spec.encode]
      | [a, b] => simp [listify, Spec.encode, encode_listify t]
      | a :: b :: c :: r => simp [listify, Spec.encode]
    | _ => simp [listify, Spec.encode]
  | .enum idxs ts, v => by cases v <;> simp [listify, Spec.encode, encodeVariant_listify idxs ts]

theorem encodeList_listify : ∀ (ts : List Ty) (vs : List Val),
    Spec.encodeList (listify.listifyList ts) vs = Spec.encodeList ts vs
  | [], vs => by cases vs <;> simp [listify.listifyList, Spec.encodeList]
  | t :: ts, vs => by
    cases vs with
    | nil => simp [listify.listifyList, Spec.encodeList]
    | cons v vs => simp [listify.listifyList, Spec.encodeList, encode_listify t v, encodeList_listify ts vs]

theorem encodeVariant_listify : ∀ (idxs : List Nat) (ts : List Ty) (idx : Nat) (v : Val),
    Spec.encodeVariant idxs (listify.listifyList ts) idx v = Spec.encodeVariant idxs ts idx v
  | [], ts, _, _ => by cases ts <;> simp [listify.listifyList, Spec.encodeVariant]
  | _ :: _, [], _, _ => by simp [listify.listifyList, Spec.encodeVariant]
  | i :: is, t :: ts, idx, v => by
    simp only [listify.listifyList, Spec.encodeVariant, encode_listify t v, encodeVariant_listify is ts idx v]
end

mutual
theorem wireCanon_listify : ∀ (ty : Ty), noBits ty = true → wireCanon (listify ty) = true
  | .unit, _ => rfl
  | .bool, _ => rfl
  | .optionBool, _ => rfl
  | .prim p, _ => rfl
  | .nonZero p, _ => rfl
  | .compact w, _ => rfl
  | .str, _ => rfl
  | .bytes, _ => rfl
  | .duration, _ => rfl
  | .bitseq s m, h => by simp [noBits] at h
  | .option t, h => by simp only [listify, wireCanon]; exact wireCanon_listify t (by simpa [noBits] using h)
  | .result t e, h => by
    simp only [noBits, Bool.and_eq_true] at h
    simp [listify, wireCanon, wireCanon_listify t h.1, wireCanon_listify e h.2]
  | .tuple ts, h => by simp only [listify, wireCanon]; exact wireCanonList_listify ts (by simpa [noBits] using h)
  | .array n t, h => by simp only [listify, wireCanon]; exact wireCanon_listify t (by simpa [noBits] using h)
  | .garray n t, h => by simp only [listify, wireCanon]; exact wireCanon_listify t (by simpa [noBits] using h)
  | .seq k sz t, h => by
    have := wireCanon_listify t (by simpa [noBits] using h)
    cases k <;> simp [listify, listifyKind, wireCanon, this]
  | .box sz t, h => by simp only [listify, wireCanon]; exact wireCanon_listify t (by simpa [noBits] using h)
  | .wrap t, h => by simp only [listify, wireCanon]; exact wireCanon_listify t (by simpa [noBits] using h)
  | .range t, h => by simp only [listify, wireCanon]; exact wireCanon_listify t (by simpa [noBits] using h)
  | .enum idxs ts, h => by simp only [listify, wireCanon]; exact wireCanonList_listify ts (by simpa [noBits] using h)

theorem wireCanonList_listify : ∀ (ts : List Ty), noBits.noBitsList ts = true →
    wireCanon.wireCanonList (listify.listifyList ts) = true
  | [], _ => rfl
  | t :: ts, h => by
    simp only [noBits.noBitsList, Bool.and_eq_true] at h
    simp [listify.listifyList, wireCanon.wireCanonList, wireCanon_listify t h.1, wireCanonList_listify ts h.2]
end

mutual
theorem widthsOk_listify : ∀ (ty : Ty), widthsOk (listify ty) = widthsOk ty
  | .unit => rfl | .bool => rfl | .optionBool => rfl | .prim _ => rfl | .nonZero _ => rfl | .compact _ => rfl
  | .str => rfl | .bytes => rfl | .duration => rfl | .bitseq _ _ => rfl
  | .option t => by simp [listify, widthsOk, widthsOk_listify t]
  | .result t e => by simp [listify, widthsOk, widthsOk_listify t, widthsOk_listify e]
  | .tuple ts => by simp [listify, widthsOk, widthsOkList_listify ts]
  | .array n t => by simp [listify, widthsOk, widthsOk_listify t]
  | .garray n t => by simp [listify, widthsOk, widthsOk_listify t]
  | .seq k sz t => by simp [listify, widthsOk, widthsOk_listify t]
  | .box sz t => by simp [listify, widthsOk, widthsOk_listify t]
  | .wrap t => by simp [listify, widthsOk, widthsOk_listify t]
  | .range t => by simp [listify, widthsOk, widthsOk_listify t]
  | .enum idxs ts => by simp [listify, widthsOk, widthsOkList_listify ts]

theorem widthsOkList_listify : ∀ (ts : List Ty), widthsOk.widthsOkList (listify.listifyList ts) = widthsOk.widthsOkList ts
  | [] => rfl
  | t :: ts => by simp [listify.listifyList, widthsOk.widthsOkList, widthsOk_listify t, widthsOkList_listify ts]
end

mutual
theorem layoutOk_listify : ∀ (ty : Ty), layoutOk ty = true → layoutOk (listify ty) = true
  | .unit, _ => rfl | .bool, _ => rfl | .optionBool, _ => rfl | .prim _, _ => rfl | .nonZero _, _ => rfl
  | .compact _, _ => rfl | .str, _ => rfl | .bytes, _ => rfl | .duration, _ => rfl | .bitseq _ _, _ => rfl
  | .option t, h => by simp only [listify, layoutOk]; exact layoutOk_listify t (by simpa [layoutOk] using h)
  | .result t e, h => by
    simp only [layoutOk, Bool.and_eq_true] at h
    simp [listify, layoutOk, layoutOk_listify t h.1, layoutOk_listify e h.2]
  | .tuple ts, h => by simp only [listify, layoutOk]; exact layoutOkList_listify ts (by simpa [layoutOk] using h)
  | .array n t, h => by simp only [listify, layoutOk]; exact layoutOk_listify t (by simpa [layoutOk] using h)
  | .garray n t, h => by simp only [listify, layoutOk]; exact layoutOk_listify t (by simpa [layoutOk] using h)
  | .seq k sz t, h => by
    simp only [layoutOk, Bool.and_eq_true] at h
    have := layoutOk_listify t h.1
    cases k <;> simp_all [listify, listifyKind, layoutOk]
  | .box sz t, h => by simp only [listify, layoutOk]; exact layoutOk_listify t (by simpa [layoutOk] using h)
  | .wrap t, h => by simp only [listify, layoutOk]; exact layoutOk_listify t (by simpa [layoutOk] using h)
  | .range t, h => by simp only [listify, layoutOk]; exact layoutOk_listify t (by simpa [layoutOk] using h)
  | .enum idxs ts, h => by simp only [listify, layoutOk]; exact layoutOkList_listify ts (by simpa [layoutOk] using h)

theorem layoutOkList_listify : ∀ (ts : List Ty), layoutOk.layoutOkList ts = true →
    layoutOk.layoutOkList (listify.listifyList ts) = true
  | [], _ => rfl
  | t :: ts, h => by
    simp only [layoutOk.layoutOkList, Bool.and_eq_true] at h
    simp [listify.listifyList, layoutOk.layoutOkList, layoutOk_listify t h.1, layoutOkList_listify ts h.2]
end

/-- **The exact accepted language of every type without bit sequences**: decoding succeeds with
    `v`, leaving `rest`, iff the input is the encoding of some well-formed "as written" value `raw`
    followed by `rest`, and `v` is `raw` order-normalised (heaps sorted, maps and sets rebuilt by
    `from_iter`: later duplicates win, any order accepted) at every nesting level. -/
theorem exact_language (ty : Ty) (hw : widthsOk ty = true) (hl : layoutOk ty = true) (hb : noBits ty = true)
    (bs rest : Bytes) (v : Val) :
    decode ty bs = (.ok v, rest) ↔
      ∃ raw, wf ty raw = true ∧ bs = Spec.encode ty raw ++ rest ∧ v = renorm ty raw := by
  have hsim := sim_decodeP ty bs
  have hw' : widthsOk (listify ty) = true := by rw [widthsOk_listify]; exact hw
  have hl' := layoutOk_listify ty hl
  have hc' := wireCanon_listify ty hb
  simp only [decode]
  constructor
  · intro h
    rw [hsim] at h
    cases hr : run sliceInput (decodeP (listify ty)) bs with
    | mk r s' =>
      rw [hr] at h
      cases r with
      | ok raw =>
        simp only [mapR, Res.map, Prod.mk.injEq, Res.ok.injEq] at h
        obtain ⟨hv, hs⟩ := h
        subst hs
        have := decode_inv (listify ty) hw' hl' hc' bs s' raw hr
        refine ⟨raw, ?_, ?_, hv.symm⟩
        · rw [← wf_listify]; exact this.1
        · rw [← encode_listify]; exact this.2
      | err => simp [mapR, Res.map] at h
      | panic => simp [mapR, Res.map] at h
  · rintro ⟨raw, hwf, rfl, rfl⟩
    rw [hsim]
    have hwf' : wf (listify ty) raw = true := by rw [wf_listify]; exact hwf
    have := decode_encode (listify ty) raw hwf' (canon_true (listify ty) hc' raw) hl' rest
    rw [norm_id (listify ty) hc' raw, encode_listify] at this
    rw [this]
    rfl

end Scale
