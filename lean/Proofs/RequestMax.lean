/-
  Proofs/RequestMax.lean — every *single* request the decoder makes is small: at most one
  preallocation chunk (`MAX_PREALLOCATION`) or one fixed-size pointee / list node of the type —
  whatever counts the input claims, over ANY input implementation, productive element types or not.
-/
import Scale.Request
import Proofs.HookTrace
import Proofs.RequestBound
namespace Scale
open Impl Prog

/-- Every recorded request is at most `M`. -/
def AllLe (M : Nat) (tr : List Hook) : Prop := ∀ n, Hook.alloc n ∈ tr → n ≤ M

theorem AllLe.append {M : Nat} {a b : List Hook} (ha : AllLe M a) (hb : AllLe M b) : AllLe M (a ++ b) := by
  intro n hn
  rcases List.mem_append.mp hn with h | h
  · exact ha n h
  · exact hb n h

theorem AllLe.snoc_alloc {M x : Nat} {a : List Hook} (ha : AllLe M a) (hx : x ≤ M) : AllLe M (a ++ [.alloc x]) :=
  ha.append (by intro n hn; simp at hn; omega)

theorem AllLe.snoc_desc {M : Nat} {a : List Hook} (ha : AllLe M a) : AllLe M (a ++ [.desc]) :=
  ha.append (by intro n hn; simp at hn)

theorem AllLe.snoc_asc {M : Nat} {a : List Hook} (ha : AllLe M a) : AllLe M (a ++ [.asc]) :=
  ha.append (by intro n hn; simp at hn)

theorem AllLe.mono {M M' : Nat} {a : List Hook} (ha : AllLe M a) (h : M ≤ M') : AllLe M' a :=
  fun n hn => Nat.le_trans (ha n hn) h

/-- No run of `p` records a request above `M` (stated for every bound `M' ≥ M` so that it is
    monotone in `M`). -/
def MaxReq {σ α : Type} (I : InputOps σ) (p : Prog α) (M : Nat) : Prop :=
  ∀ M', M ≤ M' → ∀ (s : σ) (tr : List Hook), AllLe M' tr → AllLe M' (run (traceRec I) p (s, tr)).2.2

namespace MaxReq
variable {σ α β : Type} {I : InputOps σ}

theorem mono {p : Prog α} {M N : Nat} (h : MaxReq I p M) (hMN : M ≤ N) : MaxReq I p N :=
  fun M' hM => h M' (Nat.le_trans hMN hM)

theorem pure (a : α) (M : Nat) : MaxReq I (.pure a) M := fun _ _ _ _ h => h
theorem fail (M : Nat) : MaxReq I (.fail : Prog α) M := fun _ _ _ _ h => h
theorem panic (M : Nat) : MaxReq I (.panic : Prog α) M := fun _ _ _ _ h => h

theorem ite {c : Prop} [Decidable c] {p q : Prog α} {M : Nat} (hp : MaxReq I p M) (hq : MaxReq I q M) :
    MaxReq I (if c then p else q) M := by
  split <;> assumption

theorem readByte {k : UInt8 → Prog α} {M : Nat} (h : ∀ b, MaxReq I (k b) M) : MaxReq I (.readByte k) M := by
  intro M' hM s tr htr
  simp only [run, traceRec]
  rcases res_cases (I.readByte s) with ⟨x, s1, e⟩ | ⟨s1, e⟩ | ⟨s1, e⟩ <;> simp only [e]
  · exact h x M' hM s1 tr htr
  · exact htr
  · exact htr

theorem read {n : Nat} {k : Bytes → Prog α} {M : Nat} (h : ∀ b, MaxReq I (k b) M) : MaxReq I (.read n k) M := by
  intro M' hM s tr htr
  simp only [run, traceRec]
  rcases res_cases (I.read n s) with ⟨x, s1, e⟩ | ⟨s1, e⟩ | ⟨s1, e⟩ <;> simp only [e]
  · exact h x M' hM s1 tr htr
  · exact htr
  · exact htr

theorem descend {k : Unit → Prog α} {M : Nat} (h : MaxReq I (k ()) M) : MaxReq I (.descend k) M := by
  intro M' hM s tr htr
  simp only [run, traceRec]
  rcases res_cases (I.descend s) with ⟨x, s1, e⟩ | ⟨s1, e⟩ | ⟨s1, e⟩ <;> simp only [e]
  · exact h M' hM s1 _ htr.snoc_desc
  · exact htr
  · exact htr

theorem ascend {k : Unit → Prog α} {M : Nat} (h : MaxReq I (k ()) M) : MaxReq I (.ascend k) M := by
  intro M' hM s tr htr
  simp only [run, traceRec]
  exact h M' hM _ _ htr.snoc_asc

theorem alloc {n : Nat} {k : Unit → Prog α} {M : Nat} (hn : n ≤ M) (h : MaxReq I (k ()) M) :
    MaxReq I (.alloc n k) M := by
  intro M' hM s tr htr
  simp only [run, traceRec]
  rcases res_cases (I.onAlloc n s) with ⟨x, s1, e⟩ | ⟨s1, e⟩ | ⟨s1, e⟩ <;> simp only [e]
  · exact h M' hM s1 _ (htr.snoc_alloc (Nat.le_trans hn hM))
  · exact htr
  · exact htr

theorem bind {p : Prog α} {f : α → Prog β} {M : Nat} (hp : MaxReq I p M) (hf : ∀ a, MaxReq I (f a) M) :
    MaxReq I (p.bind f) M := by
  intro M' hM s tr htr
  rw [run_bind]
  have := hp M' hM s tr htr
  rcases res_cases (run (traceRec I) p (s, tr)) with ⟨x, ⟨s1, t1⟩, e⟩ | ⟨⟨s1, t1⟩, e⟩ | ⟨⟨s1, t1⟩, e⟩
  · simp only [e] at this ⊢; exact hf x M' hM s1 t1 this
  · simp only [e] at this ⊢; exact this
  · simp only [e] at this ⊢; exact this

theorem replicateM {p : Prog α} {M : Nat} (hp : MaxReq I p M) : ∀ n, MaxReq I (Prog.replicateM n p) M
  | 0 => MaxReq.pure _ _
  | n+1 => bind hp fun _ => bind (replicateM hp n) fun _ => MaxReq.pure _ _

theorem ofHookFree {p : Prog α} (hp : HookFree p) (M : Nat) : MaxReq I p M := by
  intro M' _ s tr htr
  rw [hp.trace I s tr]; exact htr

end MaxReq

theorem chunkLoop_max {σ : Type} (I : InputOps σ) (sz cl M : Nat) (hfit : cl * sz ≤ M) :
    ∀ (fuel rem : Nat) (acc : Bytes) (s : σ) (tr : List Hook), AllLe M tr →
      AllLe M (chunkLoop (traceRec I) sz cl fuel rem acc (s, tr)).2.2 := by
  intro fuel
  induction fuel with
  | zero => intro rem acc s tr h; simpa [chunkLoop] using h
  | succ fuel ih =>
    intro rem acc s tr h
    rw [chunkLoop]
    by_cases h0 : rem = 0
    · simp only [h0, if_true]; exact h
    · simp only [h0, if_false]
      have hx : satMul (min cl rem) sz ≤ M :=
        Nat.le_trans (satMul_le_mul _ _) (Nat.le_trans (Nat.mul_le_mul_right sz (Nat.min_le_left _ _)) hfit)
      simp only [traceRec]
      rcases res_cases (I.onAlloc (satMul (min cl rem) sz) s) with ⟨x, s1, e⟩ | ⟨s1, e⟩ | ⟨s1, e⟩ <;> simp only [e]
      · rcases res_cases (I.read (min cl rem * sz) s1) with ⟨b, s2, e2⟩ | ⟨s2, e2⟩ | ⟨s2, e2⟩ <;> simp only [e2]
        · exact ih _ _ _ _ (h.snoc_alloc hx)
        · exact h.snoc_alloc hx
        · exact h.snoc_alloc hx
      · exact h
      · exact h

theorem runBulk_max {σ : Type} (I : InputOps σ) (sz count M : Nat) (hM : maxPrealloc ≤ M) (s : σ) (tr : List Hook)
    (h : AllLe M tr) : AllLe M (runBulk (traceRec I) sz count (s, tr)).2.2 := by
  have hfit : (if sz = 0 then usizeMax else maxPrealloc / sz) * sz ≤ M := by
    split
    · next h => subst h; simp
    · exact Nat.le_trans (Nat.div_mul_le_self _ _) hM
  unfold runBulk
  by_cases h1 : sz > maxPrealloc
  · simp only [h1, if_true]; exact h
  · simp only [h1, if_false]
    by_cases h2 : count * sz > usizeMax
    · simp only [h2, if_true]; exact h
    · simp only [h2, if_false]
      have hr : (traceRec I).remainingLen (s, tr) = ((I.remainingLen s).1, ((I.remainingLen s).2, tr)) := rfl
      rw [hr]
      rcases res_cases (I.remainingLen s) with ⟨x, s1, e⟩ | ⟨s1, e⟩ | ⟨s1, e⟩ <;> simp only [e]
      · cases x with
        | none => exact chunkLoop_max I sz _ M hfit count count [] s1 tr h
        | some r =>
          simp only []
          split
          · exact h
          · exact chunkLoop_max I sz _ M hfit count count [] s1 tr h
      · exact h
      · exact h

theorem MaxReq.bulk {σ α : Type} {I : InputOps σ} {sz count : Nat} {k : Bytes → Prog α} {M : Nat}
    (hM : maxPrealloc ≤ M) (h : ∀ b, MaxReq I (k b) M) : MaxReq I (.bulk sz count k) M := by
  intro M' hM' s tr htr
  have hb := runBulk_max I sz count M' (Nat.le_trans hM hM') s tr htr
  simp only [run]
  rcases res_cases (runBulk (traceRec I) sz count (s, tr)) with ⟨x, ⟨s1, t1⟩, e⟩ | ⟨⟨s1, t1⟩, e⟩ | ⟨⟨s1, t1⟩, e⟩
  · simp only [e] at hb ⊢; exact h x M' hM' s1 t1 hb
  · simp only [e] at hb ⊢; exact hb
  · simp only [e] at hb ⊢; exact hb

theorem MaxReq.rawBytes {σ α : Type} {I : InputOps σ} {n : Nat} {k : Bytes → Prog α} {M : Nat}
    (hM : maxPrealloc ≤ M) (h : ∀ b, MaxReq I (k b) M) : MaxReq I (.rawBytes n k) M := by
  have e : ∀ st, run (traceRec I) (.rawBytes n k) st = run (traceRec I) (.bulk 1 n k) st := by
    intro st; simp only [run]; rfl
  intro M' hM' s tr htr
  rw [e]
  exact MaxReq.bulk hM h M' hM' s tr htr

/-! ### every decoder -/

theorem MaxReq.itemChunks {σ : Type} {I : InputOps σ} {sz : Nat} (hsz : sz ≤ maxPrealloc) {item : Prog Val} {M : Nat}
    (hM : maxPrealloc ≤ M) (hitem : MaxReq I item M) : ∀ fuel rem, MaxReq I (Impl.itemChunks sz item fuel rem) M
  | 0, _ => MaxReq.pure _ _
  | fuel+1, rem => by
    unfold Impl.itemChunks
    split
    · exact MaxReq.pure _ _
    · exact MaxReq.alloc (Nat.le_trans (chunk_le_prealloc sz rem hsz) hM)
        (MaxReq.bind (MaxReq.replicateM hitem _) fun _ =>
          MaxReq.bind (MaxReq.itemChunks hsz hM hitem fuel _) fun _ => MaxReq.pure _ _)

theorem MaxReq.decodeVecWithLen {σ : Type} {I : InputOps σ} {sz : Nat} (hsz : sz ≤ maxPrealloc) (t : Ty)
    {item : Prog Val} {M : Nat} (hM : maxPrealloc ≤ M) (hitem : MaxReq I item M) (len : Nat) :
    MaxReq I (Impl.decodeVecWithLen sz t item len) M := by
  unfold Impl.decodeVecWithLen
  split
  · exact MaxReq.bulk hM fun _ => MaxReq.pure _ _
  · unfold Impl.decodeItems
    exact MaxReq.descend (MaxReq.bind (MaxReq.itemChunks hsz hM hitem len len) fun _ =>
      MaxReq.ascend (MaxReq.pure _ _))

theorem MaxReq.nodeItem {σ : Type} {I : InputOps σ} {node : Nat} {item : Prog Val} {M : Nat} (hn : node ≤ M)
    (hitem : MaxReq I item M) : MaxReq I (Impl.nodeItem node item) M :=
  MaxReq.bind hitem fun _ => MaxReq.alloc hn (MaxReq.pure _ _)

mutual
theorem maxReq_decodeR {σ : Type} (I : InputOps σ) : ∀ ty : Ty, layoutOk ty = true →
    MaxReq I (decodeR ty) (reqMaxOne ty)
  | .unit, _ => MaxReq.pure _ _
  | .bool, _ => by
    simp only [decodeR]
    exact MaxReq.readByte fun b => MaxReq.ite (MaxReq.pure _ _) (MaxReq.ite (MaxReq.pure _ _) (MaxReq.fail _))
  | .optionBool, _ => by
    simp only [decodeR]
    exact MaxReq.readByte fun b => MaxReq.ite (MaxReq.pure _ _) (MaxReq.ite (MaxReq.pure _ _)
      (MaxReq.ite (MaxReq.pure _ _) (MaxReq.fail _)))
  | .prim p, _ => by simp only [decodeR]; exact MaxReq.ofHookFree (hookFree_decodePrim p) _
  | .nonZero p, _ => by
    simp only [decodeR]
    exact MaxReq.bind (MaxReq.ofHookFree (hookFree_decodePrim p) _) fun _ => MaxReq.ite (MaxReq.fail _) (MaxReq.pure _ _)
  | .compact w, _ => by
    simp only [decodeR]
    exact MaxReq.bind (MaxReq.ofHookFree (hookFree_compactDec w) _) fun _ => MaxReq.pure _ _
  | .duration, _ => by
    simp only [decodeR]
    exact MaxReq.read fun _ => MaxReq.read fun _ => MaxReq.ite (MaxReq.fail _) (MaxReq.pure _ _)
  | .option t, hl => by
    have ih := maxReq_decodeR I t (by simpa [layoutOk] using hl)
    simp only [decodeR, reqMaxOne]
    exact MaxReq.readByte fun b => MaxReq.ite (MaxReq.pure _ _)
      (MaxReq.ite (MaxReq.bind ih fun _ => MaxReq.pure _ _) (MaxReq.fail _))
  | .result t e, hl => by
    simp only [layoutOk, Bool.and_eq_true] at hl
    have ih1 := (maxReq_decodeR I t hl.1).mono (Nat.le_max_left (reqMaxOne t) (reqMaxOne e))
    have ih2 := (maxReq_decodeR I e hl.2).mono (Nat.le_max_right (reqMaxOne t) (reqMaxOne e))
    simp only [decodeR, reqMaxOne]
    exact MaxReq.readByte fun b => MaxReq.ite (MaxReq.bind ih1 fun _ => MaxReq.pure _ _)
      (MaxReq.ite (MaxReq.bind ih2 fun _ => MaxReq.pure _ _) (MaxReq.fail _))
  | .tuple ts, hl => by
    simp only [decodeR, reqMaxOne]
    exact MaxReq.bind (maxReq_decodeListR I ts (by simpa [layoutOk] using hl)) fun _ => MaxReq.pure _ _
  | .array n t, hl => by
    have ih := maxReq_decodeR I t (by simpa [layoutOk] using hl)
    unfold decodeR
    split
    · exact MaxReq.read fun _ => MaxReq.pure _ _
    · simp only [reqMaxOne]
      exact MaxReq.bind (MaxReq.replicateM ih n) fun _ => MaxReq.pure _ _
  | .garray n t, hl => by
    have ih := maxReq_decodeR I t (by simpa [layoutOk] using hl)
    simp only [decodeR, reqMaxOne]
    exact MaxReq.bind (MaxReq.replicateM ih n) fun _ => MaxReq.pure _ _
  | .seq k sz t, hl => by
    simp only [layoutOk, Bool.and_eq_true] at hl
    have ih := maxReq_decodeR I t hl.1
    have hlen : ∀ M, MaxReq I (compactDec 4) M := fun M => MaxReq.ofHookFree (hookFree_compactDec 4) M
    cases k with
    | vec =>
      have hsz : sz ≤ maxPrealloc := by have := hl.2; simp only [decide_eq_true_eq] at this; exact this
      simp only [decodeR, reqMaxOne]
      exact MaxReq.bind (hlen _) fun len => MaxReq.bind
        (MaxReq.decodeVecWithLen hsz t (Nat.le_max_left _ _) (ih.mono (Nat.le_max_right _ _)) len) fun _ => MaxReq.pure _ _
    | deque =>
      have hsz : sz ≤ maxPrealloc := by have := hl.2; simp only [decide_eq_true_eq] at this; exact this
      simp only [decodeR, reqMaxOne]
      exact MaxReq.bind (hlen _) fun len => MaxReq.bind
        (MaxReq.decodeVecWithLen hsz t (Nat.le_max_left _ _) (ih.mono (Nat.le_max_right _ _)) len) fun _ => MaxReq.pure _ _
    | heap =>
      have hsz : sz ≤ maxPrealloc := by have := hl.2; simp only [decide_eq_true_eq] at this; exact this
      simp only [decodeR, reqMaxOne]
      exact MaxReq.bind (hlen _) fun len => MaxReq.bind
        (MaxReq.decodeVecWithLen hsz t (Nat.le_max_left _ _) (ih.mono (Nat.le_max_right _ _)) len) fun _ => MaxReq.pure _ _
    | list =>
      simp only [decodeR, reqMaxOne]
      exact MaxReq.bind (hlen _) fun len => MaxReq.descend (MaxReq.bind
        (MaxReq.replicateM (MaxReq.nodeItem (Nat.le_max_left _ _) (ih.mono (Nat.le_max_right _ _))) len)
        fun _ => MaxReq.ascend (MaxReq.pure _ _))
    | bset =>
      simp only [decodeR, reqMaxOne]
      exact MaxReq.bind (hlen _) fun len => MaxReq.descend (MaxReq.bind
        (MaxReq.replicateM (MaxReq.nodeItem (Nat.le_max_left _ _) (ih.mono (Nat.le_max_right _ _))) len)
        fun _ => MaxReq.ascend (MaxReq.pure _ _))
    | bmap =>
      simp only [decodeR, reqMaxOne]
      exact MaxReq.bind (hlen _) fun len => MaxReq.descend (MaxReq.bind
        (MaxReq.replicateM (MaxReq.nodeItem (Nat.le_max_left _ _) (ih.mono (Nat.le_max_right _ _))) len)
        fun _ => MaxReq.ascend (MaxReq.pure _ _))
  | .str, _ => by
    simp only [decodeR, reqMaxOne]
    exact MaxReq.bind (MaxReq.ofHookFree (hookFree_compactDec 4) _) fun len =>
      MaxReq.bulk (Nat.le_refl _) fun _ => MaxReq.ite (MaxReq.pure _ _) (MaxReq.fail _)
  | .bytes, _ => by
    simp only [decodeR, reqMaxOne]
    exact MaxReq.bind (MaxReq.ofHookFree (hookFree_compactDec 4) _) fun len =>
      MaxReq.rawBytes (Nat.le_refl _) fun _ => MaxReq.pure _ _
  | .box sz t, hl => by
    have ih := maxReq_decodeR I t (by simpa [layoutOk] using hl)
    simp only [decodeR, reqMaxOne]
    exact MaxReq.descend (MaxReq.alloc (Nat.le_max_left _ _)
      (MaxReq.bind (ih.mono (Nat.le_max_right _ _)) fun _ => MaxReq.ascend (MaxReq.pure _ _)))
  | .wrap t, hl => by
    have ih := maxReq_decodeR I t (by simpa [layoutOk] using hl)
    simp only [decodeR, reqMaxOne]
    exact MaxReq.descend (MaxReq.bind ih fun _ => MaxReq.ascend (MaxReq.pure _ _))
  | .range t, hl => by
    have ih := maxReq_decodeR I t (by simpa [layoutOk] using hl)
    simp only [decodeR, reqMaxOne]
    exact MaxReq.bind ih fun _ => MaxReq.bind ih fun _ => MaxReq.pure _ _
  | .bitseq store msb, _ => by
    simp only [decodeR, reqMaxOne]
    exact MaxReq.bind (MaxReq.ofHookFree (hookFree_compactDec 4) _) fun bits =>
      MaxReq.ite (MaxReq.fail _) (MaxReq.bulk (Nat.le_refl _) fun _ => MaxReq.ite (MaxReq.pure _ _) (MaxReq.panic _))
  | .enum idxs ts, hl => by
    simp only [decodeR, reqMaxOne]
    exact MaxReq.readByte fun b => maxReq_decodeVariantR I idxs ts b.toNat (by simpa [layoutOk] using hl)

theorem maxReq_decodeListR {σ : Type} (I : InputOps σ) : ∀ ts : List Ty, layoutOk.layoutOkList ts = true →
    MaxReq I (decodeListR ts) (reqMaxOne.maxList ts)
  | [], _ => MaxReq.pure _ _
  | t :: ts, hl => by
    simp only [layoutOk.layoutOkList, Bool.and_eq_true] at hl
    have ih1 := (maxReq_decodeR I t hl.1).mono (Nat.le_max_left (reqMaxOne t) (reqMaxOne.maxList ts))
    have ih2 := (maxReq_decodeListR I ts hl.2).mono (Nat.le_max_right (reqMaxOne t) (reqMaxOne.maxList ts))
    simp only [decodeListR, reqMaxOne.maxList]
    exact MaxReq.bind ih1 fun _ => MaxReq.bind ih2 fun _ => MaxReq.pure _ _

theorem maxReq_decodeVariantR {σ : Type} (I : InputOps σ) : ∀ (idxs : List Nat) (ts : List Ty) (b : Nat),
    layoutOk.layoutOkList ts = true → MaxReq I (decodeVariantR idxs ts b) (reqMaxOne.maxList ts)
  | [], _, _, _ => by simp only [decodeVariantR]; exact MaxReq.fail _
  | _ :: _, [], _, _ => by simp only [decodeVariantR]; exact MaxReq.fail _
  | i :: is, t :: ts, b, hl => by
    simp only [layoutOk.layoutOkList, Bool.and_eq_true] at hl
    have ih1 := (maxReq_decodeR I t hl.1).mono (Nat.le_max_left (reqMaxOne t) (reqMaxOne.maxList ts))
    have ih2 := (maxReq_decodeVariantR I is ts b hl.2).mono (Nat.le_max_right (reqMaxOne t) (reqMaxOne.maxList ts))
    simp only [decodeVariantR, reqMaxOne.maxList]
    exact MaxReq.ite (MaxReq.bind ih1 fun _ => MaxReq.pure _ _) ih2
end

end Scale
