/-
  Proofs/Bits.lean — bit sequences: storage words written by the encoder read back as the same bits.
-/
import Scale.Ty
import Proofs.Le
import Proofs.Prim
namespace Scale

def bitPos (w : Nat) (msb : Bool) (i : Nat) : Nat := if msb then w - 1 - i else i

theorem bitPos_lt {w i : Nat} (msb : Bool) (h : i < w) : bitPos w msb i < w := by
  unfold bitPos; split <;> omega

theorem bitPos_inj {w i j : Nat} (msb : Bool) (hi : i < w) (hj : j < w) :
    bitPos w msb i = bitPos w msb j ↔ i = j := by
  unfold bitPos; split <;> omega

theorem bitsToElem_lt (w : Nat) (msb : Bool) :
    ∀ (c : List Bool) (i : Nat), i + c.length ≤ w → bitsToElem w msb i c < 2 ^ w
  | [], _, _ => by simp [bitsToElem, Nat.two_pow_pos]
  | b :: c, i, h => by
    simp only [List.length_cons] at h
    simp only [bitsToElem]
    apply Nat.or_lt_two_pow
    · split
      · exact Nat.pow_lt_pow_right (by decide) (bitPos_lt msb (by omega))
      · exact Nat.two_pow_pos _
    · exact bitsToElem_lt w msb c (i + 1) (by omega)

/-- Bit `pos j` of the element built from chunk `c` placed at offset `i` is `c[j - i]`. -/
theorem bitsToElem_testBit (w : Nat) (msb : Bool) :
    ∀ (c : List Bool) (i : Nat), i + c.length ≤ w → ∀ j, j < w →
      (bitsToElem w msb i c).testBit (bitPos w msb j) = (if j < i then false else c.getD (j - i) false)
  | [], i, _, j, _ => by simp [bitsToElem]
  | b :: c, i, h, j, hj => by
    simp only [List.length_cons] at h
    have hi : i < w := by omega
    simp only [bitsToElem, Nat.testBit_or]
    rw [bitsToElem_testBit w msb c (i + 1) (by omega) j hj]
    have hX : (if b = true then 2 ^ (if msb = true then w - 1 - i else i) else 0).testBit (bitPos w msb j)
        = (b && decide (i = j)) := by
      cases b
      · simp
      · simp only [if_true, Bool.true_and]
        have : (if msb = true then w - 1 - i else i) = bitPos w msb i := rfl
        rw [this, Nat.testBit_two_pow]
        simp only [decide_eq_decide]
        exact bitPos_inj msb hi hj
    rw [hX]
    by_cases h1 : j < i
    · have : i ≠ j := by omega
      have : j < i + 1 := by omega
      simp [*]
    · by_cases h2 : j = i
      · subst h2
        simp
      · have h3 : ¬ j < i + 1 := by omega
        have h4 : ¬ i = j := fun e => h2 e.symm
        have e : j - i = (j - (i + 1)) + 1 := by omega
        simp only [h1, h3, h4, if_false, decide_false, Bool.and_false, Bool.false_or]
        rw [e, List.getD_cons_succ]

theorem range_map_getD (c : List Bool) (w : Nat) (h : c.length ≤ w) :
    (List.range w).map (fun j => c.getD j false) = c ++ List.replicate (w - c.length) false := by
  apply List.ext_getElem
  · simp; omega
  · intro i h1 h2
    simp only [List.getElem_map, List.getElem_range, List.getElem_append]
    split
    · next hi => simp [List.getD_eq_getElem?_getD, hi]
    · next hi =>
      simp only [List.getElem_replicate]
      rw [List.getD_eq_getElem?_getD, List.getElem?_eq_none (by omega)]
      rfl

/-- One storage element read back: the chunk's bits followed by the zero padding. -/
theorem elemToBits_bitsToElem (w : Nat) (msb : Bool) (c : List Bool) (h : c.length ≤ w) :
    elemToBits w msb (bitsToElem w msb 0 c) = c ++ List.replicate (w - c.length) false := by
  unfold elemToBits
  rw [← range_map_getD c w h]
  apply List.map_congr_left
  intro j hj
  have hj' : j < w := List.mem_range.mp hj
  have := bitsToElem_testBit w msb c 0 (by omega) j hj'
  simpa [bitPos] using this

/-! ### chunking -/

def padTo (w : Nat) (c : List Bool) : List Bool := c ++ List.replicate (w - c.length) false

theorem bitChunks_len_le (w : Nat) : ∀ (fuel : Nat) (bs : List Bool), ∀ c ∈ bitChunks w fuel bs, c.length ≤ w
  | 0, _, c, h => by simp [bitChunks] at h
  | fuel + 1, bs, c, h => by
    unfold bitChunks at h
    split at h
    · simp at h
    · rcases List.mem_cons.mp h with rfl | h
      · simp; omega
      · exact bitChunks_len_le w fuel _ c h

theorem bitChunks_count (w : Nat) (hw : 1 ≤ w) :
    ∀ (fuel : Nat) (bs : List Bool), bs.length ≤ fuel → (bitChunks w fuel bs).length = (bs.length + w - 1) / w
  | 0, bs, h => by
    have : bs = [] := List.eq_nil_of_length_eq_zero (by omega)
    subst this
    simp [bitChunks]
    exact (Nat.div_eq_of_lt (by omega)).symm
  | fuel + 1, bs, h => by
    unfold bitChunks
    by_cases he : bs.isEmpty = true
    · have : bs = [] := List.isEmpty_iff.mp he
      subst this
      simp
      exact (Nat.div_eq_of_lt (by omega)).symm
    · simp only [he, Bool.false_eq_true, if_false, List.length_cons]
      have hpos : 0 < bs.length := by
        cases bs with
        | nil => simp at he
        | cons _ _ => simp
      rw [bitChunks_count w hw fuel (bs.drop w) (by simp; omega)]
      simp only [List.length_drop]
      by_cases hlt : bs.length ≤ w
      · have e1 : bs.length - w = 0 := by omega
        rw [e1]
        have : (0 + w - 1) / w = 0 := Nat.div_eq_of_lt (by omega)
        rw [this]
        have : (bs.length + w - 1) / w = 1 := by
          apply Nat.div_eq_of_lt_le <;> omega
        omega
      · have : bs.length + w - 1 = (bs.length - w + w - 1) + w := by omega
        rw [this, Nat.add_div_right _ (by omega)]

theorem bitChunks_padded (w : Nat) (hw : 1 ≤ w) :
    ∀ (fuel : Nat) (bs : List Bool), bs.length ≤ fuel →
      ∃ k, ((bitChunks w fuel bs).map (padTo w)).flatten = bs ++ List.replicate k false
  | 0, bs, h => by
    have : bs = [] := List.eq_nil_of_length_eq_zero (by omega)
    subst this
    exact ⟨0, by simp [bitChunks]⟩
  | fuel + 1, bs, h => by
    unfold bitChunks
    by_cases he : bs.isEmpty = true
    · have : bs = [] := List.isEmpty_iff.mp he
      subst this
      exact ⟨0, by simp⟩
    · simp only [he, Bool.false_eq_true, if_false, List.map_cons, List.flatten_cons]
      obtain ⟨k, hk⟩ := bitChunks_padded w hw fuel (bs.drop w) (by simp; omega)
      by_cases hlt : bs.length ≤ w
      · have hd : bs.drop w = [] := List.drop_eq_nil_of_le hlt
        have ht : bs.take w = bs := List.take_of_length_le hlt
        rw [hd] at hk ⊢
        rw [ht]
        have : bitChunks w fuel [] = [] := by cases fuel <;> simp [bitChunks]
        rw [this]
        exact ⟨w - bs.length, by simp [padTo]⟩
      · have hl : (bs.take w).length = w := by simp; omega
        have hp : padTo w (bs.take w) = bs.take w := by simp [padTo, hl]
        rw [hp, hk]
        exact ⟨k, by rw [← List.append_assoc, List.take_append_drop]⟩

/-- The bits recovered from the storage elements of an encoded bit sequence. -/
def bitsOfBytes (store : Prim) (msb : Bool) (n : Nat) (bytes : Bytes) : List Bool :=
  ((chunksOf store.size n bytes).map fun e => elemToBits (8 * store.size) msb (fromLe e)).flatten

/-- The storage bytes the encoder writes for a bit list. -/
def bytesOfBits (store : Prim) (msb : Bool) (bs : List Bool) : Bytes :=
  ((bitChunks (8 * store.size) bs.length bs).map fun c =>
    leBytes store.size (bitsToElem (8 * store.size) msb 0 c)).flatten

theorem bits_roundtrip (store : Prim) (msb : Bool) (bs : List Bool) :
    (bytesOfBits store msb bs).length = (bs.length + 8 * store.size - 1) / (8 * store.size) * store.size ∧
    bs.length ≤ (bitsOfBytes store msb ((bs.length + 8 * store.size - 1) / (8 * store.size))
      (bytesOfBits store msb bs)).length ∧
    (bitsOfBytes store msb ((bs.length + 8 * store.size - 1) / (8 * store.size))
      (bytesOfBits store msb bs)).take bs.length = bs := by
  have hs := prim_size_cases store
  have hw : 1 ≤ 8 * store.size := by omega
  generalize hwd : 8 * store.size = w at *
  have hcount := bitChunks_count w hw bs.length bs (Nat.le_refl _)
  have hlen := bitChunks_len_le w bs.length bs
  obtain ⟨k, hk⟩ := bitChunks_padded w hw bs.length bs (Nat.le_refl _)
  unfold bytesOfBits bitsOfBytes
  rw [hwd]
  generalize bitChunks w bs.length bs = chunks at *
  rw [← hcount]
  have hl : ∀ c ∈ chunks.map (fun c => leBytes store.size (bitsToElem w msb 0 c)), c.length = store.size := by
    intro c hc
    obtain ⟨c', _, rfl⟩ := List.mem_map.mp hc
    simp
  have h1 := flatten_length_const _ hl
  simp only [List.length_map] at h1
  have h2 := chunksOf_flatten _ hl []
  simp only [List.length_map, List.append_nil] at h2
  rw [h2, List.map_map]
  have e : (chunks.map ((fun e => elemToBits w msb (fromLe e)) ∘ fun c => leBytes store.size (bitsToElem w msb 0 c)))
      = chunks.map (padTo w) := by
    apply List.map_congr_left
    intro c hc
    have hlt := bitsToElem_lt w msb c 0 (by have := hlen c hc; omega)
    have : bitsToElem w msb 0 c < 256 ^ store.size := by rw [pow256, hwd]; exact hlt
    simp only [Function.comp, fromLe_leBytes_of_lt this]
    exact elemToBits_bitsToElem w msb c (hlen c hc)
  rw [e, hk]
  refine ⟨h1, by simp, by simp⟩

end Scale
