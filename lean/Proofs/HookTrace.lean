/-
  Proofs/HookTrace.lean — the hook calls made while decoding the encoding of a value are exactly
  `hookTrace ty v` (through the chunked readers, the bulk paths and every nesting).
-/
import Scale.HookTrace
import Proofs.Trace
import Proofs.RoundTrip
namespace Scale
open Impl

/-! ### programs that never call a hook -/

inductive HookFree : {α : Type} → Prog α → Prop
  | pure {α} (a : α) : HookFree (.pure a)
  | fail {α} : HookFree (.fail : Prog α)
  | panic {α} : HookFree (.panic : Prog α)
  | read {α} (n : Nat) (k : Bytes → Prog α) : (∀ b, HookFree (k b)) → HookFree (.read n k)
  | readByte {α} (k : UInt8 → Prog α) : (∀ b, HookFree (k b)) → HookFree (.readByte k)

theorem HookFree.bind {α β : Type} {p : Prog α} {f : α → Prog β} (hp : HookFree p) (hf : ∀ a, HookFree (f a)) :
    HookFree (p.bind f) := by
  induction hp with
  | pure a => exact hf a
  | fail => exact .fail
  | panic => exact .panic
  | read n k _ ih => exact .read n _ (fun b => ih b)
  | readByte k _ ih => exact .readByte _ (fun b => ih b)

theorem HookFree.replicateM {α : Type} {p : Prog α} (hp : HookFree p) : ∀ n, HookFree (Prog.replicateM n p)
  | 0 => .pure []
  | n+1 => hp.bind fun _ => (HookFree.replicateM hp n).bind fun _ => .pure _

theorem HookFree.trace {σ α : Type} (I : InputOps σ) {p : Prog α} (hp : HookFree p) :
    ∀ (s : σ) (tr : List Hook), (run (traceRec I) p (s, tr)).2.2 = tr := by
  induction hp with
  | pure a => intro s tr; rfl
  | fail => intro s tr; rfl
  | panic => intro s tr; rfl
  | read n k _ ih =>
    intro s tr
    simp only [run, traceRec]
    rcases res_cases (I.read n s) with ⟨x, s1, h⟩ | ⟨s1, h⟩ | ⟨s1, h⟩ <;> simp only [h]
    exact ih x s1 tr
  | readByte k _ ih =>
    intro s tr
    simp only [run, traceRec]
    rcases res_cases (I.readByte s) with ⟨x, s1, h⟩ | ⟨s1, h⟩ | ⟨s1, h⟩ <;> simp only [h]
    exact ih x s1 tr

theorem traceOf_hookFree {α : Type} {p : Prog α} (hp : HookFree p) (bs : Bytes) : traceOf p bs = [] :=
  hp.trace sliceInput bs []

theorem hookFree_ite {α : Type} {c : Prop} [Decidable c] {p q : Prog α} (hp : HookFree p) (hq : HookFree q) :
    HookFree (if c then p else q) := by
  split <;> assumption

theorem hookFree_arm1 (hi : Nat) (b : UInt8) : HookFree (compactArm1 hi b) :=
  .read _ _ fun _ => hookFree_ite (.pure _) .fail
theorem hookFree_arm2 (hi : Nat) (b : UInt8) : HookFree (compactArm2 hi b) :=
  .read _ _ fun _ => hookFree_ite (.pure _) .fail
theorem hookFree_armWide (n lo : Nat) : HookFree (compactArmWide n lo) :=
  .read _ _ fun _ => hookFree_ite (.pure _) .fail
theorem hookFree_armBytes (w n : Nat) : HookFree (compactArmBytes w n) :=
  (HookFree.replicateM (.readByte _ fun b => .pure b) n).bind fun _ => hookFree_ite (.pure _) .fail

theorem hookFree_compactDec (w : Nat) : HookFree (compactDec w) := by
  unfold compactDec
  split
  · refine .readByte _ fun b => ?_
    split
    · exact .pure _
    · exact hookFree_arm1 _ _
    · exact .fail
  · refine .readByte _ fun b => ?_
    split
    · exact .pure _
    · exact hookFree_arm1 _ _
    · exact hookFree_arm2 _ _
    · exact .fail
  · refine .readByte _ fun b => ?_
    split
    · exact .pure _
    · exact hookFree_arm1 _ _
    · exact hookFree_arm2 _ _
    · exact hookFree_ite (hookFree_armWide _ _) .fail
  · refine .readByte _ fun b => ?_
    split
    · exact .pure _
    · exact hookFree_arm1 _ _
    · exact hookFree_arm2 _ _
    · exact hookFree_ite (hookFree_armWide _ _) (hookFree_ite (hookFree_armWide _ _) (hookFree_ite .fail (hookFree_armBytes _ _)))
  · refine .readByte _ fun b => ?_
    split
    · exact .pure _
    · exact hookFree_arm1 _ _
    · exact hookFree_arm2 _ _
    · exact hookFree_ite (hookFree_armWide _ _) (hookFree_ite (hookFree_armWide _ _)
        (hookFree_ite (hookFree_armWide _ _) (hookFree_ite .fail (hookFree_armBytes _ _))))
  · exact .panic

theorem traceOf_compactDec (w : Nat) (bs : Bytes) : traceOf (compactDec w) bs = [] :=
  traceOf_hookFree (hookFree_compactDec w) bs

theorem hookFree_decodePrim (p : Prim) : HookFree (decodePrim p) := by
  unfold decodePrim
  exact hookFree_ite (.readByte _ fun _ => .pure _) (.read _ _ fun _ => .pure _)

/-! ### the bulk reader -/

theorem chunkLoop_trace (sz cl : Nat) (hcl : 1 ≤ cl) :
    ∀ (fuel rem : Nat) (acc s : Bytes) (tr : List Hook), rem ≤ fuel → rem * sz ≤ s.length →
      chunkLoop (traceRec sliceInput) sz cl fuel rem acc (s, tr) =
        (.ok (acc ++ s.take (rem * sz)), (s.drop (rem * sz), tr ++ chunkHooks sz cl fuel rem)) := by
  intro fuel
  induction fuel with
  | zero =>
    intro rem acc s tr h1 _
    have : rem = 0 := by omega
    subst this
    simp [chunkLoop, chunkHooks]
  | succ fuel ih =>
    intro rem acc s tr h1 h2
    unfold chunkLoop chunkHooks
    by_cases h0 : rem = 0
    · subst h0; simp
    · simp only [h0, if_false]
      have hc1 : 1 ≤ min cl rem := by omega
      have hc2 : min cl rem ≤ rem := Nat.min_le_right _ _
      have hle : min cl rem * sz ≤ s.length := Nat.le_trans (Nat.mul_le_mul_right sz hc2) h2
      have hrd : ∀ t, (traceRec sliceInput).read (min cl rem * sz) (s, t) =
          (.ok (s.take (min cl rem * sz)), (s.drop (min cl rem * sz), t)) := by
        intro t
        have : sliceInput.read (min cl rem * sz) s = (.ok (s.take (min cl rem * sz)), s.drop (min cl rem * sz)) := by
          simp [sliceInput, sliceRead_eq]; omega
        simp [traceRec, this]
      have hal : (traceRec sliceInput).onAlloc (satMul (min cl rem) sz) (s, tr) =
          (.ok (), (s, tr ++ [.alloc (satMul (min cl rem) sz)])) := rfl
      simp only [hal, hrd]
      have hsub : (rem - min cl rem) * sz = rem * sz - min cl rem * sz := Nat.sub_mul _ _ _
      have hle2 : min cl rem * sz ≤ rem * sz := Nat.mul_le_mul_right sz hc2
      rw [ih (rem - min cl rem) _ _ _ (by omega) (by simp; omega)]
      simp only [List.append_assoc, List.drop_drop, Prod.mk.injEq, Res.ok.injEq, List.append_cancel_left_eq,
        List.singleton_append, and_true]
      constructor
      · rw [← List.take_add]
        congr 1; omega
      · congr 1; omega

theorem traceOf_bulk {α : Type} {sz n : Nat} (h1 : 1 ≤ sz) (h2 : sz ≤ maxPrealloc) (k : Bytes → Prog α) (s : Bytes)
    (hok : ¬ (n * sz > usizeMax ∨ s.length < n * sz)) :
    traceOf (.bulk sz n k) s = bulkHooks sz n ++ traceOf (k (s.take (n * sz))) (s.drop (n * sz)) := by
  have hov : ¬ n * sz > usizeMax := fun h => hok (Or.inl h)
  have hlen : ¬ s.length < n * sz := fun h => hok (Or.inr h)
  have hcl : 1 ≤ maxPrealloc / sz := (Nat.one_le_div_iff (by omega)).mpr h2
  have hb : runBulk (traceRec sliceInput) sz n (s, []) =
      (.ok (s.take (n * sz)), (s.drop (n * sz), bulkHooks sz n)) := by
    unfold runBulk
    have hg : ¬ sz > maxPrealloc := by omega
    have hz : ¬ sz = 0 := by omega
    have hrl : (traceRec sliceInput).remainingLen (s, []) = (.ok (some s.length), (s, [])) := rfl
    simp only [hg, if_false, hov, hrl, hlen, hz]
    rw [chunkLoop_trace sz _ hcl n n [] s [] (Nat.le_refl _) (by omega)]
    simp [bulkHooks]
  simp only [traceOf, run, hb]
  rw [runT_eq]
  rfl

theorem traceOf_rawBytes {α : Type} (n : Nat) (k : Bytes → Prog α) (s : Bytes)
    (hok : ¬ (n > usizeMax ∨ s.length < n)) :
    traceOf (.rawBytes n k) s = bulkHooks 1 n ++ traceOf (k (s.take n)) (s.drop n) := by
  have e : traceOf (.rawBytes n k) s = traceOf (.bulk 1 n k) s := by
    simp only [traceOf, run]
    rfl
  rw [e, traceOf_bulk (Nat.le_refl 1) (by decide) k s (by simpa using hok)]
  simp

/-! ### sequences of items -/

theorem traceOf_replicateM_enc {item : Prog Val} {enc : Val → Bytes} {nrm : Val → Val} {tr : Val → List Hook} :
    ∀ (vs : List Val),
      (∀ v ∈ vs, ∀ rest, run sliceInput item (enc v ++ rest) = (.ok (nrm v), rest)) →
      (∀ v ∈ vs, ∀ rest, traceOf item (enc v ++ rest) = tr v) →
      ∀ rest, traceOf (Prog.replicateM vs.length item) ((vs.map enc).flatten ++ rest) = (vs.map tr).flatten
  | [], _, _, rest => by simp [Prog.replicateM]
  | v :: vs, h, ht, rest => by
    simp only [List.length_cons, Prog.replicateM, List.map_cons, List.flatten_cons, List.append_assoc]
    rw [traceOf_bind (h v (List.mem_cons_self) _), ht v (List.mem_cons_self)]
    have hr := run_replicateM_enc (item := item) (enc := enc) (nrm := nrm) vs
      (fun u hu => h u (List.mem_cons_of_mem _ hu)) rest
    rw [traceOf_bind hr]
    rw [traceOf_replicateM_enc vs (fun u hu => h u (List.mem_cons_of_mem _ hu))
      (fun u hu => ht u (List.mem_cons_of_mem _ hu)) rest]
    simp

theorem traceOf_itemChunks_enc {sz : Nat} (hcl : 1 ≤ chunkLenOf sz) {item : Prog Val} {enc : Val → Bytes}
    {nrm : Val → Val} {tr : Val → List Hook} :
    ∀ (fuel : Nat) (vs : List Val), vs.length ≤ fuel →
      (∀ v ∈ vs, ∀ rest, run sliceInput item (enc v ++ rest) = (.ok (nrm v), rest)) →
      (∀ v ∈ vs, ∀ rest, traceOf item (enc v ++ rest) = tr v) →
      ∀ rest, traceOf (itemChunks sz item fuel vs.length) ((vs.map enc).flatten ++ rest) =
        itemChunkHooks sz fuel (vs.map tr) := by
  intro fuel
  induction fuel with
  | zero =>
    intro vs hl _ _ rest
    have : vs = [] := List.eq_nil_of_length_eq_zero (by omega)
    subst this
    simp [itemChunks, itemChunkHooks]
  | succ fuel ih =>
    intro vs hl h ht rest
    unfold itemChunks itemChunkHooks
    by_cases h0 : vs.length = 0
    · have : vs = [] := List.eq_nil_of_length_eq_zero h0
      subst this
      simp
    · simp only [h0, if_false, List.length_map, traceOf_alloc]
      have hc1 : 1 ≤ min (chunkLenOf sz) vs.length := by omega
      have hc2 : min (chunkLenOf sz) vs.length ≤ vs.length := Nat.min_le_right _ _
      generalize hc : min (chunkLenOf sz) vs.length = c at *
      have hlt : (vs.take c).length = c := by simp; omega
      have e1 := run_replicateM_enc (item := item) (enc := enc) (nrm := nrm) (vs.take c)
        (fun v hv => h v (List.mem_of_mem_take hv))
      have t1 := traceOf_replicateM_enc (item := item) (enc := enc) (nrm := nrm) (tr := tr) (vs.take c)
        (fun v hv => h v (List.mem_of_mem_take hv)) (fun v hv => ht v (List.mem_of_mem_take hv))
      rw [hlt] at e1 t1
      rw [flatten_take_drop enc vs c, List.append_assoc, traceOf_bind (e1 _), t1]
      have hld : (vs.drop c).length = vs.length - c := by simp
      have e2 := run_itemChunks_enc (sz := sz) hcl (item := item) (enc := enc) (nrm := nrm) fuel (vs.drop c)
        (by omega) (fun v hv => h v (List.mem_of_mem_drop hv)) rest
      have t2 := ih (vs.drop c) (by omega) (fun v hv => h v (List.mem_of_mem_drop hv))
        (fun v hv => ht v (List.mem_of_mem_drop hv)) rest
      rw [hld] at e2 t2
      rw [traceOf_bind e2, t2]
      simp [List.map_take, List.map_drop]

end Scale

namespace Scale
open Impl

theorem flatten_replicate_nil {β : Type} (vs : List Val) (f : Val → List β) (h : ∀ v ∈ vs, f v = []) :
    (vs.map f).flatten = [] := by
  induction vs with
  | nil => rfl
  | cons v vs ih =>
    simp only [List.map_cons, List.flatten_cons, h v (List.mem_cons_self), List.nil_append]
    exact ih (fun u hu => h u (List.mem_cons_of_mem _ hu))

theorem hookTrace_prim (p : Prim) (v : Val) : hookTrace (.prim p) v = [] := by
  cases v <;> simp [hookTrace]

/-- `decode_vec_with_len` on an encoded element sequence: its hooks. -/
theorem traceOf_decodeVecWithLen_enc {sz : Nat} (hsz : sz ≤ maxPrealloc) (t : Ty) (vs : List Val)
    (hl : vs.length ≤ u32Max) (hwf : ∀ v ∈ vs, wf t v = true)
    (h : ∀ v ∈ vs, ∀ rest, run sliceInput (decodeP t) (Spec.encode t v ++ rest) = (.ok (norm t v), rest))
    (ht : ∀ v ∈ vs, ∀ rest, traceOf (decodeP t) (Spec.encode t v ++ rest) = hookTrace t v)
    (rest : Bytes) :
    traceOf (decodeVecWithLen sz t (decodeP t) vs.length) ((vs.map (Spec.encode t)).flatten ++ rest) =
      vecHooks sz t (vs.map (hookTrace t)) := by
  unfold decodeVecWithLen vecHooks
  split
  · next p =>
    have hw : ∀ v ∈ vs, primWf p v = true := fun v hv => by simpa [wf] using hwf v hv
    have e : vs.map (Spec.encode (.prim p)) = vs.map (primBytes p) :=
      List.map_congr_left (fun v _ => by rw [Spec.encode])
    have ⟨h1, h16⟩ := prim_size_le p
    have hlen : (vs.map (primBytes p)).flatten.length = vs.length * p.size := by
      have := flatten_length_const (vs.map (primBytes p)) (size := p.size)
        (by intro c hc; obtain ⟨v, hv, rfl⟩ := List.mem_map.mp hc; exact primBytes_length (hw v hv))
      simpa using this
    have hc : ¬ (vs.length * p.size > usizeMax ∨
        ((vs.map (primBytes p)).flatten ++ rest).length < vs.length * p.size) := by
      simp only [List.length_append, hlen, usizeMax]
      simp only [u32Max] at hl
      have : vs.length * p.size ≤ (2 ^ 32 - 1) * 16 := Nat.mul_le_mul hl h16
      omega
    rw [e, traceOf_bulk h1 (by simp [maxPrealloc]; omega) _ _ hc]
    simp
  · unfold decodeItems
    rw [traceOf_descend]
    have e2 := run_itemChunks_enc (sz := sz) (chunkLenOf_pos hsz) (item := decodeP t) (enc := Spec.encode t)
      (nrm := norm t) vs.length vs (Nat.le_refl _) h rest
    rw [traceOf_bind e2, traceOf_ascend]
    rw [traceOf_itemChunks_enc (chunkLenOf_pos hsz) vs.length vs (Nat.le_refl _) h ht rest]
    simp

mutual
/-- **The hook-trace theorem.** -/
theorem traceOf_encode : ∀ (ty : Ty) (v : Val), wf ty v = true → canon ty v = true → layoutOk ty = true →
    ∀ rest, traceOf (decodeP ty) (Spec.encode ty v ++ rest) = hookTrace ty v
  | .unit, v, h, _hc, _hl, rest => by
    cases v <;> try (simp [wf] at h; done)
    simp [decodeP, hookTrace]
  | .bool, v, h, _hc, _hl, rest => by
    cases v <;> try (simp [wf] at h; done)
    case bool b => cases b <;> simp [decodeP, Spec.encode, hookTrace]
  | .optionBool, v, h, _hc, _hl, rest => by
    cases v <;> try (simp [wf] at h; done)
    case none => simp [decodeP, Spec.encode, hookTrace]
    case some v =>
      cases v <;> try (simp [wf] at h; done)
      case bool b => cases b <;> simp [decodeP, Spec.encode, hookTrace]
  | .prim p, v, _h, _hc, _hl, rest => by
    rw [hookTrace_prim]
    simp only [decodeP]
    exact traceOf_hookFree (hookFree_decodePrim p) _
  | .nonZero p, v, _h, _hc, _hl, rest => by
    have : hookTrace (.nonZero p) v = [] := by cases v <;> simp [hookTrace]
    rw [this]
    simp only [decodeP]
    exact traceOf_hookFree ((hookFree_decodePrim p).bind fun _ => hookFree_ite .fail (.pure _)) _
  | .compact w, v, _h, _hc, _hl, rest => by
    have : hookTrace (.compact w) v = [] := by cases v <;> simp [hookTrace]
    rw [this]
    simp only [decodeP]
    exact traceOf_hookFree ((hookFree_compactDec w).bind fun _ => .pure _) _
  | .option t, v, h, hc, hl, rest => by
    cases v <;> try (simp [wf] at h; done)
    case none => simp [decodeP, Spec.encode, hookTrace]
    case some v =>
      simp only [wf] at h; simp only [canon] at hc; simp only [layoutOk] at hl
      simp only [decodeP, Spec.encode, hookTrace, List.cons_append, traceOf_readByte_cons]
      have e := decode_encode t v h hc hl rest
      simp [traceOf_bind e, traceOf_encode t v h hc hl rest]
  | .result t e, v, h, hc, hl, rest => by
    simp only [layoutOk, Bool.and_eq_true] at hl
    cases v <;> try (simp [wf] at h; done)
    case ok v =>
      simp only [wf] at h; simp only [canon] at hc
      simp only [decodeP, Spec.encode, hookTrace, List.cons_append, traceOf_readByte_cons]
      have e' := decode_encode t v h hc hl.1 rest
      simp [traceOf_bind e', traceOf_encode t v h hc hl.1 rest]
    case err v =>
      simp only [wf] at h; simp only [canon] at hc
      simp only [decodeP, Spec.encode, hookTrace, List.cons_append, traceOf_readByte_cons]
      have e' := decode_encode e v h hc hl.2 rest
      simp [traceOf_bind e', traceOf_encode e v h hc hl.2 rest]
  | .tuple ts, v, h, hc, hl, rest => by
    cases v <;> try (simp [wf] at h; done)
    case seq vs =>
      simp only [wf] at h; simp only [canon] at hc; simp only [layoutOk] at hl
      simp only [decodeP, Spec.encode, hookTrace]
      rw [traceOf_bind (decodeList_encode ts vs h hc hl rest), traceOf_encodeList ts vs h hc hl rest]
      simp
  | .array n t, v, h, hc, hl, rest => by
    cases v <;> try (simp [wf] at h; done)
    case seq vs =>
      simp only [wf, Bool.and_eq_true, beq_iff_eq] at h
      simp only [canon] at hc; simp only [layoutOk] at hl
      obtain ⟨hn, hall⟩ := h
      subst hn
      have hwf := all_mem hall
      have hcn := all_mem hc
      simp only [decodeP, Spec.encode, hookTrace]
      split
      · next p =>
        have hw : ∀ v ∈ vs, primWf p v = true := fun v hv => by simpa [wf] using hwf v hv
        have e : vs.map (Spec.encode (.prim p)) = vs.map (primBytes p) :=
          List.map_congr_left (fun v _ => by rw [Spec.encode])
        have hlen : (vs.map (primBytes p)).flatten.length = vs.length * p.size := by
          have := flatten_length_const (vs.map (primBytes p)) (size := p.size)
            (by intro c hc; obtain ⟨v, hv, rfl⟩ := List.mem_map.mp hc; exact primBytes_length (hw v hv))
          simpa using this
        rw [e, traceOf_read_append _ rest hlen]
        rw [flatten_replicate_nil vs _ (fun v _ => hookTrace_prim p v)]
        rfl
      · have hel : ∀ v ∈ vs, ∀ rest, run sliceInput (decodeP t) (Spec.encode t v ++ rest) = (.ok (norm t v), rest) :=
          fun v hv rest => decode_encode t v (hwf v hv) (hcn v hv) hl rest
        have htr : ∀ v ∈ vs, ∀ rest, traceOf (decodeP t) (Spec.encode t v ++ rest) = hookTrace t v :=
          fun v hv rest => traceOf_encode t v (hwf v hv) (hcn v hv) hl rest
        rw [traceOf_bind (run_replicateM_enc vs hel rest), traceOf_replicateM_enc vs hel htr rest]
        simp
  | .garray n t, v, h, hc, hl, rest => by
    cases v <;> try (simp [wf] at h; done)
    case seq vs =>
      simp only [wf, Bool.and_eq_true, beq_iff_eq] at h
      simp only [canon] at hc; simp only [layoutOk] at hl
      obtain ⟨hn, hall⟩ := h
      subst hn
      have hwf := all_mem hall
      have hcn := all_mem hc
      simp only [decodeP, Spec.encode, hookTrace]
      have hel : ∀ v ∈ vs, ∀ rest, run sliceInput (decodeP t) (Spec.encode t v ++ rest) = (.ok (norm t v), rest) :=
        fun v hv rest => decode_encode t v (hwf v hv) (hcn v hv) hl rest
      have htr : ∀ v ∈ vs, ∀ rest, traceOf (decodeP t) (Spec.encode t v ++ rest) = hookTrace t v :=
        fun v hv rest => traceOf_encode t v (hwf v hv) (hcn v hv) hl rest
      rw [traceOf_bind (run_replicateM_enc vs hel rest), traceOf_replicateM_enc vs hel htr rest]
      simp
  | .seq k sz t, v, h, hc, hl, rest => by
    cases v <;> try (simp [wf] at h; done)
    case seq vs =>
      simp only [wf, Bool.and_eq_true, decide_eq_true_eq] at h
      simp only [canon, Bool.and_eq_true] at hc
      simp only [layoutOk, Bool.and_eq_true] at hl
      obtain ⟨hlen, hall⟩ := h
      have hwf := all_mem hall
      have hcn := all_mem hc.1
      have hel : ∀ v ∈ vs, ∀ rest, run sliceInput (decodeP t) (Spec.encode t v ++ rest) = (.ok (norm t v), rest) :=
        fun v hv rest => decode_encode t v (hwf v hv) (hcn v hv) hl.1 rest
      have htr : ∀ v ∈ vs, ∀ rest, traceOf (decodeP t) (Spec.encode t v ++ rest) = hookTrace t v :=
        fun v hv rest => traceOf_encode t v (hwf v hv) (hcn v hv) hl.1 rest
      simp only [decodeP, Spec.encode, List.append_assoc]
      rw [traceOf_bind (run_len_enc hlen _), traceOf_compactDec, List.nil_append]
      cases k
      · have hsz : sz ≤ maxPrealloc := by simpa using hl.2
        rw [traceOf_bind (run_decodeVecWithLen_enc hsz t vs hlen hwf hel rest),
          traceOf_decodeVecWithLen_enc hsz t vs hlen hwf hel htr rest]
        simp [hookTrace]
      · have hsz : sz ≤ maxPrealloc := by simpa using hl.2
        rw [traceOf_bind (run_decodeVecWithLen_enc hsz t vs hlen hwf hel rest),
          traceOf_decodeVecWithLen_enc hsz t vs hlen hwf hel htr rest]
        simp [hookTrace]
      · have hsz : sz ≤ maxPrealloc := by simpa using hl.2
        rw [traceOf_bind (run_decodeVecWithLen_enc hsz t vs hlen hwf hel rest),
          traceOf_decodeVecWithLen_enc hsz t vs hlen hwf hel htr rest]
        simp [hookTrace]
      · simp only [traceOf_descend, traceOf_alloc, hookTrace]
        rw [traceOf_bind (run_replicateM_enc vs hel rest), traceOf_replicateM_enc vs hel htr rest, traceOf_ascend]
        simp
      · simp only [traceOf_descend, traceOf_alloc, hookTrace]
        rw [traceOf_bind (run_replicateM_enc vs hel rest), traceOf_replicateM_enc vs hel htr rest, traceOf_ascend]
        simp
      · simp only [traceOf_descend, traceOf_alloc, hookTrace]
        rw [traceOf_bind (run_replicateM_enc vs hel rest), traceOf_replicateM_enc vs hel htr rest, traceOf_ascend]
        simp
  | .str, v, h, _hc, _hl, rest => by
    cases v <;> try (simp [wf] at h; done)
    case bytes bs =>
      simp only [wf, Bool.and_eq_true, decide_eq_true_eq] at h
      simp only [decodeP, Spec.encode, List.append_assoc, hookTrace]
      rw [traceOf_bind (run_len_enc h.1 _), traceOf_compactDec, List.nil_append]
      have hc : ¬ (bs.length * 1 > usizeMax ∨ (bs ++ rest).length < bs.length * 1) := by
        have := h.1; simp [u32Max, usizeMax] at this ⊢; omega
      rw [traceOf_bulk (Nat.le_refl 1) (by decide) _ _ hc]
      simp only [Nat.mul_one, List.take_left' rfl, List.drop_left' rfl, h.2, if_true, traceOf_pure, List.append_nil]
  | .bytes, v, h, _hc, _hl, rest => by
    cases v <;> try (simp [wf] at h; done)
    case bytes bs =>
      simp only [wf, decide_eq_true_eq] at h
      simp only [decodeP, Spec.encode, List.append_assoc, hookTrace]
      rw [traceOf_bind (run_len_enc h _), traceOf_compactDec, List.nil_append]
      have hc : ¬ (bs.length > usizeMax ∨ (bs ++ rest).length < bs.length) := by
        simp [u32Max, usizeMax] at h ⊢; omega
      rw [traceOf_rawBytes _ _ _ hc]
      simp
  | .box sz t, v, h, hc, hl, rest => by
    simp only [wf] at h; simp only [canon] at hc; simp only [layoutOk] at hl
    simp only [decodeP, Spec.encode, hookTrace, traceOf_descend, traceOf_alloc]
    rw [traceOf_bind (decode_encode t v h hc hl rest), traceOf_encode t v h hc hl rest, traceOf_ascend]
    simp
  | .wrap t, v, h, hc, hl, rest => by
    simp only [wf] at h; simp only [canon] at hc; simp only [layoutOk] at hl
    simp only [decodeP, Spec.encode, hookTrace, traceOf_descend]
    rw [traceOf_bind (decode_encode t v h hc hl rest), traceOf_encode t v h hc hl rest, traceOf_ascend]
    simp
  | .duration, v, h, _hc, _hl, rest => by
    obtain ⟨s, n, rfl, hs, hn⟩ := wf_duration h
    simp only [decodeP, hookTrace]
    exact traceOf_hookFree (.read _ _ fun _ => .read _ _ fun _ => hookFree_ite .fail (.pure _)) _
  | .range t, v, h, hc, hl, rest => by
    obtain ⟨a, b, rfl, ha, hb⟩ := wf_range h
    simp only [canon, Bool.and_eq_true] at hc; simp only [layoutOk] at hl
    simp only [decodeP, Spec.encode, hookTrace, List.append_assoc]
    rw [traceOf_bind (decode_encode t a ha hc.1 hl _), traceOf_encode t a ha hc.1 hl _,
      traceOf_bind (decode_encode t b hb hc.2 hl _), traceOf_encode t b hb hc.2 hl _]
    simp
  | .bitseq store msb, v, h, _hc, _hl, rest => by
    cases v <;> try (simp [wf] at h; done)
    case bits bs =>
      simp only [wf, Bool.and_eq_true, decide_eq_true_eq] at h
      have hlen : bs.length ≤ u32Max := by have := h.2; simp [maxBits, u32Max] at this ⊢; omega
      have hmb : ¬ bs.length > maxBits := by omega
      obtain ⟨r1, r2, r3⟩ := bits_roundtrip store msb bs
      have ⟨hs1, hs16⟩ := prim_size_le store
      simp only [decodeP, Spec.encode, List.append_assoc, hookTrace]
      rw [traceOf_bind (run_len_enc hlen _), traceOf_compactDec, List.nil_append]
      simp only [hmb, if_false, elts]
      have e : bytesOfBits store msb bs = ((bitChunks (8 * store.size) bs.length bs).map fun c =>
        leBytes store.size (bitsToElem (8 * store.size) msb 0 c)).flatten := rfl
      rw [← e]
      have hc : ¬ ((bs.length + 8 * store.size - 1) / (8 * store.size) * store.size > usizeMax ∨
          (bytesOfBits store msb bs ++ rest).length < (bs.length + 8 * store.size - 1) / (8 * store.size) * store.size) := by
        simp only [List.length_append, r1, usizeMax]
        have : (bs.length + 8 * store.size - 1) / (8 * store.size) ≤ bs.length + 8 * store.size - 1 := Nat.div_le_self _ _
        have h2 := Nat.mul_le_mul this hs16
        simp [maxBits] at h
        omega
      rw [traceOf_bulk hs1 (by simp [maxPrealloc]; omega) _ _ hc]
      simp only [List.take_left' r1, List.drop_left' r1]
      have e2 : ((chunksOf store.size ((bs.length + 8 * store.size - 1) / (8 * store.size)) (bytesOfBits store msb bs)).map
          fun e => elemToBits (8 * store.size) msb (fromLe e)).flatten =
          bitsOfBytes store msb ((bs.length + 8 * store.size - 1) / (8 * store.size)) (bytesOfBits store msb bs) := rfl
      simp only [e2, r2, if_true, traceOf_pure, List.append_nil]
  | .enum idxs ts, v, h, hc, hl, rest => by
    cases v <;> try (simp [wf] at h; done)
    case variant idx v =>
      simp only [wf] at h; simp only [canon] at hc
      have hl' : layoutOk.layoutOkList ts = true := by simpa [layoutOk] using hl
      obtain ⟨hidx, payload, he, hd⟩ := decodeVariant_encode idxs ts idx v h hc hl'
      obtain ⟨payload', he', ht'⟩ := traceOf_encodeVariant idxs ts idx v h hc hl'
      have : (UInt8.ofNat idx).toNat = idx := by rw [UInt8.toNat_ofNat']; omega
      have hp : payload' = payload := by
        rw [he] at he'; exact (List.cons.inj he').2.symm
      subst hp
      simp only [Spec.encode, he, decodeP, List.cons_append, traceOf_readByte_cons, this, hookTrace, ht' rest]

theorem traceOf_encodeList : ∀ (ts : List Ty) (vs : List Val), wfList ts vs = true → canonList ts vs = true →
    layoutOk.layoutOkList ts = true →
    ∀ rest, traceOf (decodeList ts) (Spec.encodeList ts vs ++ rest) = hookTraceList ts vs
  | [], vs, h, _hc, _hl, rest => by
    cases vs <;> simp [wfList] at h
    simp [decodeList, hookTraceList]
  | t :: ts, vs, h, hc, hl, rest => by
    cases vs <;> try (simp [wfList] at h; done)
    case cons v vs =>
      simp only [wfList, Bool.and_eq_true] at h
      simp only [canonList, Bool.and_eq_true] at hc
      simp only [layoutOk.layoutOkList, Bool.and_eq_true] at hl
      simp only [decodeList, Spec.encodeList, hookTraceList, List.append_assoc]
      rw [traceOf_bind (decode_encode t v h.1 hc.1 hl.1 _), traceOf_encode t v h.1 hc.1 hl.1 _,
        traceOf_bind (decodeList_encode ts vs h.2 hc.2 hl.2 rest), traceOf_encodeList ts vs h.2 hc.2 hl.2 rest]
      simp

theorem traceOf_encodeVariant : ∀ (idxs : List Nat) (ts : List Ty) (idx : Nat) (v : Val),
    wfVariant idxs ts idx v = true → canonVariant idxs ts idx v = true → layoutOk.layoutOkList ts = true →
    ∃ payload, Spec.encodeVariant idxs ts idx v = UInt8.ofNat idx :: payload ∧
      ∀ rest, traceOf (decodeVariant idxs ts idx) (payload ++ rest) = hookTraceVariant idxs ts idx v
  | [], ts, idx, v, h, _, _ => by simp [wfVariant] at h
  | i :: is, [], idx, v, h, _, _ => by simp [wfVariant] at h
  | i :: is, t :: ts, idx, v, h, hc, hl => by
    simp only [wfVariant, Bool.and_eq_true, decide_eq_true_eq] at h
    simp only [layoutOk.layoutOkList, Bool.and_eq_true] at hl
    obtain ⟨hlt, h⟩ := h
    by_cases hi : i = idx
    · subst hi
      simp only [if_true] at h
      simp only [canonVariant, if_true] at hc
      refine ⟨Spec.encode t v, by simp [Spec.encodeVariant], fun rest => ?_⟩
      have : i % 256 = i := by omega
      simp only [decodeVariant, this, if_true, hookTraceVariant]
      rw [traceOf_bind (decode_encode t v h hc hl.1 rest), traceOf_encode t v h hc hl.1 rest]
      simp
    · simp only [hi, if_false] at h
      simp only [canonVariant, hi, if_false] at hc
      obtain ⟨hidx, _, _, _⟩ := decodeVariant_encode is ts idx v h hc hl.2
      obtain ⟨payload, he, hd⟩ := traceOf_encodeVariant is ts idx v h hc hl.2
      refine ⟨payload, by simp [Spec.encodeVariant, hi, he], fun rest => ?_⟩
      have : ¬ i % 256 = idx := by omega
      simp [decodeVariant, this, hd rest, hookTraceVariant, hi]
end

end Scale
