/-
  Proofs/Canonical.lean — the decoder accepts *only* encodings: if decoding succeeds, the value is
  well formed and the consumed bytes are exactly its `Spec.encode` (for wire-canonical types).
-/
import Scale.Decode
import Scale.Encode
import Scale.Canon
import Proofs.CompactDec
import Proofs.BulkSlice
import Proofs.Prim
namespace Scale
open Impl

/-! ### inversion of `run` on a slice -/

theorem run_bind_ok {σ α β} {I : InputOps σ} {p : Prog α} {f : α → Prog β} {s r : σ} {v : β}
    (h : run I (p.bind f) s = (.ok v, r)) :
    ∃ a s1, run I p s = (.ok a, s1) ∧ run I (f a) s1 = (.ok v, r) := by
  rw [run_bind] at h
  cases hr : run I p s with
  | mk res s1 =>
    rw [hr] at h
    cases res with
    | ok a => exact ⟨a, s1, rfl, h⟩
    | err => simp at h
    | panic => simp at h

theorem run_readByte_ok {α} {k : UInt8 → Prog α} {s r : Bytes} {v : α}
    (h : run sliceInput (.readByte k) s = (.ok v, r)) :
    ∃ b tl, s = b :: tl ∧ run sliceInput (k b) tl = (.ok v, r) := by
  cases s with
  | nil => simp at h
  | cons b tl => exact ⟨b, tl, rfl, by simpa using h⟩

theorem run_bulk_ok {α} {sz n : Nat} (h1 : 1 ≤ sz) (h2 : sz ≤ maxPrealloc) {k : Bytes → Prog α}
    {s r : Bytes} {v : α} (h : run sliceInput (.bulk sz n k) s = (.ok v, r)) :
    ∃ b tl, s = b ++ tl ∧ b.length = n * sz ∧ run sliceInput (k b) tl = (.ok v, r) := by
  rw [run_slice_bulk h1 h2] at h
  split at h
  · simp at h
  · next hc =>
    refine ⟨s.take (n * sz), s.drop (n * sz), (List.take_append_drop _ s).symm, ?_, h⟩
    simp; omega

theorem run_rawBytes_ok {α} {n : Nat} {k : Bytes → Prog α} {s r : Bytes} {v : α}
    (h : run sliceInput (.rawBytes n k) s = (.ok v, r)) :
    ∃ b tl, s = b ++ tl ∧ b.length = n ∧ run sliceInput (k b) tl = (.ok v, r) := by
  rw [run_slice_rawBytes] at h
  split at h
  · simp at h
  · next hc =>
    refine ⟨s.take n, s.drop n, (List.take_append_drop _ s).symm, ?_, h⟩
    simp; omega

theorem run_pure_ok {α} {a v : α} {s r : Bytes} (h : run sliceInput (.pure a) s = (.ok v, r)) :
    v = a ∧ r = s := by
  simp only [run_pure, Prod.mk.injEq, Res.ok.injEq] at h
  exact ⟨h.1.symm, h.2.symm⟩

/-- Inversion of `n` consecutive item decodes. -/
theorem run_replicateM_inv {item : Prog Val} {enc : Val → Bytes} {P : Val → Prop}
    (hitem : ∀ s v r, run sliceInput item s = (.ok v, r) → P v ∧ s = enc v ++ r) :
    ∀ (n : Nat) (s r : Bytes) (vs : List Val),
      run sliceInput (Prog.replicateM n item) s = (.ok vs, r) →
      vs.length = n ∧ (∀ v ∈ vs, P v) ∧ s = (vs.map enc).flatten ++ r
  | 0, s, r, vs, h => by
    obtain ⟨rfl, rfl⟩ := run_pure_ok h
    simp
  | n + 1, s, r, vs, h => by
    simp only [Prog.replicateM] at h
    obtain ⟨a, s1, h1, h2⟩ := run_bind_ok h
    obtain ⟨as, s2, h3, h4⟩ := run_bind_ok h2
    obtain ⟨rfl, rfl⟩ := run_pure_ok h4
    obtain ⟨pa, rfl⟩ := hitem _ _ _ h1
    obtain ⟨hl, hp, rfl⟩ := run_replicateM_inv hitem n _ _ _ h3
    refine ⟨by simp [hl], ?_, by simp⟩
    intro v hv
    rcases List.mem_cons.mp hv with rfl | hv
    · exact pa
    · exact hp v hv

theorem run_itemChunks_inv {sz : Nat} (hcl : 1 ≤ chunkLenOf sz) {item : Prog Val} {enc : Val → Bytes}
    {P : Val → Prop} (hitem : ∀ s v r, run sliceInput item s = (.ok v, r) → P v ∧ s = enc v ++ r) :
    ∀ (fuel rem : Nat) (s r : Bytes) (vs : List Val), rem ≤ fuel →
      run sliceInput (itemChunks sz item fuel rem) s = (.ok vs, r) →
      vs.length = rem ∧ (∀ v ∈ vs, P v) ∧ s = (vs.map enc).flatten ++ r := by
  intro fuel
  induction fuel with
  | zero =>
    intro rem s r vs hle h
    simp only [itemChunks] at h
    obtain ⟨rfl, rfl⟩ := run_pure_ok h
    simp; omega
  | succ fuel ih =>
    intro rem s r vs hle h
    unfold itemChunks at h
    by_cases h0 : rem = 0
    · simp only [h0, if_true] at h
      obtain ⟨rfl, rfl⟩ := run_pure_ok h
      simp [h0]
    · simp only [h0, if_false, run_slice_alloc] at h
      obtain ⟨xs, s1, h1, h2⟩ := run_bind_ok h
      obtain ⟨ys, s2, h3, h4⟩ := run_bind_ok h2
      obtain ⟨rfl, rfl⟩ := run_pure_ok h4
      obtain ⟨hl1, hp1, rfl⟩ := run_replicateM_inv hitem _ _ _ _ h1
      have hc1 : 1 ≤ min (chunkLenOf sz) rem := by omega
      have hc2 : min (chunkLenOf sz) rem ≤ rem := Nat.min_le_right _ _
      obtain ⟨hl2, hp2, rfl⟩ := ih _ _ _ _ (by omega) h3
      refine ⟨by simp [hl1, hl2]; omega, ?_, by simp⟩
      intro v hv
      rcases List.mem_append.mp hv with hv | hv
      · exact hp1 v hv
      · exact hp2 v hv

/-! ### primitives -/

theorem toTwos_fromTwos {w : Nat} (hw : w = 1 ∨ w = 2 ∨ w = 4 ∨ w = 8 ∨ w = 16) {n : Nat}
    (h : n < 256 ^ w) : toTwos w (fromTwos w n) = n := by
  unfold fromTwos toTwos
  rcases hw with rfl | rfl | rfl | rfl | rfl <;> simp at h ⊢ <;> split <;> omega

theorem fromTwos_range {w : Nat} (hw : w = 1 ∨ w = 2 ∨ w = 4 ∨ w = 8 ∨ w = 16) {n : Nat}
    (h : n < 256 ^ w) :
    -(2 : Int) ^ (8 * w - 1) ≤ fromTwos w n ∧ fromTwos w n < (2 : Int) ^ (8 * w - 1) := by
  unfold fromTwos
  rcases hw with rfl | rfl | rfl | rfl | rfl <;> simp at h ⊢ <;> split <;> omega

theorem primVal_inv {p : Prim} {bs : Bytes} (h : bs.length = p.size) :
    primWf p (primVal p bs) = true ∧ primBytes p (primVal p bs) = bs := by
  have hs := prim_size_cases p
  have hlt := fromLe_lt bs
  rw [h] at hlt
  unfold primVal
  by_cases hsg : p.signed = true
  · simp only [hsg, if_true, primWf, primBytes, Bool.true_and, Bool.and_eq_true, decide_eq_true_eq]
    obtain ⟨r1, r2⟩ := fromTwos_range hs hlt
    refine ⟨⟨by simpa using r1, by simpa using r2⟩, ?_⟩
    rw [toTwos_fromTwos hs hlt, leBytes_fromLe' h]
  · have hsg' : p.signed = false := by simpa using hsg
    simp only [hsg', Bool.false_eq_true, if_false, primWf, primBytes, Bool.not_false, Bool.true_and,
      decide_eq_true_eq]
    refine ⟨by rw [← pow256]; exact hlt, leBytes_fromLe' h⟩

theorem chunksOf_inv (size : Nat) : ∀ (n : Nat) (bs : Bytes), bs.length = n * size →
    (chunksOf size n bs).flatten = bs ∧ ∀ c ∈ chunksOf size n bs, c.length = size
  | 0, bs, h => by
    have : bs = [] := List.eq_nil_of_length_eq_zero (by simpa using h)
    subst this; simp [chunksOf]
  | n + 1, bs, h => by
    have hle : size ≤ bs.length := by rw [h, Nat.succ_mul]; omega
    have hd : (bs.drop size).length = n * size := by simp [h, Nat.succ_mul]
    obtain ⟨ih1, ih2⟩ := chunksOf_inv size n (bs.drop size) hd
    simp only [chunksOf, List.flatten_cons, ih1, List.take_append_drop, true_and]
    intro c hc
    rcases List.mem_cons.mp hc with rfl | hc
    · simp; omega
    · exact ih2 c hc

theorem primElems_inv {p : Prim} {n : Nat} {bs : Bytes} (h : bs.length = n * p.size) :
    (primElems p n bs).length = n ∧ (∀ v ∈ primElems p n bs, primWf p v = true) ∧
    ((primElems p n bs).map (primBytes p)).flatten = bs := by
  obtain ⟨c1, c2⟩ := chunksOf_inv p.size n bs h
  unfold primElems
  refine ⟨by simp [chunksOf_length], ?_, ?_⟩
  · intro v hv
    obtain ⟨c, hc, rfl⟩ := List.mem_map.mp hv
    exact (primVal_inv (c2 c hc)).1
  · rw [List.map_map]
    have : (chunksOf p.size n bs).map (primBytes p ∘ primVal p) = chunksOf p.size n bs := by
      conv => rhs; rw [← List.map_id (chunksOf p.size n bs)]
      apply List.map_congr_left
      intro c hc
      simp [(primVal_inv (c2 c hc)).2]
    rw [this, c1]
where
  chunksOf_length (size : Nat) : ∀ (n : Nat) (bs : Bytes), (chunksOf size n bs).length = n
    | 0, _ => rfl
    | n + 1, bs => by simp [chunksOf, chunksOf_length size n]

end Scale

namespace Scale
open Impl

theorem byte_lt (b : UInt8) : b.toNat < 256 := b.toNat_lt

theorem ofNat_toNat_byte (b : UInt8) : UInt8.ofNat b.toNat = b := by simp

theorem decodePrim_inv {p : Prim} {s r : Bytes} {v : Val}
    (h : run sliceInput (decodePrim p) s = (.ok v, r)) :
    primWf p v = true ∧ s = primBytes p v ++ r := by
  unfold decodePrim at h
  split at h
  · next h1 =>
    obtain ⟨b, tl, rfl, h⟩ := run_readByte_ok h
    obtain ⟨rfl, rfl⟩ := run_pure_ok h
    have := primVal_inv (p := p) (bs := [b]) (by simp [h1])
    exact ⟨this.1, by rw [this.2]; rfl⟩
  · obtain ⟨b, tl, rfl, hb, h⟩ := run_slice_read_ok h
    obtain ⟨rfl, rfl⟩ := run_pure_ok h
    have := primVal_inv (p := p) (bs := b) hb
    exact ⟨this.1, by rw [this.2]⟩

theorem len_inv {s r : Bytes} {n : Nat} (h : run sliceInput (compactDec 4) s = (.ok n, r)) :
    n ≤ u32Max ∧ s = Spec.compact n ++ r := by
  obtain ⟨h1, h2⟩ := compactDecode_can (w := 4) (by simp) h
  exact ⟨by simp [u32Max]; omega, h2⟩

theorem decodeVecWithLen_inv {sz : Nat} (hsz : sz ≤ maxPrealloc) (t : Ty) (len : Nat) (hlen : len ≤ u32Max)
    (hitem : ∀ s v r, run sliceInput (decodeP t) s = (.ok v, r) → wf t v = true ∧ s = Spec.encode t v ++ r)
    {s r : Bytes} {vs : List Val}
    (h : run sliceInput (decodeVecWithLen sz t (decodeP t) len) s = (.ok vs, r)) :
    vs.length = len ∧ (∀ v ∈ vs, wf t v = true) ∧ s = (vs.map (Spec.encode t)).flatten ++ r := by
  unfold decodeVecWithLen at h
  split at h
  · next p =>
    have ⟨h1, h16⟩ : 1 ≤ p.size ∧ p.size ≤ 16 := by cases p <;> simp [Prim.size]
    obtain ⟨b, tl, rfl, hb, h⟩ := run_bulk_ok h1 (by simp [maxPrealloc]; omega) h
    obtain ⟨rfl, rfl⟩ := run_pure_ok h
    obtain ⟨e1, e2, e3⟩ := primElems_inv (p := p) (n := len) (bs := b) hb
    refine ⟨e1, fun v hv => by simpa [wf] using e2 v hv, ?_⟩
    have : (primElems p len b).map (Spec.encode (.prim p)) = (primElems p len b).map (primBytes p) :=
      List.map_congr_left (fun v _ => by rw [Spec.encode])
    rw [this, e3]
  · unfold decodeItems at h
    simp only [run_slice_descend] at h
    obtain ⟨xs, s1, h1, h2⟩ := run_bind_ok h
    simp only [run_slice_ascend] at h2
    obtain ⟨rfl, rfl⟩ := run_pure_ok h2
    have hcl : 1 ≤ chunkLenOf sz := by
      unfold chunkLenOf
      split
      · simp [usizeMax]
      · next hz => exact (Nat.one_le_div_iff (by omega)).mpr hsz
    exact run_itemChunks_inv hcl hitem len len _ _ _ (Nat.le_refl _) h1

mutual
theorem decode_inv : ∀ (ty : Ty), widthsOk ty = true → layoutOk ty = true → wireCanon ty = true →
    ∀ (s r : Bytes) (v : Val), run sliceInput (decodeP ty) s = (.ok v, r) →
      wf ty v = true ∧ s = Spec.encode ty v ++ r
  | .unit, _, _, _, s, r, v, h => by
    simp only [decodeP] at h
    obtain ⟨rfl, rfl⟩ := run_pure_ok h
    simp [wf, Spec.encode]
  | .bool, _, _, _, s, r, v, h => by
    simp only [decodeP] at h
    obtain ⟨b, tl, rfl, hk⟩ := run_readByte_ok h
    clear h
    have h := hk
    clear hk
    have hb := byte_lt b
    split at h
    · next h0 =>
      obtain ⟨rfl, rfl⟩ := run_pure_ok h
      have : b = 0 := by rw [← ofNat_toNat_byte b, h0]; rfl
      simp [wf, Spec.encode, this]
    · split at h
      · next h0 h1 =>
        obtain ⟨rfl, rfl⟩ := run_pure_ok h
        have : b = 1 := by rw [← ofNat_toNat_byte b, h1]; rfl
        simp [wf, Spec.encode, this]
      · simp at h
  | .optionBool, _, _, _, s, r, v, h => by
    simp only [decodeP] at h
    obtain ⟨b, tl, rfl, hk⟩ := run_readByte_ok h
    clear h
    have h := hk
    clear hk
    split at h
    · next h0 =>
      obtain ⟨rfl, rfl⟩ := run_pure_ok h
      have : b = 0 := by rw [← ofNat_toNat_byte b, h0]; rfl
      simp [wf, Spec.encode, this]
    · split at h
      · next h0 h1 =>
        obtain ⟨rfl, rfl⟩ := run_pure_ok h
        have : b = 1 := by rw [← ofNat_toNat_byte b, h1]; rfl
        simp [wf, Spec.encode, this]
      · split at h
        · next h0 h1 h2 =>
          obtain ⟨rfl, rfl⟩ := run_pure_ok h
          have : b = 2 := by rw [← ofNat_toNat_byte b, h2]; rfl
          simp [wf, Spec.encode, this]
        · simp at h
  | .prim p, _, _, _, s, r, v, h => by
    simp only [decodeP] at h
    obtain ⟨h1, h2⟩ := decodePrim_inv h
    exact ⟨by simpa [wf] using h1, by rw [Spec.encode]; exact h2⟩
  | .nonZero p, _, _, _, s, r, v, h => by
    simp only [decodeP] at h
    obtain ⟨a, s1, h1, h2⟩ := run_bind_ok h
    obtain ⟨w1, w2⟩ := decodePrim_inv h1
    split at h2
    · simp at h2
    · next hz =>
      obtain ⟨rfl, rfl⟩ := run_pure_ok h2
      exact ⟨by simp [wf, w1, hz], by rw [Spec.encode]; exact w2⟩
  | .compact w, hw, _, _, s, r, v, h => by
    simp only [decodeP] at h
    obtain ⟨n, s1, h1, h2⟩ := run_bind_ok h
    obtain ⟨rfl, rfl⟩ := run_pure_ok h2
    have hw' : widthOk w = true := by simpa [widthsOk] using hw
    have hw'' : w = 1 ∨ w = 2 ∨ w = 4 ∨ w = 8 ∨ w = 16 := by simp [widthOk] at hw'; omega
    obtain ⟨c1, c2⟩ := compactDecode_can hw'' h1
    exact ⟨by simp [wf, hw', c1], by simp [Spec.encode, c2]⟩
  | .option t, hw, hl, hc, s, r, v, h => by
    simp only [decodeP] at h
    simp only [widthsOk] at hw; simp only [layoutOk] at hl; simp only [wireCanon] at hc
    obtain ⟨b, tl, rfl, hk⟩ := run_readByte_ok h
    clear h
    have h := hk
    clear hk
    split at h
    · next h0 =>
      obtain ⟨rfl, rfl⟩ := run_pure_ok h
      have : b = 0 := by rw [← ofNat_toNat_byte b, h0]; rfl
      simp [wf, Spec.encode, this]
    · split at h
      · next h0 h1 =>
        obtain ⟨a, s1, h2, h3⟩ := run_bind_ok h
        obtain ⟨rfl, rfl⟩ := run_pure_ok h3
        obtain ⟨w1, rfl⟩ := decode_inv t hw hl hc _ _ _ h2
        have : b = 1 := by rw [← ofNat_toNat_byte b, h1]; rfl
        simp [wf, Spec.encode, this, w1]
      · simp at h
  | .result t e, hw, hl, hc, s, r, v, h => by
    simp only [decodeP] at h
    simp only [widthsOk, Bool.and_eq_true] at hw; simp only [layoutOk, Bool.and_eq_true] at hl
    simp only [wireCanon, Bool.and_eq_true] at hc
    obtain ⟨b, tl, rfl, hk⟩ := run_readByte_ok h
    clear h
    have h := hk
    clear hk
    split at h
    · next h0 =>
      obtain ⟨a, s1, h2, h3⟩ := run_bind_ok h
      obtain ⟨rfl, rfl⟩ := run_pure_ok h3
      obtain ⟨w1, rfl⟩ := decode_inv t hw.1 hl.1 hc.1 _ _ _ h2
      have : b = 0 := by rw [← ofNat_toNat_byte b, h0]; rfl
      simp [wf, Spec.encode, this, w1]
    · split at h
      · next h0 h1 =>
        obtain ⟨a, s1, h2, h3⟩ := run_bind_ok h
        obtain ⟨rfl, rfl⟩ := run_pure_ok h3
        obtain ⟨w1, rfl⟩ := decode_inv e hw.2 hl.2 hc.2 _ _ _ h2
        have : b = 1 := by rw [← ofNat_toNat_byte b, h1]; rfl
        simp [wf, Spec.encode, this, w1]
      · simp at h
  | .tuple ts, hw, hl, hc, s, r, v, h => by
    simp only [decodeP] at h
    simp only [widthsOk] at hw; simp only [layoutOk] at hl; simp only [wireCanon] at hc
    obtain ⟨vs, s1, h1, h2⟩ := run_bind_ok h
    obtain ⟨rfl, rfl⟩ := run_pure_ok h2
    obtain ⟨w1, rfl⟩ := decodeList_inv ts hw hl hc _ _ _ h1
    simp [wf, Spec.encode, w1]
  | .array n t, hw, hl, hc, s, r, v, h => by
    simp only [decodeP] at h
    simp only [widthsOk] at hw; simp only [layoutOk] at hl; simp only [wireCanon] at hc
    split at h
    · next p =>
      obtain ⟨b, tl, rfl, hb, h⟩ := run_slice_read_ok h
      obtain ⟨rfl, rfl⟩ := run_pure_ok h
      obtain ⟨e1, e2, e3⟩ := primElems_inv (p := p) (n := n) (bs := b) hb
      have : (primElems p n b).map (Spec.encode (.prim p)) = (primElems p n b).map (primBytes p) :=
        List.map_congr_left (fun v _ => by rw [Spec.encode])
      refine ⟨?_, by simp only [Spec.encode]; exact congrArg (· ++ r) e3.symm⟩
      simp only [wf, Bool.and_eq_true, beq_iff_eq, List.all_eq_true]
      exact ⟨e1, fun v hv => by simpa [wf] using e2 v hv⟩
    · obtain ⟨vs, s1, h1, h2⟩ := run_bind_ok h
      obtain ⟨rfl, rfl⟩ := run_pure_ok h2
      obtain ⟨e1, e2, rfl⟩ := run_replicateM_inv (enc := Spec.encode t) (P := fun v => wf t v = true)
        (fun s v r hh => decode_inv t hw hl hc s r v hh) _ _ _ _ h1
      refine ⟨?_, by simp [Spec.encode]⟩
      simp only [wf, Bool.and_eq_true, beq_iff_eq, List.all_eq_true]
      exact ⟨e1, e2⟩
  | .garray n t, hw, hl, hc, s, r, v, h => by
    simp only [decodeP] at h
    simp only [widthsOk] at hw; simp only [layoutOk] at hl; simp only [wireCanon] at hc
    obtain ⟨vs, s1, h1, h2⟩ := run_bind_ok h
    obtain ⟨rfl, rfl⟩ := run_pure_ok h2
    obtain ⟨e1, e2, rfl⟩ := run_replicateM_inv (enc := Spec.encode t) (P := fun v => wf t v = true)
      (fun s v r hh => decode_inv t hw hl hc s r v hh) _ _ _ _ h1
    refine ⟨?_, by simp [Spec.encode]⟩
    simp only [wf, Bool.and_eq_true, beq_iff_eq, List.all_eq_true]
    exact ⟨e1, e2⟩
  | .seq k sz t, hw, hl, hc, s, r, v, h => by
    simp only [decodeP] at h
    simp only [widthsOk] at hw; simp only [layoutOk, Bool.and_eq_true] at hl
    simp only [wireCanon, Bool.and_eq_true] at hc
    obtain ⟨len, s1, h1, h2⟩ := run_bind_ok h
    obtain ⟨hlen, rfl⟩ := len_inv h1
    have hitem := fun s v r hh => decode_inv t hw hl.1 hc.1 s r v hh
    cases k
    case vec =>
      have hsz : sz ≤ maxPrealloc := by simpa using hl.2
      simp only at h2
      obtain ⟨vs, s2, h3, h4⟩ := run_bind_ok h2
      obtain ⟨rfl, rfl⟩ := run_pure_ok h4
      obtain ⟨e1, e2, rfl⟩ := decodeVecWithLen_inv hsz t len hlen hitem h3
      refine ⟨?_, by simp [Spec.encode, e1]⟩
      simp only [wf, Bool.and_eq_true, decide_eq_true_eq, List.all_eq_true]
      exact ⟨by omega, e2⟩
    case deque =>
      have hsz : sz ≤ maxPrealloc := by simpa using hl.2
      simp only at h2
      obtain ⟨vs, s2, h3, h4⟩ := run_bind_ok h2
      obtain ⟨rfl, rfl⟩ := run_pure_ok h4
      obtain ⟨e1, e2, rfl⟩ := decodeVecWithLen_inv hsz t len hlen hitem h3
      refine ⟨?_, by simp [Spec.encode, e1]⟩
      simp only [wf, Bool.and_eq_true, decide_eq_true_eq, List.all_eq_true]
      exact ⟨by omega, e2⟩
    case list =>
      simp only [run_slice_descend, run_slice_alloc] at h2
      obtain ⟨vs, s2, h3, h4⟩ := run_bind_ok h2
      simp only [run_slice_ascend] at h4
      obtain ⟨rfl, rfl⟩ := run_pure_ok h4
      obtain ⟨e1, e2, rfl⟩ := run_replicateM_inv (enc := Spec.encode t) (P := fun v => wf t v = true)
        hitem _ _ _ _ h3
      refine ⟨?_, by simp [Spec.encode, e1]⟩
      simp only [wf, Bool.and_eq_true, decide_eq_true_eq, List.all_eq_true]
      exact ⟨by omega, e2⟩
    case heap => simp at hc
    case bset => simp at hc
    case bmap => simp at hc
  | .str, _, _, _, s, r, v, h => by
    simp only [decodeP] at h
    obtain ⟨len, s1, h1, h2⟩ := run_bind_ok h
    obtain ⟨hlen, rfl⟩ := len_inv h1
    obtain ⟨b, tl, rfl, hb, h3⟩ := run_bulk_ok (Nat.le_refl 1) (by decide) h2
    split at h3
    · next hu =>
      obtain ⟨rfl, rfl⟩ := run_pure_ok h3
      have : b.length = len := by omega
      subst this
      refine ⟨by simp [wf, hu]; exact hlen, by simp [Spec.encode]⟩
    · simp at h3
  | .bytes, _, _, _, s, r, v, h => by
    simp only [decodeP] at h
    obtain ⟨len, s1, h1, h2⟩ := run_bind_ok h
    obtain ⟨hlen, rfl⟩ := len_inv h1
    obtain ⟨b, tl, rfl, hb, h3⟩ := run_rawBytes_ok h2
    obtain ⟨rfl, rfl⟩ := run_pure_ok h3
    subst hb
    exact ⟨by simp [wf]; exact hlen, by simp [Spec.encode]⟩
  | .box sz t, hw, hl, hc, s, r, v, h => by
    simp only [decodeP, run_slice_descend, run_slice_alloc] at h
    simp only [widthsOk] at hw; simp only [layoutOk] at hl; simp only [wireCanon] at hc
    obtain ⟨a, s1, h1, h2⟩ := run_bind_ok h
    simp only [run_slice_ascend] at h2
    obtain ⟨rfl, rfl⟩ := run_pure_ok h2
    obtain ⟨w1, rfl⟩ := decode_inv t hw hl hc _ _ _ h1
    exact ⟨by simpa [wf] using w1, by simp [Spec.encode]⟩
  | .wrap t, hw, hl, hc, s, r, v, h => by
    simp only [decodeP, run_slice_descend] at h
    simp only [widthsOk] at hw; simp only [layoutOk] at hl; simp only [wireCanon] at hc
    obtain ⟨a, s1, h1, h2⟩ := run_bind_ok h
    simp only [run_slice_ascend] at h2
    obtain ⟨rfl, rfl⟩ := run_pure_ok h2
    obtain ⟨w1, rfl⟩ := decode_inv t hw hl hc _ _ _ h1
    exact ⟨by simpa [wf] using w1, by simp [Spec.encode]⟩
  | .duration, _, _, _, s, r, v, h => by
    simp only [decodeP] at h
    obtain ⟨b8, tl, rfl, hb8, h⟩ := run_slice_read_ok h
    obtain ⟨b4, tl2, rfl, hb4, h⟩ := run_slice_read_ok h
    split at h
    · simp at h
    · next hn =>
      obtain ⟨rfl, rfl⟩ := run_pure_ok h
      have l8 := fromLe_lt b8; rw [hb8] at l8
      refine ⟨?_, ?_⟩
      · simp only [wf, Bool.and_eq_true, decide_eq_true_eq]
        exact ⟨Nat.lt_of_lt_of_le l8 (by decide), by omega⟩
      · simp only [Spec.encode, leBytes_fromLe' hb8, leBytes_fromLe' hb4, List.append_assoc]
  | .range t, hw, hl, hc, s, r, v, h => by
    simp only [decodeP] at h
    simp only [widthsOk] at hw; simp only [layoutOk] at hl; simp only [wireCanon] at hc
    obtain ⟨a, s1, h1, h2⟩ := run_bind_ok h
    obtain ⟨b, s2, h3, h4⟩ := run_bind_ok h2
    obtain ⟨rfl, rfl⟩ := run_pure_ok h4
    obtain ⟨w1, rfl⟩ := decode_inv t hw hl hc _ _ _ h1
    obtain ⟨w2, rfl⟩ := decode_inv t hw hl hc _ _ _ h3
    exact ⟨by simp [wf, w1, w2], by simp [Spec.encode]⟩
  | .bitseq store msb, _, _, hc, s, r, v, h => by simp [wireCanon] at hc
  | .enum idxs ts, hw, hl, hc, s, r, v, h => by
    simp only [decodeP] at h
    simp only [widthsOk, Bool.and_eq_true, List.all_eq_true, decide_eq_true_eq] at hw
    have hl' : layoutOk.layoutOkList ts = true := by simpa [layoutOk] using hl
    have hc' : wireCanon.wireCanonList ts = true := by simpa [wireCanon] using hc
    obtain ⟨b, tl, rfl, hk⟩ := run_readByte_ok h
    clear h
    have h := hk
    clear hk
    obtain ⟨i, pv, rfl, hi, hwf, payload, he, rfl⟩ :=
      decodeVariant_inv idxs ts b.toNat (byte_lt b) hw.1 hw.2 hl' hc' _ _ _ h
    subst hi
    refine ⟨by simpa [wf] using hwf, ?_⟩
    simp [Spec.encode, he]

theorem decodeList_inv : ∀ (ts : List Ty), widthsOk.widthsOkList ts = true →
    layoutOk.layoutOkList ts = true → wireCanon.wireCanonList ts = true →
    ∀ (s r : Bytes) (vs : List Val), run sliceInput (decodeList ts) s = (.ok vs, r) →
      wfList ts vs = true ∧ s = Spec.encodeList ts vs ++ r
  | [], _, _, _, s, r, vs, h => by
    simp only [decodeList] at h
    obtain ⟨rfl, rfl⟩ := run_pure_ok h
    simp [wfList, Spec.encodeList]
  | t :: ts, hw, hl, hc, s, r, vs, h => by
    simp only [decodeList] at h
    simp only [widthsOk.widthsOkList, Bool.and_eq_true] at hw
    simp only [layoutOk.layoutOkList, Bool.and_eq_true] at hl
    simp only [wireCanon.wireCanonList, Bool.and_eq_true] at hc
    obtain ⟨a, s1, h1, h2⟩ := run_bind_ok h
    obtain ⟨as, s2, h3, h4⟩ := run_bind_ok h2
    obtain ⟨rfl, rfl⟩ := run_pure_ok h4
    obtain ⟨w1, rfl⟩ := decode_inv t hw.1 hl.1 hc.1 _ _ _ h1
    obtain ⟨w2, rfl⟩ := decodeList_inv ts hw.2 hl.2 hc.2 _ _ _ h3
    simp [wfList, Spec.encodeList, w1, w2]

theorem decodeVariant_inv : ∀ (idxs : List Nat) (ts : List Ty) (b : Nat), b < 256 →
    (∀ i ∈ idxs, i < 256) → widthsOk.widthsOkList ts = true →
    layoutOk.layoutOkList ts = true → wireCanon.wireCanonList ts = true →
    ∀ (s r : Bytes) (v : Val), run sliceInput (decodeVariant idxs ts b) s = (.ok v, r) →
      ∃ i pv, v = .variant i pv ∧ i = b ∧ wfVariant idxs ts i pv = true ∧
        ∃ payload, Spec.encodeVariant idxs ts i pv = UInt8.ofNat i :: payload ∧ s = payload ++ r
  | [], ts, b, _, _, _, _, _, s, r, v, h => by simp [decodeVariant] at h
  | i :: is, [], b, _, _, _, _, _, s, r, v, h => by simp [decodeVariant] at h
  | i :: is, t :: ts, b, hb, hi, hw, hl, hc, s, r, v, h => by
    simp only [decodeVariant] at h
    simp only [widthsOk.widthsOkList, Bool.and_eq_true] at hw
    simp only [layoutOk.layoutOkList, Bool.and_eq_true] at hl
    simp only [wireCanon.wireCanonList, Bool.and_eq_true] at hc
    have hi0 : i < 256 := hi i (List.mem_cons_self)
    split at h
    · next hm =>
      obtain ⟨pv, s1, h1, h2⟩ := run_bind_ok h
      obtain ⟨rfl, rfl⟩ := run_pure_ok h2
      obtain ⟨w1, rfl⟩ := decode_inv t hw.1 hl.1 hc.1 _ _ _ h1
      have : i = b := by omega
      refine ⟨i, pv, rfl, this, by simp [wfVariant, hi0, w1], Spec.encode t pv, by simp [Spec.encodeVariant], rfl⟩
    · next hm =>
      obtain ⟨i', pv, rfl, hi', hwf, payload, he, rfl⟩ :=
        decodeVariant_inv is ts b hb (fun j hj => hi j (List.mem_cons_of_mem _ hj)) hw.2 hl.2 hc.2 _ _ _ h
      have hne : ¬ i = i' := by omega
      exact ⟨i', pv, rfl, hi', by simp [wfVariant, hi0, hne, hwf], payload, by simp [Spec.encodeVariant, hne, he], rfl⟩
end

end Scale
