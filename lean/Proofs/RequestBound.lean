/-
  Proofs/RequestBound.lean — part 2 of the request model: for EVERY byte string, over every plain
  byte input (slice or a reader that cannot report its remaining length), the heap memory the
  decoder requests is bounded by

      reqRatio ty * (bytes consumed) + baseMem ty            when the decode succeeds,
      reqRatio ty * (bytes consumed) + baseMem ty + reqAllow ty   in every case,

  where `reqAllow` is one `MAX_PREALLOCATION` (plus an element's fixed pointees) per level of
  sequence nesting. The hypothesis `productive ty` is the one finding F4 shows to be necessary.
-/
import Scale.Request
import Proofs.Request
import Proofs.HookTrace
import Proofs.HookFacts
namespace Scale
open Impl Prog

/-- A byte-list input whose hooks are no-ops: reads deliver a prefix of the state and leave the
    rest; failed reads leave no more than there was; it may or may not know its remaining length. -/
structure PlainIn (I : InputOps Bytes) : Prop where
  read_ok : ∀ {n s b s'}, I.read n s = (.ok b, s') → s.length = s'.length + n
  read_le : ∀ {n s r s'}, I.read n s = (r, s') → s'.length ≤ s.length
  readByte_ok : ∀ {s b s'}, I.readByte s = (.ok b, s') → s.length = s'.length + 1
  readByte_le : ∀ {s r s'}, I.readByte s = (r, s') → s'.length ≤ s.length
  descend : ∀ s, I.descend s = (.ok (), s)
  ascend : ∀ s, I.ascend s = s
  onAlloc : ∀ n s, I.onAlloc n s = (.ok (), s)
  remainingLen : ∀ s, I.remainingLen s = (.ok (some s.length), s) ∨ I.remainingLen s = (.ok none, s)
  rawNone : I.rawBytes = none

theorem plainIn_slice : PlainIn sliceInput where
  read_ok := by
    intro n s b s' h
    simp only [sliceInput, sliceRead_eq] at h
    by_cases hn : n > s.length
    · simp [hn] at h
    · simp only [hn, if_false, Prod.mk.injEq, Res.ok.injEq] at h
      rw [← h.2]; simp; omega
  read_le := by
    intro n s r s' h
    simp only [sliceInput, sliceRead_eq] at h
    by_cases hn : n > s.length
    · simp only [hn, if_true, Prod.mk.injEq] at h; rw [← h.2]; exact Nat.le_refl _
    · simp only [hn, if_false, Prod.mk.injEq] at h; rw [← h.2]; simp
  readByte_ok := by
    intro s b s' h
    cases s with
    | nil => simp [sliceInput] at h
    | cons x xs => simp only [sliceInput, Prod.mk.injEq, Res.ok.injEq] at h; rw [← h.2]; simp
  readByte_le := by
    intro s r s' h
    cases s with
    | nil => simp only [sliceInput, Prod.mk.injEq] at h; rw [← h.2]; exact Nat.le_refl _
    | cons x xs => simp only [sliceInput, Prod.mk.injEq] at h; rw [← h.2]; simp
  descend := fun _ => rfl
  ascend := fun _ => rfl
  onAlloc := fun _ _ => rfl
  remainingLen := fun _ => Or.inl rfl
  rawNone := rfl

theorem plainIn_io : PlainIn ioInput where
  read_ok := by
    intro n s b s' h
    simp only [ioInput, takeExact_eq] at h
    by_cases hn : n > s.length
    · simp [hn] at h
    · simp only [hn, if_false, Prod.mk.injEq, Res.ok.injEq] at h
      rw [← h.2]; simp; omega
  read_le := by
    intro n s r s' h
    simp only [ioInput, takeExact_eq] at h
    by_cases hn : n > s.length
    · simp only [hn, if_true, Prod.mk.injEq] at h; rw [← h.2]; simp
    · simp only [hn, if_false, Prod.mk.injEq] at h; rw [← h.2]; simp
  readByte_ok := by
    intro s b s' h
    cases s with
    | nil => simp [ioInput] at h
    | cons x xs => simp only [ioInput, Prod.mk.injEq, Res.ok.injEq] at h; rw [← h.2]; simp
  readByte_le := by
    intro s r s' h
    cases s with
    | nil => simp only [ioInput, Prod.mk.injEq] at h; rw [← h.2]; exact Nat.le_refl _
    | cons x xs => simp only [ioInput, Prod.mk.injEq] at h; rw [← h.2]; simp
  descend := fun _ => rfl
  ascend := fun _ => rfl
  onAlloc := fun _ _ => rfl
  remainingLen := fun _ => Or.inr rfl
  rawNone := rfl

/-- The request bound of one program: running it (with the request recorder) from `s` consumes some
    `c` bytes; on success `c ≥ m` and the requests added are at most `R * c + B`; in every case at
    most `R * c + B + A`. -/
def ReqBnd {α : Type} (I : InputOps Bytes) (p : Prog α) (m R B A : Nat) : Prop :=
  ∀ (s : Bytes) (tr : List Hook), ∃ c : Nat,
    s.length = (run (traceRec I) p (s, tr)).2.1.length + c ∧
    ((∃ a, (run (traceRec I) p (s, tr)).1 = .ok a) →
      m ≤ c ∧ allocTotal (run (traceRec I) p (s, tr)).2.2 ≤ allocTotal tr + R * c + B) ∧
    allocTotal (run (traceRec I) p (s, tr)).2.2 ≤ allocTotal tr + R * c + B + A

namespace ReqBnd
variable {I : InputOps Bytes} {α β : Type}

theorem mono {p : Prog α} {m R B A m' R' B' A' : Nat} (h : ReqBnd I p m R B A)
    (hm : m' ≤ m) (hR : R ≤ R') (hB : B ≤ B') (hA : B + A ≤ B' + A') : ReqBnd I p m' R' B' A' := by
  intro s tr
  obtain ⟨c, h1, h2, h3⟩ := h s tr
  have hc : R * c ≤ R' * c := Nat.mul_le_mul_right c hR
  refine ⟨c, h1, ?_, by omega⟩
  intro hok
  obtain ⟨a1, a2⟩ := h2 hok
  exact ⟨by omega, by omega⟩

theorem pure (a : α) : ReqBnd I (.pure a) 0 0 0 0 := by
  intro s tr; exact ⟨0, by simp [run], by intro _; simp [run], by simp [run]⟩

theorem fail (m R B A : Nat) : ReqBnd I (.fail : Prog α) m R B A := by
  intro s tr; exact ⟨0, by simp [run], by rintro ⟨a, h⟩; simp [run] at h, by simp [run]; omega⟩

theorem panic (m R B A : Nat) : ReqBnd I (.panic : Prog α) m R B A := by
  intro s tr; exact ⟨0, by simp [run], by rintro ⟨a, h⟩; simp [run] at h, by simp [run]; omega⟩

theorem ite {c : Prop} [Decidable c] {p q : Prog α} {m R B A : Nat} (hp : ReqBnd I p m R B A)
    (hq : ReqBnd I q m R B A) : ReqBnd I (if c then p else q) m R B A := by
  split <;> assumption

theorem readByte (hI : PlainIn I) {k : UInt8 → Prog α} {m R B A : Nat} (h : ∀ b, ReqBnd I (k b) m R B A) :
    ReqBnd I (.readByte k) (m + 1) R B A := by
  intro s tr
  rcases res_cases (I.readByte s) with ⟨x, s1, e⟩ | ⟨s1, e⟩ | ⟨s1, e⟩
  · have hrun : run (traceRec I) (.readByte k) (s, tr) = run (traceRec I) (k x) (s1, tr) := by
      simp only [run, traceRec, e]
    rw [hrun]
    obtain ⟨c, h1, h2, h3⟩ := h x s1 tr
    have := hI.readByte_ok e
    refine ⟨c + 1, by omega, ?_, by rw [Nat.mul_add]; omega⟩
    intro hok
    obtain ⟨a1, a2⟩ := h2 hok
    exact ⟨by omega, by rw [Nat.mul_add]; omega⟩
  · have hrun : run (traceRec I) (.readByte k) (s, tr) = (.err, (s1, tr)) := by
      simp only [run, traceRec, e]
    rw [hrun]
    have := hI.readByte_le e
    exact ⟨s.length - s1.length, by simp only []; omega, by rintro ⟨a, h⟩; simp at h, by simp only []; omega⟩
  · have hrun : run (traceRec I) (.readByte k) (s, tr) = (.panic, (s1, tr)) := by
      simp only [run, traceRec, e]
    rw [hrun]
    have := hI.readByte_le e
    exact ⟨s.length - s1.length, by simp only []; omega, by rintro ⟨a, h⟩; simp at h, by simp only []; omega⟩

theorem read (hI : PlainIn I) {n : Nat} {k : Bytes → Prog α} {m R B A : Nat} (h : ∀ b, ReqBnd I (k b) m R B A) :
    ReqBnd I (.read n k) (m + n) R B A := by
  intro s tr
  rcases res_cases (I.read n s) with ⟨x, s1, e⟩ | ⟨s1, e⟩ | ⟨s1, e⟩
  · have hrun : run (traceRec I) (.read n k) (s, tr) = run (traceRec I) (k x) (s1, tr) := by
      simp only [run, traceRec, e]
    rw [hrun]
    obtain ⟨c, h1, h2, h3⟩ := h x s1 tr
    have := hI.read_ok e
    refine ⟨c + n, by omega, ?_, by rw [Nat.mul_add]; omega⟩
    intro hok
    obtain ⟨a1, a2⟩ := h2 hok
    exact ⟨by omega, by rw [Nat.mul_add]; omega⟩
  · have hrun : run (traceRec I) (.read n k) (s, tr) = (.err, (s1, tr)) := by
      simp only [run, traceRec, e]
    rw [hrun]
    have := hI.read_le e
    exact ⟨s.length - s1.length, by simp only []; omega, by rintro ⟨a, h⟩; simp at h, by simp only []; omega⟩
  · have hrun : run (traceRec I) (.read n k) (s, tr) = (.panic, (s1, tr)) := by
      simp only [run, traceRec, e]
    rw [hrun]
    have := hI.read_le e
    exact ⟨s.length - s1.length, by simp only []; omega, by rintro ⟨a, h⟩; simp at h, by simp only []; omega⟩

theorem descend (hI : PlainIn I) {k : Unit → Prog α} {m R B A : Nat} (h : ReqBnd I (k ()) m R B A) :
    ReqBnd I (.descend k) m R B A := by
  intro s tr
  have hrun : run (traceRec I) (.descend k) (s, tr) = run (traceRec I) (k ()) (s, tr ++ [.desc]) := by
    simp only [run, traceRec, hI.descend]
  rw [hrun]
  obtain ⟨c, h1, h2, h3⟩ := h s (tr ++ [.desc])
  simp only [allocTotal_append, allocTotal, Nat.add_zero] at h2 h3
  exact ⟨c, h1, h2, h3⟩

theorem ascend (hI : PlainIn I) {k : Unit → Prog α} {m R B A : Nat} (h : ReqBnd I (k ()) m R B A) :
    ReqBnd I (.ascend k) m R B A := by
  intro s tr
  have hrun : run (traceRec I) (.ascend k) (s, tr) = run (traceRec I) (k ()) (s, tr ++ [.asc]) := by
    simp only [run, traceRec, hI.ascend]
  rw [hrun]
  obtain ⟨c, h1, h2, h3⟩ := h s (tr ++ [.asc])
  simp only [allocTotal_append, allocTotal, Nat.add_zero] at h2 h3
  exact ⟨c, h1, h2, h3⟩

/-- A request of `n` bytes in a fixed position. -/
theorem alloc (hI : PlainIn I) {n : Nat} {k : Unit → Prog α} {m R B A : Nat} (h : ReqBnd I (k ()) m R B A) :
    ReqBnd I (.alloc n k) m R (B + n) A := by
  intro s tr
  have hrun : run (traceRec I) (.alloc n k) (s, tr) = run (traceRec I) (k ()) (s, tr ++ [.alloc n]) := by
    simp only [run, traceRec, hI.onAlloc]
  rw [hrun]
  obtain ⟨c, h1, h2, h3⟩ := h s (tr ++ [.alloc n])
  simp only [allocTotal_append, allocTotal, Nat.add_zero] at h2 h3
  refine ⟨c, h1, ?_, by omega⟩
  intro hok
  obtain ⟨a1, a2⟩ := h2 hok
  exact ⟨a1, by omega⟩

/-- Sequential composition under a common ratio and allowance: bases add. -/
theorem bind {p : Prog α} {f : α → Prog β} {m1 m2 R B1 B2 A : Nat} (hp : ReqBnd I p m1 R B1 A)
    (hf : ∀ a, ReqBnd I (f a) m2 R B2 A) : ReqBnd I (p.bind f) (m1 + m2) R (B1 + B2) A := by
  intro s tr
  obtain ⟨c1, h1, h2, h3⟩ := hp s tr
  rw [run_bind]
  rcases res_cases (run (traceRec I) p (s, tr)) with ⟨x, ⟨s1, t1⟩, e⟩ | ⟨⟨s1, t1⟩, e⟩ | ⟨⟨s1, t1⟩, e⟩
  · simp only [e] at h1 h2 h3 ⊢
    obtain ⟨a1, a2⟩ := h2 ⟨x, rfl⟩
    obtain ⟨c2, g1, g2, g3⟩ := hf x s1 t1
    refine ⟨c1 + c2, by omega, ?_, by rw [Nat.mul_add]; omega⟩
    intro hok
    obtain ⟨b1, b2⟩ := g2 hok
    exact ⟨by omega, by rw [Nat.mul_add]; omega⟩
  · simp only [e] at h1 h2 h3 ⊢
    exact ⟨c1, h1, by rintro ⟨a, h⟩; simp at h, by omega⟩
  · simp only [e] at h1 h2 h3 ⊢
    exact ⟨c1, h1, by rintro ⟨a, h⟩; simp at h, by omega⟩

/-- Mapping the result changes nothing. -/
theorem bind_pure {p : Prog α} {g : α → β} {m R B A : Nat} (hp : ReqBnd I p m R B A) :
    ReqBnd I (p.bind fun a => .pure (g a)) m R B A := by
  have := bind hp (fun a => (ReqBnd.pure (I := I) (g a)).mono (Nat.le_refl 0) (Nat.zero_le R) (Nat.le_refl 0) (Nat.zero_le _))
  simpa using this

/-- `n` repetitions in fixed positions (arrays): the bases add up. -/
theorem replicateM {p : Prog α} {m R B A : Nat} (hp : ReqBnd I p m R B A) :
    ∀ n, ReqBnd I (Prog.replicateM n p) (n * m) R (n * B) A
  | 0 => by
    simp only [Prog.replicateM, Nat.zero_mul]
    exact (ReqBnd.pure (I := I) ([] : List α)).mono (Nat.le_refl 0) (Nat.zero_le R) (Nat.le_refl 0) (Nat.zero_le _)
  | n+1 => by
    simp only [Prog.replicateM]
    have := bind hp (fun a => bind_pure (g := fun as => a :: as) (replicateM hp n))
    refine this.mono ?_ (Nat.le_refl R) ?_ ?_
    · rw [Nat.succ_mul]; omega
    · rw [Nat.succ_mul]; omega
    · rw [Nat.succ_mul]; omega

/-- An element that consumes at least one byte pays for its own fixed pointees: the base moves into
    the ratio (and, for the failing case, into the allowance). -/
theorem productive {p : Prog α} {m R B A : Nat} (hp : ReqBnd I p m R B A) (hm : 1 ≤ m) :
    ReqBnd I p m (R + B) 0 (B + A) := by
  intro s tr
  obtain ⟨c, h1, h2, h3⟩ := hp s tr
  refine ⟨c, h1, ?_, by rw [Nat.add_mul]; omega⟩
  intro hok
  obtain ⟨a1, a2⟩ := h2 hok
  have : B ≤ B * c := Nat.le_mul_of_pos_right B (by omega)
  exact ⟨a1, by rw [Nat.add_mul]; omega⟩

end ReqBnd


/-! ### programs without hooks, compact prefixes, primitives -/

theorem ReqBnd.ofHookFree {I : InputOps Bytes} (hI : PlainIn I) {α : Type} {p : Prog α} (hp : HookFree p) :
    ReqBnd I p 0 0 0 0 := by
  induction hp with
  | pure a => exact ReqBnd.pure a
  | fail => exact ReqBnd.fail 0 0 0 0
  | panic => exact ReqBnd.panic 0 0 0 0
  | read n k _ ih => exact (ReqBnd.read hI ih).mono (Nat.zero_le _) (Nat.le_refl _) (Nat.le_refl _) (Nat.le_refl _)
  | readByte k _ ih => exact (ReqBnd.readByte hI ih).mono (Nat.zero_le _) (Nat.le_refl _) (Nat.le_refl _) (Nat.le_refl _)

theorem reqBnd_readByteHead {I : InputOps Bytes} (hI : PlainIn I) {α : Type} {k : UInt8 → Prog α}
    (h : HookFree (.readByte k)) : ReqBnd I (.readByte k) 1 0 0 0 := by
  cases h with
  | readByte _ hk => exact ReqBnd.readByte hI fun b => ReqBnd.ofHookFree hI (hk b)

/-- A compact prefix requests nothing and, when it decodes, has consumed at least one byte. -/
theorem reqBnd_compactDec {I : InputOps Bytes} (hI : PlainIn I) (w : Nat) : ReqBnd I (compactDec w) 1 0 0 0 := by
  have h1 : HookFree compactDec8 := hookFree_compactDec 1
  have h2 : HookFree compactDec16 := hookFree_compactDec 2
  have h4 : HookFree compactDec32 := hookFree_compactDec 4
  have h8 : HookFree compactDec64 := hookFree_compactDec 8
  have h16 : HookFree compactDec128 := hookFree_compactDec 16
  unfold compactDec
  split
  · unfold compactDec8 at h1 ⊢; exact reqBnd_readByteHead hI h1
  · unfold compactDec16 at h2 ⊢; exact reqBnd_readByteHead hI h2
  · unfold compactDec32 at h4 ⊢; exact reqBnd_readByteHead hI h4
  · unfold compactDec64 at h8 ⊢; exact reqBnd_readByteHead hI h8
  · unfold compactDec128 at h16 ⊢; exact reqBnd_readByteHead hI h16
  · exact ReqBnd.panic 1 0 0 0

theorem reqBnd_decodePrim {I : InputOps Bytes} (hI : PlainIn I) (p : Prim) : ReqBnd I (decodePrim p) p.size 0 0 0 := by
  unfold decodePrim
  split
  · next h1 =>
    have := ReqBnd.readByte hI (k := fun b => Prog.pure (primVal p [b])) (fun b => ReqBnd.pure (I := I) _)
    rw [h1]; exact this
  · have := ReqBnd.read hI (n := p.size) (k := fun bs => Prog.pure (primVal p bs)) (fun b => ReqBnd.pure (I := I) _)
    simpa using this

/-! ### the bulk reader: every chunk is requested, then read — one chunk ahead at most -/

theorem satMul_le_mul (a b : Nat) : satMul a b ≤ a * b := by
  unfold satMul; exact Nat.min_le_left _ _

theorem chunkLoop_req {I : InputOps Bytes} (hI : PlainIn I) (sz cl : Nat) (hfit : cl * sz ≤ maxPrealloc) :
    ∀ (fuel rem : Nat) (acc s : Bytes) (tr : List Hook), ∃ c : Nat,
      s.length = (chunkLoop (traceRec I) sz cl fuel rem acc (s, tr)).2.1.length + c ∧
      ((∃ a, (chunkLoop (traceRec I) sz cl fuel rem acc (s, tr)).1 = .ok a) →
        allocTotal (chunkLoop (traceRec I) sz cl fuel rem acc (s, tr)).2.2 ≤ allocTotal tr + c) ∧
      allocTotal (chunkLoop (traceRec I) sz cl fuel rem acc (s, tr)).2.2 ≤ allocTotal tr + c + maxPrealloc := by
  intro fuel
  induction fuel with
  | zero => intro rem acc s tr; exact ⟨0, by simp [chunkLoop], by simp [chunkLoop], by simp [chunkLoop]⟩
  | succ fuel ih =>
    intro rem acc s tr
    by_cases h0 : rem = 0
    · subst h0; exact ⟨0, by simp [chunkLoop], by simp [chunkLoop], by simp [chunkLoop]⟩
    · have hx1 : satMul (min cl rem) sz ≤ min cl rem * sz := satMul_le_mul _ _
      have hx2 : min cl rem * sz ≤ cl * sz := Nat.mul_le_mul_right sz (Nat.min_le_left _ _)
      rcases res_cases (I.read (min cl rem * sz) s) with ⟨x, s1, e⟩ | ⟨s1, e⟩ | ⟨s1, e⟩
      · have hstep : chunkLoop (traceRec I) sz cl (fuel + 1) rem acc (s, tr) =
            chunkLoop (traceRec I) sz cl fuel (rem - min cl rem) (acc ++ x)
              (s1, tr ++ [.alloc (satMul (min cl rem) sz)]) := by
          rw [chunkLoop]
          simp only [h0, if_false, traceRec, hI.onAlloc, e]
        rw [hstep]
        obtain ⟨c, g1, g2, g3⟩ := ih (rem - min cl rem) (acc ++ x) s1 (tr ++ [.alloc (satMul (min cl rem) sz)])
        simp only [allocTotal_append, allocTotal, Nat.add_zero] at g2 g3
        have := hI.read_ok e
        refine ⟨c + min cl rem * sz, by omega, ?_, by omega⟩
        intro hok
        have := g2 hok
        omega
      · have hstep : chunkLoop (traceRec I) sz cl (fuel + 1) rem acc (s, tr) =
            (.err, (s1, tr ++ [.alloc (satMul (min cl rem) sz)])) := by
          rw [chunkLoop]
          simp only [h0, if_false, traceRec, hI.onAlloc, e]
        rw [hstep]
        have := hI.read_le e
        refine ⟨s.length - s1.length, by simp only []; omega, by rintro ⟨a, h⟩; simp at h, ?_⟩
        simp only [allocTotal_append, allocTotal, Nat.add_zero]
        omega
      · have hstep : chunkLoop (traceRec I) sz cl (fuel + 1) rem acc (s, tr) =
            (.panic, (s1, tr ++ [.alloc (satMul (min cl rem) sz)])) := by
          rw [chunkLoop]
          simp only [h0, if_false, traceRec, hI.onAlloc, e]
        rw [hstep]
        have := hI.read_le e
        refine ⟨s.length - s1.length, by simp only []; omega, by rintro ⟨a, h⟩; simp at h, ?_⟩
        simp only [allocTotal_append, allocTotal, Nat.add_zero]
        omega

theorem runBulk_req {I : InputOps Bytes} (hI : PlainIn I) (sz count : Nat) (s : Bytes) (tr : List Hook) :
    ∃ c : Nat,
      s.length = (runBulk (traceRec I) sz count (s, tr)).2.1.length + c ∧
      ((∃ a, (runBulk (traceRec I) sz count (s, tr)).1 = .ok a) →
        allocTotal (runBulk (traceRec I) sz count (s, tr)).2.2 ≤ allocTotal tr + c) ∧
      allocTotal (runBulk (traceRec I) sz count (s, tr)).2.2 ≤ allocTotal tr + c + maxPrealloc := by
  have hfit : (if sz = 0 then usizeMax else maxPrealloc / sz) * sz ≤ maxPrealloc := by
    split
    · next h => subst h; simp
    · exact Nat.div_mul_le_self _ _
  unfold runBulk
  by_cases h1 : sz > maxPrealloc
  · simp only [h1, if_true]; exact ⟨0, by simp, by rintro ⟨a, h⟩; simp at h, by simp⟩
  · simp only [h1, if_false]
    by_cases h2 : count * sz > usizeMax
    · simp only [h2, if_true]; exact ⟨0, by simp, by rintro ⟨a, h⟩; simp at h, by simp⟩
    · simp only [h2, if_false]
      rcases hI.remainingLen s with hr | hr
      · have : (traceRec I).remainingLen (s, tr) = (.ok (some s.length), (s, tr)) := by
          simp only [traceRec, hr]
        simp only [this]
        by_cases h3 : s.length < count * sz
        · simp only [h3, if_true]; exact ⟨0, by simp, by rintro ⟨a, h⟩; simp at h, by simp⟩
        · simp only [h3, if_false]
          exact chunkLoop_req hI sz _ hfit count count [] s tr
      · have : (traceRec I).remainingLen (s, tr) = (.ok none, (s, tr)) := by
          simp only [traceRec, hr]
        simp only [this]
        exact chunkLoop_req hI sz _ hfit count count [] s tr

/-- The bulk reader under a ratio of at least one byte requested per byte read. -/
theorem ReqBnd.bulk {I : InputOps Bytes} (hI : PlainIn I) {α : Type} {sz count : Nat} {k : Bytes → Prog α}
    {m R B A : Nat} (hR : 1 ≤ R) (h : ∀ b, ReqBnd I (k b) m R B A) :
    ReqBnd I (.bulk sz count k) m R B (A + maxPrealloc) := by
  intro s tr
  obtain ⟨c0, b1, b2, b3⟩ := runBulk_req hI sz count s tr
  have hc0 : c0 ≤ R * c0 := Nat.le_mul_of_pos_left c0 (by omega)
  rcases res_cases (runBulk (traceRec I) sz count (s, tr)) with ⟨x, ⟨s1, t1⟩, e⟩ | ⟨⟨s1, t1⟩, e⟩ | ⟨⟨s1, t1⟩, e⟩
  · have hrun : run (traceRec I) (.bulk sz count k) (s, tr) = run (traceRec I) (k x) (s1, t1) := by
      simp only [run, e]
    rw [hrun]
    simp only [e] at b1 b2 b3
    have b2' := b2 ⟨x, rfl⟩
    obtain ⟨c, h1, h2, h3⟩ := h x s1 t1
    refine ⟨c0 + c, by omega, ?_, by rw [Nat.mul_add]; omega⟩
    intro hok
    obtain ⟨a1, a2⟩ := h2 hok
    exact ⟨by omega, by rw [Nat.mul_add]; omega⟩
  · have hrun : run (traceRec I) (.bulk sz count k) (s, tr) = (.err, (s1, t1)) := by
      simp only [run, e]
    rw [hrun]
    simp only [e] at b1 b2 b3
    exact ⟨c0, b1, by rintro ⟨a, h⟩; simp at h, by simp only []; omega⟩
  · have hrun : run (traceRec I) (.bulk sz count k) (s, tr) = (.panic, (s1, t1)) := by
      simp only [run, e]
    rw [hrun]
    simp only [e] at b1 b2 b3
    exact ⟨c0, b1, by rintro ⟨a, h⟩; simp at h, by simp only []; omega⟩

/-- The byte-buffer hook of a plain input is the bulk reader of single bytes. -/
theorem ReqBnd.rawBytes {I : InputOps Bytes} (hI : PlainIn I) {α : Type} {n : Nat} {k : Bytes → Prog α}
    {m R B A : Nat} (hR : 1 ≤ R) (h : ∀ b, ReqBnd I (k b) m R B A) :
    ReqBnd I (.rawBytes n k) m R B (A + maxPrealloc) := by
  have e : ∀ st, run (traceRec I) (.rawBytes n k) st = run (traceRec I) (.bulk 1 n k) st := by
    intro st; simp only [run]; rfl
  intro s tr
  rw [e]
  exact ReqBnd.bulk hI hR h s tr


/-! ### the element-by-element chunk loop and `from_iter` nodes -/

theorem chunk_le_prealloc (sz rem : Nat) (h : sz ≤ maxPrealloc) :
    satMul (min (chunkLenOf sz) rem) sz ≤ maxPrealloc := by
  unfold satMul chunkLenOf
  by_cases hz : sz = 0
  · subst hz; simp [maxPrealloc]
  · simp only [hz, if_false]
    have h1 : min (maxPrealloc / sz) rem * sz ≤ maxPrealloc / sz * sz :=
      Nat.mul_le_mul_right sz (Nat.min_le_left _ _)
    have h2 : maxPrealloc / sz * sz ≤ maxPrealloc := Nat.div_mul_le_self _ _
    omega

/-- `decode_vec_chunked` over items that each consume at least one byte: a chunk's reservation is
    paid for by the bytes its items consume; only the chunk in progress is ahead of the data. -/
theorem ReqBnd.itemChunks {I : InputOps Bytes} (hI : PlainIn I) {sz : Nat} (hsz : sz ≤ maxPrealloc)
    {item : Prog Val} {m R A : Nat} (hitem : ReqBnd I item m R 0 A) (hm : 1 ≤ m) :
    ∀ fuel rem, ReqBnd I (Impl.itemChunks sz item fuel rem) 0 (R + sz) 0 (A + maxPrealloc) := by
  intro fuel
  induction fuel with
  | zero =>
    intro rem
    exact (ReqBnd.pure (I := I) ([] : List Val)).mono (Nat.le_refl 0) (Nat.zero_le _) (Nat.le_refl 0) (Nat.zero_le _)
  | succ fuel ih =>
    intro rem
    unfold Impl.itemChunks
    by_cases h0 : rem = 0
    · simp only [h0, if_true]
      exact (ReqBnd.pure (I := I) ([] : List Val)).mono (Nat.le_refl 0) (Nat.zero_le _) (Nat.le_refl 0) (Nat.zero_le _)
    · simp only [h0, if_false]
      intro s tr
      have hx1 : satMul (min (chunkLenOf sz) rem) sz ≤ min (chunkLenOf sz) rem * sz := satMul_le_mul _ _
      have hx2 := chunk_le_prealloc sz rem hsz
      have hrun : run (traceRec I) (.alloc (satMul (min (chunkLenOf sz) rem) sz) fun _ =>
            (Prog.replicateM (min (chunkLenOf sz) rem) item).bind fun xs =>
              (Impl.itemChunks sz item fuel (rem - min (chunkLenOf sz) rem)).bind fun ys => .pure (xs ++ ys)) (s, tr) =
          run (traceRec I) ((Prog.replicateM (min (chunkLenOf sz) rem) item).bind fun xs =>
              (Impl.itemChunks sz item fuel (rem - min (chunkLenOf sz) rem)).bind fun ys => .pure (xs ++ ys))
            (s, tr ++ [.alloc (satMul (min (chunkLenOf sz) rem) sz)]) := by
        simp only [run, traceRec, hI.onAlloc]
      rw [hrun, run_bind]
      obtain ⟨c1, q1, q2, q3⟩ := (ReqBnd.replicateM hitem (min (chunkLenOf sz) rem)) s
        (tr ++ [.alloc (satMul (min (chunkLenOf sz) rem) sz)])
      simp only [allocTotal_append, allocTotal, Nat.add_zero, Nat.mul_zero] at q2 q3
      rcases res_cases (run (traceRec I) (Prog.replicateM (min (chunkLenOf sz) rem) item)
          (s, tr ++ [.alloc (satMul (min (chunkLenOf sz) rem) sz)])) with ⟨xs, ⟨s1, t1⟩, e⟩ | ⟨⟨s1, t1⟩, e⟩ | ⟨⟨s1, t1⟩, e⟩
      · simp only [e] at q1 q2 q3 ⊢
        obtain ⟨qa, qb⟩ := q2 ⟨xs, rfl⟩
        have hcm : min (chunkLenOf sz) rem ≤ min (chunkLenOf sz) rem * m := Nat.le_mul_of_pos_right _ hm
        have hcc : min (chunkLenOf sz) rem * sz ≤ c1 * sz := Nat.mul_le_mul_right sz (by omega)
        obtain ⟨c2, g1, g2, g3⟩ := (ReqBnd.bind_pure (g := fun ys => xs ++ ys)
          (ih (rem - min (chunkLenOf sz) rem))) s1 t1
        have e1 : (R + sz) * (c1 + c2) = R * c1 + c1 * sz + (R + sz) * c2 := by
          rw [Nat.mul_add, Nat.add_mul, Nat.mul_comm sz c1]
        refine ⟨c1 + c2, by omega, ?_, by rw [e1]; omega⟩
        intro hok
        obtain ⟨r1, r2⟩ := g2 hok
        exact ⟨Nat.zero_le _, by rw [e1]; omega⟩
      · simp only [e] at q1 q2 q3 ⊢
        have e1 : (R + sz) * c1 = R * c1 + sz * c1 := Nat.add_mul _ _ _
        exact ⟨c1, q1, by rintro ⟨a, h⟩; simp at h, by rw [e1]; omega⟩
      · simp only [e] at q1 q2 q3 ⊢
        have e1 : (R + sz) * c1 = R * c1 + sz * c1 := Nat.add_mul _ _ _
        exact ⟨c1, q1, by rintro ⟨a, h⟩; simp at h, by rw [e1]; omega⟩

theorem ReqBnd.decodeItems {I : InputOps Bytes} (hI : PlainIn I) {sz : Nat} (hsz : sz ≤ maxPrealloc)
    {item : Prog Val} {m R A : Nat} (hitem : ReqBnd I item m R 0 A) (hm : 1 ≤ m) (len : Nat) :
    ReqBnd I (Impl.decodeItems sz len item) 0 (R + sz) 0 (A + maxPrealloc) := by
  unfold Impl.decodeItems
  refine ReqBnd.descend hI ?_
  have := ReqBnd.bind (ReqBnd.itemChunks hI hsz hitem hm len len)
    (f := fun xs => Prog.ascend fun _ => Prog.pure xs) (m2 := 0) (B2 := 0)
    (fun xs => ReqBnd.ascend hI ((ReqBnd.pure (I := I) xs).mono (Nat.le_refl 0) (Nat.zero_le _) (Nat.le_refl 0) (Nat.zero_le _)))
  simpa using this

/-- `decode_vec_with_len`: the bulk reader for primitive elements, the item loop otherwise. -/
theorem ReqBnd.decodeVecWithLen {I : InputOps Bytes} (hI : PlainIn I) {sz : Nat} (hsz : sz ≤ maxPrealloc) (t : Ty)
    {item : Prog Val} {m R A : Nat} (hitem : ReqBnd I item m R 0 A) (hm : 1 ≤ m) (len : Nat) :
    ReqBnd I (Impl.decodeVecWithLen sz t item len) 0 (R + elemSize sz t) 0 (A + maxPrealloc) := by
  unfold Impl.decodeVecWithLen
  split
  · next p =>
    have hp : 1 ≤ p.size := (prim_size_bounds p).1
    refine ReqBnd.bulk hI (by simp only [elemSize]; omega) fun b => ?_
    exact (ReqBnd.pure (I := I) _).mono (Nat.le_refl 0) (Nat.zero_le _) (Nat.le_refl 0) (Nat.zero_le _)
  · next hnp =>
    have he : elemSize sz t = sz := by
      cases t <;> first | rfl | exact absurd rfl (hnp _)
    rw [he]
    exact ReqBnd.decodeItems hI hsz hitem hm len

/-- One `from_iter` step: the node is requested only after its element has been decoded, and the
    element's bytes pay for it. -/
theorem ReqBnd.nodeItem {I : InputOps Bytes} (hI : PlainIn I) {node : Nat} {item : Prog Val} {m R B A : Nat}
    (hitem : ReqBnd I item m R B A) (hm : 1 ≤ m) :
    ReqBnd I (Impl.nodeItem node item) m (R + B + node) 0 (B + A) := by
  unfold Impl.nodeItem
  intro s tr
  rw [run_bind]
  obtain ⟨c, h1, h2, h3⟩ := hitem s tr
  have e1 : (R + B + node) * c = R * c + B * c + node * c := by rw [Nat.add_mul, Nat.add_mul]
  rcases res_cases (run (traceRec I) item (s, tr)) with ⟨x, ⟨s1, t1⟩, e⟩ | ⟨⟨s1, t1⟩, e⟩ | ⟨⟨s1, t1⟩, e⟩
  · simp only [e] at h1 h2 h3 ⊢
    obtain ⟨a1, a2⟩ := h2 ⟨x, rfl⟩
    have hrun : run (traceRec I) (.alloc node fun _ => Prog.pure x) (s1, t1) = (.ok x, (s1, t1 ++ [.alloc node])) := by
      simp only [run, traceRec, hI.onAlloc]
    rw [hrun]
    simp only [allocTotal_append, allocTotal, Nat.add_zero]
    have hB : B ≤ B * c := Nat.le_mul_of_pos_right B (by omega)
    have hN : node ≤ node * c := Nat.le_mul_of_pos_right node (by omega)
    exact ⟨c, h1, fun _ => ⟨a1, by rw [e1]; omega⟩, by rw [e1]; omega⟩
  · simp only [e] at h1 h2 h3 ⊢
    exact ⟨c, h1, by rintro ⟨a, h⟩; simp at h, by rw [e1]; omega⟩
  · simp only [e] at h1 h2 h3 ⊢
    exact ⟨c, h1, by rintro ⟨a, h⟩; simp at h, by rw [e1]; omega⟩


/-! ### the request bound of every decoder -/

theorem ReqBnd.weaken0 {I : InputOps Bytes} {α : Type} {p : Prog α} {m R B A R' B' A' : Nat}
    (h : ReqBnd I p m R B A) (hR : R ≤ R') (hB : B ≤ B') (hA : B + A ≤ B' + A') : ReqBnd I p 0 R' B' A' :=
  h.mono (Nat.zero_le _) hR hB hA

theorem ReqBnd.pure' {I : InputOps Bytes} {α : Type} (a : α) (R B A : Nat) : ReqBnd I (.pure a) 0 R B A :=
  (ReqBnd.pure (I := I) a).mono (Nat.le_refl 0) (Nat.zero_le _) (Nat.zero_le _) (Nat.zero_le _)

theorem reqBnd_seqVec {I : InputOps Bytes} (hI : PlainIn I) {sz : Nat} (hsz : sz ≤ maxPrealloc) (t : Ty)
    {item : Prog Val} {m R A : Nat} (hitem : ReqBnd I item m R 0 A) (hm : 1 ≤ m) (g : List Val → Val) :
    ReqBnd I ((compactDec 4).bind fun len => (decodeVecWithLen sz t item len).bind fun vs => Prog.pure (g vs))
      1 (R + elemSize sz t) 0 (A + maxPrealloc) := by
  have h1 : ReqBnd I (compactDec 4) 1 (R + elemSize sz t) 0 (A + maxPrealloc) :=
    (reqBnd_compactDec hI 4).mono (Nat.le_refl 1) (Nat.zero_le _) (Nat.le_refl 0) (Nat.zero_le _)
  have h2 : ∀ len, ReqBnd I ((decodeVecWithLen sz t item len).bind fun vs => Prog.pure (g vs))
      0 (R + elemSize sz t) 0 (A + maxPrealloc) :=
    fun len => ReqBnd.bind_pure (ReqBnd.decodeVecWithLen hI hsz t hitem hm len)
  exact ReqBnd.bind h1 h2

theorem reqBnd_seqNode {I : InputOps Bytes} (hI : PlainIn I) {item : Prog Val} {m R A : Nat}
    (hitem : ReqBnd I item m R 0 A) (g : List Val → Val) :
    ReqBnd I ((compactDec 4).bind fun len => Prog.descend fun _ =>
        (Prog.replicateM len item).bind fun vs => Prog.ascend fun _ => Prog.pure (g vs)) 1 R 0 A := by
  have h1 : ReqBnd I (compactDec 4) 1 R 0 A :=
    (reqBnd_compactDec hI 4).mono (Nat.le_refl 1) (Nat.zero_le _) (Nat.le_refl 0) (Nat.zero_le _)
  have h2 : ∀ len, ReqBnd I (Prog.descend fun _ =>
      (Prog.replicateM len item).bind fun vs => Prog.ascend fun _ => Prog.pure (g vs)) 0 R 0 A := by
    intro len
    refine ReqBnd.descend hI ?_
    have h3 : ReqBnd I (Prog.replicateM len item) (len * m) R (len * 0) A := ReqBnd.replicateM hitem len
    have h4 : ∀ vs, ReqBnd I (Prog.ascend fun _ => Prog.pure (g vs)) 0 R 0 A :=
      fun vs => ReqBnd.ascend hI (ReqBnd.pure' _ _ _ _)
    exact (ReqBnd.bind h3 h4).mono (Nat.zero_le _) (Nat.le_refl _) (by simp) (by simp)
  exact ReqBnd.bind h1 h2

mutual
theorem reqBnd_decodeR {I : InputOps Bytes} (hI : PlainIn I) : ∀ ty : Ty, productive ty = true → layoutOk ty = true →
    ReqBnd I (decodeR ty) (minLen ty) (reqRatio ty) (baseMem ty) (reqAllow ty)
  | .unit, _, _ => ReqBnd.pure _
  | .bool, _, _ => by
    simp only [decodeR, minLen, reqRatio, baseMem, reqAllow]
    exact ReqBnd.readByte hI fun b => ReqBnd.ite (ReqBnd.pure _) (ReqBnd.ite (ReqBnd.pure _) (ReqBnd.fail _ _ _ _))
  | .optionBool, _, _ => by
    simp only [decodeR, minLen, reqRatio, baseMem, reqAllow]
    exact ReqBnd.readByte hI fun b => ReqBnd.ite (ReqBnd.pure _) (ReqBnd.ite (ReqBnd.pure _)
      (ReqBnd.ite (ReqBnd.pure _) (ReqBnd.fail _ _ _ _)))
  | .prim p, _, _ => by
    simp only [decodeR, minLen, reqRatio, baseMem, reqAllow]
    exact reqBnd_decodePrim hI p
  | .nonZero p, _, _ => by
    simp only [decodeR, minLen, reqRatio, baseMem, reqAllow]
    have := ReqBnd.bind (reqBnd_decodePrim hI p) (f := fun v => if primIsZero v then Prog.fail else Prog.pure v)
      (m2 := 0) (B2 := 0) (fun v => ReqBnd.ite (ReqBnd.fail _ _ _ _) (ReqBnd.pure _))
    simpa using this
  | .compact w, _, _ => by
    simp only [decodeR, minLen, reqRatio, baseMem, reqAllow]
    exact ReqBnd.bind_pure (reqBnd_compactDec hI w)
  | .duration, _, _ => by
    simp only [decodeR, minLen, reqRatio, baseMem, reqAllow]
    have := ReqBnd.read hI (n := 8) (k := fun s => Prog.read 4 fun n =>
        if fromLe n ≥ 1000000000 then Prog.fail else Prog.pure (Val.seq [.nat (fromLe s), .nat (fromLe n)]))
      (m := 4) (R := 0) (B := 0) (A := 0)
      (fun s => by
        have := ReqBnd.read hI (n := 4) (k := fun n =>
            if fromLe n ≥ 1000000000 then Prog.fail else Prog.pure (Val.seq [.nat (fromLe s), .nat (fromLe n)]))
          (m := 0) (R := 0) (B := 0) (A := 0) (fun n => ReqBnd.ite (ReqBnd.fail _ _ _ _) (ReqBnd.pure _))
        simpa using this)
    exact this
  | .option t, hp, hl => by
    have ih := reqBnd_decodeR hI t (by simpa [productive] using hp) (by simpa [layoutOk] using hl)
    simp only [decodeR, minLen, reqRatio, baseMem, reqAllow]
    have := ReqBnd.readByte hI (k := fun b : UInt8 =>
        if b.toNat = 0 then Prog.pure Val.none
        else if b.toNat = 1 then (decodeR t).bind fun v => Prog.pure (Val.some v) else Prog.fail)
      (m := 0) (R := reqRatio t) (B := baseMem t) (A := reqAllow t)
      (fun b => ReqBnd.ite (ReqBnd.pure' _ _ _ _)
        (ReqBnd.ite ((ReqBnd.bind_pure ih).mono (Nat.zero_le _) (Nat.le_refl _) (Nat.le_refl _) (Nat.le_refl _))
          (ReqBnd.fail _ _ _ _)))
    simpa using this
  | .result t e, hp, hl => by
    simp only [productive, Bool.and_eq_true] at hp
    simp only [layoutOk, Bool.and_eq_true] at hl
    have ih1 := reqBnd_decodeR hI t hp.1 hl.1
    have ih2 := reqBnd_decodeR hI e hp.2 hl.2
    simp only [decodeR, minLen, reqRatio, baseMem, reqAllow]
    have := ReqBnd.readByte hI (k := fun b : UInt8 =>
        if b.toNat = 0 then (decodeR t).bind fun v => Prog.pure (Val.ok v)
        else if b.toNat = 1 then (decodeR e).bind fun v => Prog.pure (Val.err v) else Prog.fail)
      (m := 0) (R := reqRatio t + reqRatio e) (B := baseMem t + baseMem e) (A := max (reqAllow t) (reqAllow e))
      (fun b => ReqBnd.ite
        ((ReqBnd.bind_pure ih1).mono (Nat.zero_le _) (by omega) (by omega) (by omega))
        (ReqBnd.ite ((ReqBnd.bind_pure ih2).mono (Nat.zero_le _) (by omega) (by omega) (by omega))
          (ReqBnd.fail _ _ _ _)))
    simpa using this
  | .tuple ts, hp, hl => by
    simp only [decodeR, minLen, reqRatio, baseMem, reqAllow]
    exact ReqBnd.bind_pure (reqBnd_decodeListR hI ts (by simpa [productive] using hp) (by simpa [layoutOk] using hl))
  | .array n t, hp, hl => by
    have ih := reqBnd_decodeR hI t (by simpa [productive] using hp) (by simpa [layoutOk] using hl)
    unfold decodeR
    split
    · next p =>
      simp only [minLen, reqRatio, baseMem, reqAllow]
      have := ReqBnd.read hI (n := n * p.size) (k := fun bs => Prog.pure (Val.seq (primElems p n bs)))
        (m := 0) (R := 0) (B := 0) (A := 0) (fun bs => ReqBnd.pure _)
      simpa using this
    · simp only [minLen, reqRatio, baseMem, reqAllow]
      exact ReqBnd.bind_pure (ReqBnd.replicateM ih n)
  | .garray n t, hp, hl => by
    have ih := reqBnd_decodeR hI t (by simpa [productive] using hp) (by simpa [layoutOk] using hl)
    simp only [decodeR, minLen, reqRatio, baseMem, reqAllow]
    exact ReqBnd.bind_pure (ReqBnd.replicateM ih n)
  | .seq k sz t, hp, hl => by
    simp only [productive, Bool.and_eq_true, decide_eq_true_eq] at hp
    simp only [layoutOk, Bool.and_eq_true] at hl
    have ih := reqBnd_decodeR hI t hp.2 hl.1
    have hitem := ih.productive hp.1
    have hnode := ReqBnd.nodeItem hI (node := sz) ih hp.1
    cases k with
    | vec =>
      have hsz : sz ≤ maxPrealloc := by have := hl.2; simp only [decide_eq_true_eq] at this; exact this
      simp only [decodeR, minLen, reqRatio, baseMem, reqAllow]
      exact (reqBnd_seqVec hI hsz t hitem hp.1 Val.seq).mono (Nat.le_refl 1) (by omega) (Nat.le_refl 0) (by omega)
    | deque =>
      have hsz : sz ≤ maxPrealloc := by have := hl.2; simp only [decide_eq_true_eq] at this; exact this
      simp only [decodeR, minLen, reqRatio, baseMem, reqAllow]
      exact (reqBnd_seqVec hI hsz t hitem hp.1 Val.seq).mono (Nat.le_refl 1) (by omega) (Nat.le_refl 0) (by omega)
    | heap =>
      have hsz : sz ≤ maxPrealloc := by have := hl.2; simp only [decide_eq_true_eq] at this; exact this
      simp only [decodeR, minLen, reqRatio, baseMem, reqAllow]
      exact (reqBnd_seqVec hI hsz t hitem hp.1 (fun vs => Val.seq (sortVals Val.cmp vs))).mono
        (Nat.le_refl 1) (by omega) (Nat.le_refl 0) (by omega)
    | list =>
      simp only [decodeR, minLen, reqRatio, baseMem, reqAllow]
      exact (reqBnd_seqNode hI hnode Val.seq).mono (Nat.le_refl 1) (by omega) (Nat.le_refl 0) (by omega)
    | bset =>
      simp only [decodeR, minLen, reqRatio, baseMem, reqAllow]
      exact (reqBnd_seqNode hI hnode (fun vs => Val.seq (fromIter Val.cmp id vs))).mono
        (Nat.le_refl 1) (by omega) (Nat.le_refl 0) (by omega)
    | bmap =>
      simp only [decodeR, minLen, reqRatio, baseMem, reqAllow]
      exact (reqBnd_seqNode hI hnode (fun vs => Val.seq (fromIter Val.cmp entryKey vs))).mono
        (Nat.le_refl 1) (by omega) (Nat.le_refl 0) (by omega)
  | .str, _, _ => by
    simp only [decodeR, minLen, reqRatio, baseMem, reqAllow]
    have := ReqBnd.bind ((reqBnd_compactDec hI 4).mono (Nat.le_refl 1) (Nat.zero_le 1) (Nat.le_refl 0) (Nat.zero_le (0 + maxPrealloc)))
      (f := fun len => Prog.bulk 1 len fun bs => if utf8Valid bs then Prog.pure (Val.bytes bs) else Prog.fail)
      (fun len => ReqBnd.bulk hI (Nat.le_refl 1) (m := 0) (B := 0) (A := 0)
        fun bs => ReqBnd.ite (ReqBnd.pure' _ _ _ _) (ReqBnd.fail _ _ _ _))
    simpa using this
  | .bytes, _, _ => by
    simp only [decodeR, minLen, reqRatio, baseMem, reqAllow]
    have := ReqBnd.bind ((reqBnd_compactDec hI 4).mono (Nat.le_refl 1) (Nat.zero_le 1) (Nat.le_refl 0) (Nat.zero_le (0 + maxPrealloc)))
      (f := fun len => Prog.rawBytes len fun bs => Prog.pure (Val.bytes bs))
      (fun len => ReqBnd.rawBytes hI (Nat.le_refl 1) (m := 0) (B := 0) (A := 0) fun bs => ReqBnd.pure' _ _ _ _)
    simpa using this
  | .box sz t, hp, hl => by
    have ih := reqBnd_decodeR hI t (by simpa [productive] using hp) (by simpa [layoutOk] using hl)
    simp only [decodeR, minLen, reqRatio, baseMem, reqAllow]
    refine ReqBnd.descend hI ?_
    have := ReqBnd.alloc hI (n := sz) (k := fun _ => (decodeR t).bind fun v => Prog.ascend fun _ => Prog.pure v)
      (ReqBnd.bind ih (f := fun v => Prog.ascend fun _ => Prog.pure v) (m2 := 0) (B2 := 0)
        (fun v => ReqBnd.ascend hI (ReqBnd.pure' _ _ _ _)))
    exact this.mono (by omega) (Nat.le_refl _) (by omega) (by omega)
  | .wrap t, hp, hl => by
    have ih := reqBnd_decodeR hI t (by simpa [productive] using hp) (by simpa [layoutOk] using hl)
    simp only [decodeR, minLen, reqRatio, baseMem, reqAllow]
    refine ReqBnd.descend hI ?_
    have := ReqBnd.bind ih (f := fun v => Prog.ascend fun _ => Prog.pure v) (m2 := 0) (B2 := 0)
      (fun v => ReqBnd.ascend hI (ReqBnd.pure' _ _ _ _))
    exact this.mono (by omega) (Nat.le_refl _) (by omega) (by omega)
  | .range t, hp, hl => by
    have ih := reqBnd_decodeR hI t (by simpa [productive] using hp) (by simpa [layoutOk] using hl)
    simp only [decodeR, minLen, reqRatio, baseMem, reqAllow]
    have := ReqBnd.bind ih (f := fun a => (decodeR t).bind fun b => Prog.pure (Val.seq [a, b]))
      (fun a => ReqBnd.bind_pure ih)
    exact this
  | .bitseq store msb, _, _ => by
    simp only [decodeR, minLen, reqRatio, baseMem, reqAllow]
    have := ReqBnd.bind ((reqBnd_compactDec hI 4).mono (Nat.le_refl 1) (Nat.zero_le 1) (Nat.le_refl 0) (Nat.zero_le (0 + maxPrealloc)))
      (f := fun bits => if bits > maxBits then Prog.fail else
        Prog.bulk store.size (elts (8 * store.size) bits) fun bs =>
          if bits ≤ (((chunksOf store.size (elts (8 * store.size) bits) bs).map fun e =>
              elemToBits (8 * store.size) msb (fromLe e)).flatten).length
          then Prog.pure (Val.bits ((((chunksOf store.size (elts (8 * store.size) bits) bs).map fun e =>
              elemToBits (8 * store.size) msb (fromLe e)).flatten).take bits)) else Prog.panic)
      (fun bits => ReqBnd.ite (ReqBnd.fail _ _ _ _) (ReqBnd.bulk hI (Nat.le_refl 1) (m := 0) (B := 0) (A := 0)
        fun bs => ReqBnd.ite (ReqBnd.pure' _ _ _ _) (ReqBnd.panic _ _ _ _)))
    simpa using this
  | .enum idxs ts, hp, hl => by
    simp only [decodeR, minLen, reqRatio, baseMem, reqAllow]
    have := ReqBnd.readByte hI (k := fun b : UInt8 => decodeVariantR idxs ts b.toNat)
      (fun b => reqBnd_decodeVariantR hI idxs ts b.toNat (by simpa [productive] using hp) (by simpa [layoutOk] using hl))
    simpa using this

theorem reqBnd_decodeListR {I : InputOps Bytes} (hI : PlainIn I) : ∀ ts : List Ty, productive.productiveList ts = true →
    layoutOk.layoutOkList ts = true →
    ReqBnd I (decodeListR ts) (minLen.minLenList ts) (reqRatio.ratioList ts) (baseMem.baseList ts) (reqAllow.allowList ts)
  | [], _, _ => ReqBnd.pure _
  | t :: ts, hp, hl => by
    simp only [productive.productiveList, Bool.and_eq_true] at hp
    simp only [layoutOk.layoutOkList, Bool.and_eq_true] at hl
    have ih1 := reqBnd_decodeR hI t hp.1 hl.1
    have ih2 := reqBnd_decodeListR hI ts hp.2 hl.2
    simp only [decodeListR, minLen.minLenList, reqRatio.ratioList, baseMem.baseList, reqAllow.allowList]
    have := ReqBnd.bind
      (ih1.mono (Nat.le_refl _) (Nat.le_add_right (reqRatio t) (reqRatio.ratioList ts)) (Nat.le_refl _)
        (A' := max (reqAllow t) (reqAllow.allowList ts)) (by omega))
      (f := fun v => (decodeListR ts).bind fun vs => Prog.pure (v :: vs))
      (fun v => ReqBnd.bind_pure (ih2.mono (Nat.le_refl _) (Nat.le_add_left _ _) (Nat.le_refl _)
        (A' := max (reqAllow t) (reqAllow.allowList ts)) (by omega)))
    exact this

theorem reqBnd_decodeVariantR {I : InputOps Bytes} (hI : PlainIn I) : ∀ (idxs : List Nat) (ts : List Ty) (b : Nat),
    productive.productiveList ts = true → layoutOk.layoutOkList ts = true →
    ReqBnd I (decodeVariantR idxs ts b) 0 (reqRatio.ratioList ts) (baseMem.baseList ts) (reqAllow.allowList ts)
  | [], _, _, _, _ => by simp only [decodeVariantR]; exact ReqBnd.fail _ _ _ _
  | _ :: _, [], _, _, _ => by simp only [decodeVariantR]; exact ReqBnd.fail _ _ _ _
  | i :: is, t :: ts, b, hp, hl => by
    simp only [productive.productiveList, Bool.and_eq_true] at hp
    simp only [layoutOk.layoutOkList, Bool.and_eq_true] at hl
    have ih1 := reqBnd_decodeR hI t hp.1 hl.1
    have ih2 := reqBnd_decodeVariantR hI is ts b hp.2 hl.2
    simp only [decodeVariantR, reqRatio.ratioList, baseMem.baseList, reqAllow.allowList]
    exact ReqBnd.ite
      ((ReqBnd.bind_pure ih1).mono (Nat.zero_le _) (by omega) (by omega) (by omega))
      (ih2.mono (Nat.le_refl 0) (by omega) (by omega) (by omega))
end

end Scale
