/-
  Proofs/Prim.lean — primitives: `from_le_bytes ∘ to_le_bytes = id`, bulk buffers split back into
  their elements.
-/
import Scale.Wf
import Proofs.Le
namespace Scale

theorem primBytes_length {p : Prim} {v : Val} (h : primWf p v = true) : (primBytes p v).length = p.size := by
  cases v <;> simp [primWf] at h <;> simp [primBytes]

theorem fromTwos_toTwos {w : Nat} (hw : w = 1 ∨ w = 2 ∨ w = 4 ∨ w = 8 ∨ w = 16) {i : Int}
    (h1 : -(2 : Int) ^ (8 * w - 1) ≤ i) (h2 : i < (2 : Int) ^ (8 * w - 1)) :
    fromTwos w (toTwos w i) = i := by
  unfold fromTwos toTwos
  rcases hw with rfl | rfl | rfl | rfl | rfl <;> simp at h1 h2 ⊢ <;> omega

theorem toTwos_lt {w : Nat} (hw : w = 1 ∨ w = 2 ∨ w = 4 ∨ w = 8 ∨ w = 16) (i : Int) :
    toTwos w i < 256 ^ w := by
  unfold toTwos
  rcases hw with rfl | rfl | rfl | rfl | rfl <;> simp <;> omega

theorem prim_size_cases (p : Prim) : p.size = 1 ∨ p.size = 2 ∨ p.size = 4 ∨ p.size = 8 ∨ p.size = 16 := by
  cases p <;> simp [Prim.size]

theorem primVal_primBytes {p : Prim} {v : Val} (h : primWf p v = true) : primVal p (primBytes p v) = v := by
  cases v <;> simp [primWf] at h
  case nat n =>
    have : n < 256 ^ p.size := by rw [pow256]; exact h.2
    simp [primVal, primBytes, h.1, fromLe_leBytes_of_lt this]
  case int i =>
    have hs := prim_size_cases p
    simp only [primVal, primBytes, h.1.1, if_true, fromLe_leBytes_of_lt (toTwos_lt hs i)]
    rw [fromTwos_toTwos hs h.1.2 h.2]

theorem chunksOf_flatten {size : Nat} (cs : List Bytes) (h : ∀ c ∈ cs, c.length = size) (rest : Bytes) :
    chunksOf size cs.length (cs.flatten ++ rest) = cs := by
  induction cs with
  | nil => rfl
  | cons c cs ih =>
    have hc := h c (List.mem_cons_self)
    simp only [List.length_cons, chunksOf, List.flatten_cons, List.append_assoc]
    rw [List.take_left' hc, List.drop_left' hc, ih (fun c' hc' => h c' (List.mem_cons_of_mem _ hc'))]

theorem flatten_length_const {size : Nat} (cs : List Bytes) (h : ∀ c ∈ cs, c.length = size) :
    cs.flatten.length = cs.length * size := by
  induction cs with
  | nil => simp
  | cons c cs ih =>
    simp only [List.flatten_cons, List.length_append, List.length_cons, h c (List.mem_cons_self),
      ih (fun c' hc' => h c' (List.mem_cons_of_mem _ hc'))]
    rw [Nat.succ_mul]; omega

end Scale
