/-
  Proofs/CompactEnc.lean — the five transliterated compact encoders refine `Spec.compact`.
-/
import Scale.Compact
import Proofs.Le
namespace Scale

theorem shl2 (x : Nat) : x <<< 2 = 4 * x := by rw [Nat.shiftLeft_eq]; omega

theorem or_tag (x b : Nat) (hb : b < 4) : (4 * x) ||| b = 4 * x + b := by
  have := Nat.two_pow_add_eq_or_of_lt (i := 2) (b := b) (by omega) x
  simpa using this.symm

theorem byteLen_ge4 {x : Nat} (h : ¬ x < 2 ^ 30) : 4 ≤ byteLen x := by
  rcases Nat.lt_or_ge (byteLen x) 4 with h1 | h1
  · have := (byteLen_le_iff x 3).mp (by omega)
    omega
  · exact h1

theorem byteLen_le_of_lt {x w : Nat} (h : x < 2 ^ (8 * w)) : byteLen x ≤ w := by
  rw [byteLen_le_iff, pow256]; exact h

theorem compactBigArm_eq {bits x : Nat} (h8 : bits % 8 = 0) (hb : bits ≤ 128) (hx : x < 2 ^ bits)
    (hlo : ¬ x < 2 ^ 30) :
    Impl.compactBigArm bits x = .ok (Spec.compact x) := by
  have hn := bytesNeeded_eq h8 hx
  have h4 := byteLen_ge4 hlo
  have hle : byteLen x ≤ 16 := by
    have : byteLen x ≤ bits / 8 := by
      apply byteLen_le_of_lt
      have : 8 * (bits / 8) = bits := by omega
      rw [this]; exact hx
    omega
  unfold Impl.compactBigArm Impl.leadingZeros
  simp only [hn]
  have hz : x / 256 ^ byteLen x = 0 := Nat.div_eq_of_lt (lt_pow_byteLen x)
  have h14 : ¬ x < 2 ^ 14 := by omega
  have h6 : ¬ x < 2 ^ 6 := by omega
  simp only [hz, ne_eq, not_true_eq_false, if_false, show ¬ byteLen x < 4 by omega, Spec.compact, h6,
    h14, hlo, shl2]
  congr 3
  omega

theorem compactEncodeTo_eq_spec {w x : Nat} (hw : w = 1 ∨ w = 2 ∨ w = 4 ∨ w = 8 ∨ w = 16)
    (hx : x < 2 ^ (8 * w)) : Impl.compactEncodeTo w x = .ok (Spec.compact x) := by
  rcases hw with rfl | rfl | rfl | rfl | rfl
  · -- u8
    unfold Impl.compactEncodeTo Spec.compact
    simp only [shl2]
    by_cases h1 : x ≤ 63
    · have : x < 2 ^ 6 := by omega
      simp only [h1, this, if_true, leBytes]
    · have a : ¬ x < 2 ^ 6 := by omega
      have b : x < 2 ^ 14 := by omega
      have c : 4 * x % 65536 = 4 * x := by omega
      simp only [h1, a, b, if_false, if_true, c, or_tag x 1 (by omega)]
  · -- u16
    unfold Impl.compactEncodeTo Spec.compact
    simp only [shl2]
    by_cases h1 : x ≤ 63
    · have : x < 2 ^ 6 := by omega
      simp only [h1, this, if_true, leBytes]
      have e : 4 * (x % 256) % 256 = 4 * x % 256 := by omega
      rw [e]
    · have a : ¬ x < 2 ^ 6 := by omega
      by_cases h2 : x ≤ 16383
      · have b : x < 2 ^ 14 := by omega
        have c : 4 * x % 65536 = 4 * x := by omega
        simp only [h1, h2, a, b, if_false, if_true, c, or_tag x 1 (by omega)]
      · have b : ¬ x < 2 ^ 14 := by omega
        have d : x < 2 ^ 30 := by omega
        have c : 4 * x % 2 ^ 32 = 4 * x := by omega
        simp only [h1, h2, a, b, d, if_false, if_true, c, or_tag x 2 (by omega)]
  · -- u32
    unfold Impl.compactEncodeTo Spec.compact
    simp only [shl2]
    by_cases h1 : x ≤ 63
    · have : x < 2 ^ 6 := by omega
      simp only [h1, this, if_true, leBytes]
      have e : 4 * (x % 256) % 256 = 4 * x % 256 := by omega
      rw [e]
    · have a : ¬ x < 2 ^ 6 := by omega
      by_cases h2 : x ≤ 16383
      · have b : x < 2 ^ 14 := by omega
        have c : 4 * (x % 65536) % 65536 = 4 * x := by omega
        simp only [h1, h2, a, b, if_false, if_true, c, or_tag x 1 (by omega)]
      · have b : ¬ x < 2 ^ 14 := by omega
        by_cases h3 : x ≤ 1073741823
        · have d : x < 2 ^ 30 := by omega
          have c : 4 * x % 2 ^ 32 = 4 * x := by omega
          simp only [h1, h2, h3, a, b, d, if_false, if_true, c, or_tag x 2 (by omega)]
        · have d : ¬ x < 2 ^ 30 := by omega
          have e : byteLen x = 4 := by
            have := byteLen_ge4 d
            have := byteLen_le_of_lt (w := 4) hx
            omega
          simp only [h1, h2, h3, a, b, d, if_false, e]
  · -- u64
    unfold Impl.compactEncodeTo
    simp only [shl2]
    by_cases h1 : x ≤ 63
    · have : x < 2 ^ 6 := by omega
      simp only [h1, this, if_true, leBytes, Spec.compact]
      have e : 4 * (x % 256) % 256 = 4 * x % 256 := by omega
      rw [e]
    · have a : ¬ x < 2 ^ 6 := by omega
      by_cases h2 : x ≤ 16383
      · have b : x < 2 ^ 14 := by omega
        have c : 4 * (x % 65536) % 65536 = 4 * x := by omega
        simp only [h1, h2, a, b, if_false, if_true, c, or_tag x 1 (by omega), Spec.compact]
      · have b : ¬ x < 2 ^ 14 := by omega
        by_cases h3 : x ≤ 1073741823
        · have d : x < 2 ^ 30 := by omega
          have c : 4 * (x % 2 ^ 32) % 2 ^ 32 = 4 * x := by omega
          simp only [h1, h2, h3, a, b, d, if_false, if_true, c, or_tag x 2 (by omega), Spec.compact]
        · have d : ¬ x < 2 ^ 30 := by omega
          simp only [h1, h2, h3, if_false]
          exact compactBigArm_eq (by decide) (by decide) hx d
  · -- u128
    unfold Impl.compactEncodeTo
    simp only [shl2]
    by_cases h1 : x ≤ 63
    · have : x < 2 ^ 6 := by omega
      simp only [h1, this, if_true, leBytes, Spec.compact]
      have e : 4 * (x % 256) % 256 = 4 * x % 256 := by omega
      rw [e]
    · have a : ¬ x < 2 ^ 6 := by omega
      by_cases h2 : x ≤ 16383
      · have b : x < 2 ^ 14 := by omega
        have c : 4 * (x % 65536) % 65536 = 4 * x := by omega
        simp only [h1, h2, a, b, if_false, if_true, c, or_tag x 1 (by omega), Spec.compact]
      · have b : ¬ x < 2 ^ 14 := by omega
        by_cases h3 : x ≤ 1073741823
        · have d : x < 2 ^ 30 := by omega
          have c : 4 * (x % 2 ^ 32) % 2 ^ 32 = 4 * x := by omega
          simp only [h1, h2, h3, a, b, d, if_false, if_true, c, or_tag x 2 (by omega), Spec.compact]
        · have d : ¬ x < 2 ^ 30 := by omega
          simp only [h1, h2, h3, if_false]
          exact compactBigArm_eq (by decide) (by decide) hx d

theorem spec_compact_length (x : Nat) : (Spec.compact x).length = Spec.compactLen x := by
  unfold Spec.compact Spec.compactLen
  split
  · simp
  · split
    · simp
    · split
      · simp
      · simp; omega

theorem compactLen_eq_spec {w x : Nat} (hw : w = 1 ∨ w = 2 ∨ w = 4 ∨ w = 8 ∨ w = 16)
    (hx : x < 2 ^ (8 * w)) : Impl.compactLen w x = Spec.compactLen x := by
  rcases hw with rfl | rfl | rfl | rfl | rfl
  · unfold Impl.compactLen Spec.compactLen
    by_cases h1 : x ≤ 63
    · have : x < 2 ^ 6 := by omega
      simp [h1, this]
    · have a : ¬ x < 2 ^ 6 := by omega
      have b : x < 2 ^ 14 := by omega
      simp [h1, a, b]
  · unfold Impl.compactLen Spec.compactLen
    by_cases h1 : x ≤ 63
    · have : x < 2 ^ 6 := by omega
      simp [h1, this]
    · have a : ¬ x < 2 ^ 6 := by omega
      by_cases h2 : x ≤ 16383
      · have b : x < 2 ^ 14 := by omega
        simp [h1, h2, a, b]
      · have b : ¬ x < 2 ^ 14 := by omega
        have d : x < 2 ^ 30 := by omega
        simp [h1, h2, a, b, d]
  · unfold Impl.compactLen Spec.compactLen
    by_cases h1 : x ≤ 63
    · have : x < 2 ^ 6 := by omega
      simp [h1, this]
    · have a : ¬ x < 2 ^ 6 := by omega
      by_cases h2 : x ≤ 16383
      · have b : x < 2 ^ 14 := by omega
        simp [h1, h2, a, b]
      · have b : ¬ x < 2 ^ 14 := by omega
        by_cases h3 : x ≤ 1073741823
        · have d : x < 2 ^ 30 := by omega
          simp [h1, h2, h3, a, b, d]
        · have d : ¬ x < 2 ^ 30 := by omega
          have e : byteLen x = 4 := by
            have := byteLen_ge4 d
            have := byteLen_le_of_lt (w := 4) hx
            omega
          simp [h1, h2, h3, a, b, d, e]
  · unfold Impl.compactLen Spec.compactLen Impl.leadingZeros
    by_cases h1 : x ≤ 63
    · have : x < 2 ^ 6 := by omega
      simp [h1, this]
    · have a : ¬ x < 2 ^ 6 := by omega
      by_cases h2 : x ≤ 16383
      · have b : x < 2 ^ 14 := by omega
        simp [h1, h2, a, b]
      · have b : ¬ x < 2 ^ 14 := by omega
        by_cases h3 : x ≤ 1073741823
        · have d : x < 2 ^ 30 := by omega
          simp [h1, h2, h3, a, b, d]
        · have d : ¬ x < 2 ^ 30 := by omega
          have e := bytesNeeded_eq (bits := 64) (by decide) hx
          simp only [h1, h2, h3, a, b, d, if_false]
          omega
  · unfold Impl.compactLen Spec.compactLen Impl.leadingZeros
    by_cases h1 : x ≤ 63
    · have : x < 2 ^ 6 := by omega
      simp [h1, this]
    · have a : ¬ x < 2 ^ 6 := by omega
      by_cases h2 : x ≤ 16383
      · have b : x < 2 ^ 14 := by omega
        simp [h1, h2, a, b]
      · have b : ¬ x < 2 ^ 14 := by omega
        by_cases h3 : x ≤ 1073741823
        · have d : x < 2 ^ 30 := by omega
          simp [h1, h2, h3, a, b, d]
        · have d : ¬ x < 2 ^ 30 := by omega
          have e := bytesNeeded_eq (bits := 128) (by decide) hx
          simp only [h1, h2, h3, a, b, d, if_false]
          omega

theorem spec_compactLen_le_cap {w x : Nat} (hw : w = 1 ∨ w = 2 ∨ w = 4 ∨ w = 8 ∨ w = 16)
    (hx : x < 2 ^ (8 * w)) : Spec.compactLen x ≤ Impl.compactCap w := by
  have hb := byteLen_le_of_lt hx
  unfold Spec.compactLen
  rcases hw with rfl | rfl | rfl | rfl | rfl <;> simp only [Impl.compactCap] <;>
    (repeat' split) <;> omega

end Scale
