/-
  Proofs/Le.lean — helper lemmas about little-endian byte strings, bit/byte lengths.
-/
import Scale.Basic
namespace Scale

@[simp] theorem leBytes_length (n x : Nat) : (leBytes n x).length = n := by
  induction n generalizing x with
  | zero => rfl
  | succ n ih => simp [leBytes, ih]

theorem fromLe_lt (bs : Bytes) : fromLe bs < 256 ^ bs.length := by
  induction bs with
  | nil => simp [fromLe]
  | cons b bs ih =>
    have hb := b.toNat_lt
    simp only [fromLe, List.length_cons, Nat.pow_succ]
    omega

theorem fromLe_leBytes (n x : Nat) : fromLe (leBytes n x) = x % 256 ^ n := by
  induction n generalizing x with
  | zero => simp [leBytes, fromLe, Nat.mod_one]
  | succ n ih =>
    simp only [leBytes, fromLe, ih, UInt8.toNat_ofNat']
    have h1 : x % 256 ^ (n + 1) = x % 256 + 256 * (x / 256 % 256 ^ n) := by
      rw [Nat.pow_succ, Nat.mul_comm (256 ^ n) 256, Nat.mod_mul]
    have h2 : x % 256 % 2 ^ 8 = x % 256 := by omega
    omega

theorem fromLe_leBytes_of_lt {n x : Nat} (h : x < 256 ^ n) : fromLe (leBytes n x) = x := by
  rw [fromLe_leBytes, Nat.mod_eq_of_lt h]

theorem leBytes_fromLe (bs : Bytes) : leBytes bs.length (fromLe bs) = bs := by
  induction bs with
  | nil => rfl
  | cons b bs ih =>
    have hb := b.toNat_lt
    simp only [List.length_cons, leBytes, fromLe]
    have h1 : (b.toNat + 256 * fromLe bs) % 256 = b.toNat := by omega
    have h2 : (b.toNat + 256 * fromLe bs) / 256 = fromLe bs := by omega
    rw [h1, h2, ih]
    simp

theorem leBytes_fromLe' {n : Nat} {bs : Bytes} (h : bs.length = n) : leBytes n (fromLe bs) = bs := by
  subst h; exact leBytes_fromLe bs

theorem leBytes_inj {n x y : Nat} (hx : x < 256 ^ n) (hy : y < 256 ^ n)
    (h : leBytes n x = leBytes n y) : x = y := by
  have := congrArg fromLe h
  rwa [fromLe_leBytes_of_lt hx, fromLe_leBytes_of_lt hy] at this

theorem leBytes_mod (n x : Nat) : leBytes n (x % 256 ^ n) = leBytes n x := by
  have h : fromLe (leBytes n (x % 256 ^ n)) = fromLe (leBytes n x) := by
    rw [fromLe_leBytes, fromLe_leBytes, Nat.mod_mod]
  have := congrArg (leBytes n) h
  rwa [leBytes_fromLe' (leBytes_length _ _), leBytes_fromLe' (leBytes_length _ _)] at this

theorem bitLen_le_iff (x n : Nat) : bitLen x ≤ n ↔ x < 2 ^ n := by
  unfold bitLen
  split
  · next h => subst h; simp [Nat.two_pow_pos]
  · next h =>
    have := @Nat.log2_lt x n h
    omega

theorem pow256 (k : Nat) : 256 ^ k = 2 ^ (8 * k) := by
  rw [show (256 : Nat) = 2 ^ 8 by rfl, ← Nat.pow_mul]

theorem byteLen_le_iff (x k : Nat) : byteLen x ≤ k ↔ x < 256 ^ k := by
  rw [pow256, ← bitLen_le_iff]
  unfold byteLen
  omega

theorem lt_pow_byteLen (x : Nat) : x < 256 ^ byteLen x :=
  (byteLen_le_iff x (byteLen x)).mp (Nat.le_refl _)

theorem pow_byteLen_le {x : Nat} (h : 0 < byteLen x) : 256 ^ (byteLen x - 1) ≤ x := by
  rcases Nat.lt_or_ge x (256 ^ (byteLen x - 1)) with h1 | h1
  · have := (byteLen_le_iff x (byteLen x - 1)).mpr h1
    omega
  · exact h1

theorem byteLen_eq_iff {x k : Nat} (hk : 0 < k) : byteLen x = k ↔ 256 ^ (k - 1) ≤ x ∧ x < 256 ^ k := by
  constructor
  · intro h
    subst h
    exact ⟨pow_byteLen_le hk, lt_pow_byteLen x⟩
  · intro ⟨h1, h2⟩
    have a := (byteLen_le_iff x k).mpr h2
    have b : ¬ byteLen x ≤ k - 1 := fun hc => by
      have := (byteLen_le_iff x (k - 1)).mp hc
      omega
    omega

/-- Relation between the bit-level and byte-level lengths used by the Rust encoders:
    `W/8 - leading_zeros/8`. -/
theorem bytesNeeded_eq {bits x : Nat} (h8 : bits % 8 = 0) (hx : x < 2 ^ bits) :
    bits / 8 - (bits - bitLen x) / 8 = byteLen x := by
  have := (bitLen_le_iff x bits).mpr hx
  unfold byteLen
  omega

end Scale
