/-
  Proofs/ProgSlice.lean — facts that hold for *every* decoder program on a slice, by induction on
  the interaction tree (no per-type work): a successful decode consumes a prefix and is unaffected
  by what follows it.
-/
import Proofs.RunSlice
namespace Scale

theorem sliceRead_ok {n : Nat} {s b r : Bytes} (h : sliceInput.read n s = (.ok b, r)) :
    s = b ++ r ∧ b.length = n := by
  simp only [sliceInput, sliceRead_eq] at h
  split at h
  · cases h
  · next hn =>
    simp only [Prod.mk.injEq, Res.ok.injEq] at h
    obtain ⟨rfl, rfl⟩ := h
    exact ⟨(List.take_append_drop n s).symm, by simp; omega⟩

theorem sliceRead_append {n : Nat} {b r : Bytes} (t : Bytes) (hb : b.length = n) :
    sliceInput.read n (b ++ r ++ t) = (.ok b, r ++ t) := by
  simp only [sliceInput, sliceRead_eq, List.append_assoc]
  have : ¬ n > (b ++ (r ++ t)).length := by simp; omega
  simp only [this, if_false]
  rw [List.take_left' hb, List.drop_left' hb]

theorem chunkLoop_slice_ok (sz cl : Nat) :
    ∀ (fuel rem : Nat) (acc s b r : Bytes),
      chunkLoop sliceInput sz cl fuel rem acc s = (.ok b, r) →
      ∃ d, b = acc ++ d ∧ s = d ++ r ∧
        ∀ t, chunkLoop sliceInput sz cl fuel rem acc (s ++ t) = (.ok b, r ++ t) := by
  intro fuel
  induction fuel with
  | zero =>
    intro rem acc s b r h
    simp only [chunkLoop, Prod.mk.injEq, Res.ok.injEq] at h
    obtain ⟨rfl, rfl⟩ := h
    exact ⟨[], by simp, by simp, fun t => by simp [chunkLoop]⟩
  | succ fuel ih =>
    intro rem acc s b r h
    unfold chunkLoop at h ⊢
    by_cases h0 : rem = 0
    · simp only [h0, if_true, Prod.mk.injEq, Res.ok.injEq] at h
      obtain ⟨rfl, rfl⟩ := h
      exact ⟨[], by simp, by simp, fun t => by simp [h0]⟩
    · simp only [h0, if_false] at h ⊢
      have hal : ∀ x, sliceInput.onAlloc (satMul (min cl rem) sz) x = (.ok (), x) := fun _ => rfl
      simp only [hal] at h ⊢
      cases hr : sliceInput.read (min cl rem * sz) s with
      | mk res s2 =>
        rw [hr] at h
        cases res with
        | ok c =>
          simp only at h
          obtain ⟨rfl, hc⟩ := sliceRead_ok hr
          obtain ⟨d, hd1, hd2, hd3⟩ := ih _ _ _ _ _ h
          refine ⟨c ++ d, by simp [hd1], by simp [hd2], fun t => ?_⟩
          have := sliceRead_append (r := s2) t hc
          simp only [this]
          exact hd3 t
        | err => simp at h
        | panic => simp at h

theorem runBulk_slice_ok {sz c : Nat} {s b r : Bytes} (h : runBulk sliceInput sz c s = (.ok b, r)) :
    s = b ++ r ∧ ∀ t, runBulk sliceInput sz c (s ++ t) = (.ok b, r ++ t) := by
  unfold runBulk at h ⊢
  by_cases hg : sz > maxPrealloc
  · simp [hg] at h
  simp only [hg, if_false] at h ⊢
  by_cases hov : c * sz > usizeMax
  · simp [hov] at h
  · simp only [hov, if_false] at h ⊢
    have hrl : ∀ x, sliceInput.remainingLen x = (.ok (some x.length), x) := fun _ => rfl
    simp only [hrl] at h ⊢
    by_cases hlen : s.length < c * sz
    · simp [hlen] at h
    · simp only [hlen, if_false] at h
      obtain ⟨d, hd1, hd2, hd3⟩ := chunkLoop_slice_ok _ _ _ _ _ _ _ _ h
      simp only [List.nil_append] at hd1
      subst hd1
      refine ⟨hd2, fun t => ?_⟩
      have : ¬ (s ++ t).length < c * sz := by simp; omega
      simp only [this, if_false]
      exact hd3 t

/-- A successful run consumes a prefix of the slice, and extending the slice extends the rest. -/
theorem run_slice_ok_extend {α} (p : Prog α) :
    ∀ (s r : Bytes) (v : α), run sliceInput p s = (.ok v, r) →
      (∃ pre, s = pre ++ r) ∧ ∀ t, run sliceInput p (s ++ t) = (.ok v, r ++ t) := by
  induction p with
  | pure a =>
    intro s r v h
    simp only [run_pure, Prod.mk.injEq, Res.ok.injEq] at h
    obtain ⟨rfl, rfl⟩ := h
    exact ⟨⟨[], rfl⟩, fun t => by simp⟩
  | fail => intro s r v h; simp at h
  | panic => intro s r v h; simp at h
  | read n k ih =>
    intro s r v h
    obtain ⟨b, tl, rfl, hb, h⟩ := run_slice_read_ok h
    obtain ⟨⟨pre, hp⟩, he⟩ := ih b tl r v h
    refine ⟨⟨b ++ pre, by simp [hp]⟩, fun t => ?_⟩
    rw [List.append_assoc, run_slice_read_append k (tl ++ t) hb]
    exact he t
  | readByte k ih =>
    intro s r v h
    cases s with
    | nil => simp at h
    | cons b tl =>
      simp only [run_slice_readByte_cons] at h
      obtain ⟨⟨pre, hp⟩, he⟩ := ih b tl r v h
      exact ⟨⟨b :: pre, by simp [hp]⟩, fun t => by simpa using he t⟩
  | descend k ih => intro s r v h; simpa using ih () s r v (by simpa using h)
  | ascend k ih => intro s r v h; simpa using ih () s r v (by simpa using h)
  | alloc n k ih => intro s r v h; simpa using ih () s r v (by simpa using h)
  | bulk sz c k ih =>
    intro s r v h
    simp only [run] at h
    cases hb : runBulk sliceInput sz c s with
    | mk res s2 =>
      rw [hb] at h
      cases res with
      | ok b =>
        simp only at h
        obtain ⟨rfl, hext⟩ := runBulk_slice_ok hb
        obtain ⟨⟨pre, hp⟩, he⟩ := ih b s2 r v h
        refine ⟨⟨b ++ pre, by simp [hp]⟩, fun t => ?_⟩
        simp only [run, hext t]
        exact he t
      | err => simp at h
      | panic => simp at h
  | rawBytes n k ih =>
    intro s r v h
    simp only [run] at h
    have e : ∀ x, runRawBytes sliceInput n x = runBulk sliceInput 1 n x := fun _ => rfl
    simp only [e] at h
    cases hb : runBulk sliceInput 1 n s with
    | mk res s2 =>
      rw [hb] at h
      cases res with
      | ok b =>
        simp only at h
        obtain ⟨rfl, hext⟩ := runBulk_slice_ok hb
        obtain ⟨⟨pre, hp⟩, he⟩ := ih b s2 r v h
        refine ⟨⟨b ++ pre, by simp [hp]⟩, fun t => ?_⟩
        simp only [run, e, hext t]
        exact he t
      | err => simp at h
      | panic => simp at h

end Scale
