/-
  Proofs/NoPanic.lean — the decoder never panics on any byte string (slice input): the
  `unreachable!()` arms of the compact decoders, the `try_from_vec` "UNEXPECTED ERROR" and the
  `assert!(bits <= result.len())` in `BitVec::decode` are dead.
-/
import Scale.Decode
import Scale.Canon
import Proofs.CompactDec
import Proofs.BulkSlice
namespace Scale
open Impl

def NoPanic {α} (p : Prog α) : Prop := ∀ s, (run sliceInput p s).1 ≠ .panic

theorem noPanic_pure {α} (a : α) : NoPanic (.pure a : Prog α) := by intro s; simp
theorem noPanic_fail {α} : NoPanic (.fail : Prog α) := by intro s; simp

theorem noPanic_bind {α β} {p : Prog α} {f : α → Prog β} (hp : NoPanic p) (hf : ∀ a, NoPanic (f a)) :
    NoPanic (p.bind f) := by
  intro s
  rw [run_bind]
  have := hp s
  cases hr : run sliceInput p s with
  | mk r s1 =>
    rw [hr] at this
    cases r with
    | ok a => exact hf a s1
    | err => simp
    | panic => simp at this

theorem noPanic_read {α} {n : Nat} {k : Bytes → Prog α} (hk : ∀ b, NoPanic (k b)) : NoPanic (.read n k) := by
  intro s
  rw [run_slice_read]
  split
  · simp
  · exact hk _ _

theorem noPanic_readByte {α} {k : UInt8 → Prog α} (hk : ∀ b, NoPanic (k b)) : NoPanic (.readByte k) := by
  intro s
  cases s with
  | nil => simp
  | cons b s => simpa using hk b s

theorem noPanic_descend {α} {k : Unit → Prog α} (hk : NoPanic (k ())) : NoPanic (.descend k) := by
  intro s; simpa using hk s
theorem noPanic_ascend {α} {k : Unit → Prog α} (hk : NoPanic (k ())) : NoPanic (.ascend k) := by
  intro s; simpa using hk s
theorem noPanic_alloc {α} {n : Nat} {k : Unit → Prog α} (hk : NoPanic (k ())) : NoPanic (.alloc n k) := by
  intro s; simpa using hk s

theorem chunkLoop_slice_no_panic (sz cl : Nat) :
    ∀ (fuel rem : Nat) (acc s : Bytes), (chunkLoop sliceInput sz cl fuel rem acc s).1 ≠ .panic := by
  intro fuel
  induction fuel with
  | zero => intro rem acc s; simp [chunkLoop]
  | succ fuel ih =>
    intro rem acc s
    unfold chunkLoop
    by_cases h0 : rem = 0
    · simp [h0]
    · simp only [h0, if_false]
      have hal : sliceInput.onAlloc (satMul (min cl rem) sz) s = (.ok (), s) := rfl
      simp only [hal]
      have hr : sliceInput.read (min cl rem * sz) s = sliceRead (min cl rem * sz) s := rfl
      rw [hr, sliceRead_eq]
      by_cases hn : min cl rem * sz > s.length
      · simp [hn]
      · simp only [hn, if_false]
        exact ih _ _ _

theorem runBulk_slice_no_panic (sz c : Nat) (hsz : sz ≤ maxPrealloc) (s : Bytes) :
    (runBulk sliceInput sz c s).1 ≠ .panic := by
  unfold runBulk
  have hg : ¬ sz > maxPrealloc := by omega
  simp only [hg, if_false]
  by_cases h1 : c * sz > usizeMax
  · simp [h1]
  · have hrl : sliceInput.remainingLen s = (.ok (some s.length), s) := rfl
    simp only [h1, if_false, hrl]
    by_cases h2 : s.length < c * sz
    · simp [h2]
    · simp only [h2, if_false]
      exact chunkLoop_slice_no_panic _ _ _ _ _ _

theorem noPanic_bulk {α} {sz c : Nat} {k : Bytes → Prog α} (hsz : sz ≤ maxPrealloc)
    (hk : ∀ b, NoPanic (k b)) : NoPanic (.bulk sz c k) := by
  intro s
  simp only [run]
  have := runBulk_slice_no_panic sz c hsz s
  cases hr : runBulk sliceInput sz c s with
  | mk r s1 =>
    rw [hr] at this
    cases r with
    | ok b => exact hk b s1
    | err => simp
    | panic => simp at this

theorem noPanic_rawBytes {α} {n : Nat} {k : Bytes → Prog α} (hk : ∀ b, NoPanic (k b)) : NoPanic (.rawBytes n k) := by
  intro s
  simp only [run]
  have e : runRawBytes sliceInput n s = runBulk sliceInput 1 n s := rfl
  rw [e]
  have := runBulk_slice_no_panic 1 n (by decide) s
  cases hr : runBulk sliceInput 1 n s with
  | mk r s1 =>
    rw [hr] at this
    cases r with
    | ok b => exact hk b s1
    | err => simp
    | panic => simp at this

theorem noPanic_replicateM {α} {p : Prog α} (hp : NoPanic p) : ∀ n, NoPanic (Prog.replicateM n p)
  | 0 => noPanic_pure _
  | n + 1 => noPanic_bind hp (fun _ => noPanic_bind (noPanic_replicateM hp n) (fun _ => noPanic_pure _))

theorem noPanic_itemChunks {sz : Nat} {item : Prog Val} (hp : NoPanic item) :
    ∀ fuel rem, NoPanic (itemChunks sz item fuel rem)
  | 0, _ => noPanic_pure _
  | fuel + 1, rem => by
    unfold itemChunks
    split
    · exact noPanic_pure _
    · exact noPanic_alloc (noPanic_bind (noPanic_replicateM hp _)
        (fun _ => noPanic_bind (noPanic_itemChunks hp fuel _) (fun _ => noPanic_pure _)))

theorem noPanic_compactDec {w : Nat} (hw : widthOk w = true) : NoPanic (compactDec w) := by
  intro s
  have hw' : w = 1 ∨ w = 2 ∨ w = 4 ∨ w = 8 ∨ w = 16 := by simp [widthOk] at hw; omega
  exact compactDecode_no_panic hw' s

theorem noPanic_compactDec4 : NoPanic (compactDec 4) := noPanic_compactDec (by decide)

theorem noPanic_ite {α} {c : Prop} [Decidable c] {p q : Prog α} (hp : NoPanic p) (hq : NoPanic q) :
    NoPanic (if c then p else q) := by
  split <;> assumption

theorem noPanic_decodeVecWithLen {sz : Nat} {t : Ty} {item : Prog Val} (hp : NoPanic item) (len : Nat) :
    NoPanic (decodeVecWithLen sz t item len) := by
  unfold decodeVecWithLen
  split
  · next p => exact noPanic_bulk (by cases p <;> decide) (fun _ => noPanic_pure _)
  · exact noPanic_descend (noPanic_bind (noPanic_itemChunks hp _ _) (fun _ => noPanic_ascend (noPanic_pure _)))

theorem chunksOf_length (size : Nat) : ∀ (n : Nat) (bs : Bytes), (chunksOf size n bs).length = n
  | 0, _ => rfl
  | n + 1, bs => by simp [chunksOf, chunksOf_length size n]

theorem flatten_map_const_length {α} (l : List α) (f : α → List Bool) (w : Nat) (h : ∀ a, (f a).length = w) :
    (l.map f).flatten.length = l.length * w := by
  induction l with
  | nil => simp
  | cons a l ih => simp [h a, ih, Nat.succ_mul]; omega

theorem noPanic_decodePrim (p : Prim) : NoPanic (decodePrim p) := by
  unfold decodePrim
  split
  · exact noPanic_readByte (fun _ => noPanic_pure _)
  · exact noPanic_read (fun _ => noPanic_pure _)

mutual
theorem decodeP_noPanic : ∀ (ty : Ty), widthsOk ty = true → NoPanic (decodeP ty)
  | .unit, _ => by simp only [decodeP]; exact noPanic_pure _
  | .bool, _ => by
    simp only [decodeP]
    exact noPanic_readByte (fun _ => noPanic_ite (noPanic_pure _) (noPanic_ite (noPanic_pure _) noPanic_fail))
  | .optionBool, _ => by
    simp only [decodeP]
    exact noPanic_readByte (fun _ => noPanic_ite (noPanic_pure _)
      (noPanic_ite (noPanic_pure _) (noPanic_ite (noPanic_pure _) noPanic_fail)))
  | .prim p, _ => by simp only [decodeP]; exact noPanic_decodePrim p
  | .nonZero p, _ => by
    simp only [decodeP]
    exact noPanic_bind (noPanic_decodePrim p) (fun _ => noPanic_ite noPanic_fail (noPanic_pure _))
  | .compact w, h => by
    simp only [decodeP]
    exact noPanic_bind (noPanic_compactDec (by simpa [widthsOk] using h)) (fun _ => noPanic_pure _)
  | .option t, h => by
    simp only [decodeP]
    have := decodeP_noPanic t (by simpa [widthsOk] using h)
    exact noPanic_readByte (fun _ => noPanic_ite (noPanic_pure _)
      (noPanic_ite (noPanic_bind this (fun _ => noPanic_pure _)) noPanic_fail))
  | .result t e, h => by
    simp only [decodeP]
    simp only [widthsOk, Bool.and_eq_true] at h
    have h1 := decodeP_noPanic t h.1
    have h2 := decodeP_noPanic e h.2
    exact noPanic_readByte (fun _ => noPanic_ite (noPanic_bind h1 (fun _ => noPanic_pure _))
      (noPanic_ite (noPanic_bind h2 (fun _ => noPanic_pure _)) noPanic_fail))
  | .tuple ts, h => by
    simp only [decodeP]
    exact noPanic_bind (decodeList_noPanic ts (by simpa [widthsOk] using h)) (fun _ => noPanic_pure _)
  | .array n t, h => by
    simp only [decodeP]
    have := decodeP_noPanic t (by simpa [widthsOk] using h)
    split
    · exact noPanic_read (fun _ => noPanic_pure _)
    · exact noPanic_bind (noPanic_replicateM this n) (fun _ => noPanic_pure _)
  | .garray n t, h => by
    simp only [decodeP]
    have := decodeP_noPanic t (by simpa [widthsOk] using h)
    exact noPanic_bind (noPanic_replicateM this n) (fun _ => noPanic_pure _)
  | .seq k sz t, h => by
    simp only [decodeP]
    have ht := decodeP_noPanic t (by simpa [widthsOk] using h)
    apply noPanic_bind noPanic_compactDec4
    intro len
    cases k <;> simp only
    · exact noPanic_bind (noPanic_decodeVecWithLen ht len) (fun _ => noPanic_pure _)
    · exact noPanic_bind (noPanic_decodeVecWithLen ht len) (fun _ => noPanic_pure _)
    · exact noPanic_bind (noPanic_decodeVecWithLen ht len) (fun _ => noPanic_pure _)
    · exact noPanic_descend (noPanic_alloc (noPanic_bind (noPanic_replicateM ht len)
        (fun _ => noPanic_ascend (noPanic_pure _))))
    · exact noPanic_descend (noPanic_alloc (noPanic_bind (noPanic_replicateM ht len)
        (fun _ => noPanic_ascend (noPanic_pure _))))
    · exact noPanic_descend (noPanic_alloc (noPanic_bind (noPanic_replicateM ht len)
        (fun _ => noPanic_ascend (noPanic_pure _))))
  | .str, _ => by
    simp only [decodeP]
    exact noPanic_bind noPanic_compactDec4
      (fun _ => noPanic_bulk (by decide) (fun _ => noPanic_ite (noPanic_pure _) noPanic_fail))
  | .bytes, _ => by
    simp only [decodeP]
    exact noPanic_bind noPanic_compactDec4 (fun _ => noPanic_rawBytes (fun _ => noPanic_pure _))
  | .box sz t, h => by
    simp only [decodeP]
    have := decodeP_noPanic t (by simpa [widthsOk] using h)
    exact noPanic_descend (noPanic_alloc (noPanic_bind this (fun _ => noPanic_ascend (noPanic_pure _))))
  | .wrap t, h => by
    simp only [decodeP]
    have := decodeP_noPanic t (by simpa [widthsOk] using h)
    exact noPanic_descend (noPanic_bind this (fun _ => noPanic_ascend (noPanic_pure _)))
  | .duration, _ => by
    simp only [decodeP]
    exact noPanic_read (fun _ => noPanic_read (fun _ => noPanic_ite noPanic_fail (noPanic_pure _)))
  | .range t, h => by
    simp only [decodeP]
    have := decodeP_noPanic t (by simpa [widthsOk] using h)
    exact noPanic_bind this (fun _ => noPanic_bind this (fun _ => noPanic_pure _))
  | .bitseq store msb, _ => by
    simp only [decodeP]
    apply noPanic_bind noPanic_compactDec4
    intro bits
    apply noPanic_ite noPanic_fail
    apply noPanic_bulk (by cases store <;> decide)
    intro bs
    -- the assert `bits <= result.len()` always holds: `elts * w >= bits`
    have hlen : ((chunksOf store.size (elts (8 * store.size) bits) bs).map
        fun e => elemToBits (8 * store.size) msb (fromLe e)).flatten.length =
        elts (8 * store.size) bits * (8 * store.size) := by
      rw [flatten_map_const_length _ _ (8 * store.size) (by intro a; simp [elemToBits]), chunksOf_length]
    have hw : 0 < 8 * store.size := by cases store <;> simp [Prim.size]
    have hge : bits ≤ elts (8 * store.size) bits * (8 * store.size) := by
      unfold elts
      generalize 8 * store.size = w at *
      have := Nat.div_add_mod (bits + w - 1) w
      have := Nat.mod_lt (bits + w - 1) hw
      rw [Nat.mul_comm]
      omega
    simp only [hlen, hge, if_true]
    exact noPanic_pure _
  | .enum idxs ts, h => by
    simp only [decodeP]
    exact noPanic_readByte (fun b => decodeVariant_noPanic idxs ts b.toNat (by simp [widthsOk] at h; exact h.2))

theorem decodeList_noPanic : ∀ (ts : List Ty), widthsOk.widthsOkList ts = true → NoPanic (decodeList ts)
  | [], _ => by simp only [decodeList]; exact noPanic_pure _
  | t :: ts, h => by
    simp only [widthsOk.widthsOkList, Bool.and_eq_true] at h
    simp only [decodeList]
    exact noPanic_bind (decodeP_noPanic t h.1)
      (fun _ => noPanic_bind (decodeList_noPanic ts h.2) (fun _ => noPanic_pure _))

theorem decodeVariant_noPanic : ∀ (idxs : List Nat) (ts : List Ty) (b : Nat),
    widthsOk.widthsOkList ts = true → NoPanic (decodeVariant idxs ts b)
  | [], ts, b, _ => by simp only [decodeVariant]; exact noPanic_fail
  | i :: is, [], b, _ => by simp only [decodeVariant]; exact noPanic_fail
  | i :: is, t :: ts, b, h => by
    simp only [widthsOk.widthsOkList, Bool.and_eq_true] at h
    simp only [decodeVariant]
    exact noPanic_ite (noPanic_bind (decodeP_noPanic t h.1) (fun _ => noPanic_pure _))
      (decodeVariant_noPanic is ts b h.2)
end

end Scale
