/-
  Proofs/HookFacts.lean — what the hook trace of a value adds up to: the tracked memory is the
  value's heap payload (C12), the maximal open depth is its container nesting (C11).
-/
import Scale.HookTrace
import Scale.Wf
import Scale.Canon
import Proofs.EncodeRef
namespace Scale
open Impl

/-! ### sums -/

theorem allocTotal_append (a b : List Hook) : allocTotal (a ++ b) = allocTotal a + allocTotal b := by
  induction a with
  | nil => simp [allocTotal]
  | cons h t ih => cases h <;> simp [allocTotal, ih] <;> omega

theorem allocTotal_flatten (ls : List (List Hook)) : allocTotal ls.flatten = sumNat (ls.map allocTotal) := by
  induction ls with
  | nil => rfl
  | cons l ls ih => simp [allocTotal_append, sumNat, ih]

theorem sumNat_append (a b : List Nat) : sumNat (a ++ b) = sumNat a + sumNat b := by
  induction a with
  | nil => simp [sumNat]
  | cons h t ih => simp [sumNat, ih]; omega

/-- The saturating fold is the plain sum capped at `usize::MAX`. -/
theorem memFold_eq (t : List Hook) : ∀ (u : Nat), u ≤ usizeMax → memFold t u = min (u + allocTotal t) usizeMax := by
  induction t with
  | nil => intro u hu; simp [memFold, allocTotal]; omega
  | cons h t ih =>
    intro u hu
    cases h with
    | desc => simpa [memFold, Hook.memStep, allocTotal] using ih u hu
    | asc => simpa [memFold, Hook.memStep, allocTotal] using ih u hu
    | alloc n =>
      have := ih (satAdd u n) (by unfold satAdd; omega)
      simp only [memFold, List.foldl_cons, Hook.memStep, allocTotal] at this ⊢
      rw [this]
      unfold satAdd
      omega

theorem satMul_eq {a b : Nat} (h : a * b ≤ usizeMax) : satMul a b = a * b := by
  unfold satMul; omega

theorem allocTotal_chunkHooks (sz cl : Nat) (hcl : 1 ≤ cl) (hfit : cl * sz ≤ usizeMax) :
    ∀ (fuel rem : Nat), rem ≤ fuel → allocTotal (chunkHooks sz cl fuel rem) = rem * sz := by
  intro fuel
  induction fuel with
  | zero => intro rem h; have : rem = 0 := by omega
            subst this; simp [chunkHooks, allocTotal]
  | succ fuel ih =>
    intro rem h
    unfold chunkHooks
    by_cases h0 : rem = 0
    · subst h0; simp [allocTotal]
    · simp only [h0, if_false, allocTotal]
      have hc2 : min cl rem ≤ rem := Nat.min_le_right _ _
      have hc1 : 1 ≤ min cl rem := by omega
      have hle : min cl rem * sz ≤ cl * sz := Nat.mul_le_mul_right sz (Nat.min_le_left _ _)
      rw [satMul_eq (by omega), ih (rem - min cl rem) (by omega), Nat.sub_mul]
      have : min cl rem * sz ≤ rem * sz := Nat.mul_le_mul_right sz hc2
      omega

theorem maxPrealloc_le_usizeMax : maxPrealloc ≤ usizeMax := by decide

theorem allocTotal_bulkHooks {sz : Nat} (h1 : 1 ≤ sz) (h2 : sz ≤ maxPrealloc) (n : Nat) :
    allocTotal (bulkHooks sz n) = n * sz := by
  unfold bulkHooks
  have hcl : 1 ≤ maxPrealloc / sz := (Nat.one_le_div_iff (by omega)).mpr h2
  have hfit : maxPrealloc / sz * sz ≤ usizeMax :=
    Nat.le_trans (Nat.div_mul_le_self _ _) maxPrealloc_le_usizeMax
  exact allocTotal_chunkHooks sz _ hcl hfit n n (Nat.le_refl _)

theorem chunkLen_fit {sz : Nat} (c : Nat) (hc : c ≤ chunkLenOf sz) : c * sz ≤ usizeMax := by
  unfold chunkLenOf at hc
  by_cases hz : sz = 0
  · subst hz; simp
  · simp only [hz, if_false] at hc
    have := Nat.mul_le_mul_right sz hc
    have h2 : maxPrealloc / sz * sz ≤ maxPrealloc := Nat.div_mul_le_self _ _
    have := maxPrealloc_le_usizeMax
    omega

theorem sumNat_take_drop (l : List Nat) (c : Nat) : sumNat l = sumNat (l.take c) + sumNat (l.drop c) := by
  rw [← sumNat_append, List.take_append_drop]

theorem allocTotal_itemChunkHooks (sz : Nat) (hcl : 1 ≤ chunkLenOf sz) :
    ∀ (fuel : Nat) (elems : List (List Hook)), elems.length ≤ fuel →
      allocTotal (itemChunkHooks sz fuel elems) = elems.length * sz + allocTotal elems.flatten := by
  intro fuel
  induction fuel with
  | zero =>
    intro elems h
    have : elems = [] := List.eq_nil_of_length_eq_zero (by omega)
    subst this; simp [itemChunkHooks, allocTotal]
  | succ fuel ih =>
    intro elems h
    unfold itemChunkHooks
    by_cases h0 : elems.length = 0
    · have : elems = [] := List.eq_nil_of_length_eq_zero h0
      subst this; simp [allocTotal]
    · simp only [h0, if_false, allocTotal, allocTotal_append]
      generalize hc : min (chunkLenOf sz) elems.length = c
      have hc2 : c ≤ elems.length := by omega
      have hc1 : 1 ≤ c := by omega
      have hcc : c ≤ chunkLenOf sz := by omega
      rw [satMul_eq (chunkLen_fit c hcc), ih (elems.drop c) (by simp; omega)]
      simp only [List.length_drop, Nat.sub_mul]
      have e : allocTotal elems.flatten = allocTotal (elems.take c).flatten + allocTotal (elems.drop c).flatten := by
        rw [← allocTotal_append, ← List.flatten_append, List.take_append_drop]
      have : c * sz ≤ elems.length * sz := Nat.mul_le_mul_right sz hc2
      omega

theorem chunkLenOf_pos' {sz : Nat} (h : sz ≤ maxPrealloc) : 1 ≤ chunkLenOf sz := by
  unfold chunkLenOf
  split
  · simp [usizeMax]
  · next hz => exact (Nat.one_le_div_iff (by omega)).mpr h

theorem prim_size_bounds (p : Prim) : 1 ≤ p.size ∧ p.size ≤ maxPrealloc := by
  cases p <;> simp [Prim.size, maxPrealloc]

theorem allocTotal_vecHooks {sz : Nat} (hsz : sz ≤ maxPrealloc) (t : Ty) (elems : List (List Hook))
    (hp : ∀ p, t = .prim p → allocTotal elems.flatten = 0) :
    allocTotal (vecHooks sz t elems) = elems.length * elemSize sz t + allocTotal elems.flatten := by
  unfold vecHooks
  split
  · next p =>
    have ⟨h1, h2⟩ := prim_size_bounds p
    rw [allocTotal_bulkHooks h1 h2, hp p rfl]
    simp [elemSize]
  · next hne =>
    have he : elemSize sz t = sz := by
      cases t <;> simp [elemSize]
      exact absurd rfl (hne _)
    simp only [allocTotal, allocTotal_append, he]
    rw [allocTotal_itemChunkHooks sz (chunkLenOf_pos' hsz) elems.length elems (Nat.le_refl _)]
    simp [allocTotal]

theorem sumNat_map_congr {α : Type} (l : List α) (f g : α → Nat) (h : ∀ a ∈ l, f a = g a) :
    sumNat (l.map f) = sumNat (l.map g) := by
  rw [List.map_congr_left h]

theorem sumNat_zero {α : Type} (l : List α) (f : α → Nat) (h : ∀ a ∈ l, f a = 0) : sumNat (l.map f) = 0 := by
  induction l with
  | nil => rfl
  | cons a l ih =>
    simp only [List.map_cons, sumNat, h a (List.mem_cons_self), Nat.zero_add]
    exact ih (fun b hb => h b (List.mem_cons_of_mem _ hb))

theorem all_mem' {p : Val → Bool} {vs : List Val} (h : vs.all p = true) : ∀ v ∈ vs, p v = true := by
  simpa using h

mutual
/-- **Tracked memory = heap payload**: the announcements made while decoding the encoding of `v`
    add up to exactly `payload ty v`. -/
theorem allocTotal_hookTrace : ∀ (ty : Ty) (v : Val), wf ty v = true → layoutOk ty = true →
    allocTotal (hookTrace ty v) = payload ty v
  | .unit, v, _, _ => by cases v <;> simp [hookTrace, payload, allocTotal]
  | .bool, v, _, _ => by cases v <;> simp [hookTrace, payload, allocTotal]
  | .optionBool, v, _, _ => by cases v <;> simp [hookTrace, payload, allocTotal]
  | .prim p, v, _, _ => by cases v <;> simp [hookTrace, payload, allocTotal]
  | .nonZero p, v, _, _ => by cases v <;> simp [hookTrace, payload, allocTotal]
  | .compact w, v, _, _ => by cases v <;> simp [hookTrace, payload, allocTotal]
  | .duration, v, _, _ => by cases v <;> simp [hookTrace, payload, allocTotal]
  | .option t, v, h, hl => by
    cases v <;> try (simp [wf] at h; done)
    case none => simp [hookTrace, payload, allocTotal]
    case some v =>
      simp only [hookTrace, payload]
      exact allocTotal_hookTrace t v (by simpa [wf] using h) (by simpa [layoutOk] using hl)
  | .result t e, v, h, hl => by
    simp only [layoutOk, Bool.and_eq_true] at hl
    cases v <;> try (simp [wf] at h; done)
    case ok v => simp only [hookTrace, payload]; exact allocTotal_hookTrace t v (by simpa [wf] using h) hl.1
    case err v => simp only [hookTrace, payload]; exact allocTotal_hookTrace e v (by simpa [wf] using h) hl.2
  | .tuple ts, v, h, hl => by
    cases v <;> try (simp [wf] at h; done)
    case seq vs =>
      simp only [hookTrace, payload]
      exact allocTotal_hookTraceList ts vs (by simpa [wf] using h) (by simpa [layoutOk] using hl)
  | .array n t, v, h, hl => by
    cases v <;> try (simp [wf] at h; done)
    case seq vs =>
      simp only [wf, Bool.and_eq_true, beq_iff_eq] at h
      simp only [layoutOk] at hl
      have hwf := all_mem' h.2
      simp only [hookTrace, payload, allocTotal_flatten, List.map_map]
      exact sumNat_map_congr vs _ _ (fun v hv => allocTotal_hookTrace t v (hwf v hv) hl)
  | .garray n t, v, h, hl => by
    cases v <;> try (simp [wf] at h; done)
    case seq vs =>
      simp only [wf, Bool.and_eq_true, beq_iff_eq] at h
      simp only [layoutOk] at hl
      have hwf := all_mem' h.2
      simp only [hookTrace, payload, allocTotal_flatten, List.map_map]
      exact sumNat_map_congr vs _ _ (fun v hv => allocTotal_hookTrace t v (hwf v hv) hl)
  | .seq k sz t, v, h, hl => by
    cases v <;> try (simp [wf] at h; done)
    case seq vs =>
      simp only [wf, Bool.and_eq_true, decide_eq_true_eq] at h
      simp only [layoutOk, Bool.and_eq_true] at hl
      have hwf := all_mem' h.2
      have hel : sumNat ((vs.map (hookTrace t)).map allocTotal) = sumNat (vs.map (payload t)) := by
        rw [List.map_map]
        exact sumNat_map_congr vs _ _ (fun v hv => allocTotal_hookTrace t v (hwf v hv) hl.1)
      have hprim : ∀ p, t = .prim p → allocTotal (vs.map (hookTrace t)).flatten = 0 := by
        intro p hp; subst hp
        rw [allocTotal_flatten, List.map_map]
        exact sumNat_zero vs _ (fun v _ => by cases v <;> simp [hookTrace, allocTotal])
      cases k
      · have hsz : sz ≤ maxPrealloc := by simpa using hl.2
        simp only [hookTrace, payload]
        rw [allocTotal_vecHooks hsz t _ hprim, allocTotal_flatten, hel]; simp
      · have hsz : sz ≤ maxPrealloc := by simpa using hl.2
        simp only [hookTrace, payload]
        rw [allocTotal_vecHooks hsz t _ hprim, allocTotal_flatten, hel]; simp
      · have hsz : sz ≤ maxPrealloc := by simpa using hl.2
        simp only [hookTrace, payload]
        rw [allocTotal_vecHooks hsz t _ hprim, allocTotal_flatten, hel]; simp
      · simp only [hookTrace, payload, allocTotal, allocTotal_append, allocTotal_flatten, hel]; omega
      · simp only [hookTrace, payload, allocTotal, allocTotal_append, allocTotal_flatten, hel]; omega
      · simp only [hookTrace, payload, allocTotal, allocTotal_append, allocTotal_flatten, hel]; omega
  | .str, v, h, _ => by
    cases v <;> try (simp [wf] at h; done)
    case bytes bs =>
      simp only [hookTrace, payload]
      rw [allocTotal_bulkHooks (Nat.le_refl 1) (by decide)]; simp
  | .bytes, v, h, _ => by
    cases v <;> try (simp [wf] at h; done)
    case bytes bs =>
      simp only [hookTrace, payload]
      rw [allocTotal_bulkHooks (Nat.le_refl 1) (by decide)]; simp
  | .box sz t, v, h, hl => by
    have := allocTotal_hookTrace t v (by simpa [wf] using h) (by simpa [layoutOk] using hl)
    simp only [hookTrace, payload, allocTotal, allocTotal_append, this]; omega
  | .wrap t, v, h, hl => by
    have := allocTotal_hookTrace t v (by simpa [wf] using h) (by simpa [layoutOk] using hl)
    simp only [hookTrace, payload, allocTotal, allocTotal_append, this]; omega
  | .range t, v, h, hl => by
    obtain ⟨a, b, rfl, ha, hb⟩ := wf_range h
    simp only [layoutOk] at hl
    simp only [hookTrace, payload, allocTotal_append, allocTotal_hookTrace t a ha hl, allocTotal_hookTrace t b hb hl]
  | .bitseq store msb, v, h, _ => by
    cases v <;> try (simp [wf] at h; done)
    case bits bs =>
      have ⟨h1, h2⟩ := prim_size_bounds store
      simp only [hookTrace, payload]
      rw [allocTotal_bulkHooks h1 h2]
  | .enum idxs ts, v, h, hl => by
    cases v <;> try (simp [wf] at h; done)
    case variant idx pv =>
      simp only [hookTrace, payload]
      exact allocTotal_hookTraceVariant idxs ts idx pv (by simpa [wf] using h) (by simpa [layoutOk] using hl)

theorem allocTotal_hookTraceList : ∀ (ts : List Ty) (vs : List Val), wfList ts vs = true →
    layoutOk.layoutOkList ts = true → allocTotal (hookTraceList ts vs) = payloadList ts vs
  | [], vs, _, _ => by cases vs <;> simp [hookTraceList, payloadList, allocTotal]
  | t :: ts, vs, h, hl => by
    cases vs with
    | nil => simp [wfList] at h
    | cons v vs =>
      simp only [wfList, Bool.and_eq_true] at h
      simp only [layoutOk.layoutOkList, Bool.and_eq_true] at hl
      simp only [hookTraceList, payloadList, allocTotal_append, allocTotal_hookTrace t v h.1 hl.1,
        allocTotal_hookTraceList ts vs h.2 hl.2]

theorem allocTotal_hookTraceVariant : ∀ (idxs : List Nat) (ts : List Ty) (idx : Nat) (v : Val),
    wfVariant idxs ts idx v = true → layoutOk.layoutOkList ts = true →
    allocTotal (hookTraceVariant idxs ts idx v) = payloadVariant idxs ts idx v
  | [], _, _, _, h, _ => by simp [wfVariant] at h
  | _ :: _, [], _, _, h, _ => by simp [wfVariant] at h
  | i :: is, t :: ts, idx, v, h, hl => by
    simp only [wfVariant, Bool.and_eq_true, decide_eq_true_eq] at h
    simp only [layoutOk.layoutOkList, Bool.and_eq_true] at hl
    simp only [hookTraceVariant, payloadVariant]
    split
    · next hi =>
      simp only [hi, if_true] at h
      exact allocTotal_hookTrace t v h.2 hl.1
    · next hi =>
      simp only [hi, if_false] at h
      exact allocTotal_hookTraceVariant is ts idx v h.2 hl.2
end

end Scale

namespace Scale
open Impl

/-! ### depth -/

theorem depthFold_append (a b : List Hook) (cm : Nat × Nat) :
    depthFold (a ++ b) cm = depthFold b (depthFold a cm) := by
  simp [depthFold, List.foldl_append]

/-- A balanced trace: it returns to the depth it started from, having been at most `n` levels above. -/
def Bal (t : List Hook) (n : Nat) : Prop :=
  ∀ c m, c ≤ m → depthFold t (c, m) = (c, max m (c + n))

theorem Bal.nil : Bal [] 0 := by
  intro c m h
  show (c, m) = (c, max m (c + 0))
  congr 1; omega

theorem Bal.append {a b : List Hook} {n k : Nat} (ha : Bal a n) (hb : Bal b k) : Bal (a ++ b) (max n k) := by
  intro c m h
  rw [depthFold_append, ha c m h, hb c _ (by omega)]
  congr 1; omega

theorem Bal.alloc {t : List Hook} {n : Nat} (x : Nat) (ht : Bal t n) : Bal (.alloc x :: t) n := by
  intro c m h
  have : depthFold (.alloc x :: t) (c, m) = depthFold t (c, m) := by simp [depthFold, Hook.depthStep]
  rw [this, ht c m h]

theorem Bal.wrap {t : List Hook} {n : Nat} (ht : Bal t n) : Bal (.desc :: (t ++ [.asc])) (1 + n) := by
  intro c m h
  have e : depthFold (.desc :: (t ++ [.asc])) (c, m) =
      depthFold [.asc] (depthFold t (c + 1, max m (c + 1))) := by
    simp [depthFold, Hook.depthStep, List.foldl_append]
  rw [e, ht (c + 1) _ (by omega)]
  simp only [depthFold, List.foldl_cons, List.foldl_nil, Hook.depthStep, Nat.add_sub_cancel]
  congr 1; omega

theorem maxNat_append (a b : List Nat) : maxNat (a ++ b) = max (maxNat a) (maxNat b) := by
  induction a with
  | nil => simp [maxNat]
  | cons h t ih => simp only [List.cons_append, maxNat, ih]; omega

theorem Bal.flatten {α : Type} (l : List α) (f : α → List Hook) (g : α → Nat) (h : ∀ a ∈ l, Bal (f a) (g a)) :
    Bal (l.map f).flatten (maxNat (l.map g)) := by
  induction l with
  | nil => exact Bal.nil
  | cons a l ih =>
    simp only [List.map_cons, List.flatten_cons, maxNat]
    exact Bal.append (h a (List.mem_cons_self)) (ih (fun b hb => h b (List.mem_cons_of_mem _ hb)))

theorem Bal.chunkHooks (sz cl : Nat) : ∀ (fuel rem : Nat), Bal (chunkHooks sz cl fuel rem) 0 := by
  intro fuel
  induction fuel with
  | zero => intro rem; simp only [Scale.chunkHooks]; exact Bal.nil
  | succ fuel ih =>
    intro rem
    unfold Scale.chunkHooks
    split
    · exact Bal.nil
    · exact Bal.alloc _ (ih _)

theorem Bal.itemChunkHooks {α : Type} (sz : Nat) (hcl : 1 ≤ chunkLenOf sz) (f : α → List Hook) (g : α → Nat) :
    ∀ (fuel : Nat) (l : List α), l.length ≤ fuel → (∀ a ∈ l, Bal (f a) (g a)) →
      Bal (Scale.itemChunkHooks sz fuel (l.map f)) (maxNat (l.map g)) := by
  intro fuel
  induction fuel with
  | zero =>
    intro l hl _
    have : l = [] := List.eq_nil_of_length_eq_zero (by omega)
    subst this
    simp only [Scale.itemChunkHooks, List.map_nil, maxNat]
    exact Bal.nil
  | succ fuel ih =>
    intro l hl h
    unfold Scale.itemChunkHooks
    by_cases h0 : (l.map f).length = 0
    · have : l = [] := List.eq_nil_of_length_eq_zero (by simpa using h0)
      subst this
      simp only [List.map_nil, List.length_nil, if_true, maxNat]
      exact Bal.nil
    · simp only [h0, if_false]
      generalize hc : (min (chunkLenOf sz) (l.map f).length) = c
      have e : maxNat (l.map g) = max (maxNat ((l.take c).map g)) (maxNat ((l.drop c).map g)) := by
        rw [← maxNat_append, ← List.map_append, List.take_append_drop]
      rw [e, ← List.map_take, ← List.map_drop]
      have hc1 : 1 ≤ c := by
        have : (l.map f).length ≠ 0 := h0
        omega
      exact Bal.alloc _ (Bal.append (Bal.flatten (l.take c) f g (fun a ha => h a (List.mem_of_mem_take ha)))
        (ih (l.drop c) (by simp; omega) (fun a ha => h a (List.mem_of_mem_drop ha))))

theorem bal_vecHooks (sz : Nat) (hsz : sz ≤ maxPrealloc) (t : Ty) (vs : List Val) (hel : ∀ v ∈ vs, Bal (hookTrace t v) (nesting t v)) :
    Bal (vecHooks sz t (vs.map (hookTrace t))) (vecNesting t (maxNat (vs.map (nesting t)))) := by
  unfold vecHooks vecNesting
  split
  · exact Bal.chunkHooks _ _ _ _
  · exact Bal.wrap (Bal.itemChunkHooks sz (chunkLenOf_pos' hsz) (hookTrace t) (nesting t) (vs.map (hookTrace t)).length vs (by simp) hel)

theorem Bal.weaken {t : List Hook} {n k : Nat} (ht : Bal t n) (h : n = k) : Bal t k := h ▸ ht

mutual
/-- **Maximal open depth = container nesting** (and the trace is balanced: siblings do not
    accumulate). -/
theorem bal_hookTrace : ∀ (ty : Ty) (v : Val), wf ty v = true → layoutOk ty = true →
    Bal (hookTrace ty v) (nesting ty v)
  | .unit, v, _, _ => by cases v <;> simp [hookTrace, nesting] <;> exact Bal.nil
  | .bool, v, _, _ => by cases v <;> simp [hookTrace, nesting] <;> exact Bal.nil
  | .optionBool, v, _, _ => by cases v <;> simp [hookTrace, nesting] <;> exact Bal.nil
  | .prim p, v, _, _ => by cases v <;> simp [hookTrace, nesting] <;> exact Bal.nil
  | .nonZero p, v, _, _ => by cases v <;> simp [hookTrace, nesting] <;> exact Bal.nil
  | .compact w, v, _, _ => by cases v <;> simp [hookTrace, nesting] <;> exact Bal.nil
  | .duration, v, _, _ => by cases v <;> simp [hookTrace, nesting] <;> exact Bal.nil
  | .option t, v, h, hl => by
    cases v <;> try (simp [wf] at h; done)
    case none => simp only [hookTrace, nesting]; exact Bal.nil
    case some v =>
      simp only [hookTrace, nesting]
      exact bal_hookTrace t v (by simpa [wf] using h) (by simpa [layoutOk] using hl)
  | .result t e, v, h, hl => by
    simp only [layoutOk, Bool.and_eq_true] at hl
    cases v <;> try (simp [wf] at h; done)
    case ok v => simp only [hookTrace, nesting]; exact bal_hookTrace t v (by simpa [wf] using h) hl.1
    case err v => simp only [hookTrace, nesting]; exact bal_hookTrace e v (by simpa [wf] using h) hl.2
  | .tuple ts, v, h, hl => by
    cases v <;> try (simp [wf] at h; done)
    case seq vs =>
      simp only [hookTrace, nesting]
      exact bal_hookTraceList ts vs (by simpa [wf] using h) (by simpa [layoutOk] using hl)
  | .array n t, v, h, hl => by
    cases v <;> try (simp [wf] at h; done)
    case seq vs =>
      simp only [wf, Bool.and_eq_true, beq_iff_eq] at h
      simp only [layoutOk] at hl
      have hwf := all_mem' h.2
      simp only [hookTrace, nesting]
      exact Bal.flatten vs _ _ (fun v hv => bal_hookTrace t v (hwf v hv) hl)
  | .garray n t, v, h, hl => by
    cases v <;> try (simp [wf] at h; done)
    case seq vs =>
      simp only [wf, Bool.and_eq_true, beq_iff_eq] at h
      simp only [layoutOk] at hl
      have hwf := all_mem' h.2
      simp only [hookTrace, nesting]
      exact Bal.flatten vs _ _ (fun v hv => bal_hookTrace t v (hwf v hv) hl)
  | .seq k sz t, v, h, hl => by
    cases v <;> try (simp [wf] at h; done)
    case seq vs =>
      simp only [wf, Bool.and_eq_true, decide_eq_true_eq] at h
      simp only [layoutOk, Bool.and_eq_true] at hl
      have hwf := all_mem' h.2
      have hel : ∀ v ∈ vs, Bal (hookTrace t v) (nesting t v) := fun v hv => bal_hookTrace t v (hwf v hv) hl.1
      have hlist : ∀ x, Bal (.desc :: .alloc x :: ((vs.map (hookTrace t)).flatten ++ [.asc]))
          (1 + maxNat (vs.map (nesting t))) := by
        intro x
        have hb := Bal.wrap (Bal.alloc x (Bal.flatten vs _ _ hel))
        simpa using hb
      cases k
      · have hsz : sz ≤ maxPrealloc := by simpa using hl.2
        simp only [hookTrace, nesting]; exact bal_vecHooks sz hsz t vs hel
      · have hsz : sz ≤ maxPrealloc := by simpa using hl.2
        simp only [hookTrace, nesting]; exact bal_vecHooks sz hsz t vs hel
      · have hsz : sz ≤ maxPrealloc := by simpa using hl.2
        simp only [hookTrace, nesting]; exact bal_vecHooks sz hsz t vs hel
      · simpa only [hookTrace, nesting] using hlist _
      · simpa only [hookTrace, nesting] using hlist _
      · simpa only [hookTrace, nesting] using hlist _
  | .str, v, h, _ => by
    cases v <;> try (simp [wf] at h; done)
    case bytes bs => simp only [hookTrace, nesting]; exact Bal.chunkHooks _ _ _ _
  | .bytes, v, h, _ => by
    cases v <;> try (simp [wf] at h; done)
    case bytes bs => simp only [hookTrace, nesting]; exact Bal.chunkHooks _ _ _ _
  | .box sz t, v, h, hl => by
    have hb := Bal.wrap (Bal.alloc sz (bal_hookTrace t v (by simpa [wf] using h) (by simpa [layoutOk] using hl)))
    simpa only [hookTrace, nesting, List.cons_append] using hb
  | .wrap t, v, h, hl => by
    have hb := Bal.wrap (bal_hookTrace t v (by simpa [wf] using h) (by simpa [layoutOk] using hl))
    simpa only [hookTrace, nesting, List.cons_append] using hb
  | .range t, v, h, hl => by
    obtain ⟨a, b, rfl, ha, hb⟩ := wf_range h
    simp only [layoutOk] at hl
    simp only [hookTrace, nesting]
    exact Bal.append (bal_hookTrace t a ha hl) (bal_hookTrace t b hb hl)
  | .bitseq store msb, v, h, _ => by
    cases v <;> try (simp [wf] at h; done)
    case bits bs => simp only [hookTrace, nesting]; exact Bal.chunkHooks _ _ _ _
  | .enum idxs ts, v, h, hl => by
    cases v <;> try (simp [wf] at h; done)
    case variant idx pv =>
      simp only [hookTrace, nesting]
      exact bal_hookTraceVariant idxs ts idx pv (by simpa [wf] using h) (by simpa [layoutOk] using hl)

theorem bal_hookTraceList : ∀ (ts : List Ty) (vs : List Val), wfList ts vs = true →
    layoutOk.layoutOkList ts = true → Bal (hookTraceList ts vs) (nestingList ts vs)
  | [], vs, _, _ => by cases vs <;> simp [hookTraceList, nestingList] <;> exact Bal.nil
  | t :: ts, vs, h, hl => by
    cases vs with
    | nil => simp [wfList] at h
    | cons v vs =>
      simp only [wfList, Bool.and_eq_true] at h
      simp only [layoutOk.layoutOkList, Bool.and_eq_true] at hl
      simp only [hookTraceList, nestingList]
      exact Bal.append (bal_hookTrace t v h.1 hl.1) (bal_hookTraceList ts vs h.2 hl.2)

theorem bal_hookTraceVariant : ∀ (idxs : List Nat) (ts : List Ty) (idx : Nat) (v : Val),
    wfVariant idxs ts idx v = true → layoutOk.layoutOkList ts = true →
    Bal (hookTraceVariant idxs ts idx v) (nestingVariant idxs ts idx v)
  | [], _, _, _, h, _ => by simp [wfVariant] at h
  | _ :: _, [], _, _, h, _ => by simp [wfVariant] at h
  | i :: is, t :: ts, idx, v, h, hl => by
    simp only [wfVariant, Bool.and_eq_true, decide_eq_true_eq] at h
    simp only [layoutOk.layoutOkList, Bool.and_eq_true] at hl
    simp only [hookTraceVariant, nestingVariant]
    split
    · next hi =>
      simp only [hi, if_true] at h
      exact bal_hookTrace t v h.2 hl.1
    · next hi =>
      simp only [hi, if_false] at h
      exact bal_hookTraceVariant is ts idx v h.2 hl.2
end

end Scale

namespace Scale
open Impl

/-- Types none of whose values hold heap data: no sequence, string, byte buffer, bit sequence or
    box anywhere inside. -/
def heapFree : Ty → Bool
  | .option t => heapFree t
  | .result t e => heapFree t && heapFree e
  | .tuple ts => heapFreeList ts
  | .array _ t => heapFree t
  | .garray _ t => heapFree t
  | .range t => heapFree t
  | .enum _ ts => heapFreeList ts
  | .seq _ _ _ => false
  | .str => false
  | .bytes => false
  | .box _ _ => false
  | .wrap t => heapFree t
  | .bitseq _ _ => false
  | _ => true
where
  heapFreeList : List Ty → Bool
    | [] => true
    | t :: ts => heapFree t && heapFreeList ts

mutual
theorem payload_heapFree : ∀ (ty : Ty) (v : Val), heapFree ty = true → payload ty v = 0
  | .unit, v, _ => by cases v <;> simp [payload]
  | .bool, v, _ => by cases v <;> simp [payload]
  | .optionBool, v, _ => by cases v <;> simp [payload]
  | .prim p, v, _ => by cases v <;> simp [payload]
  | .nonZero p, v, _ => by cases v <;> simp [payload]
  | .compact w, v, _ => by cases v <;> simp [payload]
  | .duration, v, _ => by cases v <;> simp [payload]
  | .option t, v, h => by
    cases v <;> simp only [payload]
    exact payload_heapFree t _ (by simpa [heapFree] using h)
  | .result t e, v, h => by
    simp only [heapFree, Bool.and_eq_true] at h
    cases v <;> simp only [payload]
    · exact payload_heapFree t _ h.1
    · exact payload_heapFree e _ h.2
  | .tuple ts, v, h => by
    cases v <;> simp only [payload]
    exact payloadList_heapFree ts _ (by simpa [heapFree] using h)
  | .array n t, v, h => by
    cases v <;> simp only [payload]
    exact sumNat_zero _ _ (fun v _ => payload_heapFree t v (by simpa [heapFree] using h))
  | .garray n t, v, h => by
    cases v <;> simp only [payload]
    exact sumNat_zero _ _ (fun v _ => payload_heapFree t v (by simpa [heapFree] using h))
  | .range t, v, h => by
    have ht : heapFree t = true := by simpa [heapFree] using h
    cases v with
    | seq vs =>
      match vs with
      | [] => simp [payload]
      | [a] => simp [payload]
      | [a, b] => simp [payload, payload_heapFree t a ht, payload_heapFree t b ht]
      | a :: b :: c :: r => simp [payload]
    | _ => simp [payload]
  | .enum idxs ts, v, h => by
    cases v <;> simp only [payload]
    exact payloadVariant_heapFree idxs ts _ _ (by simpa [heapFree] using h)
  | .seq _ _ _, _, h => by simp [heapFree] at h
  | .str, _, h => by simp [heapFree] at h
  | .bytes, _, h => by simp [heapFree] at h
  | .box _ _, _, h => by simp [heapFree] at h
  | .wrap t, v, h => by
    simp only [payload]
    exact payload_heapFree t v (by simpa [heapFree] using h)
  | .bitseq _ _, _, h => by simp [heapFree] at h

theorem payloadList_heapFree : ∀ (ts : List Ty) (vs : List Val), heapFree.heapFreeList ts = true →
    payloadList ts vs = 0
  | [], vs, _ => by cases vs <;> simp [payloadList]
  | t :: ts, vs, h => by
    simp only [heapFree.heapFreeList, Bool.and_eq_true] at h
    cases vs with
    | nil => simp [payloadList]
    | cons v vs => simp [payloadList, payload_heapFree t v h.1, payloadList_heapFree ts vs h.2]

theorem payloadVariant_heapFree : ∀ (idxs : List Nat) (ts : List Ty) (idx : Nat) (v : Val),
    heapFree.heapFreeList ts = true → payloadVariant idxs ts idx v = 0
  | [], _, _, _, _ => by simp [payloadVariant]
  | _ :: _, [], _, _, _ => by simp [payloadVariant]
  | i :: is, t :: ts, idx, v, h => by
    simp only [heapFree.heapFreeList, Bool.and_eq_true] at h
    simp only [payloadVariant]
    split
    · exact payload_heapFree t v h.1
    · exact payloadVariant_heapFree is ts idx v h.2
end

/-- The crate's tree estimate is within a factor of two of the entries' own size: with `e` bytes per
    entry and a leaf node of at least 11 entries, `len * e <= 2 * mem_size_of_btree(len)` (unless the
    estimate itself saturated at `usize::MAX`). -/
theorem btree_estimate_within_factor_two (leaf len e : Nat) (hleaf : 11 * e ≤ leaf) :
    len * e ≤ 2 * btreeMemSize leaf len ∨ btreeMemSize leaf len = usizeMax := by
  unfold btreeMemSize
  by_cases h0 : len = 0
  · subst h0; simp
  · simp only [h0, if_false]
    have hn : (11 + 5) * 2 / 3 = 10 := by decide
    simp only [hn]
    by_cases hz : len / 10 = 0
    · simp only [hz, if_true]
      left
      have hl : len ≤ 11 := by omega
      have : len * e ≤ 11 * e := Nat.mul_le_mul_right e hl
      omega
    · simp only [hz, if_false]
      unfold satMul
      by_cases hs : len / 10 * (leaf + 96) ≤ usizeMax
      · left
        rw [Nat.min_eq_left hs]
        have h19 : len ≤ 19 * (len / 10) := by omega
        have a1 : len * e ≤ 19 * (len / 10) * e := Nat.mul_le_mul_right e h19
        have a2 : len / 10 * (11 * e) ≤ len / 10 * (leaf + 96) := Nat.mul_le_mul_left _ (by omega)
        have a3 : 19 * (len / 10) * e = 19 * (len / 10 * e) := Nat.mul_assoc _ _ _
        have a4 : len / 10 * (11 * e) = 11 * (len / 10 * e) := Nat.mul_left_comm _ _ _
        omega
      · right
        omega

end Scale
