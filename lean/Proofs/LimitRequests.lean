/-
  Proofs/LimitRequests.lean — a memory limit bounds what the decoder REQUESTS, for every byte string.

  `traceRec (memInput L I)` records the announcements the memory tracker *accepted*. Every request
  of the decoder follows its own announcement (`on_before_alloc_mem(n)?` precedes `reserve_exact` /
  `alloc`), and a refused announcement ends the decode. Hence, for every program over every inner
  input: the accepted announcements add up to less than the limit. For types without `from_iter`
  collections the request-instrumented decoder IS the decoder (`decodeR_eq_decodeP`), so the bound
  is a bound on the memory requested — successful decode or not.
-/
import Scale.Request
import Proofs.Trace
import Proofs.HookFacts
import Proofs.RequestBound
namespace Scale
open Impl Prog

/-- no `LinkedList` / `BTreeSet` / `BTreeMap` anywhere in the type -/
def noNodes : Ty → Bool
  | .option t => noNodes t
  | .result t e => noNodes t && noNodes e
  | .tuple ts => noNodesList ts
  | .array _ t => noNodes t
  | .garray _ t => noNodes t
  | .seq k _ t => noNodes t && (match k with | .vec | .deque | .heap => true | _ => false)
  | .box _ t => noNodes t
  | .wrap t => noNodes t
  | .range t => noNodes t
  | .enum _ ts => noNodesList ts
  | _ => true
where
  noNodesList : List Ty → Bool
    | [] => true
    | t :: ts => noNodes t && noNodesList ts

mutual
/-- Without `from_iter` collections every request site is an announcement site: the two decoders
    are the same program. -/
theorem decodeR_eq_decodeP : ∀ ty : Ty, noNodes ty = true → decodeR ty = decodeP ty
  | .unit, _ => rfl
  | .bool, _ => rfl
  | .optionBool, _ => rfl
  | .prim _, _ => rfl
  | .nonZero _, _ => rfl
  | .compact _, _ => rfl
  | .duration, _ => rfl
  | .str, _ => rfl
  | .bytes, _ => rfl
  | .bitseq _ _, _ => rfl
  | .option t, h => by
    simp only [decodeR, decodeP, decodeR_eq_decodeP t (by simpa [noNodes] using h)]
  | .result t e, h => by
    simp only [noNodes, Bool.and_eq_true] at h
    simp only [decodeR, decodeP, decodeR_eq_decodeP t h.1, decodeR_eq_decodeP e h.2]
  | .tuple ts, h => by
    simp only [decodeR, decodeP, decodeListR_eq ts (by simpa [noNodes] using h)]
  | .array n t, h => by
    have ih := decodeR_eq_decodeP t (by simpa [noNodes] using h)
    unfold decodeR decodeP
    split
    · rfl
    · rw [ih]; split <;> simp_all
  | .garray n t, h => by
    simp only [decodeR, decodeP, decodeR_eq_decodeP t (by simpa [noNodes] using h)]
  | .seq k sz t, h => by
    simp only [noNodes, Bool.and_eq_true] at h
    have ih := decodeR_eq_decodeP t h.1
    cases k <;> simp only [decodeR, decodeP, ih] <;> simp at h
  | .box sz t, h => by
    simp only [decodeR, decodeP, decodeR_eq_decodeP t (by simpa [noNodes] using h)]
  | .wrap t, h => by
    simp only [decodeR, decodeP, decodeR_eq_decodeP t (by simpa [noNodes] using h)]
  | .range t, h => by
    simp only [decodeR, decodeP, decodeR_eq_decodeP t (by simpa [noNodes] using h)]
  | .enum idxs ts, h => by
    simp only [decodeR, decodeP]
    congr; funext b
    exact decodeVariantR_eq idxs ts b.toNat (by simpa [noNodes] using h)

theorem decodeListR_eq : ∀ ts : List Ty, noNodes.noNodesList ts = true → decodeListR ts = decodeList ts
  | [], _ => rfl
  | t :: ts, h => by
    simp only [noNodes.noNodesList, Bool.and_eq_true] at h
    simp only [decodeListR, decodeList, decodeR_eq_decodeP t h.1, decodeListR_eq ts h.2]

theorem decodeVariantR_eq : ∀ (idxs : List Nat) (ts : List Ty) (b : Nat), noNodes.noNodesList ts = true →
    decodeVariantR idxs ts b = decodeVariant idxs ts b
  | [], _, _, _ => by simp [decodeVariantR, decodeVariant]
  | _ :: _, [], _, _ => by simp [decodeVariantR, decodeVariant]
  | i :: is, t :: ts, b, h => by
    simp only [noNodes.noNodesList, Bool.and_eq_true] at h
    simp only [decodeVariantR, decodeVariant, decodeR_eq_decodeP t h.1, decodeVariantR_eq is ts b h.2]
end

/-! ### accepted announcements stay below the limit -/

/-- state of `traceRec (memInput L I)`: ((inner, used), accepted trace) -/
abbrev LimSt (σ : Type) := (σ × Nat) × List Hook

/-- while nothing was refused: the accepted announcements are exactly the tracker's counter, which
    is below the limit (or nothing was announced yet) -/
def LimInv {σ : Type} (L : Nat) (st : LimSt σ) : Prop := allocTotal st.2 = st.1.2 ∧ (st.1.2 < L ∨ st.1.2 = 0)

/-- at any end of a run: the accepted announcements are below the limit (or there are none) -/
def LimFin {σ : Type} (L : Nat) (st : LimSt σ) : Prop := allocTotal st.2 < L ∨ allocTotal st.2 = 0

theorem LimInv.fin {σ : Type} {L : Nat} {st : LimSt σ} (h : LimInv L st) : LimFin L st := by
  unfold LimInv at h; unfold LimFin
  rcases h with ⟨e, a | a⟩
  · left; omega
  · right; omega

theorem lim_onAlloc {σ : Type} (I : InputOps σ) (L : Nat) (hL : L ≤ usizeMax) (n : Nat) (st : LimSt σ) (h : LimInv L st) :
    ((traceRec (memInput L I)).onAlloc n st).1 = .ok () → LimInv L ((traceRec (memInput L I)).onAlloc n st).2 := by
  obtain ⟨⟨s, u⟩, tr⟩ := st
  obtain ⟨e, _⟩ := h
  simp only at e
  simp only [traceRec, memInput]
  rcases res_cases (I.onAlloc n s) with ⟨x, s1, hx⟩ | ⟨s1, hx⟩ | ⟨s1, hx⟩ <;> simp only [hx]
  · cases x
    by_cases hge : satAdd u n ≥ L
    · simp [hge]
    · simp only [hge, if_false]
      intro _
      have hlt : satAdd u n < L := by omega
      have hs : satAdd u n = u + n := by
        unfold satAdd at hlt ⊢
        have : min (u + n) usizeMax < usizeMax + 1 := by omega
        by_cases hh : u + n ≤ usizeMax
        · exact Nat.min_eq_left hh
        · rw [Nat.min_eq_right (by omega)] at hlt; omega
      refine ⟨?_, Or.inl hlt⟩
      simp only [allocTotal_append, allocTotal, Nat.add_zero]
      omega
  · intro hc; cases hc
  · intro hc; cases hc

theorem lim_onAlloc_fin {σ : Type} (I : InputOps σ) (L : Nat) (n : Nat) (st : LimSt σ) (h : LimInv L st) :
    (∀ u, ((traceRec (memInput L I)).onAlloc n st).1 ≠ .ok u) → LimFin L ((traceRec (memInput L I)).onAlloc n st).2 := by
  obtain ⟨⟨s, u⟩, tr⟩ := st
  have hf := h.fin
  simp only [traceRec, memInput]
  rcases res_cases (I.onAlloc n s) with ⟨x, s1, hx⟩ | ⟨s1, hx⟩ | ⟨s1, hx⟩ <;> simp only [hx]
  · cases x
    by_cases hge : satAdd u n ≥ L
    · simp only [hge, if_true]; intro _; exact hf
    · simp only [hge, if_false]; intro hc; exact absurd rfl (hc ())
  · intro _; exact hf
  · intro _; exact hf

/-- Operations other than `on_before_alloc_mem` leave counter and accepted announcements alone. -/
theorem lim_read {σ : Type} (I : InputOps σ) (L n : Nat) (st : LimSt σ) (h : LimInv L st) :
    LimInv L ((traceRec (memInput L I)).read n st).2 := by
  obtain ⟨⟨s, u⟩, tr⟩ := st
  exact h

theorem lim_readByte {σ : Type} (I : InputOps σ) (L : Nat) (st : LimSt σ) (h : LimInv L st) :
    LimInv L ((traceRec (memInput L I)).readByte st).2 := by
  obtain ⟨⟨s, u⟩, tr⟩ := st
  exact h

theorem lim_remainingLen {σ : Type} (I : InputOps σ) (L : Nat) (st : LimSt σ) (h : LimInv L st) :
    LimInv L ((traceRec (memInput L I)).remainingLen st).2 := by
  obtain ⟨⟨s, u⟩, tr⟩ := st
  exact h

theorem lim_descend {σ : Type} (I : InputOps σ) (L : Nat) (st : LimSt σ) (h : LimInv L st) :
    LimInv L ((traceRec (memInput L I)).descend st).2 := by
  obtain ⟨⟨s, u⟩, tr⟩ := st
  simp only [traceRec, memInput]
  rcases res_cases (I.descend s) with ⟨x, s1, hx⟩ | ⟨s1, hx⟩ | ⟨s1, hx⟩ <;> simp only [hx]
  · cases x
    unfold LimInv at h ⊢
    simpa [allocTotal_append, allocTotal] using h
  · exact h
  · exact h

theorem lim_ascend {σ : Type} (I : InputOps σ) (L : Nat) (st : LimSt σ) (h : LimInv L st) :
    LimInv L ((traceRec (memInput L I)).ascend st) := by
  obtain ⟨⟨s, u⟩, tr⟩ := st
  unfold LimInv at h ⊢
  simpa [traceRec, memInput, allocTotal_append, allocTotal] using h

theorem lim_chunkLoop {σ : Type} (I : InputOps σ) (L : Nat) (hL : L ≤ usizeMax) (sz cl : Nat) :
    ∀ (fuel rem : Nat) (acc : Bytes) (st : LimSt σ), LimInv L st →
      ((∃ b, (chunkLoop (traceRec (memInput L I)) sz cl fuel rem acc st).1 = .ok b) →
        LimInv L (chunkLoop (traceRec (memInput L I)) sz cl fuel rem acc st).2) ∧
      LimFin L (chunkLoop (traceRec (memInput L I)) sz cl fuel rem acc st).2 := by
  intro fuel
  induction fuel with
  | zero => intro rem acc st h; simp only [chunkLoop]; exact ⟨fun _ => h, h.fin⟩
  | succ fuel ih =>
    intro rem acc st h
    rw [chunkLoop]
    by_cases h0 : rem = 0
    · simp only [h0, if_true]; exact ⟨fun _ => h, h.fin⟩
    · simp only [h0, if_false]
      have ha := lim_onAlloc I L hL (satMul (min cl rem) sz) st h
      have hf := lim_onAlloc_fin I L (satMul (min cl rem) sz) st h
      rcases res_cases ((traceRec (memInput L I)).onAlloc (satMul (min cl rem) sz) st) with ⟨x, s1, e⟩ | ⟨s1, e⟩ | ⟨s1, e⟩
      · simp only [e] at ha hf ⊢
        cases x
        have h1 : LimInv L s1 := ha trivial
        have hr := lim_read I L (min cl rem * sz) s1 h1
        rcases res_cases ((traceRec (memInput L I)).read (min cl rem * sz) s1) with ⟨b, s2, e2⟩ | ⟨s2, e2⟩ | ⟨s2, e2⟩
        · simp only [e2] at hr ⊢; exact ih _ _ _ hr
        · simp only [e2] at hr ⊢; exact ⟨(fun hh => by obtain ⟨_, hh⟩ := hh; cases hh), hr.fin⟩
        · simp only [e2] at hr ⊢; exact ⟨(fun hh => by obtain ⟨_, hh⟩ := hh; cases hh), hr.fin⟩
      · simp only [e] at hf ⊢
        exact ⟨(fun hh => by obtain ⟨_, hh⟩ := hh; cases hh), hf (by intro u hu; cases hu)⟩
      · simp only [e] at hf ⊢
        exact ⟨(fun hh => by obtain ⟨_, hh⟩ := hh; cases hh), hf (by intro u hu; cases hu)⟩

theorem lim_runBulk {σ : Type} (I : InputOps σ) (L : Nat) (hL : L ≤ usizeMax) (sz count : Nat) (st : LimSt σ) (h : LimInv L st) :
    ((∃ b, (runBulk (traceRec (memInput L I)) sz count st).1 = .ok b) →
      LimInv L (runBulk (traceRec (memInput L I)) sz count st).2) ∧
    LimFin L (runBulk (traceRec (memInput L I)) sz count st).2 := by
  unfold runBulk
  by_cases h1 : sz > maxPrealloc
  · simp only [h1, if_true]; exact ⟨(fun hh => by obtain ⟨_, hh⟩ := hh; cases hh), h.fin⟩
  · simp only [h1, if_false]
    by_cases h2 : count * sz > usizeMax
    · simp only [h2, if_true]; exact ⟨(fun hh => by obtain ⟨_, hh⟩ := hh; cases hh), h.fin⟩
    · simp only [h2, if_false]
      have hr := lim_remainingLen I L st h
      rcases res_cases ((traceRec (memInput L I)).remainingLen st) with ⟨x, s1, e⟩ | ⟨s1, e⟩ | ⟨s1, e⟩
      · simp only [e] at hr ⊢
        cases x with
        | none => exact lim_chunkLoop I L hL sz _ count count [] s1 hr
        | some r =>
          simp only []
          split
          · exact ⟨(fun hh => by obtain ⟨_, hh⟩ := hh; cases hh), hr.fin⟩
          · exact lim_chunkLoop I L hL sz _ count count [] s1 hr
      · simp only [e] at hr ⊢; exact ⟨(fun hh => by obtain ⟨_, hh⟩ := hh; cases hh), hr.fin⟩
      · simp only [e] at hr ⊢; exact ⟨(fun hh => by obtain ⟨_, hh⟩ := hh; cases hh), hr.fin⟩

/-- **For every program**, inner input, limit and starting point that satisfies the invariant: a
    run that ends normally still satisfies it, and however the run ends the accepted announcements
    are below the limit. -/
theorem lim_run {σ α : Type} (I : InputOps σ) (L : Nat) (hL : L ≤ usizeMax) (p : Prog α) :
    ∀ st : LimSt σ, LimInv L st →
      ((∃ a, (run (traceRec (memInput L I)) p st).1 = .ok a) → LimInv L (run (traceRec (memInput L I)) p st).2) ∧
      LimFin L (run (traceRec (memInput L I)) p st).2 := by
  induction p with
  | pure a => intro st h; exact ⟨fun _ => h, h.fin⟩
  | fail => intro st h; exact ⟨fun _ => h, h.fin⟩
  | panic => intro st h; exact ⟨fun _ => h, h.fin⟩
  | read n k ih =>
    intro st h
    have hr := lim_read I L n st h
    simp only [run]
    rcases res_cases ((traceRec (memInput L I)).read n st) with ⟨x, s1, e⟩ | ⟨s1, e⟩ | ⟨s1, e⟩
    · simp only [e] at hr ⊢; exact ih x s1 hr
    · simp only [e] at hr ⊢; exact ⟨(fun hh => by obtain ⟨_, hh⟩ := hh; cases hh), hr.fin⟩
    · simp only [e] at hr ⊢; exact ⟨(fun hh => by obtain ⟨_, hh⟩ := hh; cases hh), hr.fin⟩
  | readByte k ih =>
    intro st h
    have hr := lim_readByte I L st h
    simp only [run]
    rcases res_cases ((traceRec (memInput L I)).readByte st) with ⟨x, s1, e⟩ | ⟨s1, e⟩ | ⟨s1, e⟩
    · simp only [e] at hr ⊢; exact ih x s1 hr
    · simp only [e] at hr ⊢; exact ⟨(fun hh => by obtain ⟨_, hh⟩ := hh; cases hh), hr.fin⟩
    · simp only [e] at hr ⊢; exact ⟨(fun hh => by obtain ⟨_, hh⟩ := hh; cases hh), hr.fin⟩
  | descend k ih =>
    intro st h
    have hr := lim_descend I L st h
    simp only [run]
    rcases res_cases ((traceRec (memInput L I)).descend st) with ⟨x, s1, e⟩ | ⟨s1, e⟩ | ⟨s1, e⟩
    · simp only [e] at hr ⊢; exact ih x s1 hr
    · simp only [e] at hr ⊢; exact ⟨(fun hh => by obtain ⟨_, hh⟩ := hh; cases hh), hr.fin⟩
    · simp only [e] at hr ⊢; exact ⟨(fun hh => by obtain ⟨_, hh⟩ := hh; cases hh), hr.fin⟩
  | ascend k ih =>
    intro st h
    simp only [run]
    exact ih () _ (lim_ascend I L st h)
  | alloc n k ih =>
    intro st h
    have ha := lim_onAlloc I L hL n st h
    have hf := lim_onAlloc_fin I L n st h
    simp only [run]
    rcases res_cases ((traceRec (memInput L I)).onAlloc n st) with ⟨x, s1, e⟩ | ⟨s1, e⟩ | ⟨s1, e⟩
    · simp only [e] at ha ⊢; cases x; exact ih () s1 (ha trivial)
    · simp only [e] at hf ⊢; exact ⟨(fun hh => by obtain ⟨_, hh⟩ := hh; cases hh), hf (by intro u hu; cases hu)⟩
    · simp only [e] at hf ⊢; exact ⟨(fun hh => by obtain ⟨_, hh⟩ := hh; cases hh), hf (by intro u hu; cases hu)⟩
  | bulk sz c k ih =>
    intro st h
    have hb := lim_runBulk I L hL sz c st h
    simp only [run]
    rcases res_cases (runBulk (traceRec (memInput L I)) sz c st) with ⟨x, s1, e⟩ | ⟨s1, e⟩ | ⟨s1, e⟩
    · simp only [e] at hb ⊢; exact ih x s1 (hb.1 ⟨x, rfl⟩)
    · simp only [e] at hb ⊢; exact ⟨(fun hh => by obtain ⟨_, hh⟩ := hh; cases hh), hb.2⟩
    · simp only [e] at hb ⊢; exact ⟨(fun hh => by obtain ⟨_, hh⟩ := hh; cases hh), hb.2⟩
  | rawBytes n k ih =>
    intro st h
    have e0 : runRawBytes (traceRec (memInput L I)) n st = runBulk (traceRec (memInput L I)) 1 n st := rfl
    have hb := lim_runBulk I L hL 1 n st h
    simp only [run, e0]
    rcases res_cases (runBulk (traceRec (memInput L I)) 1 n st) with ⟨x, s1, e⟩ | ⟨s1, e⟩ | ⟨s1, e⟩
    · simp only [e] at hb ⊢; exact ih x s1 (hb.1 ⟨x, rfl⟩)
    · simp only [e] at hb ⊢; exact ⟨(fun hh => by obtain ⟨_, hh⟩ := hh; cases hh), hb.2⟩
    · simp only [e] at hb ⊢; exact ⟨(fun hh => by obtain ⟨_, hh⟩ := hh; cases hh), hb.2⟩

end Scale
