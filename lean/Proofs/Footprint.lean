/-
  Proofs/Footprint.lean — the memory a decoded value holds is linear in the length of its
  encoding (for types whose sequence elements consume input), C09.
-/
import Scale.Footprint
import Scale.Encode
import Scale.Wf
import Proofs.CompactEnc
import Proofs.Prim
import Proofs.EncodeRef
import Proofs.Bits
namespace Scale

theorem compact_length_pos (n : Nat) : 1 ≤ (Spec.compact n).length := by
  unfold Spec.compact
  split
  · simp [leBytes]
  · split
    · simp [leBytes]
    · split <;> simp [leBytes]

theorem flatten_length_ge (cs : List Bytes) (m : Nat) (h : ∀ c ∈ cs, m ≤ c.length) :
    cs.length * m ≤ cs.flatten.length := by
  induction cs with
  | nil => simp
  | cons c cs ih =>
    have h1 := h c (List.mem_cons_self)
    have h2 := ih (fun c' hc' => h c' (List.mem_cons_of_mem _ hc'))
    simp only [List.flatten_cons, List.length_append, List.length_cons, Nat.succ_mul]
    omega

theorem flatten_const_length (cs : List Bytes) (m : Nat) (h : ∀ c ∈ cs, c.length = m) :
    cs.flatten.length = cs.length * m := by
  induction cs with
  | nil => simp
  | cons c cs ih =>
    have h1 := h c (List.mem_cons_self)
    have h2 := ih (fun c' hc' => h c' (List.mem_cons_of_mem _ hc'))
    simp only [List.flatten_cons, List.length_append, List.length_cons, Nat.succ_mul]
    omega

mutual
/-- `minLen` is a lower bound on every encoding. -/
theorem minLen_le : ∀ (ty : Ty) (v : Val), wf ty v = true → minLen ty ≤ (Spec.encode ty v).length
  | .unit, v, _ => by simp [minLen]
  | .bool, v, h => by
    cases v <;> try (simp [wf] at h; done)
    simp [Spec.encode, minLen]
  | .optionBool, v, h => by
    cases v <;> try (simp [wf] at h; done)
    case none => simp [Spec.encode, minLen]
    case some v =>
      cases v <;> try (simp [wf] at h; done)
      case bool b => cases b <;> simp [Spec.encode, minLen]
  | .prim p, v, h => by
    simp only [wf] at h
    simp [Spec.encode, minLen, primBytes_length h]
  | .nonZero p, v, h => by
    simp only [wf, Bool.and_eq_true] at h
    simp [Spec.encode, minLen, primBytes_length h.1]
  | .compact w, v, h => by
    cases v <;> try (simp [wf] at h; done)
    case nat n => simp only [Spec.encode, minLen]; exact compact_length_pos n
  | .option t, v, h => by
    cases v <;> try (simp [wf] at h; done)
    case none => simp [Spec.encode, minLen]
    case some v => simp [Spec.encode, minLen]
  | .result t e, v, h => by
    cases v <;> try (simp [wf] at h; done)
    case ok v => simp [Spec.encode, minLen]
    case err v => simp [Spec.encode, minLen]
  | .tuple ts, v, h => by
    cases v <;> try (simp [wf] at h; done)
    case seq vs =>
      simp only [Spec.encode, minLen]
      exact minLenList_le ts vs (by simpa [wf] using h)
  | .array n t, v, h => by
    cases v <;> try (simp [wf] at h; done)
    case seq vs =>
      simp only [wf, Bool.and_eq_true, beq_iff_eq, List.all_eq_true] at h
      obtain ⟨rfl, hall⟩ := h
      simp only [Spec.encode, minLen]
      have := flatten_length_ge (vs.map (Spec.encode t)) (minLen t)
        (by intro c hc; obtain ⟨v, hv, rfl⟩ := List.mem_map.mp hc; exact minLen_le t v (hall v hv))
      simpa using this
  | .garray n t, v, h => by
    cases v <;> try (simp [wf] at h; done)
    case seq vs =>
      simp only [wf, Bool.and_eq_true, beq_iff_eq, List.all_eq_true] at h
      obtain ⟨rfl, hall⟩ := h
      simp only [Spec.encode, minLen]
      have := flatten_length_ge (vs.map (Spec.encode t)) (minLen t)
        (by intro c hc; obtain ⟨v, hv, rfl⟩ := List.mem_map.mp hc; exact minLen_le t v (hall v hv))
      simpa using this
  | .seq _ _ t, v, h => by
    cases v <;> try (simp [wf] at h; done)
    case seq vs =>
      simp only [Spec.encode, minLen, List.length_append]
      have := compact_length_pos vs.length
      omega
  | .str, v, h => by
    cases v <;> try (simp [wf] at h; done)
    case bytes bs =>
      simp only [Spec.encode, minLen, List.length_append]
      have := compact_length_pos bs.length
      omega
  | .bytes, v, h => by
    cases v <;> try (simp [wf] at h; done)
    case bytes bs =>
      simp only [Spec.encode, minLen, List.length_append]
      have := compact_length_pos bs.length
      omega
  | .box _ t, v, h => by
    simp only [Spec.encode, minLen]
    exact minLen_le t v (by simpa [wf] using h)
  | .wrap t, v, h => by
    simp only [Spec.encode, minLen]
    exact minLen_le t v (by simpa [wf] using h)
  | .duration, v, h => by
    obtain ⟨s, n, rfl, _, _⟩ := wf_duration h
    simp [Spec.encode, minLen]
  | .range t, v, h => by
    obtain ⟨a, b, rfl, ha, hb⟩ := wf_range h
    have h1 := minLen_le t a ha
    have h2 := minLen_le t b hb
    simp only [Spec.encode, minLen, List.length_append]; omega
  | .bitseq _ _, v, h => by
    cases v <;> try (simp [wf] at h; done)
    case bits bs =>
      simp only [Spec.encode, minLen, List.length_append]
      have := compact_length_pos bs.length
      omega
  | .enum idxs ts, v, h => by
    cases v <;> try (simp [wf] at h; done)
    case variant idx pv =>
      simp only [Spec.encode, minLen]
      exact encodeVariant_pos idxs ts idx pv (by simpa [wf] using h)

theorem minLenList_le : ∀ (ts : List Ty) (vs : List Val), wfList ts vs = true →
    minLen.minLenList ts ≤ (Spec.encodeList ts vs).length
  | [], vs, _ => by simp [minLen.minLenList]
  | t :: ts, vs, h => by
    cases vs with
    | nil => simp [wfList] at h
    | cons v vs =>
      simp only [wfList, Bool.and_eq_true] at h
      have h1 := minLen_le t v h.1
      have h2 := minLenList_le ts vs h.2
      simp only [Spec.encodeList, minLen.minLenList, List.length_append]; omega

theorem encodeVariant_pos : ∀ (idxs : List Nat) (ts : List Ty) (idx : Nat) (v : Val),
    wfVariant idxs ts idx v = true → 1 ≤ (Spec.encodeVariant idxs ts idx v).length
  | [], _, _, _, h => by simp [wfVariant] at h
  | _ :: _, [], _, _, h => by simp [wfVariant] at h
  | i :: is, t :: ts, idx, v, h => by
    simp only [wfVariant, Bool.and_eq_true, decide_eq_true_eq] at h
    simp only [Spec.encodeVariant]
    split
    · simp
    · next hi =>
      simp only [hi, if_false] at h
      exact encodeVariant_pos is ts idx v h.2
end

/-- Sum of per-element bounds. -/
theorem sum_held_le (f : Val → Nat) (e : Val → Bytes) (r b : Nat) (vs : List Val)
    (h : ∀ v ∈ vs, f v ≤ r * (e v).length + b) :
    (vs.map f).sum ≤ r * (vs.map e).flatten.length + vs.length * b := by
  induction vs with
  | nil => simp
  | cons v vs ih =>
    have h1 := h v (List.mem_cons_self)
    have h2 := ih (fun v' hv' => h v' (List.mem_cons_of_mem _ hv'))
    simp only [List.map_cons, List.sum_cons, List.flatten_cons, List.length_append, List.length_cons,
      Nat.mul_add, Nat.succ_mul]
    omega

mutual
/-- **Held memory is linear in the encoding.** -/
theorem held_le : ∀ (ty : Ty) (v : Val), productive ty = true → wf ty v = true →
    held ty v ≤ memRatio ty * (Spec.encode ty v).length + baseMem ty
  | .unit, v, _, _ => by cases v <;> simp [held]
  | .bool, v, _, _ => by cases v <;> simp [held]
  | .optionBool, v, _, _ => by cases v <;> simp [held]
  | .prim p, v, _, _ => by cases v <;> simp [held]
  | .nonZero p, v, _, _ => by cases v <;> simp [held]
  | .compact w, v, _, _ => by cases v <;> simp [held]
  | .duration, v, _, _ => by cases v <;> simp [held]
  | .option t, v, hp, h => by
    cases v <;> try (simp [wf] at h; done)
    case none => simp [held]
    case some v =>
      have := held_le t v (by simpa [productive] using hp) (by simpa [wf] using h)
      simp only [held, memRatio, baseMem, Spec.encode, List.length_cons, Nat.mul_add]
      omega
  | .result t e, v, hp, h => by
    simp only [productive, Bool.and_eq_true] at hp
    cases v <;> try (simp [wf] at h; done)
    case ok v =>
      have := held_le t v hp.1 (by simpa [wf] using h)
      simp only [held, memRatio, baseMem, Spec.encode, List.length_cons, Nat.mul_add, Nat.add_mul]
      omega
    case err v =>
      have := held_le e v hp.2 (by simpa [wf] using h)
      simp only [held, memRatio, baseMem, Spec.encode, List.length_cons, Nat.mul_add, Nat.add_mul]
      omega
  | .tuple ts, v, hp, h => by
    cases v <;> try (simp [wf] at h; done)
    case seq vs =>
      simp only [held, memRatio, baseMem, Spec.encode]
      exact heldList_le ts vs (by simpa [productive] using hp) (by simpa [wf] using h)
  | .array n t, v, hp, h => by
    cases v <;> try (simp [wf] at h; done)
    case seq vs =>
      simp only [wf, Bool.and_eq_true, beq_iff_eq, List.all_eq_true] at h
      obtain ⟨rfl, hall⟩ := h
      have := sum_held_le (held t) (Spec.encode t) (memRatio t) (baseMem t) vs
        (fun v hv => held_le t v (by simpa [productive] using hp) (hall v hv))
      simpa only [held, memRatio, baseMem, Spec.encode] using this
  | .garray n t, v, hp, h => by
    cases v <;> try (simp [wf] at h; done)
    case seq vs =>
      simp only [wf, Bool.and_eq_true, beq_iff_eq, List.all_eq_true] at h
      obtain ⟨rfl, hall⟩ := h
      have := sum_held_le (held t) (Spec.encode t) (memRatio t) (baseMem t) vs
        (fun v hv => held_le t v (by simpa [productive] using hp) (hall v hv))
      simpa only [held, memRatio, baseMem, Spec.encode] using this
  | .seq k sz t, v, hp, h => by
    simp only [productive, Bool.and_eq_true, decide_eq_true_eq] at hp
    cases v <;> try (simp [wf] at h; done)
    case seq vs =>
      simp only [wf, Bool.and_eq_true, decide_eq_true_eq, List.all_eq_true] at h
      have hsum := sum_held_le (held t) (Spec.encode t) (memRatio t) (baseMem t) vs
        (fun v hv => held_le t v hp.2 (h.2 v hv))
      have hlen : vs.length * 1 ≤ ((vs.map (Spec.encode t)).flatten).length :=
        flatten_length_ge (vs.map (Spec.encode t)) 1
          (by intro c hc; obtain ⟨v, hv, rfl⟩ := List.mem_map.mp hc
              exact Nat.le_trans hp.1 (minLen_le t v (h.2 v hv))) |> (by simpa using ·)
      have h1 : vs.length * sz ≤ ((vs.map (Spec.encode t)).flatten).length * sz :=
        Nat.mul_le_mul_right sz (by simpa using hlen)
      have h2 : vs.length * baseMem t ≤ ((vs.map (Spec.encode t)).flatten).length * baseMem t :=
        Nat.mul_le_mul_right _ (by simpa using hlen)
      simp only [held, memRatio, baseMem, Spec.encode, List.length_append, Nat.mul_add, Nat.add_mul]
      have c1 : sz * ((vs.map (Spec.encode t)).flatten).length = ((vs.map (Spec.encode t)).flatten).length * sz :=
        Nat.mul_comm _ _
      have c2 : baseMem t * ((vs.map (Spec.encode t)).flatten).length = ((vs.map (Spec.encode t)).flatten).length * baseMem t :=
        Nat.mul_comm _ _
      omega
  | .str, v, _, h => by
    cases v <;> try (simp [wf] at h; done)
    case bytes bs => simp only [held, memRatio, baseMem, Spec.encode, List.length_append]; omega
  | .bytes, v, _, h => by
    cases v <;> try (simp [wf] at h; done)
    case bytes bs => simp only [held, memRatio, baseMem, Spec.encode, List.length_append]; omega
  | .box sz t, v, hp, h => by
    have := held_le t v (by simpa [productive] using hp) (by simpa [wf] using h)
    simp only [held, memRatio, baseMem, Spec.encode]
    omega
  | .wrap t, v, hp, h => by
    have := held_le t v (by simpa [productive] using hp) (by simpa [wf] using h)
    simp only [held, memRatio, baseMem, Spec.encode]
    omega
  | .range t, v, hp, h => by
    obtain ⟨a, b, rfl, ha, hb⟩ := wf_range h
    have h1 := held_le t a (by simpa [productive] using hp) ha
    have h2 := held_le t b (by simpa [productive] using hp) hb
    simp only [held, memRatio, baseMem, Spec.encode, List.length_append, Nat.mul_add]
    omega
  | .bitseq store msb, v, _, h => by
    cases v <;> try (simp [wf] at h; done)
    case bits bs =>
      simp only [wf, Bool.and_eq_true, decide_eq_true_eq] at h
      have hw : 1 ≤ 8 * store.size := by cases store <;> simp [Prim.size]
      have hc := bitChunks_count (8 * store.size) hw bs.length bs (Nat.le_refl _)
      have hf := flatten_const_length
        ((bitChunks (8 * store.size) bs.length bs).map fun c =>
          leBytes store.size (bitsToElem (8 * store.size) msb 0 c)) store.size
        (by intro c hc; obtain ⟨x, _, rfl⟩ := List.mem_map.mp hc; simp)
      simp only [List.length_map] at hf
      simp only [held, memRatio, baseMem, Spec.encode, List.length_append, Impl.elts, hf, hc]
      omega
  | .enum idxs ts, v, hp, h => by
    cases v <;> try (simp [wf] at h; done)
    case variant idx pv =>
      simp only [held, memRatio, baseMem, Spec.encode]
      exact heldVariant_le idxs ts idx pv (by simpa [productive] using hp) (by simpa [wf] using h)

theorem heldList_le : ∀ (ts : List Ty) (vs : List Val), productive.productiveList ts = true →
    wfList ts vs = true →
    heldList ts vs ≤ memRatio.ratioList ts * (Spec.encodeList ts vs).length + baseMem.baseList ts
  | [], vs, _, _ => by simp [heldList]
  | t :: ts, vs, hp, h => by
    simp only [productive.productiveList, Bool.and_eq_true] at hp
    cases vs with
    | nil => simp [wfList] at h
    | cons v vs =>
      simp only [wfList, Bool.and_eq_true] at h
      have h1 := held_le t v hp.1 h.1
      have h2 := heldList_le ts vs hp.2 h.2
      simp only [heldList, memRatio.ratioList, baseMem.baseList, Spec.encodeList, List.length_append,
        Nat.mul_add, Nat.add_mul]
      omega

theorem heldVariant_le : ∀ (idxs : List Nat) (ts : List Ty) (idx : Nat) (v : Val),
    productive.productiveList ts = true → wfVariant idxs ts idx v = true →
    heldVariant idxs ts idx v ≤
      memRatio.ratioList ts * (Spec.encodeVariant idxs ts idx v).length + baseMem.baseList ts
  | [], _, _, _, _, h => by simp [wfVariant] at h
  | _ :: _, [], _, _, _, h => by simp [wfVariant] at h
  | i :: is, t :: ts, idx, v, hp, h => by
    simp only [productive.productiveList, Bool.and_eq_true] at hp
    simp only [wfVariant, Bool.and_eq_true, decide_eq_true_eq] at h
    simp only [heldVariant, Spec.encodeVariant, memRatio.ratioList, baseMem.baseList]
    split
    · next hi =>
      simp only [hi, if_true] at h
      have := held_le t v hp.1 h.2
      simp only [List.length_cons, Nat.mul_add, Nat.add_mul]
      omega
    · next hi =>
      simp only [hi, if_false] at h
      have := heldVariant_le is ts idx v hp.2 h.2
      simp only [Nat.add_mul]
      omega
end

end Scale
