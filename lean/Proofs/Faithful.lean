/-
  Proofs/Faithful.lean — decoding is independent of the `Input` implementation: any input that
  delivers the bytes of `bs` faithfully (whatever it reports as remaining length, however it
  positions itself after a failed read) decodes like the slice `bs`.
-/
import Proofs.Sim
import Proofs.BulkSlice
namespace Scale

/-- `R bs s`: input state `s` still has exactly the bytes `bs` to deliver. -/
structure Faithful {σ : Type} (I : InputOps σ) (R : Bytes → σ → Prop) : Prop where
  remainingLen : ∀ bs s, R bs s →
    ((I.remainingLen s).1 = .ok none ∨ (I.remainingLen s).1 = .ok (some bs.length)) ∧ R bs (I.remainingLen s).2
  read_ok : ∀ n bs s, R bs s → n ≤ bs.length → (I.read n s).1 = .ok (bs.take n) ∧ R (bs.drop n) (I.read n s).2
  read_err : ∀ n bs s, R bs s → bs.length < n → (I.read n s).1 = .err
  readByte_ok : ∀ b bs s, R (b :: bs) s → (I.readByte s).1 = .ok b ∧ R bs (I.readByte s).2
  readByte_err : ∀ s, R [] s → (I.readByte s).1 = .err
  descend : ∀ bs s, R bs s → (I.descend s).1 = .ok () ∧ R bs (I.descend s).2
  ascend : ∀ bs s, R bs s → R bs (I.ascend s)
  onAlloc : ∀ n bs s, R bs s → (I.onAlloc n s).1 = .ok () ∧ R bs (I.onAlloc n s).2
  raw : ∀ f, I.rawBytes = some f → ∀ n bs s, R bs s →
    (n ≤ bs.length → (f n s).1 = .ok (bs.take n) ∧ R (bs.drop n) (f n s).2) ∧ (bs.length < n → (f n s).1 = .err)
  /-- the bytes still to be delivered fit the address space -/
  bounded : ∀ bs s, R bs s → bs.length ≤ usizeMax

theorem prod_eta {α β} (x : α × β) : x = (x.1, x.2) := rfl

/-- The chunked bulk reader over a faithful input: all the bytes or an error. -/
theorem chunkLoop_faithful {σ : Type} {I : InputOps σ} {R : Bytes → σ → Prop} (h : Faithful I R)
    (sz cl : Nat) (hcl : 1 ≤ cl) :
    ∀ (fuel rem : Nat) (acc bs : Bytes) (s : σ), R bs s → rem ≤ fuel →
      (rem * sz ≤ bs.length →
        (chunkLoop I sz cl fuel rem acc s).1 = .ok (acc ++ bs.take (rem * sz)) ∧
        R (bs.drop (rem * sz)) (chunkLoop I sz cl fuel rem acc s).2) ∧
      (bs.length < rem * sz → (chunkLoop I sz cl fuel rem acc s).1 = .err) := by
  intro fuel
  induction fuel with
  | zero =>
    intro rem acc bs s hr hle
    have : rem = 0 := by omega
    subst this
    simp [chunkLoop, hr]
  | succ fuel ih =>
    intro rem acc bs s hr hle
    unfold chunkLoop
    by_cases h0 : rem = 0
    · subst h0; simp [hr]
    · simp only [h0, if_false]
      have hc1 : 1 ≤ min cl rem := by omega
      have hc2 : min cl rem ≤ rem := Nat.min_le_right _ _
      generalize hc : min cl rem = c at *
      obtain ⟨ha1, ha2⟩ := h.onAlloc (satMul c sz) bs s hr
      rw [prod_eta (I.onAlloc (satMul c sz) s), ha1]
      simp only
      have hmul : c * sz ≤ rem * sz := Nat.mul_le_mul_right sz hc2
      by_cases hlen : c * sz ≤ bs.length
      · obtain ⟨hr1, hr2⟩ := h.read_ok (c * sz) bs _ ha2 hlen
        rw [prod_eta (I.read (c * sz) _), hr1]
        simp only
        obtain ⟨i1, i2⟩ := ih (rem - c) (acc ++ bs.take (c * sz)) (bs.drop (c * sz)) _ hr2 (by omega)
        have hsub : (rem - c) * sz = rem * sz - c * sz := Nat.sub_mul _ _ _
        refine ⟨fun hall => ?_, fun hshort => ?_⟩
        · have hdl : (rem - c) * sz ≤ (bs.drop (c * sz)).length := by
            rw [List.length_drop, hsub]; exact Nat.sub_le_sub_right hall _
          obtain ⟨j1, j2⟩ := i1 hdl
          refine ⟨?_, ?_⟩
          · rw [j1, List.append_assoc, ← List.take_add]
            congr 1; rw [hsub, Nat.add_sub_cancel' hmul]
          · rw [List.drop_drop] at j2
            have : c * sz + (rem - c) * sz = rem * sz := by rw [hsub]; exact Nat.add_sub_cancel' hmul
            rwa [this] at j2
        · exact i2 (by rw [List.length_drop, hsub]; exact Nat.sub_lt_sub_right hlen hshort)
      · have := h.read_err (c * sz) bs _ ha2 (by omega)
        rw [prod_eta (I.read (c * sz) _), this]
        exact ⟨fun hall => by omega, fun _ => by trivial⟩

theorem runBulk_faithful {σ : Type} {I : InputOps σ} {R : Bytes → σ → Prop} (h : Faithful I R)
    (sz c : Nat) (hsz : sz ≤ maxPrealloc) (bs : Bytes) (s : σ) (hr : R bs s) :
    (c * sz > usizeMax → (runBulk I sz c s).1 = .err) ∧
    (c * sz ≤ usizeMax → bs.length < c * sz → (runBulk I sz c s).1 = .err) ∧
    (c * sz ≤ usizeMax → c * sz ≤ bs.length →
      (runBulk I sz c s).1 = .ok (bs.take (c * sz)) ∧ R (bs.drop (c * sz)) (runBulk I sz c s).2) := by
  unfold runBulk
  have hg : ¬ sz > maxPrealloc := by omega
  simp only [hg, if_false]
  by_cases hov : c * sz > usizeMax
  · rw [if_pos hov]
    exact ⟨fun _ => rfl, fun hh => absurd hov (by omega), fun hh => absurd hov (by omega)⟩
  · rw [if_neg hov]
    obtain ⟨hrl, hrs⟩ := h.remainingLen bs s hr
    have hcl : 1 ≤ (if sz = 0 then usizeMax else maxPrealloc / sz) := by
      split
      · simp [usizeMax]
      · next hz => exact (Nat.one_le_div_iff (by omega)).mpr hsz
    obtain ⟨l1, l2⟩ := chunkLoop_faithful h sz _ hcl c c [] bs _ hrs (Nat.le_refl _)
    rw [prod_eta (I.remainingLen s)]
    rcases hrl with hn | hsome
    · rw [hn]
      simp only
      refine ⟨fun hh => absurd hh hov, fun _ hshort => l2 hshort, fun _ hall => ?_⟩
      simpa using l1 hall
    · rw [hsome]
      simp only
      refine ⟨fun hh => absurd hh hov, fun _ hshort => by simp [hshort], fun _ hall => ?_⟩
      have : ¬ bs.length < c * sz := by omega
      simp only [this, if_false]
      simpa using l1 hall

/-- The slice itself is a faithful input. -/
def sliceRel : Bytes → Bytes → Prop := fun bs s => s = bs ∧ bs.length ≤ usizeMax

theorem slice_faithful : Faithful sliceInput sliceRel where
  remainingLen := by rintro bs s ⟨rfl, hb⟩; exact ⟨Or.inr rfl, rfl, hb⟩
  read_ok := by
    rintro n bs s ⟨rfl, hb⟩ hn
    simp only [sliceInput, sliceRead_eq, sliceRel]
    have : ¬ n > s.length := by omega
    simp [this]; omega
  read_err := by
    rintro n bs s ⟨rfl, hb⟩ hn
    simp only [sliceInput, sliceRead_eq]
    simp [hn]
  readByte_ok := by
    rintro b bs s ⟨rfl, hb⟩
    refine ⟨rfl, rfl, ?_⟩
    simp at hb; omega
  readByte_err := by rintro s ⟨rfl, hb⟩; rfl
  descend := by rintro bs s ⟨rfl, hb⟩; exact ⟨rfl, rfl, hb⟩
  ascend := by rintro bs s ⟨rfl, hb⟩; exact ⟨rfl, hb⟩
  onAlloc := by rintro n bs s ⟨rfl, hb⟩; exact ⟨rfl, rfl, hb⟩
  raw := by intro f hf; cases hf
  bounded := by rintro bs s ⟨rfl, hb⟩; exact hb

def faithRel {σ : Type} (R : Bytes → σ → Prop) : LaxRel Bytes σ :=
  { ok := fun bs s => R bs s, div := fun _ _ => False }

/-- A faithful input is laxly simulated by the slice of its remaining bytes (never diverging: the
    only disagreement possible is *where* the two stand after both have failed). -/
theorem faithful_laxOps {σ : Type} {I : InputOps σ} {R : Bytes → σ → Prop} (h : Faithful I R) :
    LaxOps sliceInput I (faithRel R) where
  read := by
    intro n bs s hr
    have hsl : sliceRel bs bs := ⟨rfl, h.bounded bs s hr⟩
    by_cases hn : n ≤ bs.length
    · obtain ⟨a, b⟩ := h.read_ok n bs s hr hn
      obtain ⟨c, d, _⟩ := slice_faithful.read_ok n bs bs hsl hn
      exact Or.inl ⟨by rw [a, c], by rw [d]; exact b⟩
    · have a := h.read_err n bs s hr (by omega)
      have c := slice_faithful.read_err n bs bs hsl (by omega)
      exact Or.inr (Or.inr ⟨c, a⟩)
  readByte := by
    intro bs s hr
    cases bs with
    | nil => exact Or.inr (Or.inr ⟨rfl, h.readByte_err s hr⟩)
    | cons b tl =>
      obtain ⟨a, c⟩ := h.readByte_ok b tl s hr
      exact Or.inl ⟨by rw [a]; rfl, c⟩
  descend := by
    intro bs s hr
    obtain ⟨a, c⟩ := h.descend bs s hr
    exact Or.inl ⟨by rw [a]; rfl, c⟩
  ascend := fun bs s hr => h.ascend bs s hr
  onAlloc := by
    intro n bs s hr
    obtain ⟨a, c⟩ := h.onAlloc n bs s hr
    exact Or.inl ⟨by rw [a]; rfl, c⟩
  bulk := by
    intro sz c bs s hr
    by_cases hg : sz > maxPrealloc
    · left
      simp only [runBulk, hg, if_true]
      exact ⟨by trivial, hr⟩
    · have hsz : sz ≤ maxPrealloc := by omega
      have hsl : sliceRel bs bs := ⟨rfl, h.bounded bs s hr⟩
      obtain ⟨a1, a2, a3⟩ := runBulk_faithful h sz c hsz bs s hr
      obtain ⟨b1, b2, b3⟩ := runBulk_faithful slice_faithful sz c hsz bs bs hsl
      by_cases hov : c * sz > usizeMax
      · exact Or.inr (Or.inr ⟨b1 hov, a1 hov⟩)
      · by_cases hlen : bs.length < c * sz
        · exact Or.inr (Or.inr ⟨b2 (by omega) hlen, a2 (by omega) hlen⟩)
        · obtain ⟨x1, x2⟩ := a3 (by omega) (by omega)
          obtain ⟨y1, y2, _⟩ := b3 (by omega) (by omega)
          exact Or.inl ⟨by rw [x1, y1], by rw [y2]; exact x2⟩
  raw := by
    intro n bs s hr
    have hbd := h.bounded bs s hr
    have hsl : sliceRel bs bs := ⟨rfl, hbd⟩
    have hs : runRawBytes sliceInput n = runBulk sliceInput 1 n := by funext x; rfl
    obtain ⟨b1, b2, b3⟩ := runBulk_faithful slice_faithful 1 n (by decide) bs bs hsl
    rw [hs]
    cases hf : I.rawBytes with
    | none =>
      have hi : runRawBytes I n = runBulk I 1 n := by funext x; simp [runRawBytes, hf]
      rw [hi]
      obtain ⟨a1, a2, a3⟩ := runBulk_faithful h 1 n (by decide) bs s hr
      by_cases hov : n * 1 > usizeMax
      · exact Or.inr (Or.inr ⟨b1 hov, a1 hov⟩)
      · by_cases hlen : bs.length < n * 1
        · exact Or.inr (Or.inr ⟨b2 (by omega) hlen, a2 (by omega) hlen⟩)
        · obtain ⟨x1, x2⟩ := a3 (by omega) (by omega)
          obtain ⟨y1, y2, _⟩ := b3 (by omega) (by omega)
          exact Or.inl ⟨by rw [x1, y1], by rw [y2]; exact x2⟩
    | some f =>
      have hi : runRawBytes I n = f n := by funext x; simp [runRawBytes, hf]
      rw [hi]
      obtain ⟨r1, r2⟩ := h.raw f hf n bs s hr
      by_cases hlen : bs.length < n * 1
      · have e1 : (runBulk sliceInput 1 n bs).1 = .err := by
          by_cases hov : n * 1 > usizeMax
          · exact b1 hov
          · exact b2 (by omega) hlen
        exact Or.inr (Or.inr ⟨e1, r2 (by omega)⟩)
      · by_cases hov : n * 1 > usizeMax
        · exfalso; omega
        · obtain ⟨x1, x2⟩ := r1 (by omega)
          obtain ⟨y1, y2, _⟩ := b3 (by omega) (by omega)
          simp only [Nat.mul_one] at y1 y2
          exact Or.inl ⟨by rw [x1, y1], by rw [y2]; exact x2⟩
  sRead := fun _ _ _ hd => hd.elim
  sReadByte := fun _ _ hd => hd.elim
  sDescend := fun _ _ hd => hd.elim
  sAscend := fun _ _ hd => hd.elim
  sOnAlloc := fun _ _ _ hd => hd.elim
  sBulk := fun _ _ _ _ hd => hd.elim
  sRaw := fun _ _ _ hd => hd.elim

end Scale
