/-
  Proofs/CompactDec.lean — the five compact decoders on a slice: round trip and canonicity.
-/
import Proofs.CompactEnc
import Proofs.RunSlice
namespace Scale
open Impl

theorem shr2 (x : Nat) : x >>> 2 = x / 4 := by rw [Nat.shiftRight_eq_div_pow]

theorem leBytes_succ (n x : Nat) : leBytes (n + 1) x = UInt8.ofNat (x % 256) :: leBytes n (x / 256) := rfl

theorem spec_compact_1 {x : Nat} (h : x < 64) : Spec.compact x = leBytes 1 (4 * x) := by
  simp [Spec.compact, show x < 2 ^ 6 by omega]

theorem spec_compact_2 {x : Nat} (h1 : 64 ≤ x) (h2 : x < 2 ^ 14) : Spec.compact x = leBytes 2 (4 * x + 1) := by
  simp [Spec.compact, show ¬ x < 2 ^ 6 by omega, h2]

theorem spec_compact_4 {x : Nat} (h1 : 2 ^ 14 ≤ x) (h2 : x < 2 ^ 30) :
    Spec.compact x = leBytes 4 (4 * x + 2) := by
  simp [Spec.compact, show ¬ x < 2 ^ 6 by omega, show ¬ x < 2 ^ 14 by omega, h2]

theorem spec_compact_big {x : Nat} (h : 2 ^ 30 ≤ x) :
    Spec.compact x = UInt8.ofNat (4 * (byteLen x - 4) + 3) :: leBytes (byteLen x) x := by
  simp [Spec.compact, show ¬ x < 2 ^ 6 by omega, show ¬ x < 2 ^ 14 by omega, show ¬ x < 2 ^ 30 by omega]

/-! ### arm 1 -/

theorem arm1_rt {hi x : Nat} (h1 : 64 ≤ x) (h2 : x ≤ hi) (h3 : x < 2 ^ 14) (rest : Bytes) :
    run sliceInput (compactArm1 hi (UInt8.ofNat ((4 * x + 1) % 256)))
      (leBytes 1 ((4 * x + 1) / 256) ++ rest) = (.ok x, rest) := by
  unfold compactArm1
  rw [run_slice_read_append _ rest (leBytes_length _ _)]
  have e : fromLe (UInt8.ofNat ((4 * x + 1) % 256) :: leBytes 1 ((4 * x + 1) / 256)) = 4 * x + 1 := by
    rw [← leBytes_succ, fromLe_leBytes_of_lt]; omega
  have e2 : (4 * x + 1) / 4 = x := by omega
  have c : x > 63 ∧ x ≤ hi := ⟨by omega, h2⟩
  simp only [e, shr2, e2, c, and_self, if_true, run_pure]

theorem arm1_can {hi : Nat} {p : UInt8} {s rest : Bytes} {x : Nat} (hp : p.toNat % 4 = 1)
    (h : run sliceInput (compactArm1 hi p) s = (.ok x, rest)) :
    64 ≤ x ∧ x ≤ hi ∧ x < 2 ^ 14 ∧ p :: s = leBytes 2 (4 * x + 1) ++ rest := by
  unfold compactArm1 at h
  obtain ⟨b, tl, rfl, hb, h⟩ := run_slice_read_ok h
  simp only [shr2] at h
  split at h
  · next hc =>
    simp only [run_pure, Prod.mk.injEq, Res.ok.injEq] at h
    obtain ⟨rfl, rfl⟩ := h
    have hl : (p :: b).length = 2 := by simp [hb]
    have hlt := fromLe_lt (p :: b)
    rw [hl] at hlt
    have hv : fromLe (p :: b) % 4 = 1 := by simp only [fromLe]; omega
    have e : 4 * (fromLe (p :: b) / 4) + 1 = fromLe (p :: b) := by omega
    refine ⟨by omega, hc.2, by omega, ?_⟩
    rw [e, leBytes_fromLe' hl]; rfl
  · simp at h

/-! ### arm 2 -/

theorem arm2_rt {hi x : Nat} (h1 : 2 ^ 14 ≤ x) (h2 : x ≤ hi) (h3 : x < 2 ^ 30) (rest : Bytes) :
    run sliceInput (compactArm2 hi (UInt8.ofNat ((4 * x + 2) % 256)))
      (leBytes 3 ((4 * x + 2) / 256) ++ rest) = (.ok x, rest) := by
  unfold compactArm2
  rw [run_slice_read_append _ rest (leBytes_length _ _)]
  have e : fromLe (UInt8.ofNat ((4 * x + 2) % 256) :: leBytes 3 ((4 * x + 2) / 256)) = 4 * x + 2 := by
    rw [← leBytes_succ, fromLe_leBytes_of_lt]; omega
  have e2 : (4 * x + 2) / 4 = x := by omega
  have c : x > 16383 ∧ x ≤ hi := ⟨by omega, h2⟩
  simp only [e, shr2, e2, c, and_self, if_true, run_pure]

theorem arm2_can {hi : Nat} {p : UInt8} {s rest : Bytes} {x : Nat} (hp : p.toNat % 4 = 2)
    (h : run sliceInput (compactArm2 hi p) s = (.ok x, rest)) :
    2 ^ 14 ≤ x ∧ x ≤ hi ∧ x < 2 ^ 30 ∧ p :: s = leBytes 4 (4 * x + 2) ++ rest := by
  unfold compactArm2 at h
  obtain ⟨b, tl, rfl, hb, h⟩ := run_slice_read_ok h
  simp only [shr2] at h
  split at h
  · next hc =>
    simp only [run_pure, Prod.mk.injEq, Res.ok.injEq] at h
    obtain ⟨rfl, rfl⟩ := h
    have hl : (p :: b).length = 4 := by simp [hb]
    have hlt := fromLe_lt (p :: b)
    rw [hl] at hlt
    have hv : fromLe (p :: b) % 4 = 2 := by simp only [fromLe]; omega
    have e : 4 * (fromLe (p :: b) / 4) + 2 = fromLe (p :: b) := by omega
    refine ⟨by omega, hc.2, by omega, ?_⟩
    rw [e, leBytes_fromLe' hl]; rfl
  · simp at h

/-! ### wide arms -/

theorem armWide_rt {n lo x : Nat} (h1 : lo < x) (h2 : x < 256 ^ n) (rest : Bytes) :
    run sliceInput (compactArmWide n lo) (leBytes n x ++ rest) = (.ok x, rest) := by
  unfold compactArmWide
  rw [run_slice_read_append _ rest (leBytes_length _ _)]
  simp [fromLe_leBytes_of_lt h2, h1]

theorem armWide_can {n lo : Nat} {s rest : Bytes} {x : Nat}
    (h : run sliceInput (compactArmWide n lo) s = (.ok x, rest)) :
    lo < x ∧ x < 256 ^ n ∧ s = leBytes n x ++ rest := by
  unfold compactArmWide at h
  obtain ⟨b, tl, rfl, hb, h⟩ := run_slice_read_ok h
  simp only at h
  split at h
  · next hc =>
    simp only [run_pure, Prod.mk.injEq, Res.ok.injEq] at h
    obtain ⟨rfl, rfl⟩ := h
    have hlt := fromLe_lt b
    rw [hb] at hlt
    exact ⟨hc, hlt, by rw [leBytes_fromLe' hb]⟩
  · simp at h

theorem armBytes_rt {w n x : Nat}
    (h1 : (2 ^ (8 * w) - 1) >>> ((w - n + 1) * 8) < x) (h2 : x < 256 ^ n) (rest : Bytes) :
    run sliceInput (compactArmBytes w n) (leBytes n x ++ rest) = (.ok x, rest) := by
  unfold compactArmBytes
  rw [run_bind, run_slice_replicate_rdByte_append rest (leBytes_length _ _)]
  simp [fromLe_leBytes_of_lt h2, h1]

theorem armBytes_can {w n : Nat} {s rest : Bytes} {x : Nat}
    (h : run sliceInput (compactArmBytes w n) s = (.ok x, rest)) :
    (2 ^ (8 * w) - 1) >>> ((w - n + 1) * 8) < x ∧ x < 256 ^ n ∧ s = leBytes n x ++ rest := by
  unfold compactArmBytes at h
  rw [run_bind] at h
  cases hr : run sliceInput (Prog.replicateM n Prog.rdByte) s with
  | mk r s1 =>
    rw [hr] at h
    cases r with
    | ok v =>
      obtain ⟨rfl, hv⟩ := run_slice_replicate_rdByte_ok hr
      simp only at h
      split at h
      · next hc =>
        simp only [run_pure, Prod.mk.injEq, Res.ok.injEq] at h
        obtain ⟨rfl, rfl⟩ := h
        have hlt := fromLe_lt v
        rw [hv] at hlt
        exact ⟨hc, hlt, by rw [leBytes_fromLe' hv]⟩
      · simp at h
    | err => simp at h
    | panic => simp at h

end Scale

namespace Scale
open Impl

/-! ### the length-tagged mode -/

theorem shift_thresh {w n : Nat} (h1 : 1 ≤ n) (h2 : n ≤ w) :
    (2 ^ (8 * w) - 1) >>> ((w - n + 1) * 8) = 256 ^ (n - 1) - 1 := by
  rw [Nat.shiftRight_eq_div_pow]
  have e : 8 * w = 8 * (n - 1) + (w - n + 1) * 8 := by omega
  rw [e, Nat.pow_add, pow256 (n - 1)]
  have hA : 0 < 2 ^ (8 * (n - 1)) := Nat.two_pow_pos _
  have hB : 0 < 2 ^ ((w - n + 1) * 8) := Nat.two_pow_pos _
  generalize 2 ^ (8 * (n - 1)) = A at *
  generalize 2 ^ ((w - n + 1) * 8) = B at *
  apply Nat.div_eq_of_lt_le
  · have : (A - 1) * B + B = A * B := by
      rw [← Nat.succ_mul]; congr 1; omega
    omega
  · have : (A - 1 + 1) = A := by omega
    rw [this]
    have : 0 < A * B := Nat.mul_pos hA hB
    omega

theorem pow256_mono {i j : Nat} (h : i ≤ j) : 256 ^ i ≤ 256 ^ j := Nat.pow_le_pow_right (by decide) h

theorem big_can {p : UInt8} {s rest : Bytes} {x n : Nat} (hp : p.toNat % 4 = 3)
    (hn : n = p.toNat / 4 + 4) (h1 : 256 ^ (n - 1) ≤ x) (h2 : x < 256 ^ n) (h30 : 2 ^ 30 ≤ x)
    (hs : s = leBytes n x ++ rest) : p :: s = Spec.compact x ++ rest := by
  have hn4 : 4 ≤ n := by omega
  have hb : byteLen x = n := (byteLen_eq_iff (by omega)).mpr ⟨h1, h2⟩
  rw [spec_compact_big h30, hb, hs]
  have : 4 * (n - 4) + 3 = p.toNat := by omega
  rw [this]
  simp

theorem tag_toNat {n : Nat} (h4 : 4 ≤ n) (h16 : n ≤ 16) :
    (UInt8.ofNat (4 * (n - 4) + 3)).toNat = 4 * (n - 4) + 3 := by
  rw [UInt8.toNat_ofNat']; omega

/-! ### the five decoders: round trip -/

theorem dec_mode0_rt {x : Nat} (h : x < 64) :
    (UInt8.ofNat (4 * x % 256)).toNat % 4 = 0 ∧ (UInt8.ofNat (4 * x % 256)).toNat >>> 2 = x := by
  rw [UInt8.toNat_ofNat', shr2]; omega

theorem compactDecode_rt {w x : Nat} (hw : w = 1 ∨ w = 2 ∨ w = 4 ∨ w = 8 ∨ w = 16)
    (hx : x < 2 ^ (8 * w)) (rest : Bytes) :
    compactDecode w (Spec.compact x ++ rest) = (.ok x, rest) := by
  unfold compactDecode
  rcases Nat.lt_or_ge x 64 with c1 | c1
  · -- single-byte mode
    rw [spec_compact_1 c1]
    obtain ⟨m0, m1⟩ := dec_mode0_rt c1
    rcases hw with rfl | rfl | rfl | rfl | rfl <;>
      simp only [compactDec, compactDec8, compactDec16, compactDec32, compactDec64, compactDec128,
        leBytes, List.cons_append, List.nil_append, run_slice_readByte_cons, m0, m1, run_pure]
  · rcases Nat.lt_or_ge x (2 ^ 14) with c2 | c2
    · -- two-byte mode
      rw [spec_compact_2 c1 c2, leBytes_succ]
      have m : (UInt8.ofNat ((4 * x + 1) % 256)).toNat % 4 = 1 := by
        rw [UInt8.toNat_ofNat']; omega
      rcases hw with rfl | rfl | rfl | rfl | rfl <;>
        simp only [compactDec, compactDec8, compactDec16, compactDec32, compactDec64, compactDec128,
          List.cons_append, run_slice_readByte_cons, m]
      · exact arm1_rt c1 (by omega) c2 rest
      · exact arm1_rt c1 (by omega) c2 rest
      · exact arm1_rt c1 (by omega) c2 rest
      · exact arm1_rt c1 (by omega) c2 rest
      · exact arm1_rt c1 (by omega) c2 rest
    · rcases Nat.lt_or_ge x (2 ^ 30) with c3 | c3
      · -- four-byte mode
        rw [spec_compact_4 c2 c3, leBytes_succ]
        have m : (UInt8.ofNat ((4 * x + 2) % 256)).toNat % 4 = 2 := by
          rw [UInt8.toNat_ofNat']; omega
        rcases hw with rfl | rfl | rfl | rfl | rfl <;>
          simp only [compactDec, compactDec8, compactDec16, compactDec32, compactDec64, compactDec128,
            List.cons_append, run_slice_readByte_cons, m]
        · omega
        · exact arm2_rt c2 (by omega) c3 rest
        · exact arm2_rt c2 (by simp [u32Max]; omega) c3 rest
        · exact arm2_rt c2 (by simp [u32Max]; omega) c3 rest
        · exact arm2_rt c2 (by simp [u32Max]; omega) c3 rest
      · -- length-tagged mode
        rw [spec_compact_big c3]
        have hb4 := byteLen_ge4 (show ¬ x < 2 ^ 30 by omega)
        have hbw := byteLen_le_of_lt hx
        have hlo := pow_byteLen_le (x := x) (by omega)
        have hhi := lt_pow_byteLen x
        have h16 : byteLen x ≤ 16 := by rcases hw with rfl | rfl | rfl | rfl | rfl <;> omega
        have tn := tag_toNat hb4 h16
        have m : (UInt8.ofNat (4 * (byteLen x - 4) + 3)).toNat % 4 = 3 := by rw [tn]; omega
        have mn : (UInt8.ofNat (4 * (byteLen x - 4) + 3)).toNat >>> 2 + 4 = byteLen x := by
          rw [tn, shr2]; omega
        rcases hw with rfl | rfl | rfl | rfl | rfl
        · omega
        · omega
        · have e : byteLen x = 4 := by omega
          have z : (UInt8.ofNat (4 * (byteLen x - 4) + 3)).toNat >>> 2 = 0 := by omega
          simp only [compactDec, compactDec32, List.cons_append, run_slice_readByte_cons, m, z, if_true]
          rw [e] at hhi ⊢
          exact armWide_rt (by simp [u32Max]; omega) hhi rest
        · simp only [compactDec, compactDec64, List.cons_append, run_slice_readByte_cons, m, mn]
          by_cases e4 : byteLen x = 4
          · simp only [e4, if_true]
            rw [e4] at hhi
            exact armWide_rt (by simp [u32Max]; omega) hhi rest
          · by_cases e8 : byteLen x = 8
            · simp only [e8, if_true]
              rw [e8] at hhi hlo
              exact armWide_rt (by simp [u64Max] at hlo ⊢; omega) hhi rest
            · simp only [e4, e8, if_false, show ¬ byteLen x > 8 by omega]
              exact armBytes_rt (by rw [shift_thresh (by omega) (by omega)]; omega) hhi rest
        · simp only [compactDec, compactDec128, List.cons_append, run_slice_readByte_cons, m, mn]
          by_cases e4 : byteLen x = 4
          · simp only [e4, if_true]
            rw [e4] at hhi
            exact armWide_rt (by simp [u32Max]; omega) hhi rest
          · by_cases e8 : byteLen x = 8
            · simp only [e8, if_true]
              rw [e8] at hhi hlo
              exact armWide_rt (by simp [u64Max] at hlo ⊢; omega) hhi rest
            · by_cases e16 : byteLen x = 16
              · simp only [e16, if_true]
                rw [e16] at hhi hlo
                exact armWide_rt (by simp at hlo ⊢; omega) hhi rest
              · simp only [e4, e8, e16, if_false, show ¬ byteLen x > 16 by omega]
                exact armBytes_rt (by rw [shift_thresh (by omega) (by omega)]; omega) hhi rest

end Scale

namespace Scale
open Impl

/-! ### the five decoders: canonicity (the only accepted byte string is the canonical form) -/

theorem mode0_can {p : UInt8} (hp : p.toNat % 4 = 0) (s : Bytes) :
    p :: s = Spec.compact (p.toNat >>> 2) ++ s ∧ p.toNat >>> 2 < 64 := by
  have hlt := p.toNat_lt
  rw [shr2]
  have hx : p.toNat / 4 < 64 := by omega
  rw [spec_compact_1 hx]
  have : 4 * (p.toNat / 4) = p.toNat := by omega
  simp only [leBytes, this, List.cons_append, List.nil_append]
  have : p.toNat % 256 = p.toNat := by omega
  rw [this]
  simp [hx]

theorem wide_pow {n : Nat} {x : Nat} (hn : 1 ≤ n) (h : 256 ^ (n - 1) - 1 < x) : 256 ^ (n - 1) ≤ x := by
  omega

theorem compactDecode_can {w x : Nat} {bs rest : Bytes}
    (hw : w = 1 ∨ w = 2 ∨ w = 4 ∨ w = 8 ∨ w = 16)
    (h : compactDecode w bs = (.ok x, rest)) :
    x < 2 ^ (8 * w) ∧ bs = Spec.compact x ++ rest := by
  unfold compactDecode at h
  cases bs with
  | nil => rcases hw with rfl | rfl | rfl | rfl | rfl <;> simp [compactDec, compactDec8, compactDec16,
      compactDec32, compactDec64, compactDec128] at h
  | cons p s =>
    have hlt := p.toNat_lt
    have hm : p.toNat % 4 = 0 ∨ p.toNat % 4 = 1 ∨ p.toNat % 4 = 2 ∨ p.toNat % 4 = 3 := by omega
    rcases hm with hm | hm | hm | hm
    · -- mode 0
      obtain ⟨e, hx⟩ := mode0_can hm s
      rcases hw with rfl | rfl | rfl | rfl | rfl <;>
        simp only [compactDec, compactDec8, compactDec16, compactDec32, compactDec64, compactDec128,
          run_slice_readByte_cons, hm, run_pure, Prod.mk.injEq, Res.ok.injEq] at h <;>
        (obtain ⟨rfl, rfl⟩ := h; exact ⟨by omega, e⟩)
    · -- mode 1
      rcases hw with rfl | rfl | rfl | rfl | rfl <;>
        simp only [compactDec, compactDec8, compactDec16, compactDec32, compactDec64, compactDec128,
          run_slice_readByte_cons, hm] at h <;>
        (obtain ⟨a, b, c, d⟩ := arm1_can hm h
         rw [spec_compact_2 a c]
         exact ⟨by omega, d⟩)
    · -- mode 2
      rcases hw with rfl | rfl | rfl | rfl | rfl <;>
        simp only [compactDec, compactDec8, compactDec16, compactDec32, compactDec64, compactDec128,
          run_slice_readByte_cons, hm, run_fail] at h
      · simp at h
      · obtain ⟨a, b, c, d⟩ := arm2_can hm h
        rw [spec_compact_4 a c]
        exact ⟨by omega, d⟩
      · obtain ⟨a, b, c, d⟩ := arm2_can hm h
        rw [spec_compact_4 a c]
        exact ⟨by omega, d⟩
      · obtain ⟨a, b, c, d⟩ := arm2_can hm h
        rw [spec_compact_4 a c]
        exact ⟨by omega, d⟩
      · obtain ⟨a, b, c, d⟩ := arm2_can hm h
        rw [spec_compact_4 a c]
        exact ⟨by omega, d⟩
    · -- mode 3
      rcases hw with rfl | rfl | rfl | rfl | rfl
      · simp [compactDec, compactDec8, hm] at h
      · simp [compactDec, compactDec16, hm] at h
      · simp only [compactDec, compactDec32, run_slice_readByte_cons, hm, shr2] at h
        split at h
        · next hz =>
          obtain ⟨a, b, c⟩ := armWide_can h
          simp [u32Max] at a
          refine ⟨by rw [← pow256]; exact b, ?_⟩
          exact big_can (n := 4) hm (by omega) (by omega) b (by omega) c
        · simp at h
      · simp only [compactDec, compactDec64, run_slice_readByte_cons, hm, shr2] at h
        split at h
        · next hz =>
          obtain ⟨a, b, c⟩ := armWide_can h
          simp [u32Max] at a
          refine ⟨by omega, ?_⟩
          exact big_can (n := 4) hm (by omega) (by omega) b (by omega) c
        · split at h
          · next hz hz8 =>
            obtain ⟨a, b, c⟩ := armWide_can h
            simp [u64Max] at a
            refine ⟨by rw [← pow256]; exact b, ?_⟩
            exact big_can (n := 8) hm (by omega) (by omega) b (by omega) c
          · split at h
            · simp at h
            · next hz hz8 hz9 =>
              obtain ⟨a, b, c⟩ := armBytes_can h
              rw [shift_thresh (by omega) (by omega)] at a
              have a' := wide_pow (by omega) a
              have hmono : 256 ^ 4 ≤ 256 ^ (p.toNat / 4 + 4 - 1) := pow256_mono (by omega)
              have hmono2 : 256 ^ (p.toNat / 4 + 4) ≤ 256 ^ 8 := pow256_mono (by omega)
              refine ⟨by rw [← pow256]; omega, ?_⟩
              exact big_can hm rfl a' b (by omega) c
      · simp only [compactDec, compactDec128, run_slice_readByte_cons, hm, shr2] at h
        split at h
        · next hz =>
          obtain ⟨a, b, c⟩ := armWide_can h
          simp [u32Max] at a
          refine ⟨by omega, ?_⟩
          exact big_can (n := 4) hm (by omega) (by omega) b (by omega) c
        · split at h
          · next hz hz8 =>
            obtain ⟨a, b, c⟩ := armWide_can h
            simp [u64Max] at a
            refine ⟨by omega, ?_⟩
            exact big_can (n := 8) hm (by omega) (by omega) b (by omega) c
          · split at h
            · next hz hz8 hz16 =>
              obtain ⟨a, b, c⟩ := armWide_can h
              simp at a
              refine ⟨by rw [← pow256]; exact b, ?_⟩
              exact big_can (n := 16) hm (by omega) (by omega) b (by omega) c
            · split at h
              · simp at h
              · next hz hz8 hz16 hz17 =>
                obtain ⟨a, b, c⟩ := armBytes_can h
                rw [shift_thresh (by omega) (by omega)] at a
                have a' := wide_pow (by omega) a
                have hmono : 256 ^ 4 ≤ 256 ^ (p.toNat / 4 + 4 - 1) := pow256_mono (by omega)
                have hmono2 : 256 ^ (p.toNat / 4 + 4) ≤ 256 ^ 16 := pow256_mono (by omega)
                refine ⟨by rw [← pow256]; omega, ?_⟩
                exact big_can hm rfl a' b (by omega) c

end Scale

namespace Scale
open Impl

/-! ### the decoders never panic -/

theorem arm1_no_panic (hi : Nat) (p : UInt8) (t : Bytes) :
    (run sliceInput (compactArm1 hi p) t).1 ≠ .panic := by
  unfold compactArm1; rw [run_slice_read]; split
  · simp
  · simp only; split <;> simp

theorem arm2_no_panic (hi : Nat) (p : UInt8) (t : Bytes) :
    (run sliceInput (compactArm2 hi p) t).1 ≠ .panic := by
  unfold compactArm2; rw [run_slice_read]; split
  · simp
  · simp only; split <;> simp

theorem armWide_no_panic (n lo : Nat) (t : Bytes) :
    (run sliceInput (compactArmWide n lo) t).1 ≠ .panic := by
  unfold compactArmWide; rw [run_slice_read]; split
  · simp
  · simp only; split <;> simp

theorem replicate_rdByte_no_panic (n : Nat) (t : Bytes) :
    (run sliceInput (Prog.replicateM n Prog.rdByte) t).1 ≠ .panic := by
  induction n generalizing t with
  | zero => simp [Prog.replicateM]
  | succ n ih =>
    cases t with
    | nil => simp [Prog.replicateM, run_bind, Prog.rdByte]
    | cons b t' =>
      have := ih t'
      simp only [Prog.replicateM, run_bind, Prog.rdByte, run_slice_readByte_cons, run_pure] at this ⊢
      cases hr : run sliceInput (Prog.replicateM n (Prog.readByte Prog.pure)) t' with
      | mk r s1 => cases r <;> simp_all

theorem armBytes_no_panic (w n : Nat) (t : Bytes) :
    (run sliceInput (compactArmBytes w n) t).1 ≠ .panic := by
  unfold compactArmBytes
  rw [run_bind]
  have := replicate_rdByte_no_panic n t
  cases hr : run sliceInput (Prog.replicateM n Prog.rdByte) t with
  | mk r s1 =>
    rw [hr] at this
    cases r with
    | ok v => simp only; split <;> simp
    | err => simp
    | panic => simp at this

theorem compactDecode_no_panic {w : Nat} (hw : w = 1 ∨ w = 2 ∨ w = 4 ∨ w = 8 ∨ w = 16) (bs : Bytes) :
    (compactDecode w bs).1 ≠ .panic := by
  intro h
  unfold compactDecode at h
  cases bs with
  | nil => rcases hw with rfl | rfl | rfl | rfl | rfl <;> simp [compactDec, compactDec8,
      compactDec16, compactDec32, compactDec64, compactDec128] at h
  | cons p s =>
    have hm : p.toNat % 4 = 0 ∨ p.toNat % 4 = 1 ∨ p.toNat % 4 = 2 ∨ p.toNat % 4 = 3 := by omega
    rcases hw with rfl | rfl | rfl | rfl | rfl <;> rcases hm with hm | hm | hm | hm <;>
      simp only [compactDec, compactDec8, compactDec16, compactDec32,
        compactDec64, compactDec128, run_slice_readByte_cons, hm, run_pure, run_fail] at h <;>
      first
        | (simp at h; done)
        | exact arm1_no_panic _ _ _ h
        | exact arm2_no_panic _ _ _ h
        | ((repeat' split at h) <;> first
            | (simp at h; done)
            | exact armWide_no_panic _ _ _ h
            | exact armBytes_no_panic _ _ _ h)

end Scale
