/-
  Proofs/EncodeRef.lean — `Impl.encodeTo` refines `Spec.encode` on well-formed values.
-/
import Scale.Encode
import Scale.Wf
import Proofs.CompactEnc
namespace Scale
open Impl

theorem resConcat_ok {fs : List (Res Bytes)} {bs : List Bytes}
    (h : fs = bs.map Res.ok) : resConcat fs = .ok bs.flatten := by
  subst h
  induction bs with
  | nil => rfl
  | cons b bs ih => simp [resConcat, ih, Res.map]

theorem resConcat_map {α} (f : α → Res Bytes) (g : α → Bytes) (xs : List α)
    (h : ∀ x ∈ xs, f x = .ok (g x)) : resConcat (xs.map f) = .ok (xs.map g).flatten := by
  induction xs with
  | nil => rfl
  | cons x xs ih =>
    simp only [List.map_cons, resConcat, h x (List.mem_cons_self), List.flatten_cons]
    rw [ih (fun y hy => h y (List.mem_cons_of_mem _ hy))]
    rfl

theorem widthOk_iff {w : Nat} (h : widthOk w = true) : w = 1 ∨ w = 2 ∨ w = 4 ∨ w = 8 ∨ w = 16 := by
  simp [widthOk] at h; omega

theorem encodeLen_ok {n : Nat} (h : n ≤ u32Max) : encodeLen n = .ok (Spec.compact n) := by
  unfold encodeLen
  have : ¬ n > u32Max := by omega
  simp only [this, if_false]
  apply compactEncodeTo_eq_spec (by simp)
  simp [u32Max] at h; omega

theorem sliceNoLen_ok (t : Ty) (vs : List Val)
    (h : ∀ v ∈ vs, encodeTo t v = .ok (Spec.encode t v)) :
    sliceNoLen t (encodeTo t) vs = .ok (vs.map (Spec.encode t)).flatten := by
  unfold sliceNoLen
  split
  · next p =>
    simp only [bulkBytes]
    have : vs.map (primBytes p) = vs.map (Spec.encode (.prim p)) :=
      List.map_congr_left (fun v _ => by rw [Spec.encode])
    rw [this]
  · exact resConcat_map _ _ _ h

theorem wf_duration {v : Val} (h : wf .duration v = true) :
    ∃ s n, v = .seq [.nat s, .nat n] ∧ s < 2 ^ 64 ∧ n < 1000000000 := by
  cases v <;> try (simp [wf] at h; done)
  case seq vs =>
    match vs, h with
    | [], h => simp [wf] at h
    | [a], h => simp [wf] at h
    | a :: b :: c :: r, h => simp [wf] at h
    | [a, b], h =>
      cases a <;> try (simp [wf] at h; done)
      case nat s =>
        cases b <;> try (simp [wf] at h; done)
        case nat n => exact ⟨s, n, rfl, by simpa [wf] using h⟩

theorem wf_range {t : Ty} {v : Val} (h : wf (.range t) v = true) :
    ∃ a b, v = .seq [a, b] ∧ wf t a = true ∧ wf t b = true := by
  cases v <;> try (simp [wf] at h; done)
  case seq vs =>
    match vs, h with
    | [], h => simp [wf] at h
    | [a], h => simp [wf] at h
    | a :: b :: c :: r, h => simp [wf] at h
    | [a, b], h => exact ⟨a, b, rfl, by simpa [wf] using h⟩

mutual
theorem encodeTo_ref : ∀ (ty : Ty) (v : Val), wf ty v = true → encodeTo ty v = .ok (Spec.encode ty v)
  | .unit, v, h => by simp [encodeTo, Spec.encode]
  | .bool, v, h => by
    cases v <;> simp [wf] at h
    case bool b => simp [encodeTo, Spec.encode]
  | .optionBool, v, h => by
    cases v <;> try (simp [wf] at h; done)
    case none => simp [encodeTo, Spec.encode]
    case some v =>
      cases v <;> try (simp [wf] at h; done)
      case bool b => cases b <;> simp [encodeTo, Spec.encode]
  | .prim p, v, h => by simp [encodeTo, Spec.encode]
  | .nonZero p, v, h => by simp [encodeTo, Spec.encode]
  | .compact w, v, h => by
    cases v <;> simp [wf] at h
    case nat n =>
      simp only [encodeTo, Spec.encode]
      exact compactEncodeTo_eq_spec (widthOk_iff h.1) h.2
  | .option t, v, h => by
    cases v <;> simp [wf] at h
    case none => simp [encodeTo, Spec.encode]
    case some v => simp [encodeTo, Spec.encode, encodeTo_ref t v h, Res.map]
  | .result t e, v, h => by
    cases v <;> simp [wf] at h
    case ok v => simp [encodeTo, Spec.encode, encodeTo_ref t v h, Res.map]
    case err v => simp [encodeTo, Spec.encode, encodeTo_ref e v h, Res.map]
  | .tuple ts, v, h => by
    cases v <;> simp [wf] at h
    case seq vs => simp [encodeTo, Spec.encode, encodeToList_ref ts vs h]
  | .array n t, v, h => by
    cases v <;> simp [wf] at h
    case seq vs =>
      simp only [encodeTo, Spec.encode]
      exact sliceNoLen_ok t vs (fun v hv => encodeTo_ref t v (h.2 v hv))
  | .garray n t, v, h => by
    cases v <;> simp [wf] at h
    case seq vs =>
      simp only [encodeTo, Spec.encode]
      exact resConcat_map _ _ _ (fun v hv => encodeTo_ref t v (h.2 v hv))
  | .seq k sz t, v, h => by
    cases v <;> simp [wf] at h
    case seq vs =>
      have hl := encodeLen_ok h.1
      have he : ∀ v ∈ vs, encodeTo t v = .ok (Spec.encode t v) := fun v hv => encodeTo_ref t v (h.2 v hv)
      simp only [encodeTo, Spec.encode, hl, Res.bind]
      cases k <;> simp only [sliceNoLen_ok t vs he, resConcat_map _ _ _ he, Res.map]
  | .str, v, h => by
    cases v <;> simp [wf] at h
    case bytes bs => simp [encodeTo, Spec.encode, encodeLen_ok h.1, Res.map]
  | .bytes, v, h => by
    cases v <;> simp [wf] at h
    case bytes bs => simp [encodeTo, Spec.encode, encodeLen_ok h, Res.map]
  | .box sz t, v, h => by
    simp only [wf] at h
    simp [encodeTo, Spec.encode, encodeTo_ref t v h]
  | .wrap t, v, h => by
    simp only [wf] at h
    simp [encodeTo, Spec.encode, encodeTo_ref t v h]
  | .duration, v, h => by
    obtain ⟨s, n, rfl, _, _⟩ := wf_duration h
    simp [encodeTo, Spec.encode]
  | .range t, v, h => by
    obtain ⟨a, b, rfl, ha, hb⟩ := wf_range h
    simp [encodeTo, Spec.encode, encodeTo_ref t a ha, encodeTo_ref t b hb, Res.bind, Res.map]
  | .bitseq store msb, v, h => by
    cases v <;> simp [wf] at h
    case bits bs =>
      have : ¬ bs.length > maxBits := by omega
      have hl : compactEncodeTo 4 bs.length = .ok (Spec.compact bs.length) := by
        apply compactEncodeTo_eq_spec (by simp)
        have := h.2; simp [maxBits] at this; omega
      simp [encodeTo, Spec.encode, this, hl, Res.map]
  | .enum idxs ts, v, h => by
    cases v <;> simp [wf] at h
    case variant idx v => simp [encodeTo, Spec.encode, encodeToVariant_ref idxs ts idx v h]

theorem encodeToList_ref : ∀ (ts : List Ty) (vs : List Val), wfList ts vs = true →
    encodeToList ts vs = .ok (Spec.encodeList ts vs)
  | [], vs, h => by cases vs <;> simp [wfList] at h <;> simp [encodeToList, Spec.encodeList]
  | t :: ts, vs, h => by
    cases vs <;> simp [wfList] at h
    case cons v vs =>
      simp [encodeToList, Spec.encodeList, encodeTo_ref t v h.1, encodeToList_ref ts vs h.2, Res.bind, Res.map]

theorem encodeToVariant_ref : ∀ (idxs : List Nat) (ts : List Ty) (idx : Nat) (v : Val),
    wfVariant idxs ts idx v = true → encodeToVariant idxs ts idx v = .ok (Spec.encodeVariant idxs ts idx v)
  | [], ts, idx, v, h => by simp [wfVariant] at h
  | i :: is, [], idx, v, h => by simp [wfVariant] at h
  | i :: is, t :: ts, idx, v, h => by
    simp only [wfVariant, Bool.and_eq_true, decide_eq_true_eq] at h
    obtain ⟨hlt, h⟩ := h
    simp only [encodeToVariant, Spec.encodeVariant]
    split at h
    · next hi =>
      subst hi
      have : i % 256 = i := by omega
      simp [encodeTo_ref t v h, Res.map, this]
    · next hi =>
      simp [hi, encodeToVariant_ref is ts idx v h]
end

end Scale
