/-
  Props/C04.lean — Compact integers: canonical, minimal, width-compatible bijection.

  Only property theorems and non-vacuity examples live here; helper lemmas are in `Proofs/`.
  Widths are in bytes (`w ∈ {1,2,4,8,16}` for u8 … u128). `Impl.*` are the transliterations of
  `src/compact.rs` that the correspondence check runs against the real crate.
-/
import Proofs.CompactDec
namespace Scale.C04
open Scale

def Width (w : Nat) : Prop := w = 1 ∨ w = 2 ∨ w = 4 ∨ w = 8 ∨ w = 16

/-- Each of the five hand-unrolled encoders produces the specification's compact form and
    never hits one of its `assert!`s. -/
theorem encode_refines_spec {w x : Nat} (hw : Width w) (hx : x < 2 ^ (8 * w)) :
    Impl.compactEncodeTo w x = .ok (Spec.compact x) :=
  compactEncodeTo_eq_spec hw hx

/-- The fixed-capacity `using_encoded` path yields the same bytes and its capacity assertion
    never fires (2/4/5/9/17 bytes suffice). -/
theorem using_encoded_refines_spec {w x : Nat} (hw : Width w) (hx : x < 2 ^ (8 * w)) :
    Impl.compactUsingEncoded w x = .ok (Spec.compact x) := by
  unfold Impl.compactUsingEncoded
  rw [compactEncodeTo_eq_spec hw hx]
  have := spec_compactLen_le_cap hw hx
  rw [← spec_compact_length] at this
  simp [this]

/-- The advertised compact length equals the produced length. -/
theorem compact_len_eq {w x : Nat} (hw : Width w) (hx : x < 2 ^ (8 * w)) :
    Impl.compactLen w x = (Spec.compact x).length := by
  rw [compactLen_eq_spec hw hx, spec_compact_length]

/-- Shortest form: 1 byte below 2^6, 2 below 2^14, 4 below 2^30, otherwise one tag byte plus the
    minimal number of little-endian bytes. -/
theorem compact_shortest (x : Nat) :
    (Spec.compact x).length =
      if x < 2 ^ 6 then 1 else if x < 2 ^ 14 then 2 else if x < 2 ^ 30 then 4 else 1 + byteLen x := by
  rw [spec_compact_length]; rfl

/-- In the length-tagged mode the payload has no leading zero byte: its length is the minimal
    byte length of the value, and one byte fewer cannot hold the value. -/
theorem big_mode_minimal {x : Nat} (h : 2 ^ 30 ≤ x) :
    Spec.compact x = UInt8.ofNat (4 * (byteLen x - 4) + 3) :: leBytes (byteLen x) x ∧
    256 ^ (byteLen x - 1) ≤ x ∧ x < 256 ^ byteLen x :=
  ⟨spec_compact_big h, pow_byteLen_le (by have := byteLen_ge4 (show ¬ x < 2 ^ 30 by omega); omega),
    lt_pow_byteLen x⟩

/-- Decoding accepts a byte string iff it begins with exactly the canonical form of a value that
    fits the width, and returns that value and the untouched rest. -/
theorem decode_iff_canonical {w : Nat} (hw : Width w) (bs rest : Bytes) (x : Nat) :
    compactDecode w bs = (.ok x, rest) ↔ x < 2 ^ (8 * w) ∧ bs = Spec.compact x ++ rest := by
  constructor
  · exact compactDecode_can hw
  · rintro ⟨hx, rfl⟩
    exact compactDecode_rt hw hx rest

/-- Round trip through the real code paths (encoder transliteration, decoder transliteration). -/
theorem roundtrip {w x : Nat} (hw : Width w) (hx : x < 2 ^ (8 * w)) (rest : Bytes) :
    ∃ bs, Impl.compactEncodeTo w x = .ok bs ∧ compactDecode w (bs ++ rest) = (.ok x, rest) :=
  ⟨Spec.compact x, compactEncodeTo_eq_spec hw hx, compactDecode_rt hw hx rest⟩

/-- No second byte string decodes to the same value: two accepted inputs yielding the same value
    share the consumed prefix. -/
theorem unique_encoding {w : Nat} (hw : Width w) {bs₁ bs₂ r₁ r₂ : Bytes} {x : Nat}
    (h₁ : compactDecode w bs₁ = (.ok x, r₁)) (h₂ : compactDecode w bs₂ = (.ok x, r₂)) :
    ∃ pre, bs₁ = pre ++ r₁ ∧ bs₂ = pre ++ r₂ :=
  ⟨Spec.compact x, (compactDecode_can hw h₁).2, (compactDecode_can hw h₂).2⟩

/-- A value encodes to the same bytes under every width able to hold it. -/
theorem width_compatible {w w' x : Nat} (hw : Width w) (hw' : Width w') (hx : x < 2 ^ (8 * w))
    (hx' : x < 2 ^ (8 * w')) : Impl.compactEncodeTo w x = Impl.compactEncodeTo w' x := by
  rw [compactEncodeTo_eq_spec hw hx, compactEncodeTo_eq_spec hw' hx']

/-- The decoder never panics (its `unreachable!()` arms are dead), on any input. -/
theorem decode_never_panics {w : Nat} (hw : Width w) (bs : Bytes) :
    (compactDecode w bs).1 ≠ .panic :=
  compactDecode_no_panic hw bs

/-! ### Non-vacuity: concrete values meeting the hypotheses, and pinned vectors from the
    repository's own tests (`compact_integers_encoded_as_expected`, `compact_128_encoding_works`). -/

example : Width 8 ∧ (2 ^ 64 - 1 : Nat) < 2 ^ (8 * 8) := ⟨by simp [Width], by decide⟩
example : Spec.compact 0 = [0x00] := by decide
example : Spec.compact 63 = [0xfc] := by decide
example : Spec.compact 64 = [0x01, 0x01] := by decide
example : Spec.compact 16383 = [0xfd, 0xff] := by decide
example : Spec.compact 16384 = [0x02, 0x00, 0x01, 0x00] := by decide
example : Spec.compact 1073741823 = [0xfe, 0xff, 0xff, 0xff] := by decide
example : Spec.compact 1073741824 = [0x03, 0x00, 0x00, 0x00, 0x40] := by decide
example : Spec.compact ((1 <<< 32) - 1) = [0x03, 0xff, 0xff, 0xff, 0xff] := by decide
example : Spec.compact (1 <<< 32) = [0x07, 0x00, 0x00, 0x00, 0x00, 0x01] := by decide
example : Spec.compact (1 <<< 40) = [0x0b, 0x00, 0x00, 0x00, 0x00, 0x00, 0x01] := by decide
example : Spec.compact (1 <<< 48) = [0x0f, 0x00, 0x00, 0x00, 0x00, 0x00, 0x00, 0x01] := by decide
example : Spec.compact ((1 <<< 56) - 1) = [0x0f, 0xff, 0xff, 0xff, 0xff, 0xff, 0xff, 0xff] := by decide
example : Spec.compact (1 <<< 56) = [0x13, 0x00, 0x00, 0x00, 0x00, 0x00, 0x00, 0x00, 0x01] := by decide
example : Spec.compact (2 ^ 64 - 1) = [0x13, 0xff, 0xff, 0xff, 0xff, 0xff, 0xff, 0xff, 0xff] := by decide
/-- A non-minimal form is rejected: 0 written in two-byte mode. -/
example : (compactDecode 4 [0x01, 0x00]).1 = .err := by decide
/-- Over-wide for the target width: 2^32 offered to the 32-bit decoder. -/
example : (compactDecode 4 [0x07, 0x00, 0x00, 0x00, 0x00, 0x01]).1 = .err := by decide

end Scale.C04
