/-
  Props/C05.lean — Derived codecs implement the declared layout for every type definition.

  `Derive.elaborate` maps a definition (fields with `skip` / `compact` / `encoded_as`, variants with
  index attribute / discriminant / implicit position / `skip`) to its wire type: a `tuple` of the
  non-skipped fields' representations, or an `enum` of (index byte, payload tuple) in match order.
  The codec of that wire type is the transliteration of what the derive generates (single-field
  forwarding included: C07); its round trip is C02, its rejections C03.
-/
import Scale.Derive
import Scale.EntryEnc
import Proofs.Derive
import Proofs.RoundTrip
import Props.C17
import Scale.Like
namespace Scale.C05
open Scale Derive

/-- A struct's wire layout: exactly the non-skipped fields, in declaration order, each in its
    selected representation. -/
theorem struct_layout (fs : List Field) :
    elaborate (.struct fs) = some (.tuple (fs.filterMap fieldRepr)) := by
  simp only [elaborate]
  congr 2
  induction fs with
  | nil => rfl
  | cons f fs ih =>
    simp only [fieldReprs, List.filterMap_cons]
    cases fieldRepr f <;> simp [ih]

/-- … and its encoding is the plain concatenation of those fields' encodings. -/
theorem struct_encoding : ∀ (ts : List Ty) (vs : List Val), ts.length = vs.length →
    Spec.encode (.tuple ts) (.seq vs) = ((ts.zip vs).map fun p => Spec.encode p.1 p.2).flatten
  | [], [], _ => by simp [Spec.encode, Spec.encodeList]
  | t :: ts, v :: vs, h => by
    have := struct_encoding ts vs (by simpa using h)
    simp only [Spec.encode] at this
    simp [Spec.encode, Spec.encodeList, this]
  | [], _ :: _, h => by simp at h
  | _ :: _, [], h => by simp at h

/-- Selected representations: a `compact` field of an integer type is encoded as the compact
    integer of that width, an `encoded_as` field as the named type, a skipped field not at all. -/
theorem field_representation :
    fieldRepr ⟨false, true, none, .prim .u32⟩ = some (.compact 4) ∧
    fieldRepr ⟨false, true, none, .prim .u128⟩ = some (.compact 16) ∧
    fieldRepr ⟨false, true, none, .tuple [.prim .u64]⟩ = some (.compact 8) ∧
    (∀ r t, fieldRepr ⟨false, false, some r, t⟩ = some r) ∧
    (∀ c r t, fieldRepr ⟨true, c, r, t⟩ = none) ∧
    (∀ t, fieldRepr ⟨false, false, none, t⟩ = some t) := by
  refine ⟨rfl, rfl, rfl, fun _ _ => rfl, fun _ _ _ => rfl, fun _ => rfl⟩

/-- With pairwise distinct indices (what `accepts` guarantees) the variant found for an index byte
    is the one declared with it: encoding variant `j` writes its index byte followed by its fields. -/
theorem enum_encoding : ∀ (idxs : List Nat) (ts : List Ty) (j i : Nat) (t : Ty) (v : Val),
    idxs.Nodup → idxs[j]? = some i → ts[j]? = some t →
    Spec.encodeVariant idxs ts i v = UInt8.ofNat i :: Spec.encode t v
  | [], _, j, i, t, v, _, h, _ => by simp at h
  | _ :: _, [], j, i, t, v, _, _, h => by simp at h
  | x :: xs, y :: ys, 0, i, t, v, _, h1, h2 => by
    simp only [List.getElem?_cons_zero, Option.some.injEq] at h1 h2
    subst h1; subst h2
    simp [Spec.encodeVariant]
  | x :: xs, y :: ys, j + 1, i, t, v, hnd, h1, h2 => by
    simp only [List.getElem?_cons_succ] at h1 h2
    have hx : x ≠ i := by
      intro e
      subst e
      have : x ∈ xs := List.mem_of_getElem? h1
      exact (List.nodup_cons.mp hnd).1 this
    simp only [Spec.encodeVariant, hx, if_false]
    exact enum_encoding xs ys j i t v (List.nodup_cons.mp hnd).2 h1 h2

/-- An accepted enum definition elaborates to an `enum` whose index bytes are distinct and fit a
    byte, one payload per non-skipped variant. -/
theorem accepted_enum_wire_type (vs : List Variant) (h : accepts (.enum vs) = true) :
    elaborate (.enum vs) = some (.enum (indicesFrom 0 vs) (payloadsOf vs)) ∧
    (indicesFrom 0 vs).Nodup ∧ (∀ i ∈ indicesFrom 0 vs, i < 256) ∧
    (indicesFrom 0 vs).length = (payloadsOf vs).length :=
  ⟨rfl, (C17.accepted_enum_indices vs h).1, (C17.accepted_enum_indices vs h).2, indices_payloads_length vs 0⟩

/-- Decoding inverts the derived encoding (skipped fields are not part of the wire value: the
    generated `decode` fills them with `Default::default()`, which the harness checks). -/
theorem derived_roundtrip (d : TypeDef) (ty : Ty) (he : elaborate d = some ty) (v : Val)
    (hwf : wf ty v = true) (hcanon : canon ty v = true) (hlayout : layoutOk ty = true) (rest : Bytes) :
    decode ty (Spec.encode ty v ++ rest) = (.ok (norm ty v), rest) :=
  decode_encode ty v hwf hcanon hlayout rest

/-- Encoding a value that sits in a skipped variant yields no bytes … -/
theorem skipped_variant_yields_no_bytes (idxs : List Nat) (ts : List Ty) :
    Impl.encodeTo (.enum idxs ts) .skipped = .ok [] := by simp [Impl.encodeTo]

/-- … and always terminates, even when *every* variant is skipped (after the `fix:` commit the
    derive overrides `encode_to` in that case; before it, it overrode nothing). -/
theorem all_skipped_enum_terminates : Impl.entryTerminates (.enum [] []) = true := by decide

/-- An index byte naming no variant is rejected. -/
theorem unknown_index_rejected (idxs : List Nat) (ts : List Ty) (b : UInt8) (s : Bytes)
    (h : ∀ i ∈ idxs, i % 256 ≠ b.toNat) : decode (.enum idxs ts) (b :: s) = (.err, s) := by
  simp only [decode, Impl.decodeP, run_slice_readByte_cons]
  induction idxs generalizing ts with
  | nil => simp [Impl.decodeVariant]
  | cons i is ih =>
    cases ts with
    | nil => simp [Impl.decodeVariant]
    | cons t ts =>
      simp only [Impl.decodeVariant, h i (List.mem_cons_self), if_false]
      exact ih ts (fun j hj => h j (List.mem_cons_of_mem _ hj))

/-! ### Non-vacuity: the hand-written `Mixed` of the harness catalogue
    (`A, B(u8), #[codec(index = 7)] C{..}, #[codec(skip)] Hidden(u32), D = 9, E(Vec<u16>, #[codec(compact)] u64)`) -/
example : (elaborate (.enum [
    ⟨false, none, none, []⟩,
    ⟨false, none, none, [⟨false, false, none, .prim .u8⟩]⟩,
    ⟨false, some 7, none, [⟨false, false, none, .prim .u16⟩, ⟨false, false, none, .option .bool⟩]⟩,
    ⟨true, none, none, [⟨false, false, none, .prim .u32⟩]⟩,
    ⟨false, none, some 9, []⟩,
    ⟨false, none, none, [⟨false, false, none, .seq .vec 2 (.prim .u16)⟩, ⟨false, true, none, .prim .u64⟩]⟩])).map
  (tyEq (.enum [0, 1, 7, 9, 4] [.tuple [], .tuple [.prim .u8], .tuple [.prim .u16, .option .bool], .tuple [],
    .tuple [.seq .vec 2 (.prim .u16), .compact 8]])) = some true := by decide

end Scale.C05
