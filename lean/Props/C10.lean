/-
  Props/C10.lean — Failed or panicking decodes release everything exactly once (logical core).

  The theorems are about the event model of `Scale/Ledger.lean`; the correspondence check replays
  the same scenarios on the real code with an instrumented element type and compares the event
  counts. Heap safety proper (use after free, reads of uninitialised memory) is not expressible
  here — see the level note.
-/
import Scale.Ledger
namespace Scale.C10
open Scale Ledger

/-- The first failing element, if any, among the first `n`. -/
def firstFailure (elem : Nat → Outcome) : Nat → Nat → Option Nat
  | 0, _ => none
  | fuel + 1, i => if elem i = .ok then firstFailure elem fuel (i + 1) else some i

theorem arrayLoop_spec (n : Nat) (elem : Nat → Outcome) (nd : Bool) :
    ∀ (fuel count : Nat) (log : Log), count + fuel = n → log.constructed = List.range count →
      log.dropped = [] → log.handed = [] →
      let r := arrayLoop n elem nd fuel count log
      (r.outcome = .ok ∧ r.log.constructed = List.range n ∧ r.log.handed = List.range n ∧ r.log.dropped = []) ∨
      (∃ k, count ≤ k ∧ k < n ∧ elem k ≠ .ok ∧ r.outcome = elem k ∧ r.log.constructed = List.range k ∧
        r.log.handed = [] ∧ r.log.dropped = (if nd then List.range k else [])) := by
  intro fuel
  induction fuel with
  | zero =>
    intro count log h hc hd hh
    have : count = n := by omega
    subst this
    left
    simp [arrayLoop, hc, hd, hh]
  | succ fuel ih =>
    intro count log h hc hd hh
    simp only [arrayLoop]
    cases he : elem count with
    | ok =>
      simp only
      have := ih (count + 1) { log with constructed := log.constructed ++ [count] } (by omega)
        (by simp [hc, List.range_succ]) hd hh
      rcases this with a | ⟨k, k1, k2, k3, k4, k5, k6, k7⟩
      · exact Or.inl a
      · exact Or.inr ⟨k, by omega, k2, k3, k4, k5, k6, k7⟩
    | err =>
      right
      refine ⟨count, Nat.le_refl _, by omega, by simp [he], by simp [he], ?_, ?_, ?_⟩
      · simp [guardDrop]; split <;> simp [hc]
      · simp [guardDrop]; split <;> simp [hh]
      · simp only [guardDrop]; split <;> simp_all
    | panic =>
      right
      refine ⟨count, Nat.le_refl _, by omega, by simp [he], by simp [he], ?_, ?_, ?_⟩
      · simp [guardDrop]; split <;> simp [hc]
      · simp [guardDrop]; split <;> simp [hh]
      · simp only [guardDrop]; split <;> simp_all

/-- **Arrays.** For every length `N`, every failure position and kind: either all `N` elements are
    constructed and handed over (none dropped), or decoding stopped at the first failing element
    `k`, exactly the `k` constructed elements are dropped — each once, never an unconstructed one —
    and nothing is handed over. -/
theorem array_ledger_balanced (n : Nat) (elem : Nat → Outcome) :
    let r := arrayDecodeInto n elem true
    (r.outcome = .ok ∧ r.log.constructed = List.range n ∧ r.log.handed = List.range n ∧ r.log.dropped = []) ∨
    (∃ k, k < n ∧ elem k ≠ .ok ∧ r.outcome = elem k ∧ r.log.constructed = List.range k ∧
      r.log.handed = [] ∧ r.log.dropped = List.range k) := by
  have := arrayLoop_spec n elem true n 0 {} (by omega) rfl rfl rfl
  rcases this with a | ⟨k, _, k2, k3, k4, k5, k6, k7⟩
  · exact Or.inl a
  · exact Or.inr ⟨k, k2, k3, k4, k5, k6, by simpa [arrayDecodeInto] using k7⟩

/-- Every constructed element is released exactly once: dropped xor handed over, and the drop list
    has no duplicates and mentions only constructed elements. -/
theorem array_exactly_once (n : Nat) (elem : Nat → Outcome) :
    let r := arrayDecodeInto n elem true
    r.log.dropped.Nodup ∧ (∀ i ∈ r.log.dropped, i ∈ r.log.constructed) ∧
    (∀ i ∈ r.log.constructed, (i ∈ r.log.dropped ∧ i ∉ r.log.handed) ∨ (i ∈ r.log.handed ∧ i ∉ r.log.dropped)) := by
  rcases array_ledger_balanced n elem with ⟨_, hc, hh, hd⟩ | ⟨k, _, _, _, hc, hh, hd⟩
  · simp only [hc, hh, hd]
    exact ⟨List.nodup_nil, by simp, fun i hi => Or.inr ⟨hi, by simp⟩⟩
  · simp only [hc, hh, hd]
    exact ⟨List.nodup_range, fun i hi => hi, fun i hi => Or.inl ⟨hi, by simp⟩⟩

/-- A successful decode hands over a fully initialised array: all `N` elements, none dropped. -/
theorem array_success_fully_initialised (n : Nat) (elem : Nat → Outcome) (h : ∀ i, i < n → elem i = .ok) :
    (arrayDecodeInto n elem true).outcome = .ok ∧ (arrayDecodeInto n elem true).log.handed = List.range n ∧
    (arrayDecodeInto n elem true).log.dropped = [] := by
  rcases array_ledger_balanced n elem with ⟨a, _, b, c⟩ | ⟨k, k1, k2, _⟩
  · exact ⟨a, b, c⟩
  · exact absurd (h k k1) k2

/-- **Growing collections** (`Vec`, `VecDeque`, `LinkedList`, maps through `from_iter`, tuples and
    derived structs field by field): the owner that drops what it holds when decoding stops is the
    array guard with drop glue — same ledger. -/
theorem vec_is_guarded_loop (n : Nat) (elem : Nat → Outcome) : vecDecode n elem = arrayDecodeInto n elem true := by
  have : ∀ (fuel count : Nat) (log : Log), vecLoop n elem fuel count log = arrayLoop n elem true fuel count log := by
    intro fuel
    induction fuel with
    | zero => intro count log; rfl
    | succ fuel ih =>
      intro count log
      simp only [vecLoop, arrayLoop, guardDrop, if_true]
      cases elem count <;> simp [ih]
  exact this n 0 {}

theorem vec_ledger_balanced (n : Nat) (elem : Nat → Outcome) :
    let r := vecDecode n elem
    (r.outcome = .ok ∧ r.log.constructed = List.range n ∧ r.log.handed = List.range n ∧ r.log.dropped = []) ∨
    (∃ k, k < n ∧ elem k ≠ .ok ∧ r.outcome = elem k ∧ r.log.constructed = List.range k ∧
      r.log.handed = [] ∧ r.log.dropped = List.range k) := by
  rw [vec_is_guarded_loop]; exact array_ledger_balanced n elem

theorem vec_exactly_once (n : Nat) (elem : Nat → Outcome) :
    let r := vecDecode n elem
    r.log.dropped.Nodup ∧ (∀ i ∈ r.log.dropped, i ∈ r.log.constructed) ∧
    (∀ i ∈ r.log.constructed, (i ∈ r.log.dropped ∧ i ∉ r.log.handed) ∨ (i ∈ r.log.handed ∧ i ∉ r.log.dropped)) := by
  rw [vec_is_guarded_loop]; exact array_exactly_once n elem

/-- **Box.** The block is allocated at most once and freed exactly when decoding fails (on success
    it is owned by the returned box); the payload's own ledger is untouched by the box. -/
theorem box_block_freed_once (sized : Bool) (inner : Ledger.Result) (h1 : inner.log.allocated = [])
    (h2 : inner.log.freed = []) :
    let r := boxDecode sized inner
    r.log.constructed = inner.log.constructed ∧ r.log.dropped = inner.log.dropped ∧
    r.log.freed.Nodup ∧ (∀ b ∈ r.log.freed, b ∈ r.log.allocated) ∧
    (r.outcome = .ok → r.log.freed = []) ∧ (r.outcome ≠ .ok → r.log.freed = r.log.allocated) := by
  simp only [boxDecode]
  cases ho : inner.outcome <;> cases sized <;> simp [h1, h2]

/-- Types without drop glue (`needs_drop::<T>() == false`): the guard does nothing, and there is
    nothing to release. -/
theorem transparentLoop_spec (n : Nat) (elem : Nat → Outcome) :
    ∀ (fuel count : Nat) (log : Log), count + fuel = n → log.constructed = List.range count →
      log.dropped = [] → log.handed = [] →
      let r := transparentLoop n elem fuel count log
      (r.outcome = .ok ∧ r.log.constructed = List.range n ∧ r.log.handed = List.range n ∧ r.log.dropped = []) ∨
      (∃ k, count ≤ k ∧ k < n ∧ elem k ≠ .ok ∧ r.outcome = elem k ∧ r.log.constructed = List.range k ∧
        r.log.handed = [] ∧ r.log.dropped = (List.range k).reverse) := by
  intro fuel
  induction fuel with
  | zero =>
    intro count log h hc hd hh
    have : count = n := by omega
    subst this
    left
    simp [transparentLoop, hc, hd, hh]
  | succ fuel ih =>
    intro count log h hc hd hh
    simp only [transparentLoop]
    cases he : elem count with
    | ok =>
      simp only
      have := ih (count + 1) { log with constructed := log.constructed ++ [count] } (by omega)
        (by simp [hc, List.range_succ]) hd hh
      rcases this with a | ⟨k, k1, k2, k3, k4, k5, k6, k7⟩
      · exact Or.inl a
      · exact Or.inr ⟨k, by omega, k2, k3, k4, k5, k6, k7⟩
    | err =>
      right
      exact ⟨count, Nat.le_refl _, by omega, by simp [he], by simp [he], by simp [hc], by simp [hh], by simp [hd]⟩
    | panic =>
      right
      exact ⟨count, Nat.le_refl _, by omega, by simp [he], by simp [he], by simp [hc], by simp [hh], by simp [hd]⟩

/-- **In-place decoding of `#[repr(transparent)]` structs** (the derived `decode_into`, as repaired
    for finding F6). For every number of fields, every failure position and kind: either all fields
    are decoded and handed over, or decoding stopped at the first failing field `k` and exactly the
    `k` fields already decoded are dropped — each once (in reverse order), nothing handed over. -/
theorem transparent_ledger_balanced (n : Nat) (elem : Nat → Outcome) :
    let r := transparentDecodeInto n elem
    (r.outcome = .ok ∧ r.log.constructed = List.range n ∧ r.log.handed = List.range n ∧ r.log.dropped = []) ∨
    (∃ k, k < n ∧ elem k ≠ .ok ∧ r.outcome = elem k ∧ r.log.constructed = List.range k ∧
      r.log.handed = [] ∧ r.log.dropped.Perm r.log.constructed ∧ r.log.dropped.Nodup) := by
  have := transparentLoop_spec n elem n 0 {} (by omega) rfl rfl rfl
  rcases this with a | ⟨k, _, k2, k3, k4, k5, k6, k7⟩
  · exact Or.inl a
  · refine Or.inr ⟨k, k2, k3, k4, k5, k6, ?_, ?_⟩
    · show (transparentDecodeInto n elem).log.dropped.Perm (transparentDecodeInto n elem).log.constructed
      unfold transparentDecodeInto
      rw [k7, k5]; exact List.reverse_perm _
    · show (transparentDecodeInto n elem).log.dropped.Nodup
      unfold transparentDecodeInto
      rw [k7]; exact (List.reverse_perm _).nodup_iff.mpr List.nodup_range

/-- The negation for the code as it was (finding F6, repaired in `/repo` bb8aee6): without the guards
    a payload followed by a failing zero-sized field is constructed and never dropped. -/
theorem transparent_unguarded_leaks :
    (transparentUnguarded 2 (fun i => if i = 1 then .err else .ok) 2 0 {}).log.constructed = [0] ∧
    (transparentUnguarded 2 (fun i => if i = 1 then .err else .ok) 2 0 {}).log.dropped = [] ∧
    (transparentUnguarded 2 (fun i => if i = 1 then .err else .ok) 2 0 {}).log.handed = [] := by
  decide

theorem array_no_drop_glue (n : Nat) (elem : Nat → Outcome) : (arrayDecodeInto n elem false).log.dropped = [] := by
  have := arrayLoop_spec n elem false n 0 {} (by omega) rfl rfl rfl
  rcases this with ⟨_, _, _, d⟩ | ⟨k, _, _, _, _, _, _, d⟩
  · exact d
  · simpa [arrayDecodeInto] using d

/-! ### Non-vacuity -/
example : summary (arrayDecodeInto 5 (fun i => if i = 3 then .panic else .ok) true) = "panic constructed=3 dropped=3 handed=0" := by decide
example : summary (arrayDecodeInto 4 (fun _ => .ok) true) = "ok constructed=4 dropped=0 handed=4" := by decide
example : summary (boxDecode true (transparentDecodeInto 2 (fun i => if i = 1 then .panic else .ok))) = "panic constructed=1 dropped=1 handed=0" := by decide
example : summary (boxDecode true (arrayDecodeInto 2 (fun i => if i = 1 then .err else .ok) true)) = "err constructed=1 dropped=1 handed=0" := by decide

end Scale.C10
