/-
  Props/C11.lean — Depth-limited decoding is transparent, monotone and stack-safe.

  `decodeLimit L ty bs` runs the transliterated decoder through `depthInput L` (the transliteration
  of `DepthTrackingInput`) over a slice. `needDepth` is the maximal number of simultaneously open
  `descend_ref` calls of the *unlimited* run, recorded by the specification input `depthRec`.
  The simulation theorems hold for every decoder program, hence for every type.
-/
import Scale.Entry
import Scale.Ghost
import Proofs.Wrappers
import Proofs.HookTrace
import Proofs.HookFacts
import Proofs.Stack
import Proofs.DepthBound
namespace Scale.C11
open Scale

/-- Depth-limited decoding returns exactly what unlimited decoding returns (value and position),
    or fails with an error. -/
theorem depth_transparent (L : Nat) (ty : Ty) (bs : Bytes) :
    decodeLimit L ty bs = decode ty bs ∨ (decodeLimit L ty bs).1 = .err := by
  have h := (run_lax (laxOps_of_prims (depth_trans_prims L sliceInput rfl)) (Impl.decodeP ty)).1 bs (bs, 0) rfl
  simp only [decodeLimit, decode]
  rcases h with ⟨e, r⟩ | ⟨e, _⟩ | ⟨_, e⟩
  · left
    simp only [depthTransRel] at r
    exact Prod.ext e.symm r
  · right; exact e
  · right; exact e

/-- Exact threshold: when unlimited decoding succeeds, the depth-limited one succeeds (with the
    same value and position) exactly when the limit is at least the depth the value needs. -/
theorem depth_exact (L : Nat) (ty : Ty) (bs rest : Bytes) (v : Val) (h : decode ty bs = (.ok v, rest)) :
    decodeLimit L ty bs = (.ok v, rest) ↔ needDepth (Impl.decodeP ty) bs ≤ L := by
  have hrec := run_exact (depthRec_exact sliceInput rfl) (Impl.decodeP ty) bs (bs, 0, 0) rfl
  simp only [decode] at h
  rw [h] at hrec
  constructor
  · intro hl
    have hs := (run_lax (laxOps_of_prims (depth_le_prims L sliceInput)) (Impl.decodeP ty)).1
      (bs, 0, 0) (bs, 0) ⟨rfl, rfl, Nat.zero_le _⟩
    simp only [decodeLimit] at hl
    have hl1 : (run (depthInput L sliceInput) (Impl.decodeP ty) (bs, 0)).1 = .ok v := by
      have := congrArg Prod.fst hl; simpa using this
    rcases hs with ⟨_, _, _, hm⟩ | ⟨e, _⟩ | ⟨_, e⟩
    · exact hm
    · rw [hl1] at e; cases e
    · rw [hl1] at e; cases e
  · intro hn
    have hs := (run_lax (laxOps_of_prims (depth_gt_prims L sliceInput)) (Impl.decodeP ty)).1
      (bs, 0, 0) (bs, 0) ⟨rfl, rfl⟩
    simp only [decodeLimit]
    rcases hs with ⟨e, r1, _⟩ | ⟨_, d⟩ | ⟨e, _⟩
    · apply Prod.ext
      · simp only; rw [← e, ← hrec.1]
      · simp only; rw [← r1, hrec.2]
    · exfalso
      simp only [depthGtRel, needDepth] at d hn
      omega
    · rw [← hrec.1] at e; cases e

/-- Monotone in the limit. -/
theorem depth_monotone (L L' : Nat) (hle : L ≤ L') (ty : Ty) (bs rest : Bytes) (v : Val)
    (h : decodeLimit L ty bs = (.ok v, rest)) : decodeLimit L' ty bs = (.ok v, rest) := by
  have hu : decode ty bs = (.ok v, rest) := by
    rcases depth_transparent L ty bs with e | e
    · rw [← e]; exact h
    · rw [h] at e; cases e
  have := (depth_exact L ty bs rest v hu).mp h
  exact (depth_exact L' ty bs rest v hu).mpr (by omega)

/-- A value that recurses through more heap-allocating containers than the limit is rejected. -/
theorem too_deep_rejected (L : Nat) (ty : Ty) (bs rest : Bytes) (v : Val) (h : decode ty bs = (.ok v, rest))
    (hd : needDepth (Impl.decodeP ty) bs > L) : (decodeLimit L ty bs).1 = .err := by
  rcases depth_transparent L ty bs with e | e
  · exfalso
    have := (depth_exact L ty bs rest v h).mp (by rw [e]; exact h)
    omega
  · exact e

/-- The consume-everything variant additionally rejects trailing bytes. -/
theorem decode_all_with_depth_limit_exact (L : Nat) (ty : Ty) (bs : Bytes) (v : Val) :
    decodeAllLimit L ty bs = .ok v ↔ decodeLimit L ty bs = (.ok v, []) := by
  unfold decodeAllLimit
  cases hd : decodeLimit L ty bs with
  | mk r rest =>
    cases r with
    | ok v' => cases rest <;> simp
    | err => simp
    | panic => simp

/-! ### The needed depth is the container nesting of the value

`nesting ty v` (`Scale/HookTrace.lean`) counts heap-allocating container levels as the crate
descends them: a `Box/Rc/Arc`, a list, a tree map or set, and an element-by-element vector cost one
level each; vectors of primitives, strings, byte buffers and bit sequences are read in bulk and cost
none; tuples, arrays, options and enum payloads take the maximum over their components. The
hook-trace theorem (`Proofs/HookTrace.lean`: decoding the encoding of `v` makes exactly the hook calls
`hookTrace ty v`, through all chunked and bulk paths) turns the abstract `needDepth` of the
theorems above into this concrete quantity. -/

/-- Decoding the encoding of a value opens exactly `nesting ty v` levels at once. -/
theorem need_depth_is_nesting (ty : Ty) (v : Val) (hwf : wf ty v = true) (hcanon : canon ty v = true)
    (hl : layoutOk ty = true) (rest : Bytes) :
    needDepth (Impl.decodeP ty) (Spec.encode ty v ++ rest) = nesting ty v := by
  rw [needDepth_eq_depthFold, traceOf_encode ty v hwf hcanon hl rest,
    bal_hookTrace ty v hwf hl 0 0 (Nat.le_refl 0)]
  simp

/-- **Succeeds whenever the limit is at least the container nesting depth of the encoded value,
    fails whenever the value nests through more than `L` levels** — for every type, value and
    trailing input. -/
theorem succeeds_iff_nesting_le (L : Nat) (ty : Ty) (v : Val) (hwf : wf ty v = true)
    (hcanon : canon ty v = true) (hl : layoutOk ty = true) (rest : Bytes) :
    decodeLimit L ty (Spec.encode ty v ++ rest) = (.ok (norm ty v), rest) ↔ nesting ty v ≤ L := by
  have hd : decode ty (Spec.encode ty v ++ rest) = (.ok (norm ty v), rest) := decode_encode ty v hwf hcanon hl rest
  rw [depth_exact L ty _ rest _ hd, need_depth_is_nesting ty v hwf hcanon hl rest]

theorem deeper_than_limit_rejected (L : Nat) (ty : Ty) (v : Val) (hwf : wf ty v = true)
    (hcanon : canon ty v = true) (hl : layoutOk ty = true) (rest : Bytes) (hdeep : nesting ty v > L) :
    (decodeLimit L ty (Spec.encode ty v ++ rest)).1 = .err := by
  have hd : decode ty (Spec.encode ty v ++ rest) = (.ok (norm ty v), rest) := decode_encode ty v hwf hcanon hl rest
  exact too_deep_rejected L ty _ rest _ hd (by rw [need_depth_is_nesting ty v hwf hcanon hl rest]; exact hdeep)

/-- Siblings do not accumulate: after decoding a value the depth counter is back where it was
    (`Bal`: from any starting depth `c` the trace returns to `c`, having reached `c + nesting`). -/
theorem depth_balanced (ty : Ty) (v : Val) (hwf : wf ty v = true) (hl : layoutOk ty = true) (c m : Nat)
    (h : c ≤ m) : depthFold (hookTrace ty v) (c, m) = (c, max m (c + nesting ty v)) :=
  bal_hookTrace ty v hwf hl c m h

/-- Nesting is concrete: a `Vec<Box<Vec<u8>>>` value nests 2 deep, whatever its length. -/
example : nesting (.seq .vec 8 (.box 24 (.seq .vec 1 (.prim .u8))))
    (.seq [.seq [.nat 1, .nat 2], .seq []]) = 2 := by decide
example : nesting (.tuple [.seq .vec 4 (.prim .u32), .str]) (.seq [.seq [.nat 1], .bytes [65]]) = 0 := by decide

/-! ### Non-vacuity: `Vec<Vec<u8>>`-like nesting needs depth 1 (the inner `Vec<u8>` is read in bulk
    and costs no level); two levels of item-path vectors need 2. -/
example : needDepth (Impl.decodeP (.seq .vec 24 (.seq .vec 1 (.prim .u8)))) [4, 4, 7] = 1 := by decide
example : needDepth (Impl.decodeP (.seq .vec 24 (.seq .vec 2 (.option (.prim .u8))))) [4, 4, 0] = 2 := by decide
example : (decodeLimit 1 (.seq .vec 24 (.seq .vec 2 (.option (.prim .u8)))) [4, 4, 0]).1.isOk = false := by decide
example : (decodeLimit 2 (.seq .vec 24 (.seq .vec 2 (.option (.prim .u8)))) [4, 4, 0]).1.isOk = true := by decide


/-- A decoder that reads through a counting wrapper (a hand-written `Decode` measuring a field)
    is limited exactly like one that does not: for every program, limit and input, the depth
    limiter below the counter returns the same result and ends in the same state — every
    `descend_ref` / `ascend_ref` reaches it. -/
theorem depth_limit_unaffected_by_counting {α : Type} (L : Nat) (p : Prog α) (bs : Bytes) (c : Nat) :
    (run (countedInput (depthInput L sliceInput)) p ((bs, 0), c)).1 = (run (depthInput L sliceInput) p (bs, 0)).1 ∧
    (run (countedInput (depthInput L sliceInput)) p ((bs, 0), c)).2.1 = (run (depthInput L sliceInput) p (bs, 0)).2 :=
  counted_transparent (depthInput L sliceInput) rfl p (bs, 0) c


/-- **Stack safety, logical core — for every byte string.** Under a depth limit `L` the decoder never
    has more than `L` container levels open at once: for every decoder program, every inner input and
    every input bytes (valid, hostile, arbitrarily deep; successful decode or not), the
    `descend_ref` calls the limiter accepted were never nested deeper than `L`. (Each level of a
    recursive type descends once, so the number of decoder frames of heap-allocating containers is
    bounded by `L` whatever the input; machine stack bytes per frame are runtime.) -/
theorem open_depth_never_exceeds_limit {σ α : Type} (I : InputOps σ) (L : Nat) (p : Prog α) (s : σ) :
    (depthFold (run (traceRec (depthInput L I)) p ((s, 0), [])).2.2 (0, 0)).2 ≤ L :=
  (dep_run I L p ((s, 0), []) ⟨rfl, Nat.zero_le _⟩).2

/-- e.g. 40 nested one-element vectors under a limit of 3: rejected with 3 levels open at most. -/
example : (depthFold (run (traceRec (depthInput 3 sliceInput))
    (Impl.decodeP (.seq .vec 24 (.seq .vec 24 (.seq .vec 24 (.seq .vec 24 (.seq .vec 1 (.prim .u8)))))))
    (([4, 4, 4, 4, 4, 7], 0), [])).2.2 (0, 0)).2 = 3 := by decide

/-! ### User-defined wrappers (`WrapperTypeDecode` with the provided `decode_wrapped`)

`Ty.wrap t` is the trait's default method: `descend_ref`, decode the wrapped type, `ascend_ref`,
`into` — a nesting level without a heap announcement. All the theorems above quantify over every
`Ty` and therefore include it; these spell out the two facts a user relies on. -/

/-- Without a limit the wrapper is invisible: same result, same bytes left as the wrapped type. -/
theorem user_wrapper_decodes_like_wrapped (t : Ty) (bs : Bytes) :
    decode (.wrap t) bs = decode t bs := by
  simp only [decode, Impl.decodeP, run_slice_descend, run_bind]
  rcases h : run sliceInput (Impl.decodeP t) bs with ⟨r, s⟩
  cases r <;> simp [run, sliceInput]

/-- Under a depth limit it costs exactly one level, like `Box`: the value's nesting is one more
    than the wrapped value's (so recursion through user wrappers is limited like any other). -/
theorem user_wrapper_costs_one_level (t : Ty) (v : Val) : nesting (.wrap t) v = 1 + nesting t v := by
  simp [nesting]

example : nesting (.wrap (.option (.wrap (.prim .u8)))) (.some (.nat 1)) = 2 := by decide
/-- depth limit 1 refuses two nested user wrappers, limit 2 accepts them -/
example : (decodeLimit 1 (.wrap (.wrap (.prim .u8))) [7]).1.isOk = false := by decide
example : (decodeLimit 2 (.wrap (.wrap (.prim .u8))) [7]).1.isOk = true := by decide

end Scale.C11
