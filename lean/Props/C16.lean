/-
  Props/C16.lean — Types declared to encode alike really do.

  A descriptor already identifies `&T`, `&mut T`, `Cow<T>`, `Ref<T, U>` with `T`; `shape` further
  erases `Box`/`Rc`/`Arc` and the flavour of count-prefixed collections. `encodesLike A B` is the
  model's decision procedure the correspondence check compares with the crate's `EncodeLike` table
  (observed by compile-time trait probes): every declared pair must satisfy it.
-/
import Proofs.Like
import Proofs.RoundTrip
namespace Scale.C16
open Scale

/-- **Byte-for-byte.** Types of equal shape encode every value to the same bytes. -/
theorem encode_like_bytes (a b : Ty) (h : tyEq (shape a) (shape b) = true) (v : Val) :
    Spec.encode a v = Spec.encode b v := by
  rw [← encode_shape a v, ← encode_shape b v, tyEq_eq _ _ h]

/-- **Decodability.** The bytes a value of `A` encodes to decode successfully as `B`, to the
    corresponding logical value (the same value, normalised the way `B` normalises: a slice of
    entries decoded as a map comes back sorted, a heap as a multiset), consuming exactly them. -/
theorem encode_like_decodes (a b : Ty) (h : tyEq (shape a) (shape b) = true) (v : Val)
    (hwf : wf a v = true) (hcanon : canon b v = true) (hlayout : layoutOk b = true) (rest : Bytes) :
    decode b (Spec.encode a v ++ rest) = (.ok (norm b v), rest) := by
  have hwfb : wf b v = true := by
    rw [← wf_shape b v, ← tyEq_eq _ _ h, wf_shape a v]; exact hwf
  rw [encode_like_bytes a b h v]
  exact decode_encode b v hwfb hcanon hlayout rest

/-- A byte buffer (`Bytes`) and a vector / slice / deque of `u8` encode alike. -/
theorem bytes_like_u8_seq (k : SeqKind) (sz : Nat) (bs : Bytes) :
    Spec.encode .bytes (.bytes bs) = Spec.encode (.seq k sz (.prim .u8)) (bytesAsSeq bs) := by
  simp only [Spec.encode, bytesAsSeq, List.length_map, List.map_map]
  congr 1
  induction bs with
  | nil => rfl
  | cons b bs ih =>
    simp only [List.map_cons, List.flatten_cons, Function.comp_apply, ← ih]
    have : primBytes .u8 (.nat b.toNat) = [b] := by simp [primBytes, Prim.size, leBytes]
    simp [this]

/-- `(T,)` (and a single-field struct, and `Cow<T>`) encodes like its field. -/
theorem single_field_transparent (t : Ty) (v : Val) : Spec.encode (.tuple [t]) (.seq [v]) = Spec.encode t v := by
  simp [Spec.encode, Spec.encodeList]

/-- `&[(T,)]` stands for the elements of a set / list / heap of `T`. -/
theorem entries_of_singletons (k k' : SeqKind) (s s' : Nat) (t : Ty) (vs : List Val) :
    Spec.encode (.seq k s (.tuple [t])) (.seq (vs.map fun v => .seq [v])) = Spec.encode (.seq k' s' t) (.seq vs) := by
  simp [Spec.encode, Spec.encodeList, List.map_map, Function.comp_def]

/-- `String` and `&str` (one descriptor) are byte buffers holding valid UTF-8: same bytes as `Bytes`. -/
theorem str_like_bytes (bs : Bytes) : Spec.encode .str (.bytes bs) = Spec.encode .bytes (.bytes bs) := by
  simp [Spec.encode]

/-! ### The impl families of the crate, each an instance of "equal shape" -/

/-- `Box<T>` / `Rc<T>` / `Arc<T>` ↔ `T` in both directions. -/
theorem holder_shape (sz : Nat) (t : Ty) : shape (.box sz t) = shape t := by simp [shape]
/-- `Vec<T>` ↔ `&[U]` ↔ `VecDeque<U>` ↔ `LinkedList` / `BinaryHeap` / `BTreeSet` / map entries, element-wise. -/
theorem collection_shape (k k' : SeqKind) (s s' : Nat) (t u : Ty) (h : shape t = shape u) :
    shape (.seq k s t) = shape (.seq k' s' u) := by simp [shape, h]
theorem option_shape (t u : Ty) (h : shape t = shape u) : shape (.option t) = shape (.option u) := by simp [shape, h]
theorem result_shape (t u e f : Ty) (h : shape t = shape u) (h' : shape e = shape f) :
    shape (.result t e) = shape (.result u f) := by simp [shape, h, h']
theorem array_shape (n : Nat) (t u : Ty) (h : shape t = shape u) : shape (.array n t) = shape (.array n u) := by
  simp [shape, h]
theorem tuple_shape (ts us : List Ty) (h : shapeList ts = shapeList us) : shape (.tuple ts) = shape (.tuple us) := by
  simp [shape, h]

/-- What must **not** be declared: types whose shapes differ do not, in general, encode alike. -/
example : encodesLike (.prim .u32) (.prim .u64) = false := by decide
example : encodesLike (.option (.prim .u8)) (.prim .u8) = false := by decide
example : encodesLike (.compact 4) (.prim .u32) = false := by decide
/-! ### Non-vacuity: declared families accepted by the decision procedure -/
example : encodesLike (.seq .deque 4 (.box 4 (.prim .u32))) (.seq .vec 4 (.prim .u32)) = true := by decide
example : encodesLike (.seq .vec 2 (.tuple [.prim .u8, .prim .u8])) (.seq .bmap 0 (.tuple [.prim .u8, .prim .u8])) = true := by decide
example : encodesLike .bytes (.seq .vec 1 (.prim .u8)) = true := by decide
example : encodesLike (.box 8 (.option .str)) (.option .str) = true := by decide

end Scale.C16
