/-
  Props/C14.lean — Encodings are self-delimiting; consume-all entry points are exact.
-/
import Scale.Entry
import Proofs.RoundTrip
import Proofs.ProgSlice
import Proofs.NoPanic
namespace Scale.C14
open Scale

/-- What a successful decode consumed is a prefix of the input, and bytes following it do not
    influence the result (holds for every decoder program, hence every type). -/
theorem decode_extend (ty : Ty) (bs rest : Bytes) (v : Val) (h : decode ty bs = (.ok v, rest)) :
    (∃ pre, bs = pre ++ rest) ∧ ∀ t, decode ty (bs ++ t) = (.ok v, rest ++ t) :=
  run_slice_ok_extend (Impl.decodeP ty) bs rest v h

/-- Decoding any strict prefix of a value's encoding fails with an error (not a panic). -/
theorem prefix_fails (ty : Ty) (v : Val) (hwf : wf ty v = true) (hcanon : canon ty v = true)
    (hlayout : layoutOk ty = true) (hwidths : widthsOk ty = true)
    (p t : Bytes) (hp : Spec.encode ty v = p ++ t) (ht : t ≠ []) :
    (decode ty p).1 = .err := by
  have hnp := decodeP_noPanic ty hwidths p
  cases hd : decode ty p with
  | mk r rest' =>
    cases r with
    | err => rfl
    | panic =>
      have : (run sliceInput (Impl.decodeP ty) p).1 = .panic := by
        have h2 := hd; unfold decode at h2; rw [h2]
      exact absurd this hnp
    | ok v' =>
      exfalso
      have hext := (run_slice_ok_extend (Impl.decodeP ty) p rest' v' hd).2 t
      have hrt := decode_encode ty v hwf hcanon hlayout []
      rw [List.append_nil, hp] at hrt
      rw [hrt] at hext
      have h3 : ([] : Bytes) = rest' ++ t := (Prod.mk.inj hext).2
      have h4 : t = [] := (List.append_eq_nil_iff.mp h3.symm).2
      exact ht h4

/-- Decode a list of types one after another from the same input. -/
def decodeMany : List Ty → Bytes → Res (List Val) × Bytes
  | [], bs => (.ok [], bs)
  | ty :: tys, bs =>
    match decode ty bs with
    | (.ok v, rest) =>
      match decodeMany tys rest with
      | (.ok vs, rest') => (.ok (v :: vs), rest')
      | (.err, r) => (.err, r)
      | (.panic, r) => (.panic, r)
    | (.err, r) => (.err, r)
    | (.panic, r) => (.panic, r)

def encodeMany : List Ty → List Val → Bytes
  | ty :: tys, v :: vs => Spec.encode ty v ++ encodeMany tys vs
  | _, _ => []

def normMany : List Ty → List Val → List Val
  | ty :: tys, v :: vs => norm ty v :: normMany tys vs
  | _, _ => []

def allOk : List Ty → List Val → Prop
  | [], [] => True
  | ty :: tys, v :: vs =>
    (wf ty v = true ∧ canon ty v = true ∧ layoutOk ty = true) ∧ allOk tys vs
  | _, _ => False

/-- Decoding a concatenation of encodings of mixed types value by value recovers each value in
    order and leaves what follows. -/
theorem concat_decodes : ∀ (tys : List Ty) (vs : List Val), allOk tys vs → ∀ rest,
    decodeMany tys (encodeMany tys vs ++ rest) = (.ok (normMany tys vs), rest)
  | [], [], _, rest => by simp [decodeMany, encodeMany, normMany]
  | [], _ :: _, h, _ => by simp [allOk] at h
  | _ :: _, [], h, _ => by simp [allOk] at h
  | ty :: tys, v :: vs, h, rest => by
    obtain ⟨⟨h1, h2, h3⟩, h4⟩ := h
    have e := decode_encode ty v h1 h2 h3 (encodeMany tys vs ++ rest)
    simp only [decodeMany, encodeMany, List.append_assoc]
    simp only [decode] at e ⊢
    rw [e]
    simp only [concat_decodes tys vs h4 rest, normMany]

/-- `decode_all` succeeds exactly when `decode` succeeds and nothing remains; same value. -/
theorem decode_all_iff (ty : Ty) (bs : Bytes) (v : Val) :
    decodeAll ty bs = .ok v ↔ decode ty bs = (.ok v, []) := by
  unfold decodeAll
  cases hd : decode ty bs with
  | mk r rest =>
    cases r with
    | ok v' =>
      cases rest with
      | nil => simp
      | cons b rest => simp
    | err => simp
    | panic => simp

/-- `decode_all_with_depth_limit` succeeds exactly when `decode_with_depth_limit` succeeds and
    nothing remains; same value. -/
theorem decode_all_with_depth_limit_iff (limit : Nat) (ty : Ty) (bs : Bytes) (v : Val) :
    decodeAllLimit limit ty bs = .ok v ↔ decodeLimit limit ty bs = (.ok v, []) := by
  unfold decodeAllLimit
  cases hd : decodeLimit limit ty bs with
  | mk r rest =>
    cases r with
    | ok v' =>
      cases rest with
      | nil => simp
      | cons b rest => simp
    | err => simp
    | panic => simp

/-- `decode_all` rejects trailing bytes after a complete value. -/
theorem decode_all_rejects_trailing (ty : Ty) (v : Val) (hwf : wf ty v = true) (hcanon : canon ty v = true)
    (hlayout : layoutOk ty = true) (t : Bytes) (ht : t ≠ []) :
    decodeAll ty (Spec.encode ty v ++ t) = .err := by
  unfold decodeAll
  have e : decode ty (Spec.encode ty v ++ t) = (.ok (norm ty v), t) := decode_encode ty v hwf hcanon hlayout t
  rw [e]
  cases t with
  | nil => exact absurd rfl ht
  | cons b t => simp

/-! ### Non-vacuity -/
example : (decode (.prim .u32) [1, 0, 0]).1.isOk = false := by decide
example : (decodeAll (.prim .u16) [1, 0, 9]).isOk = false := by decide
example : allOk [.bool, .prim .u8] [.bool true, .nat 3] := by simp [allOk, wf, canon, layoutOk, primWf, Prim.signed, Prim.size]

end Scale.C14
