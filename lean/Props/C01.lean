/-
  Props/C01.lean — Encoded bytes conform to the SCALE wire format.

  `Spec.encode` (Scale/Encode.lean) *is* the statement of the wire format: fixed-width integers and
  floats little-endian, compact integers in their shortest mode, bool/Option/Result as tag bytes,
  sequences and maps as compact count ++ concatenated elements, strings as UTF-8 bytes,
  tuples/structs/arrays as plain concatenation, enums as one index byte ++ fields, bit sequences as
  compact bit count ++ zero-padded storage words, pointers/wrappers transparent.
  `Impl.encodeTo` is the transliteration of the Rust `encode_to` code paths (bulk path of
  `encode_slice_no_len`, `compact_encode_len_to(..).expect(..)`, the bit-count `assert!`, the five
  compact encoders), which the correspondence check runs against the crate.
-/
import Proofs.EncodeRef
namespace Scale.C01
open Scale

/-- For every well-formed value of every modelled type the code's bytes are the specification's,
    and no panic site is reached. -/
theorem encode_refines_spec (ty : Ty) (v : Val) (h : wf ty v = true) :
    Impl.encodeTo ty v = .ok (Spec.encode ty v) :=
  encodeTo_ref ty v h

/-- Encoding never panics for values whose counts the format can represent (`wf` bounds element
    counts by 2^32 - 1 and bit counts by 2^29 - 1). -/
theorem encode_never_panics (ty : Ty) (v : Val) (h : wf ty v = true) : Impl.encodeTo ty v ≠ .panic := by
  rw [encodeTo_ref ty v h]; simp

/-- The bulk path (`encode_slice_no_len` on the twelve primitive element types) writes exactly the
    concatenation of the elements' little-endian encodings. -/
theorem bulk_path_is_elementwise (p : Prim) (vs : List Val) :
    Impl.sliceNoLen (.prim p) (Impl.encodeTo (.prim p)) vs = .ok (vs.map (Spec.encode (.prim p))).flatten :=
  sliceNoLen_ok (.prim p) vs (fun v _ => by simp [Impl.encodeTo, Spec.encode])

/-- A count beyond `u32::MAX` is a panic in the code (`expect("Compact encodes length")`): this is
    the excluded point of `encode_never_panics`, stated so that the guard is visibly exact. -/
theorem oversize_count_panics (n : Nat) (h : n > u32Max) : Impl.encodeLen n = .panic := by
  simp [Impl.encodeLen, h]

/-- A value sitting in a skipped variant encodes to no bytes. -/
theorem skipped_variant_empty (idxs : List Nat) (ts : List Ty) :
    Impl.encodeTo (.enum idxs ts) .skipped = .ok [] := by
  simp [Impl.encodeTo]

/-! ### Pinned vectors: the repository's own expectations restated on `Spec.encode`
    (`src/codec.rs` tests `*_encoded_as_expected`, `tests/mod.rs`, README). -/

/-- `"Hello, World!"` → `34 48 65 6c 6c 6f 2c 20 57 6f 72 6c 64 21`. -/
example : Spec.encode .str (.bytes [0x48, 0x65, 0x6c, 0x6c, 0x6f, 0x2c, 0x20, 0x57, 0x6f, 0x72, 0x6c, 0x64, 0x21]) =
    [0x34, 0x48, 0x65, 0x6c, 0x6c, 0x6f, 0x2c, 0x20, 0x57, 0x6f, 0x72, 0x6c, 0x64, 0x21] := by decide
/-- `vec![0u8, 1, 1, 2, 3, 5, 8, 13, 21, 34]` → `28 00 01 01 02 03 05 08 0d 15 22`. -/
example : Spec.encode (.seq .vec 1 (.prim .u8))
    (.seq [.nat 0, .nat 1, .nat 1, .nat 2, .nat 3, .nat 5, .nat 8, .nat 13, .nat 21, .nat 34]) =
    [0x28, 0x00, 0x01, 0x01, 0x02, 0x03, 0x05, 0x08, 0x0d, 0x15, 0x22] := by decide
/-- `vec![0i16, 1, -1, 2, -2, 3, -3]` → `1c 00 00 01 00 ff ff 02 00 fe ff 03 00 fd ff`. -/
example : Spec.encode (.seq .vec 2 (.prim .i16))
    (.seq [.int 0, .int 1, .int (-1), .int 2, .int (-2), .int 3, .int (-3)]) =
    [0x1c, 0x00, 0x00, 0x01, 0x00, 0xff, 0xff, 0x02, 0x00, 0xfe, 0xff, 0x03, 0x00, 0xfd, 0xff] := by decide
/-- `vec![Some(1i8), Some(-1), None]` → `0c 01 01 01 ff 00`. -/
example : Spec.encode (.seq .vec 2 (.option (.prim .i8))) (.seq [.some (.int 1), .some (.int (-1)), .none]) =
    [0x0c, 0x01, 0x01, 0x01, 0xff, 0x00] := by decide
/-- `vec![OptionBool(Some(true)), OptionBool(Some(false)), OptionBool(None)]` → `0c 01 02 00`. -/
example : Spec.encode (.seq .vec 1 .optionBool) (.seq [.some (.bool true), .some (.bool false), .none]) =
    [0x0c, 0x01, 0x02, 0x00] := by decide
/-- `vec![(), (), (), (), ()]` → `14`. -/
example : Spec.encode (.seq .vec 0 .unit) (.seq [.unit, .unit, .unit, .unit, .unit]) = [0x14] := by decide
/-- `vec!["Hamlet", "Война и мир" …]`-style nesting: vec of strings is count ++ (len ++ bytes)*. -/
example : Spec.encode (.seq .vec 24 .str) (.seq [.bytes [0x61], .bytes []]) = [0x08, 0x04, 0x61, 0x00] := by decide
/-- `u64::MAX` as `Compact<u64>`, `1u32`, `-2i16`, a 2-tuple. -/
example : Spec.encode (.tuple [.prim .u32, .prim .i16]) (.seq [.nat 1, .int (-2)]) = [1, 0, 0, 0, 0xfe, 0xff] := by decide
/-- Enum: index byte then fields (`tests/mod.rs`: `EnumType::B(1, 2)` with index 15 → `0f 01 00 00 00 02 ..`). -/
example : Spec.encode (.enum [1, 15] [.tuple [], .tuple [.prim .u32, .prim .u64]])
    (.variant 15 (.seq [.nat 1, .nat 2])) = [0x0f, 1, 0, 0, 0, 2, 0, 0, 0, 0, 0, 0, 0] := by decide
/-- `bitvec![u8, Msb0; 1, 1, 0, 1]`-style: 4 bits → `10 d0`; Lsb0 → `10 0b`. -/
example : Spec.encode (.bitseq .u8 true) (.bits [true, true, false, true]) = [0x10, 0xd0] := by decide
example : Spec.encode (.bitseq .u8 false) (.bits [true, true, false, true]) = [0x10, 0x0b] := by decide
/-- `Duration::new(1, 2)` → u64 secs LE ++ u32 nanos LE; `Option<bool>` is two bytes, `OptionBool` one. -/
example : Spec.encode .duration (.seq [.nat 1, .nat 2]) = [1, 0, 0, 0, 0, 0, 0, 0, 2, 0, 0, 0] := by decide
example : Spec.encode (.option .bool) (.some (.bool true)) = [1, 1] := by decide
example : Spec.encode (.result (.prim .u8) .bool) (.err (.bool false)) = [1, 0] := by decide
/-- Non-vacuity of the hypothesis: a nested well-formed value. -/
example : wf (.seq .bmap 0 (.tuple [.prim .u8, .seq .vec 1 (.prim .u16)]))
    (.seq [.seq [.nat 1, .seq [.nat 7]], .seq [.nat 2, .seq []]]) = true := by decide

end Scale.C01
