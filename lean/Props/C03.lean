/-
  Props/C03.lean — Decoder accepts exactly the SCALE language and is total on any bytes.

  Totality is by construction: `decode ty bs = run sliceInput (Impl.decodeP ty) bs` is a total Lean
  function (kernel-accepted structural recursion over the type descriptor and the interaction
  tree; loops carry fuel = the item count), so the modelled decoder terminates on every input.
-/
import Scale.Entry
import Proofs.RoundTrip
import Proofs.Canonical
import Proofs.WireCanon
import Proofs.NoPanic
import Proofs.ProgSlice
import Proofs.Renorm
namespace Scale.C03
open Scale

/-- The decoder never panics, on any byte string, for any type. -/
theorem decode_never_panics (ty : Ty) (hw : widthsOk ty = true) (bs : Bytes) :
    (decode ty bs).1 ≠ .panic :=
  decodeP_noPanic ty hw bs

/-- Whatever is returned, at most the supplied bytes were consumed (no read beyond the input: the
    consumed part is a prefix of the input and the rest is its suffix). -/
theorem consumed_is_prefix (ty : Ty) (bs rest : Bytes) (v : Val) (h : decode ty bs = (.ok v, rest)) :
    ∃ pre, bs = pre ++ rest :=
  (run_slice_ok_extend (Impl.decodeP ty) bs rest v h).1

/-- **Exact language.** For every wire-canonical type (everything except maps, sets, heaps and bit
    sequences, whose documented non-canonical acceptances are characterised below), decoding
    succeeds with value `v` and remainder `rest` **iff** `v` is a well-formed value of the type and
    the input is exactly the SCALE encoding of `v` followed by `rest`. -/
theorem accepts_exactly_encodings (ty : Ty) (hw : widthsOk ty = true) (hl : layoutOk ty = true)
    (hc : wireCanon ty = true) (bs rest : Bytes) (v : Val) :
    decode ty bs = (.ok v, rest) ↔ wf ty v = true ∧ bs = Spec.encode ty v ++ rest := by
  constructor
  · exact decode_inv ty hw hl hc bs rest v
  · rintro ⟨hwf, rfl⟩
    have := decode_encode ty v hwf (canon_true ty hc v) hl rest
    rwa [norm_id ty hc v] at this

/-- **Exact language, general form.** For every type without bit sequences — including maps, sets
    and heaps with their documented non-canonical acceptances — decoding succeeds with `v` and
    remainder `rest` **iff** the input is the SCALE encoding of some well-formed value `raw` *as
    written* followed by `rest`, and `v` is `raw` order-normalised at every nesting level
    (`renorm`: heaps sorted, maps/sets rebuilt by `from_iter` — any order and duplicate keys are
    accepted, the later entry wins; everything else unchanged). -/
theorem accepts_exactly_encodings_up_to_order (ty : Ty) (hw : widthsOk ty = true) (hl : layoutOk ty = true)
    (hb : noBits ty = true) (bs rest : Bytes) (v : Val) :
    decode ty bs = (.ok v, rest) ↔
      ∃ raw, wf ty raw = true ∧ bs = Spec.encode ty raw ++ rest ∧ v = renorm ty raw :=
  exact_language ty hw hl hb bs rest v

/-- The decoder of a type with ordered collections is the decoder of the same type with plain
    sequences in their place (`listify`), followed by order-normalisation — for every input. -/
theorem ordered_collections_read_as_sequences (ty : Ty) (bs : Bytes) :
    decode ty bs = ((decode (listify ty) bs).1.map (renorm ty), (decode (listify ty) bs).2) :=
  sim_decodeP ty bs

/-- **Bit sequences**: the accepted inputs are a compact bit count `n ≤ 2^29 - 1`, followed by exactly
    `ceil(n / w)` storage words of any content; the value is the first `n` bits of the unpacked
    words — so the padding bits of the last word are not inspected (the one documented acceptance
    of input that is not the encoding of a value). -/
theorem bit_sequence_language (store : Prim) (msb : Bool) (bs rest : Bytes) (v : Val) :
    decode (.bitseq store msb) bs = (.ok v, rest) ↔
      ∃ (n : Nat) (words : Bytes), n ≤ maxBits ∧
        words.length = Impl.elts (8 * store.size) n * store.size ∧
        bs = Spec.compact n ++ words ++ rest ∧
        v = .bits ((((chunksOf store.size (Impl.elts (8 * store.size) n) words).map
              fun e => elemToBits (8 * store.size) msb (fromLe e)).flatten).take n) := by
  have hs1 : 1 ≤ store.size := by cases store <;> simp [Prim.size]
  have hs2 : store.size ≤ maxPrealloc := by cases store <;> simp [Prim.size, maxPrealloc]
  have hge : ∀ (n : Nat) (words : Bytes), n ≤ (((chunksOf store.size (Impl.elts (8 * store.size) n) words).map
      fun e => elemToBits (8 * store.size) msb (fromLe e)).flatten).length := by
    intro n words
    rw [flatten_map_const_length _ _ (8 * store.size) (by intro a; simp [elemToBits]), chunksOf_length]
    have hw : 0 < 8 * store.size := by omega
    unfold Impl.elts
    generalize 8 * store.size = w at *
    have := Nat.div_add_mod (n + w - 1) w
    have := Nat.mod_lt (n + w - 1) hw
    rw [Nat.mul_comm]
    omega
  simp only [decode, Impl.decodeP]
  constructor
  · intro h
    obtain ⟨n, s1, h1, h2⟩ := run_bind_ok h
    obtain ⟨hn, rfl⟩ := len_inv h1
    by_cases hm : n > maxBits
    · simp [hm] at h2
    · simp only [hm, if_false] at h2
      obtain ⟨words, tl, rfl, hlen, h3⟩ := run_bulk_ok hs1 hs2 h2
      simp only [hge n words, if_true] at h3
      obtain ⟨rfl, rfl⟩ := run_pure_ok h3
      exact ⟨n, words, by omega, hlen, by simp [List.append_assoc], rfl⟩
  · rintro ⟨n, words, hn, hlen, rfl, rfl⟩
    have hn32 : n ≤ u32Max := by simp [maxBits, u32Max] at hn ⊢; omega
    rw [List.append_assoc, run_bind, run_len_enc hn32]
    have hm : ¬ n > maxBits := by omega
    simp only [hm, if_false]
    rw [run_slice_bulk hs1 hs2]
    have hc : ¬ (Impl.elts (8 * store.size) n * store.size > usizeMax ∨
        (words ++ rest).length < Impl.elts (8 * store.size) n * store.size) := by
      simp only [List.length_append, hlen]
      have : Impl.elts (8 * store.size) n ≤ n + 8 * store.size - 1 := by
        unfold Impl.elts; exact Nat.div_le_self _ _
      have h16 : store.size ≤ 16 := by cases store <;> simp [Prim.size]
      have := Nat.mul_le_mul this h16
      simp [maxBits] at hn
      simp [usizeMax]
      omega
    simp only [hc, if_false, List.take_left' hlen, List.drop_left' hlen, hge n words, if_true, run_pure]

/-- Soundness half for every type, canonical or not: nothing is accepted that is not the decode of
    the canonical encoding of what was returned (maps/sets/heaps come back normalised). -/
theorem accepted_value_reencodes (ty : Ty) (v : Val) (hwf : wf ty v = true) (hcanon : canon ty v = true)
    (hl : layoutOk ty = true) (rest : Bytes) :
    decode ty (Spec.encode ty v ++ rest) = (.ok (norm ty v), rest) :=
  decode_encode ty v hwf hcanon hl rest

/-! ### The rejections named in the property, each as a theorem over all inputs of that shape -/

/-- `bool`: any tag byte other than 0/1 is rejected. -/
theorem bool_bad_tag (b : UInt8) (s : Bytes) (h0 : b.toNat ≠ 0) (h1 : b.toNat ≠ 1) :
    decode .bool (b :: s) = (.err, s) := by
  simp [decode, Impl.decodeP, h0, h1]

/-- `Option<T>`: any tag byte other than 0/1 is rejected. -/
theorem option_bad_tag (t : Ty) (b : UInt8) (s : Bytes) (h0 : b.toNat ≠ 0) (h1 : b.toNat ≠ 1) :
    decode (.option t) (b :: s) = (.err, s) := by
  simp [decode, Impl.decodeP, h0, h1]

/-- `Result<T, E>`: any tag byte other than 0/1 is rejected. -/
theorem result_bad_tag (t e : Ty) (b : UInt8) (s : Bytes) (h0 : b.toNat ≠ 0) (h1 : b.toNat ≠ 1) :
    decode (.result t e) (b :: s) = (.err, s) := by
  simp [decode, Impl.decodeP, h0, h1]

/-- `OptionBool`: any tag byte other than 0/1/2 is rejected. -/
theorem option_bool_bad_tag (b : UInt8) (s : Bytes) (h0 : b.toNat ≠ 0) (h1 : b.toNat ≠ 1) (h2 : b.toNat ≠ 2) :
    decode .optionBool (b :: s) = (.err, s) := by
  simp [decode, Impl.decodeP, h0, h1, h2]

/-- An index byte naming no declared variant is rejected. -/
theorem unknown_variant_rejected : ∀ (idxs : List Nat) (ts : List Ty) (b : UInt8) (s : Bytes),
    (∀ i ∈ idxs, i % 256 ≠ b.toNat) → decode (.enum idxs ts) (b :: s) = (.err, s) := by
  intro idxs ts b s h
  simp only [decode, Impl.decodeP, run_slice_readByte_cons]
  induction idxs generalizing ts with
  | nil => simp [Impl.decodeVariant]
  | cons i is ih =>
    cases ts with
    | nil => simp [Impl.decodeVariant]
    | cons t ts =>
      simp only [Impl.decodeVariant, h i (List.mem_cons_self), if_false]
      exact ih ts (fun j hj => h j (List.mem_cons_of_mem _ hj))

/-- Zero is rejected for every `NonZero*` type. -/
theorem nonzero_zero_rejected (p : Prim) (rest : Bytes) :
    (decode (.nonZero p) (List.replicate p.size 0 ++ rest)).1 = .err := by
  have hz : primIsZero (primVal p (List.replicate p.size 0)) = true := by cases p <;> decide
  simp only [decode, Impl.decodeP, Impl.decodePrim, run_bind]
  by_cases h1 : p.size = 1
  · simp only [h1, if_true, List.replicate, List.cons_append, List.nil_append, run_slice_readByte_cons, run_pure]
    rw [h1] at hz
    simp only [List.replicate] at hz
    simp [hz]
  · simp only [h1, if_false]
    rw [run_slice_read_append _ rest (by simp)]
    simp [hz]

/-- `Duration`: 10^9 nanoseconds or more are rejected. -/
theorem duration_nanos_rejected (secs nanos rest : Bytes) (h8 : secs.length = 8) (h4 : nanos.length = 4)
    (hn : fromLe nanos ≥ 1000000000) : (decode .duration (secs ++ nanos ++ rest)).1 = .err := by
  simp only [decode, Impl.decodeP, List.append_assoc]
  rw [run_slice_read_append _ _ h8, run_slice_read_append _ _ h4]
  simp [hn]

/-- Invalid UTF-8 is rejected (`utf8Valid` is the model of `String::from_utf8`'s contract). -/
theorem invalid_utf8_rejected (bs rest : Bytes) (hl : bs.length ≤ u32Max) (hu : utf8Valid bs = false) :
    (decode .str (Spec.compact bs.length ++ bs ++ rest)).1 = .err := by
  simp only [decode, Impl.decodeP, List.append_assoc, run_bind, run_len_enc hl]
  rw [run_slice_bulk (Nat.le_refl 1) (by decide)]
  have hc : ¬ (bs.length * 1 > usizeMax ∨ (bs ++ rest).length < bs.length * 1) := by
    simp [u32Max, usizeMax] at hl ⊢; omega
  simp only [Nat.mul_one] at hc ⊢
  simp only [hc, if_false, List.take_left' rfl, List.drop_left' rfl, hu]
  simp

/-- A bit sequence longer than 2^29 - 1 bits is rejected before any storage is read. -/
theorem too_many_bits_rejected (store : Prim) (msb : Bool) (bits : Nat) (rest : Bytes)
    (h1 : bits > maxBits) (h2 : bits ≤ u32Max) :
    (decode (.bitseq store msb) (Spec.compact bits ++ rest)).1 = .err := by
  simp [decode, Impl.decodeP, run_bind, run_len_enc h2, h1]

/-- Non-minimal or over-wide compact integers are rejected (from C04: only the canonical form of a
    value that fits is accepted). -/
theorem compact_noncanonical_rejected (w : Nat) (hw : w = 1 ∨ w = 2 ∨ w = 4 ∨ w = 8 ∨ w = 16)
    (bs : Bytes) (h : ¬ ∃ x rest, x < 2 ^ (8 * w) ∧ bs = Spec.compact x ++ rest) :
    (decode (.compact w) bs).1 = .err := by
  have hnp := decodeP_noPanic (.compact w) (by rcases hw with rfl | rfl | rfl | rfl | rfl <;> decide) bs
  cases hd : decode (.compact w) bs with
  | mk r rest =>
    cases r with
    | err => rfl
    | panic => exact absurd (by have h2 := hd; unfold decode at h2; rw [h2]) hnp
    | ok v =>
      exfalso
      simp only [decode, Impl.decodeP] at hd
      obtain ⟨n, s1, h1, h2⟩ := run_bind_ok hd
      obtain ⟨c1, c2⟩ := compactDecode_can hw h1
      exact h ⟨n, s1, c1, c2⟩

/-- A count that promises more primitive elements than bytes are present is rejected (bulk path:
    before any allocation, from the known remaining length). -/
theorem bulk_count_exceeding_data_rejected (sz : Nat) (p : Prim) (n : Nat) (payload : Bytes)
    (hn : n ≤ u32Max) (h : payload.length < n * p.size) :
    (decode (.seq .vec sz (.prim p)) (Spec.compact n ++ payload)).1 = .err := by
  have ⟨h1, h16⟩ := prim_size_le p
  simp only [decode, Impl.decodeP, run_bind, run_len_enc hn, Impl.decodeVecWithLen]
  rw [run_slice_bulk h1 (by simp [maxPrealloc]; omega)]
  simp [h]

/-! ### Non-vacuity / documented non-canonical acceptances (these are *accepted*, by design) -/

/-- An unsorted set encoding is accepted and normalised (not a rejection). -/
example : (decode (.seq .bset 0 (.prim .u8)) [8, 2, 1]).1.isOk = true := by decide
/-- Non-zero padding bits in the last storage word are accepted. -/
example : (decode (.bitseq .u8 false) [4, 0xff]).1.isOk = true := by decide
example : wireCanon (.seq .vec 24 (.tuple [.str, .option (.prim .u32)])) = true := by decide
example : (decode (.seq .vec 1 (.prim .u8)) [0xfe, 0xff, 0xff, 0xff, 1, 2, 3]).1.isOk = false := by decide


/-! ### Non-vacuity of the general form: an unsorted set with a duplicate is accepted and normalised -/
example : renorm (.seq .bset 96 (.prim .u8)) (.seq [.nat 2, .nat 1, .nat 2]) = .seq [.nat 1, .nat 2] := by rfl
example : (decode (.seq .bset 96 (.prim .u8)) [12, 2, 1, 2]).1.isOk = true := by decide
example : noBits (.seq .bmap 32 (.tuple [.prim .u8, .seq .heap 4 (.prim .u32)])) = true := by decide

end Scale.C03
