/-
  Props/C18.lean — Length peeking and skipping agree with full decoding.
-/
import Proofs.Skip
import Proofs.RoundTrip
import Props.C08
import Proofs.CompactDec
import Props.C04
namespace Scale.C18
open Scale

/-- `DecodeLength::len` on the encoding of a collection returns its true element count, for all six
    collection kinds, every element type and every value (whatever follows the encoding). -/
theorem len_peek (k : SeqKind) (sz : Nat) (t : Ty) (vs : List Val) (rest : Bytes)
    (h : wf (.seq k sz t) (.seq vs) = true) :
    Impl.decodeLen (Spec.encode (.seq k sz t) (.seq vs) ++ rest) = .ok vs.length := by
  simp only [wf, Bool.and_eq_true, decide_eq_true_eq] at h
  simp only [Impl.decodeLen, Spec.encode, List.append_assoc, run_len_enc h.1]

/-- A tuple that starts with a collection delegates to it: the count of the first component. -/
theorem len_peek_tuple (k : SeqKind) (sz : Nat) (t : Ty) (ts : List Ty) (vs : List Val) (others : List Val)
    (rest : Bytes) (h : wf (.seq k sz t) (.seq vs) = true) :
    Impl.decodeLen (Spec.encode (.tuple (.seq k sz t :: ts)) (.seq (.seq vs :: others)) ++ rest) = .ok vs.length := by
  simp only [wf, Bool.and_eq_true, decide_eq_true_eq] at h
  simp only [Impl.decodeLen, Spec.encode, Spec.encodeList, List.append_assoc, run_len_enc h.1]

/-- Skipping succeeds exactly when decoding succeeds, and then leaves the input at the same
    position — for every type and every byte string (including the array override that skips
    fixed-size elements one by one where `decode` reads them in one bulk read). -/
theorem skip_agrees_with_decode (ty : Ty) (bs : Bytes) :
    (∀ r, skip ty bs = (.ok (), r) → ∃ v, decode ty bs = (.ok v, r)) ∧
    (∀ v r, decode ty bs = (.ok v, r) → skip ty bs = (.ok (), r)) := by
  obtain ⟨a1, a2, _⟩ := skip_eq_decode ty bs
  refine ⟨fun r h => a1 () r h, fun v r h => ?_⟩
  obtain ⟨u, hu⟩ := a2 v r h
  cases u; exact hu

/-- … and fails exactly when decoding fails (neither ever panics where the other does not). -/
theorem skip_fails_iff_decode_fails (ty : Ty) (bs : Bytes) :
    (skip ty bs).1.isOk = (decode ty bs).1.isOk := by
  obtain ⟨a1, a2, _⟩ := skip_eq_decode ty bs
  change ∀ (a : Unit) (r : Bytes), skip ty bs = (Res.ok a, r) → ∃ b, decode ty bs = (Res.ok b, r) at a1
  change ∀ (b : Val) (r : Bytes), decode ty bs = (Res.ok b, r) → ∃ a, skip ty bs = (Res.ok a, r) at a2
  cases hs : skip ty bs with
  | mk rs r1 =>
    cases hd : decode ty bs with
    | mk rd r2 =>
      cases rs with
      | ok u =>
        obtain ⟨v, hv⟩ := a1 u r1 hs
        rw [hd] at hv; cases hv; rfl
      | err =>
        cases rd with
        | ok v => obtain ⟨u, hu⟩ := a2 v r2 hd; rw [hs] at hu; cases hu
        | err => rfl
        | panic => rfl
      | panic =>
        cases rd with
        | ok v => obtain ⟨u, hu⟩ := a2 v r2 hd; rw [hs] at hu; cases hu
        | err => rfl
        | panic => rfl

/-- In particular for compact integers: `skip` steps over exactly the canonical forms of the values
    that fit the width — no non-minimal form, no value of a wider type with the same framing. -/
theorem compact_skip_iff_canonical {w : Nat} (hw : C04.Width w) (bs rest : Bytes) :
    skip (.compact w) bs = (.ok (), rest) ↔ ∃ x, x < 2 ^ (8 * w) ∧ bs = Spec.compact x ++ rest := by
  obtain ⟨h1, h2⟩ := skip_agrees_with_decode (.compact w) bs
  have key : ∀ v, decode (.compact w) bs = (.ok v, rest) ↔ ∃ x, v = .nat x ∧ compactDecode w bs = (.ok x, rest) := by
    intro v
    simp only [decode, Impl.decodeP, compactDecode, run_bind]
    rcases run sliceInput (Impl.compactDec w) bs with ⟨r, s⟩
    cases r with
    | ok a =>
      simp only [run]
      constructor
      · intro h; cases h; exact ⟨a, rfl, rfl⟩
      · rintro ⟨x, rfl, h⟩; cases h; rfl
    | err => simp [run]
    | panic => simp [run]
  constructor
  · intro h
    obtain ⟨v, hv⟩ := h1 rest h
    obtain ⟨x, _, hx⟩ := (key v).mp hv
    exact ⟨x, (C04.decode_iff_canonical hw bs rest x).mp hx⟩
  · rintro ⟨x, hx, rfl⟩
    exact h2 (.nat x) rest ((key _).mpr ⟨x, rfl, (C04.decode_iff_canonical hw _ rest x).mpr ⟨hx, rfl⟩⟩)

/-- Skipping through ANY faithful input (a reader of unknown length, a chunked reader, the shared
    buffer, any stack of non-binding wrappers): it succeeds exactly when decoding from the slice of
    the same bytes succeeds, and then leaves exactly the bytes that decoding leaves. -/
theorem skip_any_input {σ : Type} {I : InputOps σ} {R : Bytes → σ → Prop} (hI : Faithful I R) (ty : Ty)
    (bs : Bytes) (s : σ) (hr : R bs s) :
    (run I (Impl.skipP ty) s).1.isOk = (decode ty bs).1.isOk ∧
    (∀ v r, decode ty bs = (.ok v, r) → R r (run I (Impl.skipP ty) s).2) := by
  obtain ⟨e, k⟩ := C08.decode_input_independent hI (Impl.skipP ty) bs s hr
  refine ⟨?_, fun v r h => ?_⟩
  · rw [e]; exact skip_fails_iff_decode_fails ty bs
  · have hs := (skip_agrees_with_decode ty bs).2 v r h
    have := k () (by rw [show run sliceInput (Impl.skipP ty) bs = skip ty bs from rfl, hs])
    rw [show run sliceInput (Impl.skipP ty) bs = skip ty bs from rfl, hs] at this
    exact this

/-- When a type reports a fixed encoded size, every value has that size. -/
theorem fixed_size_exact (ty : Ty) (n : Nat) (h : Impl.encodedFixedSize ty = some n) (v : Val)
    (hw : wf ty v = true) : (Spec.encode ty v).length = n :=
  fixedSize_exact ty n h v hw

/-! ### Non-vacuity -/
example : Impl.encodedFixedSize (.array 3 (.array 2 (.prim .u32))) = some 24 := by decide
example : Impl.encodedFixedSize (.array 3 (.prim .u8)) = none := by decide
example : (skip (.array 2 (.prim .u16)) [1, 0, 2, 0, 9]).2 = [9] := by decide
example : (skip (.array 2 (.prim .u16)) [1, 0, 2]).1.isOk = false := by decide

end Scale.C18
