/-
  Props/C20.lean — Wire format is identical in every feature configuration.

  What a feature flag can touch in the crate: (a) which `Output` instance backs `encode()` —
  `Vec::extend_from_slice` without `std`, `io::Write::write_all` with it; (b) what an `Error`
  carries (`chain-error`); (c) which optional types exist. The model has exactly one error value,
  so no modelled control flow can depend on (b); (a) is proved below; that no `cfg`-gated code path
  escapes the model is decided by the correspondence check, which builds the harness in each
  configuration and compares all of them with the same model answers and with each other.
-/
import Scale.EntryEnc
import Props.C07
namespace Scale.C20
open Scale Impl

/-- The `no_std` instance: `impl Output for Vec<u8> { fn write(&mut self, b) { self.extend_from_slice(b) } }`. -/
def vecSink : Sink Bytes := { write := fun s b => s ++ b, view := id }

/-- `io::Write::write_all` over a writer that accepts `accept i` bytes (at least one) on its `i`-th
    `write` call: loop until the buffer is drained. State: bytes written so far and the call count. -/
def writeAll (accept : Nat → Nat) : Nat → Bytes × Nat → Bytes → Bytes × Nat
  | 0, st, _ => st
  | fuel + 1, (written, i), pending =>
    if pending.isEmpty then (written, i)
    else
      let k := max 1 (min (accept i) pending.length)
      writeAll accept fuel (written ++ pending.take k, i + 1) (pending.drop k)

/-- The `std` instance: `impl<W: io::Write> Output for W { fn write(&mut self, b) { self.write_all(b).expect(..) } }`. -/
def ioSink (accept : Nat → Nat) : Sink (Bytes × Nat) :=
  { write := fun s b => writeAll accept b.length s b, view := fun s => s.1 }

theorem writeAll_appends (accept : Nat → Nat) : ∀ (fuel : Nat) (st : Bytes × Nat) (pending : Bytes),
    pending.length ≤ fuel → (writeAll accept fuel st pending).1 = st.1 ++ pending
  | 0, st, pending, h => by
    have : pending = [] := List.eq_nil_of_length_eq_zero (by omega)
    subst this; simp [writeAll]
  | fuel + 1, (written, i), pending, h => by
    unfold writeAll
    by_cases he : pending.isEmpty = true
    · have : pending = [] := List.isEmpty_iff.mp he
      subst this; simp
    · simp only [he, Bool.false_eq_true, if_false]
      have hpos : 0 < pending.length := by
        cases pending with
        | nil => simp at he
        | cons _ _ => simp
      rw [writeAll_appends accept fuel _ _ (by simp; omega)]
      simp only [List.append_assoc, List.take_append_drop]

theorem vecSink_appending : vecSink.Appending := fun _ _ => rfl

theorem ioSink_appending (accept : Nat → Nat) : (ioSink accept).Appending := by
  intro s b
  exact writeAll_appends accept b.length s b (Nat.le_refl _)

/-- **The two `Output` instances observe the same bytes**, however the writer under `write_all`
    chops them up and however the encoder splits its output into `write` calls. -/
theorem output_instance_irrelevant (accept : Nat → Nat) (chunks : List Bytes) :
    vecSink.view (chunks.foldl vecSink.write []) = (ioSink accept).view (chunks.foldl (ioSink accept).write ([], 0)) := by
  rw [C07.sink_independent vecSink vecSink_appending, C07.sink_independent (ioSink accept) (ioSink_appending accept)]
  rfl

/-- The model's failure carries no information: two failing decodes are indistinguishable, so no
    decision of the modelled decoder can depend on an error's description (`chain-error`). -/
theorem errors_carry_no_information {α : Type} (r₁ r₂ : Res α) (h₁ : r₁.isOk = false) (h₂ : r₂.isOk = false)
    (hp₁ : r₁ ≠ .panic) (hp₂ : r₂ ≠ .panic) : r₁ = r₂ := by
  cases r₁ <;> cases r₂ <;> simp_all [Res.isOk]

/-! ### Non-vacuity: a writer that takes one byte at a time -/
example : (ioSink (fun _ => 1)).view ([[1, 2, 3], [4]].foldl (ioSink (fun _ => 1)).write ([], 0)) = [1, 2, 3, 4] := by decide

end Scale.C20
