/-
  Props/C08.lean — Decoding is independent of the `Input` implementation.

  `Faithful I R`: in state `s` with `R bs s`, the input `I` delivers exactly the bytes `bs`
  (`read n` returns the next `n` bytes when present and fails otherwise, whatever it does to its
  position on failure; `remaining_len` is `None` or the true length; hooks succeed).
-/
import Scale.Entry
import Proofs.Faithful
import Proofs.Wrappers
namespace Scale.C08
open Scale

/-- **Input independence.** Over any faithful input every decoder program returns what it returns
    over the slice of the same bytes: same success or failure, same value, and on success the
    input is left with exactly the bytes the slice is left with (same number consumed). -/
theorem decode_input_independent {σ α : Type} {I : InputOps σ} {R : Bytes → σ → Prop} (h : Faithful I R)
    (p : Prog α) (bs : Bytes) (s : σ) (hr : R bs s) :
    (run I p s).1 = (run sliceInput p bs).1 ∧
    (∀ v, (run sliceInput p bs).1 = .ok v → R (run sliceInput p bs).2 (run I p s).2) := by
  rcases (run_lax (faithful_laxOps h) p).1 bs s hr with ⟨e, r⟩ | ⟨_, d⟩ | ⟨e1, e2⟩
  · exact ⟨e.symm, fun _ _ => r⟩
  · exact d.elim
  · exact ⟨by rw [e1, e2], fun v hv => by rw [e1] at hv; cases hv⟩

/-- Specialised to types. -/
theorem decode_any_input (ty : Ty) {σ : Type} {I : InputOps σ} {R : Bytes → σ → Prop} (h : Faithful I R)
    (bs : Bytes) (s : σ) (hr : R bs s) :
    (run I (Impl.decodeP ty) s).1 = (decode ty bs).1 :=
  (decode_input_independent h (Impl.decodeP ty) bs s hr).1

/-- A reader with unknown remaining length whose `read` is `read_exact` (`IoReader`, any reader
    delivering data in arbitrary short chunks underneath `read_exact`; a custom `Input` returning
    `None`) is faithful. After a failed read it may have consumed everything. -/
theorem io_faithful : Faithful ioInput sliceRel where
  remainingLen := by rintro bs s ⟨rfl, hb⟩; exact ⟨Or.inl rfl, rfl, hb⟩
  read_ok := by
    rintro n bs s ⟨rfl, hb⟩ hn
    simp only [ioInput, takeExact_eq, sliceRel]
    have : ¬ n > s.length := by omega
    simp [this]; omega
  read_err := by
    rintro n bs s ⟨rfl, hb⟩ hn
    simp only [ioInput, takeExact_eq]
    simp [hn]
  readByte_ok := by
    rintro b bs s ⟨rfl, hb⟩
    refine ⟨rfl, rfl, ?_⟩
    simp at hb; omega
  readByte_err := by rintro s ⟨rfl, hb⟩; rfl
  descend := by rintro bs s ⟨rfl, hb⟩; exact ⟨rfl, rfl, hb⟩
  ascend := by rintro bs s ⟨rfl, hb⟩; exact ⟨rfl, hb⟩
  onAlloc := by rintro n bs s ⟨rfl, hb⟩; exact ⟨rfl, rfl, hb⟩
  raw := by intro f hf; cases hf
  bounded := by rintro bs s ⟨rfl, hb⟩; exact hb

/-- The shared byte buffer of `decode_from_bytes` (`BytesCursor`), including its zero-copy
    override of `scale_internal_decode_bytes`, is faithful. -/
theorem bytesCursor_faithful : Faithful bytesCursorInput sliceRel where
  remainingLen := by rintro bs s ⟨rfl, hb⟩; exact ⟨Or.inr rfl, rfl, hb⟩
  read_ok := by
    rintro n bs s ⟨rfl, hb⟩ hn
    simp only [bytesCursorInput, sliceRead_eq, sliceRel]
    have : ¬ n > s.length := by omega
    simp [this]; omega
  read_err := by
    rintro n bs s ⟨rfl, hb⟩ hn
    simp only [bytesCursorInput, sliceRead_eq]
    simp [hn]
  readByte_ok := by
    rintro b bs s ⟨rfl, hb⟩
    refine ⟨rfl, rfl, ?_⟩
    simp at hb; omega
  readByte_err := by rintro s ⟨rfl, hb⟩; rfl
  descend := by rintro bs s ⟨rfl, hb⟩; exact ⟨rfl, rfl, hb⟩
  ascend := by rintro bs s ⟨rfl, hb⟩; exact ⟨rfl, hb⟩
  onAlloc := by rintro n bs s ⟨rfl, hb⟩; exact ⟨rfl, rfl, hb⟩
  raw := by
    intro f hf n bs s ⟨hs, hb⟩
    subst hs
    have : f = sliceRead := by
      simp only [bytesCursorInput, Option.some.injEq] at hf
      exact hf.symm
    subst this
    simp only [sliceRead_eq, sliceRel]
    refine ⟨fun hn => ?_, fun hn => by simp [hn]⟩
    have : ¬ n > s.length := by omega
    simp [this]; omega
  bounded := by rintro bs s ⟨rfl, hb⟩; exact hb

/-- `BytesCursor` with its position arithmetic (`cursorInput`: whole buffer + running position,
    `advance`/`split_to` in the zero-copy hook) is faithful: at every moment it still has exactly
    `buffer[position ..]` to deliver. -/
def cursorRel : Bytes → Bytes × Nat → Prop := fun bs s => s.1.drop s.2 = bs ∧ s.2 ≤ s.1.length ∧ bs.length ≤ usizeMax

theorem cursor_faithful : Faithful cursorInput cursorRel where
  remainingLen := by
    rintro bs ⟨buf, pos⟩ ⟨h, hp, hb⟩
    simp only at h hp
    subst h
    refine ⟨Or.inr ?_, rfl, hp, hb⟩
    simp [cursorInput]
  read_ok := by
    rintro n bs ⟨buf, pos⟩ ⟨h, hp, hb⟩ hn
    simp only at h hp
    subst h
    simp only [List.length_drop] at hn hb
    have h1 : ¬ n > buf.length - pos := by omega
    have e : cursorInput.read n (buf, pos) = (.ok ((buf.drop pos).take n), (buf, pos + n)) := by
      simp only [cursorInput, h1, if_false]
    rw [e]
    refine ⟨rfl, ?_, ?_, ?_⟩
    · show buf.drop (pos + n) = (buf.drop pos).drop n
      rw [List.drop_drop]
    · show pos + n ≤ buf.length
      omega
    · simp only [List.length_drop]; omega
  read_err := by
    rintro n bs ⟨buf, pos⟩ ⟨h, hp, hb⟩ hn
    simp only at h hp
    subst h
    simp only [List.length_drop] at hn
    simp only [cursorInput, hn, if_true]
  readByte_ok := by
    rintro b bs ⟨buf, pos⟩ ⟨h, hp, hb⟩
    simp only at h hp
    have e : cursorInput.readByte (buf, pos) = (.ok b, (buf, pos + 1)) := by
      simp only [cursorInput, h]
    rw [e]
    have hl : (buf.drop pos).length = bs.length + 1 := by rw [h]; simp
    simp only [List.length_drop] at hl
    refine ⟨rfl, ?_, ?_, ?_⟩
    · show buf.drop (pos + 1) = bs
      have : buf.drop (pos + 1) = (buf.drop pos).drop 1 := by rw [List.drop_drop]
      rw [this, h]; rfl
    · show pos + 1 ≤ buf.length
      omega
    · simp at hb; omega
  readByte_err := by
    rintro ⟨buf, pos⟩ ⟨h, _, _⟩
    simp only at h
    simp only [cursorInput, h]
  descend := by rintro bs s hr; exact ⟨rfl, hr⟩
  ascend := by rintro bs s hr; exact hr
  onAlloc := by rintro n bs s hr; exact ⟨rfl, hr⟩
  raw := by
    intro f hf n bs ⟨buf, pos⟩ ⟨h, hp, hb⟩
    simp only at h hp
    simp only [cursorInput, Option.some.injEq] at hf
    subst hf
    simp only [h]
    refine ⟨fun hn => ?_, fun hn => by simp [hn]⟩
    have h1 : ¬ n > bs.length := by omega
    simp only [h1, if_false]
    refine ⟨trivial, ?_, ?_, ?_⟩
    · show (bs.drop n).drop 0 = bs.drop n
      rfl
    · show 0 ≤ (bs.drop n).length
      omega
    · simp only [List.length_drop]; omega
  bounded := by rintro bs s ⟨_, _, hb⟩; exact hb

/-- `CountedInput` over a faithful input is faithful (it forwards every call and only counts). -/
theorem counted_faithful {σ : Type} {I : InputOps σ} {R : Bytes → σ → Prop} (h : Faithful I R) :
    Faithful (countedInput I) (fun bs s => R bs s.1) where
  remainingLen := by
    rintro bs ⟨s, c⟩ hr
    obtain ⟨a, b⟩ := h.remainingLen bs s hr
    exact ⟨a, b⟩
  read_ok := by
    rintro n bs ⟨s, c⟩ hr hn
    obtain ⟨a, b⟩ := h.read_ok n bs s hr hn
    simp only [countedInput]
    rw [prod_eta (I.read n s), a]
    exact ⟨rfl, b⟩
  read_err := by
    rintro n bs ⟨s, c⟩ hr hn
    have a := h.read_err n bs s hr hn
    simp only [countedInput]
    rw [prod_eta (I.read n s), a]
  readByte_ok := by
    rintro b bs ⟨s, c⟩ hr
    obtain ⟨a, b'⟩ := h.readByte_ok b bs s hr
    simp only [countedInput]
    rw [prod_eta (I.readByte s), a]
    exact ⟨rfl, b'⟩
  readByte_err := by
    rintro ⟨s, c⟩ hr
    have a := h.readByte_err s hr
    simp only [countedInput]
    rw [prod_eta (I.readByte s), a]
  descend := by
    rintro bs ⟨s, c⟩ hr
    obtain ⟨a, b⟩ := h.descend bs s hr
    exact ⟨a, b⟩
  ascend := by rintro bs ⟨s, c⟩ hr; exact h.ascend bs s hr
  onAlloc := by
    rintro n bs ⟨s, c⟩ hr
    obtain ⟨a, b⟩ := h.onAlloc n bs s hr
    exact ⟨a, b⟩
  raw := by intro f hf; cases hf
  bounded := by rintro bs ⟨s, c⟩ hr; exact h.bounded bs s hr

/-- A depth-limit wrapper over *any* input returns what the wrapped input returns or fails, and
    with a non-binding limit (at least the depth the decode needs) it returns exactly the same
    value and leaves the wrapped input in the same state. Wrappers therefore stack in any order. -/
theorem depth_wrapper_nonbinding {σ α : Type} (I : InputOps σ) (hraw : I.rawBytes = none) (L : Nat)
    (p : Prog α) (s : σ) (v : α) (hv : (run I p s).1 = .ok v)
    (hL : (run (depthRec I) p (s, 0, 0)).2.2.2 ≤ L) :
    (run (depthInput L I) p (s, 0)).1 = .ok v ∧ (run (depthInput L I) p (s, 0)).2.1 = (run I p s).2 :=
  ((depth_generic I hraw L p s).2 v hv).mpr hL

/-- The same for a memory-limit wrapper whose limit exceeds the tracked usage. -/
theorem mem_wrapper_nonbinding {σ α : Type} (I : InputOps σ) (hraw : I.rawBytes = none) (L : Nat)
    (hL : L ≤ usizeMax) (p : Prog α) (s : σ) (v : α) (hv : (run I p s).1 = .ok v)
    (hU : L > (run (memRec I) p (s, 0)).2.2) :
    (run (memInput L I) p (s, 0)).1 = .ok v ∧ (run (memInput L I) p (s, 0)).2.1 = (run I p s).2 := by
  obtain ⟨a, b, _⟩ := ((mem_generic I hraw L hL p s).2 v hv).1 hU
  exact ⟨a, b⟩

/-- A wrapper never turns a failure of the wrapped input into a success. -/
theorem wrappers_never_add_success {σ α : Type} (I : InputOps σ) (hraw : I.rawBytes = none) (L : Nat)
    (p : Prog α) (s : σ) (v : α) (h : (run (depthInput L I) p (s, 0)).1 = .ok v) :
    (run I p s).1 = .ok v := by
  rcases (depth_generic I hraw L p s).1 with ⟨e, _⟩ | e
  · rw [← e]; exact h
  · rw [h] at e; cases e

/-! ### Non-vacuity -/
example : sliceRel [1, 2, 3] [1, 2, 3] := ⟨rfl, by decide⟩
example : (run ioInput (Impl.decodeP (.seq .vec 1 (.prim .u8))) [8, 1, 2, 9]).2 = [9] := by decide
example : (run bytesCursorInput (Impl.decodeP .bytes) [8, 1, 2, 9]).2 = [9] := by decide
example : cursorRel [8, 1, 2, 9] ([7, 8, 1, 2, 9], 1) := ⟨rfl, by decide, by decide⟩
example : (run cursorInput (Impl.decodeP (.tuple [.prim .u8, .bytes, .prim .u8])) ([7, 8, 1, 2, 9], 0)).2 = ([9], 1) := by
  decide

end Scale.C08
