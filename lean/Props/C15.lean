/-
  Props/C15.lean — Appending to an encoded sequence equals re-encoding the whole.
-/
import Scale.Append
import Scale.Encode
import Proofs.CompactDec
import Proofs.EncodeRef
namespace Scale.C15
open Scale Impl

theorem compact4 {n : Nat} (h : n ≤ u32Max) :
    compactEncodeTo 4 n = .ok (Spec.compact n) ∧ compactUsingEncoded 4 n = .ok (Spec.compact n) ∧
    compactLen 4 n = (Spec.compact n).length ∧ ∀ rest, compactDecode 4 (Spec.compact n ++ rest) = (.ok n, rest) := by
  have hx : n < 2 ^ (8 * 4) := by simp [u32Max] at h; omega
  have hw : (4 : Nat) = 1 ∨ 4 = 2 ∨ 4 = 4 ∨ 4 = 8 ∨ 4 = 16 := by simp
  refine ⟨compactEncodeTo_eq_spec hw hx, ?_, ?_, fun rest => compactDecode_rt hw hx rest⟩
  · unfold compactUsingEncoded
    rw [compactEncodeTo_eq_spec hw hx]
    have := spec_compactLen_le_cap hw hx
    rw [← spec_compact_length] at this
    simp [this]
  · rw [compactLen_eq_spec hw hx, spec_compact_length]

theorem compact_nonempty (n : Nat) : Spec.compact n ≠ [] := by
  unfold Spec.compact
  split
  · simp [leBytes]
  · split
    · simp [leBytes]
    · split <;> simp [leBytes]

/-- **Append = re-encode**, for an arbitrary payload: appending `items` to `compact(n) ++ payload`
    yields `compact(n + m) ++ payload ++ items`, across every prefix-width change (63→64,
    2^14-1→2^14, 2^30-1→2^30). `hfit`: the existing buffer fits twice into the address space (the
    code's own `checked_mul(2)`; see `append_huge_buffer_errors` for the excluded case). -/
theorem append_eq_reencode (n : Nat) (payload : Bytes) (items : List Bytes)
    (h : n + items.length ≤ u32Max) (hfit : (Spec.compact n ++ payload).length * 2 ≤ usizeMax) :
    appendOrNew (Spec.compact n ++ payload) items =
      .ok (Spec.compact (n + items.length) ++ payload ++ items.flatten) := by
  have hn : n ≤ u32Max := by omega
  obtain ⟨_, _, l1, d1⟩ := compact4 hn
  obtain ⟨e2, u2, l2, _⟩ := compact4 h
  unfold appendOrNew appendOrNewN
  have hne : (Spec.compact n ++ payload).isEmpty = false := by
    cases hc : Spec.compact n with
    | nil => exact absurd hc (compact_nonempty n)
    | cons b bs => simp
  simp only [hne, Bool.false_eq_true, if_false, d1 payload]
  have hc : ¬ (items.length > u32Max ∨ n + items.length > u32Max) := by omega
  simp only [hc, if_false, l1, l2]
  by_cases hs : (Spec.compact n).length = (Spec.compact (n + items.length)).length
  · simp only [hs, if_true, u2]
    have : (Spec.compact (n + items.length)).length ≤ (Spec.compact n ++ payload).length := by
      rw [← hs]; simp
    simp only [this, and_self, if_true]
    rw [← hs, List.drop_left' rfl]
  · simp only [hs, if_false, e2]
    have hov : ¬ (Spec.compact n ++ payload).length * 2 > usizeMax := by omega
    have hle : ¬ (Spec.compact n).length > (Spec.compact n ++ payload).length := by simp
    simp only [hov, hle, if_false, Res.map]
    rw [List.drop_left' rfl]

/-- **Appending nothing** to a well-formed buffer returns the same sequence (and still goes through
    the count check: see `append_bad_prefix`, which holds for `items = []` as for any other batch). -/
theorem append_nothing_is_identity (n : Nat) (payload : Bytes) (h : n ≤ u32Max)
    (hfit : (Spec.compact n ++ payload).length * 2 ≤ usizeMax) :
    appendOrNew (Spec.compact n ++ payload) [] = .ok (Spec.compact n ++ payload) := by
  have := append_eq_reencode n payload [] (by simpa using h) hfit
  simpa using this

/-- In particular: appending the encodings of `ys` to the encoding of the vector (or deque — the
    two targets share `append_or_new_impl`) `xs` gives the encoding of `xs ++ ys`. -/
theorem append_to_encoded_sequence (k : SeqKind) (sz : Nat) (t : Ty) (xs ys : List Val)
    (h : xs.length + ys.length ≤ u32Max)
    (hfit : (Spec.encode (.seq k sz t) (.seq xs)).length * 2 ≤ usizeMax) :
    appendOrNew (Spec.encode (.seq k sz t) (.seq xs)) (ys.map (Spec.encode t)) =
      .ok (Spec.encode (.seq k sz t) (.seq (xs ++ ys))) := by
  simp only [Spec.encode] at hfit ⊢
  have := append_eq_reencode xs.length ((xs.map (Spec.encode t)).flatten) (ys.map (Spec.encode t))
    (by simpa using h) hfit
  simp only [List.length_map] at this
  rw [this]
  simp [List.append_assoc]

/-- Appending to empty input yields the encoding of the items alone. -/
theorem append_new (items : List Bytes) (h : items.length ≤ u32Max) :
    appendOrNew [] items = .ok (Spec.compact items.length ++ items.flatten) := by
  have hc : ¬ items.length > u32Max := by omega
  simp [appendOrNew, appendOrNewN, hc, (compact4 h).1, Res.map]

theorem append_new_sequence (k : SeqKind) (sz : Nat) (t : Ty) (ys : List Val) (h : ys.length ≤ u32Max) :
    appendOrNew [] (ys.map (Spec.encode t)) = .ok (Spec.encode (.seq k sz t) (.seq ys)) := by
  rw [append_new _ (by simpa using h)]
  simp [Spec.encode]

/-- If the combined count cannot be represented the operation reports an error instead of writing
    a wrong count (this is the statement the unrepaired code violated: finding F3). -/
theorem append_overflow (n : Nat) (payload : Bytes) (items : List Bytes) (hn : n ≤ u32Max)
    (h : n + items.length > u32Max) : appendOrNew (Spec.compact n ++ payload) items = .err := by
  obtain ⟨_, _, _, d1⟩ := compact4 hn
  unfold appendOrNew appendOrNewN
  have hne : (Spec.compact n ++ payload).isEmpty = false := by
    cases hc : Spec.compact n with
    | nil => exact absurd hc (compact_nonempty n)
    | cons b bs => simp
  simp only [hne, Bool.false_eq_true, if_false, d1 payload]
  have hc : (items.length > u32Max ∨ n + items.length > u32Max) := Or.inr h
  simp [hc]

theorem append_new_overflow (items : List Bytes) (h : items.length > u32Max) :
    appendOrNew [] items = .err := by
  simp [appendOrNew, appendOrNewN, h]

/-- Input that does not begin with a valid count is rejected. -/
theorem append_bad_prefix (bs : Bytes) (items : List Bytes) (hne : bs ≠ [])
    (h : (compactDecode 4 bs).1 = .err) : appendOrNew bs items = .err := by
  unfold appendOrNew appendOrNewN
  have : bs.isEmpty = false := by cases bs <;> simp_all
  simp only [this, Bool.false_eq_true, if_false]
  cases hd : compactDecode 4 bs with
  | mk r rest =>
    rw [hd] at h
    simp only at h
    subst h
    rfl

/-- The only other error: an existing buffer of more than half the address space. -/
theorem append_huge_buffer_errors (n : Nat) (payload : Bytes) (items : List Bytes)
    (h : n + items.length ≤ u32Max) (hbig : (Spec.compact n ++ payload).length * 2 > usizeMax)
    (hs : (Spec.compact n).length ≠ (Spec.compact (n + items.length)).length) :
    appendOrNew (Spec.compact n ++ payload) items = .err := by
  have hn : n ≤ u32Max := by omega
  obtain ⟨_, _, l1, d1⟩ := compact4 hn
  obtain ⟨_, _, l2, _⟩ := compact4 h
  unfold appendOrNew appendOrNewN
  have hne : (Spec.compact n ++ payload).isEmpty = false := by
    cases hc : Spec.compact n with
    | nil => exact absurd hc (compact_nonempty n)
    | cons b bs => simp
  simp only [hne, Bool.false_eq_true, if_false, d1 payload]
  have hc : ¬ (items.length > u32Max ∨ n + items.length > u32Max) := by omega
  simp only [hc, if_false, l1, l2, hs, hbig, if_true]

/-- Any sequence of appends equals one encode of the concatenation (histories). -/
def appendAll (start : Res Bytes) (batches : List (List Bytes)) : Res Bytes :=
  batches.foldl (fun acc b => match acc with
    | .ok v => appendOrNew v b
    | r => r) start

theorem append_histories (n : Nat) (payload : Bytes) (batches : List (List Bytes))
    (h : n + (batches.map List.length).sum ≤ u32Max)
    (hfit : (5 + payload.length + (batches.map (fun b => b.flatten.length)).sum) * 2 ≤ usizeMax) :
    appendAll (.ok (Spec.compact n ++ payload)) batches =
      .ok (Spec.compact (n + (batches.map List.length).sum) ++ payload ++ (batches.map List.flatten).flatten) := by
  induction batches generalizing n payload with
  | nil => simp [appendAll]
  | cons b bs ih =>
    simp only [List.map_cons, List.sum_cons] at h hfit
    have hlen : (Spec.compact n).length ≤ 5 := by
      have := spec_compactLen_le_cap (w := 4) (by simp) (show n < 2 ^ (8 * 4) by simp [u32Max] at h; omega)
      rw [← spec_compact_length] at this; simpa [compactCap] using this
    have h1 := append_eq_reencode n payload b (by omega) (by simp only [List.length_append]; omega)
    simp only [appendAll, List.foldl_cons, h1]
    have := ih (n + b.length) (payload ++ b.flatten) (by omega) (by simp only [List.length_append]; omega)
    simp only [appendAll] at this
    rw [List.append_assoc] at this ⊢
    rw [this]
    simp [Nat.add_assoc, List.append_assoc]

/-! ### Non-vacuity: a prefix-width change (63 -> 64 elements) and the repaired overflow -/
example : appendOrNew [0xfc, 7] [[9]] = .ok [0x01, 0x01, 7, 9] := by decide
example : appendOrNew [] [[1], [2, 3]] = .ok [8, 1, 2, 3] := by decide
example : appendOrNew [0x01] [[1]] = .err := by decide

end Scale.C15
