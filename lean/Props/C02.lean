/-
  Props/C02.lean — decode(encode(v)) == v, consuming exactly the encoding.

  `decode ty bs = run sliceInput (Impl.decodeP ty) bs` is the transliterated decoder on a slice.
  `norm` is the identity except that heap contents are compared as sorted multisets; `canon` is the
  type invariant of `BTreeMap`/`BTreeSet` values (strictly increasing keys); `layoutOk` is the
  crate's own compile-time assertion `size_of::<T>() <= MAX_PREALLOCATION`.
-/
import Proofs.RoundTrip
import Proofs.Renorm
import Props.C08
namespace Scale.C02
open Scale

/-- Round trip for every well-formed value of every modelled type, any trailing suffix: the value
    comes back and exactly the encoding is consumed. Crosses the chunked reader for every length. -/
theorem roundtrip (ty : Ty) (v : Val) (hwf : wf ty v = true) (hcanon : canon ty v = true)
    (hlayout : layoutOk ty = true) (rest : Bytes) :
    decode ty (Spec.encode ty v ++ rest) = (.ok (norm ty v), rest) :=
  decode_encode ty v hwf hcanon hlayout rest

/-- The same through the code's own encoder. -/
theorem roundtrip_impl (ty : Ty) (v : Val) (hwf : wf ty v = true) (hcanon : canon ty v = true)
    (hlayout : layoutOk ty = true) (rest : Bytes) :
    ∃ bs, Impl.encodeTo ty v = .ok bs ∧ decode ty (bs ++ rest) = (.ok (norm ty v), rest) :=
  ⟨Spec.encode ty v, encodeTo_ref ty v hwf, decode_encode ty v hwf hcanon hlayout rest⟩

/-- Without the ordering invariant: the encoding of **any** well-formed value of a type without
    bit sequences — map/set entries in any order, with duplicate keys — decodes, consuming exactly
    the encoding, to the value order-normalised at every level (`renorm`; the identity on values
    that satisfy `canon`, by the theorem above). -/
theorem roundtrip_any_order (ty : Ty) (raw : Val) (hw : widthsOk ty = true) (hlayout : layoutOk ty = true)
    (hb : noBits ty = true) (hwf : wf ty raw = true) (rest : Bytes) :
    decode ty (Spec.encode ty raw ++ rest) = (.ok (renorm ty raw), rest) :=
  (exact_language ty hw hlayout hb _ rest _).mpr ⟨raw, hwf, rfl, rfl⟩

/-- The round trip through ANY faithful input (a reader of unknown length, arbitrary short chunks
    under `read_exact`, the shared buffer with its zero-copy path, stacks of non-binding wrappers):
    the value comes back and the input is left with exactly the bytes that follow the encoding. -/
theorem roundtrip_any_input {σ : Type} {I : InputOps σ} {R : Bytes → σ → Prop} (hI : Faithful I R) (ty : Ty) (v : Val)
    (hwf : wf ty v = true) (hcanon : canon ty v = true) (hlayout : layoutOk ty = true) (rest : Bytes) (s : σ)
    (hr : R (Spec.encode ty v ++ rest) s) :
    (run I (Impl.decodeP ty) s).1 = .ok (norm ty v) ∧ R rest (run I (Impl.decodeP ty) s).2 := by
  have h := decode_encode ty v hwf hcanon hlayout rest
  obtain ⟨e, k⟩ := C08.decode_input_independent hI (Impl.decodeP ty) _ s hr
  have hs : run sliceInput (Impl.decodeP ty) (Spec.encode ty v ++ rest) = (.ok (norm ty v), rest) := h
  rw [hs] at e k
  exact ⟨e, k _ rfl⟩

/-- Heaps come back equal as multisets: the decoded content is a permutation of the encoded one. -/
theorem heap_multiset (sz : Nat) (t : Ty) (vs : List Val) :
    ∃ l, norm (.seq .heap sz t) (.seq vs) = .seq l ∧ l.Perm (vs.map (norm t)) :=
  ⟨sortVals Val.cmp (vs.map (norm t)), by simp [norm], sortVals_perm _⟩

/-- For primitive element types nothing is normalised: the value comes back literally. -/
theorem norm_prim_id (p : Prim) (v : Val) : norm (.prim p) v = v := norm_prim p v

/-- A sorted map survives `from_iter` unchanged (the hypothesis `canon` is satisfiable and is what
    every `BTreeMap` value satisfies). -/
theorem sorted_map_survives (key : Val → Val) (l : List Val) (h : strictSorted key l = true) :
    fromIter Val.cmp key l = l := fromIter_sorted key l h

/-! ### Non-vacuity -/
example : wf (.seq .vec 4 (.prim .u32)) (.seq [.nat 1, .nat 2]) = true ∧
    canon (.seq .vec 4 (.prim .u32)) (.seq [.nat 1, .nat 2]) = true ∧
    layoutOk (.seq .vec 4 (.prim .u32)) = true := by decide
example : canon (.seq .bset 0 (.prim .u8)) (.seq [.nat 1, .nat 2, .nat 9]) = true := by decide
example : canon (.seq .bset 0 (.prim .u8)) (.seq [.nat 2, .nat 1]) = false := by decide
example : (decode (.seq .vec 4 (.prim .u32)) [8, 1, 0, 0, 0, 2, 0, 0, 0, 0xff]).2 = [0xff] := by decide

end Scale.C02
