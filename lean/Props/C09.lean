/-
  Props/C09.lean — Memory requested while decoding is bounded by the input supplied (logical core).

  The crate reserves memory ahead of data in exactly one place: `decode_vec_chunked`
  (`reserve_exact(chunk_len)` per chunk; the size announced to `on_before_alloc_mem` is the same
  expression `chunk_len.saturating_mul(size_of::<T>())`). Everything else grows with the elements
  actually decoded. The theorems bound the speculative part and show that a count promising more
  data than is present ends in an error; what the allocator, `realloc`, `BTreeMap::from_iter` and
  `Vec` growth inside std do is measured by the correspondence check, not proved.
-/
import Scale.Entry
import Proofs.RoundTrip
import Proofs.Faithful
import Props.C08
import Props.C03
import Proofs.Footprint
import Proofs.Request
import Proofs.RequestBound
import Proofs.RequestMax
namespace Scale.C09
open Scale Impl

/-- Every speculative reservation of the chunked vector reader — made before the chunk's data has
    been read — is at most `MAX_PREALLOCATION` bytes, whatever count the input claims. -/
theorem chunk_reservation_le_prealloc (sz remaining : Nat) (h : sz ≤ maxPrealloc) :
    satMul (min (chunkLenOf sz) remaining) sz ≤ maxPrealloc := by
  unfold satMul chunkLenOf
  by_cases hz : sz = 0
  · subst hz; simp [maxPrealloc]
  · simp only [hz, if_false]
    have h1 : min (maxPrealloc / sz) remaining * sz ≤ maxPrealloc / sz * sz :=
      Nat.mul_le_mul_right sz (Nat.min_le_left _ _)
    have h2 : maxPrealloc / sz * sz ≤ maxPrealloc := Nat.div_mul_le_self _ _
    omega

/-- The same for the bulk reader of primitive vectors (chunk of `elemSize`-byte elements). -/
theorem bulk_chunk_le_prealloc (elemSize remaining : Nat) (h1 : 1 ≤ elemSize) (h : elemSize ≤ maxPrealloc) :
    min (maxPrealloc / elemSize) remaining * elemSize ≤ maxPrealloc := by
  have a : min (maxPrealloc / elemSize) remaining * elemSize ≤ maxPrealloc / elemSize * elemSize :=
    Nat.mul_le_mul_right elemSize (Nat.min_le_left _ _)
  have b : maxPrealloc / elemSize * elemSize ≤ maxPrealloc := Nat.div_mul_le_self _ _
  omega

/-- A primitive vector whose count promises more bytes than are present is rejected, from a slice
    before anything is reserved … -/
theorem hostile_count_rejected_slice (sz : Nat) (p : Prim) (n : Nat) (payload : Bytes) (hn : n ≤ u32Max)
    (h : payload.length < n * p.size) :
    (decode (.seq .vec sz (.prim p)) (Spec.compact n ++ payload)).1 = .err := by
  have ⟨h1, h16⟩ := prim_size_le p
  simp only [decode, decodeP, run_bind, run_len_enc hn, decodeVecWithLen]
  rw [run_slice_bulk h1 (by simp [maxPrealloc]; omega)]
  simp [h]

/-- … and equally from any faithful input that cannot report its remaining length (there the
    chunked reads run into the end of the data, each having reserved at most one chunk). -/
theorem hostile_count_rejected_any_input {σ : Type} {I : InputOps σ} {R : Bytes → σ → Prop} (hI : Faithful I R)
    (sz : Nat) (p : Prim) (n : Nat) (payload : Bytes) (s : σ) (hr : R (Spec.compact n ++ payload) s)
    (hn : n ≤ u32Max) (h : payload.length < n * p.size) :
    (run I (decodeP (.seq .vec sz (.prim p))) s).1 = .err := by
  rw [(C08.decode_input_independent hI _ _ s hr).1]
  exact hostile_count_rejected_slice sz p n payload hn h

/-- Element-by-element vectors: the count itself reserves at most one chunk at a time; the `k`-th
    chunk is reserved only after the `k-1` chunks before it have been decoded from real input. -/
theorem item_chunks_first_reservation (sz : Nat) (item : Prog Val) (len : Nat) (hpos : 0 < len) :
    ∃ k, itemChunks sz item len len = .alloc (satMul (min (chunkLenOf sz) len) sz) k := by
  cases len with
  | zero => omega
  | succ n =>
    simp only [itemChunks]
    have : ¬ n + 1 = 0 := by omega
    simp only [this, if_false]
    exact ⟨_, rfl⟩

/-! ### The decoded value: memory held is linear in the bytes consumed

`held ty v` is the heap the decoded value keeps alive in the crate's own units (`len * size_of`
per sequence, pointee size per box, one byte per string byte, the storage words of a bit
sequence); `memRatio ty` and `baseMem ty` are static. The statement carries the hypothesis
`productive ty` — every sequence element type consumes at least one input byte per element; the
full-strength statement without it is **false** for the current code (`unproductive_unbounded`
below, finding F4), hence the `_partial` suffix. -/

/-- Every well-formed value of a productive type holds at most `memRatio` bytes of heap per byte of
    its encoding, plus the fixed pointees. -/
theorem held_le_encoding_partial (ty : Ty) (v : Val) (hp : productive ty = true) (hwf : wf ty v = true) :
    held ty v ≤ memRatio ty * (Spec.encode ty v).length + baseMem ty :=
  held_le ty v hp hwf

/-- Hence for decoding: whatever counts the input claims, a successful decode of `bs` leaving
    `rest` returns a value holding at most `memRatio ty` bytes per byte **consumed** (wire-canonical
    types; for maps, sets, heaps and bit sequences the value-level theorem above applies to the
    returned value). -/
theorem held_le_consumed_partial (ty : Ty) (hw : widthsOk ty = true) (hl : layoutOk ty = true)
    (hc : wireCanon ty = true) (hp : productive ty = true) (bs rest : Bytes) (v : Val)
    (h : decode ty bs = (.ok v, rest)) :
    held ty v ≤ memRatio ty * (bs.length - rest.length) + baseMem ty := by
  obtain ⟨hwf, rfl⟩ := (C03.accepts_exactly_encodings ty hw hl hc bs rest v).mp h
  have := held_le ty v hp hwf
  simpa using this

/-- The negation of the full-strength statement (finding F4): for an element type with an empty
    encoding the held memory is the claimed count times the node size, from at most 5 bytes. -/
theorem unproductive_unbounded (k : SeqKind) (sz n : Nat) (hn : n ≤ u32Max) :
    wf (.seq k sz .unit) (.seq (List.replicate n .unit)) = true ∧
    held (.seq k sz .unit) (.seq (List.replicate n .unit)) = n * sz ∧
    (Spec.encode (.seq k sz .unit) (.seq (List.replicate n .unit))).length ≤ 5 := by
  refine ⟨?_, ?_, ?_⟩
  · simp [wf, hn]
  · have : ∀ m, ((List.replicate m Val.unit).map (held .unit)).sum = 0 := by
      intro m; induction m with
      | zero => simp
      | succ m ih => simp [List.replicate_succ, held, ih]
    simp [held, this]
  · have hx : n < 2 ^ (8 * 4) := by simp [u32Max] at hn; omega
    have := spec_compactLen_le_cap (w := 4) (by simp) hx
    rw [← spec_compact_length] at this
    have e : ∀ m, ((List.replicate m Val.unit).map (Spec.encode .unit)).flatten = [] := by
      intro m; induction m with
      | zero => simp
      | succ m ih => simp [List.replicate_succ, Spec.encode, ih]
    simp only [Spec.encode, List.length_replicate, e, List.append_nil]
    simpa [compactCap] using this

/-- `productive` is decidable and satisfiable: `Vec<Vec<u32>>`, `BTreeMap<u8, String>`-like shapes. -/
example : productive (.seq .vec 24 (.seq .vec 4 (.prim .u32))) = true := by decide
example : productive (.seq .bmap 32 (.tuple [.prim .u8, .str])) = true := by decide
example : productive (.seq .list 16 .unit) = false := by decide
example : memRatio (.seq .vec 24 (.seq .vec 4 (.prim .u32))) = 28 := by decide

/-! ### The excluded point (finding F4): element types whose encoding is empty but whose in-memory
    footprint is not — the input then bounds nothing. Kernel-checked on the model: two input bytes
    make a list of 64 zero-width elements decode successfully (four bytes make 2^20 of them). -/
example : (decode (.seq .list 16 .unit) [0x01, 0x01]).1.isOk = true := by decide


/-! ### Requests, for every byte string

`Impl.decodeR` (`Scale/Request.lean`) is the decoder with every point where the crate's code asks the
allocator for memory made explicit: the `reserve_exact` of each chunk of `decode_vec_chunked`, the
raw allocation of `Box::decode_wrapped`, and one node per element that `from_iter` has been handed
for lists, sets and maps. `requestsOn I ty bs` is the list of request sizes the decode of `bs` makes
over the input implementation `I`. The harness compares it with what a counting allocator observes
on the real crate (stream `reqs`). -/

/-- The request model is the decoder: same result, same rest, from a slice … -/
theorem request_model_same_results (ty : Ty) (bs : Bytes) :
    run sliceInput (decodeR ty) bs = decode ty bs :=
  run_decodeR sliceInput (fun _ _ => rfl) ty bs

/-- … and from a reader that cannot report its remaining length. -/
theorem request_model_same_results_unknown_length (ty : Ty) (bs : Bytes) :
    run ioInput (decodeR ty) bs = run ioInput (decodeP ty) bs :=
  run_decodeR ioInput (fun _ _ => rfl) ty bs

/-- **The property's bound, for every byte string** — valid, truncated, hostile, successful or not —
    over any plain byte input `I` (`plainIn_slice`: a slice; `plainIn_io`: a reader with unknown
    remaining length): the heap memory requested while decoding `bs` is at most
    `reqRatio ty` bytes per input byte **consumed**, plus the type's fixed pointees, plus
    `reqAllow ty` — one `MAX_PREALLOCATION` per level of sequence nesting; when the decode succeeds
    the allowance is not needed. Counts claimed by the input do not occur in the bound.
    (`_partial`: the hypothesis `productive ty` excludes exactly finding F4, see
    `unproductive_unbounded`.) -/
theorem requests_linear_in_consumed_partial {I : InputOps Bytes} (hI : PlainIn I) (ty : Ty)
    (hp : productive ty = true) (hl : layoutOk ty = true) (bs : Bytes) :
    (run (traceRec I) (decodeR ty) (bs, [])).2.1.length ≤ bs.length ∧
    allocTotal (run (traceRec I) (decodeR ty) (bs, [])).2.2 ≤
      reqRatio ty * (bs.length - (run (traceRec I) (decodeR ty) (bs, [])).2.1.length) + baseMem ty + reqAllow ty ∧
    ((∃ v, (run (traceRec I) (decodeR ty) (bs, [])).1 = .ok v) →
      allocTotal (run (traceRec I) (decodeR ty) (bs, [])).2.2 ≤
        reqRatio ty * (bs.length - (run (traceRec I) (decodeR ty) (bs, [])).2.1.length) + baseMem ty) := by
  obtain ⟨c, h1, h2, h3⟩ := reqBnd_decodeR hI ty hp hl bs []
  have hc : bs.length - (run (traceRec I) (decodeR ty) (bs, [])).2.1.length = c := by omega
  rw [hc]
  refine ⟨by omega, by simpa [allocTotal] using h3, ?_⟩
  intro hok
  simpa [allocTotal] using (h2 hok).2

/-- Hence in terms of the input supplied: linear in `bs.length`, never in a claimed count. -/
theorem requests_linear_in_input_partial {I : InputOps Bytes} (hI : PlainIn I) (ty : Ty)
    (hp : productive ty = true) (hl : layoutOk ty = true) (bs : Bytes) :
    allocTotal (run (traceRec I) (decodeR ty) (bs, [])).2.2 ≤
      reqRatio ty * bs.length + baseMem ty + reqAllow ty := by
  obtain ⟨_, h, _⟩ := requests_linear_in_consumed_partial hI ty hp hl bs
  have : reqRatio ty * (bs.length - (run (traceRec I) (decodeR ty) (bs, [])).2.1.length) ≤ reqRatio ty * bs.length :=
    Nat.mul_le_mul_left _ (Nat.sub_le _ _)
  omega

/-- **The public `decode_vec_with_len::<T>(input, len)` called directly**, with ANY `len` (no
    `Compact<u32>` prefix restrains it — 2^32, `usize::MAX`, anything) and any byte string: what is
    requested is bounded by the bytes consumed, exactly as for `Vec<T>`; `len` does not occur in the
    bound. (`_partial`: elements must consume at least one byte — finding F4 again.) -/
theorem decode_vec_with_len_any_len_partial {I : InputOps Bytes} (hI : PlainIn I) (sz : Nat) (t : Ty)
    (hm : 1 ≤ minLen t) (hp : productive t = true) (hl : layoutOk t = true) (hsz : sz ≤ maxPrealloc)
    (len : Nat) (bs : Bytes) :
    (run (traceRec I) (decodeVecWithLen sz t (decodeR t) len) (bs, [])).2.1.length ≤ bs.length ∧
    allocTotal (run (traceRec I) (decodeVecWithLen sz t (decodeR t) len) (bs, [])).2.2 ≤
      (reqRatio t + baseMem t + elemSize sz t) *
        (bs.length - (run (traceRec I) (decodeVecWithLen sz t (decodeR t) len) (bs, [])).2.1.length)
      + (baseMem t + reqAllow t + maxPrealloc) := by
  have hitem := (reqBnd_decodeR hI t hp hl).productive hm
  obtain ⟨c, h1, _, h3⟩ := ReqBnd.decodeVecWithLen hI hsz t hitem hm len bs []
  have hc : bs.length - (run (traceRec I) (decodeVecWithLen sz t (decodeR t) len) (bs, [])).2.1.length = c := by omega
  rw [hc]
  exact ⟨by omega, by simpa [allocTotal] using h3⟩

/-- A byte count that overflows `usize` is refused before anything is requested or read
    (`len.checked_mul(size_of::<T>())`), over any input. -/
theorem decode_vec_with_len_overflow_refused {σ : Type} (I : InputOps σ) (sz : Nat) (p : Prim) (item : Prog Val)
    (len : Nat) (h : usizeMax < len * p.size) (s : σ) :
    run I (decodeVecWithLen sz (.prim p) item len) s = (.err, s) := by
  have hp := (prim_size_bounds p).2
  simp only [decodeVecWithLen, run, runBulk]
  have h1 : ¬ p.size > maxPrealloc := by omega
  simp only [h1, if_false, h, if_true]

example : run sliceInput (decodeVecWithLen 8 (.prim .u64) (decodeP (.prim .u64)) (2 ^ 61)) [1, 2, 3] = (.err, [1, 2, 3]) := by
  rw [decode_vec_with_len_overflow_refused]; decide

/-- **Every single request is small**, over ANY input implementation and for EVERY type (productive
    or not): at most one preallocation chunk, or one fixed-size pointee / list node of the type. -/
theorem every_request_small {σ : Type} (I : InputOps σ) (ty : Ty) (hl : layoutOk ty = true) (s : σ) (n : Nat)
    (h : Hook.alloc n ∈ (run (traceRec I) (decodeR ty) (s, [])).2.2) : n ≤ reqMaxOne ty :=
  maxReq_decodeR I ty hl (reqMaxOne ty) (Nat.le_refl _) s [] (by intro n hn; simp at hn) n h

/-- Instances and non-vacuity. `Vec<Vec<u32>>`: 28 bytes per input byte, two levels of allowance. -/
example : productive (.seq .vec 24 (.seq .vec 4 (.prim .u32))) = true ∧
    layoutOk (.seq .vec 24 (.seq .vec 4 (.prim .u32))) = true := by decide
example : reqRatio (.seq .vec 24 (.seq .vec 4 (.prim .u32))) = 28 := by decide
example : reqAllow (.seq .vec 24 (.seq .vec 4 (.prim .u32))) = 2 * maxPrealloc := by decide
example : reqMaxOne (.seq .vec 24 (.box 40 (.seq .list 24 (.prim .u8)))) = maxPrealloc := by decide
/-- A hostile count (40000 elements claimed, 3 bytes present): from a slice nothing is requested,
    from a reader of unknown length exactly one chunk. -/
example : requestsOn sliceInput (.seq .vec 1 (.prim .u8)) (Spec.compact 40000 ++ [1, 2, 3]) = [] := by decide
example : requestsOn ioInput (.seq .vec 1 (.prim .u8)) (Spec.compact 40000 ++ [1, 2, 3]) = [16384] := by decide
/-- Element-by-element vector of boxes: one chunk reserved, then one box per decoded element. -/
example : requestsOn sliceInput (.seq .vec 8 (.box 4 (.prim .u32))) (Spec.compact 3 ++ [1, 0, 0, 0, 2, 0, 0, 0]) =
    [24, 4, 4, 4] := by decide

end Scale.C09
