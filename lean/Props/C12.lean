/-
  Props/C12.lean — Memory-limited decoding has an exact, meaningful threshold.

  `decodeMemLimit L ty bs` runs the transliterated decoder through `memInput L` (the
  transliteration of `MemTrackingInput`: `used = used.saturating_add(size); if used >= limit {Err}`)
  over a slice. `usedMem` is the tracked usage `U` of the unlimited run, recorded by `memRec`.
-/
import Scale.Entry
import Scale.Ghost
import Proofs.Wrappers
import Proofs.HookTrace
import Proofs.HookFacts
import Proofs.Stack
import Proofs.LimitRequests
import Props.C08
namespace Scale.C12
open Scale

/-- Memory-limited decoding returns exactly what unlimited decoding returns, or fails. -/
theorem mem_transparent (L : Nat) (ty : Ty) (bs : Bytes) :
    ((decodeMemLimit L ty bs).1, (decodeMemLimit L ty bs).2.1) = decode ty bs ∨
    (decodeMemLimit L ty bs).1 = .err := by
  have h := (run_lax (laxOps_of_prims (mem_trans_prims L sliceInput rfl)) (Impl.decodeP ty)).1 bs (bs, 0) rfl
  simp only [decodeMemLimit, decode]
  rcases h with ⟨e, r⟩ | ⟨e, _⟩ | ⟨_, e⟩
  · left
    simp only [memTransRel] at r
    exact Prod.ext e.symm r
  · right; exact e
  · right; exact e

/-- **Single threshold `U`.** When unlimited decoding succeeds, decoding with limit `L` succeeds
    with the same value and position whenever `L > U`, … -/
theorem succeeds_above_threshold (L : Nat) (hL : L ≤ usizeMax) (ty : Ty) (bs rest : Bytes) (v : Val)
    (h : decode ty bs = (.ok v, rest)) (hgt : L > usedMem (Impl.decodeP ty) bs) :
    (decodeMemLimit L ty bs).1 = .ok v ∧ (decodeMemLimit L ty bs).2.1 = rest ∧
    (decodeMemLimit L ty bs).2.2 = usedMem (Impl.decodeP ty) bs := by
  have hrec := run_exact (memRec_exact sliceInput rfl) (Impl.decodeP ty) bs (bs, 0) rfl
  simp only [decode] at h
  rw [h] at hrec
  have hs := (run_lax (laxOps_of_prims (mem_ge_prims L hL sliceInput)) (Impl.decodeP ty)).1
    (bs, 0) (bs, 0) ⟨rfl, rfl⟩
  simp only [decodeMemLimit]
  rcases hs with ⟨e, r1, r2⟩ | ⟨_, d⟩ | ⟨e, _⟩
  · exact ⟨by rw [← e, ← hrec.1], by rw [← r1, hrec.2], by rw [← r2]; rfl⟩
  · exfalso
    simp only [memGeRel, usedMem] at d hgt
    omega
  · rw [← hrec.1] at e; cases e

/-- … and fails whenever `U` is positive and `L` does not exceed it. -/
theorem fails_at_or_below_threshold (L : Nat) (ty : Ty) (bs rest : Bytes) (v : Val)
    (h : decode ty bs = (.ok v, rest)) (hpos : usedMem (Impl.decodeP ty) bs > 0)
    (hle : L ≤ usedMem (Impl.decodeP ty) bs) : (decodeMemLimit L ty bs).1 = .err := by
  have hrec := run_exact (memRec_exact sliceInput rfl) (Impl.decodeP ty) bs (bs, 0) rfl
  simp only [decode] at h
  rw [h] at hrec
  have hs := (run_lax (laxOps_of_prims (mem_lt_prims L sliceInput)) (Impl.decodeP ty)).1
    (bs, 0) (bs, 0) ⟨rfl, rfl, Or.inl rfl⟩
  simp only [decodeMemLimit]
  rcases hs with ⟨_, _, _, hm⟩ | ⟨e, _⟩ | ⟨_, e⟩
  · exfalso
    simp only [usedMem] at hpos hle
    omega
  · exact e
  · exact e

/-- Monotone in the limit (a consequence of the threshold). -/
theorem mem_monotone (L L' : Nat) (hL' : L' ≤ usizeMax) (hle : L ≤ L') (ty : Ty) (bs rest : Bytes) (v : Val)
    (hu : decode ty bs = (.ok v, rest)) (h : (decodeMemLimit L ty bs).1 = .ok v) :
    (decodeMemLimit L' ty bs).1 = .ok v := by
  by_cases hpos : usedMem (Impl.decodeP ty) bs > 0
  · by_cases hl : L ≤ usedMem (Impl.decodeP ty) bs
    · have := fails_at_or_below_threshold L ty bs rest v hu hpos hl
      rw [h] at this; cases this
    · exact (succeeds_above_threshold L' hL' ty bs rest v hu (by omega)).1
  · by_cases hl' : L' > usedMem (Impl.decodeP ty) bs
    · exact (succeeds_above_threshold L' hL' ty bs rest v hu hl').1
    · -- U = 0 and L' = 0, hence L = 0: the same run
      have : L = L' := by omega
      subst this; exact h

/-! ### The threshold is meaningful: `U` is the heap payload of the value

`payload ty v` (`Scale/HookTrace.lean`) is the property's own wording: element count times element
size for every sequence, the pointee size for every box, the length of strings and byte buffers,
the storage words of bit sequences, the crate's node estimate for tree maps and sets — summed over
nesting. The hook-trace theorem shows that the sizes announced while decoding the encoding of `v`
— chunk by chunk on the vector paths — add up to exactly that. -/

/-- **`U` is the payload** (capped at `usize::MAX`, where `used_mem` saturates). -/
theorem tracked_usage_is_payload (ty : Ty) (v : Val) (hwf : wf ty v = true) (hcanon : canon ty v = true)
    (hl : layoutOk ty = true) (rest : Bytes) :
    usedMem (Impl.decodeP ty) (Spec.encode ty v ++ rest) = min (payload ty v) usizeMax := by
  rw [usedMem_eq_memFold, traceOf_encode ty v hwf hcanon hl rest, memFold_eq _ 0 (Nat.zero_le _),
    allocTotal_hookTrace ty v hwf hl]
  simp

/-- `U` is zero for values of types holding no heap data. -/
theorem usage_zero_without_heap (ty : Ty) (v : Val) (hwf : wf ty v = true) (hcanon : canon ty v = true)
    (hl : layoutOk ty = true) (hf : heapFree ty = true) (rest : Bytes) :
    usedMem (Impl.decodeP ty) (Spec.encode ty v ++ rest) = 0 := by
  rw [tracked_usage_is_payload ty v hwf hcanon hl rest, payload_heapFree ty v hf]
  simp

/-- So a limit really bounds what a decoded value can occupy: if memory-limited decoding of an
    encoding succeeds, the value's heap payload is below the limit (or the value holds nothing). -/
theorem limit_bounds_payload (L : Nat) (hL : L ≤ usizeMax) (ty : Ty) (v : Val) (hwf : wf ty v = true) (hcanon : canon ty v = true)
    (hl : layoutOk ty = true) (rest : Bytes)
    (hok : (decodeMemLimit L ty (Spec.encode ty v ++ rest)).1 = .ok (norm ty v)) :
    payload ty v = 0 ∨ payload ty v < L := by
  have hd : decode ty (Spec.encode ty v ++ rest) = (.ok (norm ty v), rest) := decode_encode ty v hwf hcanon hl rest
  have hu := tracked_usage_is_payload ty v hwf hcanon hl rest
  by_cases hpos : usedMem (Impl.decodeP ty) (Spec.encode ty v ++ rest) > 0
  · by_cases hle : L ≤ usedMem (Impl.decodeP ty) (Spec.encode ty v ++ rest)
    · have := fails_at_or_below_threshold L ty _ rest _ hd hpos hle
      rw [hok] at this; cases this
    · right
      rw [hu] at hle
      have : ¬ L ≤ min (payload ty v) usizeMax := hle
      by_cases hp : payload ty v ≤ usizeMax
      · rw [Nat.min_eq_left hp] at this; omega
      · -- the tracked usage saturated at usize::MAX: no limit (a `usize`) exceeds it
        rw [Nat.min_eq_right (by omega)] at this
        omega
  · left
    rw [hu] at hpos
    have : min (payload ty v) usizeMax = 0 := by omega
    have hm : 0 < usizeMax := by decide
    omega

/-- Tree maps and sets: the crate's estimate is within a factor of two of the entries' own bytes. -/
theorem tree_estimate_within_factor_two (leaf len e : Nat) (hleaf : 11 * e ≤ leaf) :
    len * e ≤ 2 * Impl.btreeMemSize leaf len ∨ Impl.btreeMemSize leaf len = usizeMax :=
  btree_estimate_within_factor_two leaf len e hleaf

example : payload (.seq .vec 8 (.box 24 (.seq .vec 1 (.prim .u8)))) (.seq [.seq [.nat 1, .nat 2], .seq []]) = 66 := by
  decide

/-! ### Non-vacuity: `Vec<u32>` with 3 elements announces 3 * 4 bytes; a `Box<u64>` announces 8. -/
example : usedMem (Impl.decodeP (.seq .vec 4 (.prim .u32))) [12, 1, 0, 0, 0, 2, 0, 0, 0, 3, 0, 0, 0] = 12 := by decide
example : usedMem (Impl.decodeP (.box 8 (.prim .u64))) [1, 0, 0, 0, 0, 0, 0, 0] = 8 := by decide
example : usedMem (Impl.decodeP (.tuple [.prim .u32, .bool])) [1, 0, 0, 0, 1] = 0 := by decide
example : (decodeMemLimit 12 (.seq .vec 4 (.prim .u32)) [12, 1, 0, 0, 0, 2, 0, 0, 0, 3, 0, 0, 0]).1.isOk = false := by decide
example : (decodeMemLimit 13 (.seq .vec 4 (.prim .u32)) [12, 1, 0, 0, 0, 2, 0, 0, 0, 3, 0, 0, 0]).1.isOk = true := by decide


/-! ### The tracker under the other wrappers

`decode_with_depth_limit` may be called on a `MemTrackingInput`, and a decoder may wrap its input in
a `CountedInput`: the announcements must still arrive. For every program and every limit: -/

/-- Through a counting wrapper the memory tracker sees exactly what it sees without it: same
    result, same tracked usage (the tracker's whole state). -/
theorem usage_unchanged_under_counting {α : Type} (L : Nat) (p : Prog α) (bs : Bytes) (c : Nat) :
    (run (countedInput (memInput L sliceInput)) p ((bs, 0), c)).1 = (run (memInput L sliceInput) p (bs, 0)).1 ∧
    (run (countedInput (memInput L sliceInput)) p ((bs, 0), c)).2.1 = (run (memInput L sliceInput) p (bs, 0)).2 :=
  counted_transparent (memInput L sliceInput) rfl p (bs, 0) c

/-- Through a depth limiter that does not bind, likewise: a successful memory-limited decode
    succeeds with the same value and leaves the tracker in the same state (same `used_mem()`). -/
theorem usage_unchanged_under_depth_limit {α : Type} (L D : Nat) (p : Prog α) (bs : Bytes) (v : α)
    (hv : (run (memInput L sliceInput) p (bs, 0)).1 = .ok v)
    (hD : (run (depthRec (memInput L sliceInput)) p ((bs, 0), 0, 0)).2.2.2 ≤ D) :
    (run (depthInput D (memInput L sliceInput)) p ((bs, 0), 0)).1 = .ok v ∧
    (run (depthInput D (memInput L sliceInput)) p ((bs, 0), 0)).2.1 = (run (memInput L sliceInput) p (bs, 0)).2 :=
  C08.depth_wrapper_nonbinding (memInput L sliceInput) rfl D p (bs, 0) v hv hD

/-- And a depth limiter over the tracker never makes a failing decode succeed. -/
theorem depth_limit_over_tracker_adds_no_success {α : Type} (L D : Nat) (p : Prog α) (bs : Bytes) (v : α)
    (h : (run (depthInput D (memInput L sliceInput)) p ((bs, 0), 0)).1 = .ok v) :
    (run (memInput L sliceInput) p (bs, 0)).1 = .ok v :=
  C08.wrappers_never_add_success (memInput L sliceInput) rfl D p (bs, 0) v h

example : (run (depthInput 5 (memInput 100 sliceInput)) (Impl.decodeP (.box 8 (.prim .u64))) (([1, 0, 0, 0, 0, 0, 0, 0], 0), 0)).2.1.2 = 8 := by
  decide


/-! ### The limit bounds what decoding requests — for every byte string

`traceRec (memInput L I)` records the announcements the tracker ACCEPTED. Every request of the
decoder follows its own announcement and a refused announcement ends the decode, so: -/

/-- For every decoder program, every inner input and every byte string, whether the decode succeeds,
    fails on the data or is stopped by the limit: the announcements accepted by a tracker with limit
    `L` add up to less than `L` (or nothing was announced). -/
theorem accepted_announcements_below_limit {σ α : Type} (I : InputOps σ) (L : Nat) (hL : L ≤ usizeMax)
    (p : Prog α) (s : σ) :
    allocTotal (run (traceRec (memInput L I)) p ((s, 0), [])).2.2 < L ∨
    allocTotal (run (traceRec (memInput L I)) p ((s, 0), [])).2.2 = 0 :=
  (lim_run I L hL p ((s, 0), []) ⟨rfl, Or.inr rfl⟩).2

/-- Hence for every type without `from_iter` collections — where every request site of the crate is
    an announcement site (`decodeR_eq_decodeP`) — and every byte string: the heap memory REQUESTED
    during memory-limited decoding is less than the limit, successful decode or not. -/
theorem limit_bounds_requests (L : Nat) (hL : L ≤ usizeMax) (ty : Ty) (hn : noNodes ty = true) (bs : Bytes) :
    allocTotal (run (traceRec (memInput L sliceInput)) (Impl.decodeR ty) ((bs, 0), [])).2.2 < L ∨
    allocTotal (run (traceRec (memInput L sliceInput)) (Impl.decodeR ty) ((bs, 0), [])).2.2 = 0 :=
  accepted_announcements_below_limit sliceInput L hL (Impl.decodeR ty) bs

example : noNodes (.seq .vec 24 (.box 8 (.seq .vec 1 (.prim .u8)))) = true := by decide
example : noNodes (.seq .list 24 (.prim .u8)) = false := by decide
/-- A hostile count under a limit of 100 bytes: the first chunk is refused, nothing is requested. -/
example : allocTotal (run (traceRec (memInput 100 ioInput)) (Impl.decodeR (.seq .vec 1 (.prim .u8)))
    ((Spec.compact 40000 ++ [1, 2, 3], 0), [])).2.2 = 0 := by decide

/-- A user-defined wrapper with the provided `decode_wrapped` announces nothing: the tracked usage
    of `wrap t` is that of `t` — unlike `Box<T>`, which announces `size_of::<T>()` (and at a limit of 0
    is refused even for `size_of::<T>() = 0`; the wrapper is not). -/
theorem user_wrapper_announces_nothing (t : Ty) (v : Val) : payload (.wrap t) v = payload t v := by
  simp [payload]

example : (decodeMemLimit 0 (.wrap (.prim .u8)) [7]).1.isOk = true := by decide
example : (decodeMemLimit 0 (.box 0 (.prim .u8)) [7]).1.isOk = false := by decide

end Scale.C12
