/-
  Props/C12.lean — Memory-limited decoding has an exact, meaningful threshold.

  `decodeMemLimit L ty bs` runs the transliterated decoder through `memInput L` (the
  transliteration of `MemTrackingInput`: `used = used.saturating_add(size); if used >= limit {Err}`)
  over a slice. `usedMem` is the tracked usage `U` of the unlimited run, recorded by `memRec`.
-/
import Scale.Entry
import Scale.Ghost
import Proofs.Wrappers
namespace Scale.C12
open Scale

/-- Memory-limited decoding returns exactly what unlimited decoding returns, or fails. -/
theorem mem_transparent (L : Nat) (ty : Ty) (bs : Bytes) :
    ((decodeMemLimit L ty bs).1, (decodeMemLimit L ty bs).2.1) = decode ty bs ∨
    (decodeMemLimit L ty bs).1 = .err := by
  have h := (run_lax (laxOps_of_prims (mem_trans_prims L sliceInput rfl)) (Impl.decodeP ty)).1 bs (bs, 0) rfl
  simp only [decodeMemLimit, decode]
  rcases h with ⟨e, r⟩ | ⟨e, _⟩ | ⟨_, e⟩
  · left
    simp only [memTransRel] at r
    exact Prod.ext e.symm r
  · right; exact e
  · right; exact e

/-- **Single threshold `U`.** When unlimited decoding succeeds, decoding with limit `L` succeeds
    with the same value and position whenever `L > U`, … -/
theorem succeeds_above_threshold (L : Nat) (hL : L ≤ usizeMax) (ty : Ty) (bs rest : Bytes) (v : Val)
    (h : decode ty bs = (.ok v, rest)) (hgt : L > usedMem (Impl.decodeP ty) bs) :
    (decodeMemLimit L ty bs).1 = .ok v ∧ (decodeMemLimit L ty bs).2.1 = rest ∧
    (decodeMemLimit L ty bs).2.2 = usedMem (Impl.decodeP ty) bs := by
  have hrec := run_exact (memRec_exact sliceInput rfl) (Impl.decodeP ty) bs (bs, 0) rfl
  simp only [decode] at h
  rw [h] at hrec
  have hs := (run_lax (laxOps_of_prims (mem_ge_prims L hL sliceInput)) (Impl.decodeP ty)).1
    (bs, 0) (bs, 0) ⟨rfl, rfl⟩
  simp only [decodeMemLimit]
  rcases hs with ⟨e, r1, r2⟩ | ⟨_, d⟩ | ⟨e, _⟩
  · exact ⟨by rw [← e, ← hrec.1], by rw [← r1, hrec.2], by rw [← r2]; rfl⟩
  · exfalso
    simp only [memGeRel, usedMem] at d hgt
    omega
  · rw [← hrec.1] at e; cases e

/-- … and fails whenever `U` is positive and `L` does not exceed it. -/
theorem fails_at_or_below_threshold (L : Nat) (ty : Ty) (bs rest : Bytes) (v : Val)
    (h : decode ty bs = (.ok v, rest)) (hpos : usedMem (Impl.decodeP ty) bs > 0)
    (hle : L ≤ usedMem (Impl.decodeP ty) bs) : (decodeMemLimit L ty bs).1 = .err := by
  have hrec := run_exact (memRec_exact sliceInput rfl) (Impl.decodeP ty) bs (bs, 0) rfl
  simp only [decode] at h
  rw [h] at hrec
  have hs := (run_lax (laxOps_of_prims (mem_lt_prims L sliceInput)) (Impl.decodeP ty)).1
    (bs, 0) (bs, 0) ⟨rfl, rfl, Or.inl rfl⟩
  simp only [decodeMemLimit]
  rcases hs with ⟨_, _, _, hm⟩ | ⟨e, _⟩ | ⟨_, e⟩
  · exfalso
    simp only [usedMem] at hpos hle
    omega
  · exact e
  · exact e

/-- Monotone in the limit (a consequence of the threshold). -/
theorem mem_monotone (L L' : Nat) (hL' : L' ≤ usizeMax) (hle : L ≤ L') (ty : Ty) (bs rest : Bytes) (v : Val)
    (hu : decode ty bs = (.ok v, rest)) (h : (decodeMemLimit L ty bs).1 = .ok v) :
    (decodeMemLimit L' ty bs).1 = .ok v := by
  by_cases hpos : usedMem (Impl.decodeP ty) bs > 0
  · by_cases hl : L ≤ usedMem (Impl.decodeP ty) bs
    · have := fails_at_or_below_threshold L ty bs rest v hu hpos hl
      rw [h] at this; cases this
    · exact (succeeds_above_threshold L' hL' ty bs rest v hu (by omega)).1
  · by_cases hl' : L' > usedMem (Impl.decodeP ty) bs
    · exact (succeeds_above_threshold L' hL' ty bs rest v hu hl').1
    · -- U = 0 and L' = 0, hence L = 0: the same run
      have : L = L' := by omega
      subst this; exact h

/-! ### Non-vacuity: `Vec<u32>` with 3 elements announces 3 * 4 bytes; a `Box<u64>` announces 8. -/
example : usedMem (Impl.decodeP (.seq .vec 4 (.prim .u32))) [12, 1, 0, 0, 0, 2, 0, 0, 0, 3, 0, 0, 0] = 12 := by decide
example : usedMem (Impl.decodeP (.box 8 (.prim .u64))) [1, 0, 0, 0, 0, 0, 0, 0] = 8 := by decide
example : usedMem (Impl.decodeP (.tuple [.prim .u32, .bool])) [1, 0, 0, 0, 1] = 0 := by decide
example : (decodeMemLimit 12 (.seq .vec 4 (.prim .u32)) [12, 1, 0, 0, 0, 2, 0, 0, 0, 3, 0, 0, 0]).1.isOk = false := by decide
example : (decodeMemLimit 13 (.seq .vec 4 (.prim .u32)) [12, 1, 0, 0, 0, 2, 0, 0, 0, 3, 0, 0, 0]).1.isOk = true := by decide

end Scale.C12
