/-
  Props/C19.lean — The counting input reports exactly the bytes delivered.

  `countedInput I` is the transliteration of `CountedInput` (`src/counted_input.rs`) over an
  arbitrary wrapped input `I`; `tallyInput I` is the specification: an exact, unbounded count of
  the bytes `I` delivered through successful reads. A `Prog` is an arbitrary (adaptive) sequence of
  `Input` calls, so the statements hold for every operation sequence, not only decoders.
-/
import Scale.Entry
import Proofs.Wrappers
import Proofs.RoundTrip
namespace Scale.C19
open Scale

/-- For any wrapped input and any sequence of `Input` operations — successful or failing —
    `count()` is the exact number of bytes delivered, saturated at `u64::MAX`; the wrapper changes
    neither the results nor the wrapped input's state. -/
theorem count_is_bytes_delivered {σ α : Type} (I : InputOps σ) (hraw : I.rawBytes = none) (p : Prog α)
    (s : σ) (t : Nat) :
    (run (countedInput I) p (s, min t u64Max)).1 = (run (tallyInput I) p (s, t)).1 ∧
    (run (countedInput I) p (s, min t u64Max)).2.1 = (run (tallyInput I) p (s, t)).2.1 ∧
    (run (countedInput I) p (s, min t u64Max)).2.2 = min (run (tallyInput I) p (s, t)).2.2 u64Max := by
  obtain ⟨e, r1, r2⟩ := run_exact (counted_exact I hraw) p (s, t) (s, min t u64Max) ⟨rfl, rfl⟩
  exact ⟨e.symm, r1.symm, r2⟩

/-- In particular for `Decode::skip` (a program of its own: `[T; N]` steps over fixed-size elements
    one by one instead of decoding them): stepping over a value through the counting input counts
    exactly the bytes the wrapped input delivered, whether the skip succeeds or stops half-way. -/
theorem count_after_skip {σ : Type} (I : InputOps σ) (hraw : I.rawBytes = none) (ty : Ty) (s : σ) :
    (run (countedInput I) (Impl.skipP ty) (s, 0)).2.2 = min (run (tallyInput I) (Impl.skipP ty) (s, 0)).2.2 u64Max := by
  have := (count_is_bytes_delivered I hraw (Impl.skipP ty) s 0).2.2
  simpa using this

/-- Over a slice: after every decode, successful or failed, the count is the number of bytes
    consumed from the slice (`original length − remaining length`), saturating. -/
theorem count_is_consumed (ty : Ty) (bs : Bytes) :
    (decodeCounted ty bs).1 = (decode ty bs).1 ∧
    (decodeCounted ty bs).2.1 = (decode ty bs).2 ∧
    (decodeCounted ty bs).2.2 = min (bs.length - (decode ty bs).2.length) u64Max := by
  obtain ⟨e1, r1, r2⟩ := run_exact (counted_exact sliceInput rfl) (Impl.decodeP ty) (bs, 0) (bs, 0) ⟨rfl, rfl⟩
  obtain ⟨e2, r3, r4⟩ := run_exact (tally_slice_exact bs.length) (Impl.decodeP ty) bs (bs, 0) ⟨rfl, by simp⟩
  simp only [decodeCounted, decode]
  refine ⟨by rw [← e1, ← e2], by rw [← r1, r3], ?_⟩
  rw [r2]
  have : (run (tallyInput sliceInput) (Impl.decodeP ty) (bs, 0)).2.2 =
      bs.length - (run sliceInput (Impl.decodeP ty) bs).2.length := by omega
  rw [this]

/-- After a successful decode of an encoding the count equals the encoded length. -/
theorem count_after_success (ty : Ty) (v : Val) (hwf : wf ty v = true) (hcanon : canon ty v = true)
    (hlayout : layoutOk ty = true) (rest : Bytes) :
    (decodeCounted ty (Spec.encode ty v ++ rest)).2.2 = min (Spec.encode ty v).length u64Max := by
  have h := (count_is_consumed ty (Spec.encode ty v ++ rest)).2.2
  have e : decode ty (Spec.encode ty v ++ rest) = (.ok (norm ty v), rest) := decode_encode ty v hwf hcanon hlayout rest
  rw [h, e]
  simp

/-- Failed reads add nothing: a read that fails leaves the count unchanged and its failure is
    passed through (one step of the wrapper, any wrapped input). -/
theorem failed_read_adds_nothing {σ : Type} (I : InputOps σ) (n : Nat) (s : σ) (c : Nat)
    (hfail : ∀ b, (I.read n s).1 ≠ .ok b) :
    ((countedInput I).read n (s, c)).1 = (I.read n s).1 ∧ ((countedInput I).read n (s, c)).2.2 = c := by
  simp only [countedInput]
  cases hr : I.read n s with
  | mk r s1 =>
    cases r with
    | ok b => rw [hr] at hfail; exact absurd rfl (hfail b)
    | err => exact ⟨by trivial, by trivial⟩
    | panic => exact ⟨by trivial, by trivial⟩

/-- The count saturates instead of wrapping: it never exceeds `u64::MAX` and never decreases. -/
theorem count_saturates {σ : Type} (I : InputOps σ) (n : Nat) (s : σ) (c : Nat) (hc : c ≤ u64Max) :
    c ≤ ((countedInput I).read n (s, c)).2.2 ∧ ((countedInput I).read n (s, c)).2.2 ≤ u64Max := by
  simp only [countedInput]
  cases hr : I.read n s with
  | mk r s1 =>
    cases r with
    | ok b => simp only [u64Max] at hc ⊢; omega
    | err => exact ⟨Nat.le_refl _, hc⟩
    | panic => exact ⟨Nat.le_refl _, hc⟩

/-! ### Non-vacuity -/
example : (decodeCounted (.prim .u32) [1, 2, 3, 4, 5]).2.2 = 4 := by decide
example : (decodeCounted (.prim .u32) [1, 2, 3]).2.2 = 0 := by decide
/-- A failing decode that consumed part of the input: two elements promised, one present. -/
example : (decodeCounted (.seq .vec 2 (.option (.prim .u8))) [8, 1, 7, 1]).2.2 = 4 := by decide

end Scale.C19
