/-
  Props/C13.lean — Declared maximum / constant / fixed encoded lengths are true.

  `Impl.mel` transliterates `max_encoded_len()` of the built-in impls and of the derive (after the
  `fix:` commit in /repo the derive bounds `compact` / `encoded_as` fields by the type they are
  encoded as, which is the type the model's descriptor carries); `Impl.melNat` is the same formula
  without `usize` saturation.
-/
import Proofs.Mel
import Proofs.Skip
namespace Scale.C13
open Scale Impl

/-- The code's saturating computation is the mathematical maximum capped at `usize::MAX`. -/
theorem mel_is_saturated_max (ty : Ty) : mel ty = min (melNat ty) usizeMax := mel_eq_min ty

/-- No value of a type that declares a maximum encoded length encodes to more bytes than declared
    (whenever the declaration did not saturate). Covers fields encoded compactly or as another
    type (they are the field's type in the descriptor), skipped fields and variants (absent), and
    generic instantiations (every instantiation is a descriptor). -/
theorem mel_bound (ty : Ty) (v : Val) (hm : hasMel ty = true) (hw : wf ty v = true)
    (hns : melNat ty ≤ usizeMax) : (Spec.encode ty v).length ≤ mel ty := by
  rw [mel_eq_min, Nat.min_eq_left hns]
  exact encode_le_melNat ty v hm hw

/-- Types marked `ConstEncodedLen`: every value encodes to exactly the declared length. -/
theorem cel_exact (ty : Ty) (v : Val) (hc : isCel ty = true) (hw : wf ty v = true)
    (hns : melNat ty ≤ usizeMax) : (Spec.encode ty v).length = mel ty := by
  rw [mel_eq_min, Nat.min_eq_left hns]
  exact encode_eq_melNat ty v hc hw

/-- When a type reports a fixed encoded size, every value has that size. -/
theorem fixed_size_exact (ty : Ty) (n : Nat) (h : encodedFixedSize ty = some n) (v : Val)
    (hw : wf ty v = true) : (Spec.encode ty v).length = n :=
  fixedSize_exact ty n h v hw

/-- The defect repaired by the `fix:` commit, stated on the model: had the derive used the field's
    own type (`u32`, 4 bytes) for a compact field, the declared maximum would be exceeded. -/
theorem compact_field_needs_representation_bound :
    mel (.tuple [.prim .u32]) < (Spec.encode (.tuple [.compact 4]) (.seq [.nat (2 ^ 32 - 1)])).length ∧
    (Spec.encode (.tuple [.compact 4]) (.seq [.nat (2 ^ 32 - 1)])).length ≤ mel (.tuple [.compact 4]) := by
  decide

/-! ### Non-vacuity -/
example : hasMel (.enum [0, 1] [.tuple [.compact 16, .prim .u8], .tuple []]) = true := by decide
example : mel (.enum [0, 1] [.tuple [.compact 16, .prim .u8], .tuple []]) = 19 := by decide
example : isCel (.tuple [.prim .u64, .array 3 .bool, .duration]) = true := by decide
example : mel (.tuple [.prim .u64, .array 3 .bool, .duration]) = 23 := by decide
example : isCel (.option (.prim .u8)) = false := by decide

end Scale.C13
