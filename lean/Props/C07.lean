/-
  Props/C07.lean — All encoding entry points and bulk fast paths agree.
-/
import Scale.EntryEnc
import Scale.Entry
import Proofs.EncodeRef
import Proofs.RoundTrip
import Proofs.Canonical
import Proofs.WireCanon
namespace Scale.C07
open Scale Impl

/-- Every impl overrides at least one of the three mutually-defaulting methods, so all four entry
    points terminate, for every type — including a derived enum none of whose variants is
    encodable (the case repaired by the `fix:` commit). -/
theorem every_entry_point_terminates : ∀ (ty : Ty), entryTerminates ty = true
  | .unit => by decide
  | .bool => by decide
  | .optionBool => by decide
  | .prim _ => by simp [entryTerminates, overrides, resolves]
  | .nonZero _ => by simp [entryTerminates]
  | .compact _ => by simp [entryTerminates, overrides, resolves]
  | .option _ => by simp [entryTerminates, overrides, resolves]
  | .result _ _ => by simp [entryTerminates, overrides, resolves]
  | .tuple [] => by decide
  | .tuple [t] => by simp only [entryTerminates]; exact every_entry_point_terminates t
  | .tuple (_ :: _ :: _) => by simp [entryTerminates, overrides, resolves]
  | .array _ _ => by simp [entryTerminates, overrides, resolves]
  | .garray _ _ => by simp [entryTerminates, overrides, resolves]
  | .seq _ _ _ => by simp [entryTerminates, overrides, resolves]
  | .str => by decide
  | .bytes => by decide
  | .box _ t => by simp only [entryTerminates]; exact every_entry_point_terminates t
  | .wrap t => by simp only [entryTerminates]; exact every_entry_point_terminates t
  | .duration => by decide
  | .range _ => by simp [entryTerminates, overrides, resolves]
  | .bitseq _ _ => by simp [entryTerminates, overrides, resolves]
  | .enum _ _ => by simp [entryTerminates, overrides, resolves]

/-- An impl that overrides none of the three (what the derive emitted for an enum whose variants
    are all skipped, before the fix) never reaches a method body: the defaults call each other
    forever. -/
theorem empty_impl_never_terminates (fuel : Nat) (m : Method) : resolves ⟨false, false, false⟩ fuel m = false := by
  induction fuel generalizing m with
  | zero => rfl
  | succ f ih => cases m <;> simp [resolves, ih]

theorem usingEncoded_eq : ∀ (ty : Ty) (v : Val), wf ty v = true → usingEncoded ty v = .ok (Spec.encode ty v)
  | .compact w, v, h => by
    cases v <;> try (simp [wf] at h; done)
    case nat n =>
      simp only [wf, Bool.and_eq_true, decide_eq_true_eq] at h
      simp only [usingEncoded, Spec.encode]
      have hw := widthOk_iff h.1
      unfold compactUsingEncoded
      rw [compactEncodeTo_eq_spec hw h.2]
      have := spec_compactLen_le_cap hw h.2
      rw [← spec_compact_length] at this
      simp [this]
  | .tuple [t], v, h => by
    cases v <;> try (simp [wf] at h; done)
    case seq vs =>
      match vs, h with
      | [x], h =>
        simp only [wf, wfList, Bool.and_true] at h
        simp only [usingEncoded, Spec.encode, Spec.encodeList, List.append_nil]
        exact usingEncoded_eq t x h
      | [], h => simp [wf, wfList] at h
      | _ :: _ :: _, h => simp [wf, wfList] at h
  | .box _ t, v, h => by
    simp only [usingEncoded, Spec.encode]
    exact usingEncoded_eq t v (by simpa [wf] using h)
  | .wrap t, v, h => by
    simp only [usingEncoded, Spec.encode]
    exact usingEncoded_eq t v (by simpa [wf] using h)
  | .unit, v, h => by simp only [usingEncoded, encode]; exact encodeTo_ref _ _ h
  | .bool, v, h => by simp only [usingEncoded, encode]; exact encodeTo_ref _ _ h
  | .optionBool, v, h => by simp only [usingEncoded, encode]; exact encodeTo_ref _ _ h
  | .prim _, v, h => by simp only [usingEncoded, encode]; exact encodeTo_ref _ _ h
  | .nonZero _, v, h => by simp only [usingEncoded, encode]; exact encodeTo_ref _ _ h
  | .option _, v, h => by simp only [usingEncoded, encode]; exact encodeTo_ref _ _ h
  | .result _ _, v, h => by simp only [usingEncoded, encode]; exact encodeTo_ref _ _ h
  | .tuple [], v, h => by simp only [usingEncoded, encode]; exact encodeTo_ref _ _ h
  | .tuple (_ :: _ :: _), v, h => by simp only [usingEncoded, encode]; exact encodeTo_ref _ _ h
  | .array _ _, v, h => by simp only [usingEncoded, encode]; exact encodeTo_ref _ _ h
  | .garray _ _, v, h => by simp only [usingEncoded, encode]; exact encodeTo_ref _ _ h
  | .seq _ _ _, v, h => by simp only [usingEncoded, encode]; exact encodeTo_ref _ _ h
  | .str, v, h => by simp only [usingEncoded, encode]; exact encodeTo_ref _ _ h
  | .bytes, v, h => by simp only [usingEncoded, encode]; exact encodeTo_ref _ _ h
  | .duration, v, h => by simp only [usingEncoded, encode]; exact encodeTo_ref _ _ h
  | .range _, v, h => by simp only [usingEncoded, encode]; exact encodeTo_ref _ _ h
  | .bitseq _ _, v, h => by simp only [usingEncoded, encode]; exact encodeTo_ref _ _ h
  | .enum _ _, v, h => by simp only [usingEncoded, encode]; exact encodeTo_ref _ _ h

/-- The owned-vector encoding, the streaming encoding, the borrowed-slice callback form and the
    size-only computation all describe the same byte string (the last as its length); none panics
    (in particular the fixed-capacity buffer of `CompactRef::using_encoded` never overflows). -/
theorem entry_points_agree (ty : Ty) (v : Val) (h : wf ty v = true) :
    encode ty v = .ok (Spec.encode ty v) ∧ encodeTo ty v = .ok (Spec.encode ty v) ∧
    usingEncoded ty v = .ok (Spec.encode ty v) ∧ encodedSize ty v = .ok (Spec.encode ty v).length := by
  have e := encodeTo_ref ty v h
  exact ⟨e, e, usingEncoded_eq ty v h, by simp [encodedSize, e, Res.map]⟩

/-- **Any sink.** However the encoder splits the byte string into `write` calls, a sink whose
    `write` appends observes exactly the byte string (so `Vec<u8>`, `io::Write` with short
    writes under `write_all`, and `dyn Output` agree), and a counting sink its length. -/
theorem sink_independent {σ : Type} (k : Sink σ) (hk : k.Appending) (s : σ) (chunks : List Bytes) :
    k.view (chunks.foldl k.write s) = k.view s ++ chunks.flatten := by
  induction chunks generalizing s with
  | nil => simp
  | cons c cs ih =>
    simp only [List.foldl_cons, ih, List.flatten_cons]
    rw [hk s c, List.append_assoc]

/-- Bulk-optimised **encoding** of primitive sequences is element-wise encoding. -/
theorem bulk_encode_is_elementwise (p : Prim) (vs : List Val) :
    sliceNoLen (.prim p) (encodeTo (.prim p)) vs = resConcat (vs.map (encodeTo (.prim p))) := by
  rw [sliceNoLen_ok (.prim p) vs (fun v _ => by simp [encodeTo, Spec.encode])]
  exact (resConcat_map _ _ vs (fun v _ => by simp [encodeTo, Spec.encode])).symm

/-- A deque encodes its two ring-buffer slices one after the other; for every split this is the
    encoding of the whole content (bulk path on each slice). -/
theorem deque_slices_concat (p : Prim) (front back : List Val) (h : front.length + back.length ≤ u32Max) :
    encodeDeque (.prim p) front back = .ok (Spec.encode (.seq .deque 0 (.prim p)) (.seq (front ++ back))) := by
  have e : ∀ l : List Val, sliceNoLen (.prim p) (encodeTo (.prim p)) l = .ok (l.map (Spec.encode (.prim p))).flatten :=
    fun l => sliceNoLen_ok (.prim p) l (fun v _ => by simp [encodeTo, Spec.encode])
  simp [encodeDeque, encodeLen_ok h, e, Res.bind, Res.map, Spec.encode, List.append_assoc]

/-- Bulk-optimised **decoding** of a primitive vector is indistinguishable from decoding its
    element-wise twin (a newtype around the primitive, which takes the item-by-item path): the same
    byte strings are accepted, with the same elements and the same bytes consumed. -/
theorem bulk_decode_is_elementwise (sz sz' : Nat) (hsz' : sz' ≤ maxPrealloc) (p : Prim) (bs rest : Bytes) (vs : List Val) :
    decode (.seq .vec sz (.prim p)) bs = (.ok (.seq vs), rest) ↔
    decode (.seq .vec sz' (.tuple [.prim p])) bs = (.ok (.seq (vs.map fun v => .seq [v])), rest) := by
  have hsz : ∀ k, k ≤ maxPrealloc → layoutOk (.seq .vec k (.prim p)) = true := by
    intro k hk; simp [layoutOk, hk]
  have c1 : wireCanon (.seq .vec sz (.prim p)) = true := by simp [wireCanon]
  have c2 : wireCanon (.seq .vec sz' (.tuple [.prim p])) = true := by simp [wireCanon, wireCanon.wireCanonList]
  have w1 : widthsOk (.seq .vec sz (.prim p)) = true := by simp [widthsOk]
  have w2 : widthsOk (.seq .vec sz' (.tuple [.prim p])) = true := by simp [widthsOk, widthsOk.widthsOkList]
  have l2 : layoutOk (.seq .vec sz' (.tuple [.prim p])) = true := by simp [layoutOk, layoutOk.layoutOkList, hsz']
  -- the bulk path never looks at `sz`: use a harmless one for its layout hypothesis
  have hbulk : decode (.seq .vec sz (.prim p)) bs = decode (.seq .vec 0 (.prim p)) bs := by
    simp [decode, decodeP, decodeVecWithLen]
  rw [hbulk]
  have a1 := accepts (.seq .vec 0 (.prim p)) (by simp [widthsOk]) (by simp [layoutOk, maxPrealloc]) (by simp [wireCanon])
    bs rest (.seq vs)
  have a2 := accepts (.seq .vec sz' (.tuple [.prim p])) w2 l2 c2 bs rest (.seq (vs.map fun v => .seq [v]))
  rw [a1, a2]
  have hwf : wf (.seq .vec sz' (.tuple [.prim p])) (.seq (vs.map fun v => .seq [v])) =
      wf (.seq .vec 0 (.prim p)) (.seq vs) := by
    simp [wf, wfList, List.all_map, Function.comp_def]
  have henc : Spec.encode (.seq .vec sz' (.tuple [.prim p])) (.seq (vs.map fun v => .seq [v])) =
      Spec.encode (.seq .vec 0 (.prim p)) (.seq vs) := by
    simp [Spec.encode, Spec.encodeList, List.map_map, Function.comp_def]
  rw [hwf, henc]
where
  accepts (ty : Ty) (hw : widthsOk ty = true) (hl : layoutOk ty = true) (hc : wireCanon ty = true)
      (bs rest : Bytes) (v : Val) :
      decode ty bs = (.ok v, rest) ↔ wf ty v = true ∧ bs = Spec.encode ty v ++ rest := by
    constructor
    · exact decode_inv ty hw hl hc bs rest v
    · rintro ⟨hwf, rfl⟩
      have := decode_encode ty v hwf (canon_true ty hc v) hl rest
      rwa [norm_id ty hc v] at this

/-- The helpers that hand the callback form on — `Joiner::and` and `KeyedVec::to_keyed_vec` —
    append exactly the encoding of the value to what they were given. -/
theorem joiner_and_keyed_vec (acc key : Bytes) (ty : Ty) (v : Val) (h : wf ty v = true) :
    joinerAnd acc ty v = .ok (acc ++ Spec.encode ty v) ∧ toKeyedVec key ty v = .ok (key ++ Spec.encode ty v) := by
  simp [joinerAnd, toKeyedVec, usingEncoded_eq ty v h, Res.map]

/-! ### Non-vacuity -/
example : overrides (.enum [] []) = some ⟨true, false, false⟩ := by decide
example : usingEncoded (.compact 4) (.nat (2 ^ 32 - 1)) = .ok [3, 0xff, 0xff, 0xff, 0xff] := by decide
example : encodedSize (.seq .vec 4 (.prim .u32)) (.seq [.nat 1, .nat 2]) = .ok 9 := by decide

end Scale.C07
