/-
  Props/C17.lean — Invalid derive input is rejected at compile time, valid input compiles.

  `Derive.accepts` transliterates the decisions of `derive(Encode, Decode)`: `check_attributes` /
  the per-field "only one of skip, compact, encoded_as", `try_get_variants` (> 256 encodable
  variants), `variant_index` precedence, and the generated const block (`search_for_invalid_index`,
  `duplicate_info`). The theorem side fixes what these decisions *mean*; that rustc evaluates the
  generated const block and reports it is the compiler's job and is observed by the
  correspondence check (one `cargo check` over generated programs), not proved.
-/
import Proofs.Derive
namespace Scale.C17
open Scale Derive

/-- The property's wording of a valid definition. -/
def Valid : TypeDef → Prop
  | .struct fs => ∀ f ∈ fs, attrCount f ≤ 1
  | .enum vs =>
    (∀ v ∈ vs, v.skip = false → ∀ f ∈ v.fields, attrCount f ≤ 1) ∧
    (vs.filter fun v => !v.skip).length ≤ 256 ∧
    (∀ i ∈ indicesFrom 0 vs, i ≤ 255) ∧ (indicesFrom 0 vs).Nodup
  | .union => False

theorem filter_length_eq : ∀ (vs : List Variant) (i : Nat),
    (indicesFrom i vs).length = (vs.filter fun v => !v.skip).length
  | [], _ => rfl
  | v :: vs, i => by
    simp only [indicesFrom]
    by_cases hs : v.skip = true
    · simp [hs, filter_length_eq vs i]
    · have hs' : v.skip = false := by simpa using hs
      simp [hs', filter_length_eq vs (i + 1)]

/-- The derive accepts exactly the valid definitions: colliding indices (from index attributes,
    discriminants or implicit positions among the non-skipped variants), an index above 255, more
    than 256 encodable variants, mutually exclusive field attributes and unions are rejected;
    everything else is accepted. -/
theorem accepts_iff_valid (d : TypeDef) : accepts d = true ↔ Valid d := by
  cases d with
  | struct fs => simp [accepts, Valid, fieldsOk]
  | union => simp [accepts, Valid]
  | «enum» vs =>
    simp only [accepts, Valid, Bool.and_eq_true, List.all_eq_true, Bool.or_eq_true, fieldsOk,
      decide_eq_true_eq, Bool.not_eq_true']
    rw [hasInvalidIndex_iff, filter_length_eq vs 0]
    have hd : hasDuplicate (indicesFrom 0 vs) = false ↔ (indicesFrom 0 vs).Nodup := by
      have := hasDuplicate_iff (indicesFrom 0 vs)
      constructor
      · intro h
        by_cases hn : (indicesFrom 0 vs).Nodup
        · exact hn
        · have := this.mpr hn
          rw [h] at this; cases this
      · intro h
        cases hh : hasDuplicate (indicesFrom 0 vs) with
        | false => rfl
        | true => exact absurd h (this.mp hh)
    rw [hd]
    constructor
    · rintro ⟨⟨⟨h1, h2⟩, h3⟩, h4⟩
      refine ⟨fun v hv hs f hf => ?_, h2, fun i hi => by have := h3 i hi; omega, h4⟩
      rcases h1 v hv with h | h
      · rw [hs] at h; cases h
      · exact h f hf
    · rintro ⟨h1, h2, h3, h4⟩
      refine ⟨⟨⟨fun v hv => ?_, h2⟩, fun i hi => by have := h3 i hi; omega⟩, h4⟩
      by_cases hs : v.skip = true
      · exact Or.inl hs
      · exact Or.inr (fun f hf => h1 v hv (by simpa using hs) f hf)

/-- `duplicate_info` is complete: it reports a duplicate exactly when two variants share an index. -/
theorem duplicate_info_complete (xs : List Nat) : hasDuplicate xs = true ↔ ¬ xs.Nodup := hasDuplicate_iff xs

/-- An implicit index is the position among the **non-skipped** variants. -/
theorem implicit_index_counts_non_skipped (vs : List Variant) (h : ∀ v ∈ vs, plainVariant v) :
    indicesFrom 0 vs = List.range ((vs.filter fun v => !v.skip).length) := by
  rw [implicit_indices vs 0 h, List.range_eq_range']

/-- Precedence: index attribute, then explicit discriminant, then position. -/
theorem index_precedence (v : Variant) (i n m : Nat) :
    variantIndex { v with indexAttr := some n, discriminant := some m } i = n ∧
    variantIndex { v with indexAttr := none, discriminant := some m } i = m ∧
    variantIndex { v with indexAttr := none, discriminant := none } i = i := by
  simp [variantIndex]

/-- What acceptance buys the codec: the index bytes of an accepted enum are pairwise distinct and
    fit a byte, so the index byte identifies the variant (C05 builds on this). -/
theorem accepted_enum_indices (vs : List Variant) (h : accepts (.enum vs) = true) :
    (indicesFrom 0 vs).Nodup ∧ ∀ i ∈ indicesFrom 0 vs, i < 256 := by
  have := (accepts_iff_valid (.enum vs)).mp h
  exact ⟨this.2.2.2, fun i hi => by have := this.2.2.1 i hi; omega⟩

/-- `derive(CompactAs)` is accepted only for a struct with exactly one non-skipped field. -/
theorem compact_as_shape (d : TypeDef) :
    acceptsCompactAs d = true ↔ ∃ fs, d = .struct fs ∧ (fs.filter fun f => !f.skip).length = 1 := by
  cases d <;> simp [acceptsCompactAs]

/-! ### Non-vacuity: the probe case from the design — a skipped first variant does not consume an
    implicit index, so `#[codec(skip)] A, B, #[codec(index = 0)] C` collides. -/
example : accepts (.enum [⟨true, none, none, []⟩, ⟨false, none, none, []⟩, ⟨false, some 0, none, []⟩]) = false := by decide
example : accepts (.enum [⟨false, none, none, []⟩, ⟨false, some 7, none, []⟩, ⟨false, none, some 9, []⟩]) = true := by decide
example : accepts (.enum [⟨false, some 256, none, []⟩]) = false := by decide
example : accepts (.struct [⟨true, true, none, .prim .u32⟩]) = false := by decide

end Scale.C17
