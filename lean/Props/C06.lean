/-
  Props/C06.lean — Encoding depends only on logical content (deterministic, layout-free).

  In the model a value *is* its logical content (`Val` has no capacity, ring-buffer position,
  insertion history or bit offset), so most of the property is a frame condition: the encoder is a
  function of `(Ty, Val)`. What is not a frame condition is proved here: the deque's two-slice
  encoding for every split, and the canonical iteration order of maps and sets.
-/
import Scale.EntryEnc
import Proofs.EncodeRef
import Proofs.MapOrder
import Proofs.CmpLaws
import Proofs.Like
import Proofs.Prim
namespace Scale.C06
open Scale Impl

theorem resConcat_append (xs ys : List (Res Bytes)) (a b : Bytes) (hx : resConcat xs = .ok a)
    (hy : resConcat ys = .ok b) : resConcat (xs ++ ys) = .ok (a ++ b) := by
  induction xs generalizing a with
  | nil =>
    simp only [resConcat, Res.ok.injEq] at hx
    subst hx; simpa using hy
  | cons x xs ih =>
    simp only [List.cons_append, resConcat] at hx ⊢
    cases x with
    | ok c =>
      simp only at hx ⊢
      cases hr : resConcat xs with
      | ok d =>
        rw [hr] at hx
        simp only [Res.map, Res.ok.injEq] at hx
        subst hx
        rw [ih d hr]
        simp [Res.map]
      | err => rw [hr] at hx; simp [Res.map] at hx
      | panic => rw [hr] at hx; simp [Res.map] at hx
    | err => simp at hx
    | panic => simp at hx

/-- **Deque.** Whatever the ring-buffer state — i.e. for *every* split of the contents into the two
    slices `as_slices()` returns — a deque encodes like the vector of its elements. -/
theorem deque_any_ring_state (sz : Nat) (t : Ty) (front back : List Val)
    (h : wf (.seq .deque sz t) (.seq (front ++ back)) = true) :
    encodeDeque t front back = .ok (Spec.encode (.seq .vec sz t) (.seq (front ++ back))) := by
  simp only [wf, Bool.and_eq_true, decide_eq_true_eq, List.all_eq_true, List.mem_append] at h
  obtain ⟨hlen, hall⟩ := h
  have hf := sliceNoLen_ok t front (fun v hv => encodeTo_ref t v (hall v (Or.inl hv)))
  have hb := sliceNoLen_ok t back (fun v hv => encodeTo_ref t v (hall v (Or.inr hv)))
  simp only [encodeDeque, ← List.length_append, encodeLen_ok hlen, hf, hb, Res.bind, Res.map, Spec.encode,
    List.map_append, List.flatten_append, List.append_assoc]

/-- **Maps and sets.** The same entries (distinct keys) inserted in any order iterate, and hence
    encode, identically — for any lawful key order (std's `Ord` contract). -/
theorem map_insertion_order_irrelevant {cmp : Val → Val → Ordering} (hc : LawfulCmp cmp) (key : Val → Val)
    (k : SeqKind) (sz : Nat) (t : Ty) (l₁ l₂ : List Val) (hp : l₁.Perm l₂)
    (hd₁ : DistinctKeys cmp key l₁) (hd₂ : DistinctKeys cmp key l₂) :
    Spec.encode (.seq k sz t) (.seq (fromIter cmp key l₁)) = Spec.encode (.seq k sz t) (.seq (fromIter cmp key l₂)) := by
  rw [fromIter_perm hc key l₁ l₂ hp hd₁ hd₂]

/-- The hypothesis is not vacuous: the order the model itself uses for keys (integers numerically,
    `false < true`, `None < Some`, `Ok < Err`, tuples / sequences / strings lexicographically, enum
    values by index then payload) is a lawful total order on **all** values
    (`Proofs/CmpLaws.lean`: swap, transitivity, equality only on identical values). -/
theorem model_order_is_lawful : LawfulCmp Val.cmp := valCmp_lawful

/-- Hence, unconditionally for the modelled `Ord`: a set built from the same elements, or a map from
    the same entries, in any insertion order encodes identically. -/
theorem set_insertion_order_irrelevant (sz : Nat) (t : Ty) (l₁ l₂ : List Val) (hp : l₁.Perm l₂)
    (hd₁ : DistinctKeys Val.cmp id l₁) (hd₂ : DistinctKeys Val.cmp id l₂) :
    Spec.encode (.seq .bset sz t) (.seq (fromIter Val.cmp id l₁)) =
      Spec.encode (.seq .bset sz t) (.seq (fromIter Val.cmp id l₂)) :=
  map_insertion_order_irrelevant valCmp_lawful id .bset sz t l₁ l₂ hp hd₁ hd₂

theorem map_entries_insertion_order_irrelevant (sz : Nat) (t : Ty) (l₁ l₂ : List Val) (hp : l₁.Perm l₂)
    (hd₁ : DistinctKeys Val.cmp entryKey l₁) (hd₂ : DistinctKeys Val.cmp entryKey l₂) :
    Spec.encode (.seq .bmap sz t) (.seq (fromIter Val.cmp entryKey l₁)) =
      Spec.encode (.seq .bmap sz t) (.seq (fromIter Val.cmp entryKey l₂)) :=
  map_insertion_order_irrelevant valCmp_lawful entryKey .bmap sz t l₁ l₂ hp hd₁ hd₂

/-- **Holders.** Boxed, shared, borrowed or copy-on-write holders encode like the plain value
    (`&T`, `&mut T`, `Cow`, `Ref` are the held type already; `Box`/`Rc`/`Arc`:). -/
theorem holders_transparent (sz : Nat) (t : Ty) (v : Val) : Spec.encode (.box sz t) v = Spec.encode t v := by
  simp [Spec.encode]

theorem holders_transparent_impl (sz : Nat) (t : Ty) (v : Val) : encodeTo (.box sz t) v = encodeTo t v := by
  simp [encodeTo]

/-- … and so do user-defined wrapper types that implement `WrapperTypeEncode`. -/
theorem user_wrapper_transparent (t : Ty) (v : Val) :
    Spec.encode (.wrap t) v = Spec.encode t v ∧ encodeTo (.wrap t) v = encodeTo t v := by
  simp [Spec.encode, encodeTo]

/-- **Collection flavour and element size are invisible**: vector, deque, list, set … of the same
    elements encode alike, whatever `size_of` (hence whatever spare capacity the allocation has). -/
theorem flavour_and_layout_invisible (k k' : SeqKind) (sz sz' : Nat) (t : Ty) (vs : List Val) :
    Spec.encode (.seq k sz t) (.seq vs) = Spec.encode (.seq k' sz' t) (.seq vs) := by
  simp [Spec.encode]

/-- **Determinism / frame condition**: the encoder is a function of the type and the logical
    content only; two values with the same content encode to the same bytes, repeatedly. -/
theorem encoding_is_a_function (ty : Ty) (v₁ v₂ : Val) (h : v₁ = v₂) : encodeTo ty v₁ = encodeTo ty v₂ := by
  rw [h]

/-- **Bit sequences**: the encoding is a function of the bit list alone (whatever offset the bits
    had inside their backing words), with zero padding in the last word. -/
theorem bits_offset_invisible (store : Prim) (msb : Bool) (bits : List Bool) :
    ∃ body, Spec.encode (.bitseq store msb) (.bits bits) = Spec.compact bits.length ++ body ∧
      body.length = (bitChunks (8 * store.size) bits.length bits).length * store.size := by
  refine ⟨_, rfl, ?_⟩
  have := flatten_length_const ((bitChunks (8 * store.size) bits.length bits).map fun c =>
      leBytes store.size (bitsToElem (8 * store.size) msb 0 c)) (size := store.size)
    (by intro c hc; obtain ⟨c', _, rfl⟩ := List.mem_map.mp hc; simp)
  simpa using this

/-! ### Non-vacuity: a wrapped deque state (back slice non-empty) -/
example : encodeDeque (.prim .u16) [.nat 1, .nat 2] [.nat 3] = .ok [12, 1, 0, 2, 0, 3, 0] := by decide
example : encodeDeque (.option (.prim .u8)) [.some (.nat 1)] [.none, .some (.nat 2)] = .ok [12, 1, 1, 0, 1, 2] := by decide

end Scale.C06
