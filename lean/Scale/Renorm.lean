/-
  Scale/Renorm.lean — what the decoder makes of input whose collections are *not* written in
  canonical order: `renorm` (sort heaps, rebuild maps and sets by `from_iter`, at every nesting
  level), and `listify`, the same type with every ordered collection replaced by the plain sequence
  it is read as.
-/
import Scale.Ty
import Scale.Order
namespace Scale

def listifyKind : SeqKind → SeqKind
  | .heap => .vec
  | .bset => .list
  | .bmap => .list
  | k => k

def listify : Ty → Ty
  | .option t => .option (listify t)
  | .result t e => .result (listify t) (listify e)
  | .tuple ts => .tuple (listifyList ts)
  | .array n t => .array n (listify t)
  | .garray n t => .garray n (listify t)
  | .seq k sz t => .seq (listifyKind k) sz (listify t)
  | .box sz t => .box sz (listify t)
  | .wrap t => .wrap (listify t)
  | .range t => .range (listify t)
  | .enum idxs ts => .enum idxs (listifyList ts)
  | t => t
where
  listifyList : List Ty → List Ty
    | [] => []
    | t :: ts => listify t :: listifyList ts

/-- The order-normalisation the collection decoders apply to the elements they read. -/
def postKind (k : SeqKind) (es : List Val) : List Val :=
  match k with
  | .heap => sortVals Val.cmp es
  | .bset => fromIter Val.cmp id es
  | .bmap => fromIter Val.cmp entryKey es
  | _ => es

mutual
def renorm : Ty → Val → Val
  | .option t, .some v => .some (renorm t v)
  | .result t _, .ok v => .ok (renorm t v)
  | .result _ e, .err v => .err (renorm e v)
  | .tuple ts, .seq vs => .seq (renormList ts vs)
  | .array _ t, .seq vs => .seq (vs.map (renorm t))
  | .garray _ t, .seq vs => .seq (vs.map (renorm t))
  | .seq k _ t, .seq vs => .seq (postKind k (vs.map (renorm t)))
  | .box _ t, v => renorm t v
  | .wrap t, v => renorm t v
  | .range t, .seq [a, b] => .seq [renorm t a, renorm t b]
  | .enum idxs ts, .variant idx v => .variant idx (renormPayload idxs ts (idx % 256) v)
  | _, v => v
termination_by structural t => t

def renormList : List Ty → List Val → List Val
  | t :: ts, v :: vs => renorm t v :: renormList ts vs
  | _, vs => vs
termination_by structural ts => ts

/-- The payload of the variant the index byte `b` selects (the first whose index is `b` mod 256,
    as the derived `match` does). -/
def renormPayload : List Nat → List Ty → Nat → Val → Val
  | i :: is, t :: ts, b, v => if i % 256 = b then renorm t v else renormPayload is ts b v
  | _, _, _, v => v
termination_by structural _ ts => ts
end

/-- No bit sequence anywhere inside (their padding bits are the one place where accepted input is
    not the encoding of any value). -/
def noBits : Ty → Bool
  | .option t => noBits t
  | .result t e => noBits t && noBits e
  | .tuple ts => noBitsList ts
  | .array _ t => noBits t
  | .garray _ t => noBits t
  | .seq _ _ t => noBits t
  | .box _ t => noBits t
  | .wrap t => noBits t
  | .range t => noBits t
  | .bitseq _ _ => false
  | .enum _ ts => noBitsList ts
  | _ => true
where
  noBitsList : List Ty → Bool
    | [] => true
    | t :: ts => noBits t && noBitsList ts

end Scale
