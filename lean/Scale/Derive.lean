/-
  Scale/Derive.lean — what `#[derive(Encode, Decode)]` makes of a type definition
  (`derive/src/{encode,decode,utils}.rs`): which representation each field gets, which index byte
  each variant gets, and which definitions are rejected at compile time.
-/
import Scale.Ty
namespace Scale
namespace Derive

/-- Field attributes as written (several may be present: that is one of the rejected inputs). -/
structure Field where
  skip : Bool
  compact : Bool
  encodedAs : Option Ty
  ty : Ty
  deriving Repr, Inhabited

/-- Where a variant's index comes from. -/
structure Variant where
  skip : Bool
  /-- `#[codec(index = N)]` -/
  indexAttr : Option Nat
  /-- explicit discriminant `= N` -/
  discriminant : Option Nat
  fields : List Field
  deriving Repr, Inhabited

inductive TypeDef where
  | struct (fields : List Field)
  | enum (variants : List Variant)
  | union
  deriving Repr, Inhabited

/-- `<T as HasCompact>::Type` for the integer types (and newtypes deriving `CompactAs` over them). -/
def compactOf : Ty → Option Ty
  | .prim .u8 => some (.compact 1)
  | .prim .u16 => some (.compact 2)
  | .prim .u32 => some (.compact 4)
  | .prim .u64 => some (.compact 8)
  | .prim .u128 => some (.compact 16)
  | .unit => some .unit
  | .tuple [t] => compactOf t          -- `CompactAs` newtype: `Compact<Wrapper>` is `Compact<Inner>`
  | _ => none

def attrCount (f : Field) : Nat :=
  (if f.skip then 1 else 0) + (if f.compact then 1 else 0) + (if f.encodedAs.isSome then 1 else 0)

/-- The representation a non-skipped field is encoded in (`none`: skipped or not derivable). -/
def fieldRepr (f : Field) : Option Ty :=
  if f.skip then none
  else if f.compact then compactOf f.ty
  else match f.encodedAs with
    | some r => some r
    | none => some f.ty

/-- The non-skipped fields' representations, in declaration order. -/
def fieldReprs : List Field → List Ty
  | [] => []
  | f :: fs =>
    match fieldRepr f with
    | some t => t :: fieldReprs fs
    | none => fieldReprs fs

/-- `utils::variant_index(v, i)`: index attribute, else discriminant, else the position `i` among
    the non-skipped variants. -/
def variantIndex (v : Variant) (i : Nat) : Nat :=
  match v.indexAttr with
  | some n => n
  | none =>
    match v.discriminant with
    | some n => n
    | none => i

/-- Indices of the non-skipped variants (`try_get_variants` filters, then `enumerate`). -/
def indicesFrom : Nat → List Variant → List Nat
  | _, [] => []
  | i, v :: vs => if v.skip then indicesFrom i vs else variantIndex v i :: indicesFrom (i + 1) vs

def payloadsOf : List Variant → List Ty
  | [] => []
  | v :: vs => if v.skip then payloadsOf vs else .tuple (fieldReprs v.fields) :: payloadsOf vs

/-- The wire type of a derived definition. -/
def elaborate : TypeDef → Option Ty
  | .struct fs => some (.tuple (fieldReprs fs))
  | .enum vs => some (.enum (indicesFrom 0 vs) (payloadsOf vs))
  | .union => none

/-- `search_for_invalid_index`: some index exceeds 255. -/
def hasInvalidIndex (idxs : List Nat) : Bool := idxs.any (· > 255)

/-- `duplicate_info`: the nested `while` loops over all pairs `i < j`. -/
def hasDuplicate : List Nat → Bool
  | [] => false
  | i :: rest => rest.any (· == i) || hasDuplicate rest

def fieldsOk (fs : List Field) : Bool := fs.all fun f => attrCount f ≤ 1

/-- Is the definition accepted by `derive(Encode, Decode)` (and its generated const checks)? -/
def accepts : TypeDef → Bool
  | .struct fs => fieldsOk fs
  | .enum vs =>
    vs.all (fun v => v.skip || fieldsOk v.fields) &&
    (indicesFrom 0 vs).length ≤ 256 &&
    !hasInvalidIndex (indicesFrom 0 vs) &&
    !hasDuplicate (indicesFrom 0 vs)
  | .union => false

/-- `derive(CompactAs)`: only structs with exactly one non-skipped field. -/
def acceptsCompactAs : TypeDef → Bool
  | .struct fs => (fs.filter fun f => !f.skip).length == 1
  | _ => false

end Derive
end Scale
