/-
  Scale/HookTrace.lean — the sequence of `descend_ref` / `ascend_ref` / `on_before_alloc_mem` calls
  that decoding the encoding of a value makes, written down as a function of the type and value.
  `Proofs/HookTrace.lean` proves that this *is* what the decoder does; C11 and C12 read the needed
  depth and the tracked memory off it.
-/
import Scale.Decode
import Scale.Ghost
namespace Scale
open Impl

/-- Hook calls of `decode_vec_chunked` with the bulk closure: one announcement per chunk. -/
def chunkHooks (sz cl : Nat) : Nat → Nat → List Hook
  | 0, _ => []
  | fuel+1, rem =>
    if rem = 0 then [] else
    .alloc (satMul (min cl rem) sz) :: chunkHooks sz cl fuel (rem - min cl rem)

/-- `read_vec_from_u8s` for `n` elements of `sz ≥ 1` bytes. -/
def bulkHooks (sz n : Nat) : List Hook := chunkHooks sz (maxPrealloc / sz) n n

/-- Hook calls of the item-by-item chunk loop: per chunk the announcement, then the hooks of the
    chunk's elements. -/
def itemChunkHooks (sz : Nat) : Nat → List (List Hook) → List Hook
  | 0, _ => []
  | fuel+1, elems =>
    if elems.length = 0 then [] else
    .alloc (satMul (min (chunkLenOf sz) elems.length) sz) ::
      ((elems.take (min (chunkLenOf sz) elems.length)).flatten ++
        itemChunkHooks sz fuel (elems.drop (min (chunkLenOf sz) elems.length)))

/-- `decode_vec_with_len`: bulk for primitive elements, otherwise one level of nesting around the
    item chunks. -/
def vecHooks (sz : Nat) (t : Ty) (elems : List (List Hook)) : List Hook :=
  match t with
  | .prim p => bulkHooks p.size elems.length
  | _ => .desc :: (itemChunkHooks sz elems.length elems ++ [.asc])

mutual
def hookTrace : Ty → Val → List Hook
  | .option t, .some v => hookTrace t v
  | .result t _, .ok v => hookTrace t v
  | .result _ e, .err v => hookTrace e v
  | .tuple ts, .seq vs => hookTraceList ts vs
  | .array _ t, .seq vs => (vs.map (hookTrace t)).flatten
  | .garray _ t, .seq vs => (vs.map (hookTrace t)).flatten
  | .seq k sz t, .seq vs =>
    match k with
    | .vec | .deque | .heap => vecHooks sz t (vs.map (hookTrace t))
    | .list => .desc :: .alloc (satMul vs.length sz) :: ((vs.map (hookTrace t)).flatten ++ [.asc])
    | .bset | .bmap =>
      .desc :: .alloc (btreeMemSize sz vs.length) :: ((vs.map (hookTrace t)).flatten ++ [.asc])
  | .str, .bytes bs => bulkHooks 1 bs.length
  | .bytes, .bytes bs => bulkHooks 1 bs.length
  | .box sz t, v => .desc :: .alloc sz :: (hookTrace t v ++ [.asc])
  | .wrap t, v => .desc :: (hookTrace t v ++ [.asc])
  | .range t, .seq [a, b] => hookTrace t a ++ hookTrace t b
  | .bitseq store _, .bits bs => bulkHooks store.size (elts (8 * store.size) bs.length)
  | .enum idxs ts, .variant idx v => hookTraceVariant idxs ts idx v
  | _, _ => []
termination_by structural t => t

def hookTraceList : List Ty → List Val → List Hook
  | t :: ts, v :: vs => hookTrace t v ++ hookTraceList ts vs
  | _, _ => []
termination_by structural ts => ts

def hookTraceVariant : List Nat → List Ty → Nat → Val → List Hook
  | i :: is, t :: ts, idx, v => if i = idx then hookTrace t v else hookTraceVariant is ts idx v
  | _, _, _, _ => []
termination_by structural _ ts => ts
end

end Scale

namespace Scale
open Impl

/-- Size of one element as the vector decoder announces it: the primitive's width on the bulk path,
    `size_of::<T>()` (the descriptor's `sz`) otherwise. -/
def elemSize (sz : Nat) : Ty → Nat
  | .prim p => p.size
  | _ => sz

def sumNat : List Nat → Nat
  | [] => 0
  | n :: ns => n + sumNat ns

def maxNat : List Nat → Nat
  | [] => 0
  | n :: ns => max n (maxNat ns)

mutual
/-- Bytes of decoded data the value holds on the heap, as property C12 counts them: element count
    times element size for sequences, the pointee size for boxes, the length of strings and byte
    buffers, the storage words of bit sequences, the crate's node estimate for tree maps and sets —
    summed over nesting. -/
def payload : Ty → Val → Nat
  | .option t, .some v => payload t v
  | .result t _, .ok v => payload t v
  | .result _ e, .err v => payload e v
  | .tuple ts, .seq vs => payloadList ts vs
  | .array _ t, .seq vs => sumNat (vs.map (payload t))
  | .garray _ t, .seq vs => sumNat (vs.map (payload t))
  | .seq k sz t, .seq vs =>
    match k with
    | .vec | .deque | .heap => vs.length * elemSize sz t + sumNat (vs.map (payload t))
    | .list => satMul vs.length sz + sumNat (vs.map (payload t))
    | .bset | .bmap => btreeMemSize sz vs.length + sumNat (vs.map (payload t))
  | .str, .bytes bs => bs.length
  | .bytes, .bytes bs => bs.length
  | .box sz t, v => sz + payload t v
  | .wrap t, v => payload t v
  | .range t, .seq [a, b] => payload t a + payload t b
  | .bitseq store _, .bits bs => elts (8 * store.size) bs.length * store.size
  | .enum idxs ts, .variant idx v => payloadVariant idxs ts idx v
  | _, _ => 0
termination_by structural t => t

def payloadList : List Ty → List Val → Nat
  | t :: ts, v :: vs => payload t v + payloadList ts vs
  | _, _ => 0
termination_by structural ts => ts

def payloadVariant : List Nat → List Ty → Nat → Val → Nat
  | i :: is, t :: ts, idx, v => if i = idx then payload t v else payloadVariant is ts idx v
  | _, _, _, _ => 0
termination_by structural _ ts => ts
end

/-- Nesting of a vector: none on the bulk path, one level around the elements otherwise. -/
def vecNesting (t : Ty) (n : Nat) : Nat :=
  match t with
  | .prim _ => 0
  | _ => 1 + n

mutual
/-- Container nesting depth of the value: the number of `descend_ref` levels its decoding opens at
    once. Boxes, lists, trees and element-wise decoded vectors cost a level; vectors of primitives,
    strings, byte buffers and bit sequences are read in bulk and cost none. -/
def nesting : Ty → Val → Nat
  | .option t, .some v => nesting t v
  | .result t _, .ok v => nesting t v
  | .result _ e, .err v => nesting e v
  | .tuple ts, .seq vs => nestingList ts vs
  | .array _ t, .seq vs => maxNat (vs.map (nesting t))
  | .garray _ t, .seq vs => maxNat (vs.map (nesting t))
  | .seq k _ t, .seq vs =>
    match k with
    | .vec | .deque | .heap => vecNesting t (maxNat (vs.map (nesting t)))
    | _ => 1 + maxNat (vs.map (nesting t))
  | .box _ t, v => 1 + nesting t v
  | .wrap t, v => 1 + nesting t v
  | .range t, .seq [a, b] => max (nesting t a) (nesting t b)
  | .enum idxs ts, .variant idx v => nestingVariant idxs ts idx v
  | _, _ => 0
termination_by structural t => t

def nestingList : List Ty → List Val → Nat
  | t :: ts, v :: vs => max (nesting t v) (nestingList ts vs)
  | _, _ => 0
termination_by structural ts => ts

def nestingVariant : List Nat → List Ty → Nat → Val → Nat
  | i :: is, t :: ts, idx, v => if i = idx then nesting t v else nestingVariant is ts idx v
  | _, _, _, _ => 0
termination_by structural _ ts => ts
end

end Scale
