/-
  Scale/Footprint.lean — how much heap a decoded value holds, and the static quantities that bound
  it by the length of its encoding (property C09).

  `held ty v` is the memory the decoded value `v` keeps alive, in the units the crate itself uses:
  `len * size_of::<T>()` for every sequence (the `sz` parameter of the descriptor: element size for
  vectors/deques/heaps, node size for lists and trees), the pointee size for every `Box/Rc/Arc`,
  one byte per byte of a string / byte buffer, the storage words of a bit sequence.
-/
import Scale.Ty
import Scale.Decode
namespace Scale

/-- A lower bound on the encoded length of any value of the type. -/
def minLen : Ty → Nat
  | .unit => 0
  | .bool => 1
  | .optionBool => 1
  | .prim p => p.size
  | .nonZero p => p.size
  | .compact _ => 1
  | .option _ => 1
  | .result _ _ => 1
  | .tuple ts => minLenList ts
  | .array n t => n * minLen t
  | .garray n t => n * minLen t
  | .seq _ _ _ => 1
  | .str => 1
  | .bytes => 1
  | .box _ t => minLen t
  | .wrap t => minLen t
  | .duration => 12
  | .range t => minLen t + minLen t
  | .bitseq _ _ => 1
  | .enum _ _ => 1
where
  minLenList : List Ty → Nat
    | [] => 0
    | t :: ts => minLen t + minLenList ts

/-- Every element type of every sequence inside the type consumes at least one input byte per
    element. (The excluded types are exactly finding F4: `LinkedList<()>`, `Vec<AllSkipped>` …) -/
def productive : Ty → Bool
  | .option t => productive t
  | .result t e => productive t && productive e
  | .tuple ts => productiveList ts
  | .array _ t => productive t
  | .garray _ t => productive t
  | .seq _ _ t => decide (1 ≤ minLen t) && productive t
  | .box _ t => productive t
  | .wrap t => productive t
  | .range t => productive t
  | .enum _ ts => productiveList ts
  | _ => true
where
  productiveList : List Ty → Bool
    | [] => true
    | t :: ts => productive t && productiveList ts

mutual
/-- Heap bytes held by the decoded value. -/
def held : Ty → Val → Nat
  | .option t, .some v => held t v
  | .result t _, .ok v => held t v
  | .result _ e, .err v => held e v
  | .tuple ts, .seq vs => heldList ts vs
  | .array _ t, .seq vs => (vs.map (held t)).sum
  | .garray _ t, .seq vs => (vs.map (held t)).sum
  | .seq _ sz t, .seq vs => vs.length * sz + (vs.map (held t)).sum
  | .str, .bytes bs => bs.length
  | .bytes, .bytes bs => bs.length
  | .box sz t, v => sz + held t v
  | .wrap t, v => held t v
  | .range t, .seq [a, b] => held t a + held t b
  | .bitseq store _, .bits bs => Impl.elts (8 * store.size) bs.length * store.size
  | .enum idxs ts, .variant idx v => heldVariant idxs ts idx v
  | _, _ => 0
termination_by structural t => t

def heldList : List Ty → List Val → Nat
  | t :: ts, v :: vs => held t v + heldList ts vs
  | _, _ => 0
termination_by structural ts => ts

def heldVariant : List Nat → List Ty → Nat → Val → Nat
  | i :: is, t :: ts, idx, v => if i = idx then held t v else heldVariant is ts idx v
  | _, _, _, _ => 0
termination_by structural _ ts => ts
end

/-- Heap held independently of the input: pointees of `Box/Rc/Arc` in fixed positions. -/
def baseMem : Ty → Nat
  | .option t => baseMem t
  | .result t e => baseMem t + baseMem e
  | .tuple ts => baseList ts
  | .array n t => n * baseMem t
  | .garray n t => n * baseMem t
  | .box sz t => sz + baseMem t
  | .wrap t => baseMem t
  | .range t => baseMem t + baseMem t
  | .enum _ ts => baseList ts
  | _ => 0
where
  baseList : List Ty → Nat
    | [] => 0
    | t :: ts => baseMem t + baseList ts

/-- Heap bytes per input byte. -/
def memRatio : Ty → Nat
  | .option t => memRatio t
  | .result t e => memRatio t + memRatio e
  | .tuple ts => ratioList ts
  | .array _ t => memRatio t
  | .garray _ t => memRatio t
  | .seq _ sz t => sz + baseMem t + memRatio t
  | .str => 1
  | .bytes => 1
  | .box _ t => memRatio t
  | .wrap t => memRatio t
  | .range t => memRatio t
  | .bitseq _ _ => 1
  | .enum _ ts => ratioList ts
  | _ => 0
where
  ratioList : List Ty → Nat
    | [] => 0
    | t :: ts => memRatio t + ratioList ts

end Scale
