/-
  Scale/Input.lean — decoders as interaction trees over the `Input` trait, and `Input` as an
  abstract state machine.

  `Prog α` is the decoder-side *program*: the exact sequence of `Input` trait calls a Rust
  `Decode::decode` issues, with the continuation depending on the bytes delivered. No Rust decoder
  ever recovers from an `Err` (every call is followed by `?`), so continuations only receive
  successful answers and a failing call ends the program.

  `InputOps σ` is one implementation of the trait with state `σ`. State is kept on failure
  (`σ → Res α × σ`) because the position of the input at the point of failure is observable.
-/
import Scale.Basic
namespace Scale

/-- `MAX_PREALLOCATION` in `src/codec.rs`. -/
def maxPrealloc : Nat := 16 * 1024

inductive Prog (α : Type) where
  | pure (a : α)
  | fail
  | panic
  /-- `input.read(&mut [u8; n])` -/
  | read (n : Nat) (k : Bytes → Prog α)
  /-- `input.read_byte()` -/
  | readByte (k : UInt8 → Prog α)
  /-- `input.descend_ref()?` -/
  | descend (k : Unit → Prog α)
  /-- `input.ascend_ref()` -/
  | ascend (k : Unit → Prog α)
  /-- `input.on_before_alloc_mem(n)?` -/
  | alloc (n : Nat) (k : Unit → Prog α)
  /-- `read_vec_from_u8s::<T>(input, count)` with `size_of::<T>() = elemSize`: the only place that
      consults `remaining_len`. Delivers `count * elemSize` bytes. -/
  | bulk (elemSize count : Nat) (k : Bytes → Prog α)
  /-- `input.scale_internal_decode_bytes()` after the length prefix has been read (`n` bytes):
      the zero-copy path on a `BytesCursor`, `bulk 1 n` everywhere else. -/
  | rawBytes (n : Nat) (k : Bytes → Prog α)

namespace Prog

def bind {α β : Type} : Prog α → (α → Prog β) → Prog β
  | pure a, f => f a
  | fail, _ => fail
  | panic, _ => panic
  | read n k, f => read n (fun b => (k b).bind f)
  | readByte k, f => readByte (fun b => (k b).bind f)
  | descend k, f => descend (fun u => (k u).bind f)
  | ascend k, f => ascend (fun u => (k u).bind f)
  | alloc n k, f => alloc n (fun u => (k u).bind f)
  | bulk sz c k, f => bulk sz c (fun b => (k b).bind f)
  | rawBytes n k, f => rawBytes n (fun b => (k b).bind f)

def map {α β : Type} (f : α → β) (p : Prog α) : Prog β := p.bind (fun a => pure (f a))

/-- Decode `n` items with the same decoder, in order. -/
def replicateM {α : Type} : Nat → Prog α → Prog (List α)
  | 0, _ => pure []
  | n+1, p => p.bind (fun a => (replicateM n p).bind (fun as => pure (a :: as)))

/-- Accumulator form of `replicateM` (linear time; the compiler uses it via `replicateM_eq_fast`). -/
def replicateAcc {α : Type} (p : Prog α) : Nat → List α → Prog (List α)
  | 0, acc => pure acc.reverse
  | n+1, acc => p.bind (fun a => replicateAcc p n (a :: acc))

def replicateFast {α : Type} (n : Nat) (p : Prog α) : Prog (List α) := replicateAcc p n []

theorem bind_assoc {α β γ : Type} (p : Prog α) (f : α → Prog β) (g : β → Prog γ) :
    (p.bind f).bind g = p.bind (fun a => (f a).bind g) := by
  induction p with
  | pure a => rfl
  | fail => rfl
  | panic => rfl
  | read n k ih => simp only [bind]; congr; funext b; exact ih b
  | readByte k ih => simp only [bind]; congr; funext b; exact ih b
  | descend k ih => simp only [bind]; congr; funext b; exact ih b
  | ascend k ih => simp only [bind]; congr; funext b; exact ih b
  | alloc n k ih => simp only [bind]; congr; funext b; exact ih b
  | bulk sz c k ih => simp only [bind]; congr; funext b; exact ih b
  | rawBytes n k ih => simp only [bind]; congr; funext b; exact ih b

theorem replicateAcc_eq {α : Type} (p : Prog α) (n : Nat) (acc : List α) :
    replicateAcc p n acc = (replicateM n p).bind (fun as => pure (acc.reverse ++ as)) := by
  induction n generalizing acc with
  | zero => simp [replicateAcc, replicateM, bind]
  | succ n ih =>
    simp only [replicateAcc, replicateM, bind_assoc, ih]
    congr; funext a
    congr; funext as
    simp [bind]

theorem bind_pure_id {α : Type} (p : Prog α) : p.bind pure = p := by
  induction p with
  | pure a => rfl
  | fail => rfl
  | panic => rfl
  | read n k ih => simp only [bind]; congr; funext b; exact ih b
  | readByte k ih => simp only [bind]; congr; funext b; exact ih b
  | descend k ih => simp only [bind]; congr; funext b; exact ih b
  | ascend k ih => simp only [bind]; congr; funext b; exact ih b
  | alloc n k ih => simp only [bind]; congr; funext b; exact ih b
  | bulk sz c k ih => simp only [bind]; congr; funext b; exact ih b
  | rawBytes n k ih => simp only [bind]; congr; funext b; exact ih b

@[csimp] theorem replicateM_eq_fast : @replicateM = @replicateFast := by
  funext α n p
  simp only [replicateFast, replicateAcc_eq, List.reverse_nil, List.nil_append]
  exact (bind_pure_id _).symm

/-- Decode with each decoder of a list in turn (tuples, struct fields). -/
def sequence {α : Type} : List (Prog α) → Prog (List α)
  | [] => pure []
  | p :: ps => p.bind (fun a => (sequence ps).bind (fun as => pure (a :: as)))

def rd (n : Nat) : Prog Bytes := read n pure
def rdByte : Prog UInt8 := readByte pure
def desc : Prog Unit := descend pure
def asc : Prog Unit := ascend pure
def onAlloc (n : Nat) : Prog Unit := alloc n pure
def ofRes {α : Type} : Res α → Prog α
  | .ok a => pure a
  | .err => fail
  | .panic => panic

end Prog

/-- One implementation of the `Input` trait. -/
structure InputOps (σ : Type) where
  remainingLen : σ → Res (Option Nat) × σ
  read : Nat → σ → Res Bytes × σ
  readByte : σ → Res UInt8 × σ
  descend : σ → Res Unit × σ
  ascend : σ → σ
  onAlloc : Nat → σ → Res Unit × σ
  /-- `Some` on the one input that overrides `scale_internal_decode_bytes` (`BytesCursor`). -/
  rawBytes : Option (Nat → σ → Res Bytes × σ) := none

/-- `decode_vec_chunked` specialised to the closure of `read_vec_from_u8s`: per chunk one hook call
    and one read of the chunk's bytes. `fuel` bounds the number of chunks (each holds ≥ 1 item). -/
def chunkLoop {σ : Type} (I : InputOps σ) (elemSize chunkLen : Nat) :
    Nat → Nat → Bytes → σ → Res Bytes × σ
  | 0, _, acc, s => (.ok acc, s)
  | fuel+1, remaining, acc, s =>
    if remaining = 0 then (.ok acc, s) else
    let c := min chunkLen remaining
    match I.onAlloc (satMul c elemSize) s with
    | (.ok (), s1) =>
      match I.read (c * elemSize) s1 with
      | (.ok b, s2) => chunkLoop I elemSize chunkLen fuel (remaining - c) (acc ++ b) s2
      | (.err, s2) => (.err, s2)
      | (.panic, s2) => (.panic, s2)
    | (.err, s1) => (.err, s1)
    | (.panic, s1) => (.panic, s1)

/-- `read_vec_from_u8s` (`src/codec.rs`): overflow check, early rejection when the input knows its
    remaining length, then the chunked reads. `elemSize ≥ 1` on every call site (primitive types).
    `const { assert!(MAX_PREALLOCATION >= size_of::<T>()) }` in `decode_vec_chunked` is a
    compile-time failure; the model makes it an explicit `panic` outcome. -/
def runBulk {σ : Type} (I : InputOps σ) (elemSize count : Nat) (s : σ) : Res Bytes × σ :=
  if elemSize > maxPrealloc then (.panic, s) else
  let byteLen := count * elemSize
  if byteLen > usizeMax then (.err, s) else
  let chunkLen := if elemSize = 0 then usizeMax else maxPrealloc / elemSize
  match I.remainingLen s with
  | (.ok (some r), s1) =>
    if r < byteLen then (.err, s1) else chunkLoop I elemSize chunkLen count count [] s1
  | (.ok none, s1) => chunkLoop I elemSize chunkLen count count [] s1
  | (.err, s1) => (.err, s1)
  | (.panic, s1) => (.panic, s1)

def runRawBytes {σ : Type} (I : InputOps σ) (n : Nat) (s : σ) : Res Bytes × σ :=
  match I.rawBytes with
  | some f => f n s
  | none => runBulk I 1 n s

/-- Run a decoder program against an input implementation. -/
def run {σ α : Type} (I : InputOps σ) : Prog α → σ → Res α × σ
  | .pure a, s => (.ok a, s)
  | .fail, s => (.err, s)
  | .panic, s => (.panic, s)
  | .read n k, s =>
    match I.read n s with
    | (.ok b, s1) => run I (k b) s1
    | (.err, s1) => (.err, s1)
    | (.panic, s1) => (.panic, s1)
  | .readByte k, s =>
    match I.readByte s with
    | (.ok b, s1) => run I (k b) s1
    | (.err, s1) => (.err, s1)
    | (.panic, s1) => (.panic, s1)
  | .descend k, s =>
    match I.descend s with
    | (.ok u, s1) => run I (k u) s1
    | (.err, s1) => (.err, s1)
    | (.panic, s1) => (.panic, s1)
  | .ascend k, s => run I (k ()) (I.ascend s)
  | .alloc n k, s =>
    match I.onAlloc n s with
    | (.ok u, s1) => run I (k u) s1
    | (.err, s1) => (.err, s1)
    | (.panic, s1) => (.panic, s1)
  | .bulk sz c k, s =>
    match runBulk I sz c s with
    | (.ok b, s1) => run I (k b) s1
    | (.err, s1) => (.err, s1)
    | (.panic, s1) => (.panic, s1)
  | .rawBytes n k, s =>
    match runRawBytes I n s with
    | (.ok b, s1) => run I (k b) s1
    | (.err, s1) => (.err, s1)
    | (.panic, s1) => (.panic, s1)

/-! ## Input implementations -/

/-- Split off exactly `n` bytes (walks `n` cells only; `none` when fewer are available). -/
def takeExactAux : Nat → Bytes → Bytes → Option (Bytes × Bytes)
  | 0, s, acc => some (acc.reverse, s)
  | _+1, [], _ => none
  | n+1, b :: s, acc => takeExactAux n s (b :: acc)

def takeExact (n : Nat) (s : Bytes) : Option (Bytes × Bytes) := takeExactAux n s []

theorem takeExactAux_eq : ∀ (n : Nat) (s acc : Bytes),
    takeExactAux n s acc = if n > s.length then none else some (acc.reverse ++ s.take n, s.drop n)
  | 0, s, acc => by simp [takeExactAux]
  | n+1, [], acc => by simp [takeExactAux]
  | n+1, b :: s, acc => by
    simp only [takeExactAux, takeExactAux_eq n s (b :: acc), List.length_cons, List.reverse_cons,
      List.append_assoc, List.singleton_append, List.take_succ_cons, List.drop_succ_cons]
    by_cases h : n > s.length
    · have : n + 1 > s.length + 1 := by omega
      simp [h, this]
    · have : ¬ n + 1 > s.length + 1 := by omega
      simp [h, this]

theorem takeExact_eq (n : Nat) (s : Bytes) :
    takeExact n s = if n > s.length then none else some (s.take n, s.drop n) := by
  simp [takeExact, takeExactAux_eq]

/-- `read(&mut [u8; n])` on a slice: all `n` bytes or an error with the slice untouched. -/
def sliceRead (n : Nat) (s : Bytes) : Res Bytes × Bytes :=
  match takeExact n s with
  | some (a, r) => (.ok a, r)
  | none => (.err, s)

theorem sliceRead_eq (n : Nat) (s : Bytes) :
    sliceRead n s = if n > s.length then (.err, s) else (.ok (s.take n), s.drop n) := by
  unfold sliceRead
  rw [takeExact_eq]
  by_cases h : n > s.length
  · simp [h]
  · simp [h]

/-- `impl Input for &[u8]`. -/
def sliceInput : InputOps Bytes where
  remainingLen s := (.ok (some s.length), s)
  read n s := sliceRead n s
  -- default `read_byte`: `read(&mut [0u8; 1])`
  readByte s := match s with
    | [] => (.err, s)
    | b :: rest => (.ok b, rest)
  descend s := (.ok (), s)
  ascend s := s
  onAlloc _ s := (.ok (), s)

/-- An input that cannot report its remaining length and whose `read` is `read_exact` over a
    reader: on a short read the bytes that were available are consumed (`IoReader`). -/
def ioInput : InputOps Bytes where
  remainingLen s := (.ok none, s)
  read n s := match takeExact n s with
    | some (a, r) => (.ok a, r)
    | none => (.err, [])
  readByte s := match s with
    | [] => (.err, s)
    | b :: rest => (.ok b, rest)
  descend s := (.ok (), s)
  ascend s := s
  onAlloc _ s := (.ok (), s)

/-- `BytesCursor` of `decode_from_bytes`: a slice-like cursor plus the zero-copy override. -/
def bytesCursorInput : InputOps Bytes where
  remainingLen s := (.ok (some s.length), s)
  read n s := sliceRead n s
  readByte s := match s with
    | [] => (.err, s)
    | b :: rest => (.ok b, rest)
  descend s := (.ok (), s)
  ascend s := s
  onAlloc _ s := (.ok (), s)
  rawBytes := some sliceRead

/-- `BytesCursor` with its position arithmetic (`src/codec.rs`): the shared buffer is kept whole and
    a `position` runs over it; `read` copies `bytes[position .. position + n]`; the zero-copy hook
    `scale_internal_decode_bytes` first drops the consumed prefix (`Buf::advance`, `position = 0`),
    then checks the announced length against what is left and splits it off. -/
def cursorInput : InputOps (Bytes × Nat) where
  remainingLen s := (.ok (some (s.1.length - s.2)), s)
  read n s :=
    if n > s.1.length - s.2 then (.err, s)
    else (.ok ((s.1.drop s.2).take n), (s.1, s.2 + n))
  -- default `read_byte`: `read(&mut [0u8; 1])`
  readByte s :=
    match s.1.drop s.2 with
    | [] => (.err, s)
    | b :: _ => (.ok b, (s.1, s.2 + 1))
  descend s := (.ok (), s)
  ascend s := s
  onAlloc _ s := (.ok (), s)
  rawBytes := some fun n s =>
    let rest := s.1.drop s.2          -- `advance(position); position = 0`
    if n > rest.length then (.err, (rest, 0))
    else (.ok (rest.take n), (rest.drop n, 0))   -- `split_to(length)`

/-- `CountedInput` (`src/counted_input.rs`): state = inner state × counter (u64, saturating). -/
def countedInput {σ : Type} (I : InputOps σ) : InputOps (σ × Nat) where
  remainingLen s := let (r, s1) := I.remainingLen s.1; (r, (s1, s.2))
  read n s :=
    match I.read n s.1 with
    | (.ok b, s1) => (.ok b, (s1, min (s.2 + min n u64Max) u64Max))
    | (r, s1) => (r, (s1, s.2))
  readByte s :=
    match I.readByte s.1 with
    | (.ok b, s1) => (.ok b, (s1, min (s.2 + 1) u64Max))
    | (r, s1) => (r, (s1, s.2))
  descend s := let (r, s1) := I.descend s.1; (r, (s1, s.2))
  ascend s := (I.ascend s.1, s.2)
  onAlloc n s := let (r, s1) := I.onAlloc n s.1; (r, (s1, s.2))

/-- `DepthTrackingInput` (`src/depth_limit.rs`): state = inner × depth; the check is
    `depth += 1; if depth > max_depth { Err }`. -/
def depthInput {σ : Type} (maxDepth : Nat) (I : InputOps σ) : InputOps (σ × Nat) where
  remainingLen s := let (r, s1) := I.remainingLen s.1; (r, (s1, s.2))
  read n s := let (r, s1) := I.read n s.1; (r, (s1, s.2))
  readByte s := let (r, s1) := I.readByte s.1; (r, (s1, s.2))
  descend s :=
    match I.descend s.1 with
    | (.ok (), s1) => if s.2 + 1 > maxDepth then (.err, (s1, s.2 + 1)) else (.ok (), (s1, s.2 + 1))
    | (r, s1) => (r, (s1, s.2))
  ascend s := (I.ascend s.1, s.2 - 1)
  onAlloc n s := let (r, s1) := I.onAlloc n s.1; (r, (s1, s.2))

/-- `MemTrackingInput` (`src/mem_tracking.rs`): state = inner × used_mem; the check is
    `used = used.saturating_add(size); if used >= limit { Err }`. -/
def memInput {σ : Type} (limit : Nat) (I : InputOps σ) : InputOps (σ × Nat) where
  remainingLen s := let (r, s1) := I.remainingLen s.1; (r, (s1, s.2))
  read n s := let (r, s1) := I.read n s.1; (r, (s1, s.2))
  readByte s := let (r, s1) := I.readByte s.1; (r, (s1, s.2))
  descend s := let (r, s1) := I.descend s.1; (r, (s1, s.2))
  ascend s := (I.ascend s.1, s.2)
  onAlloc n s :=
    match I.onAlloc n s.1 with
    | (.ok (), s1) =>
      let used := satAdd s.2 n
      if used ≥ limit then (.err, (s1, used)) else (.ok (), (s1, used))
    | (r, s1) => (r, (s1, s.2))

end Scale
