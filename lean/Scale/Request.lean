/-
  Scale/Request.lean — where decoding *requests heap memory* (property C09).

  `Impl.decodeR` is the decoder of `Scale/Decode.lean` with the `alloc` operation reinterpreted as
  "bytes requested from the allocator by the crate's own code":

  * `decode_vec_chunked` — `reserve_exact(chunk_len)` right after the announcement of the same
    amount, so the `alloc` of `itemChunks` / of the bulk reader *is* the request (unchanged);
  * `Box::decode_wrapped` — `alloc(Layout::new::<T>())` right after the announcement (unchanged);
  * `LinkedList` / `BTreeSet` / `BTreeMap` — built by `from_iter` over a fallible iterator: nothing
    is reserved up front (the announcement of the *estimate* is not a request and is dropped here);
    one node is requested per element **after** that element has been decoded (`nodeItem`). For the
    trees the per-element charge is the descriptor's node size — an upper bound of what std's
    `BTreeMap` allocates per entry, not an exact figure.

  Nothing else in the decoders allocates (arrays, tuples, options, enums decode in place; the shared
  byte buffer's zero-copy path allocates nothing).

  `Proofs/Request.lean` shows (i) that `decodeR` and `decodeP` are the same program up to `alloc`
  nodes, hence return the same result from every input whose hooks are no-ops, and (ii) that the
  total requested is bounded by a linear function of the bytes *consumed* plus one preallocation
  allowance per level of sequence nesting — for every byte string, successful or not.
-/
import Scale.Decode
import Scale.Ghost
import Scale.Footprint
import Scale.HookTrace
namespace Scale
namespace Impl
open Prog

/-- One `from_iter` step: decode the element, then allocate its node. -/
def nodeItem (node : Nat) (item : Prog Val) : Prog Val :=
  item.bind fun v => .alloc node fun _ => .pure v

mutual
def decodeR : Ty → Prog Val
  | .unit => .pure .unit
  | .bool => .readByte fun b =>
      if b.toNat = 0 then .pure (.bool false) else if b.toNat = 1 then .pure (.bool true) else .fail
  | .optionBool => .readByte fun b =>
      if b.toNat = 0 then .pure .none
      else if b.toNat = 1 then .pure (.some (.bool true))
      else if b.toNat = 2 then .pure (.some (.bool false)) else .fail
  | .prim p => decodePrim p
  | .nonZero p => (decodePrim p).bind fun v => if primIsZero v then .fail else .pure v
  | .compact w => (compactDec w).bind fun n => .pure (.nat n)
  | .option t => .readByte fun b =>
      if b.toNat = 0 then .pure .none
      else if b.toNat = 1 then (decodeR t).bind fun v => .pure (.some v) else .fail
  | .result t e => .readByte fun b =>
      if b.toNat = 0 then (decodeR t).bind fun v => .pure (.ok v)
      else if b.toNat = 1 then (decodeR e).bind fun v => .pure (.err v) else .fail
  | .tuple ts => (decodeListR ts).bind fun vs => .pure (.seq vs)
  | .array n t =>
      match t with
      | .prim p => .read (n * p.size) fun bs => .pure (.seq (primElems p n bs))
      | _ => (replicateM n (decodeR t)).bind fun vs => .pure (.seq vs)
  | .garray n t => (replicateM n (decodeR t)).bind fun vs => .pure (.seq vs)
  | .seq k sz t =>
      (compactDec 4).bind fun len =>
        match k with
        | .vec | .deque =>
          (decodeVecWithLen sz t (decodeR t) len).bind fun vs => .pure (.seq vs)
        | .heap =>
          (decodeVecWithLen sz t (decodeR t) len).bind fun vs => .pure (.seq (sortVals Val.cmp vs))
        | .list =>
          .descend fun _ =>
            (replicateM len (nodeItem sz (decodeR t))).bind fun vs => .ascend fun _ => .pure (.seq vs)
        | .bset =>
          .descend fun _ =>
            (replicateM len (nodeItem sz (decodeR t))).bind fun vs =>
              .ascend fun _ => .pure (.seq (fromIter Val.cmp id vs))
        | .bmap =>
          .descend fun _ =>
            (replicateM len (nodeItem sz (decodeR t))).bind fun vs =>
              .ascend fun _ => .pure (.seq (fromIter Val.cmp entryKey vs))
  | .str =>
      (compactDec 4).bind fun len =>
        .bulk 1 len fun bs => if utf8Valid bs then .pure (.bytes bs) else .fail
  | .bytes => (compactDec 4).bind fun len => .rawBytes len fun bs => .pure (.bytes bs)
  | .box sz t =>
      .descend fun _ => .alloc sz fun _ => (decodeR t).bind fun v => .ascend fun _ => .pure v
  | .wrap t =>
      .descend fun _ => (decodeR t).bind fun v => .ascend fun _ => .pure v
  | .duration =>
      .read 8 fun s => .read 4 fun n =>
        if fromLe n ≥ 1000000000 then .fail else .pure (.seq [.nat (fromLe s), .nat (fromLe n)])
  | .range t => (decodeR t).bind fun a => (decodeR t).bind fun b => .pure (.seq [a, b])
  | .bitseq store msb =>
      (compactDec 4).bind fun bits =>
        if bits > maxBits then .fail else
        let w := 8 * store.size
        .bulk store.size (elts w bits) fun bs =>
          let all := ((chunksOf store.size (elts w bits) bs).map fun e => elemToBits w msb (fromLe e)).flatten
          if bits ≤ all.length then .pure (.bits (all.take bits)) else .panic
  | .enum idxs ts => .readByte fun b => decodeVariantR idxs ts b.toNat
termination_by structural t => t

def decodeListR : List Ty → Prog (List Val)
  | [] => .pure []
  | t :: ts => (decodeR t).bind fun v => (decodeListR ts).bind fun vs => .pure (v :: vs)
termination_by structural ts => ts

def decodeVariantR : List Nat → List Ty → Nat → Prog Val
  | i :: is, t :: ts, b =>
    if i % 256 = b then (decodeR t).bind fun v => .pure (.variant i v) else decodeVariantR is ts b
  | _, _, _ => .fail
termination_by structural _ ts => ts
end

end Impl

/-! ### static quantities of the request bound -/

/-- Requested heap bytes per input byte consumed. -/
def reqRatio : Ty → Nat
  | .option t => reqRatio t
  | .result t e => reqRatio t + reqRatio e
  | .tuple ts => ratioList ts
  | .array _ t => reqRatio t
  | .garray _ t => reqRatio t
  | .seq k sz t =>
    (match k with
      | .vec | .deque | .heap => elemSize sz t
      | _ => sz) + baseMem t + reqRatio t
  | .str => 1
  | .bytes => 1
  | .box _ t => reqRatio t
  | .wrap t => reqRatio t
  | .range t => reqRatio t
  | .bitseq _ _ => 1
  | .enum _ ts => ratioList ts
  | _ => 0
where
  ratioList : List Ty → Nat
    | [] => 0
    | t :: ts => reqRatio t + ratioList ts

/-- The preallocation allowance: `MAX_PREALLOCATION` (plus the fixed pointees of one element) per
    level of sequence nesting — what a decode that *fails* may have requested ahead of the data. -/
def reqAllow : Ty → Nat
  | .option t => reqAllow t
  | .result t e => max (reqAllow t) (reqAllow e)
  | .tuple ts => allowList ts
  | .array _ t => reqAllow t
  | .garray _ t => reqAllow t
  | .seq _ _ t => maxPrealloc + baseMem t + reqAllow t
  | .str => maxPrealloc
  | .bytes => maxPrealloc
  | .box _ t => reqAllow t
  | .wrap t => reqAllow t
  | .range t => reqAllow t
  | .bitseq _ _ => maxPrealloc
  | .enum _ ts => allowList ts
  | _ => 0
where
  allowList : List Ty → Nat
    | [] => 0
    | t :: ts => max (reqAllow t) (allowList ts)

/-- The largest single request a decoder of the type can make: one chunk, or one boxed pointee /
    list node. -/
def reqMaxOne : Ty → Nat
  | .option t => reqMaxOne t
  | .result t e => max (reqMaxOne t) (reqMaxOne e)
  | .tuple ts => maxList ts
  | .array _ t => reqMaxOne t
  | .garray _ t => reqMaxOne t
  | .seq k sz t =>
    match k with
    | .vec | .deque | .heap => max maxPrealloc (reqMaxOne t)
    | _ => max sz (reqMaxOne t)
  | .str => maxPrealloc
  | .bytes => maxPrealloc
  | .box sz t => max sz (reqMaxOne t)
  | .wrap t => reqMaxOne t
  | .range t => reqMaxOne t
  | .bitseq _ _ => maxPrealloc
  | .enum _ ts => maxList ts
  | _ => 0
where
  maxList : List Ty → Nat
    | [] => 0
    | t :: ts => max (reqMaxOne t) (maxList ts)

/-- The request sizes in a hook trace. -/
def allocsOf (tr : List Hook) : List Nat :=
  tr.filterMap fun
    | .alloc n => some n
    | _ => none

/-- A recorder of request sizes only, newest first (constant time per request; the driver runs this
    one — `requestsFast_eq` in `Proofs/Request.lean` shows it computes `requestsOn`). -/
def reqRec {σ : Type} (I : InputOps σ) : InputOps (σ × List Nat) where
  remainingLen s := let (r, s1) := I.remainingLen s.1; (r, (s1, s.2))
  read n s := let (r, s1) := I.read n s.1; (r, (s1, s.2))
  readByte s := let (r, s1) := I.readByte s.1; (r, (s1, s.2))
  descend s := let (r, s1) := I.descend s.1; (r, (s1, s.2))
  ascend s := (I.ascend s.1, s.2)
  onAlloc n s :=
    match I.onAlloc n s.1 with
    | (.ok (), s1) => (.ok (), (s1, n :: s.2))
    | (r, s1) => (r, (s1, s.2))

/-- Result, rest and requests (in order) of decoding `bs` over `I`, by the fast recorder. -/
def requestsFast (I : InputOps Bytes) (ty : Ty) (bs : Bytes) : Res Val × Bytes × List Nat :=
  let r := run (reqRec I) (Impl.decodeR ty) (bs, [])
  (r.1, r.2.1, r.2.2.reverse)

/-- The requests (sizes, in order) the decode of `bs` makes over input implementation `I`. -/
def requestsOn (I : InputOps Bytes) (ty : Ty) (bs : Bytes) : List Nat :=
  allocsOf (run (traceRec I) (Impl.decodeR ty) (bs, [])).2.2

end Scale
