/-
  Scale/Wf.lean — which values inhabit which type (`wf`), i.e. the values the Rust type can hold
  and the format can represent: integer ranges, array lengths, non-zero, nanoseconds < 10^9, valid
  UTF-8, element counts < 2^32, bit counts < 2^29, declared variant indices.
-/
import Scale.Ty
namespace Scale

def widthOk (w : Nat) : Bool := w == 1 || w == 2 || w == 4 || w == 8 || w == 16

def storeOk : Prim → Bool
  | .u8 | .u16 | .u32 | .u64 => true
  | _ => false

mutual
def wf : Ty → Val → Bool
  | .unit, .unit => true
  | .bool, .bool _ => true
  | .optionBool, .none => true
  | .optionBool, .some (.bool _) => true
  | .prim p, v => primWf p v
  | .nonZero p, v => primWf p v && !primIsZero v
  | .compact w, .nat n => widthOk w && n < 2 ^ (8 * w)
  | .option _, .none => true
  | .option t, .some v => wf t v
  | .result t _, .ok v => wf t v
  | .result _ e, .err v => wf e v
  | .tuple ts, .seq vs => wfList ts vs
  | .array n t, .seq vs => vs.length == n && vs.all (wf t)
  | .garray n t, .seq vs => vs.length == n && vs.all (wf t)
  | .seq _ _ t, .seq vs => vs.length ≤ u32Max && vs.all (wf t)
  | .str, .bytes bs => bs.length ≤ u32Max && utf8Valid bs
  | .bytes, .bytes bs => bs.length ≤ u32Max
  | .box _ t, v => wf t v
  | .wrap t, v => wf t v
  | .duration, .seq [.nat secs, .nat nanos] => secs < 2 ^ 64 && nanos < 1000000000
  | .range t, .seq [a, b] => wf t a && wf t b
  | .bitseq store _, .bits bs => storeOk store && bs.length ≤ maxBits
  | .enum idxs ts, .variant idx v => wfVariant idxs ts idx v
  | _, _ => false
termination_by structural t => t

def wfList : List Ty → List Val → Bool
  | [], [] => true
  | t :: ts, v :: vs => wf t v && wfList ts vs
  | _, _ => false
termination_by structural ts => ts

/-- `idx` is a declared index and `v` inhabits the payload of the first variant carrying it; the
    indices passed over fit a byte (the derive's compile-time check). -/
def wfVariant : List Nat → List Ty → Nat → Val → Bool
  | i :: is, t :: ts, idx, v => i < 256 && (if i = idx then wf t v else wfVariant is ts idx v)
  | _, _, _, _ => false
termination_by structural _ ts => ts
end

end Scale
