/-
  Scale/Encode.lean — the encoder: `Spec.encode` (the SCALE specification, total, no failure
  modes) and `Impl.encodeTo` (what `Encode::encode_to` in `src/codec.rs`, `src/compact.rs`,
  `src/bit_vec.rs`, `src/generic_array.rs` and the derive do, with the explicit panic sites).
-/
import Scale.Ty
import Scale.Compact
namespace Scale

namespace Spec

mutual
/-- The SCALE encoding of value `v` at type `ty`. Ill-typed pairs encode to `[]` (never used:
    every theorem carries `wf`). -/
def encode : Ty → Val → Bytes
  | .unit, _ => []
  | .bool, .bool b => [if b then 1 else 0]
  | .optionBool, .none => [0]
  | .optionBool, .some (.bool true) => [1]
  | .optionBool, .some (.bool false) => [2]
  | .prim p, v => primBytes p v
  | .nonZero p, v => primBytes p v
  | .compact _, .nat n => compact n
  | .option _, .none => [0]
  | .option t, .some v => 1 :: encode t v
  | .result t _, .ok v => 0 :: encode t v
  | .result _ e, .err v => 1 :: encode e v
  | .tuple ts, .seq vs => encodeList ts vs
  | .array _ t, .seq vs => (vs.map (encode t)).flatten
  | .garray _ t, .seq vs => (vs.map (encode t)).flatten
  | .seq _ _ t, .seq vs => compact vs.length ++ (vs.map (encode t)).flatten
  | .str, .bytes bs => compact bs.length ++ bs
  | .bytes, .bytes bs => compact bs.length ++ bs
  | .box _ t, v => encode t v
  | .wrap t, v => encode t v
  | .duration, .seq [.nat secs, .nat nanos] => leBytes 8 secs ++ leBytes 4 nanos
  | .range t, .seq [a, b] => encode t a ++ encode t b
  | .bitseq store msb, .bits bs =>
    compact bs.length ++
      ((bitChunks (8 * store.size) bs.length bs).map fun c =>
        leBytes store.size (bitsToElem (8 * store.size) msb 0 c)).flatten
  | .enum idxs ts, .variant idx v => encodeVariant idxs ts idx v
  | _, _ => []
termination_by structural t => t

/-- Plain concatenation of the components (tuples, struct fields, variant payloads). -/
def encodeList : List Ty → List Val → Bytes
  | t :: ts, v :: vs => encode t v ++ encodeList ts vs
  | _, _ => []
termination_by structural ts => ts

/-- One index byte followed by the payload of the first variant carrying that index. -/
def encodeVariant : List Nat → List Ty → Nat → Val → Bytes
  | i :: is, t :: ts, idx, v =>
    if i = idx then UInt8.ofNat i :: encode t v else encodeVariant is ts idx v
  | _, _, _, _ => []
termination_by structural _ ts => ts
end

end Spec

namespace Impl

/-- Concatenate the results of a sequence of `encode_to` calls on the same sink; the first panic
    wins (nothing after it runs). -/
def resConcat : List (Res Bytes) → Res Bytes
  | [] => .ok []
  | r :: rs =>
    match r with
    | .ok b => (resConcat rs).map (b ++ ·)
    | .err => .err
    | .panic => .panic

/-- `compact_encode_len_to(dest, len).expect("Compact encodes length")`. -/
def encodeLen (len : Nat) : Res Bytes :=
  if len > u32Max then .panic else compactEncodeTo 4 len

/-- The bulk arm of `encode_slice_no_len` for the twelve primitive element types: one `write` of
    the slice's memory, which on a little-endian target is the concatenation of the elements'
    `to_le_bytes`. -/
def bulkBytes (p : Prim) (vs : List Val) : Bytes := (vs.map (primBytes p)).flatten

/-- `encode_slice_no_len::<T>` given `T::encode_to`: the bulk arm for primitive element types
    (`TYPE_INFO ≠ Unknown`), element by element otherwise. -/
def sliceNoLen (t : Ty) (enc : Val → Res Bytes) (vs : List Val) : Res Bytes :=
  match t with
  | .prim p => .ok (bulkBytes p vs)
  | _ => resConcat (vs.map enc)

mutual
/-- `Encode::encode_to` (bytes written to the sink, or a panic). -/
def encodeTo : Ty → Val → Res Bytes
  | .unit, _ => .ok []
  | .bool, .bool b => .ok [if b then 1 else 0]
  | .optionBool, .none => .ok [0]
  | .optionBool, .some (.bool true) => .ok [1]
  | .optionBool, .some (.bool false) => .ok [2]
  | .prim p, v => .ok (primBytes p v)
  | .nonZero p, v => .ok (primBytes p v)           -- `self.get().encode_to(dest)`
  | .compact w, .nat n => compactEncodeTo w n
  | .option _, .none => .ok [0]
  | .option t, .some v => (encodeTo t v).map (1 :: ·)
  | .result t _, .ok v => (encodeTo t v).map (0 :: ·)
  | .result _ e, .err v => (encodeTo e v).map (1 :: ·)
  | .tuple ts, .seq vs => encodeToList ts vs
  | .array _ t, .seq vs => sliceNoLen t (encodeTo t) vs
  | .garray _ t, .seq vs => resConcat (vs.map (encodeTo t))      -- `for item in self.iter()`
  | .seq k _ t, .seq vs =>
    (encodeLen vs.length).bind fun l =>
      (match k with
        | .vec | .deque => sliceNoLen t (encodeTo t) vs
        | _ => resConcat (vs.map (encodeTo t))).map (l ++ ·)
  | .str, .bytes bs => (encodeLen bs.length).map (· ++ bs)        -- `self.as_bytes().encode_to`
  | .bytes, .bytes bs => (encodeLen bs.length).map (· ++ bs)
  | .box _ t, v => encodeTo t v
  | .wrap t, v => encodeTo t v
  | .duration, .seq [.nat secs, .nat nanos] => .ok (leBytes 8 secs ++ leBytes 4 nanos)
  | .range t, .seq [a, b] => (encodeTo t a).bind fun x => (encodeTo t b).map (x ++ ·)
  | .bitseq store msb, .bits bs =>
    if bs.length > maxBits then .panic else
    (compactEncodeTo 4 bs.length).map fun l =>
      l ++ ((bitChunks (8 * store.size) bs.length bs).map fun c =>
        leBytes store.size (bitsToElem (8 * store.size) msb 0 c)).flatten
  | .enum idxs ts, .variant idx v => encodeToVariant idxs ts idx v
  | .enum _ _, .skipped => .ok []                  -- `_ => ()`
  | _, _ => .ok []
termination_by structural t => t

def encodeToList : List Ty → List Val → Res Bytes
  | t :: ts, v :: vs => (encodeTo t v).bind fun x => (encodeToList ts vs).map (x ++ ·)
  | _, _ => .ok []
termination_by structural ts => ts

/-- `dest.push_byte(index as u8)` then the fields, for the first arm whose pattern matches. -/
def encodeToVariant : List Nat → List Ty → Nat → Val → Res Bytes
  | i :: is, t :: ts, idx, v =>
    if i = idx then (encodeTo t v).map (UInt8.ofNat (i % 256) :: ·) else encodeToVariant is ts idx v
  | _, _, _, _ => .ok []
termination_by structural _ ts => ts
end

/-- `VecDeque::encode_to` from a particular ring-buffer state: the two slices of `as_slices()`. -/
def encodeDeque (t : Ty) (front back : List Val) : Res Bytes :=
  (encodeLen (front.length + back.length)).bind fun l =>
    (sliceNoLen t (encodeTo t) front).bind fun a =>
      (sliceNoLen t (encodeTo t) back).map fun b => l ++ a ++ b

end Impl

end Scale
