/-
  Scale/Append.lean — `EncodeAppend::append_or_new` (`src/encode_append.rs`, `append_or_new_impl`).
  The items are given by their encodings (the code never looks inside the existing payload or
  the items: it calls `encode_to` on each item after fixing up the count prefix).
-/
import Scale.Compact
namespace Scale
namespace Impl

/-- `append_or_new_impl(self_encoded, iter)` where `iter.len() = m` and the concatenated encodings
    of the items the iterator yields are `itemBytes`. -/
def appendOrNewN (vec : Bytes) (m : Nat) (itemBytes : Bytes) : Res Bytes :=
  if vec.isEmpty then
    -- `compact_encode_len_to(&mut vec, items_to_append)?`
    if m > u32Max then .err else (compactEncodeTo 4 m).map (· ++ itemBytes)
  else
    match compactDecode 4 vec with
    | (.ok n, _) =>
      -- `u32::try_from(items_to_append).ok().and_then(|n| old.checked_add(n)).ok_or(..)?`
      if m > u32Max ∨ n + m > u32Max then .err else
      let newCount := n + m
      let oldSize := compactLen 4 n
      let newSize := compactLen 4 newCount
      if oldSize = newSize then
        -- `vec[..old].copy_from_slice(length_encoded)`: panics unless the lengths agree
        match compactUsingEncoded 4 newCount with
        | .ok l => if l.length = oldSize ∧ oldSize ≤ vec.length then .ok (l ++ vec.drop oldSize ++ itemBytes) else .panic
        | r => r
      else
        -- `vec.len().checked_mul(2).ok_or(..)?`, then a fresh buffer
        if vec.length * 2 > usizeMax then .err else
        if oldSize > vec.length then .panic else
        (compactEncodeTo 4 newCount).map (· ++ vec.drop oldSize ++ itemBytes)
    | (.err, _) => .err
    | (.panic, _) => .panic

/-- With a well-behaved iterator: `len()` is the number of items. -/
def appendOrNew (vec : Bytes) (items : List Bytes) : Res Bytes := appendOrNewN vec items.length items.flatten

end Impl
end Scale
