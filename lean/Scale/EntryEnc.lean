/-
  Scale/EntryEnc.lean — the four encoding entry points of the `Encode` trait.

  The trait's default methods are defined in terms of each other
  (`encode_to → using_encoded → encode → encode_to`, `encoded_size → encode_to`), so an impl that
  overrides none of the three never terminates. `overrides` records which of them each impl in
  `src/codec.rs`, `src/compact.rs`, `src/bit_vec.rs`, `src/generic_array.rs` and the derive
  overrides (impls that forward all methods to a component are resolved through it).
-/
import Scale.Encode
namespace Scale
namespace Impl

structure Overrides where
  encodeTo : Bool
  encode : Bool
  usingEncoded : Bool
  deriving Repr, DecidableEq

inductive Method where
  | encodeTo | encode | usingEncoded | encodedSize
  deriving Repr, DecidableEq

/-- Does a call of method `m` reach an overridden method within `fuel` default hops? -/
def resolves (o : Overrides) : Nat → Method → Bool
  | 0, _ => false
  | f + 1, .encodeTo => o.encodeTo || resolves o f .usingEncoded
  | f + 1, .usingEncoded => o.usingEncoded || resolves o f .encode
  | f + 1, .encode => o.encode || resolves o f .encodeTo
  | f + 1, .encodedSize => resolves o f .encodeTo

/-- The override set of each impl; `none`: the impl forwards every method to the component the
    recursion in `entryTerminates` follows (`NonZero*`, `(T,)` and single-field structs, `Box` /
    `Rc` / `Arc` / `&T` / `Cow`). -/
def overrides : Ty → Option Overrides
  | .unit => some ⟨true, false, false⟩          -- `()`, `PhantomData`, `CompactRef<()>`: all override `encode_to`
  | .bool | .optionBool | .prim _ => some ⟨false, false, true⟩
  | .nonZero _ => none
  | .compact _ => some ⟨true, false, true⟩      -- `CompactRef<uN>`: `encode_to` and the `ArrayVec` `using_encoded`
  | .option _ | .result _ _ => some ⟨true, false, false⟩
  | .tuple [_] => none
  | .tuple _ => some ⟨true, false, false⟩
  | .array _ _ | .garray _ _ | .seq _ _ _ | .bitseq _ _ => some ⟨true, false, false⟩
  | .str | .bytes => some ⟨true, false, false⟩   -- forwarded to `[u8]`, which overrides `encode_to`
  | .box _ _ => none
  | .wrap _ => none
  | .duration | .range _ => some ⟨false, true, false⟩   -- only `encode` (and `size_hint`)
  | .enum _ _ => some ⟨true, false, false⟩       -- also when no variant is encodable (after the fix)

/-- Every entry point of the impl for `ty` terminates. -/
def entryTerminates : Ty → Bool
  | .nonZero _ => true                           -- forwards to the primitive, which overrides `using_encoded`
  | .tuple [t] => entryTerminates t
  | .box _ t => entryTerminates t
  | .wrap t => entryTerminates t
  | ty =>
    match overrides ty with
    | some o => resolves o 4 .encodeTo && resolves o 4 .encode && resolves o 4 .usingEncoded &&
        resolves o 4 .encodedSize
    | none => false

/-- `Encode::encode`: an owned vector, collected from `encode_to` (or the impl's own `encode`). -/
def encode (ty : Ty) (v : Val) : Res Bytes := encodeTo ty v

/-- `Encode::using_encoded(|b| b.to_vec())`. Compact integers go through a fixed-capacity buffer;
    forwarding impls forward; everything else is the default `f(&self.encode())`. -/
def usingEncoded : Ty → Val → Res Bytes
  | .compact w, .nat n => compactUsingEncoded w n
  | .tuple [t], .seq [v] => usingEncoded t v
  | .box _ t, v => usingEncoded t v
  | .wrap t, v => usingEncoded t v
  | ty, v => encode ty v

/-- `Encode::encoded_size`: `encode_to` into a sink that only counts. -/
def encodedSize (ty : Ty) (v : Val) : Res Nat := (encodeTo ty v).map List.length

/-- `Joiner::and` (`src/joiner.rs`): `value.using_encoded(|s| self.extend(s))` on a byte vector. -/
def joinerAnd (acc : Bytes) (ty : Ty) (v : Val) : Res Bytes := (usingEncoded ty v).map fun s => acc ++ s

/-- `KeyedVec::to_keyed_vec` (`src/keyedvec.rs`): the key, then the bytes `using_encoded` hands out. -/
def toKeyedVec (key : Bytes) (ty : Ty) (v : Val) : Res Bytes := (usingEncoded ty v).map fun s => key ++ s

/-- An output sink, abstractly: a state, what `write` does to it, and the byte string it has
    observed so far. -/
structure Sink (σ : Type) where
  write : σ → Bytes → σ
  view : σ → Bytes

/-- A sink whose `write` appends (a `Vec<u8>`, an `io::Write` driven by `write_all`, a
    `&mut dyn Output`, the counting `SizeTracker` seen through its length). -/
def Sink.Appending {σ : Type} (k : Sink σ) : Prop := ∀ s b, k.view (k.write s b) = k.view s ++ b

end Impl
end Scale
