/-
  Scale/Ty.lean — the universe of modelled types and values.

  `Ty` has one node per *wire-relevant* Rust type constructor. Constructors that are
  indistinguishable on the wire **and** in the calls they issue on `Input` share a node:
  `unit` stands for `()`, `PhantomData<T>` and `Compact<()>`; `box` for `Box/Rc/Arc`; `range` for
  `Range/RangeInclusive`; `tuple` for tuples and for derived structs (their non-skipped fields in
  their selected representation). Pure holders (`&T`, `&mut T`, `Cow`, `Ref`) are the held type.
  Recursive derived types are represented by finite unfoldings (the harness unfolds deeper than
  the input is long; every level of a productive type consumes at least one byte).

  Memory-layout numbers (`size_of`) are parameters carried in the descriptor (`sz`), measured by
  the harness in the same build; the model never computes a layout.
-/
import Scale.Basic
namespace Scale

/-- The twelve element types with `TypeInfo ≠ Unknown` (bulk paths). -/
inductive Prim where
  | u8 | i8 | u16 | i16 | u32 | i32 | u64 | i64 | u128 | i128 | f32 | f64
  deriving DecidableEq, Repr, Inhabited

namespace Prim
def size : Prim → Nat
  | u8 | i8 => 1
  | u16 | i16 => 2
  | u32 | i32 | f32 => 4
  | u64 | i64 | f64 => 8
  | u128 | i128 => 16

def signed : Prim → Bool
  | i8 | i16 | i32 | i64 | i128 => true
  | _ => false

def isFloat : Prim → Bool
  | f32 | f64 => true
  | _ => false
end Prim

/-- Count-prefixed collections. `bmap`'s element type is the pair `tuple [k, v]`. -/
inductive SeqKind where
  | vec | deque | heap | list | bset | bmap
  deriving DecidableEq, Repr, Inhabited

inductive Ty where
  | unit
  | bool
  | optionBool
  | prim (p : Prim)
  | nonZero (p : Prim)
  /-- `Compact<uW>` (and `Compact<T: CompactAs>` over it); `w` in bytes. -/
  | compact (w : Nat)
  | option (t : Ty)
  | result (t e : Ty)
  | tuple (ts : List Ty)
  | array (n : Nat) (t : Ty)
  | garray (n : Nat) (t : Ty)
  /-- `sz`: the size the decoder reports to `on_before_alloc_mem` per element
      (`size_of::<T>()` for vec/deque/heap, `size_of::<(usize,usize,T)>()` for list, the b-tree
      leaf-node size for sets and maps). -/
  | seq (k : SeqKind) (sz : Nat) (t : Ty)
  | str
  | bytes
  /-- `Box<T>`/`Rc<T>`/`Arc<T>` with `size_of::<T>() = sz`. -/
  | box (sz : Nat) (t : Ty)
  /-- A user-defined wrapper type relying on the PROVIDED `WrapperTypeDecode::decode_wrapped`
      (`descend_ref`, decode the wrapped type, `ascend_ref`, `into`) and on `WrapperTypeEncode`:
      a nesting level, no heap announcement. -/
  | wrap (t : Ty)
  | duration
  | range (t : Ty)
  /-- `BitVec<T, O>`/`BitBox`/`BitSlice`: store type and bit order (`msb = true` for `Msb0`). -/
  | bitseq (store : Prim) (msb : Bool)
  /-- Derived enum: variant indices (as written on the wire) and payload types, in match order.
      Skipped variants are not listed. -/
  | enum (idxs : List Nat) (ts : List Ty)
  deriving Repr, Inhabited

inductive Val where
  | unit
  | bool (b : Bool)
  | nat (n : Nat)
  | int (i : Int)
  | none
  | some (v : Val)
  | ok (v : Val)
  | err (v : Val)
  | seq (vs : List Val)
  | bytes (bs : Bytes)
  | bits (bs : List Bool)
  | variant (idx : Nat) (v : Val)
  /-- A value of a derived enum sitting in a `#[codec(skip)]` variant. -/
  | skipped
  deriving Repr, Inhabited

/-! ### UTF-8 validity (the contract of `String::from_utf8`) -/

def isCont (b : UInt8) : Bool := 0x80 ≤ b.toNat && b.toNat ≤ 0xBF

def utf8Valid : Bytes → Bool
  | [] => true
  | b0 :: rest =>
    let n := b0.toNat
    if n ≤ 0x7F then utf8Valid rest
    else if 0xC2 ≤ n && n ≤ 0xDF then
      match rest with
      | b1 :: r => isCont b1 && utf8Valid r
      | _ => false
    else if 0xE0 ≤ n && n ≤ 0xEF then
      match rest with
      | b1 :: b2 :: r =>
        let lo := if n = 0xE0 then 0xA0 else 0x80
        let hi := if n = 0xED then 0x9F else 0xBF
        lo ≤ b1.toNat && b1.toNat ≤ hi && isCont b2 && utf8Valid r
      | _ => false
    else if 0xF0 ≤ n && n ≤ 0xF4 then
      match rest with
      | b1 :: b2 :: b3 :: r =>
        let lo := if n = 0xF0 then 0x90 else 0x80
        let hi := if n = 0xF4 then 0x8F else 0xBF
        lo ≤ b1.toNat && b1.toNat ≤ hi && isCont b2 && isCont b3 && utf8Valid r
      | _ => false
    else false

/-! ### Primitive values -/

/-- Is `v` a value of primitive `p`? Unsigned and float (bit pattern): `nat`; signed: `int`. -/
def primWf (p : Prim) (v : Val) : Bool :=
  match v with
  | .nat n => !p.signed && n < 2 ^ (8 * p.size)
  | .int i => p.signed && (-(2 ^ (8 * p.size - 1) : Nat) ≤ i) && (i < (2 ^ (8 * p.size - 1) : Nat))
  | _ => false

/-- `to_le_bytes`. -/
def primBytes (p : Prim) (v : Val) : Bytes :=
  match v with
  | .nat n => leBytes p.size n
  | .int i => leBytes p.size (toTwos p.size i)
  | _ => []

/-- `from_le_bytes`. -/
def primVal (p : Prim) (bs : Bytes) : Val :=
  if p.signed then .int (fromTwos p.size (fromLe bs)) else .nat (fromLe bs)

def primIsZero (v : Val) : Bool :=
  match v with
  | .nat n => n == 0
  | .int i => i == 0
  | _ => false

/-- Split a byte string into consecutive `size`-byte elements (`n` of them). -/
def chunksOf (size : Nat) : Nat → Bytes → List Bytes
  | 0, _ => []
  | n+1, bs => bs.take size :: chunksOf size n (bs.drop size)

/-! ### Bit sequences -/

/-- Value of one storage element holding the (at most `w`) bits `bs`, zero padded:
    `Lsb0` puts bit `i` at position `i`, `Msb0` at position `w-1-i`. -/
def bitsToElem (w : Nat) (msb : Bool) : Nat → List Bool → Nat
  | _, [] => 0
  | i, b :: bs =>
    (if b then 2 ^ (if msb then w - 1 - i else i) else 0) ||| bitsToElem w msb (i + 1) bs

/-- The `w` bits of one storage element, in sequence order. -/
def elemToBits (w : Nat) (msb : Bool) (e : Nat) : List Bool :=
  (List.range w).map fun i => e.testBit (if msb then w - 1 - i else i)

/-- Chunk a bit list into elements of `w` bits (fuel-bounded; `w ≥ 8` on every call site). -/
def bitChunks (w : Nat) : Nat → List Bool → List (List Bool)
  | 0, _ => []
  | fuel+1, bs => if bs.isEmpty then [] else bs.take w :: bitChunks w fuel (bs.drop w)

/-- `ARCH32BIT_BITSLICE_MAX_BITS`. -/
def maxBits : Nat := 0x1fffffff

end Scale
