/-
  Scale/Mel.lean — `MaxEncodedLen::max_encoded_len()` and `ConstEncodedLen` for the built-in impls
  (`src/max_encoded_len.rs`, `src/const_encoded_len.rs`) and for the derive
  (`derive/src/max_encoded_len.rs`: saturating sum over the non-skipped fields *in the type they are
  encoded as*; for enums the maximum over the non-skipped variants plus one).
-/
import Scale.Ty
namespace Scale
namespace Impl

/-- Which modelled types implement `MaxEncodedLen` (structurally; for derived types the derive must
    also have been requested). -/
def hasMel : Ty → Bool
  | .unit | .bool | .prim _ | .nonZero _ | .duration => true
  | .compact w => w == 1 || w == 2 || w == 4 || w == 8 || w == 16
  | .option t => hasMel t
  | .result t e => hasMel t && hasMel e
  | .tuple ts => hasMelList ts
  | .array _ t => hasMel t
  | .box _ t => hasMel t
  | .range t => hasMel t
  | .enum _ ts => hasMelList ts
  | _ => false
where
  hasMelList : List Ty → Bool
    | [] => true
    | t :: ts => hasMel t && hasMelList ts

def compactMel (w : Nat) : Nat :=
  match w with
  | 1 => 2 | 2 => 4 | 4 => 5 | 8 => 9 | 16 => 17 | _ => 0

/-- `max_encoded_len()` as the code computes it (saturating `usize` arithmetic). -/
def mel : Ty → Nat
  | .unit => 0
  | .bool => 1
  | .prim p => p.size
  | .nonZero p => p.size
  | .compact w => compactMel w
  | .option t => satAdd (mel t) 1
  | .result t e => satAdd (max (mel t) (mel e)) 1
  | .tuple ts => melSum ts
  | .array n t => satMul (mel t) n
  | .box _ t => mel t
  | .duration => 12
  | .range t => satMul (mel t) 2
  | .enum _ ts => satAdd (melMax ts) 1
  | _ => 0
where
  /-- `0_usize.saturating_add(f1).saturating_add(f2)…` -/
  melSum : List Ty → Nat
    | [] => 0
    | t :: ts => satAdd (mel t) (melSum ts)
  /-- `0_usize.max(v1).max(v2)…` -/
  melMax : List Ty → Nat
    | [] => 0
    | t :: ts => max (mel t) (melMax ts)

/-- The mathematical maximum (no saturation). -/
def melNat : Ty → Nat
  | .unit => 0
  | .bool => 1
  | .prim p => p.size
  | .nonZero p => p.size
  | .compact w => compactMel w
  | .option t => melNat t + 1
  | .result t e => max (melNat t) (melNat e) + 1
  | .tuple ts => melNatSum ts
  | .array n t => melNat t * n
  | .box _ t => melNat t
  | .duration => 12
  | .range t => melNat t * 2
  | .enum _ ts => melNatMax ts + 1
  | _ => 0
where
  melNatSum : List Ty → Nat
    | [] => 0
    | t :: ts => melNat t + melNatSum ts
  melNatMax : List Ty → Nat
    | [] => 0
    | t :: ts => max (melNat t) (melNatMax ts)

/-- `ConstEncodedLen` marks: every value encodes to exactly `max_encoded_len()` bytes. -/
def isCel : Ty → Bool
  | .unit | .bool | .prim _ | .nonZero _ | .duration => true
  | .tuple ts => isCelList ts
  | .array _ t => isCel t
  | .box _ t => isCel t
  | .range t => isCel t
  | _ => false
where
  isCelList : List Ty → Bool
    | [] => true
    | t :: ts => isCel t && isCelList ts

end Impl
end Scale
