/-
  Scale/Order.lean — the `Ord` of key/element types as seen by `BTreeMap`/`BTreeSet`/`BinaryHeap`
  (`from_iter` of decoded entries), modelled on values.

  Integers compare numerically, `false < true`, `None < Some`, `Ok < Err`, tuples / arrays /
  vectors / strings lexicographically (a proper prefix is smaller). These are std's contracts for
  the key types the harness uses; the theorems about maps and sets quantify over an arbitrary
  lawful order and do not depend on this particular function.
-/
import Scale.Ty
namespace Scale

def Val.rank : Val → Nat
  | .unit => 0 | .bool _ => 1 | .nat _ => 2 | .int _ => 3 | .none => 4 | .some _ => 5
  | .ok _ => 6 | .err _ => 7 | .seq _ => 8 | .bytes _ => 9 | .bits _ => 10 | .variant _ _ => 11
  | .skipped => 12

def cmpBytes : Bytes → Bytes → Ordering
  | [], [] => .eq
  | [], _ => .lt
  | _, [] => .gt
  | a :: as, b :: bs => if a.toNat < b.toNat then .lt else if b.toNat < a.toNat then .gt else cmpBytes as bs

def cmpBits : List Bool → List Bool → Ordering
  | [], [] => .eq
  | [], _ => .lt
  | _, [] => .gt
  | a :: as, b :: bs => if a = b then cmpBits as bs else if b then .lt else .gt

mutual
def Val.cmp : Val → Val → Ordering
  | .unit, .unit => .eq
  | .bool a, .bool b => if a = b then .eq else if b then .lt else .gt
  | .nat a, .nat b => compare a b
  | .int a, .int b => compare a b
  | .none, .none => .eq
  | .none, .some _ => .lt
  | .some _, .none => .gt
  | .some a, .some b => Val.cmp a b
  | .ok a, .ok b => Val.cmp a b
  | .ok _, .err _ => .lt
  | .err _, .ok _ => .gt
  | .err a, .err b => Val.cmp a b
  | .seq as, .seq bs => Val.cmpList as bs
  | .bytes a, .bytes b => cmpBytes a b
  | .bits a, .bits b => cmpBits a b
  | .variant i a, .variant j b => if i < j then .lt else if j < i then .gt else Val.cmp a b
  | a, b => compare a.rank b.rank
termination_by structural a => a

def Val.cmpList : List Val → List Val → Ordering
  | [], [] => .eq
  | [], _ :: _ => .lt
  | _ :: _, [] => .gt
  | a :: as, b :: bs =>
    match Val.cmp a b with
    | .eq => Val.cmpList as bs
    | o => o
termination_by structural as => as
end

/-- The key of a map entry (`(K, V)` pairs are `seq [k, v]`). -/
def entryKey : Val → Val
  | .seq (k :: _) => k
  | v => v

/-- Insert into a list sorted by `cmp ∘ key`; an entry with an equal key is replaced (the later
    entry wins, as in `BTreeMap::from_iter`). -/
def insertBy (cmp : Val → Val → Ordering) (key : Val → Val) (x : Val) : List Val → List Val
  | [] => [x]
  | y :: ys =>
    match cmp (key x) (key y) with
    | .lt => x :: y :: ys
    | .eq => x :: ys
    | .gt => y :: insertBy cmp key x ys

/-- `BTreeMap::from_iter` / `BTreeSet::from_iter` on the decoded entries, in iteration order. -/
def fromIter (cmp : Val → Val → Ordering) (key : Val → Val) (vs : List Val) : List Val :=
  vs.foldl (fun acc x => insertBy cmp key x acc) []

/-- Insert keeping duplicates (for comparing heaps as sorted multisets). -/
def insertSorted (cmp : Val → Val → Ordering) (x : Val) : List Val → List Val
  | [] => [x]
  | y :: ys => if cmp x y = .gt then y :: insertSorted cmp x ys else x :: y :: ys

def sortVals (cmp : Val → Val → Ordering) (vs : List Val) : List Val :=
  vs.foldl (fun acc x => insertSorted cmp x acc) []

end Scale
