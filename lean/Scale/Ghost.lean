/-
  Scale/Ghost.lean — specification-level instrumented inputs. They never fail on their own and
  record what a property speaks about: bytes delivered, nesting depth reached, memory announced.
-/
import Scale.Input
namespace Scale

/-- Counts exactly (unbounded) the bytes the wrapped input has delivered through successful reads. -/
def tallyInput {σ : Type} (I : InputOps σ) : InputOps (σ × Nat) where
  remainingLen s := let (r, s1) := I.remainingLen s.1; (r, (s1, s.2))
  read n s :=
    match I.read n s.1 with
    | (.ok b, s1) => (.ok b, (s1, s.2 + n))
    | (r, s1) => (r, (s1, s.2))
  readByte s :=
    match I.readByte s.1 with
    | (.ok b, s1) => (.ok b, (s1, s.2 + 1))
    | (r, s1) => (r, (s1, s.2))
  descend s := let (r, s1) := I.descend s.1; (r, (s1, s.2))
  ascend s := (I.ascend s.1, s.2)
  onAlloc n s := let (r, s1) := I.onAlloc n s.1; (r, (s1, s.2))

/-- Records the current and the maximal number of simultaneously open `descend_ref` calls. -/
def depthRec {σ : Type} (I : InputOps σ) : InputOps (σ × Nat × Nat) where
  remainingLen s := let (r, s1) := I.remainingLen s.1; (r, (s1, s.2))
  read n s := let (r, s1) := I.read n s.1; (r, (s1, s.2))
  readByte s := let (r, s1) := I.readByte s.1; (r, (s1, s.2))
  descend s :=
    match I.descend s.1 with
    | (.ok (), s1) => (.ok (), (s1, s.2.1 + 1, max s.2.2 (s.2.1 + 1)))
    | (r, s1) => (r, (s1, s.2))
  ascend s := (I.ascend s.1, s.2.1 - 1, s.2.2)
  onAlloc n s := let (r, s1) := I.onAlloc n s.1; (r, (s1, s.2))

/-- Records the (saturating) sum of the sizes announced through `on_before_alloc_mem`. -/
def memRec {σ : Type} (I : InputOps σ) : InputOps (σ × Nat) where
  remainingLen s := let (r, s1) := I.remainingLen s.1; (r, (s1, s.2))
  read n s := let (r, s1) := I.read n s.1; (r, (s1, s.2))
  readByte s := let (r, s1) := I.readByte s.1; (r, (s1, s.2))
  descend s := let (r, s1) := I.descend s.1; (r, (s1, s.2))
  ascend s := (I.ascend s.1, s.2)
  onAlloc n s :=
    match I.onAlloc n s.1 with
    | (.ok (), s1) => (.ok (), (s1, satAdd s.2 n))
    | (r, s1) => (r, (s1, s.2))

/-! ### The hook trace: every successful `descend_ref` / `ascend_ref` / `on_before_alloc_mem` call, in order -/

inductive Hook where
  | desc
  | asc
  | alloc (n : Nat)
  deriving Repr, DecidableEq, Inhabited

/-- Records the hook calls the wrapped input answered. -/
def traceRec {σ : Type} (I : InputOps σ) : InputOps (σ × List Hook) where
  remainingLen s := let (r, s1) := I.remainingLen s.1; (r, (s1, s.2))
  read n s := let (r, s1) := I.read n s.1; (r, (s1, s.2))
  readByte s := let (r, s1) := I.readByte s.1; (r, (s1, s.2))
  descend s :=
    match I.descend s.1 with
    | (.ok (), s1) => (.ok (), (s1, s.2 ++ [.desc]))
    | (r, s1) => (r, (s1, s.2))
  ascend s := (I.ascend s.1, s.2 ++ [.asc])
  onAlloc n s :=
    match I.onAlloc n s.1 with
    | (.ok (), s1) => (.ok (), (s1, s.2 ++ [.alloc n]))
    | (r, s1) => (r, (s1, s.2))

/-- The hook calls of the unlimited decode of `bs`. -/
def traceOf {α : Type} (p : Prog α) (bs : Bytes) : List Hook := (run (traceRec sliceInput) p (bs, [])).2.2

/-- What `memRec` computes from a trace: the saturating sum of the announced sizes. -/
def Hook.memStep (u : Nat) : Hook → Nat
  | .alloc n => satAdd u n
  | _ => u
def memFold (t : List Hook) (u : Nat) : Nat := t.foldl Hook.memStep u

/-- What `depthRec` computes from a trace: (currently open, maximum open). -/
def Hook.depthStep (cm : Nat × Nat) : Hook → Nat × Nat
  | .desc => (cm.1 + 1, max cm.2 (cm.1 + 1))
  | .asc => (cm.1 - 1, cm.2)
  | .alloc _ => cm
def depthFold (t : List Hook) (cm : Nat × Nat) : Nat × Nat := t.foldl Hook.depthStep cm

/-- The plain (unsaturated) sum of the announced sizes. -/
def allocTotal : List Hook → Nat
  | [] => 0
  | .alloc n :: t => n + allocTotal t
  | _ :: t => allocTotal t

/-- Nesting depth the unlimited decode of `bs` needs (maximal number of open `descend_ref`s). -/
def needDepth {α : Type} (p : Prog α) (bs : Bytes) : Nat := (run (depthRec sliceInput) p (bs, 0, 0)).2.2.2

/-- Tracked memory usage of the unlimited decode of `bs` (what `used_mem()` ends at). -/
def usedMem {α : Type} (p : Prog α) (bs : Bytes) : Nat := (run (memRec sliceInput) p (bs, 0)).2.2


/-! ### A byte input with an arbitrary `remaining_len` report (the wrappers must not depend on it) -/

/-- What the inner input answers to `remaining_len()`: the truth, nothing, a constant, or a capped
    value. -/
inductive LenMode where
  | exact
  | unknown
  | const (k : Nat)
  | capped (k : Nat)
  deriving Repr, DecidableEq

/-- A slice-like (`short = false`) or reader-like (`short = true`: a failed read consumes what was
    left) byte input whose `remaining_len` follows `mode`. -/
def hintInput (mode : LenMode) (short : Bool) : InputOps Bytes where
  remainingLen s :=
    match mode with
    | .exact => (.ok (some s.length), s)
    | .unknown => (.ok none, s)
    | .const k => (.ok (some k), s)
    | .capped k => (.ok (some (min s.length k)), s)
  read n s := if short then ioInput.read n s else sliceRead n s
  readByte s := match s with
    | [] => (.err, s)
    | b :: rest => (.ok b, rest)
  descend s := (.ok (), s)
  ascend s := s
  onAlloc _ s := (.ok (), s)

end Scale
