/-
  Scale/Canon.lean — `norm`: what a value looks like after a decode (heaps are compared as sorted
  multisets; everything else is itself), and `canon`: the type invariant of ordered collections
  (a `BTreeMap`/`BTreeSet` value iterates in strictly increasing key order).
-/
import Scale.Wf
import Scale.Order
import Scale.Input
namespace Scale

mutual
def norm : Ty → Val → Val
  | .option t, .some v => .some (norm t v)
  | .result t _, .ok v => .ok (norm t v)
  | .result _ e, .err v => .err (norm e v)
  | .tuple ts, .seq vs => .seq (normList ts vs)
  | .array _ t, .seq vs => .seq (vs.map (norm t))
  | .garray _ t, .seq vs => .seq (vs.map (norm t))
  | .seq k _ t, .seq vs =>
    match k with
    | .heap => .seq (sortVals Val.cmp (vs.map (norm t)))
    | _ => .seq (vs.map (norm t))
  | .box _ t, v => norm t v
  | .wrap t, v => norm t v
  | .range t, .seq [a, b] => .seq [norm t a, norm t b]
  | .enum idxs ts, .variant idx v => .variant idx (normVariant idxs ts idx v)
  | _, v => v
termination_by structural t => t

def normList : List Ty → List Val → List Val
  | t :: ts, v :: vs => norm t v :: normList ts vs
  | _, vs => vs
termination_by structural ts => ts

def normVariant : List Nat → List Ty → Nat → Val → Val
  | i :: is, t :: ts, idx, v => if i = idx then norm t v else normVariant is ts idx v
  | _, _, _, v => v
termination_by structural _ ts => ts
end

/-- Strictly increasing under `Val.cmp ∘ key` (every earlier entry is smaller than every later one). -/
def strictSorted (key : Val → Val) : List Val → Bool
  | [] => true
  | a :: rest => rest.all (fun b => Val.cmp (key a) (key b) == .lt) && strictSorted key rest

mutual
def canon : Ty → Val → Bool
  | .option t, .some v => canon t v
  | .result t _, .ok v => canon t v
  | .result _ e, .err v => canon e v
  | .tuple ts, .seq vs => canonList ts vs
  | .array _ t, .seq vs => vs.all (canon t)
  | .garray _ t, .seq vs => vs.all (canon t)
  | .seq k _ t, .seq vs =>
    vs.all (canon t) &&
      (match k with
        | .bset => strictSorted id (vs.map (norm t))
        | .bmap => strictSorted entryKey (vs.map (norm t))
        | _ => true)
  | .box _ t, v => canon t v
  | .wrap t, v => canon t v
  | .range t, .seq [a, b] => canon t a && canon t b
  | .enum idxs ts, .variant idx v => canonVariant idxs ts idx v
  | _, _ => true
termination_by structural t => t

def canonList : List Ty → List Val → Bool
  | t :: ts, v :: vs => canon t v && canonList ts vs
  | _, _ => true
termination_by structural ts => ts

def canonVariant : List Nat → List Ty → Nat → Val → Bool
  | i :: is, t :: ts, idx, v => if i = idx then canon t v else canonVariant is ts idx v
  | _, _, _, _ => true
termination_by structural _ ts => ts
end

/-- The crate's compile-time layout assertion (`MAX_PREALLOCATION >= size_of::<T>()` in
    `decode_vec_chunked`), on every vector-like node of the type. -/
def layoutOk : Ty → Bool
  | .option t => layoutOk t
  | .result t e => layoutOk t && layoutOk e
  | .tuple ts => layoutOkList ts
  | .array _ t => layoutOk t
  | .garray _ t => layoutOk t
  | .seq k sz t =>
    layoutOk t && (match k with
      | .vec | .deque | .heap => sz ≤ maxPrealloc
      | _ => true)
  | .box _ t => layoutOk t
  | .wrap t => layoutOk t
  | .range t => layoutOk t
  | .enum _ ts => layoutOkList ts
  | _ => true
where
  layoutOkList : List Ty → Bool
    | [] => true
    | t :: ts => layoutOk t && layoutOkList ts

/-- Every `Compact<_>` node has one of the five widths the crate implements and every enum index
    fits a byte (the derive's compile-time check). -/
def widthsOk : Ty → Bool
  | .compact w => widthOk w
  | .option t => widthsOk t
  | .result t e => widthsOk t && widthsOk e
  | .tuple ts => widthsOkList ts
  | .array _ t => widthsOk t
  | .garray _ t => widthsOk t
  | .seq _ _ t => widthsOk t
  | .box _ t => widthsOk t
  | .wrap t => widthsOk t
  | .range t => widthsOk t
  | .enum idxs ts => idxs.all (· < 256) && widthsOkList ts
  | _ => true
where
  widthsOkList : List Ty → Bool
    | [] => true
    | t :: ts => widthsOk t && widthsOkList ts

/-- Types whose accepted byte strings are exactly the encodings of their values. The documented
    non-canonical acceptances are excluded: maps and sets (unsorted / duplicate entries are
    accepted and normalised), heaps (any order), bit sequences (non-zero padding bits). -/
def wireCanon : Ty → Bool
  | .option t => wireCanon t
  | .result t e => wireCanon t && wireCanon e
  | .tuple ts => wireCanonList ts
  | .array _ t => wireCanon t
  | .garray _ t => wireCanon t
  | .seq k _ t =>
    wireCanon t && (match k with
      | .vec | .deque | .list => true
      | _ => false)
  | .box _ t => wireCanon t
  | .wrap t => wireCanon t
  | .range t => wireCanon t
  | .bitseq _ _ => false
  | .enum _ ts => wireCanonList ts
  | _ => true
where
  wireCanonList : List Ty → Bool
    | [] => true
    | t :: ts => wireCanon t && wireCanonList ts

end Scale
