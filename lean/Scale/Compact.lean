/-
  Scale/Compact.lean — compact integers (`src/compact.rs`).

  `Spec.compact` is the SCALE specification of the compact form. The `Impl` part transliterates
  the five hand-unrolled encoders (`CompactRef<u8..u128>::encode_to`), the five `compact_len`s,
  the fixed-capacity `using_encoded` path and the five decoders (with the `PrefixInput`
  re-injection: the second read is `read(1)` / `read(3)` on the wrapped input).
  Widths are in bytes: 1, 2, 4, 8, 16.
-/
import Scale.Input
namespace Scale

namespace Spec

/-- The SCALE compact form of `x`: single-byte mode below 2^6, two-byte mode below 2^14, four-byte
    mode below 2^30, otherwise a length-tagged little-endian form using the minimal number of
    bytes (≥ 4). -/
def compact (x : Nat) : Bytes :=
  if x < 2 ^ 6 then leBytes 1 (4 * x)
  else if x < 2 ^ 14 then leBytes 2 (4 * x + 1)
  else if x < 2 ^ 30 then leBytes 4 (4 * x + 2)
  else UInt8.ofNat (4 * (byteLen x - 4) + 3) :: leBytes (byteLen x) x

def compactLen (x : Nat) : Nat :=
  if x < 2 ^ 6 then 1 else if x < 2 ^ 14 then 2 else if x < 2 ^ 30 then 4 else 1 + byteLen x

end Spec

namespace Impl

/-- `leading_zeros()` of a `bits`-wide unsigned integer. -/
def leadingZeros (bits x : Nat) : Nat := bits - bitLen x

/-- The big-integer arm shared (textually duplicated) by the u64 and u128 encoders. -/
def compactBigArm (bits x : Nat) : Res Bytes :=
  let bytesNeeded := bits / 8 - leadingZeros bits x / 8
  if bytesNeeded < 4 then .panic else      -- assert!(bytes_needed >= 4)
  let tag := UInt8.ofNat ((3 + (((bytesNeeded - 4) <<< 2) % 256)) % 256)
  let body := leBytes bytesNeeded x        -- for _ in 0..bytes_needed { push(v as u8); v >>= 8 }
  if x / 256 ^ bytesNeeded ≠ 0 then .panic else   -- assert_eq!(v, 0)
  .ok (tag :: body)

/-- `CompactRef<uW>::encode_to` for `w` bytes, on a value `x < 2^(8w)`. -/
def compactEncodeTo (w x : Nat) : Res Bytes :=
  match w with
  | 1 =>
    if x ≤ 0b00111111 then .ok [UInt8.ofNat ((x <<< 2) % 256)]
    else .ok (leBytes 2 ((((x <<< 2) % 65536)) ||| 0b01))
  | 2 =>
    if x ≤ 0b00111111 then .ok [UInt8.ofNat (((x % 256) <<< 2) % 256)]
    else if x ≤ 0b0011111111111111 then .ok (leBytes 2 (((x <<< 2) % 65536) ||| 0b01))
    else .ok (leBytes 4 (((x <<< 2) % 2 ^ 32) ||| 0b10))
  | 4 =>
    if x ≤ 0b00111111 then .ok [UInt8.ofNat (((x % 256) <<< 2) % 256)]
    else if x ≤ 0b0011111111111111 then .ok (leBytes 2 ((((x % 65536) <<< 2) % 65536) ||| 0b01))
    else if x ≤ 0b00111111111111111111111111111111 then .ok (leBytes 4 (((x <<< 2) % 2 ^ 32) ||| 0b10))
    else .ok (UInt8.ofNat 0b11 :: leBytes 4 x)
  | 8 =>
    if x ≤ 0b00111111 then .ok [UInt8.ofNat (((x % 256) <<< 2) % 256)]
    else if x ≤ 0b0011111111111111 then .ok (leBytes 2 ((((x % 65536) <<< 2) % 65536) ||| 0b01))
    else if x ≤ 0b00111111111111111111111111111111 then
      .ok (leBytes 4 ((((x % 2 ^ 32) <<< 2) % 2 ^ 32) ||| 0b10))
    else compactBigArm 64 x
  | 16 =>
    if x ≤ 0b00111111 then .ok [UInt8.ofNat (((x % 256) <<< 2) % 256)]
    else if x ≤ 0b0011111111111111 then .ok (leBytes 2 ((((x % 65536) <<< 2) % 65536) ||| 0b01))
    else if x ≤ 0b00111111111111111111111111111111 then
      .ok (leBytes 4 ((((x % 2 ^ 32) <<< 2) % 2 ^ 32) ||| 0b10))
    else compactBigArm 128 x
  | _ => .panic

/-- `CompactLen::compact_len`. -/
def compactLen (w x : Nat) : Nat :=
  match w with
  | 1 => if x ≤ 0b00111111 then 1 else 2
  | 2 => if x ≤ 0b00111111 then 1 else if x ≤ 0b0011111111111111 then 2 else 4
  | 4 =>
    if x ≤ 0b00111111 then 1 else if x ≤ 0b0011111111111111 then 2
    else if x ≤ 0b00111111111111111111111111111111 then 4 else 5
  | 8 =>
    if x ≤ 0b00111111 then 1 else if x ≤ 0b0011111111111111 then 2
    else if x ≤ 0b00111111111111111111111111111111 then 4
    else (8 - leadingZeros 64 x / 8) + 1
  | 16 =>
    if x ≤ 0b00111111 then 1 else if x ≤ 0b0011111111111111 then 2
    else if x ≤ 0b00111111111111111111111111111111 then 4
    else (16 - leadingZeros 128 x / 8) + 1
  | _ => 0

/-- Capacity of the `ArrayVec` used by `CompactRef<uW>::using_encoded`. -/
def compactCap (w : Nat) : Nat :=
  match w with
  | 1 => 2 | 2 => 4 | 4 => 5 | 8 => 9 | 16 => 17 | _ => 0

/-- `CompactRef<uW>::using_encoded`: `encode_to` into a fixed-capacity buffer whose `write`
    asserts `new_len <= capacity`. -/
def compactUsingEncoded (w x : Nat) : Res Bytes :=
  match compactEncodeTo w x with
  | .ok b => if b.length ≤ compactCap w then .ok b else .panic
  | r => r

/-! The decoders. Arms that are textually identical in several of the five Rust decoders are
    written once here, parameterised by the one constant that differs (the upper range bound). -/

/-- `prefix % 4 == 1`: `u16::decode(&mut PrefixInput{prefix, input})? >> 2`, i.e. one more byte via
    `read(1)` on the wrapped input, then the range check `x > 0b0011_1111 && x <= hi`. -/
def compactArm1 (hi : Nat) (prefix_ : UInt8) : Prog Nat :=
  .read 1 fun b =>
    let x := fromLe (prefix_ :: b) >>> 2
    if x > 0b00111111 ∧ x ≤ hi then .pure x else .fail

/-- `prefix % 4 == 2`: `u32::decode(&mut PrefixInput{..})? >> 2` (`read(3)` on the wrapped input),
    range check `x > 0b0011_1111_1111_1111 && x <= hi`. -/
def compactArm2 (hi : Nat) (prefix_ : UInt8) : Prog Nat :=
  .read 3 fun b =>
    let x := fromLe (prefix_ :: b) >>> 2
    if x > 0b0011111111111111 ∧ x ≤ hi then .pure x else .fail

/-- `uN::decode(input)?` followed by `if x > lo { x } else { Err }` (the 4-, 8- and 16-byte arms). -/
def compactArmWide (n lo : Nat) : Prog Nat :=
  .read n fun b => let x := fromLe b; if x > lo then .pure x else .fail

/-- The generic arm of the u64/u128 decoders: `n` single-byte reads, then the top-byte check
    `res > MAX >> ((W - n + 1) * 8)`. -/
def compactArmBytes (wBytes n : Nat) : Prog Nat :=
  (Prog.replicateM n Prog.rdByte).bind fun bs =>
    let res := fromLe bs
    if res > (2 ^ (8 * wBytes) - 1) >>> ((wBytes - n + 1) * 8) then .pure res else .fail

/-- `Compact<u8>::decode`. -/
def compactDec8 : Prog Nat :=
  .readByte fun prefix_ =>
    match prefix_.toNat % 4 with
    | 0 => .pure (prefix_.toNat >>> 2)
    | 1 => compactArm1 255 prefix_
    | _ => .fail

/-- `Compact<u16>::decode`. -/
def compactDec16 : Prog Nat :=
  .readByte fun prefix_ =>
    match prefix_.toNat % 4 with
    | 0 => .pure (prefix_.toNat >>> 2)
    | 1 => compactArm1 0b0011111111111111 prefix_
    | 2 => compactArm2 65535 prefix_          -- `x < 65536`
    | _ => .fail

/-- `Compact<u32>::decode`. -/
def compactDec32 : Prog Nat :=
  .readByte fun prefix_ =>
    match prefix_.toNat % 4 with
    | 0 => .pure (prefix_.toNat >>> 2)
    | 1 => compactArm1 0b0011111111111111 prefix_
    | 2 => compactArm2 (u32Max >>> 2) prefix_
    | _ =>
        if prefix_.toNat >>> 2 = 0 then compactArmWide 4 (u32Max >>> 2) else .fail

/-- `Compact<u64>::decode`. -/
def compactDec64 : Prog Nat :=
  .readByte fun prefix_ =>
    match prefix_.toNat % 4 with
    | 0 => .pure (prefix_.toNat >>> 2)
    | 1 => compactArm1 0b0011111111111111 prefix_
    | 2 => compactArm2 (u32Max >>> 2) prefix_
    | _ =>
        let n := (prefix_.toNat >>> 2) + 4
        if n = 4 then compactArmWide 4 (u32Max >>> 2)
        else if n = 8 then compactArmWide 8 (u64Max >>> 8)
        else if n > 8 then .fail
        else compactArmBytes 8 n

/-- `Compact<u128>::decode`. -/
def compactDec128 : Prog Nat :=
  .readByte fun prefix_ =>
    match prefix_.toNat % 4 with
    | 0 => .pure (prefix_.toNat >>> 2)
    | 1 => compactArm1 0b0011111111111111 prefix_
    | 2 => compactArm2 (u32Max >>> 2) prefix_
    | _ =>
        let n := (prefix_.toNat >>> 2) + 4
        if n = 4 then compactArmWide 4 (u32Max >>> 2)
        else if n = 8 then compactArmWide 8 (u64Max >>> 8)
        else if n = 16 then compactArmWide 16 ((2 ^ 128 - 1) >>> 8)
        else if n > 16 then .fail
        else compactArmBytes 16 n

/-- `Compact<uW>::decode` for `w` bytes. -/
def compactDec (w : Nat) : Prog Nat :=
  match w with
  | 1 => compactDec8
  | 2 => compactDec16
  | 4 => compactDec32
  | 8 => compactDec64
  | 16 => compactDec128
  | _ => .panic

end Impl

/-- Compact decoding of a byte string (slice input): value and remaining bytes. -/
def compactDecode (w : Nat) (bs : Bytes) : Res Nat × Bytes := run sliceInput (Impl.compactDec w) bs

end Scale
