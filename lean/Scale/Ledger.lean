/-
  Scale/Ledger.lean — ownership events of the hand-rolled in-place decoders (`src/codec.rs`):
  `[T; N]::decode_into` (loop + drop guard `State`), `Box<T>::decode_wrapped` (raw allocation,
  in-place decode, free without drop on failure), and growing collections (an owner that drops its
  `len` elements when it is dropped). Failure is an input: the outcome of each element decode.

  Rust's drop elaboration (locals dropped on `?` and during unwinding) is built in as the language
  rule it is: a failing or panicking element decode constructs nothing; leaving the function by
  `?` or by unwinding runs the guard's `Drop`.
-/
import Scale.Basic
namespace Scale
namespace Ledger

inductive Outcome where
  | ok | err | panic
  deriving Repr, DecidableEq

/-- What happened to element ids and heap blocks. -/
structure Log where
  constructed : List Nat := []
  dropped : List Nat := []
  /-- initialised and owned by the returned value -/
  handed : List Nat := []
  allocated : List Nat := []
  freed : List Nat := []
  deriving Repr

structure Result where
  outcome : Outcome
  log : Log
  deriving Repr

/-- `impl Drop for State`: `if !needs_drop::<T>() { return }`, then drop `slice[..count]`. -/
def guardDrop (needsDrop : Bool) (count : Nat) (log : Log) : Log :=
  if needsDrop then { log with dropped := log.dropped ++ List.range count } else log

/-- The element loop of `[T; N]::decode_into` (non-primitive path): `while count < N { T::decode_into(..)?; count += 1 }`
    then `mem::forget(state)`. `elem i` is the outcome of decoding element `i`. Fuel = remaining elements. -/
def arrayLoop (n : Nat) (elem : Nat → Outcome) (needsDrop : Bool) : Nat → Nat → Log → Result
  | 0, _, log => { outcome := .ok, log := { log with handed := log.handed ++ List.range n } }   -- forget(state)
  | fuel + 1, count, log =>
    match elem count with
    | .ok => arrayLoop n elem needsDrop fuel (count + 1) { log with constructed := log.constructed ++ [count] }
    | .err => { outcome := .err, log := guardDrop needsDrop count log }      -- `?` returns: `state` is dropped
    | .panic => { outcome := .panic, log := guardDrop needsDrop count log }  -- unwinding drops `state`

def arrayDecodeInto (n : Nat) (elem : Nat → Outcome) (needsDrop : Bool) : Result :=
  arrayLoop n elem needsDrop n 0 {}

/-- `Box<T>::decode_wrapped`: allocate block 0 (when `size_of::<T>() > 0`), decode the payload in
    place; on failure the `Box<MaybeUninit<T>>` is dropped: the block is freed, `T` is not dropped
    (whatever `T::decode_into` had constructed it has already released itself). -/
def boxDecode (sized : Bool) (inner : Result) : Result :=
  let allocd : List Nat := if sized then [0] else []
  match inner.outcome with
  | .ok => { outcome := .ok, log := { inner.log with allocated := inner.log.allocated ++ allocd } }
  | o => { outcome := o, log := { inner.log with allocated := inner.log.allocated ++ allocd, freed := inner.log.freed ++ allocd } }

/-- A growing collection (`Vec::push` in a loop): the owner drops the elements pushed so far when
    it is dropped on the error / unwind path. -/
def vecLoop (n : Nat) (elem : Nat → Outcome) : Nat → Nat → Log → Result
  | 0, _, log => { outcome := .ok, log := { log with handed := log.handed ++ List.range n } }
  | fuel + 1, count, log =>
    match elem count with
    | .ok => vecLoop n elem fuel (count + 1) { log with constructed := log.constructed ++ [count] }
    | .err => { outcome := .err, log := { log with dropped := log.dropped ++ List.range count } }
    | .panic => { outcome := .panic, log := { log with dropped := log.dropped ++ List.range count } }

def vecDecode (n : Nat) (elem : Nat → Outcome) : Result := vecLoop n elem n 0 {}

/-- The derived in-place `decode_into` of a `#[repr(transparent)]` struct with `n` fields
    (`derive/src/decode.rs`, `quote_decode_into`): the fields are decoded one after the other into the
    same memory; each decoded field is owned by a drop guard (a local) until all are decoded, then
    the guards are forgotten. Leaving by `?` or by unwinding drops the guards — locals, in reverse
    order of declaration. -/
def transparentLoop (n : Nat) (elem : Nat → Outcome) : Nat → Nat → Log → Result
  | 0, _, log => { outcome := .ok, log := { log with handed := log.handed ++ List.range n } }   -- forget(guards)
  | fuel + 1, count, log =>
    match elem count with
    | .ok => transparentLoop n elem fuel (count + 1) { log with constructed := log.constructed ++ [count] }
    | .err => { outcome := .err, log := { log with dropped := log.dropped ++ (List.range count).reverse } }
    | .panic => { outcome := .panic, log := { log with dropped := log.dropped ++ (List.range count).reverse } }

def transparentDecodeInto (n : Nat) (elem : Nat → Outcome) : Result := transparentLoop n elem n 0 {}

/-- The same loop WITHOUT the guards — the code as it was before the repair of finding F6: a field
    already written into the destination is simply left there when a later field fails. -/
def transparentUnguarded (n : Nat) (elem : Nat → Outcome) : Nat → Nat → Log → Result
  | 0, _, log => { outcome := .ok, log := { log with handed := log.handed ++ List.range n } }
  | fuel + 1, count, log =>
    match elem count with
    | .ok => transparentUnguarded n elem fuel (count + 1) { log with constructed := log.constructed ++ [count] }
    | .err => { outcome := .err, log := log }
    | .panic => { outcome := .panic, log := log }

/-- Summary printed by the driver and by the harness. -/
def summary (r : Result) : String :=
  (match r.outcome with | .ok => "ok" | .err => "err" | .panic => "panic") ++
  " constructed=" ++ toString r.log.constructed.length ++ " dropped=" ++ toString r.log.dropped.length ++
  " handed=" ++ toString r.log.handed.length

end Ledger
end Scale
