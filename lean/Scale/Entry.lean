/-
  Scale/Entry.lean — the public decoding entry points built on `decodeP`:
  `DecodeAll`, `DecodeLimit`, `DecodeWithMemLimit`, `CountedInput`, `Decode::skip`,
  `Decode::encoded_fixed_size`, `DecodeLength::len`.
-/
import Scale.Decode
namespace Scale

/-- `DecodeAll::decode_all` (`src/decode_all.rs`): decode, then require the slice to be empty. -/
def decodeAll (ty : Ty) (bs : Bytes) : Res Val :=
  match decode ty bs with
  | (.ok v, rest) => if rest.isEmpty then .ok v else .err
  | (.err, _) => .err
  | (.panic, _) => .panic

/-- `DecodeLimit::decode_with_depth_limit(limit, &mut &[u8])`. -/
def decodeLimit (limit : Nat) (ty : Ty) (bs : Bytes) : Res Val × Bytes :=
  let (r, s) := run (depthInput limit sliceInput) (Impl.decodeP ty) (bs, 0)
  (r, s.1)

/-- `DecodeLimit::decode_all_with_depth_limit`. -/
def decodeAllLimit (limit : Nat) (ty : Ty) (bs : Bytes) : Res Val :=
  match decodeLimit limit ty bs with
  | (.ok v, rest) => if rest.isEmpty then .ok v else .err
  | (.err, _) => .err
  | (.panic, _) => .panic

/-- `DecodeWithMemLimit::decode_with_mem_limit(&mut &[u8], limit)`: result, rest, `used_mem`. -/
def decodeMemLimit (limit : Nat) (ty : Ty) (bs : Bytes) : Res Val × Bytes × Nat :=
  let (r, s) := run (memInput limit sliceInput) (Impl.decodeP ty) (bs, 0)
  (r, s.1, s.2)

/-- `T::decode(&mut CountedInput::new(&mut &[u8]))`: result, rest, `count()`. -/
def decodeCounted (ty : Ty) (bs : Bytes) : Res Val × Bytes × Nat :=
  let (r, s) := run (countedInput sliceInput) (Impl.decodeP ty) (bs, 0)
  (r, s.1, s.2)

namespace Impl

/-- `Decode::encoded_fixed_size()`: overridden by `impl_endians!` (the ten multi-byte primitives;
    `u8`/`i8` keep the default `None`), `bool`, and arrays (`T::encoded_fixed_size()? * N`). -/
def encodedFixedSize : Ty → Option Nat
  | .prim p => if p.size = 1 then none else some p.size
  | .bool => some 1
  | .array n t => (encodedFixedSize t).map (· * n)
  | _ => none

/-- `Decode::skip`: the trait default (`decode(..).map(|_| ())`) everywhere except `[T; N]`, which
    skips `N` elements one by one when it reports a fixed size. -/
def skipP : Ty → Prog Unit
  | .array n t =>
    if (encodedFixedSize (.array n t)).isSome then
      (Prog.replicateM n (skipP t)).bind fun _ => .pure ()
    else (decodeP (.array n t)).bind fun _ => .pure ()
  | ty => (decodeP ty).bind fun _ => .pure ()

/-- `DecodeLength::len` of the six collections (and of tuples led by one): the compact count. -/
def decodeLen (bs : Bytes) : Res Nat := (run sliceInput (compactDec 4) bs).1

end Impl

/-- `T::skip(&mut &[u8])`. -/
def skip (ty : Ty) (bs : Bytes) : Res Unit × Bytes := run sliceInput (Impl.skipP ty) bs

end Scale
