/-
  Scale/Basic.lean — byte strings, little-endian integers, the three-valued result type.
  Model file: imports nothing outside core so that the driver links as a `lean_exe`.
-/
namespace Scale

abbrev Bytes := List UInt8

/-- Outcome of a modelled Rust computation: a value, an `Err(_)` (descriptions are not modelled),
    or a panic (`assert!`, `expect`, `unreachable!`). -/
inductive Res (α : Type) where
  | ok (a : α)
  | err
  | panic
  deriving Repr, DecidableEq, Inhabited

namespace Res
def map {α β} (f : α → β) : Res α → Res β
  | ok a => ok (f a)
  | err => err
  | panic => panic

def bind {α β} (r : Res α) (f : α → Res β) : Res β :=
  match r with
  | ok a => f a
  | err => err
  | panic => panic

def isOk {α} : Res α → Bool
  | ok _ => true
  | _ => false
end Res

/-- `n` little-endian bytes of `x` (truncating: the Rust `to_le_bytes` of a value already reduced
    to the width, or an `as` cast followed by `to_le_bytes`). -/
def leBytes : Nat → Nat → Bytes
  | 0, _ => []
  | n+1, x => UInt8.ofNat (x % 256) :: leBytes n (x / 256)

/-- Little-endian value of a byte string (`from_le_bytes`). -/
def fromLe : Bytes → Nat
  | [] => 0
  | b :: bs => b.toNat + 256 * fromLe bs

/-- Two's complement: the unsigned `w`-byte pattern of a signed value. -/
def toTwos (w : Nat) (i : Int) : Nat := (i % (2 ^ (8 * w) : Nat)).toNat

/-- Two's complement: the signed reading of an unsigned `w`-byte pattern. -/
def fromTwos (w : Nat) (n : Nat) : Int :=
  if n < 2 ^ (8 * w - 1) then (n : Int) else (n : Int) - (2 ^ (8 * w) : Nat)

/-- Number of significant bits (`W - leading_zeros`). -/
def bitLen (x : Nat) : Nat := if x = 0 then 0 else x.log2 + 1

/-- Minimal number of bytes holding `x` (0 for 0). -/
def byteLen (x : Nat) : Nat := (bitLen x + 7) / 8

def usizeMax : Nat := 2 ^ 64 - 1
def u32Max : Nat := 2 ^ 32 - 1
def u64Max : Nat := 2 ^ 64 - 1

/-- `usize::saturating_mul`. -/
def satMul (a b : Nat) : Nat := min (a * b) usizeMax
/-- `usize::saturating_add`. -/
def satAdd (a b : Nat) : Nat := min (a + b) usizeMax

def hexDigit (n : Nat) : Char :=
  if n < 10 then Char.ofNat (48 + n) else Char.ofNat (87 + n)

def toHex (bs : Bytes) : String :=
  String.ofList (bs.foldr (fun b acc => hexDigit (b.toNat / 16) :: hexDigit (b.toNat % 16) :: acc) [])

end Scale
