/-
  Scale/Like.lean — `EncodeLike`: two types encode alike when they differ only in holders
  (`Box`/`Rc`/`Arc`; `&T`, `&mut T`, `Cow`, `Ref` are already the held type in a descriptor) and in
  the flavour of a count-prefixed collection (vector, slice, deque, list, heap, set, map-as-entries).
  `shape` erases exactly that.
-/
import Scale.Ty
namespace Scale

mutual
def shape : Ty → Ty
  | .option t => .option (shape t)
  | .result t e => .result (shape t) (shape e)
  | .tuple ts => .tuple (shapeList ts)
  | .array n t => .array n (shape t)
  | .garray n t => .garray n (shape t)
  | .seq _ _ t => .seq .vec 0 (shape t)
  | .box _ t => shape t
  | .wrap t => shape t
  | .range t => .range (shape t)
  | .enum idxs ts => .enum idxs (shapeList ts)
  | t => t
termination_by structural t => t

def shapeList : List Ty → List Ty
  | [] => []
  | t :: ts => shape t :: shapeList ts
termination_by structural ts => ts
end

/-- A `Vec<u8>`-like value seen as a byte buffer (`Bytes: EncodeLike<Vec<u8>>`, `&[u8]: EncodeLike<Bytes>`). -/
def bytesAsSeq (bs : Bytes) : Val := .seq (bs.map fun b => .nat b.toNat)

/-- Is the shape a sequence of `u8` (so that a byte buffer encodes like it)? -/
def isU8Seq : Ty → Bool
  | .seq _ _ (.prim .u8) => true
  | _ => false

mutual
/-- Additionally erase 1-tuples / single-field structs (`(T,)` and `Cow<T>` forward every method
    to the field; `&[(T,)]` stands for a set's entries). -/
def peel : Ty → Ty
  | .option t => .option (peel t)
  | .result t e => .result (peel t) (peel e)
  | .tuple [t] => peel t
  | .tuple ts => .tuple (peelList ts)
  | .array n t => .array n (peel t)
  | .garray n t => .garray n (peel t)
  | .seq k s t => .seq k s (peel t)
  | .box s t => .box s (peel t)
  | .wrap t => .wrap (peel t)
  | .range t => .range (peel t)
  | .enum idxs ts => .enum idxs (peelList ts)
  | t => t
termination_by structural t => t

def peelList : List Ty → List Ty
  | [] => []
  | t :: ts => peel t :: peelList ts
termination_by structural ts => ts
end

mutual
/-- Structural equality of descriptors. -/
def tyEq : Ty → Ty → Bool
  | .unit, .unit => true
  | .bool, .bool => true
  | .optionBool, .optionBool => true
  | .prim p, .prim q => p == q
  | .nonZero p, .nonZero q => p == q
  | .compact w, .compact w' => w == w'
  | .option t, .option u => tyEq t u
  | .result t e, .result u f => tyEq t u && tyEq e f
  | .tuple ts, .tuple us => tyEqList ts us
  | .array n t, .array m u => n == m && tyEq t u
  | .garray n t, .garray m u => n == m && tyEq t u
  | .seq k s t, .seq k' s' u => k == k' && s == s' && tyEq t u
  | .str, .str => true
  | .bytes, .bytes => true
  | .box s t, .box s' u => s == s' && tyEq t u
  | .wrap t, .wrap u => tyEq t u
  | .duration, .duration => true
  | .range t, .range u => tyEq t u
  | .bitseq p m, .bitseq q m' => p == q && m == m'
  | .enum is ts, .enum js us => is == js && tyEqList ts us
  | _, _ => false
termination_by structural t => t

def tyEqList : List Ty → List Ty → Bool
  | [], [] => true
  | t :: ts, u :: us => tyEq t u && tyEqList ts us
  | _, _ => false
termination_by structural ts => ts
end

def isBytesTy : Ty → Bool
  | .bytes => true
  | _ => false

/-- The model's decision for "`A` may be declared to encode like `B`": equal shapes, or a byte
    buffer against a sequence of `u8`. -/
def encodesLike (a b : Ty) : Bool :=
  tyEq (shape (peel a)) (shape (peel b)) || (isU8Seq (shape a) && isBytesTy b) || (isU8Seq (shape b) && isBytesTy a)

end Scale
