/-
  Scale/Driver.lean — the line protocol: parse a request, run the model's executable
  definitions, print one canonical answer line. Not part of the trusted statement of any theorem;
  it is the glue the correspondence check drives (an ill-formed request yields `bad-op`, never a
  default).
-/
import Scale.Encode
import Scale.Decode
import Scale.Entry
import Scale.Mel
import Scale.Append
import Scale.EntryEnc
import Scale.Like
import Scale.Derive
import Scale.Ledger
import Scale.HookTrace
import Scale.Wf
import Scale.Request
namespace Scale.Driver
open Scale

abbrev Toks := List String

def parsePrim : String → Option Prim
  | "u8" => some .u8 | "i8" => some .i8 | "u16" => some .u16 | "i16" => some .i16
  | "u32" => some .u32 | "i32" => some .i32 | "u64" => some .u64 | "i64" => some .i64
  | "u128" => some .u128 | "i128" => some .i128 | "f32" => some .f32 | "f64" => some .f64
  | _ => none

def parseKind : String → Option SeqKind
  | "vec" => some .vec | "deque" => some .deque | "heap" => some .heap
  | "list" => some .list | "bset" => some .bset | "bmap" => some .bmap
  | _ => none

mutual
partial def parseTy : Toks → Option (Ty × Toks)
  | [] => none
  | tok :: rest =>
    match tok with
    | "unit" => some (.unit, rest)
    | "bool" => some (.bool, rest)
    | "obool" => some (.optionBool, rest)
    | "str" => some (.str, rest)
    | "bytes" => some (.bytes, rest)
    | "dur" => some (.duration, rest)
    | "nz" => match rest with
      | p :: r => (parsePrim p).map fun p => (.nonZero p, r)
      | _ => none
    | "c" => match rest with
      | w :: r => w.toNat?.map fun w => (.compact w, r)
      | _ => none
    | "opt" => (parseTy rest).map fun (t, r) => (.option t, r)
    | "res" => do
      let (t, r) ← parseTy rest
      let (e, r) ← parseTy r
      pure (.result t e, r)
    | "tup" => match rest with
      | n :: r => do
        let n ← n.toNat?
        let (ts, r) ← parseTys n r
        pure (.tuple ts, r)
      | _ => none
    | "arr" => match rest with
      | n :: r => do
        let n ← n.toNat?
        let (t, r) ← parseTy r
        pure (.array n t, r)
      | _ => none
    | "garr" => match rest with
      | n :: r => do
        let n ← n.toNat?
        let (t, r) ← parseTy r
        pure (.garray n t, r)
      | _ => none
    | "box" => match rest with
      | n :: r => do
        let n ← n.toNat?
        let (t, r) ← parseTy r
        pure (.box n t, r)
      | _ => none
    | "wrap" => (parseTy rest).map fun (t, r) => (.wrap t, r)
    | "range" => (parseTy rest).map fun (t, r) => (.range t, r)
    | "bits" => match rest with
      | p :: o :: r => do
        let p ← parsePrim p
        let msb ← (if o == "msb" then some true else if o == "lsb" then some false else none)
        pure (.bitseq p msb, r)
      | _ => none
    | "enum" => match rest with
      | n :: r => do
        let n ← n.toNat?
        let (idxs, ts, r) ← parseVariants n r
        pure (.enum idxs ts, r)
      | _ => none
    | "adt" => do
      -- a derived definition in surface syntax: the model elaborates it itself
      let (d, r) ← parseTypeDef rest
      let ty ← Derive.elaborate d
      pure (ty, r)
    | other =>
      match parsePrim other with
      | some p => some (.prim p, rest)
      | none =>
        match parseKind other with
        | some k => match rest with
          | sz :: r => do
            let sz ← sz.toNat?
            let (t, r) ← parseTy r
            pure (.seq k sz t, r)
          | _ => none
        | none => none

partial def parseFields : Nat → Toks → Option (List Derive.Field × Toks)
  | 0, r => some ([], r)
  | n+1, r => match r with
    | "p" :: r => do
      let (t, r) ← parseTy r
      let (fs, r) ← parseFields n r
      pure (⟨false, false, none, t⟩ :: fs, r)
    | "s" :: r => do
      let (t, r) ← parseTy r
      let (fs, r) ← parseFields n r
      pure (⟨true, false, none, t⟩ :: fs, r)
    | "c" :: r => do
      let (t, r) ← parseTy r
      let (fs, r) ← parseFields n r
      pure (⟨false, true, none, t⟩ :: fs, r)
    | "a" :: r => do
      let (a, r) ← parseTy r
      let (t, r) ← parseTy r
      let (fs, r) ← parseFields n r
      pure (⟨false, false, some a, t⟩ :: fs, r)
    | "x" :: flags :: r => do
      -- explicit attribute flags (for definitions carrying several attributes): s/c/a letters
      let hasA := flags.toList.contains 'a'
      let (a, r) ← (if hasA then (parseTy r).map fun (a, r) => (some a, r) else some (none, r))
      let (t, r) ← parseTy r
      let (fs, r) ← parseFields n r
      pure (⟨flags.toList.contains 's', flags.toList.contains 'c', a, t⟩ :: fs, r)
    | _ => none

partial def parseOptNat (s : String) : Option (Option Nat) :=
  if s == "-" then some none else s.toNat?.map some

partial def parseVariantDefs : Nat → Toks → Option (List Derive.Variant × Toks)
  | 0, r => some ([], r)
  | n+1, r => match r with
    | sk :: ix :: dc :: nf :: r => do
      let sk ← (if sk == "1" then some true else if sk == "0" then some false else none)
      let ix ← parseOptNat ix
      let dc ← parseOptNat dc
      let nf ← nf.toNat?
      let (fs, r) ← parseFields nf r
      let (vs, r) ← parseVariantDefs n r
      pure (⟨sk, ix, dc, fs⟩ :: vs, r)
    | _ => none

partial def parseTypeDef : Toks → Option (Derive.TypeDef × Toks)
  | "struct" :: n :: r => do
    let n ← n.toNat?
    let (fs, r) ← parseFields n r
    pure (.struct fs, r)
  | "enum" :: n :: r => do
    let n ← n.toNat?
    let (vs, r) ← parseVariantDefs n r
    pure (.enum vs, r)
  | "union" :: r => some (.union, r)
  | _ => none

partial def parseTys : Nat → Toks → Option (List Ty × Toks)
  | 0, r => some ([], r)
  | n+1, r => do
    let (t, r) ← parseTy r
    let (ts, r) ← parseTys n r
    pure (t :: ts, r)

partial def parseVariants : Nat → Toks → Option (List Nat × List Ty × Toks)
  | 0, r => some ([], [], r)
  | n+1, r => match r with
    | i :: r => do
      let i ← i.toNat?
      let (t, r) ← parseTy r
      let (is, ts, r) ← parseVariants n r
      pure (i :: is, t :: ts, r)
    | _ => none
end

def hexVal (c : Char) : Option Nat :=
  if '0' ≤ c ∧ c ≤ '9' then some (c.toNat - 48)
  else if 'a' ≤ c ∧ c ≤ 'f' then some (c.toNat - 87)
  else none

partial def parseHexChars : List Char → Bytes → Option Bytes
  | [], acc => some acc.reverse
  | a :: b :: r, acc => do
    let x ← hexVal a
    let y ← hexVal b
    parseHexChars r (UInt8.ofNat (16 * x + y) :: acc)
  | _, _ => none

/-- `-` stands for the empty byte string. -/
def parseHex (s : String) : Option Bytes :=
  if s == "-" then some [] else parseHexChars s.toList []

def showHex (bs : Bytes) : String := if bs.isEmpty then "-" else toHex bs

def parseBits (cs : List Char) : Option (List Bool) :=
  cs.mapM fun c => if c == '0' then some false else if c == '1' then some true else none

mutual
partial def parseVal : Toks → Option (Val × Toks)
  | [] => none
  | tok :: rest =>
    match tok.toList with
    | ['U'] => some (.unit, rest)
    | ['t'] => some (.bool true, rest)
    | ['f'] => some (.bool false, rest)
    | ['N'] => some (.none, rest)
    | ['K'] => some (.skipped, rest)
    | ['S'] => (parseVal rest).map fun (v, r) => (.some v, r)
    | ['O'] => (parseVal rest).map fun (v, r) => (.ok v, r)
    | ['E'] => (parseVal rest).map fun (v, r) => (.err v, r)
    | ['L'] => match rest with
      | n :: r => do
        let n ← n.toNat?
        let (vs, r) ← parseVals n r []
        pure (.seq vs, r)
      | _ => none
    | ['V'] => match rest with
      | i :: r => do
        let i ← i.toNat?
        let (v, r) ← parseVal r
        pure (.variant i v, r)
      | _ => none
    | 'n' :: ds => (String.ofList ds).toNat?.map fun n => (.nat n, rest)
    | 'i' :: ds => (String.ofList ds).toInt?.map fun i => (.int i, rest)
    | 'x' :: hs => (if hs.isEmpty then some [] else parseHexChars hs []).map fun b => (.bytes b, rest)
    | 'b' :: bs => (parseBits bs).map fun b => (.bits b, rest)
    | _ => none

partial def parseVals : Nat → Toks → List Val → Option (List Val × Toks)
  | 0, r, acc => some (acc.reverse, r)
  | n+1, r, acc => do
    let (v, r) ← parseVal r
    parseVals n r (v :: acc)
end

partial def showVal : Val → String
  | .unit => "U"
  | .bool true => "t"
  | .bool false => "f"
  | .nat n => "n" ++ toString n
  | .int i => "i" ++ toString i
  | .none => "N"
  | .some v => "S " ++ showVal v
  | .ok v => "O " ++ showVal v
  | .err v => "E " ++ showVal v
  | .seq vs => vs.foldl (fun acc v => acc ++ " " ++ showVal v) ("L " ++ toString vs.length)
  | .bytes bs => "x" ++ toHex bs
  | .bits bs => String.ofList ('b' :: bs.map fun b => if b then '1' else '0')
  | .variant i v => "V " ++ toString i ++ " " ++ showVal v
  | .skipped => "K"

def showResBytes : Res Bytes → String
  | .ok b => showHex b
  | .err => "err"
  | .panic => "panic"

def showDec (r : Res Val × Bytes) : String :=
  match r with
  | (.ok v, rest) => "ok " ++ showVal v ++ " " ++ toString rest.length
  | (.err, _) => "err"
  | (.panic, _) => "panic"

def showResVal : Res Val → String
  | .ok v => "ok " ++ showVal v
  | .err => "err"
  | .panic => "panic"

/-- One `Input` trait call on an input implementation, printed like the harness prints it. -/
def applyOp {σ : Type} (I : InputOps σ) (op : String) (s : σ) : Option (String × σ) :=
  match op.toList with
  | 'r' :: ds =>
    (String.ofList ds).toNat?.map fun n =>
      match I.read n s with
      | (.ok b, s1) => ("k" ++ toHex b, s1)
      | (.err, s1) => ("e", s1)
      | (.panic, s1) => ("p", s1)
  | ['b'] =>
    some (match I.readByte s with
      | (.ok b, s1) => ("k" ++ toHex [b], s1)
      | (.err, s1) => ("e", s1)
      | (.panic, s1) => ("p", s1))
  | ['l'] =>
    some (match I.remainingLen s with
      | (.ok (some n), s1) => ("s" ++ toString n, s1)
      | (.ok none, s1) => ("n", s1)
      | (.err, s1) => ("e", s1)
      | (.panic, s1) => ("p", s1))
  | ['d'] =>
    some (match I.descend s with
      | (.ok (), s1) => ("k", s1)
      | (.err, s1) => ("e", s1)
      | (.panic, s1) => ("p", s1))
  | ['a'] => some ("k", I.ascend s)
  | 'm' :: ds =>
    (String.ofList ds).toNat?.map fun n =>
      match I.onAlloc n s with
      | (.ok (), s1) => ("k", s1)
      | (.err, s1) => ("e", s1)
      | (.panic, s1) => ("p", s1)
  | _ => none

/-- Apply an operation sequence to a wrapper over a slice, printing `result:counter` per step. -/
def runOps {σ : Type} (I : InputOps (σ × Nat)) : List String → σ × Nat → List String → Option (List String)
  | [], _, acc => some acc.reverse
  | op :: ops, s, acc =>
    match applyOp I op s with
    | some (r, s1) => runOps I ops s1 ((r ++ ":" ++ toString s1.2) :: acc)
    | none => none

/-- The same, also returning the final state. -/
def runOpsSt {σ : Type} (I : InputOps (σ × Nat)) : List String → σ × Nat → List String → Option (List String × (σ × Nat))
  | [], s, acc => some (acc.reverse, s)
  | op :: ops, s, acc =>
    match applyOp I op s with
    | some (r, s1) => runOpsSt I ops s1 ((r ++ ":" ++ toString s1.2) :: acc)
    | none => none

def parseLenMode (s : String) : Option LenMode :=
  match s.toList with
  | ['x'] => some .exact
  | ['n'] => some .unknown
  | 'c' :: ds => (String.ofList ds).toNat?.map .const
  | 'p' :: ds => (String.ofList ds).toNat?.map .capped
  | _ => none

def showHooks (l : List Hook) : String :=
  ",".intercalate (l.map fun
    | .desc => "d"
    | .asc => "a"
    | .alloc n => "m" ++ toString n)

/-- Answer one request line. -/
def answer (line : String) : String :=
  let toks := (line.trimAscii.toString.splitOn " ").filter (· ≠ "")
  match toks with
  | ["cenc", w, x] =>
    match w.toNat?, x.toNat? with
    | some w, some x =>
      showResBytes (Impl.compactEncodeTo w x) ++ " " ++ toString (Impl.compactLen w x) ++ " " ++
        showResBytes (Impl.compactUsingEncoded w x)
    | _, _ => "bad-op"
  | ["cdec", w, h] =>
    match w.toNat?, parseHex h with
    | some w, some bs =>
      match compactDecode w bs with
      | (.ok x, rest) => "ok " ++ toString x ++ " " ++ toString rest.length
      | (.err, _) => "err"
      | (.panic, _) => "panic"
    | _, _ => "bad-op"
  | "enc" :: rest =>
    match parseTy rest with
    | some (ty, r) =>
      match parseVal r with
      | some (v, []) => showResBytes (Impl.encodeTo ty v)
      | _ => "bad-op"
    | none => "bad-op"
  | "encdq" :: rest =>
    match parseTy rest with
    | some (ty, r) =>
      match parseVal r with
      | some (.seq front, r2) =>
        match parseVal r2 with
        | some (.seq back, []) => showResBytes (Impl.encodeDeque ty front back)
        | _ => "bad-op"
      | _ => "bad-op"
    | none => "bad-op"
  | "enc4" :: rest =>
    match parseTy rest with
    | some (ty, r) =>
      match parseVal r with
      | some (v, []) =>
        match Impl.encode ty v, Impl.usingEncoded ty v, Impl.encodedSize ty v with
        | .ok a, .ok u, .ok n => showHex a ++ " " ++ showHex u ++ " " ++ toString n
        | _, _, _ => "panic"
      | _ => "bad-op"
    | none => "bad-op"
  | "join" :: acc :: rest =>
    -- `acc.and(&v)` and `v.to_keyed_vec(&acc)`
    match parseHex acc, parseTy rest with
    | some acc, some (ty, r) =>
      match parseVal r with
      | some (v, []) => showResBytes (Impl.joinerAnd acc ty v) ++ " " ++ showResBytes (Impl.toKeyedVec acc ty v)
      | _ => "bad-op"
    | _, _ => "bad-op"
  | "dec" :: rest =>
    match parseTy rest with
    | some (ty, [h]) =>
      match parseHex h with
      | some bs => showDec (decode ty bs)
      | none => "bad-op"
    | _ => "bad-op"
  | "decpos" :: rest =>
    -- where the slice stands after the decode, successful or not
    match parseTy rest with
    | some (ty, [h]) =>
      match parseHex h with
      | some bs =>
        match decode ty bs with
        | (.ok _, r) => "ok " ++ toString r.length
        | (.err, r) => "err " ++ toString r.length
        | (.panic, _) => "panic"
      | none => "bad-op"
    | _ => "bad-op"
  | "dvl" :: kind :: len :: rest =>
    -- the public `decode_vec_with_len::<T, _>(input, len)` called directly, with any `len`
    -- (the type argument is given as `Vec<T>`, for the element size); over a slice / a reader
    match len.toNat?, parseTy rest with
    | some len, some (.seq .vec sz t, [h]) =>
      match parseHex h with
      | some bs =>
        let p := (Impl.decodeVecWithLen sz t (Impl.decodeP t) len).bind fun vs => Prog.pure (Val.seq vs)
        let r := if kind = "slice" then run (traceRec sliceInput) p (bs, []) else run (traceRec ioInput) p (bs, [])
        let hooks := r.2.2.foldl (fun acc e => match e with
          | .alloc n => (acc.1 + 1, satAdd acc.2 n) | _ => acc) (0, 0)
        match r.1 with
        | .ok v => "ok " ++ showVal v ++ " " ++ toString r.2.1.length ++ " hooks=" ++ toString hooks.1 ++ "/" ++ toString hooks.2
        | .err => "err"
        | .panic => "panic"
      | none => "bad-op"
    | _, _ => "bad-op"
  | "decio" :: rest =>
    match parseTy rest with
    | some (ty, [h]) =>
      match parseHex h with
      | some bs =>
        match run ioInput (Impl.decodeP ty) bs with
        | (.ok v, r) => "ok " ++ showVal v ++ " " ++ toString r.length
        | (.err, _) => "err"
        | (.panic, _) => "panic"
      | none => "bad-op"
    | _ => "bad-op"
  | "decbc" :: rest =>
    match parseTy rest with
    | some (ty, [h]) =>
      match parseHex h with
      | some bs =>
        -- `decode_from_bytes`: the cursor with its position arithmetic (`cursorInput`)
        match run cursorInput (Impl.decodeP ty) (bs, 0) with
        | (.ok v, r) => "ok " ++ showVal v ++ " " ++ toString (r.1.length - r.2)
        | (.err, _) => "err"
        | (.panic, _) => "panic"
      | none => "bad-op"
    | _ => "bad-op"
  | "decall" :: rest =>
    match parseTy rest with
    | some (ty, [h]) =>
      match parseHex h with
      | some bs => showResVal (decodeAll ty bs)
      | none => "bad-op"
    | _ => "bad-op"
  | "limall" :: l :: rest =>
    match l.toNat?, parseTy rest with
    | some l, some (ty, [h]) =>
      match parseHex h with
      | some bs => showResVal (decodeAllLimit l ty bs)
      | none => "bad-op"
    | _, _ => "bad-op"
  | "reqs" :: kind :: skip :: rest =>
    -- C09: the heap requests of decoding `bs` (count, sum, largest), over a slice or over a reader
    -- of unknown length; zero-sized requests never reach an allocator; a failing decode leaves out
    -- requests of exactly `skip` bytes (the boxed cause of a chained error on the Rust side)
    match skip.toNat?, parseTy rest with
    | some skip, some (ty, [h]) =>
      match parseHex h with
      | some bs =>
        let r := if kind = "slice" then requestsFast sliceInput ty bs else requestsFast ioInput ty bs
        let all := r.2.2.filter (· ≠ 0)
        let show_ (tag : String) (l : List Nat) :=
          tag ++ " n=" ++ toString l.length ++ " total=" ++ toString (l.foldl (· + ·) 0) ++ " max=" ++ toString (l.foldl max 0)
        match r.1 with
        | .ok _ => show_ "ok" all
        | .err => show_ "err" (all.filter (· ≠ skip))
        | .panic => "panic"
      | none => "bad-op"
    | _, _ => "bad-op"
  | "payload" :: rest =>
    -- C12: the heap payload of a value (what `used_mem()` ends at after decoding its encoding)
    match parseTy rest with
    | some (ty, r) =>
      match parseVal r with
      | some (v, []) => if wf ty v then toString (min (payload ty v) usizeMax) else "err"
      | _ => "bad-op"
    | none => "bad-op"
  | "nesting" :: rest =>
    -- C11: the container nesting of a value (the least depth limit its encoding decodes under)
    match parseTy rest with
    | some (ty, r) =>
      match parseVal r with
      | some (v, []) => if wf ty v then toString (nesting ty v) else "err"
      | _ => "bad-op"
    | none => "bad-op"
  | "limit" :: l :: rest =>
    match l.toNat?, parseTy rest with
    | some l, some (ty, [h]) =>
      match parseHex h with
      | some bs => showDec (decodeLimit l ty bs)
      | none => "bad-op"
    | _, _ => "bad-op"
  | "mem" :: l :: rest =>
    match l.toNat?, parseTy rest with
    | some l, some (ty, [h]) =>
      match parseHex h with
      | some bs =>
        let (r, rest', used) := decodeMemLimit l ty bs
        match r with
        | .ok _ => showDec (r, rest') ++ " used=" ++ toString used
        | _ => showDec (r, rest')
      | none => "bad-op"
    | _, _ => "bad-op"
  | "count" :: rest =>
    match parseTy rest with
    | some (ty, [h]) =>
      match parseHex h with
      | some bs =>
        let (r, rest', c) := decodeCounted ty bs
        match r with
        | .ok _ => showDec (r, rest') ++ " count=" ++ toString c
        | _ => showDec (r, rest')
      | none => "bad-op"
    | _ => "bad-op"
  | "skip" :: rest =>
    match parseTy rest with
    | some (ty, [h]) =>
      match parseHex h with
      | some bs =>
        match skip ty bs with
        | (.ok (), r) => "ok " ++ toString r.length
        | (.err, _) => "err"
        | (.panic, _) => "panic"
      | none => "bad-op"
    | _ => "bad-op"
  | "cops" :: h :: ops =>
    match parseHex h with
    | some bs =>
      match runOps (countedInput sliceInput) ops (bs, 0) [] with
      | some out => " ".intercalate out
      | none => "bad-op"
    | none => "bad-op"
  | "cops2" :: mode :: short :: h :: ops =>
    -- the counting wrapper over an inner input with an arbitrary `remaining_len` report that logs
    -- the hook calls forwarded to it: per step `result:count`, then the unread length and the log
    match parseLenMode mode, parseHex h with
    | some mode, some bs =>
      match runOpsSt (countedInput (traceRec (hintInput mode (short == "s")))) ops ((bs, []), 0) [] with
      | some (out, st) => " ".intercalate out ++ " | " ++ toString st.1.1.length ++ " " ++ showHooks st.1.2
      | none => "bad-op"
    | _, _ => "bad-op"
  | "cops3" :: l :: h :: ops =>
    -- the counting wrapper over a memory tracker (limit `l`) over the probe input
    match l.toNat?, parseHex h with
    | some l, some bs =>
      match runOpsSt (countedInput (memInput l (traceRec (hintInput .exact false)))) ops (((bs, []), 0), 0) [] with
      | some (out, st) => " ".intercalate out ++ " | " ++ toString st.1.1.1.length ++ " " ++ showHooks st.1.1.2
      | none => "bad-op"
    | _, _ => "bad-op"
  | "mops2" :: l :: mode :: short :: h :: ops =>
    match l.toNat?, parseLenMode mode, parseHex h with
    | some l, some mode, some bs =>
      match runOpsSt (memInput l (traceRec (hintInput mode (short == "s")))) ops ((bs, []), 0) [] with
      | some (out, st) => " ".intercalate out ++ " | " ++ toString st.1.1.length ++ " " ++ showHooks st.1.2
      | none => "bad-op"
    | _, _, _ => "bad-op"
  | "mops" :: l :: h :: ops =>
    match l.toNat?, parseHex h with
    | some l, some bs =>
      match runOps (memInput l sliceInput) ops (bs, 0) [] with
      | some out => " ".intercalate out
      | none => "bad-op"
    | _, _ => "bad-op"
  | ["len", h] =>
    match parseHex h with
    | some bs =>
      match Impl.decodeLen bs with
      | .ok n => "ok " ++ toString n
      | .err => "err"
      | .panic => "panic"
    | none => "bad-op"
  | ["appendn", hv, m, hp] =>
    match parseHex hv, m.toNat?, parseHex hp with
    | some v, some m, some p => showResBytes (Impl.appendOrNewN v m p)
    | _, _, _ => "bad-op"
  | "like" :: rest =>
    match parseTy rest with
    | some (a, r) =>
      match parseTy r with
      | some (b, []) => if encodesLike a b then "yes" else "no"
      | _ => "bad-op"
    | none => "bad-op"
  | "accepts" :: rest =>
    match parseTypeDef rest with
    | some (d, []) => if Derive.accepts d then "accept" else "reject"
    | _ => "bad-op"
  | "acceptsca" :: rest =>
    match parseTypeDef rest with
    | some (d, []) => if Derive.acceptsCompactAs d then "accept" else "reject"
    | _ => "bad-op"
  | ["ledger", shape, n, k, kind] =>
    match n.toNat?, (if k == "-" then some none else k.toNat?.map some) with
    | some n, some k =>
      let bad : Ledger.Outcome := if kind == "panic" then .panic else .err
      let elem : Nat → Ledger.Outcome := fun i => if some i = k then bad else .ok
      match shape with
      | "array" => Ledger.summary (Ledger.arrayDecodeInto n elem true)
      | "boxarray" => Ledger.summary (Ledger.boxDecode true (Ledger.arrayDecodeInto n elem true))
      | "vec" => Ledger.summary (Ledger.vecDecode n elem)
      | "transparent" => Ledger.summary (Ledger.transparentDecodeInto n elem)
      | "boxtransparent" => Ledger.summary (Ledger.boxDecode true (Ledger.transparentDecodeInto n elem))
      | _ => "bad-op"
    | _, _ => "bad-op"
  | "mel" :: rest =>
    match parseTy rest with
    | some (ty, []) => if Impl.hasMel ty then toString (Impl.mel ty) else "none"
    | _ => "bad-op"
  | "cel" :: rest =>
    match parseTy rest with
    | some (ty, []) => if Impl.isCel ty then "yes" else "no"
    | _ => "bad-op"
  | "fixed" :: rest =>
    match parseTy rest with
    | some (ty, []) =>
      match Impl.encodedFixedSize ty with
      | some n => "some " ++ toString n
      | none => "none"
    | _ => "bad-op"
  | _ => "bad-op"

end Scale.Driver
