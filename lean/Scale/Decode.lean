/-
  Scale/Decode.lean — `Impl.decodeP`: what `Decode::decode` does for every modelled type, as an
  interaction tree over the `Input` trait (`src/codec.rs`, `src/compact.rs`, `src/bit_vec.rs`,
  `src/generic_array.rs`, `derive/src/decode.rs`).
-/
import Scale.Ty
import Scale.Order
import Scale.Compact
namespace Scale
namespace Impl
open Prog

/-- `mem_size_of_btree::<T>(len)` (`src/btree_utils.rs`) with `size_of` of the leaf node `leaf`:
    `B = 6`, `CAPACITY = 11`, `MIN_LEN_AFTER_SPLIT = 5`; an internal node adds `[usize; 12]`. -/
def btreeMemSize (leaf len : Nat) : Nat :=
  if len = 0 then 0 else
  let internal := leaf + 96
  let numNodes := len / ((11 + 5) * 2 / 3)
  if numNodes = 0 then leaf else satMul numNodes internal

/-- `chunk_len` of `decode_vec_chunked`: `MAX_PREALLOCATION.checked_div(size_of::<T>()).unwrap_or(usize::MAX)`. -/
def chunkLenOf (sz : Nat) : Nat := if sz = 0 then usizeMax else maxPrealloc / sz

/-- The loop of `decode_vec_chunked` with the closure of `decode_vec_from_items`:
    per chunk, `on_before_alloc_mem(chunk_len * size_of::<T>())` then `chunk_len` element decodes. -/
def itemChunks (sz : Nat) (item : Prog Val) : Nat → Nat → Prog (List Val)
  | 0, _ => .pure []
  | fuel+1, remaining =>
    if remaining = 0 then .pure [] else
    let c := min (chunkLenOf sz) remaining
    .alloc (satMul c sz) fun _ =>
      (replicateM c item).bind fun xs =>
        (itemChunks sz item fuel (remaining - c)).bind fun ys => .pure (xs ++ ys)

/-- `decode_vec_from_items`. -/
def decodeItems (sz len : Nat) (item : Prog Val) : Prog (List Val) :=
  .descend fun _ => (itemChunks sz item len len).bind fun xs => .ascend fun _ => .pure xs

/-- The elements of a bulk-read buffer. -/
def primElems (p : Prim) (n : Nat) (bs : Bytes) : List Val := (chunksOf p.size n bs).map (primVal p)

/-- `decode_vec_with_len::<T>(input, len)`: bulk for the twelve primitive element types,
    element by element otherwise. -/
def decodeVecWithLen (sz : Nat) (t : Ty) (item : Prog Val) (len : Nat) : Prog (List Val) :=
  match t with
  | .prim p => .bulk p.size len fun bs => .pure (primElems p len bs)
  | _ => decodeItems sz len item

/-- `bitvec::mem::elts::<T>(bits)`: number of storage elements for `bits` bits. -/
def elts (w bits : Nat) : Nat := (bits + w - 1) / w

/-- `u8`/`i8` use `read_byte`, the wider primitives `read(&mut [0u8; size])`. -/
def decodePrim (p : Prim) : Prog Val :=
  if p.size = 1 then .readByte fun b => .pure (primVal p [b])
  else .read p.size fun bs => .pure (primVal p bs)

mutual
def decodeP : Ty → Prog Val
  | .unit => .pure .unit
  | .bool => .readByte fun b =>
      if b.toNat = 0 then .pure (.bool false) else if b.toNat = 1 then .pure (.bool true) else .fail
  | .optionBool => .readByte fun b =>
      if b.toNat = 0 then .pure .none
      else if b.toNat = 1 then .pure (.some (.bool true))
      else if b.toNat = 2 then .pure (.some (.bool false)) else .fail
  | .prim p => decodePrim p
  | .nonZero p => (decodePrim p).bind fun v => if primIsZero v then .fail else .pure v
  | .compact w => (compactDec w).bind fun n => .pure (.nat n)
  | .option t => .readByte fun b =>
      if b.toNat = 0 then .pure .none
      else if b.toNat = 1 then (decodeP t).bind fun v => .pure (.some v) else .fail
  | .result t e => .readByte fun b =>
      if b.toNat = 0 then (decodeP t).bind fun v => .pure (.ok v)
      else if b.toNat = 1 then (decodeP e).bind fun v => .pure (.err v) else .fail
  | .tuple ts => (decodeList ts).bind fun vs => .pure (.seq vs)
  | .array n t =>
      match t with
      | .prim p => .read (n * p.size) fun bs => .pure (.seq (primElems p n bs))
      | _ => (replicateM n (decodeP t)).bind fun vs => .pure (.seq vs)
  | .garray n t => (replicateM n (decodeP t)).bind fun vs => .pure (.seq vs)
  | .seq k sz t =>
      (compactDec 4).bind fun len =>
        match k with
        | .vec | .deque =>
          (decodeVecWithLen sz t (decodeP t) len).bind fun vs => .pure (.seq vs)
        | .heap =>
          -- `Vec::decode(input)?.into()`: the heap's internal order is std's; values of heap type
          -- are compared as sorted multisets
          (decodeVecWithLen sz t (decodeP t) len).bind fun vs => .pure (.seq (sortVals Val.cmp vs))
        | .list =>
          .descend fun _ => .alloc (satMul len sz) fun _ =>
            (replicateM len (decodeP t)).bind fun vs => .ascend fun _ => .pure (.seq vs)
        | .bset =>
          .descend fun _ => .alloc (btreeMemSize sz len) fun _ =>
            (replicateM len (decodeP t)).bind fun vs =>
              .ascend fun _ => .pure (.seq (fromIter Val.cmp id vs))
        | .bmap =>
          .descend fun _ => .alloc (btreeMemSize sz len) fun _ =>
            (replicateM len (decodeP t)).bind fun vs =>
              .ascend fun _ => .pure (.seq (fromIter Val.cmp entryKey vs))
  | .str =>
      (compactDec 4).bind fun len =>
        .bulk 1 len fun bs => if utf8Valid bs then .pure (.bytes bs) else .fail
  | .bytes => (compactDec 4).bind fun len => .rawBytes len fun bs => .pure (.bytes bs)
  | .box sz t =>
      .descend fun _ => .alloc sz fun _ => (decodeP t).bind fun v => .ascend fun _ => .pure v
  | .wrap t =>
      .descend fun _ => (decodeP t).bind fun v => .ascend fun _ => .pure v
  | .duration =>
      .read 8 fun s => .read 4 fun n =>
        if fromLe n ≥ 1000000000 then .fail else .pure (.seq [.nat (fromLe s), .nat (fromLe n)])
  | .range t => (decodeP t).bind fun a => (decodeP t).bind fun b => .pure (.seq [a, b])
  | .bitseq store msb =>
      (compactDec 4).bind fun bits =>
        if bits > maxBits then .fail else
        let w := 8 * store.size
        .bulk store.size (elts w bits) fun bs =>
          let all := ((chunksOf store.size (elts w bits) bs).map fun e => elemToBits w msb (fromLe e)).flatten
          if bits ≤ all.length then .pure (.bits (all.take bits)) else .panic
  | .enum idxs ts => .readByte fun b => decodeVariant idxs ts b.toNat
termination_by structural t => t

def decodeList : List Ty → Prog (List Val)
  | [] => .pure []
  | t :: ts => (decodeP t).bind fun v => (decodeList ts).bind fun vs => .pure (v :: vs)
termination_by structural ts => ts

/-- The derived `match input.read_byte()? { x if x == INDEX as u8 => …, _ => Err }`. -/
def decodeVariant : List Nat → List Ty → Nat → Prog Val
  | i :: is, t :: ts, b =>
    if i % 256 = b then (decodeP t).bind fun v => .pure (.variant i v) else decodeVariant is ts b
  | _, _, _ => .fail
termination_by structural _ ts => ts
end

end Impl

/-- `T::decode(&mut &bytes[..])`: result and the unread rest of the slice. -/
def decode (ty : Ty) (bs : Bytes) : Res Val × Bytes := run sliceInput (Impl.decodeP ty) bs

end Scale
