#!/usr/bin/env python3
"""
gen_programs.py — seeded generator of type definitions over the derive's attribute grammar.

  harness  --seed S --n N --out FILE      valid definitions + their `Modeled` impls (Rust source for
                                          the correspondence harness); each definition carries its
                                          *surface* descriptor (`adt …`), which the Lean model
                                          elaborates itself (Scale/Derive.lean)
  compile  --seed S --n N --out DIR       a scratch crate with one module file per definition —
                                          valid ones and minimally different invalid twins — plus
                                          expect.json (surface descriptor + which fault was planted)

The generator is the ground truth of what a generated definition *is*.
"""
import sys, json, random, os

# ---- field type pool: (rust type, model descriptor, has MaxEncodedLen, compact width or None) ----
POOL = [
    ("u8", "u8", True, 1), ("u16", "u16", True, 2), ("u32", "u32", True, 4), ("u64", "u64", True, 8),
    ("u128", "u128", True, 16), ("i16", "i16", True, None), ("i64", "i64", True, None), ("bool", "bool", True, None),
    ("Vec<u8>", None, False, None), ("Vec<u16>", None, False, None), ("String", None, False, None),
    ("Option<u16>", None, True, None), ("Option<bool>", None, True, None), ("(u8, u16)", None, True, None),
    ("[u8; 3]", None, True, None), ("[u16; 2]", None, True, None), ("Box<u32>", None, True, None),
    ("Vec<Option<u8>>", None, False, None), ("()", None, True, None),
    ("Option<Vec<u8>>", None, False, None), ("core::time::Duration", None, True, None),
]
INTS = [p for p in POOL if p[3] is not None]


def pick_field(r, allow_nested, nested_pool):
    """returns dict(rust, has_mel, compact_width)"""
    if allow_nested and nested_pool and r.random() < 0.2:
        n = r.choice(nested_pool)
        return {"rust": n["name"], "mel": n["mel"], "cw": None, "nested": n["name"]}
    p = r.choice(POOL)
    return {"rust": p[0], "mel": p[2], "cw": p[3]}


def gen_fields(r, nested_pool, nmax=4, force_single=False):
    n = 1 if force_single else r.choice([0, 1, 1, 2, 2, 3, nmax])
    fs = []
    for i in range(n):
        attr = r.choice(["p", "p", "p", "s", "c", "a"])
        if attr in ("c", "a"):
            p = r.choice(INTS)
            f = {"rust": p[0], "mel": True, "cw": p[3]}
        else:
            f = pick_field(r, True, nested_pool)
            if "nested" in f and attr == "s":
                attr = "p"
        f["attr"] = attr
        fs.append(f)
    return fs


def field_desc(f):
    """surface descriptor of a field; the Rust type's descriptor is spliced in by the harness
    (`{T}` placeholders resolved with `<T as Modeled>::ty(d)` at run time)."""
    a = f["attr"]
    if a == "a":
        return ("a", f["rust"], "c %d" % f["cw"])
    return (a, f["rust"], None)


def rust_field_attr(f):
    a = f["attr"]
    if a == "s":
        return "#[codec(skip)] "
    if a == "c":
        return "#[codec(compact)] "
    if a == "a":
        return '#[codec(encoded_as = "<%s as parity_scale_codec::HasCompact>::Type")] ' % f["rust"]
    return ""


def gen_def(r, idx, nested_pool):
    kind = r.choice(["struct_named", "struct_tuple", "struct_unit", "enum", "enum", "transparent"])
    name = "P%d" % idx
    d = {"name": name, "kind": kind}
    if kind == "struct_unit":
        d["fields"] = []
    elif kind == "transparent":
        f = pick_field(r, False, [])
        f["attr"] = r.choice(["p", "p", "c"]) if f["cw"] else "p"
        d["fields"] = [f]
    elif kind.startswith("struct"):
        d["fields"] = gen_fields(r, nested_pool)
    else:
        nv = r.choice([0, 1, 2, 3, 4, 6])
        vs = []
        used = set()
        allskip = nv > 0 and r.random() < 0.12
        use_disc = r.random() < 0.3
        next_disc = 0
        pos = 0
        for j in range(nv):
            v = {"name": "V%d" % j, "skip": allskip or r.random() < 0.15, "idx": None, "disc": None}
            shape = r.choice(["unit", "unit", "tuple", "named"])
            v["shape"] = shape
            v["fields"] = [] if shape == "unit" else gen_fields(r, nested_pool, nmax=3)
            if shape != "unit" and not v["fields"]:
                v["shape"] = "unit"
            # rustc's own rule: discriminants (explicit, or previous + 1) are distinct and fit repr(u8)
            if use_disc and r.random() < 0.5:
                cand = r.choice([next_disc, next_disc + r.randrange(1, 5), r.randrange(0, 250)])
                v["disc"] = cand
            rd = v["disc"] if v["disc"] is not None else next_disc
            v["rustc_disc"] = rd
            next_disc = rd + 1
            if not v["skip"] and r.random() < 0.25:
                v["idx"] = r.choice([0, 1, 2, 7, 100, 254, 255, r.randrange(0, 256)])
            vs.append(v)
        # repair: rustc discriminants must be unique and <= 255
        seen = set()
        nd = 0
        for v in vs:
            rd = v["disc"] if v["disc"] is not None else nd
            while rd in seen or rd > 255:
                rd = (rd + 1) % 256
                if v["disc"] is not None:
                    v["disc"] = rd
                else:
                    v["disc"] = rd
            v["rustc_disc"] = rd
            seen.add(rd)
            nd = rd + 1
        # repair codec indices: distinct among non-skipped
        pos = 0
        taken = set()
        for v in vs:
            if v["skip"]:
                continue
            def cur():
                return v["idx"] if v["idx"] is not None else (v["disc"] if v["disc"] is not None else pos)
            tries = 0
            while cur() in taken or cur() > 255:
                v["idx"] = r.randrange(0, 256)
                tries += 1
            taken.add(cur())
            v["codec_index"] = cur()
            pos += 1
        d["variants"] = vs
    return d


def all_fields(d):
    if d["kind"] == "enum":
        return [f for v in d["variants"] if not v["skip"] for f in v["fields"]]
    return d["fields"]


def has_mel(d):
    return all(f["mel"] for f in all_fields(d) if f["attr"] != "s")


# ---------------------------------------------------------------------------------------------
# Rust emission
# ---------------------------------------------------------------------------------------------

def rust_fields(fs, named, pub=True):
    out = []
    for i, f in enumerate(fs):
        nm = ("f%d: " % i) if named else ""
        out.append("%s%s%s%s" % (rust_field_attr(f), "pub " if pub else "", nm, f["rust"]))
    return out


def rust_def(d, derives):
    name = d["name"]
    k = d["kind"]
    head = "#[derive(%s)]\n" % ", ".join(derives)
    if k == "struct_unit":
        return head + "pub struct %s;\n" % name
    if k == "transparent":
        return head + "#[repr(transparent)]\npub struct %s(%s);\n" % (name, ", ".join(rust_fields(d["fields"], False)))
    if k == "struct_named":
        return head + "pub struct %s {\n%s}\n" % (name, "".join("\t%s,\n" % x for x in rust_fields(d["fields"], True)))
    if k == "struct_tuple":
        if not d["fields"]:
            return head + "pub struct %s();\n" % name
        return head + "pub struct %s(%s);\n" % (name, ", ".join(rust_fields(d["fields"], False)))
    # enum
    body = ""
    need_repr = any(v["disc"] is not None for v in d["variants"]) and any(v["shape"] != "unit" for v in d["variants"])
    for v in d["variants"]:
        attrs = ""
        if v["skip"]:
            attrs += "#[codec(skip)] "
        if v["idx"] is not None:
            attrs += "#[codec(index = %d)] " % v["idx"]
        if v["shape"] == "unit":
            item = v["name"]
        elif v["shape"] == "tuple":
            item = "%s(%s)" % (v["name"], ", ".join(rust_fields(v["fields"], False, pub=False)))
        else:
            item = "%s { %s }" % (v["name"], ", ".join(rust_fields(v["fields"], True, pub=False)))
        if v["disc"] is not None:
            item += " = %d" % v["disc"]
        body += "\t%s%s,\n" % (attrs, item)
    return head + ("#[repr(u8)]\n" if need_repr else "") + "pub enum %s {\n%s}\n" % (name, body)


def desc_fields_expr(fs):
    """Rust expression (String) building the surface descriptor of a field list."""
    parts = ['format!("{}", %d)' % len(fs)]
    for f in fs:
        a, rust, asdesc = field_desc(f)
        if a == "a":
            parts.append('format!("a {} {}", "%s", <%s as Modeled>::ty(d))' % (asdesc, rust))
        else:
            parts.append('format!("%s {}", <%s as Modeled>::ty(d))' % (a, rust))
    return "vec![%s].join(\" \")" % ", ".join(parts)


def val_fields_stmts(fs, access):
    """statements pushing the non-skipped field values"""
    live = [(i, f) for i, f in enumerate(fs) if f["attr"] != "s"]
    s = 'write!(out, "L %d").unwrap();\n' % len(live)
    for i, f in live:
        if f["attr"] in ("c", "a"):
            s += 'write!(out, " n{}", %s).unwrap();\n' % access(i)
        else:
            s += 'out.push(\' \'); Modeled::val(&%s, out, c);\n' % access(i)
    return s


def gen_fields_expr(fs):
    out = []
    for f in fs:
        if f["attr"] == "s":
            out.append("Default::default()")
        else:
            out.append("<%s as Modeled>::gen(g)" % f["rust"])
    return out


def modeled_impl(d):
    name = d["name"]
    k = d["kind"]
    s = "impl Modeled for %s {\n" % name
    if k != "enum":
        fs = d["fields"]
        s += "\tfn ty(d: usize) -> String { format!(\"adt struct {}\", %s) }\n" % desc_fields_expr(fs)
        named = k == "struct_named"
        acc = (lambda i: "self.f%d" % i) if named else (lambda i: "self.%d" % i)
        s += "\tfn val(&self, out: &mut String, c: bool) {\n%s\t}\n" % val_fields_stmts(fs, acc)
        g = gen_fields_expr(fs)
        if k == "struct_unit":
            ctor = name
        elif named:
            ctor = "%s { %s }" % (name, ", ".join("f%d: %s" % (i, e) for i, e in enumerate(g)))
        else:
            ctor = "%s(%s)" % (name, ", ".join(g))
        s += "\tfn gen(g: &mut G) -> Self { %s }\n" % ctor
        s += "\tfn min_len() -> usize { 0 }\n}\n"
        return s
    vs = d["variants"]
    parts = ['format!("{}", %d)' % len(vs)]
    for v in vs:
        parts.append('format!("%d %s %s {}", %s)' % (1 if v["skip"] else 0, v["idx"] if v["idx"] is not None else "-",
                                                     v["disc"] if v["disc"] is not None else "-", desc_fields_expr(v["fields"])))
    s += "\tfn ty(d: usize) -> String { format!(\"adt enum {}\", vec![%s].join(\" \")) }\n" % ", ".join(parts)
    s += "\tfn val(&self, out: &mut String, c: bool) {\n\t\tmatch self {\n"
    for v in vs:
        fs = v["fields"]
        if v["shape"] == "unit":
            pat = "%s::%s" % (name, v["name"])
        elif v["shape"] == "tuple":
            pat = "%s::%s(%s)" % (name, v["name"], ", ".join("x%d" % i for i in range(len(fs))))
        else:
            pat = "%s::%s { %s }" % (name, v["name"], ", ".join("f%d: x%d" % (i, i) for i in range(len(fs))))
        if v["skip"]:
            body = "out.push('K');"
            pat = pat.replace("x", "_x")
        else:
            body = 'write!(out, "V %d ").unwrap();\n%s' % (v["codec_index"], val_fields_stmts(fs, lambda i: "*x%d" % i))
            body = body.replace("Modeled::val(&*x", "Modeled::val(x")
            # skipped fields are bound but unused
            for i, f in enumerate(fs):
                if f["attr"] == "s":
                    pat = pat.replace("x%d" % i, "_x%d" % i, 1) if v["shape"] == "tuple" else pat.replace(": x%d" % i, ": _x%d" % i)
        s += "\t\t\t%s => { %s }\n" % (pat, body)
    if not vs:
        s += "\t\t\t_ => unreachable!(),\n"
    s += "\t\t}\n\t}\n"
    live = [v for v in vs if not v["skip"]]
    s += "\tfn gen(g: &mut G) -> Self {\n"
    if not vs:
        s += "\t\tpanic!(\"uninhabited\")\n"
    else:
        cands = live if live else vs
        s += "\t\tmatch g.rng.below(%d) {\n" % len(cands)
        for j, v in enumerate(cands):
            g = gen_fields_expr(v["fields"])
            if v["shape"] == "unit":
                ctor = "%s::%s" % (name, v["name"])
            elif v["shape"] == "tuple":
                ctor = "%s::%s(%s)" % (name, v["name"], ", ".join(g))
            else:
                ctor = "%s::%s { %s }" % (name, v["name"], ", ".join("f%d: %s" % (i, e) for i, e in enumerate(g)))
            arm = "%d" % j if j + 1 < len(cands) else "_"
            s += "\t\t\t%s => %s,\n" % (arm, ctor)
        s += "\t\t}\n"
    s += "\t}\n\tfn min_len() -> usize { 0 }\n}\n"
    return s


def cmd_harness(seed, n, out):
    r = random.Random(seed)
    defs = []
    nested = []
    for i in range(n):
        d = gen_def(r, i, nested)
        d["mel"] = has_mel(d)
        defs.append(d)
        inhabited = d["kind"] != "enum" or len(d["variants"]) > 0
        if inhabited and len(nested) < 12 and r.random() < 0.4:
            nested.append({"name": d["name"], "mel": d["mel"]})
    src = "// @generated by gen/gen_programs.py harness --seed %d --n %d — do not edit\n" % (seed, n)
    src += "#![allow(unused_variables, unused_imports, dead_code, non_snake_case, clippy::all)]\n"
    src += "use crate::modeled::{Modeled, G};\nuse crate::streams::{run_type, TypeOpts};\nuse crate::Ctx;\nuse parity_scale_codec::{Decode, DecodeWithMemTracking, Encode, MaxEncodedLen};\nuse std::fmt::Write;\nuse std::rc::Rc;\n\n"
    for d in defs:
        derives = ["Encode", "Decode", "DecodeWithMemTracking", "PartialEq", "Debug", "Clone"]
        if d["mel"]:
            derives.insert(3, "MaxEncodedLen")
        needs_default = any(f["attr"] == "s" for f in all_fields(d)) or d["name"] in [x["name"] for x in nested]
        src += rust_def(d, derives)
        if d["name"] in [x["name"] for x in nested]:
            # nested definitions may sit in skipped fields of later ones: give them a Default
            src += default_impl(d)
        src += modeled_impl(d) + "\n"
    # catalogue (this file is `include!`d by catalogue.rs, after its macros)
    src += "pub fn run_generated(ctx: &mut Ctx, stream: &str, f: Option<&str>) {\n"
    for d in defs:
        nm = d["name"]
        if d["kind"] == "enum" and not d["variants"]:
            src += "\tif stream == \"exh\" { entry!(ctx, stream, f, %s, zw=true, small=false, budget=10); }\n" % nm
            continue
        no_rt = d["kind"] == "enum" and all(v["skip"] for v in d["variants"])
        guard = "if stream != \"rt\" && stream != \"pool\" && stream != \"cut\" " if no_rt else ""
        def ent(t):
            return "\t%s{ entry!(ctx, stream, f, %s, zw=true, small=false, budget=10); }\n" % (guard, t)
        src += ent(nm)
        if no_rt:
            continue
        if d["kind"] == "transparent":
            src += ent("Box<%s>" % nm) + ent("[%s; 2]" % nm) + ent("Rc<%s>" % nm)
        elif nm[-1] in "37":
            src += ent("Vec<%s>" % nm)
        elif nm[-1] in "5":
            src += ent("Option<Box<%s>>" % nm)
    src += "}\n"
    open(out, "w").write(src)
    print("wrote", out, len(defs), "definitions")


def default_impl(d):
    name = d["name"]
    k = d["kind"]
    if k == "enum":
        live = [v for v in d["variants"]]
        v = live[0]
        if v["shape"] == "unit":
            ctor = "%s::%s" % (name, v["name"])
        elif v["shape"] == "tuple":
            ctor = "%s::%s(%s)" % (name, v["name"], ", ".join("Default::default()" for _ in v["fields"]))
        else:
            ctor = "%s::%s { %s }" % (name, v["name"], ", ".join("f%d: Default::default()" % i for i in range(len(v["fields"]))))
    elif k == "struct_unit":
        ctor = name
    elif k == "struct_named":
        ctor = "%s { %s }" % (name, ", ".join("f%d: Default::default()" % i for i in range(len(d["fields"]))))
    else:
        ctor = "%s(%s)" % (name, ", ".join("Default::default()" for _ in d["fields"]))
    return "impl Default for %s { fn default() -> Self { %s } }\n" % (name, ctor)


if __name__ == "__main__":
    args = sys.argv[1:]
    mode = args[0]
    opt = dict(zip(args[1::2], args[2::2]))
    seed = int(opt.get("--seed", "1"))
    n = int(opt.get("--n", "100"))
    if mode == "harness":
        cmd_harness(seed, n, opt["--out"])
    else:
        sys.path.insert(0, os.path.dirname(os.path.abspath(__file__)))
        import gen_compile
        gen_compile.cmd_compile(sys.modules[__name__], seed, n, opt["--out"])
