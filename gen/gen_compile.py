"""
Compile-time acceptance programs for C17: a scratch crate with one module file per definition.
Every invalid definition is a minimally different twin of a valid one; expect.json records the
surface descriptor the model judges with `accepts`, and which fault (if any) was planted.
"""
import json, os, random


def surface_fields(fs):
    out = ["%d" % len(fs)]
    for f in fs:
        flags = f["flags"]
        if flags == "":
            out.append("p u32")
        elif flags == "s":
            out.append("s u32")
        elif flags == "c":
            out.append("c u32")
        elif flags == "a":
            out.append("a c 4 u32")
        else:
            out.append("x %s %su32" % (flags, "c 4 " if "a" in flags else ""))
    return " ".join(out)


def rust_fields(fs, comma=False):
    out = []
    for i, f in enumerate(fs):
        attrs = ""
        if comma and len(f["flags"]) > 1:
            # the same conflict written as ONE attribute with a comma-separated list
            items = []
            if "s" in f["flags"]:
                items.append("skip")
            if "c" in f["flags"]:
                items.append("compact")
            if "a" in f["flags"]:
                items.append('encoded_as = "<u32 as parity_scale_codec::HasCompact>::Type"')
            out.append("#[codec(%s)] f%d: u32" % (", ".join(items), i))
            continue
        if "s" in f["flags"]:
            attrs += "#[codec(skip)] "
        if "c" in f["flags"]:
            attrs += "#[codec(compact)] "
        if "a" in f["flags"]:
            attrs += '#[codec(encoded_as = "<u32 as parity_scale_codec::HasCompact>::Type")] '
        out.append("%sf%d: u32" % (attrs, i))
    return ", ".join(out)


def enum_prog(name, variants, repr="u16", comma=False):
    """variants: list of dict(skip, idx, disc, fields)"""
    body = ""
    for j, v in enumerate(variants):
        a_skip = "#[codec(skip)] " if v["skip"] else ""
        a_idx = "#[codec(index = %d)] " % v["idx"] if v["idx"] is not None else ""
        # both orders of the two attributes occur (odd variants: index first)
        attrs = (a_idx + a_skip) if j % 2 == 1 else (a_skip + a_idx)
        item = "V%d" % j
        if v["fields"]:
            item += " { %s }" % rust_fields(v["fields"], comma)
        if v["disc"] is not None:
            item += " = %d" % v["disc"]
        body += "\t%s%s,\n" % (attrs, item)
    need_repr = any(v["disc"] is not None for v in variants) and any(v["fields"] for v in variants)
    big = any(v["disc"] is not None and v["disc"] > 255 for v in variants)
    rp = "#[repr(%s)]\n" % repr if (need_repr or big) else ""
    src = "#[derive(parity_scale_codec::Encode, parity_scale_codec::Decode)]\n%spub enum %s {\n%s}\n" % (rp, name, body)
    surf = "enum %d " % len(variants) + " ".join(
        "%d %s %s %s" % (1 if v["skip"] else 0, "-" if v["idx"] is None else v["idx"], "-" if v["disc"] is None else v["disc"],
                         surface_fields(v["fields"])) for v in variants)
    return src, surf


def rustc_discs_ok(variants, limit=65535):
    seen, nd = set(), 0
    for v in variants:
        rd = v["disc"] if v["disc"] is not None else nd
        if rd in seen or rd > limit:
            return False
        seen.add(rd)
        nd = rd + 1
    return True


def codec_indices(variants):
    out, pos = [], 0
    for v in variants:
        if v["skip"]:
            continue
        out.append(v["idx"] if v["idx"] is not None else (v["disc"] if v["disc"] is not None else pos))
        pos += 1
    return out


def cmd_compile(gp, seed, n, outdir):
    r = random.Random(seed)
    progs = []  # (name, rust source, request kind, surface, fault)

    def add(src, kind, surf, fault):
        name = "p%d" % len(progs)
        progs.append((name, src.replace("NAME", "T"), kind, surf, fault))

    # --- enums over {index attribute, discriminant, implicit position, skip} with indices in 0..=300
    BOUND = [0, 1, 2, 3, 254, 255, 256, 257, 300]
    while len(progs) < n:
        nv = r.choice([1, 2, 3, 3, 4, 5])
        vs = []
        for j in range(nv):
            v = {"skip": r.random() < 0.2, "idx": None, "disc": None, "fields": []}
            src = r.choice(["pos", "pos", "idx", "disc"])
            if src == "idx":
                v["idx"] = r.choice(BOUND + [r.randrange(0, 301)])
            elif src == "disc":
                v["disc"] = r.choice(BOUND + [r.randrange(0, 301)])
            if r.random() < 0.3:
                v["fields"] = [{"flags": r.choice(["", "", "s", "c", "a"])} for _ in range(r.choice([1, 2]))]
            vs.append(v)
        if not rustc_discs_ok(vs):
            continue
        src, surf = enum_prog("NAME", vs)
        idx = codec_indices(vs)
        fault = None
        if any(i > 255 for i in idx):
            fault = "index > 255"
        elif len(set(idx)) != len(idx):
            fault = "duplicate index"
        add(src, "accepts", surf, fault)
        # a minimally different twin: if invalid, repair the first offender; if valid, plant a collision
        tw = [dict(v, fields=list(v["fields"])) for v in vs]
        live = [v for v in tw if not v["skip"]]
        if fault and live:
            used = set()
            pos = 0
            for v in tw:
                if v["skip"]:
                    continue
                cur = v["idx"] if v["idx"] is not None else (v["disc"] if v["disc"] is not None else pos)
                if cur > 255 or cur in used:
                    free = next(k for k in range(256) if k not in used and k not in codec_indices(tw))
                    v["idx"] = free
                    cur = free
                used.add(cur)
                pos += 1
            if rustc_discs_ok(tw):
                s2, f2 = enum_prog("NAME", tw)
                i2 = codec_indices(tw)
                flt = "index > 255" if any(i > 255 for i in i2) else ("duplicate index" if len(set(i2)) != len(i2) else None)
                add(s2, "accepts", f2, flt)
        elif len(live) >= 2:
            a, b = live[0], live[-1]
            ia = codec_indices(tw)[0]
            b["idx"] = ia
            s2, f2 = enum_prog("NAME", tw)
            add(s2, "accepts", f2, "duplicate index")
    # --- the finite set of attribute-conflict / union / CompactAs-shape cases, each with a valid twin
    for flags in ["", "s", "c", "a", "sc", "sa", "ca", "sca"]:
        fs = [{"flags": flags}, {"flags": ""}]
        src = "#[derive(parity_scale_codec::Encode, parity_scale_codec::Decode)]\npub struct NAME { %s }\n" % rust_fields(fs)
        add(src, "accepts", "struct " + surface_fields(fs), "conflicting field attributes" if len(flags) > 1 else None)
        vs = [{"skip": False, "idx": None, "disc": None, "fields": fs}, {"skip": False, "idx": None, "disc": None, "fields": []}]
        s2, f2 = enum_prog("NAME", vs)
        add(s2, "accepts", f2, "conflicting field attributes" if len(flags) > 1 else None)
    for flags in ["sc", "sa", "ca", "sca", "cs"]:
        fs = [{"flags": ""}, {"flags": flags}]
        src = "#[derive(parity_scale_codec::Encode, parity_scale_codec::Decode)]\npub struct NAME { %s }\n" % rust_fields(fs, comma=True)
        add(src, "accepts", "struct " + surface_fields(fs), "conflicting field attributes (one comma-separated list)")
        src = "#[derive(parity_scale_codec::Encode, parity_scale_codec::Decode)]\npub struct NAME(%s);\n" % rust_fields([{"flags": flags}], comma=True).replace("f0: ", "")
        add(src, "accepts", "struct " + surface_fields([{"flags": flags}]), "conflicting field attributes (one comma-separated list)")
        vs = [{"skip": False, "idx": None, "disc": None, "fields": []}, {"skip": False, "idx": 7, "disc": None, "fields": fs}]
        s2, f2 = enum_prog("NAME", vs, comma=True)
        add(s2, "accepts", f2, "conflicting field attributes (one comma-separated list)")
    add("#[derive(parity_scale_codec::Encode, parity_scale_codec::Decode)]\npub union NAME { a: u32, b: u8 }\n", "accepts", "union", "union")
    add("#[derive(parity_scale_codec::Encode, parity_scale_codec::Decode)]\npub struct NAME { a: u32, b: u8 }\n", "accepts", "struct 2 p u32 p u32", None)
    # more than 256 encodable variants, and exactly 256
    for cnt, skipn in [(257, 0), (256, 0), (258, 2), (258, 1)]:
        vs = [{"skip": j < skipn, "idx": None, "disc": None, "fields": []} for j in range(cnt)]
        src, surf = enum_prog("NAME", vs)
        live = cnt - skipn
        add(src, "accepts", surf, "> 256 variants" if live > 256 else None)
    # valid definitions using generics, where-clauses and the bound / crate attributes: each must compile
    D = "#[derive(parity_scale_codec::Encode, parity_scale_codec::Decode)]\n"
    add(D + "pub struct NAME<A, B: Default> where A: Clone { a: A, #[codec(skip)] b: B, #[codec(compact)] c: u64 }\n"
        "pub fn use_it() -> Vec<u8> { parity_scale_codec::Encode::encode(&NAME::<u8, crate::NotCodec> { a: 1, b: Default::default(), c: 2 }) }\n",
        "accepts", "struct 3 p u32 s u32 c u32", None)
    add(D + "pub enum NAME<A, S> { #[codec(index = 3)] X(A), Y { #[codec(compact)] v: u32, #[codec(skip)] s: S }, #[codec(skip)] Z(S) }\n"
        "pub fn use_it() -> Vec<u8> { parity_scale_codec::Encode::encode(&NAME::<u8, crate::NotCodec>::X(1)) }\n",
        "accepts", "enum 3 0 3 - 1 p u32 0 - - 2 c u32 s u32 1 - - 1 p u32", None)
    add(D + "#[codec(encode_bound(N: parity_scale_codec::Encode, P: Default))]\n#[codec(decode_bound(N: parity_scale_codec::Decode, P: Default))]\n"
        "pub struct NAME<P, N> { hello: core::marker::PhantomData<P>, val: N }\n"
        "pub fn use_it() -> Vec<u8> { parity_scale_codec::Encode::encode(&NAME::<crate::NotCodec, u32> { hello: Default::default(), val: 3 }) }\n",
        "accepts", "struct 2 p u32 p u32", None)
    add(D + "#[codec(encode_bound())]\n#[codec(decode_bound())]\npub struct NAME<P> { _p: core::marker::PhantomData<P> }\n"
        "pub fn use_it() -> Vec<u8> { parity_scale_codec::Encode::encode(&NAME::<crate::NotCodec> { _p: Default::default() }) }\n",
        "accepts", "struct 1 p u32", None)
    add(D + "#[codec(dumb_trait_bound)]\npub struct NAME<N> { data: Vec<(N, u8)> }\n"
        "pub fn use_it() -> Vec<u8> { parity_scale_codec::Encode::encode(&NAME::<u32> { data: vec![] }) }\n",
        "accepts", "struct 1 p u32", None)
    add(D + "#[codec(crate = parity_scale_codec)]\npub struct NAME(u8, #[codec(compact)] u32);\n", "accepts", "struct 2 p u32 c u32", None)
    add(D + "#[codec(crate = crate::reexport)]\npub enum NAME { A, #[codec(index = 200)] B(u8) }\n", "accepts", "enum 2 0 - - 0 0 200 - 1 p u32", None)
    add(D + "pub struct NAME<'a, T: 'a + Clone>(&'a str, core::marker::PhantomData<&'a T>, #[codec(skip)] Option<T>);\n", "accepts", "struct 3 p u32 p u32 s u32", None) if False else None
    add(D + "pub struct NAME<const N: usize> { a: [u8; N], #[codec(compact)] b: u128 }\n"
        "pub fn use_it() -> Vec<u8> { parity_scale_codec::Encode::encode(&NAME::<3> { a: [1, 2, 3], b: 9 }) }\n",
        "accepts", "struct 2 p u32 c u32", None)
    add(D + "#[repr(u8)]\npub enum NAME<P: core::fmt::Debug> where P: Default { A { #[codec(encoded_as = \"<u32 as parity_scale_codec::HasCompact>::Type\")] x: u32, t: P }, B = 77 }\n"
        "pub fn use_it() -> Vec<u8> { parity_scale_codec::Encode::encode(&NAME::<u8>::B) }\n",
        "accepts", "enum 2 0 - - 2 a c 4 u32 p u32 0 - 77 0", None)
    # discriminants that are constant EXPRESSIONS (not literals) colliding with / distinct from literal-known indices
    K = "pub const ONE: isize = 1;\npub const TWO: isize = 2;\n"
    add(K + D + "pub enum NAME { A = ONE, B }\n", "accepts", "enum 2 0 - 1 0 0 - - 0", "duplicate index (constant-expression discriminant vs implicit position)")
    add(K + D + "pub enum NAME { A = TWO, B }\n", "accepts", "enum 2 0 - 2 0 0 - - 0", None)
    add(K + D + "pub enum NAME { #[codec(index = 2)] A, B = TWO }\n", "accepts", "enum 2 0 2 - 0 0 - 2 0", "duplicate index (constant-expression discriminant vs index attribute)")
    add(K + D + "pub enum NAME { #[codec(index = 3)] A, B = TWO }\n", "accepts", "enum 2 0 3 - 0 0 - 2 0", None)
    add(K + D + "pub enum NAME { A = (1), B }\n", "accepts", "enum 2 0 - 1 0 0 - - 0", "duplicate index (parenthesised discriminant vs implicit position)")
    add(K + D + "pub enum NAME { A = ONE + 1, B = 2 }\n", "accepts", "enum 2 0 - 2 0 0 - 2 0", "duplicate index (expression vs literal discriminant)") if False else None
    add(K + D + "pub enum NAME { A = ONE + TWO, B = ONE, C = 0 }\n", "accepts", "enum 3 0 - 3 0 0 - 1 0 0 - 0 0", None)
    add(K + D + "#[repr(u16)]\npub enum NAME { A = 255 + ONE as u16, B }\n", "accepts", "enum 2 0 - 256 0 0 - - 0", "index > 255") if False else None
    # the same type parameter used plainly AND in a skipped / compact field: each role needs its own bound
    add(D + "pub struct NAME<P> { value: P, #[codec(skip)] previous: P }\n"
        "pub fn use_it() -> Vec<u8> { parity_scale_codec::Encode::encode(&NAME::<u8> { value: 1, previous: 2 }) }\n"
        "pub fn use_it2() -> bool { <NAME<u8> as parity_scale_codec::Decode>::decode(&mut &[1u8][..]).is_ok() }\n",
        "accepts", "struct 2 p u32 s u32", None)
    add(D + "pub enum NAME<P> { Exact(P), Short(#[codec(compact)] P), #[codec(skip)] Old(P) }\n"
        "pub fn use_it() -> Vec<u8> { parity_scale_codec::Encode::encode(&NAME::<u32>::Short(5)) }\n"
        "pub fn use_it2() -> bool { <NAME<u32> as parity_scale_codec::Decode>::decode(&mut &[1u8, 4][..]).is_ok() }\n",
        "accepts", "enum 3 0 - - 1 p u32 0 - - 1 c u32 1 - - 1 p u32", None)
    add(D + "pub struct NAME<A, B> { a: A, #[codec(compact)] b: B, #[codec(skip)] c: A, d: B }\n"
        "pub fn use_it() -> Vec<u8> { parity_scale_codec::Encode::encode(&NAME::<u8, u64> { a: 1, b: 2, c: 3, d: 4 }) }\n"
        "pub fn use_it2() -> bool { <NAME<u8, u64> as parity_scale_codec::Decode>::decode(&mut &[1u8, 8, 4, 0, 0, 0, 0, 0, 0, 0][..]).is_ok() }\n",
        "accepts", "struct 4 p u32 c u32 s u32 p u32", None)
    # discriminants naming user constants that are called like items of the generated check itself
    # (finding F7: these were captured by the helper items; valid definitions, must compile) - and like
    # locals / plausible helper names a rewrite of the check might introduce
    for cname in ["INVALID_INDEX", "indices", "DUP_INFO", "LEN", "len", "N", "COUNT", "array", "i", "j", "msg", "INDICES", "MAX_INDEX", "search_for_invalid_index", "duplicate_info"]:
        KC = "#[allow(non_upper_case_globals)]\npub const %s: isize = 3;\n" % cname
        add(KC + D + "pub enum NAME { A = %s, B }\n" % cname, "accepts", "enum 2 0 - 3 0 0 - - 0", None)
    KC = "#[allow(non_upper_case_globals)]\npub const LEN: isize = 1;\n"
    add(KC + D + "pub enum NAME { A = LEN, B }\n", "accepts", "enum 2 0 - 1 0 0 - - 0", "duplicate index (constant named LEN vs implicit position)")
    KC = "pub const LEN: isize = 300;\n"
    add(KC + D + "#[repr(u16)]\npub enum NAME { A, B = LEN as u16 }\n", "accepts", "enum 2 0 - - 0 0 - 300 0", "index > 255 (constant named LEN)")
    KC = "pub const LEN: isize = 0;\npub const COUNT: isize = 2;\n"
    add(KC + D + "pub enum NAME { First = LEN, Second = COUNT }\n", "accepts", "enum 2 0 - 0 0 0 - 2 0", None)
    # skip_type_params with a field type that mentions a skipped AND a bounded parameter
    add("#[derive(parity_scale_codec::Encode, parity_scale_codec::Decode)]\n#[codec(encode_bound(skip_type_params(M)))]\n#[codec(decode_bound(skip_type_params(M)))]\n"
        "pub struct NAME<P, M> { items: Vec<(P, core::marker::PhantomData<M>)>, n: u8 }\n"
        "pub fn use_it() -> Vec<u8> { parity_scale_codec::Encode::encode(&NAME::<u32, crate::NotCodec> { items: vec![], n: 1 }) }\n"
        "pub fn use_it2() -> bool { <NAME<u32, crate::NotCodec> as parity_scale_codec::Decode>::decode(&mut &[0u8, 1][..]).is_ok() }\n",
        "accepts", "struct 2 p u32 p u32", None)
    add("#[derive(parity_scale_codec::Encode, parity_scale_codec::Decode)]\n#[codec(encode_bound(skip_type_params(M)))]\n#[codec(decode_bound(skip_type_params(M)))]\n"
        "pub enum NAME<P, M> { A(Option<(P, core::marker::PhantomData<M>)>), #[codec(skip)] B(M), C { #[codec(skip)] m: core::marker::PhantomData<M>, p: Vec<P> } }\n"
        "pub fn use_it() -> Vec<u8> { parity_scale_codec::Encode::encode(&NAME::<u32, crate::NotCodec>::A(None)) }\n",
        "accepts", "enum 3 0 - - 1 p u32 1 - - 1 p u32 0 - - 2 s u32 p u32", None)
    # attributes with a trailing comma: accepted, and conflicting ones still rejected (finding F8)
    add(D + "pub struct NAME { #[codec(skip,)] a: u32, #[codec(compact,)] b: u32, c: u8 }\n", "accepts", "struct 3 s u32 c u32 p u32", None)
    add(D + "pub enum NAME { #[codec(index = 5,)] A, #[codec(skip,)] B, #[codec(index = 5)] C }\n", "accepts", "enum 3 0 5 - 0 1 - - 0 0 5 - 0", "duplicate index (one written with a trailing comma)")
    add(D + "pub enum NAME { #[codec(index = 5,)] A, #[codec(skip,)] B, C }\n", "accepts", "enum 3 0 5 - 0 1 - - 0 0 - - 0", None)
    add(D + "pub struct NAME { #[codec(skip, compact,)] a: u32 }\n", "accepts", "struct 1 x sc u32", "conflicting field attributes (one comma-separated list)")
    # custom bound predicates on a type with const / lifetime parameters only
    add(D + "#[codec(decode_bound([u8; N]: Default))]\npub struct NAME<const N: usize> { id: u8, #[codec(skip)] pad: [u8; N] }\n"
        "pub fn use_it() -> bool { <NAME<4> as parity_scale_codec::Decode>::decode(&mut &[7u8][..]).is_ok() }\n",
        "accepts", "struct 2 p u32 s u32", None)
    add("pub struct Lane<const N: u8>(pub u32);\nimpl parity_scale_codec::Encode for Lane<3> { fn encode_to<W: parity_scale_codec::Output + ?Sized>(&self, d: &mut W) { self.0.encode_to(d) } }\n"
        "impl parity_scale_codec::Decode for Lane<3> { fn decode<I: parity_scale_codec::Input>(i: &mut I) -> Result<Self, parity_scale_codec::Error> { Ok(Lane(u32::decode(i)?)) } }\n"
        + D + "#[codec(encode_bound(Lane<N>: parity_scale_codec::Encode))]\n#[codec(decode_bound(Lane<N>: parity_scale_codec::Decode))]\npub struct NAME<const N: u8> { lane: Lane<N>, x: u8 }\n"
        "pub fn use_it() -> Vec<u8> { parity_scale_codec::Encode::encode(&NAME::<3> { lane: Lane(1), x: 2 }) }\n",
        "accepts", "struct 2 p u32 p u32", None)
    add(D + "#[codec(encode_bound(&'a str: parity_scale_codec::Encode))]\npub struct NAME<'a> { s: &'a str, n: u8 }\n"
        "pub fn use_it() -> Vec<u8> { parity_scale_codec::Encode::encode(&NAME { s: \"x\", n: 1 }) }\n",
        "accepts", "struct 2 p u32 p u32", None) if False else None
    # associated-type projections of a type parameter - one of them NAMED LIKE THE DERIVING TYPE ITSELF
    # (the derive leaves self-referential field types out of the where-clause; `P::NAME` is not one)
    CFG = ("pub trait Cfg { type NAME; type Other; }\n"
           "#[derive(parity_scale_codec::Encode, parity_scale_codec::Decode)]\npub struct Rt;\nimpl Cfg for Rt { type NAME = u32; type Other = u8; }\n")
    add(CFG + D + "pub struct NAME<P: Cfg> { parent: P::NAME, others: Vec<P::Other> }\n"
        "pub fn use_it() -> Vec<u8> { parity_scale_codec::Encode::encode(&NAME::<Rt> { parent: 7, others: vec![1] }) }\n"
        "pub fn use_it2() -> bool { <NAME<Rt> as parity_scale_codec::Decode>::decode(&mut &[7u8, 0, 0, 0, 0][..]).is_ok() }\n",
        "accepts", "struct 2 p u32 p u32", None)
    add(CFG + D + "pub enum NAME<P: Cfg> { Emitted(Vec<P::NAME>, P::Other), #[codec(index = 9)] Quiet { since: (P::NAME, u8) } }\n"
        "pub fn use_it() -> Vec<u8> { parity_scale_codec::Encode::encode(&NAME::<Rt>::Emitted(vec![1], 2)) }\n"
        "pub fn use_it2() -> bool { <NAME<Rt> as parity_scale_codec::Decode>::decode(&mut &[9u8, 1, 0, 0, 0, 5][..]).is_ok() }\n",
        "accepts", "enum 2 0 - - 2 p u32 p u32 0 9 - 1 p u32", None)
    add(CFG + D + "pub struct NAME<P: Cfg>(Option<Box<NAME<P>>>, P::NAME, #[codec(compact)] u64);\n"
        "pub fn use_it() -> Vec<u8> { parity_scale_codec::Encode::encode(&NAME::<Rt>(None, 3, 4)) }\n",
        "accepts", "struct 3 p u32 p u32 c u32", None)
    # CompactAs shape
    ca = "#[derive(parity_scale_codec::Encode, parity_scale_codec::Decode, parity_scale_codec::CompactAs)]\n"
    add(ca + "pub struct NAME(u32);\n", "acceptsca", "struct 1 p u32", None)
    add(ca + "pub struct NAME { a: u32, #[codec(skip)] b: u8 }\n", "acceptsca", "struct 2 p u32 s u32", None)
    add(ca + "pub struct NAME(u32, u8);\n", "acceptsca", "struct 2 p u32 p u32", "CompactAs shape")
    add(ca + "pub struct NAME;\n", "acceptsca", "struct 0", "CompactAs shape")
    add(ca + "pub struct NAME(#[codec(skip)] u32);\n", "acceptsca", "struct 1 s u32", "CompactAs shape")
    add(ca + "pub enum NAME { A(u32) }\n", "acceptsca", "enum 1 0 - - 1 p u32", "CompactAs shape")

    os.makedirs(os.path.join(outdir, "src"), exist_ok=True)
    lib = "#![allow(dead_code, unused)]\n#[derive(Default, Clone, Debug)]\npub struct NotCodec;\npub mod reexport { pub use parity_scale_codec::*; }\n"
    expect = []
    for name, src, kind, surf, fault in progs:
        open(os.path.join(outdir, "src", name + ".rs"), "w").write(src)
        lib += "pub mod %s;\n" % name
        expect.append({"name": name, "request": "%s %s" % (kind, surf), "fault": fault})
    open(os.path.join(outdir, "src", "lib.rs"), "w").write(lib)
    open(os.path.join(outdir, "Cargo.toml"), "w").write(
        '[package]\nname = "c17-programs"\nversion = "0.0.0"\nedition = "2021"\n\n[workspace]\n\n[dependencies]\n'
        'parity-scale-codec = { path = "%s", features = ["derive"] }\n' % os.environ.get("VERIF_REPO", "/repo"))
    json.dump(expect, open(os.path.join(outdir, "expect.json"), "w"), indent=0)
    print("wrote", len(progs), "programs to", outdir)
