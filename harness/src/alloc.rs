//! C09: a counting global allocator. While a measurement is armed it records the largest single
//! request, the peak of live bytes and the cumulative total; a single request above the hard cap is
//! refused (null), which aborts the process — the check attributes the abort to the request that
//! was being executed (`current.txt`).

use std::alloc::{GlobalAlloc, Layout, System};
use std::sync::atomic::{AtomicBool, AtomicIsize, AtomicUsize, Ordering::SeqCst};

pub struct Counting;

static ARMED: AtomicBool = AtomicBool::new(false);
static MAX_REQ: AtomicUsize = AtomicUsize::new(0);
static LIVE: AtomicUsize = AtomicUsize::new(0);
static PEAK: AtomicUsize = AtomicUsize::new(0);
static TOTAL: AtomicUsize = AtomicUsize::new(0);
static NET: AtomicIsize = AtomicIsize::new(0);
// requests as the crate's code makes them: a fresh allocation of `size` bytes, or a reallocation
// growing a block by `new - old` bytes (`Vec::reserve_exact` on a non-empty vector). Requests of
// exactly `SKIP_SIZE` bytes (the boxed `Error` of a chained error) are tallied separately.
static REQ_N: AtomicUsize = AtomicUsize::new(0);
static REQ_TOTAL: AtomicUsize = AtomicUsize::new(0);
static REQ_MAX: AtomicUsize = AtomicUsize::new(0);
static SKIP_SIZE: AtomicUsize = AtomicUsize::new(0);
static SKIP_N: AtomicUsize = AtomicUsize::new(0);
pub const HARD_CAP: usize = 1 << 31;

fn on_alloc(size: usize) {
	if ARMED.load(SeqCst) {
		MAX_REQ.fetch_max(size, SeqCst);
		NET.fetch_add(size as isize, SeqCst);
		TOTAL.fetch_add(size, SeqCst);
		let live = LIVE.fetch_add(size, SeqCst) + size;
		PEAK.fetch_max(live, SeqCst);
	}
}
fn on_request(growth: usize) {
	if ARMED.load(SeqCst) && growth > 0 {
		if growth == SKIP_SIZE.load(SeqCst) {
			SKIP_N.fetch_add(1, SeqCst);
		} else {
			REQ_N.fetch_add(1, SeqCst);
			REQ_TOTAL.fetch_add(growth, SeqCst);
			REQ_MAX.fetch_max(growth, SeqCst);
		}
	}
}
fn on_free(size: usize) {
	if ARMED.load(SeqCst) {
		NET.fetch_sub(size as isize, SeqCst);
		let _ = LIVE.fetch_update(SeqCst, SeqCst, |l| Some(l.saturating_sub(size)));
	}
}

unsafe impl GlobalAlloc for Counting {
	unsafe fn alloc(&self, layout: Layout) -> *mut u8 {
		if ARMED.load(SeqCst) && layout.size() > HARD_CAP {
			return core::ptr::null_mut();
		}
		on_alloc(layout.size());
		on_request(layout.size());
		System.alloc(layout)
	}
	unsafe fn dealloc(&self, ptr: *mut u8, layout: Layout) {
		on_free(layout.size());
		System.dealloc(ptr, layout)
	}
	unsafe fn realloc(&self, ptr: *mut u8, layout: Layout, new_size: usize) -> *mut u8 {
		if ARMED.load(SeqCst) && new_size > HARD_CAP {
			return core::ptr::null_mut();
		}
		// a realloc may keep the old and the new block alive at once
		on_alloc(new_size);
		on_request(new_size.saturating_sub(layout.size()));
		let p = System.realloc(ptr, layout, new_size);
		on_free(layout.size());
		p
	}
}

pub struct Measure {
	pub max_request: usize,
	pub peak_live: usize,
	pub total: usize,
	/// requests (fresh allocations and growths) other than those of exactly the skip size
	pub req_n: usize,
	pub req_total: usize,
	pub req_max: usize,
	/// requests of exactly the skip size
	pub skipped_n: usize,
	pub skip_size: usize,
}

pub fn measure<R>(f: impl FnOnce() -> R) -> (R, Measure) {
	MAX_REQ.store(0, SeqCst);
	LIVE.store(0, SeqCst);
	PEAK.store(0, SeqCst);
	TOTAL.store(0, SeqCst);
	REQ_N.store(0, SeqCst);
	REQ_TOTAL.store(0, SeqCst);
	REQ_MAX.store(0, SeqCst);
	SKIP_N.store(0, SeqCst);
	ARMED.store(true, SeqCst);
	let r = f();
	ARMED.store(false, SeqCst);
	(
		r,
		Measure {
			max_request: MAX_REQ.load(SeqCst),
			peak_live: PEAK.load(SeqCst),
			total: TOTAL.load(SeqCst),
			req_n: REQ_N.load(SeqCst),
			req_total: REQ_TOTAL.load(SeqCst),
			req_max: REQ_MAX.load(SeqCst),
			skipped_n: SKIP_N.load(SeqCst),
			skip_size: SKIP_SIZE.load(SeqCst),
		},
	)
}

/// Requests of exactly `size` bytes are tallied apart from the others (0: none are).
pub fn set_skip_size(size: usize) {
	SKIP_SIZE.store(size, SeqCst);
}

/// Bytes allocated minus bytes freed while `f` ran (C10: anything `f` allocated and did not free).
pub fn net_allocated<R>(f: impl FnOnce() -> R) -> (R, isize) {
	NET.store(0, SeqCst);
	ARMED.store(true, SeqCst);
	let r = f();
	ARMED.store(false, SeqCst);
	(r, NET.load(SeqCst))
}
