//! C10: an instrumented element type whose decoder fails or panics at a scripted position, decoded
//! inside every container with a hand-rolled or in-place decode path. The ledger records, per
//! element id, construction and drops.

use crate::Ctx;
use parity_scale_codec::{Decode, DecodeLimit, DecodeWithMemLimit, DecodeWithMemTracking, Encode, Error, Input};
use std::cell::RefCell;
use std::collections::{BTreeMap, LinkedList, VecDeque};
use std::panic::{catch_unwind, AssertUnwindSafe};
use std::rc::Rc;
use std::sync::Arc;

#[derive(Default)]
struct Ledger {
	next: u32,
	constructed: Vec<u32>,
	drops: Vec<u32>,
}
thread_local! {
	static LEDGER: RefCell<Ledger> = RefCell::new(Ledger::default());
}

/// A non-zero-sized element with drop glue. Decoding reads one byte: `0x00..=0x7f` constructs an
/// element, `0xff` is malformed (`Err`), `0xfe` makes the element decoder panic, and a missing byte
/// is "input exhausted".
#[derive(Debug)]
pub struct TrackedP<const PAD: usize> {
	id: u32,
	#[allow(dead_code)]
	payload: u8,
	#[allow(dead_code)]
	pad: [u8; PAD],
}
pub type Tracked = TrackedP<0>;
/// 1 KiB elements: `decode_vec_chunked` then works in chunks of 16, so N = 40 spans three chunks.
pub type TrackedBig = TrackedP<1016>;
impl<const PAD: usize> Drop for TrackedP<PAD> {
	fn drop(&mut self) {
		LEDGER.with(|l| l.borrow_mut().drops.push(self.id));
	}
}
impl<const PAD: usize> Decode for TrackedP<PAD> {
	fn decode<I: Input>(input: &mut I) -> Result<Self, Error> {
		let b = input.read_byte()?;
		match b {
			0xff => Err("malformed element".into()),
			0xfe => panic!("element decoder panics"),
			_ => Ok(LEDGER.with(|l| {
				let mut l = l.borrow_mut();
				let id = l.next;
				l.next += 1;
				l.constructed.push(id);
				TrackedP { id, payload: b, pad: [0; PAD] }
			})),
		}
	}
	/// The padded variant also tells the truth about its encoded size (one byte): code that takes
	/// a different route for fixed-size elements must release elements just the same.
	fn encoded_fixed_size() -> Option<usize> {
		if PAD == 0 {
			None
		} else {
			Some(1)
		}
	}
}
impl<const PAD: usize> DecodeWithMemTracking for TrackedP<PAD> {}
impl<const PAD: usize> PartialEq for TrackedP<PAD> {
	fn eq(&self, o: &Self) -> bool {
		self.payload == o.payload
	}
}
impl<const PAD: usize> Eq for TrackedP<PAD> {}
impl<const PAD: usize> PartialOrd for TrackedP<PAD> {
	fn partial_cmp(&self, o: &Self) -> Option<std::cmp::Ordering> {
		Some(self.cmp(o))
	}
}
impl<const PAD: usize> Ord for TrackedP<PAD> {
	fn cmp(&self, o: &Self) -> std::cmp::Ordering {
		self.payload.cmp(&o.payload)
	}
}

#[derive(Decode)]
#[repr(transparent)]
pub struct TransparentArr<const N: usize>(pub [Tracked; N]);
/// A zero-sized marker with a one-byte encoding whose decoder can fail (or panic: byte 0xfe).
pub struct FailMarker;
impl Decode for FailMarker {
	fn decode<I: Input>(input: &mut I) -> Result<Self, Error> {
		match input.read_byte()? {
			9 => Ok(FailMarker),
			0xfe => panic!("marker decoder panics"),
			_ => Err("bad marker".into()),
		}
	}
}
/// payload first, fallible zero-sized field after it: the derived in-place `decode_into` decodes
/// them one after the other into the same memory
#[derive(Decode)]
#[repr(transparent)]
pub struct TransThenMarker(pub Tracked, pub FailMarker);
#[derive(Decode)]
#[repr(transparent)]
pub struct TransArrThenMarker(pub [Tracked; 3], pub FailMarker, pub core::marker::PhantomData<u8>);

/// payload, a zero-sized field that decodes, then one that can fail: whoever owns the payload after
/// the first marker must still own it when the second one fails
#[derive(Decode)]
#[repr(transparent)]
pub struct TransTwoMarkers(pub Tracked, pub FailMarker, pub FailMarker);
#[derive(Decode)]
#[repr(transparent)]
pub struct TransMidPayload(pub FailMarker, pub core::marker::PhantomData<u16>, pub Tracked, pub FailMarker, pub FailMarker, pub FailMarker);
#[derive(Decode)]
#[repr(transparent)]
pub struct TransNested(pub TransTwoMarkers, pub FailMarker, pub FailMarker);

/// A skipped field whose `Default` value owns heap memory, between two decoded fields, in structs of
/// every representation (`repr(C)` structs are candidates for in-place decoding like transparent ones).
#[derive(Default)]
pub struct Scratch(pub Box<u64>, pub Vec<u8>);
#[derive(Decode)]
#[repr(C)]
pub struct ReprCSkip {
	pub a: Tracked,
	#[codec(skip)]
	pub s: Scratch,
	pub b: Tracked,
}
#[derive(Decode)]
pub struct PlainSkip {
	pub a: Tracked,
	#[codec(skip)]
	pub s: Scratch,
	pub b: Tracked,
}
#[derive(Decode)]
#[repr(C)]
pub struct ReprCSkipFirst(#[codec(skip)] pub Scratch, pub Tracked, pub Tracked);

fn skipped_default_cases(ctx: &mut Ctx) {
	for (what, bytes, n) in [("second field malformed", vec![5u8, 0xff], 0usize), ("second field missing", vec![5], 0), ("second field panics", vec![5, 0xfe], 0), ("first field malformed", vec![0xff, 5], 0), ("complete", vec![5, 6], 2)] {
		macro_rules! one {
			($label:expr, $t:ty, $bs:expr, $n:expr) => {{
				let bs: Vec<u8> = $bs;
				let (_s, problems) = observe(|| <$t>::decode(&mut &bs[..]), $n);
				for p in problems {
					ctx.oracle_fail("C10", format!("{} ({}): {}", $label, what, p));
				}
				ctx.count("ledger:cases", 1);
			}};
		}
		one!("ReprCSkip", ReprCSkip, bytes.clone(), n);
		one!("Box<ReprCSkip>", Box<ReprCSkip>, bytes.clone(), n);
		one!("Rc<ReprCSkip>", Rc<ReprCSkip>, bytes.clone(), n);
		one!("Arc<ReprCSkipFirst>", Arc<ReprCSkipFirst>, bytes.clone(), n);
		one!("Box<PlainSkip>", Box<PlainSkip>, bytes.clone(), n);
		one!("[ReprCSkip; 2] (second)", [ReprCSkip; 2], [vec![1u8, 2], bytes.clone()].concat(), if n == 2 { 4 } else { 0 });
		one!("Vec<Box<ReprCSkip>> (second)", Vec<Box<ReprCSkip>>, [vec![2u8 << 2, 1, 2], bytes.clone()].concat(), if n == 2 { 4 } else { 0 });
		one!("Box<(ReprCSkip, Tracked)>", Box<(ReprCSkip, Tracked)>, [bytes.clone(), vec![7u8]].concat(), if n == 2 { 3 } else { 0 });
	}
}

/// Tuples of several kilobytes behind holders (candidates for in-place decoding): a later field
/// fails, panics or is missing after earlier ones were constructed.
fn big_tuple_cases(ctx: &mut Ctx) {
	type Big = (Tracked, [u8; 5000], Tracked, Tracked);
	type Big2 = ([u64; 600], Tracked, (Tracked, Tracked), u8);
	for (what, tail, ok) in [("third field malformed", vec![0xffu8, 3], false), ("third field panics", vec![0xfe, 3], false), ("fourth field missing", vec![2u8], false), ("fourth field malformed", vec![2u8, 0xff], false), ("complete", vec![2u8, 3], true)] {
		let mut bs = vec![1u8];
		bs.extend(std::iter::repeat(9u8).take(5000));
		bs.extend_from_slice(&tail);
		let mut bs2 = vec![7u8; 4800];
		bs2.push(1);
		bs2.extend_from_slice(&tail);
		bs2.push(5);
		macro_rules! one {
			($label:expr, $t:ty, $bs:expr, $n:expr) => {{
				let b = &$bs;
				let (_s, problems) = observe(|| <$t>::decode(&mut &b[..]), if ok { $n } else { 0 });
				for p in problems.into_iter().take(3) {
					ctx.oracle_fail("C10", format!("{} ({}): {}", $label, what, p));
				}
				ctx.count("ledger:cases", 1);
			}};
		}
		one!("(Tracked, [u8; 5000], Tracked, Tracked)", Big, bs, 3);
		one!("Box<(Tracked, [u8; 5000], Tracked, Tracked)>", Box<Big>, bs, 3);
		one!("Rc<(Tracked, [u8; 5000], Tracked, Tracked)>", Rc<Big>, bs, 3);
		one!("Arc<(Tracked, [u8; 5000], Tracked, Tracked)>", Arc<Big>, bs, 3);
		one!("Box<([u64; 600], Tracked, (Tracked, Tracked), u8)>", Box<Big2>, bs2, 3);
		let two = [bs.clone(), bs.clone()].concat();
		one!("Box<[(Tracked, [u8; 5000], Tracked, Tracked); 2]>", Box<[Big; 2]>, two, 6);
	}
}

/// Shared holders of payloads above the 16 KiB preallocation size, cut or damaged part-way.
fn big_shared_cases(ctx: &mut Ctx) {
	for (what, bad_at, tail) in [("malformed element", 2000usize, Some(0xffu8)), ("input ends", 2050, None), ("element decoder panics", 1, Some(0xfe)), ("element decoder panics late", 2099, Some(0xfe)), ("complete", 2100, None)] {
		let mut bs: Vec<u8> = (0..bad_at).map(|i| (i % 100) as u8).collect();
		if let Some(t) = tail {
			bs.push(t);
			bs.extend(std::iter::repeat(3u8).take(2100));
		}
		let n = if bad_at == 2100 { 2100 } else { 0 };
		macro_rules! one {
			($label:expr, $t:ty) => {{
				let (_s, problems) = observe(|| <$t>::decode(&mut &bs[..]), n);
				for p in problems.into_iter().take(3) {
					ctx.oracle_fail("C10", format!("{} ({} at element {}): {}", $label, what, bad_at, p));
				}
				ctx.count("ledger:cases", 1);
			}};
		}
		one!("Rc<[Tracked; 2100]>", Rc<[Tracked; 2100]>);
		one!("Arc<[Tracked; 2100]>", Arc<[Tracked; 2100]>);
		one!("Box<[Tracked; 2100]>", Box<[Tracked; 2100]>);
		one!("Rc<[[Tracked; 3]; 700]>", Rc<[[Tracked; 3]; 700]>);
	}
	// 17 elements of 1 KiB
	for (what, bs) in [("malformed at 16", [vec![1u8; 16], vec![0xff]].concat()), ("ends after 9", vec![2u8; 9]), ("complete", vec![4u8; 17])] {
		let n = if bs.len() == 17 && bs[16] != 0xff { 17 } else { 0 };
		let (_s, problems) = observe(|| <Rc<[TrackedBig; 17]>>::decode(&mut &bs[..]), n);
		for p in problems.into_iter().take(3) {
			ctx.oracle_fail("C10", format!("Rc<[TrackedBig; 17]> ({}): {}", what, p));
		}
		let (_s, problems) = observe(|| <Arc<[TrackedBig; 17]>>::decode(&mut &bs[..]), n);
		for p in problems.into_iter().take(3) {
			ctx.oracle_fail("C10", format!("Arc<[TrackedBig; 17]> ({}): {}", what, p));
		}
		ctx.count("ledger:cases", 2);
	}
}

/// A later marker (not the one directly behind the payload) fails, panics or is missing.
fn later_marker_cases(ctx: &mut Ctx) {
	for (what, tail, ok) in [("second marker rejected", &[9u8, 7][..], false), ("second marker missing", &[9][..], false), ("second marker panics", &[9, 0xfe][..], false), ("both accepted", &[9, 9][..], true), ("first marker rejected", &[7, 9][..], false)] {
		macro_rules! one {
			($label:expr, $t:ty, $head:expr, $payload:expr, $tail_extra:expr, $n:expr, $all_ok:expr) => {{
				let mut bs: Vec<u8> = $head.to_vec();
				bs.extend_from_slice(&$payload);
				bs.extend_from_slice(tail);
				bs.extend_from_slice(&$tail_extra);
				let (_summary, problems) = observe(|| <$t>::decode(&mut &bs[..]), if ok && $all_ok { $n } else { 0 });
				for p in problems {
					ctx.oracle_fail("C10", format!("{} with {}: {}", $label, what, p));
				}
				ctx.count("ledger:cases", 1);
			}};
		}
		let none: [u8; 0] = [];
		one!("TransTwoMarkers", TransTwoMarkers, none, [5u8], none, 1, true);
		one!("Box<TransTwoMarkers>", Box<TransTwoMarkers>, none, [5u8], none, 1, true);
		one!("Rc<TransTwoMarkers>", Rc<TransTwoMarkers>, none, [5u8], none, 1, true);
		one!("Arc<TransTwoMarkers>", Arc<TransTwoMarkers>, none, [5u8], none, 1, true);
		one!("[TransTwoMarkers; 2] (second)", [TransTwoMarkers; 2], [4u8, 9, 9], [5u8], none, 2, true);
		one!("Vec<Box<TransTwoMarkers>> (second)", Vec<Box<TransTwoMarkers>>, [2u8 << 2, 4, 9, 9], [5u8], none, 2, true);
		one!("Box<TransMidPayload>", Box<TransMidPayload>, [9u8], [5u8], [9u8], 1, true);
		one!("Box<TransMidPayload> (last marker bad)", Box<TransMidPayload>, [9u8], [5u8], [8u8], 1, false);
		one!("Box<TransNested>", Box<TransNested>, none, [5u8, 9, 9], none, 1, true);
		one!("Box<[TransTwoMarkers; 3]> (third)", Box<[TransTwoMarkers; 3]>, [3u8, 9, 9, 4, 9, 9], [5u8], none, 3, true);
	}
}

/// Fields decoded in place before a LATER zero-sized field fails must be dropped (finding F6).
fn trailing_marker_cases(ctx: &mut Ctx) {
	for (what, tail) in [("rejected", &[7u8][..]), ("missing", &[][..]), ("panics", &[0xfe][..]), ("accepted", &[9][..])] {
		let elems = if what == "accepted" { 1 } else { 0 };
		macro_rules! one {
			($label:expr, $t:ty, $payload:expr, $n:expr, $model:expr) => {{
				let mut bs: Vec<u8> = $payload.to_vec();
				bs.extend_from_slice(tail);
				let (summary, problems) = observe(|| <$t>::decode(&mut &bs[..]), if elems == 1 { $n } else { 0 });
				for p in problems {
					ctx.oracle_fail("C10", format!("{} with the trailing marker {}: {}", $label, what, p));
				}
				ctx.count("ledger:cases", 1);
				// the model's in-place decoder of a transparent struct: payload = field 0, marker = field 1
				if let (Some(ms), true) = ($model, what != "accepted") {
					let ms: &str = ms;
					ctx.emit("ledger", $label, &format!("ledger {} 2 1 {}", ms, if what == "panics" { "panic" } else { "err" }), &summary);
				}
			}};
		}
		one!("TransThenMarker", TransThenMarker, [5u8], 1, None::<&str>);
		one!("Box<TransThenMarker>", Box<TransThenMarker>, [5u8], 1, Some("boxtransparent"));
		one!("Rc<TransThenMarker>", Rc<TransThenMarker>, [5u8], 1, Some("boxtransparent"));
		one!("Arc<TransThenMarker>", Arc<TransThenMarker>, [5u8], 1, Some("boxtransparent"));
		one!("Box<TransArrThenMarker>", Box<TransArrThenMarker>, [5u8, 6, 7], 3, None::<&str>);
		one!("[TransThenMarker; 2] (second)", [TransThenMarker; 2], [5u8, 9, 6], 2, None::<&str>);
		one!("Vec<Box<TransThenMarker>> (second)", Vec<Box<TransThenMarker>>, [2u8 << 2, 5, 9, 6], 2, None::<&str>);
	}
}

#[derive(Decode)]
pub struct Composite {
	pub a: Tracked,
	pub b: [Tracked; 3],
	#[codec(skip)]
	pub s: u32,
	pub c: Vec<Tracked>,
	pub d: Box<Tracked>,
}
#[derive(Decode)]
pub enum CompositeEnum {
	A(Tracked, Tracked),
	B { x: [Tracked; 2], y: Option<Tracked> },
}

#[derive(Clone, Copy, Debug, PartialEq)]
pub enum Kind {
	None,
	Exhausted,
	Malformed,
	Panic,
	MemLimit,
	DepthLimit,
}

/// Runs one decode and returns (`ok|err|panic`, constructed, dropped-before-result-drop, held by the result).
fn fresh_ledger() {
	LEDGER.with(|l| {
		let mut l = l.borrow_mut();
		l.next = 0;
		l.constructed.clear();
		l.drops.clear();
		// the ledger's own bookkeeping must not allocate inside a measured window
		l.constructed.reserve(4096);
		l.drops.reserve(4096);
	});
}

fn observe<T>(f: impl Fn() -> Result<T, Error>, elements_in_ok: usize) -> (String, Vec<String>) {
	// warm-up (lazily initialised runtime state), then the same case under the allocation counter:
	// whatever the decode allocated must have been freed once its result is dropped
	fresh_ledger();
	drop(catch_unwind(AssertUnwindSafe(&f)));
	fresh_ledger();
	let (_, net) = crate::alloc::net_allocated(|| drop(catch_unwind(AssertUnwindSafe(&f))));
	fresh_ledger();
	let r = catch_unwind(AssertUnwindSafe(&f));
	let (constructed, drops_before): (Vec<u32>, Vec<u32>) = LEDGER.with(|l| {
		let l = l.borrow();
		(l.constructed.clone(), l.drops.clone())
	});
	let outcome = match &r {
		Ok(Ok(_)) => "ok",
		Ok(Err(_)) => "err",
		Err(_) => "panic",
	};
	let mut problems = vec![];
	if net > 0 {
		problems.push(format!("{} bytes allocated during the decode are still allocated after its result was dropped (leak)", net));
	} else if net < 0 {
		problems.push(format!("{} more bytes freed than allocated during the decode", -net));
	}
	let handed = if outcome == "ok" { constructed.len() - drops_before.len() } else { 0 };
	if outcome == "ok" {
		// a successful decode hands over a fully initialised value: nothing dropped yet
		if !drops_before.is_empty() {
			problems.push(format!("successful decode but {} elements were already dropped", drops_before.len()));
		}
		if constructed.len() != elements_in_ok {
			problems.push(format!("successful decode constructed {} elements, expected {}", constructed.len(), elements_in_ok));
		}
	}
	drop(r);
	let drops_after: Vec<u32> = LEDGER.with(|l| l.borrow().drops.clone());
	// exactly once
	for id in &constructed {
		let n = drops_after.iter().filter(|d| *d == id).count();
		if n == 0 {
			problems.push(format!("element {} leaked (never dropped)", id));
		} else if n > 1 {
			problems.push(format!("element {} dropped {} times", id, n));
		}
	}
	for d in &drops_after {
		if !constructed.contains(d) {
			problems.push(format!("drop of id {} that was never constructed (uninitialised memory dropped)", d));
		}
	}
	(format!("{} constructed={} dropped={} handed={}", outcome, constructed.len(), drops_before.len(), handed), problems)
}

/// `n` element bytes with the failure planted at index `k`.
fn script(n: usize, k: usize, kind: Kind, prefix: &[u8]) -> Vec<u8> {
	let mut bs = prefix.to_vec();
	for i in 0..n {
		if i == k {
			match kind {
				Kind::Exhausted => return bs,
				Kind::Malformed => bs.push(0xff),
				Kind::Panic => bs.push(0xfe),
				_ => bs.push((i % 100) as u8),
			}
		} else {
			bs.push((i % 100) as u8);
		}
	}
	bs
}

fn case<T>(ctx: &mut Ctx, shape: &str, model_shape: Option<&str>, n: usize, k: usize, kind: Kind, prefix: &[u8], dec: impl Fn(&[u8]) -> Result<T, Error>) {
	let bs = script(n, k, kind, prefix);
	let (summary, problems) = observe(|| dec(&bs), n);
	for p in problems {
		ctx.oracle_fail("C10", format!("{} N={} failure at {} ({:?}): {}", shape, n, k, kind, p));
	}
	ctx.count("ledger:cases", 1);
	if let Some(ms) = model_shape {
		let kk = if kind == Kind::None || k >= n { "-".to_string() } else { k.to_string() };
		let kd = match kind {
			Kind::Panic => "panic",
			_ => "err",
		};
		ctx.emit("ledger", shape, &format!("ledger {} {} {} {}", ms, n, kk, kd), &summary);
	}
}

macro_rules! grid {
	($ctx:expr, $shape:expr, $model:expr, $n:expr, $prefix:expr, $dec:expr) => {{
		let n: usize = $n;
		case($ctx, $shape, $model, n, n, Kind::None, $prefix, $dec);
		for k in 0..n {
			for kind in [Kind::Exhausted, Kind::Malformed, Kind::Panic] {
				case($ctx, $shape, $model, n, k, kind, $prefix, $dec);
			}
		}
	}};
}

fn arrays<const N: usize>(ctx: &mut Ctx) {
	grid!(ctx, "[Tracked; N]", Some("array"), N, &[], |bs: &[u8]| <[Tracked; N]>::decode(&mut &bs[..]));
	grid!(ctx, "Box<[Tracked; N]>", Some("boxarray"), N, &[], |bs: &[u8]| <Box<[Tracked; N]>>::decode(&mut &bs[..]));
	grid!(ctx, "Rc<[Tracked; N]>", Some("boxarray"), N, &[], |bs: &[u8]| <Rc<[Tracked; N]>>::decode(&mut &bs[..]));
	grid!(ctx, "Arc<[Tracked; N]>", Some("boxarray"), N, &[], |bs: &[u8]| <Arc<[Tracked; N]>>::decode(&mut &bs[..]));
	grid!(ctx, "TransparentArr<N>", Some("array"), N, &[], |bs: &[u8]| <TransparentArr<N>>::decode(&mut &bs[..]));
	grid!(ctx, "Box<TransparentArr<N>>", Some("boxarray"), N, &[], |bs: &[u8]| <Box<TransparentArr<N>>>::decode(&mut &bs[..]));
	grid!(ctx, "[Box<Tracked>; N]", Some("array"), N, &[], |bs: &[u8]| <[Box<Tracked>; N]>::decode(&mut &bs[..]));
	// elements that report `encoded_fixed_size() == Some(1)` (and are 1 KiB in memory)
	if N <= 8 {
		grid!(ctx, "Box<[TrackedBig; N]>", Some("boxarray"), N, &[], |bs: &[u8]| <Box<[TrackedBig; N]>>::decode(&mut &bs[..]));
		grid!(ctx, "Box<[[TrackedBig; 2]; N]>", None, 2 * N, &[], |bs: &[u8]| <Box<[[TrackedBig; 2]; N]>>::decode(&mut &bs[..]));
	}
	grid!(ctx, "[[Tracked; 2]; N]", None, 2 * N, &[], |bs: &[u8]| <[[Tracked; 2]; N]>::decode(&mut &bs[..]));
	grid!(ctx, "[Option<Tracked>; N] (all Some)", None, N, &[], |bs: &[u8]| {
		// interleave the `Some` tags
		let mut v = vec![];
		for b in bs {
			v.push(1u8);
			v.push(*b);
		}
		<[Option<Tracked>; N]>::decode(&mut &v[..])
	});
	// limits hit in the middle of an array of boxes: the k-th Box allocation exceeds the memory limit
	for k in 0..N {
		let bs = script(N, N, Kind::None, &[]);
		let limit = (k + 1) * core::mem::size_of::<Tracked>();
		let (_s, problems) = observe(|| <[Box<Tracked>; N]>::decode_with_mem_limit(&mut &bs[..], limit), N);
		for p in problems {
			ctx.oracle_fail("C10", format!("[Box<Tracked>; {}] memory limit hit at element {}: {}", N, k, p));
		}
		ctx.count("ledger:cases", 1);
	}
}

fn collections(ctx: &mut Ctx, n: usize) {
	let len = parity_scale_codec::Compact(n as u32).encode();
	grid!(ctx, "Vec<Tracked>", Some("vec"), n, &len, |bs: &[u8]| <Vec<Tracked>>::decode(&mut &bs[..]));
	grid!(ctx, "VecDeque<Tracked>", Some("vec"), n, &len, |bs: &[u8]| <VecDeque<Tracked>>::decode(&mut &bs[..]));
	grid!(ctx, "LinkedList<Tracked>", Some("vec"), n, &len, |bs: &[u8]| <LinkedList<Tracked>>::decode(&mut &bs[..]));
	grid!(ctx, "Box<Vec<Tracked>>", Some("vec"), n, &len, |bs: &[u8]| <Box<Vec<Tracked>>>::decode(&mut &bs[..]));
	grid!(ctx, "Vec<Box<Tracked>>", Some("vec"), n, &len, |bs: &[u8]| <Vec<Box<Tracked>>>::decode(&mut &bs[..]));
	grid!(ctx, "BTreeMap<u8-key, Tracked>", None, n, &len, |bs: &[u8]| {
		// entries are (key byte, element byte): distinct keys so that nothing is replaced
		let mut v = bs[..len.len().min(bs.len())].to_vec();
		for (i, b) in bs[len.len().min(bs.len())..].iter().enumerate() {
			v.push(i as u8);
			v.push(*b);
		}
		<BTreeMap<u8, Tracked>>::decode(&mut &v[..])
	});
	// 1 KiB elements: failures in the second and third chunk of decode_vec_chunked
	if n >= 17 {
		grid!(ctx, "Vec<TrackedBig>", Some("vec"), n, &len, |bs: &[u8]| <Vec<TrackedBig>>::decode(&mut &bs[..]));
		grid!(ctx, "VecDeque<TrackedBig>", Some("vec"), n, &len, |bs: &[u8]| <VecDeque<TrackedBig>>::decode(&mut &bs[..]));
		grid!(ctx, "Vec<[TrackedBig; 1]>", Some("vec"), n, &len, |bs: &[u8]| <Vec<[TrackedBig; 1]>>::decode(&mut &bs[..]));
	}
	// depth limit hit inside: Vec<Box<Tracked>> needs depth 2
	let bs = script(n, n, Kind::None, &len);
	let (_s, problems) = observe(|| <Vec<Box<Tracked>>>::decode_with_depth_limit(1, &mut &bs[..]), n);
	for p in problems {
		ctx.oracle_fail("C10", format!("Vec<Box<Tracked>> (N={}) with depth limit 1: {}", n, p));
	}
}

#[derive(Decode)]
pub struct Chain(pub Tracked, pub Option<Box<Chain>>);

/// The depth limit is hit exactly at a holder (the raw allocation of `Box::decode` must not
/// outlive the failed call), at every level of a chain, and inside collections.
fn holders_under_depth_limit(ctx: &mut Ctx) {
	let one = [5u8];
	macro_rules! limited {
		($shape:expr, $t:ty, $bytes:expr, $limits:expr, $elems:expr) => {
			for limit in $limits {
				let bs: &[u8] = $bytes;
				let (_s, problems) = observe(|| <$t>::decode_with_depth_limit(limit, &mut &bs[..]), $elems);
				for p in problems {
					ctx.oracle_fail("C10", format!("{} with depth limit {}: {}", $shape, limit, p));
				}
				ctx.count("ledger:cases", 1);
				ctx.count("ledger:depth-limit-cases", 1);
			}
		};
	}
	limited!("Box<Tracked>", Box<Tracked>, &one, 0..3u32, 1);
	limited!("Rc<Tracked>", Rc<Tracked>, &one, 0..3u32, 1);
	limited!("Arc<Tracked>", Arc<Tracked>, &one, 0..3u32, 1);
	limited!("Box<Box<Tracked>>", Box<Box<Tracked>>, &one, 0..4u32, 1);
	limited!("Box<[Tracked; 3]>", Box<[Tracked; 3]>, &[1, 2, 3], 0..3u32, 3);
	limited!("(Tracked, Box<Tracked>)", (Tracked, Box<Tracked>), &[1, 2], 0..3u32, 2);
	limited!("[Box<Tracked>; 3]", [Box<Tracked>; 3], &[1, 2, 3], 0..3u32, 3);
	limited!("Option<Box<Tracked>>", Option<Box<Tracked>>, &[1, 7], 0..3u32, 1);
	// a six-node chain: Tracked, Some(Box(Tracked, Some(Box(...)))) ... None
	let mut chain = vec![];
	for i in 0..6u8 {
		chain.push(i);
		chain.push(if i == 5 { 0 } else { 1 });
	}
	limited!("Chain of 6 boxed nodes", Chain, &chain, 0..8u32, 6);
	// first boxed element at every position of a 12-element vector of options
	for pos in 0..12usize {
		let mut bs = parity_scale_codec::Compact(12u32).encode();
		for i in 0..12usize {
			if i >= pos {
				bs.push(1);
				bs.push(i as u8);
			} else {
				bs.push(0);
			}
		}
		limited!("Vec<Option<Box<Tracked>>> first box at varying position", Vec<Option<Box<Tracked>>>, &bs, 0..3u32, 12 - pos);
	}
}

// ---------------------------------------------------------------------------------------------
// A zero-sized element with drop glue: only counts can be kept (it cannot carry an id)
// ---------------------------------------------------------------------------------------------

thread_local! {
	static ZST_MADE: std::cell::Cell<usize> = std::cell::Cell::new(0);
	static ZST_DROPPED: std::cell::Cell<usize> = std::cell::Cell::new(0);
}
pub struct TrackedZst;
impl Drop for TrackedZst {
	fn drop(&mut self) {
		ZST_DROPPED.with(|c| c.set(c.get() + 1));
	}
}
impl Decode for TrackedZst {
	fn decode<I: Input>(input: &mut I) -> Result<Self, Error> {
		match input.read_byte()? {
			0xff => Err("malformed element".into()),
			0xfe => panic!("element decoder panics"),
			_ => {
				ZST_MADE.with(|c| c.set(c.get() + 1));
				Ok(TrackedZst)
			},
		}
	}
}

fn zst_case<T>(ctx: &mut Ctx, shape: &str, n: usize, k: usize, kind: Kind, prefix: &[u8], dec: impl Fn(&[u8]) -> Result<T, Error>) {
	let bs = script(n, k, kind, prefix);
	ZST_MADE.with(|c| c.set(0));
	ZST_DROPPED.with(|c| c.set(0));
	let r = catch_unwind(AssertUnwindSafe(|| dec(&bs)));
	let made = ZST_MADE.with(|c| c.get());
	let dropped_before = ZST_DROPPED.with(|c| c.get());
	let ok = matches!(r, Ok(Ok(_)));
	if ok && (dropped_before != 0 || made != n) {
		ctx.oracle_fail("C10", format!("{} N={}: successful decode constructed {} and had already dropped {}", shape, n, made, dropped_before));
	}
	drop(r);
	let dropped = ZST_DROPPED.with(|c| c.get());
	if dropped != made {
		ctx.oracle_fail("C10", format!("{} N={} failure at {} ({:?}): {} zero-sized elements constructed but {} dropped", shape, n, k, kind, made, dropped));
	}
	ctx.count("ledger:cases", 1);
	ctx.count("ledger:zst-cases", 1);
}

macro_rules! zst_grid {
	($ctx:expr, $shape:expr, $n:expr, $prefix:expr, $dec:expr) => {{
		let n: usize = $n;
		zst_case($ctx, $shape, n, n, Kind::None, $prefix, $dec);
		for k in 0..n {
			for kind in [Kind::Exhausted, Kind::Malformed, Kind::Panic] {
				zst_case($ctx, $shape, n, k, kind, $prefix, $dec);
			}
		}
	}};
}

fn zst_shapes(ctx: &mut Ctx) {
	zst_grid!(ctx, "[TrackedZst; 5]", 5, &[], |bs: &[u8]| <[TrackedZst; 5]>::decode(&mut &bs[..]));
	zst_grid!(ctx, "Box<[TrackedZst; 4]>", 4, &[], |bs: &[u8]| <Box<[TrackedZst; 4]>>::decode(&mut &bs[..]));
	zst_grid!(ctx, "[[TrackedZst; 2]; 3]", 6, &[], |bs: &[u8]| <[[TrackedZst; 2]; 3]>::decode(&mut &bs[..]));
	zst_grid!(ctx, "(TrackedZst, TrackedZst, TrackedZst)", 3, &[], |bs: &[u8]| <(TrackedZst, TrackedZst, TrackedZst)>::decode(&mut &bs[..]));
	let len7 = parity_scale_codec::Compact(7u32).encode();
	zst_grid!(ctx, "Vec<TrackedZst>", 7, &len7, |bs: &[u8]| <Vec<TrackedZst>>::decode(&mut &bs[..]));
	zst_grid!(ctx, "VecDeque<TrackedZst>", 7, &len7, |bs: &[u8]| <VecDeque<TrackedZst>>::decode(&mut &bs[..]));
	zst_grid!(ctx, "LinkedList<TrackedZst>", 7, &len7, |bs: &[u8]| <LinkedList<TrackedZst>>::decode(&mut &bs[..]));
	let len3 = parity_scale_codec::Compact(3u32).encode();
	zst_grid!(ctx, "Vec<[TrackedZst; 2]>", 6, &len3, |bs: &[u8]| <Vec<[TrackedZst; 2]>>::decode(&mut &bs[..]));
	zst_grid!(ctx, "Rc<[TrackedZst; 3]>", 3, &[], |bs: &[u8]| <Rc<[TrackedZst; 3]>>::decode(&mut &bs[..]));
}

pub fn ledger_stream(ctx: &mut Ctx) {
	zst_shapes(ctx);
	arrays::<0>(ctx);
	arrays::<1>(ctx);
	arrays::<2>(ctx);
	arrays::<3>(ctx);
	arrays::<5>(ctx);
	arrays::<8>(ctx);
	arrays::<17>(ctx);
	arrays::<40>(ctx);
	if ctx.tier_thorough {
		arrays::<4>(ctx);
		arrays::<6>(ctx);
		arrays::<7>(ctx);
		arrays::<16>(ctx);
		arrays::<31>(ctx);
		arrays::<32>(ctx);
		arrays::<33>(ctx);
	}
	for n in [0usize, 1, 2, 3, 7, 17, 33, 40] {
		collections(ctx, n);
	}
	holders_under_depth_limit(ctx);
	trailing_marker_cases(ctx);
	later_marker_cases(ctx);
	skipped_default_cases(ctx);
	big_shared_cases(ctx);
	big_tuple_cases(ctx);
	// Option / Result / tuples / derived types: fixed shapes, failure at every element position
	grid!(ctx, "Option<Tracked> (Some)", None, 1, &[1], |bs: &[u8]| <Option<Tracked>>::decode(&mut &bs[..]));
	grid!(ctx, "Result<Tracked, Tracked> (Err)", None, 1, &[1], |bs: &[u8]| <Result<Tracked, Tracked>>::decode(&mut &bs[..]));
	grid!(ctx, "(Tracked, Tracked, Tracked)", Some("vec"), 3, &[], |bs: &[u8]| <(Tracked, Tracked, Tracked)>::decode(&mut &bs[..]));
	grid!(ctx, "Box<(Tracked, Tracked)>", Some("vec"), 2, &[], |bs: &[u8]| <Box<(Tracked, Tracked)>>::decode(&mut &bs[..]));
	// GenericArray collects into a temporary Vec: elements decoded before a failure (or a panic of
	// a later element's decoder) are owned, and dropped, by that Vec
	#[cfg(feature = "garray-f")]
	{
		use generic_array::{typenum, GenericArray};
		grid!(ctx, "GenericArray<Tracked, U1>", Some("vec"), 1, &[], |bs: &[u8]| <GenericArray<Tracked, typenum::U1>>::decode(&mut &bs[..]));
		grid!(ctx, "GenericArray<Tracked, U3>", Some("vec"), 3, &[], |bs: &[u8]| <GenericArray<Tracked, typenum::U3>>::decode(&mut &bs[..]));
		grid!(ctx, "GenericArray<Tracked, U8>", Some("vec"), 8, &[], |bs: &[u8]| <GenericArray<Tracked, typenum::U8>>::decode(&mut &bs[..]));
		grid!(ctx, "Box<GenericArray<Tracked, U5>>", Some("vec"), 5, &[], |bs: &[u8]| <Box<GenericArray<Tracked, typenum::U5>>>::decode(&mut &bs[..]));
		grid!(ctx, "Vec<GenericArray<Tracked, U2>> (2)", None, 4, &[8], |bs: &[u8]| <Vec<GenericArray<Tracked, typenum::U2>>>::decode(&mut &bs[..]));
	}
	grid!(ctx, "CompositeEnum::A", None, 2, &[0], |bs: &[u8]| CompositeEnum::decode(&mut &bs[..]));
	grid!(ctx, "CompositeEnum::B", None, 3, &[1], |bs: &[u8]| {
		// x: [Tracked; 2], y: Some(Tracked)
		let mut v = bs[..1.min(bs.len())].to_vec();
		let rest = &bs[1.min(bs.len())..];
		for (i, b) in rest.iter().enumerate() {
			if i == 2 {
				v.push(1);
			}
			v.push(*b);
		}
		CompositeEnum::decode(&mut &v[..])
	});
	grid!(ctx, "Composite {a, b: [_; 3], c: Vec<_> (2), d: Box<_>}", None, 7, &[], |bs: &[u8]| {
		// a, b0, b1, b2, [compact 2] c0, c1, d
		let mut v = vec![];
		for (i, b) in bs.iter().enumerate() {
			if i == 4 {
				v.push(8);
			}
			v.push(*b);
		}
		if bs.len() == 4 {
			// exhausted exactly before the vector's length prefix
		}
		Composite::decode(&mut &v[..])
	});
}
