//! C08: the same bytes decoded through every kind of `Input` the crate ships, and through stacks
//! of the input wrappers with non-binding limits.

use crate::modeled::{hex_or_dash, val_string};
use crate::rng::Rng;
use crate::streams::Cat;
use crate::Ctx;
use parity_scale_codec::{CountedInput, DecodeLimit, Error, Input, IoReader, MemTrackingInput};
use std::panic::{catch_unwind, AssertUnwindSafe};

/// A reader that delivers 1..=3 bytes per `read` call.
struct ShortReader<'a> {
	data: &'a [u8],
	pos: usize,
	rng: Rng,
}
impl std::io::Read for ShortReader<'_> {
	fn read(&mut self, buf: &mut [u8]) -> std::io::Result<usize> {
		let n = (1 + self.rng.below(3) as usize).min(buf.len()).min(self.data.len() - self.pos);
		buf[..n].copy_from_slice(&self.data[self.pos..self.pos + n]);
		self.pos += n;
		Ok(n)
	}
}

/// A reader that is interrupted (`ErrorKind::Interrupted`: a signal arrived) on every other call and
/// delivers 1..=2 bytes otherwise; `read_exact` retries, and so must everything built on `IoReader`.
struct InterruptedReader<'a> {
	data: &'a [u8],
	pos: usize,
	calls: usize,
}
impl std::io::Read for InterruptedReader<'_> {
	fn read(&mut self, buf: &mut [u8]) -> std::io::Result<usize> {
		self.calls += 1;
		if self.calls % 2 == 1 {
			return Err(std::io::Error::new(std::io::ErrorKind::Interrupted, "signal"));
		}
		let n = (1 + self.calls / 2 % 2).min(buf.len()).min(self.data.len() - self.pos);
		buf[..n].copy_from_slice(&self.data[self.pos..self.pos + n]);
		self.pos += n;
		Ok(n)
	}
}

/// An `Input` that cannot report its remaining length.
struct UnknownLen<'a> {
	data: &'a [u8],
	pos: usize,
}
impl Input for UnknownLen<'_> {
	fn remaining_len(&mut self) -> Result<Option<usize>, Error> {
		Ok(None)
	}
	fn read(&mut self, into: &mut [u8]) -> Result<(), Error> {
		if into.len() > self.data.len() - self.pos {
			return Err("eof".into());
		}
		into.copy_from_slice(&self.data[self.pos..self.pos + into.len()]);
		self.pos += into.len();
		Ok(())
	}
}

fn outcome<T: Cat>(r: std::thread::Result<(Result<T, Error>, usize)>) -> String {
	match r {
		Ok((Ok(v), consumed)) => format!("ok {} consumed={}", val_string(&v, true), consumed),
		Ok((Err(_), _)) => "err".into(),
		Err(_) => "panic".into(),
	}
}

pub fn run_stacks<T: Cat + DecodeLimit>(ctx: &mut Ctx, name: &str, bs: &[u8], seed: u64) {
	let len = bs.len();
	let mut results: Vec<(&'static str, String)> = vec![];
	let mut rec = |label: &'static str, r: String| results.push((label, r));

	rec("slice", outcome::<T>(catch_unwind(AssertUnwindSafe(|| {
		let mut s = bs;
		let r = T::decode(&mut s);
		(r, len - s.len())
	}))));
	rec("io-cursor", outcome::<T>(catch_unwind(AssertUnwindSafe(|| {
		let mut io = IoReader(std::io::Cursor::new(bs));
		let r = T::decode(&mut io);
		(r, io.0.position() as usize)
	}))));
	rec("io-short", outcome::<T>(catch_unwind(AssertUnwindSafe(|| {
		let mut io = IoReader(ShortReader { data: bs, pos: 0, rng: Rng::new(seed) });
		let r = T::decode(&mut io);
		(r, io.0.pos)
	}))));
	rec("io-interrupted", outcome::<T>(catch_unwind(AssertUnwindSafe(|| {
		let mut io = IoReader(InterruptedReader { data: bs, pos: 0, calls: 0 });
		let r = T::decode(&mut io);
		(r, io.0.pos)
	}))));
	rec("io-bufreader(3)", outcome::<T>(catch_unwind(AssertUnwindSafe(|| {
		let mut io = IoReader(std::io::BufReader::with_capacity(3, ShortReader { data: bs, pos: 0, rng: Rng::new(seed ^ 5) }));
		let r = T::decode(&mut io);
		// consumed = what left the buffer: delivered by the inner reader minus what is still buffered
		let consumed = io.0.get_ref().pos - io.0.buffer().len();
		(r, consumed)
	}))));
	rec("io-chain", outcome::<T>(catch_unwind(AssertUnwindSafe(|| {
		use std::io::Read;
		let cut = len / 3;
		let mut io = IoReader(std::io::Cursor::new(&bs[..cut]).chain(std::io::BufReader::with_capacity(5, std::io::Cursor::new(&bs[cut..]))));
		let r = T::decode(&mut io);
		let (a, b) = io.0.get_ref();
		let consumed = a.position() as usize + (b.get_ref().position() as usize - b.buffer().len());
		(r, consumed)
	}))));
	rec("unknown-len", outcome::<T>(catch_unwind(AssertUnwindSafe(|| {
		let mut u = UnknownLen { data: bs, pos: 0 };
		let r = T::decode(&mut u);
		(r, u.pos)
	}))));
	let mut miscount: Option<(u64, usize)> = None;
	rec("counted(slice)", outcome::<T>(catch_unwind(AssertUnwindSafe(|| {
		let mut s = bs;
		let mut c = CountedInput::new(&mut s);
		let r = T::decode(&mut c);
		let n = c.count();
		if r.is_ok() && n != (len - s.len()) as u64 {
			miscount = Some((n, len - s.len()));
		}
		(r, len - s.len())
	}))));
	if let Some((n, consumed)) = miscount {
		let msg = format!("{}: CountedInput over a slice reports {} bytes after a decode that consumed {} on {}", name, n, consumed, hex_or_dash(bs));
		ctx.oracle_fail("C08", msg.clone());
		ctx.oracle_fail("C19", msg);
	}
	rec("mem(slice)", outcome::<T>(catch_unwind(AssertUnwindSafe(|| {
		let mut s = bs;
		let mut m = MemTrackingInput::new(&mut s, usize::MAX);
		let r = T::decode(&mut m);
		(r, len - s.len())
	}))));
	rec("depth(slice)", outcome::<T>(catch_unwind(AssertUnwindSafe(|| {
		let mut s = bs;
		let r = T::decode_with_depth_limit(u32::MAX, &mut s);
		(r, len - s.len())
	}))));
	rec("depth(counted(mem(slice)))", outcome::<T>(catch_unwind(AssertUnwindSafe(|| {
		let mut s = bs;
		let mut m = MemTrackingInput::new(&mut s, usize::MAX);
		let mut c = CountedInput::new(&mut m);
		let r = T::decode_with_depth_limit(u32::MAX, &mut c);
		(r, len - s.len())
	}))));
	rec("depth(mem(counted(unknown)))", outcome::<T>(catch_unwind(AssertUnwindSafe(|| {
		let mut u = UnknownLen { data: bs, pos: 0 };
		let mut c = CountedInput::new(&mut u);
		let mut m = MemTrackingInput::new(&mut c, usize::MAX);
		let r = T::decode_with_depth_limit(u32::MAX, &mut m);
		(r, u.pos)
	}))));
	rec("mem(mem(io-short))", outcome::<T>(catch_unwind(AssertUnwindSafe(|| {
		let mut io = IoReader(ShortReader { data: bs, pos: 0, rng: Rng::new(seed ^ 1) });
		let mut m1 = MemTrackingInput::new(&mut io, usize::MAX);
		let mut m2 = MemTrackingInput::new(&mut m1, usize::MAX - 1);
		let r = T::decode(&mut m2);
		(r, io.0.pos)
	}))));
	rec("counted(counted(io-cursor))", outcome::<T>(catch_unwind(AssertUnwindSafe(|| {
		let mut io = IoReader(std::io::Cursor::new(bs));
		let mut c1 = CountedInput::new(&mut io);
		let mut c2 = CountedInput::new(&mut c1);
		let r = T::decode(&mut c2);
		(r, io.0.position() as usize)
	}))));
	#[cfg(feature = "bytes-f")]
	{
		// the shared byte buffer: value only (the cursor is private), consumption is not observable
		let r = catch_unwind(AssertUnwindSafe(|| parity_scale_codec::decode_from_bytes::<T>(bytes::Bytes::copy_from_slice(bs))));
		let s = match r {
			Ok(Ok(v)) => format!("ok {}", val_string(&v, true)),
			Ok(Err(_)) => "err".into(),
			Err(_) => "panic".into(),
		};
		let slice = &results[0].1;
		let slice_val = match slice.rfind(" consumed=") {
			Some(i) => slice[..i].to_string(),
			None => slice.clone(),
		};
		if s != slice_val {
			ctx.oracle_fail("C08", format!("{}: decode_from_bytes gives {} but the slice gives {} on {}", name, &s[..s.len().min(60)], &slice_val[..slice_val.len().min(60)], hex_or_dash(bs)));
		}
		ctx.count("stack:decode_from_bytes", 1);
	}
	// oracle (C08): every stack agrees with the slice
	let base = results[0].1.clone();
	for (label, r) in &results[1..] {
		ctx.count(&format!("stack:{}", label), 1);
		if *r != base {
			ctx.oracle_fail("C08", format!("{}: input stack {} gives {} but the slice gives {} on {}", name, label, &r[..r.len().min(60)], &base[..base.len().min(60)], hex_or_dash(bs)));
		}
	}
	// model answers for the three input kinds the model implements directly
	let to_model = |r: &str| -> String {
		match r.rfind(" consumed=") {
			Some(i) => {
				let consumed: usize = r[i + 10..].parse().unwrap();
				format!("{} {}", &r[..i], len - consumed)
			},
			None => r.to_string(),
		}
	};
	let ty = T::ty(len + 1);
	ctx.emit("stacks", name, &format!("dec {} {}", ty, hex_or_dash(bs)), &to_model(&results[0].1));
	ctx.emit("stacks", name, &format!("decio {} {}", ty, hex_or_dash(bs)), &to_model(&results[1].1));
	ctx.emit("stacks", name, &format!("decbc {} {}", ty, hex_or_dash(bs)), &to_model(&results[0].1));
}
