//! C06: construction histories. The bytes after every step are compared with the model's encoding
//! of the logical content and, on the implementation, with the encoding of a freshly built vector.

use crate::derived::TwinU32;
use crate::modeled::{hex_or_dash, val_string, Modeled, G};
use crate::rng::Rng;
use crate::streams::enc_answer;
use crate::Ctx;
use parity_scale_codec::Encode;
use std::borrow::Cow;
use std::collections::{BTreeMap, BTreeSet, LinkedList, VecDeque};
use std::rc::Rc;
use std::sync::Arc;

fn seq_text<T: Modeled>(xs: &[T]) -> String {
	let mut s = format!("L {}", xs.len());
	for x in xs {
		s.push(' ');
		x.val(&mut s, false);
	}
	s
}

fn deque_history<T: Modeled + Encode + Clone>(ctx: &mut Ctx, name: &'static str, rng: &mut Rng) {
	let mut g = G::new(rng.next(), 3);
	let mut d: VecDeque<T> = if rng.chance(1, 2) { VecDeque::new() } else { VecDeque::with_capacity(rng.below(9) as usize) };
	let steps = 5 + rng.below(40);
	let mut wrapped = 0u64;
	for _ in 0..steps {
		g.budget = 3;
		match rng.below(13) {
			0..=2 => d.push_back(T::gen(&mut g)),
			3..=5 => d.push_front(T::gen(&mut g)),
			6 => {
				d.pop_front();
			},
			7 => {
				d.pop_back();
			},
			8 => {
				if !d.is_empty() {
					let k = rng.below(d.len() as u64) as usize;
					d.rotate_left(k);
				}
			},
			9 => {
				d.make_contiguous();
			},
			10 => d.reserve(rng.below(20) as usize),
			11 => d.shrink_to_fit(),
			_ => {
				if !d.is_empty() {
					let k = rng.below(d.len() as u64 + 1) as usize;
					d.insert(k, T::gen(&mut g));
				}
			},
		}
		let (a, b) = d.as_slices();
		if !b.is_empty() {
			wrapped += 1;
		}
		let (ans, bytes) = enc_answer(&d);
		ctx.emit("hist-deque", name, &format!("encdq {} {} {}", T::ty(4), seq_text(a), seq_text(b)), &ans);
		// oracle (C06): a deque encodes like the vector of its elements whatever its ring-buffer state
		let fresh: Vec<T> = d.iter().cloned().collect();
		if bytes.as_deref() != Some(&fresh.encode()[..]) {
			ctx.oracle_fail("C06", format!("{}: VecDeque with slices ({}, {}) encodes to {} but the vector of its elements to {}", name, a.len(), b.len(), ans, hex_or_dash(&fresh.encode())));
		}
	}
	ctx.count("hist:deque-steps-in-wrapped-state", wrapped);
}

fn vec_history<T: Modeled + Encode + Clone>(ctx: &mut Ctx, name: &'static str, rng: &mut Rng) {
	let mut g = G::new(rng.next(), 3);
	let mut v: Vec<T> = Vec::new();
	for _ in 0..(5 + rng.below(20)) {
		g.budget = 3;
		match rng.below(7) {
			0..=2 => v.push(T::gen(&mut g)),
			3 => {
				v.pop();
			},
			4 => v.reserve(rng.below(100) as usize),
			5 => v.shrink_to_fit(),
			_ => {
				if !v.is_empty() {
					let k = rng.below(v.len() as u64) as usize;
					v.remove(k);
				}
			},
		}
		let (ans, bytes) = enc_answer(&v);
		ctx.emit("hist-vec", name, &format!("enc {} {}", Vec::<T>::ty(4), val_string(&v, false)), &ans);
		// oracle (C06): spare capacity is invisible
		let fresh: Vec<T> = v.iter().cloned().collect::<Vec<T>>().into_boxed_slice().into_vec();
		if bytes.as_deref() != Some(&fresh.encode()[..]) {
			ctx.oracle_fail("C06", format!("{}: Vec with capacity {} encodes differently from an exact-capacity copy", name, v.capacity()));
		}
	}
}

fn map_history(ctx: &mut Ctx, rng: &mut Rng) {
	// the same final content reached by two different insert/remove histories
	let n = rng.below(12) as usize;
	let mut entries: Vec<(u16, Vec<u8>)> = (0..n).map(|_| (rng.below(40) as u16, (0..rng.below(3)).map(|_| rng.below(256) as u8).collect())).collect();
	let mut m1: BTreeMap<u16, Vec<u8>> = BTreeMap::new();
	let mut s1: BTreeSet<u16> = BTreeSet::new();
	for (k, v) in &entries {
		m1.insert(*k, v.clone());
		s1.insert(*k);
	}
	// second history: reversed order, with extra keys inserted and removed again
	let mut m2: BTreeMap<u16, Vec<u8>> = BTreeMap::new();
	let mut s2: BTreeSet<u16> = BTreeSet::new();
	for j in 0..5u16 {
		m2.insert(1000 + j, vec![9]);
		s2.insert(1000 + j);
	}
	entries.reverse();
	// later duplicates win in history 1; replay so that the same value ends up in the map
	for (k, _) in &entries {
		m2.insert(*k, m1[k].clone());
		s2.insert(*k);
	}
	for j in 0..5u16 {
		m2.remove(&(1000 + j));
		s2.remove(&(1000 + j));
	}
	let (a1, b1) = enc_answer(&m1);
	ctx.emit("hist-map", "BTreeMap<u16,Vec<u8>>", &format!("enc {} {}", BTreeMap::<u16, Vec<u8>>::ty(4), val_string(&m1, false)), &a1);
	let (a2, b2) = enc_answer(&s2);
	ctx.emit("hist-map", "BTreeSet<u16>", &format!("enc {} {}", BTreeSet::<u16>::ty(4), val_string(&s2, false)), &a2);
	// oracle (C06): insertion order is invisible
	if b1 != Some(m2.encode()) || b2 != Some(s1.encode()) {
		ctx.oracle_fail("C06", "BTreeMap/BTreeSet: two histories with the same final content encode differently".to_string());
	}
}

fn list_history(ctx: &mut Ctx, rng: &mut Rng) {
	let mut l: LinkedList<u32> = LinkedList::new();
	for _ in 0..(3 + rng.below(15)) {
		match rng.below(5) {
			0 | 1 => l.push_back(rng.next() as u32),
			2 => l.push_front(rng.next() as u32),
			3 => {
				if !l.is_empty() {
					let k = rng.below(l.len() as u64 + 1) as usize;
					let mut tail = l.split_off(k);
					tail.push_front(7);
					l.append(&mut tail);
				}
			},
			_ => {
				l.pop_front();
			},
		}
		let (ans, bytes) = enc_answer(&l);
		ctx.emit("hist-list", "LinkedList<u32>", &format!("enc {} {}", LinkedList::<u32>::ty(4), val_string(&l, false)), &ans);
		let fresh: Vec<u32> = l.iter().cloned().collect();
		if bytes.as_deref() != Some(&fresh.encode()[..]) {
			ctx.oracle_fail("C06", "LinkedList: encodes differently from the vector of its elements".to_string());
		}
	}
}

#[cfg(feature = "bitvec-f")]
fn bits_history<T: bitvec::store::BitStore + parity_scale_codec::Encode + crate::modeled::StoreName, O: bitvec::order::BitOrder + crate::modeled::OrderName>(
	ctx: &mut Ctx,
	rng: &mut Rng,
) {
	use bitvec::prelude::*;
	let w = core::mem::size_of::<T>() * 8;
	let total = 2 * w + 1 + rng.below(2 * w as u64) as usize;
	let mut bv: BitVec<T, O> = BitVec::new();
	for _ in 0..total {
		bv.push(rng.chance(1, 2));
	}
	let name = "BitSlice";
	// every start offset inside the first two words, several lengths
	for start in 0..=(2 * w).min(total) {
		for len in [0usize, 1, w - 1, w, w + 1, total - start] {
			if start + len > total {
				continue;
			}
			let s: &BitSlice<T, O> = &bv[start..start + len];
			let (ans, bytes) = enc_answer(s);
			let mut bits = String::from("b");
			for b in s.iter().by_vals() {
				bits.push(if b { '1' } else { '0' });
			}
			if O::NAME != "custom" {
				ctx.emit("hist-bits", name, &format!("enc bits {} {} {}", T::NAME, O::NAME, bits), &ans);
			}
			// oracle (C06): the offset inside the backing words is invisible
			let fresh: BitVec<T, O> = s.iter().by_vals().collect();
			if bytes.as_deref() != Some(&fresh.encode()[..]) {
				ctx.oracle_fail("C06", format!("BitSlice<{}, {}> at bit offset {} (len {}) encodes differently from a fresh BitVec of the same bits", T::NAME, O::NAME, start, len));
			}
		}
	}
}

/// Ranges that have been iterated - partly, or until they returned `None` (a `RangeInclusive` then
/// carries a private "exhausted" flag): the encoding is `start ++ end` of what `start()`/`end()`
/// report, whatever happened to the object before.
fn range_history(ctx: &mut Ctx, rng: &mut Rng) {
	use core::ops::{Range, RangeInclusive};
	let a = rng.below(250) as u8;
	let n = rng.below(6) as u8;
	let b = a.saturating_add(n);
	let mut forms: Vec<(&str, RangeInclusive<u8>)> = vec![("fresh", a..=b)];
	let mut part = a..=b;
	part.next();
	forms.push(("one step taken", part));
	let mut back = a..=b;
	back.next_back();
	forms.push(("one step taken from the back", back));
	let mut done = a..=b;
	for _ in done.by_ref() {}
	forms.push(("iterated until None", done.clone()));
	done.next();
	forms.push(("iterated past None", done));
	let mut nth = a..=b;
	nth.nth(n as usize + 3);
	forms.push(("nth beyond the end", nth));
	forms.push(("empty from the start", b.saturating_add(1)..=a));
	for (label, r) in forms {
		let expect = (r.start(), r.end()).encode();
		let (ans, bytes) = enc_answer(&r);
		ctx.emit("hist-range", label, &format!("enc {} {}", <RangeInclusive<u8>>::ty(1), val_string(&r, false)), &ans);
		let in_vec = enc_answer(&vec![r.clone(), r.clone()]).1;
		let mut two = vec![8u8];
		two.extend_from_slice(&expect);
		two.extend_from_slice(&expect);
		if bytes.as_deref() != Some(&expect[..]) || in_vec != Some(two) || r.encoded_size() != expect.len() || r.using_encoded(|b| b.to_vec()) != expect {
			let msg = format!("RangeInclusive<u8> {:?} ({}) does not encode as start ++ end = {} (got {})", r, label, hex_or_dash(&expect), ans);
			ctx.oracle_fail("C06", msg.clone());
			ctx.oracle_fail("C01", msg);
		}
	}
	let mut r: Range<u32> = 5..9;
	r.next();
	let mut e: Range<u32> = 5..9;
	for _ in e.by_ref() {}
	for (label, r) in [("one step taken", r), ("iterated until None", e)] {
		let expect = (r.start, r.end).encode();
		let (ans, bytes) = enc_answer(&r);
		ctx.emit("hist-range", label, &format!("enc {} {}", <Range<u32>>::ty(1), val_string(&r, false)), &ans);
		if bytes.as_deref() != Some(&expect[..]) {
			let msg = format!("Range<u32> {:?} ({}) does not encode as start ++ end", r, label);
			ctx.oracle_fail("C06", msg.clone());
			ctx.oracle_fail("C01", msg);
		}
	}
}

/// Owned bit vectors that do not start at bit 0 of their first storage word (`from_bitslice`,
/// `to_bitvec`, `split_off`, `clone` keep the head offset), of lengths that are and are not whole
/// words, short and long; and long slices at every offset.
#[cfg(feature = "bitvec-f")]
fn bits_head_history<T: bitvec::store::BitStore + parity_scale_codec::Encode + crate::modeled::StoreName, O: bitvec::order::BitOrder + crate::modeled::OrderName>(
	ctx: &mut Ctx,
	rng: &mut Rng,
	long: bool,
) {
	use bitvec::prelude::*;
	let w = core::mem::size_of::<T>() * 8;
	let lens: Vec<usize> = if long { vec![131072, 131072 + 5, 131072 + w, 2 * 131072 + 3] } else { vec![w, 2 * w, 8 * w, 512, 512 + w, 520, 1024, 1024 + w - 1] };
	let total = lens.iter().max().unwrap() + 2 * w;
	let mut bv: BitVec<T, O> = BitVec::with_capacity(total);
	for _ in 0..total {
		bv.push(rng.chance(1, 2));
	}
	for &len in &lens {
		for start in [1usize, 3, w - 1, w + 2] {
			let s: &BitSlice<T, O> = &bv[start..start + len];
			let fresh: BitVec<T, O> = s.iter().by_vals().collect();
			let expect = fresh.encode();
			let owned: BitVec<T, O> = BitVec::from_bitslice(s);
			let cloned = owned.clone();
			let mut split = bv.clone();
			let tail = split.split_off(start);
			let mut tail_cut = tail.clone();
			tail_cut.truncate(len);
			let boxed: BitBox<T, O> = owned.clone().into_boxed_bitslice();
			let mut bits = String::from("b");
			for b in s.iter().by_vals() {
				bits.push(if b { '1' } else { '0' });
			}
			let forms: Vec<(&str, Vec<u8>)> = vec![
				("BitSlice at an offset", s.encode()),
				("BitVec::from_bitslice", owned.encode()),
				("its clone", cloned.encode()),
				("split_off + truncate", tail_cut.encode()),
				("BitBox", boxed.encode()),
				("&BitVec", (&owned).encode()),
				("Box<BitVec>", Box::new(owned.clone()).encode()),
				("using_encoded", owned.using_encoded(|b| b.to_vec())),
				("(BitVec,)", (owned.clone(),).encode()),
			];
			for (label, bytes) in forms {
				if label == "BitVec::from_bitslice" && (!long || start == 1) && O::NAME != "custom" {
					ctx.emit("hist-bits", "BitVec(head offset)", &format!("enc bits {} {} {}", T::NAME, O::NAME, bits), &hex_or_dash(&bytes));
				}
				if bytes != expect {
					let msg = format!("{} of {} bits taken from bit offset {} of BitVec<{}, {}> encodes differently from a fresh BitVec of the same bits", label, len, start, T::NAME, O::NAME);
					ctx.oracle_fail("C06", msg.clone());
					ctx.oracle_fail("C16", msg.clone());
					ctx.oracle_fail("C01", msg);
				}
			}
			if owned.encoded_size() != expect.len() {
				ctx.oracle_fail("C07", format!("encoded_size of a BitVec<{}, {}> with head offset {} ({} bits)", T::NAME, O::NAME, start, len));
			}
		}
	}
}

/// A user-defined bit order (the crate's impls are generic over `O: BitOrder`): positions 1 and 2
/// of every register swapped, all others as in `Lsb0`. No model descriptor - the offset / history
/// oracles apply to it as to the built-in orders.
#[cfg(feature = "bitvec-f")]
pub struct SwapOrder;
#[cfg(feature = "bitvec-f")]
unsafe impl bitvec::order::BitOrder for SwapOrder {
	fn at<R: bitvec::mem::BitRegister>(index: bitvec::index::BitIdx<R>) -> bitvec::index::BitPos<R> {
		let i = index.into_inner();
		let j = match i {
			1 => 2,
			2 => 1,
			x => x,
		};
		bitvec::index::BitPos::new(j).unwrap()
	}
}
#[cfg(feature = "bitvec-f")]
impl crate::modeled::OrderName for SwapOrder {
	const NAME: &'static str = "custom";
}

fn holder_history(ctx: &mut Ctx, rng: &mut Rng) {
	let mut g = G::new(rng.next(), 8);
	let v: (u32, Vec<u8>, Option<String>) = Modeled::gen(&mut g);
	let base = v.encode();
	let ty = <(u32, Vec<u8>, Option<String>)>::ty(4);
	let text = val_string(&v, false);
	let b = Box::new(v.clone());
	let rc = Rc::new(v.clone());
	let rc2 = rc.clone();
	let arc = Arc::new(v.clone());
	let cow_b: Cow<(u32, Vec<u8>, Option<String>)> = Cow::Borrowed(&v);
	let cow_o: Cow<(u32, Vec<u8>, Option<String>)> = Cow::Owned(v.clone());
	let r = &v;
	let rr = &r;
	let forms: Vec<(&str, Vec<u8>)> = vec![
		("Box", b.encode()),
		("Rc", rc.encode()),
		("Rc(clone)", rc2.encode()),
		("Arc", arc.encode()),
		("Cow::Borrowed", cow_b.encode()),
		("Cow::Owned", cow_o.encode()),
		("Cow::into_owned", cow_b.clone().into_owned().encode()),
		("&T", r.encode()),
		("&&T", rr.encode()),
		("Box<&T>", Box::new(r).encode()),
	];
	for (label, bytes) in forms {
		ctx.emit("hist-holder", label, &format!("enc {} {}", ty, text), &hex_or_dash(&bytes));
		if bytes != base {
			ctx.oracle_fail("C06", format!("holder {} encodes to {} but the plain value to {}", label, hex_or_dash(&bytes), hex_or_dash(&base)));
		}
	}
}

pub fn hist_stream(ctx: &mut Ctx) {
	let mut rng = Rng::new(ctx.seed ^ 0x4157);
	let rounds = if ctx.tier_thorough { 300 } else { 30 };
	for _ in 0..rounds {
		deque_history::<u8>(ctx, "VecDeque<u8>", &mut rng);
		deque_history::<u32>(ctx, "VecDeque<u32>", &mut rng);
		deque_history::<String>(ctx, "VecDeque<String>", &mut rng);
		deque_history::<TwinU32>(ctx, "VecDeque<TwinU32>", &mut rng);
		deque_history::<Option<u16>>(ctx, "VecDeque<Option<u16>>", &mut rng);
		vec_history::<u16>(ctx, "Vec<u16>", &mut rng);
		vec_history::<String>(ctx, "Vec<String>", &mut rng);
		map_history(ctx, &mut rng);
		list_history(ctx, &mut rng);
		holder_history(ctx, &mut rng);
		range_history(ctx, &mut rng);
		let mut s = String::with_capacity(rng.below(200) as usize);
		s.push_str("héllo");
		s.reserve(rng.below(100) as usize);
		let (ans, bytes) = enc_answer(&s);
		ctx.emit("hist-string", "String", &format!("enc str {}", val_string(&s, false)), &ans);
		if bytes != Some(String::from("héllo").encode()) {
			ctx.oracle_fail("C06", "String with spare capacity encodes differently".to_string());
		}
	}
	#[cfg(feature = "bitvec-f")]
	{
		use bitvec::prelude::*;
		for _ in 0..(rounds / 10).max(2) {
			bits_history::<u8, Lsb0>(ctx, &mut rng);
			bits_history::<u8, Msb0>(ctx, &mut rng);
			bits_history::<u16, Lsb0>(ctx, &mut rng);
			bits_history::<u16, Msb0>(ctx, &mut rng);
			bits_history::<u32, Lsb0>(ctx, &mut rng);
			bits_history::<u32, Msb0>(ctx, &mut rng);
			bits_history::<u64, Lsb0>(ctx, &mut rng);
			bits_history::<u64, Msb0>(ctx, &mut rng);
		}
		bits_history::<u8, SwapOrder>(ctx, &mut rng);
		bits_history::<u16, SwapOrder>(ctx, &mut rng);
		bits_history::<u64, SwapOrder>(ctx, &mut rng);
		bits_head_history::<u8, SwapOrder>(ctx, &mut rng, false);
		bits_head_history::<u32, SwapOrder>(ctx, &mut rng, false);
		bits_head_history::<u8, Lsb0>(ctx, &mut rng, false);
		bits_head_history::<u8, Msb0>(ctx, &mut rng, false);
		bits_head_history::<u16, Msb0>(ctx, &mut rng, false);
		bits_head_history::<u32, Lsb0>(ctx, &mut rng, false);
		bits_head_history::<u64, Lsb0>(ctx, &mut rng, false);
		bits_head_history::<u64, Msb0>(ctx, &mut rng, false);
		bits_head_history::<u8, Lsb0>(ctx, &mut rng, true);
		bits_head_history::<u32, Msb0>(ctx, &mut rng, true);
		bits_head_history::<u64, Lsb0>(ctx, &mut rng, true);
	}
}
