//! C06: construction histories. The bytes after every step are compared with the model's encoding
//! of the logical content and, on the implementation, with the encoding of a freshly built vector.

use crate::derived::TwinU32;
use crate::modeled::{hex_or_dash, val_string, Modeled, G};
use crate::rng::Rng;
use crate::streams::enc_answer;
use crate::Ctx;
use parity_scale_codec::Encode;
use std::borrow::Cow;
use std::collections::{BTreeMap, BTreeSet, LinkedList, VecDeque};
use std::rc::Rc;
use std::sync::Arc;

fn seq_text<T: Modeled>(xs: &[T]) -> String {
	let mut s = format!("L {}", xs.len());
	for x in xs {
		s.push(' ');
		x.val(&mut s, false);
	}
	s
}

fn deque_history<T: Modeled + Encode + Clone>(ctx: &mut Ctx, name: &'static str, rng: &mut Rng) {
	let mut g = G::new(rng.next(), 3);
	let mut d: VecDeque<T> = if rng.chance(1, 2) { VecDeque::new() } else { VecDeque::with_capacity(rng.below(9) as usize) };
	let steps = 5 + rng.below(40);
	let mut wrapped = 0u64;
	for _ in 0..steps {
		g.budget = 3;
		match rng.below(13) {
			0..=2 => d.push_back(T::gen(&mut g)),
			3..=5 => d.push_front(T::gen(&mut g)),
			6 => {
				d.pop_front();
			},
			7 => {
				d.pop_back();
			},
			8 => {
				if !d.is_empty() {
					let k = rng.below(d.len() as u64) as usize;
					d.rotate_left(k);
				}
			},
			9 => {
				d.make_contiguous();
			},
			10 => d.reserve(rng.below(20) as usize),
			11 => d.shrink_to_fit(),
			_ => {
				if !d.is_empty() {
					let k = rng.below(d.len() as u64 + 1) as usize;
					d.insert(k, T::gen(&mut g));
				}
			},
		}
		let (a, b) = d.as_slices();
		if !b.is_empty() {
			wrapped += 1;
		}
		let (ans, bytes) = enc_answer(&d);
		ctx.emit("hist-deque", name, &format!("encdq {} {} {}", T::ty(4), seq_text(a), seq_text(b)), &ans);
		// oracle (C06): a deque encodes like the vector of its elements whatever its ring-buffer state
		let fresh: Vec<T> = d.iter().cloned().collect();
		if bytes.as_deref() != Some(&fresh.encode()[..]) {
			ctx.oracle_fail("C06", format!("{}: VecDeque with slices ({}, {}) encodes to {} but the vector of its elements to {}", name, a.len(), b.len(), ans, hex_or_dash(&fresh.encode())));
		}
	}
	ctx.count("hist:deque-steps-in-wrapped-state", wrapped);
}

fn vec_history<T: Modeled + Encode + Clone>(ctx: &mut Ctx, name: &'static str, rng: &mut Rng) {
	let mut g = G::new(rng.next(), 3);
	let mut v: Vec<T> = Vec::new();
	for _ in 0..(5 + rng.below(20)) {
		g.budget = 3;
		match rng.below(7) {
			0..=2 => v.push(T::gen(&mut g)),
			3 => {
				v.pop();
			},
			4 => v.reserve(rng.below(100) as usize),
			5 => v.shrink_to_fit(),
			_ => {
				if !v.is_empty() {
					let k = rng.below(v.len() as u64) as usize;
					v.remove(k);
				}
			},
		}
		let (ans, bytes) = enc_answer(&v);
		ctx.emit("hist-vec", name, &format!("enc {} {}", Vec::<T>::ty(4), val_string(&v, false)), &ans);
		// oracle (C06): spare capacity is invisible
		let fresh: Vec<T> = v.iter().cloned().collect::<Vec<T>>().into_boxed_slice().into_vec();
		if bytes.as_deref() != Some(&fresh.encode()[..]) {
			ctx.oracle_fail("C06", format!("{}: Vec with capacity {} encodes differently from an exact-capacity copy", name, v.capacity()));
		}
	}
}

fn map_history(ctx: &mut Ctx, rng: &mut Rng) {
	// the same final content reached by two different insert/remove histories
	let n = rng.below(12) as usize;
	let mut entries: Vec<(u16, Vec<u8>)> = (0..n).map(|_| (rng.below(40) as u16, (0..rng.below(3)).map(|_| rng.below(256) as u8).collect())).collect();
	let mut m1: BTreeMap<u16, Vec<u8>> = BTreeMap::new();
	let mut s1: BTreeSet<u16> = BTreeSet::new();
	for (k, v) in &entries {
		m1.insert(*k, v.clone());
		s1.insert(*k);
	}
	// second history: reversed order, with extra keys inserted and removed again
	let mut m2: BTreeMap<u16, Vec<u8>> = BTreeMap::new();
	let mut s2: BTreeSet<u16> = BTreeSet::new();
	for j in 0..5u16 {
		m2.insert(1000 + j, vec![9]);
		s2.insert(1000 + j);
	}
	entries.reverse();
	// later duplicates win in history 1; replay so that the same value ends up in the map
	for (k, _) in &entries {
		m2.insert(*k, m1[k].clone());
		s2.insert(*k);
	}
	for j in 0..5u16 {
		m2.remove(&(1000 + j));
		s2.remove(&(1000 + j));
	}
	let (a1, b1) = enc_answer(&m1);
	ctx.emit("hist-map", "BTreeMap<u16,Vec<u8>>", &format!("enc {} {}", BTreeMap::<u16, Vec<u8>>::ty(4), val_string(&m1, false)), &a1);
	let (a2, b2) = enc_answer(&s2);
	ctx.emit("hist-map", "BTreeSet<u16>", &format!("enc {} {}", BTreeSet::<u16>::ty(4), val_string(&s2, false)), &a2);
	// oracle (C06): insertion order is invisible
	if b1 != Some(m2.encode()) || b2 != Some(s1.encode()) {
		ctx.oracle_fail("C06", "BTreeMap/BTreeSet: two histories with the same final content encode differently".to_string());
	}
}

fn list_history(ctx: &mut Ctx, rng: &mut Rng) {
	let mut l: LinkedList<u32> = LinkedList::new();
	for _ in 0..(3 + rng.below(15)) {
		match rng.below(5) {
			0 | 1 => l.push_back(rng.next() as u32),
			2 => l.push_front(rng.next() as u32),
			3 => {
				if !l.is_empty() {
					let k = rng.below(l.len() as u64 + 1) as usize;
					let mut tail = l.split_off(k);
					tail.push_front(7);
					l.append(&mut tail);
				}
			},
			_ => {
				l.pop_front();
			},
		}
		let (ans, bytes) = enc_answer(&l);
		ctx.emit("hist-list", "LinkedList<u32>", &format!("enc {} {}", LinkedList::<u32>::ty(4), val_string(&l, false)), &ans);
		let fresh: Vec<u32> = l.iter().cloned().collect();
		if bytes.as_deref() != Some(&fresh.encode()[..]) {
			ctx.oracle_fail("C06", "LinkedList: encodes differently from the vector of its elements".to_string());
		}
	}
}

#[cfg(feature = "bitvec-f")]
fn bits_history<T: bitvec::store::BitStore + parity_scale_codec::Encode + crate::modeled::StoreName, O: bitvec::order::BitOrder + crate::modeled::OrderName>(
	ctx: &mut Ctx,
	rng: &mut Rng,
) {
	use bitvec::prelude::*;
	let w = core::mem::size_of::<T>() * 8;
	let total = 2 * w + 1 + rng.below(2 * w as u64) as usize;
	let mut bv: BitVec<T, O> = BitVec::new();
	for _ in 0..total {
		bv.push(rng.chance(1, 2));
	}
	let name = "BitSlice";
	// every start offset inside the first two words, several lengths
	for start in 0..=(2 * w).min(total) {
		for len in [0usize, 1, w - 1, w, w + 1, total - start] {
			if start + len > total {
				continue;
			}
			let s: &BitSlice<T, O> = &bv[start..start + len];
			let (ans, bytes) = enc_answer(s);
			let mut bits = String::from("b");
			for b in s.iter().by_vals() {
				bits.push(if b { '1' } else { '0' });
			}
			ctx.emit("hist-bits", name, &format!("enc bits {} {} {}", T::NAME, O::NAME, bits), &ans);
			// oracle (C06): the offset inside the backing words is invisible
			let fresh: BitVec<T, O> = s.iter().by_vals().collect();
			if bytes.as_deref() != Some(&fresh.encode()[..]) {
				ctx.oracle_fail("C06", format!("BitSlice<{}, {}> at bit offset {} (len {}) encodes differently from a fresh BitVec of the same bits", T::NAME, O::NAME, start, len));
			}
		}
	}
}

fn holder_history(ctx: &mut Ctx, rng: &mut Rng) {
	let mut g = G::new(rng.next(), 8);
	let v: (u32, Vec<u8>, Option<String>) = Modeled::gen(&mut g);
	let base = v.encode();
	let ty = <(u32, Vec<u8>, Option<String>)>::ty(4);
	let text = val_string(&v, false);
	let b = Box::new(v.clone());
	let rc = Rc::new(v.clone());
	let rc2 = rc.clone();
	let arc = Arc::new(v.clone());
	let cow_b: Cow<(u32, Vec<u8>, Option<String>)> = Cow::Borrowed(&v);
	let cow_o: Cow<(u32, Vec<u8>, Option<String>)> = Cow::Owned(v.clone());
	let r = &v;
	let rr = &r;
	let forms: Vec<(&str, Vec<u8>)> = vec![
		("Box", b.encode()),
		("Rc", rc.encode()),
		("Rc(clone)", rc2.encode()),
		("Arc", arc.encode()),
		("Cow::Borrowed", cow_b.encode()),
		("Cow::Owned", cow_o.encode()),
		("Cow::into_owned", cow_b.clone().into_owned().encode()),
		("&T", r.encode()),
		("&&T", rr.encode()),
		("Box<&T>", Box::new(r).encode()),
	];
	for (label, bytes) in forms {
		ctx.emit("hist-holder", label, &format!("enc {} {}", ty, text), &hex_or_dash(&bytes));
		if bytes != base {
			ctx.oracle_fail("C06", format!("holder {} encodes to {} but the plain value to {}", label, hex_or_dash(&bytes), hex_or_dash(&base)));
		}
	}
}

pub fn hist_stream(ctx: &mut Ctx) {
	let mut rng = Rng::new(ctx.seed ^ 0x4157);
	let rounds = if ctx.tier_thorough { 300 } else { 30 };
	for _ in 0..rounds {
		deque_history::<u8>(ctx, "VecDeque<u8>", &mut rng);
		deque_history::<u32>(ctx, "VecDeque<u32>", &mut rng);
		deque_history::<String>(ctx, "VecDeque<String>", &mut rng);
		deque_history::<TwinU32>(ctx, "VecDeque<TwinU32>", &mut rng);
		deque_history::<Option<u16>>(ctx, "VecDeque<Option<u16>>", &mut rng);
		vec_history::<u16>(ctx, "Vec<u16>", &mut rng);
		vec_history::<String>(ctx, "Vec<String>", &mut rng);
		map_history(ctx, &mut rng);
		list_history(ctx, &mut rng);
		holder_history(ctx, &mut rng);
		let mut s = String::with_capacity(rng.below(200) as usize);
		s.push_str("héllo");
		s.reserve(rng.below(100) as usize);
		let (ans, bytes) = enc_answer(&s);
		ctx.emit("hist-string", "String", &format!("enc str {}", val_string(&s, false)), &ans);
		if bytes != Some(String::from("héllo").encode()) {
			ctx.oracle_fail("C06", "String with spare capacity encodes differently".to_string());
		}
	}
	#[cfg(feature = "bitvec-f")]
	{
		use bitvec::prelude::*;
		for _ in 0..(rounds / 10).max(2) {
			bits_history::<u8, Lsb0>(ctx, &mut rng);
			bits_history::<u8, Msb0>(ctx, &mut rng);
			bits_history::<u16, Lsb0>(ctx, &mut rng);
			bits_history::<u16, Msb0>(ctx, &mut rng);
			bits_history::<u32, Lsb0>(ctx, &mut rng);
			bits_history::<u32, Msb0>(ctx, &mut rng);
			bits_history::<u64, Lsb0>(ctx, &mut rng);
			bits_history::<u64, Msb0>(ctx, &mut rng);
		}
	}
}
