//! Request streams.

use crate::catalogue;
use crate::modeled::{hex, hex_or_dash, val_string, Modeled, G};
use crate::rng::Rng;
use crate::Ctx;
use parity_scale_codec::{
	Compact, CompactLen, CountedInput, Decode, DecodeAll, DecodeLimit, DecodeWithMemTracking, Encode, Input, MemTrackingInput,
};
use std::panic::{catch_unwind, AssertUnwindSafe};

pub fn run_stream(ctx: &mut Ctx, name: &str) {
	match name {
		"compact" => compact_stream(ctx),
		"enc" | "rt" | "mut" | "rand" | "exh" | "cut" | "decall" | "skip" | "count" | "limit" | "mem" | "stacks" | "mel" =>
			catalogue::run_all(ctx, name),
		"sinks" => {
			catalogue::run_all(ctx, name);
			skipped_variant_sinks(ctx);
		},
		"alloc" => {
			catalogue::run_all(ctx, name);
			alloc_big_elems(ctx);
		},
		"wrapops" => wrapops_stream(ctx),
		"len" => len_stream(ctx),
		"concat" => {
			catalogue::run_all(ctx, "pool");
			concat_stream(ctx);
		},
		"big" => big_stream(ctx),
		"bigmem" => bigmem_stream(ctx),
		"allocf4" => alloc_known_findings(ctx),
		"inf" => inf_probe(ctx),
		"ledger" => crate::ledger::ledger_stream(ctx),
		"hist" => crate::hist::hist_stream(ctx),
		"like" => crate::like::like_stream(ctx),
		"bulk" => bulk_stream(ctx),
		"dvl" => dvl_stream(ctx),
		"userext" => crate::userext::userext_stream(ctx),
		"append" => crate::append::append_stream(ctx),
		"utf8" => utf8_stream(ctx),
		other => panic!("unknown stream {}", other),
	}
}

// ---------------------------------------------------------------------------------------------
// C04: compact integers
// ---------------------------------------------------------------------------------------------

fn res_hex(r: std::thread::Result<Vec<u8>>) -> String {
	match r {
		Ok(b) => hex_or_dash(&b),
		Err(_) => "panic".into(),
	}
}

macro_rules! compact_fns {
	($enc:ident, $dec:ident, $t:ty, $w:expr) => {
		fn $enc(ctx: &mut Ctx, stream: &str, x: $t) {
			let a = res_hex(catch_unwind(|| {
				let mut v = Vec::new();
				Compact(x).encode_to(&mut v);
				v
			}));
			let l = <Compact<$t> as CompactLen<$t>>::compact_len(&x);
			let u = res_hex(catch_unwind(|| Compact(x).using_encoded(|b| b.to_vec())));
			// oracle (C04): every way of asking for the length gives the produced length
			let es = catch_unwind(|| (Compact(x).encoded_size(), parity_scale_codec::CompactRef(&x).encoded_size(), Compact(x).size_hint())).ok();
			if a != "panic" && es.map(|e| (e.0, e.1)) != Some((a.len() / 2, a.len() / 2)) {
				ctx.oracle_fail("C04", format!("Compact({}u{}): encoded_size = {:?} but the encoding {} has {} bytes", x, $w * 8, es, a, a.len() / 2));
			}
			if a != "panic" && a.len() / 2 != l {
				ctx.oracle_fail("C04", format!("compact_len({}u{}) = {} but encoding is {}", x, $w * 8, l, a));
			}
			ctx.emit(stream, concat!("Compact<u", stringify!($w), "B>"), &format!("cenc {} {}", $w, x), &format!("{} {} {}", a, l, u));
		}
		fn $dec(ctx: &mut Ctx, stream: &str, bs: &[u8]) {
			let r = catch_unwind(|| {
				let mut s = &bs[..];
				let r = <Compact<$t>>::decode(&mut s);
				(r.map(|c| c.0), s.len())
			});
			let ans = match r {
				Ok((Ok(x), rem)) => {
					// oracle (C04): an accepted string begins with the canonical form of the value
					let canon = Compact(x).encode();
					if bs.len() < canon.len() || bs[..canon.len()] != canon[..] || bs.len() - rem != canon.len() {
						ctx.oracle_fail("C04", format!("Compact<u{}> accepted non-canonical {} as {}", $w * 8, hex(bs), x));
					}
					format!("ok {} {}", x, rem)
				},
				Ok((Err(_), _)) => "err".into(),
				Err(_) => "panic".into(),
			};
			ctx.emit(stream, concat!("Compact<u", stringify!($w), "B>"), &format!("cdec {} {}", $w, hex_or_dash(bs)), &ans);
			// oracle (C04): the in-place decoder (`decode_into`: arrays, Box/Rc/Arc) and `skip` accept
			// exactly the canonical forms `decode` accepts
			{
				let via = |r: std::thread::Result<(Option<$t>, usize)>| match r {
					Ok((Some(x), rem)) => format!("ok {} {}", x, rem),
					Ok((None, _)) => "err".to_string(),
					Err(_) => "panic".to_string(),
				};
				let a1 = via(catch_unwind(|| {
					let mut s = &bs[..];
					let r = <[Compact<$t>; 1]>::decode(&mut s).ok().map(|a| a[0].0);
					(r, s.len())
				}));
				let a2 = via(catch_unwind(|| {
					let mut s = &bs[..];
					let r = <Box<Compact<$t>>>::decode(&mut s).ok().map(|a| a.0);
					(r, s.len())
				}));
				let a3 = via(catch_unwind(|| {
					let mut s = &bs[..];
					let r = <std::sync::Arc<[Compact<$t>; 1]>>::decode(&mut s).ok().map(|a| a[0].0);
					(r, s.len())
				}));
				let sk = match catch_unwind(|| {
					let mut s = &bs[..];
					<Compact<$t>>::skip(&mut s).ok().map(|_| s.len())
				}) {
					Ok(Some(rem)) => format!("ok {}", rem),
					Ok(None) => "err".to_string(),
					Err(_) => "panic".to_string(),
				};
				let want_sk = if ans.starts_with("ok ") { format!("ok {}", ans.rsplit(' ').next().unwrap()) } else { ans.clone() };
				if a1 != ans || a2 != ans || a3 != ans || sk != want_sk {
					ctx.oracle_fail("C04", format!("Compact<u{}> on {}: decode `{}`, as [_; 1] `{}`, boxed `{}`, Arc<[_; 1]> `{}`, skip `{}`", $w * 8, hex(bs), ans, a1, a2, a3, sk));
				}
			}
			// oracle (C04/C08): the same answer from inputs that cannot report their remaining length
			let r2 = catch_unwind(|| {
				let mut u = UnknownLenInput { data: bs, pos: 0 };
				let r = <Compact<$t>>::decode(&mut u);
				(r.map(|c| c.0), bs.len() - u.pos)
			});
			let ans2 = match r2 {
				Ok((Ok(x), rem)) => format!("ok {} {}", x, rem),
				Ok((Err(_), _)) => "err".into(),
				Err(_) => "panic".into(),
			};
			#[cfg(feature = "codec-std")]
			let ans3 = {
				let r3 = catch_unwind(|| {
					let mut io = parity_scale_codec::IoReader(std::io::Cursor::new(bs));
					let r = <Compact<$t>>::decode(&mut io);
					(r.map(|c| c.0), bs.len() - io.0.position() as usize)
				});
				match r3 {
					Ok((Ok(x), rem)) => format!("ok {} {}", x, rem),
					Ok((Err(_), _)) => "err".into(),
					Err(_) => "panic".into(),
				}
			};
			#[cfg(not(feature = "codec-std"))]
			let ans3 = ans2.clone();
			if ans2 != ans || ans3 != ans {
				ctx.oracle_fail("C04", format!("Compact<u{}> on {}: a slice gives `{}`, an unknown-length input `{}`, IoReader `{}`", $w * 8, hex(bs), ans, ans2, ans3));
			}
		}
	};
}
compact_fns!(cenc8, cdec8, u8, 1);
compact_fns!(cenc16, cdec16, u16, 2);
compact_fns!(cenc32, cdec32, u32, 4);
compact_fns!(cenc64, cdec64, u64, 8);
compact_fns!(cenc128, cdec128, u128, 16);

fn cenc_all(ctx: &mut Ctx, stream: &str, x: u128) {
	if x <= u8::MAX as u128 {
		cenc8(ctx, stream, x as u8);
	}
	if x <= u16::MAX as u128 {
		cenc16(ctx, stream, x as u16);
	}
	if x <= u32::MAX as u128 {
		cenc32(ctx, stream, x as u32);
	}
	if x <= u64::MAX as u128 {
		cenc64(ctx, stream, x as u64);
	}
	cenc128(ctx, stream, x);
	// oracle (C04): width compatibility
	let e128 = Compact(x).encode();
	if x <= u64::MAX as u128 && Compact(x as u64).encode() != e128 {
		ctx.oracle_fail("C04", format!("width mismatch u64/u128 at {}", x));
	}
	if x <= u32::MAX as u128 && Compact(x as u32).encode() != e128 {
		ctx.oracle_fail("C04", format!("width mismatch u32/u128 at {}", x));
	}
	if x <= u16::MAX as u128 && Compact(x as u16).encode() != e128 {
		ctx.oracle_fail("C04", format!("width mismatch u16/u128 at {}", x));
	}
	if x <= u8::MAX as u128 && Compact(x as u8).encode() != e128 {
		ctx.oracle_fail("C04", format!("width mismatch u8/u128 at {}", x));
	}
}

fn cdec_all(ctx: &mut Ctx, stream: &str, bs: &[u8]) {
	cdec8(ctx, stream, bs);
	cdec16(ctx, stream, bs);
	cdec32(ctx, stream, bs);
	cdec64(ctx, stream, bs);
	cdec128(ctx, stream, bs);
}

fn compact_stream(ctx: &mut Ctx) {
	let thorough = ctx.tier_thorough;
	let mut rng = Rng::new(ctx.seed ^ 0xC04);
	// exhaustive over u8 and u16 values (all wider encoders see them too)
	for x in 0..=u16::MAX as u128 {
		if x < 1024 || thorough || x % 7 == (ctx.seed % 7) as u128 || x > 65000 || (16380..16390).contains(&x) {
			cenc_all(ctx, "cenc-exh16", x);
		} else {
			cenc16(ctx, "cenc-exh16", x as u16);
		}
	}
	// class boundaries +- window
	let window: u128 = if thorough { 4096 } else { 48 };
	for k in [6u32, 8, 14, 16, 24, 30, 32, 40, 48, 56, 64, 72, 80, 88, 96, 104, 112, 120] {
		let b = 1u128 << k;
		for d in 0..=window {
			cenc_all(ctx, "cenc-boundary", b + d);
			cenc_all(ctx, "cenc-boundary", b - 1 - d.min(b - 1));
		}
	}
	for d in 0..=window {
		cenc_all(ctx, "cenc-boundary", u128::MAX - d);
	}
	// every value with at most two non-zero byte lanes (sampled lane values in quick)
	let lane_vals: Vec<u128> = if thorough { (1..=255).collect() } else { vec![1, 2, 0x3f, 0x40, 0x7f, 0x80, 0xfe, 0xff] };
	for a in 0..16u32 {
		for b in a..16u32 {
			for &x in &lane_vals {
				for &y in &lane_vals {
					cenc_all(ctx, "cenc-lanes", (x << (8 * a)) | (y << (8 * b)));
				}
			}
		}
	}
	let n_rand = if thorough { 1_000_000 } else { 20_000 };
	for _ in 0..n_rand {
		let x = rng.biased(128) >> (rng.below(128) as u32);
		cenc_all(ctx, "cenc-random", x);
	}
	for hi in [1u128, 2, 63, 64, 255, 256, 16383, 16384, 65535, 65536, (1 << 24) - 1, 1 << 24, (1 << 30) - 1, 1 << 30, u32::MAX as u128, 1 << 40, u64::MAX as u128] {
		for lo in [0u128, 1, 0xffff_ffff, u64::MAX as u128] {
			cenc_all(ctx, "cenc-halves", (hi << 64) | lo);
		}
	}

	// decoders: exhaustive over all strings of length <= 2 (<= 3 for the 8/16-bit decoders in thorough)
	cdec_all(ctx, "cdec-exh", &[]);
	for a in 0..=255u8 {
		cdec_all(ctx, "cdec-exh", &[a]);
		for b in 0..=255u8 {
			let s = [a, b];
			cdec8(ctx, "cdec-exh", &s);
			cdec16(ctx, "cdec-exh", &s);
			if thorough || a % 4 != 0 {
				// mode-0 strings ignore the second byte; the wider decoders share that arm textually
				cdec32(ctx, "cdec-exh", &s);
				cdec64(ctx, "cdec-exh", &s);
				cdec128(ctx, "cdec-exh", &s);
			}
			if thorough && a % 4 == 2 {
				for c in 0..=255u8 {
					cdec8(ctx, "cdec-exh3", &[a, b, c]);
					cdec16(ctx, "cdec-exh3", &[a, b, c]);
				}
			}
		}
	}
	// every (tag byte x top byte x length) combination, low bytes random / zero / 0xff
	for tag in 0..=255u8 {
		let need: usize = match tag % 4 {
			0 => 0,
			1 => 1,
			2 => 3,
			_ => (tag >> 2) as usize + 4,
		};
		let tops: Vec<u8> = if thorough { (0..=255).collect() } else { vec![0, 1, 2, 0x3f, 0x40, 0x7f, 0x80, 0xff] };
		for len in [need.saturating_sub(1), need, need + 1] {
			for &top in &tops {
				for fill in [0u8, 0xff, 0x5a] {
					let mut s = vec![tag];
					for i in 0..len {
						s.push(if i + 1 == need { top } else if fill == 0x5a { rng.below(256) as u8 } else { fill });
					}
					cdec_all(ctx, "cdec-tagtop", &s);
				}
			}
		}
	}
	// valid encodings with a suffix, and mutations of them
	let n_mut = if thorough { 300_000 } else { 10_000 };
	for _ in 0..n_mut {
		let x = rng.biased(128) >> (rng.below(128) as u32);
		let mut s = Compact(x).encode();
		for _ in 0..rng.below(3) {
			s.push(rng.below(256) as u8);
		}
		cdec_all(ctx, "cdec-valid", &s);
		let mut m = s.clone();
		match rng.below(4) {
			0 => {
				let i = rng.below(m.len() as u64) as usize;
				m[i] ^= 1 << rng.below(8);
			},
			1 => {
				m.truncate(rng.below(m.len() as u64) as usize);
			},
			2 => {
				let i = rng.below(m.len() as u64) as usize;
				m[i] = *rng.pick(&[0u8, 1, 2, 3, 0xfc, 0xfd, 0xfe, 0xff]);
			},
			_ => {
				// non-minimal re-encoding: same value in a wider mode
				if x < (1 << 30) {
					let mode = rng.below(3);
					m = match mode {
						0 => (((x as u16) << 2) | 1).to_le_bytes().to_vec(),
						1 => (((x as u32) << 2) | 2).to_le_bytes().to_vec(),
						_ => {
							let mut v = vec![3u8 + (rng.below(13) as u8) * 4];
							v.extend_from_slice(&x.to_le_bytes()[..4 + ((v[0] >> 2) as usize)]);
							v
						},
					};
				}
			},
		}
		cdec_all(ctx, "cdec-mutated", &m);
	}
	let n_rs = if thorough { 300_000 } else { 10_000 };
	for _ in 0..n_rs {
		let len = rng.below(20) as usize;
		let s: Vec<u8> = (0..len).map(|_| rng.below(256) as u8).collect();
		cdec_all(ctx, "cdec-random", &s);
	}
}

// ---------------------------------------------------------------------------------------------
// Type-directed streams (C01, C02, C03, ...)
// ---------------------------------------------------------------------------------------------

/// Decodes `T` through a `CountedInput` (as a hand-written `Decode` that wants to know how many
/// bytes a field took would): every wrapper below must still see the hook calls.
pub struct ViaCounted<T>(pub T);
impl<T: Decode> Decode for ViaCounted<T> {
	fn decode<I: Input>(input: &mut I) -> Result<Self, parity_scale_codec::Error> {
		let mut ci = CountedInput::new(input);
		T::decode(&mut ci).map(ViaCounted)
	}
}

pub trait Cat: Modeled + Encode + Decode {}
impl<T: Modeled + Encode + Decode> Cat for T {}

pub struct TypeOpts {
	/// The type contains a count-prefixed container of zero-width elements: counts must stay small
	/// (finding F4), so no count tampering / random strings.
	pub zero_width_elems: bool,
	/// Small alphabet: enumerate all strings up to 2 (3 in thorough) bytes.
	pub small_alphabet: bool,
	/// Element budget for generated values.
	pub budget: usize,
}

pub fn dec_answer<T: Cat>(bs: &[u8]) -> (String, Option<(T, usize)>) {
	let r = catch_unwind(AssertUnwindSafe(|| {
		let mut s = &bs[..];
		let r = T::decode(&mut s);
		(r, s.len())
	}));
	match r {
		Ok((Ok(v), rem)) => (format!("ok {} {}", val_string(&v, true), rem), Some((v, rem))),
		Ok((Err(_), _)) => ("err".into(), None),
		Err(_) => ("panic".into(), None),
	}
}

/// Where a slice stands after a decode - also after a FAILED one (`impl Input for &[u8]` advances
/// only on a successful read, so a caller can fall back to another layout from the same input).
pub fn decpos_emit<T: Cat>(ctx: &mut Ctx, stream: &str, name: &str, bs: &[u8]) {
	let r = catch_unwind(AssertUnwindSafe(|| {
		let mut s = &bs[..];
		let ok = T::decode(&mut s).is_ok();
		(ok, s.len())
	}));
	let ans = match r {
		Ok((true, rem)) => format!("ok {}", rem),
		Ok((false, rem)) => format!("err {}", rem),
		Err(_) => "panic".into(),
	};
	ctx.emit(stream, name, &format!("decpos {} {}", T::ty(bs.len() + 1), hex_or_dash(bs)), &ans);
}

pub fn enc_answer<T: Encode + ?Sized>(v: &T) -> (String, Option<Vec<u8>>) {
	match catch_unwind(AssertUnwindSafe(|| v.encode())) {
		Ok(b) => (hex_or_dash(&b), Some(b)),
		Err(_) => ("panic".into(), None),
	}
}

pub fn mutate(rng: &mut Rng, base: &[u8], other: &[u8], allow_big_counts: bool) -> Vec<u8> {
	let mut m = base.to_vec();
	let counts: &[u32] = if allow_big_counts {
		&[0, 1, 2, 63, 64, 65, 1 << 14, (1 << 14) - 1, (1 << 30) - 1, 1 << 30, u32::MAX - 1, u32::MAX]
	} else {
		&[0, 1, 2, 3, 5]
	};
	match rng.below(9) {
		0 if !m.is_empty() => {
			let i = rng.below(m.len() as u64) as usize;
			m[i] ^= 1 << rng.below(8);
		},
		1 if !m.is_empty() => {
			let i = rng.below(m.len() as u64) as usize;
			m[i] = *rng.pick(&[0u8, 1, 2, 3, 0x7f, 0x80, 0xfc, 0xfd, 0xfe, 0xff]);
		},
		2 => {
			m.truncate(rng.below(m.len() as u64 + 1) as usize);
		},
		3 => {
			for _ in 0..1 + rng.below(4) {
				m.push(rng.below(256) as u8);
			}
		},
		4 => {
			// count tampering at the front
			let c = Compact(*rng.pick(counts)).encode();
			let drop = rng.below(3).min(m.len() as u64) as usize;
			m = [c, m[drop..].to_vec()].concat();
		},
		5 if !m.is_empty() => {
			// count tampering at an inner position
			let i = rng.below(m.len() as u64) as usize;
			let c = Compact(*rng.pick(counts)).encode();
			let mut n = m[..i].to_vec();
			n.extend_from_slice(&c);
			n.extend_from_slice(&m[(i + 1).min(m.len())..]);
			m = n;
		},
		6 => {
			// splice of two encodings
			let i = rng.below(m.len() as u64 + 1) as usize;
			let j = rng.below(other.len() as u64 + 1) as usize;
			m.truncate(i);
			m.extend_from_slice(&other[j..]);
		},
		7 if !m.is_empty() => {
			let i = rng.below(m.len() as u64) as usize;
			m.remove(i);
		},
		_ => {
			let i = rng.below(m.len() as u64 + 1) as usize;
			m.insert(i, rng.below(256) as u8);
		},
	}
	if !allow_big_counts {
		// keep any leading count small for zero-width element types
		if let Some(b) = m.first_mut() {
			if *b % 4 != 0 || *b > 40 {
				*b = (*b % 10) << 2;
			}
		}
	}
	m
}

fn dec_for_pool<T: Cat>(bs: &[u8]) -> (String, Option<usize>) {
	let (ans, dv) = dec_answer::<T>(bs);
	(ans, dv.map(|(_, rem)| rem))
}

fn dec_for_pool_io<T: Cat>(bs: &[u8]) -> (String, Option<usize>) {
	#[cfg(feature = "codec-std")]
	{
		let r = catch_unwind(AssertUnwindSafe(|| {
			let mut io = parity_scale_codec::IoReader(InterruptedRd { data: bs, pos: 0, calls: 0 });
			let r = T::decode(&mut io);
			(r, bs.len() - io.0.pos)
		}));
		match r {
			Ok((Ok(v), rem)) => (format!("ok {} {}", val_string(&v, true), rem), Some(rem)),
			Ok((Err(_), _)) => ("err".into(), None),
			Err(_) => ("panic".into(), None),
		}
	}
	#[cfg(not(feature = "codec-std"))]
	{
		dec_for_pool::<T>(bs)
	}
}

fn concat_stream(ctx: &mut Ctx) {
	let pool = std::mem::take(&mut ctx.pool);
	let mut rng = Rng::new(ctx.seed ^ 0xC0CA7);
	let n_seq = if ctx.tier_thorough { 3000 } else { 300 };
	for _ in 0..n_seq {
		let wide = rng.chance(1, 10);
		let k = 2 + rng.below(if wide { 49 } else { 6 }) as usize;
		let picks: Vec<usize> = (0..k).map(|_| rng.below(pool.len() as u64) as usize).collect();
		let mut all = Vec::new();
		for &i in &picks {
			all.extend_from_slice(&pool[i].bytes);
		}
		for _ in 0..rng.below(3) {
			all.push(rng.below(256) as u8);
		}
		let mut off = 0usize;
		for &i in &picks {
			let e = &pool[i];
			let rest = &all[off..];
			let (ans, rem) = (e.dec)(rest);
			ctx.emit("concat", e.name, &format!("dec {} {}", (e.ty)(rest.len() + 1), hex_or_dash(rest)), &ans);
			// oracle (C14): each value is recovered in order, consuming exactly its own encoding
			let expect = format!("ok {} {}", e.val, rest.len() - e.bytes.len());
			if ans != expect {
				ctx.oracle_fail("C14", format!("concatenation: {} at offset {} of {}: got {} expected {}", e.name, off, hex(&all), &ans[..ans.len().min(80)], &expect[..expect.len().min(80)]));
			}
			// ... also when the bytes arrive through a reader that is interrupted between deliveries
			let (ans_io, _) = (e.dec_io)(rest);
			if ans_io != expect {
				let msg = format!("concatenation through an interrupted IoReader: {} at offset {}: got {} expected {}", e.name, off, &ans_io[..ans_io.len().min(80)], &expect[..expect.len().min(80)]);
				ctx.oracle_fail("C14", msg.clone());
				ctx.oracle_fail("C08", msg);
			}
			match rem {
				Some(r) => off = all.len() - r,
				None => break,
			}
		}
	}
}

pub fn run_type<T: Cat + DecodeAll + DecodeLimit>(ctx: &mut Ctx, stream: &str, name: &'static str, o: &TypeOpts) {
	let thorough = ctx.tier_thorough;
	let tyseed = name.bytes().fold(ctx.seed, |a, b| a.wrapping_mul(31).wrapping_add(b as u64));
	let mut g = G::new(tyseed ^ 0xE1C0DE, o.budget);
	let n_vals = if thorough { 2000 } else { 150 };
	match stream {
		"enc" => {
			for _ in 0..n_vals {
				g.budget = o.budget;
				let v = T::gen(&mut g);
				let (ans, bytes) = enc_answer(&v);
				ctx.emit("enc", name, &format!("enc {} {}", T::ty(8), val_string(&v, false)), &ans);
				// oracle (C01/C07 sanity): encoding twice gives the same bytes
				if let Some(b) = bytes {
					if v.encode() != b {
						ctx.oracle_fail("C06", format!("{}: encoding twice differs", name));
					}
				}
			}
		},
		"rt" => {
			for _ in 0..n_vals {
				g.budget = o.budget;
				let v = T::gen(&mut g);
				let mut bs = v.encode();
				let enc_len = bs.len();
				let suffix = g.rng.below(4) as usize;
				for _ in 0..suffix {
					bs.push(g.rng.below(256) as u8);
				}
				let (ans, dv) = dec_answer::<T>(&bs);
				ctx.emit("rt", name, &format!("dec {} {}", T::ty(bs.len() + 1), hex_or_dash(&bs)), &ans);
				// oracle (C02): decode(encode v ++ suffix) == (v, suffix)
				match dv {
					Some((d, rem)) => {
						if val_string(&d, true) != val_string(&v, true) || rem != suffix {
							ctx.oracle_fail("C02", format!("{}: decode(encode(v)) != v or wrong consumption: v={} enc={} (encoded {} bytes, {} left, expected {})",
								name, val_string(&v, true), hex_or_dash(&bs), enc_len, rem, suffix));
						}
					},
					None => ctx.oracle_fail("C02", format!("{}: decode(encode(v)) failed: v={} enc={}", name, val_string(&v, true), hex_or_dash(&bs))),
				}
				match catch_unwind(AssertUnwindSafe(|| (v.using_encoded(|b| b.to_vec()), v.encoded_size()))) {
					Ok((u, n)) if u[..] == bs[..enc_len] && n == enc_len => {},
					other => {
						let msg = format!("{}: using_encoded / encoded_size of v={} disagree with encode ({} bytes): {:?}", name, val_string(&v, true).chars().take(100).collect::<String>(), enc_len, other.ok().map(|(u, n)| (u.len(), n)));
						ctx.oracle_fail("C02", msg.clone());
						ctx.oracle_fail("C07", msg);
					},
				}
				// ... and from every other kind of input (C02 is not about slices)
				let want = val_string(&v, true);
				let others: Vec<(&str, Option<(String, usize)>)> = vec![
					("an unknown-length input", {
						let mut u = UnknownLenInput { data: &bs, pos: 0 };
						catch_unwind(AssertUnwindSafe(|| T::decode(&mut u).ok().map(|d| val_string(&d, true)))).ok().flatten().map(|d| (d, bs.len() - u.pos))
					}),
					#[cfg(feature = "codec-std")]
					("IoReader", {
						let mut io = parity_scale_codec::IoReader(std::io::Cursor::new(&bs[..]));
						catch_unwind(AssertUnwindSafe(|| T::decode(&mut io).ok().map(|d| val_string(&d, true)))).ok().flatten().map(|d| (d, bs.len() - io.0.position() as usize))
					}),
					#[cfg(feature = "codec-std")]
					("an IoReader whose reader is interrupted between deliveries", {
						let mut io = parity_scale_codec::IoReader(InterruptedRd { data: &bs, pos: 0, calls: 0 });
						catch_unwind(AssertUnwindSafe(|| T::decode(&mut io).ok().map(|d| val_string(&d, true)))).ok().flatten().map(|d| (d, bs.len() - io.0.pos))
					}),
					#[cfg(feature = "bytes-f")]
					("decode_from_bytes", {
						let shared = bytes::Bytes::copy_from_slice(&bs);
						catch_unwind(AssertUnwindSafe(|| parity_scale_codec::decode_from_bytes::<T>(shared).ok().map(|d| val_string(&d, true)))).ok().flatten().map(|d| (d, suffix))
					}),
				];
				for (kind, got) in others {
					if got != Some((want.clone(), suffix)) {
						ctx.oracle_fail("C02", format!("{}: decode(encode(v)) through {} gives {:?}: v={} enc={}", name, kind, got.map(|g| (g.0.chars().take(80).collect::<String>(), g.1)), want.chars().take(120).collect::<String>(), hex_or_dash(&bs[..bs.len().min(64)])));
					}
				}
			}
		},
		"mut" => {
			for _ in 0..n_vals * 3 {
				g.budget = o.budget;
				let v = T::gen(&mut g);
				g.budget = o.budget;
				let w = T::gen(&mut g);
				let m = mutate(&mut g.rng, &v.encode(), &w.encode(), !o.zero_width_elems);
				let (ans, _) = dec_answer::<T>(&m);
				ctx.emit("mut", name, &format!("dec {} {}", T::ty(m.len() + 1), hex_or_dash(&m)), &ans);
				if ans == "err" {
					decpos_emit::<T>(ctx, "mut-pos", name, &m);
				}
				// oracle (C03/C18): `skip` steps over exactly the byte strings `decode` accepts
				{
					let r = catch_unwind(AssertUnwindSafe(|| {
						let mut s = &m[..];
						T::skip(&mut s).ok().map(|_| s.len())
					}));
					let want = if ans.starts_with("ok ") { ans.rsplit(' ').next().and_then(|x| x.parse::<usize>().ok()) } else { None };
					match r {
						Ok(got) if got == want || ans == "panic" => {},
						Ok(got) => {
							let msg = format!("{}: skip gives {:?} (bytes left) where decode gives `{}` on {}", name, got, &ans[..ans.len().min(50)], hex_or_dash(&m[..m.len().min(48)]));
							ctx.oracle_fail("C03", msg.clone());
							ctx.oracle_fail("C18", msg);
						},
						Err(_) => ctx.oracle_fail("C03", format!("{}: skip panicked on {}", name, hex_or_dash(&m[..m.len().min(48)]))),
					}
				}
				// oracle (C03/C08): a reader that is interrupted between deliveries (`ErrorKind::Interrupted`)
				// still delivers these bytes; what is accepted does not depend on it
				#[cfg(feature = "codec-std")]
				{
					let r = catch_unwind(AssertUnwindSafe(|| {
						let mut io = parity_scale_codec::IoReader(InterruptedRd { data: &m, pos: 0, calls: 0 });
						let r = T::decode(&mut io);
						r.ok().map(|v| format!("ok {} {}", val_string(&v, true), m.len() - io.0.pos))
					}));
					let via = match r {
						Ok(Some(s)) => s,
						Ok(None) => "err".into(),
						Err(_) => "panic".into(),
					};
					if via != ans {
						let msg = format!("{}: through an IoReader whose reader is interrupted between deliveries: `{}`, from the slice `{}`, on {}", name, &via[..via.len().min(60)], &ans[..ans.len().min(60)], hex_or_dash(&m[..m.len().min(48)]));
						ctx.oracle_fail("C03", msg.clone());
						ctx.oracle_fail("C08", msg);
					}
				}
			}
		},
		"rand" => {
			for _ in 0..n_vals {
				let len = g.rng.below(24) as usize;
				let mut s: Vec<u8> = (0..len).map(|_| g.rng.below(256) as u8).collect();
				if o.zero_width_elems {
					if let Some(b) = s.first_mut() {
						*b = (*b % 10) << 2;
					}
				} else if g.rng.chance(1, 2) {
					// bias the leading bytes towards small tags / counts so that decoding gets further
					for b in s.iter_mut().take(3) {
						if g.rng.chance(1, 2) {
							*b = (g.rng.below(6) as u8) << (2 * g.rng.below(2));
						}
					}
				}
				let (ans, _) = dec_answer::<T>(&s);
				ctx.emit("rand", name, &format!("dec {} {}", T::ty(s.len() + 1), hex_or_dash(&s)), &ans);
			}
		},
		"pool" => {
			for _ in 0..3 {
				g.budget = o.budget.min(8);
				let v = T::gen(&mut g);
				ctx.pool.push(crate::PoolEntry { name, ty: T::ty, bytes: v.encode(), val: val_string(&v, true), dec: dec_for_pool::<T>, dec_io: dec_for_pool_io::<T> });
			}
		},
		"cut" => {
			for _ in 0..(n_vals / 10).max(3) {
				g.budget = o.budget;
				let v = T::gen(&mut g);
				let bs = v.encode();
				let n = bs.len();
				for i in 0..n {
					if n > 48 && i > 16 && i + 16 < n && !g.rng.chance(1, 8) {
						continue;
					}
					let cut = &bs[..i];
					let (ans, _) = dec_answer::<T>(cut);
					ctx.emit("cut", name, &format!("dec {} {}", T::ty(cut.len() + 1), hex_or_dash(cut)), &ans);
					decpos_emit::<T>(ctx, "cut-pos", name, cut);
					// oracle (C14): a strict prefix of an encoding never decodes
					if ans != "err" {
						ctx.oracle_fail("C14", format!("{}: strict prefix {} of {} decoded: {}", name, hex_or_dash(cut), hex(&bs), &ans[..ans.len().min(60)]));
					}
				}
			}
		},
		"decall" => {
			for _ in 0..n_vals {
				g.budget = o.budget;
				let v = T::gen(&mut g);
				g.budget = o.budget;
				let w = T::gen(&mut g);
				let mut bs = v.encode();
				match g.rng.below(4) {
					0 => {},
					1 => bs.push(g.rng.below(256) as u8),
					2 => bs = mutate(&mut g.rng, &bs, &w.encode(), !o.zero_width_elems),
					_ => bs.extend_from_slice(&w.encode()),
				}
				let (dans, dv) = dec_answer::<T>(&bs);
				let all = catch_unwind(AssertUnwindSafe(|| T::decode_all(&mut &bs[..])));
				let ans = match all {
					Ok(Ok(x)) => format!("ok {}", val_string(&x, true)),
					Ok(Err(_)) => "err".into(),
					Err(_) => "panic".into(),
				};
				ctx.emit("decall", name, &format!("decall {} {}", T::ty(bs.len() + 1), hex_or_dash(&bs)), &ans);
				// oracle (C14): decode_all succeeds iff decode succeeds with nothing left, same value
				let expect = match &dv {
					Some((x, 0)) => format!("ok {}", val_string(x, true)),
					_ => if dans == "panic" { "panic".into() } else { "err".into() },
				};
				if ans != expect {
					ctx.oracle_fail("C14", format!("{}: decode_all({}) = {} but decode gives {}", name, hex_or_dash(&bs), &ans[..ans.len().min(60)], &dans[..dans.len().min(60)]));
				}
				let limit = 64u32;
				let lall = catch_unwind(AssertUnwindSafe(|| T::decode_all_with_depth_limit(limit, &mut &bs[..])));
				let lans = match lall {
					Ok(Ok(x)) => format!("ok {}", val_string(&x, true)),
					Ok(Err(_)) => "err".into(),
					Err(_) => "panic".into(),
				};
				ctx.emit("decall", name, &format!("limall {} {} {}", limit, T::ty(bs.len() + 1), hex_or_dash(&bs)), &lans);
				if lans != expect {
					ctx.oracle_fail("C14", format!("{}: decode_all_with_depth_limit(64, {}) = {} but decode gives {}", name, hex_or_dash(&bs), &lans[..lans.len().min(60)], &dans[..dans.len().min(60)]));
				}
				// small limits too: the consume-everything entry point is exactly the limited decode
				// plus "nothing left", whatever the relation between limit, input length and nesting
				for limit in 0..=4u32 {
					if bs.len() > 24 {
						break;
					}
					let lall = catch_unwind(AssertUnwindSafe(|| T::decode_all_with_depth_limit(limit, &mut &bs[..])));
					let lans = match lall {
						Ok(Ok(x)) => format!("ok {}", val_string(&x, true)),
						Ok(Err(_)) => "err".into(),
						Err(_) => "panic".into(),
					};
					let one = catch_unwind(AssertUnwindSafe(|| {
						let mut s = &bs[..];
						let r = T::decode_with_depth_limit(limit, &mut s);
						(r, s.len())
					}));
					let expect = match one {
						Ok((Ok(x), 0)) => format!("ok {}", val_string(&x, true)),
						Ok(_) => "err".into(),
						Err(_) => "panic".into(),
					};
					ctx.emit("decall", name, &format!("limall {} {} {}", limit, T::ty(bs.len() + 1), hex_or_dash(&bs)), &lans);
					if lans != expect {
						ctx.oracle_fail("C14", format!("{}: decode_all_with_depth_limit({}, {}) = {} but decode_with_depth_limit + nothing left gives {}", name, limit, hex_or_dash(&bs), &lans[..lans.len().min(50)], &expect[..expect.len().min(50)]));
					}
				}
			}
		},
		"skip" => {
			let fixed = match T::encoded_fixed_size() {
				Some(n) => format!("some {}", n),
				None => "none".into(),
			};
			ctx.emit("fixed", name, &format!("fixed {}", T::ty(4)), &fixed);
			for i in 0..n_vals {
				g.budget = o.budget;
				let v = T::gen(&mut g);
				g.budget = o.budget;
				let w = T::gen(&mut g);
				let mut bs = v.encode();
				// oracle (C13/C18): a reported fixed size is the size of every value
				if let Some(n) = T::encoded_fixed_size() {
					if bs.len() != n {
						ctx.oracle_fail("C18", format!("{}: encoded_fixed_size() = {} but a value encodes to {} bytes", name, n, bs.len()));
					}
				}
				match i % 4 {
					0 => bs.push(g.rng.below(256) as u8),
					1 => bs = mutate(&mut g.rng, &bs, &w.encode(), !o.zero_width_elems),
					2 => {
						let cut = g.rng.below(bs.len() as u64 + 1) as usize;
						bs.truncate(cut)
					},
					_ => {},
				}
				let (dans, dv) = dec_answer::<T>(&bs);
				let r = catch_unwind(AssertUnwindSafe(|| {
					let mut s = &bs[..];
					let r = T::skip(&mut s);
					(r, s.len())
				}));
				let ans = match r {
					Ok((Ok(()), rem)) => format!("ok {}", rem),
					Ok((Err(_), _)) => "err".into(),
					Err(_) => "panic".into(),
				};
				ctx.emit("skip", name, &format!("skip {} {}", T::ty(bs.len() + 1), hex_or_dash(&bs)), &ans);
				// oracle (C18): skip advances exactly as far as decode and fails exactly when it fails
				let expect = match &dv {
					Some((_, rem)) => format!("ok {}", rem),
					None => dans.clone(),
				};
				if ans != expect {
					ctx.oracle_fail("C18", format!("{}: skip({}) = {} but decode gives {}", name, hex_or_dash(&bs), ans, &dans[..dans.len().min(60)]));
				}
				// the same through inputs that cannot report their remaining length (a custom input and,
				// under std, IoReader): skip succeeds exactly when decoding succeeds, consuming as much
				let r = catch_unwind(AssertUnwindSafe(|| {
					let mut u = UnknownLenInput { data: &bs, pos: 0 };
					let r = T::skip(&mut u);
					(r.is_ok(), bs.len() - u.pos)
				}));
				let ans_u = match r {
					Ok((true, rem)) => format!("ok {}", rem),
					Ok((false, _)) => "err".into(),
					Err(_) => "panic".into(),
				};
				if ans_u != expect {
					ctx.oracle_fail("C18", format!("{}: skip({}) through an input of unknown length = {} but decode gives {}", name, hex_or_dash(&bs), ans_u, &dans[..dans.len().min(60)]));
				}
				#[cfg(feature = "codec-std")]
				{
					let r = catch_unwind(AssertUnwindSafe(|| {
						let mut io = parity_scale_codec::IoReader(std::io::Cursor::new(&bs[..]));
						let r = T::skip(&mut io);
						(r.is_ok(), bs.len() - io.0.position() as usize)
					}));
					let ans_io = match r {
						Ok((true, rem)) => format!("ok {}", rem),
						Ok((false, _)) => "err".into(),
						Err(_) => "panic".into(),
					};
					if ans_io != expect {
						ctx.oracle_fail("C18", format!("{}: skip({}) through IoReader = {} but decode gives {}", name, hex_or_dash(&bs), ans_io, &dans[..dans.len().min(60)]));
					}
				}
			}
		},
		"count" => {
			for i in 0..n_vals {
				g.budget = o.budget;
				let v = T::gen(&mut g);
				g.budget = o.budget;
				let w = T::gen(&mut g);
				let mut bs = v.encode();
				match i % 4 {
					0 => {},
					1 => bs.push(g.rng.below(256) as u8),
					2 => bs = mutate(&mut g.rng, &bs, &w.encode(), !o.zero_width_elems),
					_ => {
						let cut = g.rng.below(bs.len() as u64 + 1) as usize;
						bs.truncate(cut)
					},
				}
				let r = catch_unwind(AssertUnwindSafe(|| {
					let mut s = &bs[..];
					let mut ci = CountedInput::new(&mut s);
					let r = T::decode(&mut ci);
					let c = ci.count();
					(r, s.len(), c)
				}));
				let ans = match r {
					Ok((r, rem, c)) => {
						// oracle (C19): count == bytes the slice delivered, after success and after failure
						if c != (bs.len() - rem) as u64 {
							ctx.oracle_fail("C19", format!("{}: count() = {} but the slice delivered {} bytes (input {}, ok = {})", name, c, bs.len() - rem, hex_or_dash(&bs), r.is_ok()));
						}
						match r {
							Ok(x) => {
								if i % 4 == 0 && c != v.encode().len() as u64 {
									ctx.oracle_fail("C19", format!("{}: count() = {} after decoding an encoding of {} bytes", name, c, v.encode().len()));
								}
								format!("ok {} {} count={}", val_string(&x, true), rem, c)
							},
							// after a failure the position (hence the count) depends on where the decoder stopped:
							// it is judged by the oracle above, not compared with the model
							Err(_) => "err".to_string(),
						}
					},
					Err(_) => "panic".into(),
				};
				ctx.emit("count", name, &format!("count {} {}", T::ty(bs.len() + 1), hex_or_dash(&bs)), &ans);
				// the same through an input that is not a slice, decoding and SKIPPING: the count is what
				// that input has delivered, after success and after failure (C19)
				for skip in [false, true] {
					let r = catch_unwind(AssertUnwindSafe(|| {
						let mut u = UnknownLenInput { data: &bs, pos: 0 };
						let mut ci = CountedInput::new(&mut u);
						let ok = if skip { T::skip(&mut ci).is_ok() } else { T::decode(&mut ci).is_ok() };
						let c = ci.count();
						(ok, u.pos, c)
					}));
					match r {
						Ok((ok, delivered, c)) => {
							if c != delivered as u64 {
								ctx.oracle_fail("C19", format!("{}: {} through CountedInput over an unknown-length input: count() = {} but {} bytes were delivered (ok = {}, input {})", name, if skip { "skip" } else { "decode" }, c, delivered, ok, &hex_or_dash(&bs)[..hex_or_dash(&bs).len().min(64)]));
							}
						},
						Err(_) => ctx.oracle_fail("C03", format!("{}: {} through CountedInput over an unknown-length input panicked", name, if skip { "skip" } else { "decode" })),
					}
				}
			}
			// long arrays of fixed-size elements cut anywhere (their `skip` steps over the elements
			// without decoding them), through a counting input over a non-slice
			if name == "u32" {
				macro_rules! arr_case { ($a:ty, $len:expr) => {{
					let full: Vec<u8> = (0..$len).map(|i: usize| (i * 7 % 256) as u8).collect();
					for cut in [0usize, 1, 255, 256, 257, 300, 511, 512, 513, 1000, $len - 1, $len] {
						let cut = cut.min($len);
						let r = catch_unwind(AssertUnwindSafe(|| {
							let mut u = UnknownLenInput { data: &full[..cut], pos: 0 };
							let mut ci = CountedInput::new(&mut u);
							let ok = <$a>::skip(&mut ci).is_ok();
							let c = ci.count();
							let mut c2 = 0;
							if !ok {
								// the session goes on: two more single bytes, if any are left
								let mut one = [0u8; 1];
								let _ = ci.read(&mut one);
								let _ = ci.read(&mut one);
								c2 = ci.count();
							}
							(ok, c, c2, u.pos)
						}));
						match r {
							Ok((ok, c, c2, delivered)) => {
								let bad = if ok { c != delivered as u64 || cut != $len } else { c2 != delivered as u64 || c > c2 };
								if bad {
									ctx.oracle_fail("C19", format!("{}::skip through CountedInput over an unknown-length input holding {} of {} bytes: ok = {}, count() = {} (then {}), delivered {}", stringify!($a), cut, $len, ok, c, c2, delivered));
								}
							},
							Err(_) => ctx.oracle_fail("C03", format!("{}::skip through CountedInput panicked", stringify!($a))),
						}
					}
				}}; }
				arr_case!([u32; 300], 1200usize);
				arr_case!([u16; 200], 400usize);
				arr_case!([[u64; 4]; 20], 640usize);
				arr_case!([bool; 600], 600usize);
				arr_case!([u8; 700], 700usize);
			}
		},
		"limit" => {
			for i in 0..(n_vals / 3).max(5) {
				g.budget = o.budget;
				let v = T::gen(&mut g);
				g.budget = o.budget;
				let w = T::gen(&mut g);
				let mut bs = v.encode();
				if i % 3 == 1 {
					bs = mutate(&mut g.rng, &bs, &w.encode(), !o.zero_width_elems);
				} else if i % 3 == 2 {
					bs.push(g.rng.below(256) as u8);
				}
				let (unl, _) = dec_answer::<T>(&bs);
				let mut need: Option<u32> = None;
				let mut prev_ok = false;
				let mut l = 0u32;
				loop {
					let r = catch_unwind(AssertUnwindSafe(|| {
						let mut s = &bs[..];
						let r = T::decode_with_depth_limit(l, &mut s);
						(r, s.len())
					}));
					let ans = match r {
						Ok((Ok(x), rem)) => format!("ok {} {}", val_string(&x, true), rem),
						Ok((Err(_), _)) => "err".into(),
						Err(_) => "panic".into(),
					};
					ctx.emit("limit", name, &format!("limit {} {} {}", l, T::ty(bs.len() + 1), hex_or_dash(&bs)), &ans);
					let ok = ans.starts_with("ok");
					// oracle (C11, C19): a decoder that reads through a counting wrapper is limited
					// exactly like one that does not (the wrapper forwards descend/ascend)
					{
						let r = catch_unwind(AssertUnwindSafe(|| {
							let mut s = &bs[..];
							let r = ViaCounted::<T>::decode_with_depth_limit(l, &mut s);
							(r.is_ok(), s.len())
						}));
						let same = match (&r, ok) {
							(Ok((true, rem)), true) => ans.ends_with(&format!(" {}", rem)),
							(Ok((false, _)), false) => true,
							_ => false,
						};
						if !same {
							ctx.oracle_fail("C11", format!("{}: depth limit {}: decoding through a CountedInput gives ok={:?} but directly {} on {}", name, l, r.map(|x| x.0).unwrap_or(false), &ans[..ans.len().min(40)], hex_or_dash(&bs)));
						}
					}
					// oracles (C11): transparent; monotone
					if ok && ans != unl {
						ctx.oracle_fail("C11", format!("{}: limit {} returned {} but unlimited gives {}", name, l, &ans[..ans.len().min(60)], &unl[..unl.len().min(60)]));
					}
					if prev_ok && !ok {
						ctx.oracle_fail("C11", format!("{}: succeeded with limit {} but failed with limit {} on {}", name, l - 1, l, hex_or_dash(&bs)));
					}
					if ok && need.is_none() {
						need = Some(l);
					}
					prev_ok = ok;
					l += 1;
					match need {
						Some(n) if l > n + 2 => break,
						None if l > 12 => break,
						_ => {},
					}
				}
				if unl.starts_with("ok") && need.is_none() {
					ctx.oracle_fail("C11", format!("{}: unlimited decode succeeds but no limit up to 12 does: {}", name, hex_or_dash(&bs)));
				}
				// the least sufficient limit of an untampered encoding is the value's container nesting
				if i % 3 == 0 {
					if let Some(n) = need {
						ctx.emit("nesting", name, &format!("nesting {} {}", T::ty(bs.len() + 1), val_string(&v, false)), &n.to_string());
					}
				}
			}
		},
		"stacks" => {
			for i in 0..n_vals {
				g.budget = o.budget;
				let v = T::gen(&mut g);
				g.budget = o.budget;
				let w = T::gen(&mut g);
				let mut bs = v.encode();
				match i % 4 {
					0 => {},
					1 => bs.push(g.rng.below(256) as u8),
					2 => bs = mutate(&mut g.rng, &bs, &w.encode(), !o.zero_width_elems),
					_ => {
						let cut = g.rng.below(bs.len() as u64 + 1) as usize;
						bs.truncate(cut)
					},
				}
				let seed = g.rng.next();
				#[cfg(feature = "codec-std")]
				crate::stacks::run_stacks::<T>(ctx, name, &bs, seed);
				#[cfg(not(feature = "codec-std"))]
				let _ = (seed, &bs);
			}
		},
		"sinks" => {
			for _ in 0..n_vals {
				g.budget = o.budget;
				let v = T::gen(&mut g);
				sinks_case(ctx, name, &v, &format!("enc4 {} {}", T::ty(8), val_string(&v, false)), g.rng.next());
				// the helpers that pass the callback form on: `Joiner::and`, `KeyedVec::to_keyed_vec`
				{
					use parity_scale_codec::{Joiner, KeyedVec};
					let key = [0xaau8, 0xbb];
					let r = catch_unwind(AssertUnwindSafe(|| (key.to_vec().and(&v), v.to_keyed_vec(&key), v.encode())));
					match r {
						Ok((j, k, e)) => {
							ctx.emit("join", name, &format!("join aabb {} {}", T::ty(8), val_string(&v, false)), &format!("{} {}", hex_or_dash(&j), hex_or_dash(&k)));
							let mut expect = key.to_vec();
							expect.extend_from_slice(&e);
							if j != expect || k != expect {
								ctx.oracle_fail("C07", format!("{}: Joiner::and / to_keyed_vec give {} / {} but key ++ encode() is {}", name, hex_or_dash(&j), hex_or_dash(&k), hex_or_dash(&expect)));
							}
						},
						Err(_) => ctx.oracle_fail("C07", format!("{}: Joiner::and / to_keyed_vec panicked", name)),
					}
				}
			}
		},
		"alloc" => {
			// recursive types nest as deep as the payload says: give the decoder a deep stack
			std::thread::scope(|sc| {
				std::thread::Builder::new()
					.stack_size(512 << 20)
					.spawn_scoped(sc, || alloc_type::<T>(ctx, name, o, &mut g))
					.unwrap()
					.join()
					.unwrap()
			});
		},
		"exh" => {
			let mut strings: Vec<Vec<u8>> = vec![vec![]];
			for a in 0..=255u8 {
				strings.push(vec![a]);
			}
			if o.small_alphabet {
				for a in 0..=255u8 {
					for b in 0..=255u8 {
						strings.push(vec![a, b]);
					}
				}
			} else {
				// all 2-byte strings over the boundary alphabet
				let alpha = [0u8, 1, 2, 3, 4, 8, 0x7f, 0x80, 0xfc, 0xfd, 0xfe, 0xff];
				for &a in &alpha {
					for &b in &alpha {
						strings.push(vec![a, b]);
					}
				}
			}
			for s in strings {
				if o.zero_width_elems && s.first().map_or(false, |b| *b % 4 != 0 || *b > 40) {
					continue;
				}
				let (ans, _) = dec_answer::<T>(&s);
				ctx.emit("exh", name, &format!("dec {} {}", T::ty(s.len() + 1), hex_or_dash(&s)), &ans);
			}
		},
		_ => unreachable!(),
	}
}

// ---------------------------------------------------------------------------------------------
// Lengths straddling the 16 KiB preallocation window (C01, C02, C07)
// ---------------------------------------------------------------------------------------------

fn big_lengths<T>(thorough: bool) -> Vec<usize> {
	let sz = core::mem::size_of::<T>();
	let c = if sz == 0 { 50_000 } else { 16384 / sz };
	// up to five chunks: growth strategies differ from the third or fourth chunk on
	let mut v = vec![c - 1, c, c + 1, 2 * c + 1, 4 * c + 1, 5 * c];
	if thorough {
		v.extend_from_slice(&[2 * c - 1, 2 * c, 3 * c, 3 * c + 1, 6 * c + 3, 9 * c]);
	}
	v
}

fn big_for<T: Cat + Clone, C: Cat + FromIterator<T>>(ctx: &mut Ctx, name: &str) {
	let mut g = G::new(ctx.seed ^ 0xB16, 8);
	for n in big_lengths::<T>(ctx.tier_thorough) {
		let v: C = (0..n)
			.map(|_| {
				g.budget = 2;
				T::gen(&mut g)
			})
			.collect();
		let (ans, _) = enc_answer(&v);
		ctx.emit("big-enc", name, &format!("enc {} {}", C::ty(4), val_string(&v, false)), &ans);
		let mut bs = v.encode();
		bs.push(0xa5);
		let (ans, dv) = dec_answer::<C>(&bs);
		ctx.emit("big-rt", name, &format!("dec {} {}", C::ty(4), hex_or_dash(&bs)), &ans);
		match dv {
			Some((d, rem)) => {
				if val_string(&d, true) != val_string(&v, true) || rem != 1 {
					ctx.oracle_fail("C02", format!("{}: round trip of {} elements failed", name, n));
				}
			},
			None => ctx.oracle_fail("C02", format!("{}: decode(encode(v)) failed for {} elements", name, n)),
		}
		// the same bytes through inputs that cannot report their remaining length (chunk after chunk
		// is read): same value, same number of bytes consumed; and two encodings in a row decode in turn
		{
			let mut two = v.encode();
			let one_len = two.len();
			two.extend_from_slice(&v.encode());
			two.push(0xa5);
			let r = catch_unwind(AssertUnwindSafe(|| {
				let mut u = UnknownLenInput { data: &two, pos: 0 };
				let a = C::decode(&mut u).ok().map(|x| val_string(&x, true));
				let p1 = u.pos;
				let b = C::decode(&mut u).ok().map(|x| val_string(&x, true));
				(a, p1, b, u.pos)
			}));
			let want = val_string(&v, true);
			match r {
				Ok((Some(a), p1, Some(b), p2)) if a == want && b == want && p1 == one_len && p2 == 2 * one_len => {},
				Ok((a, p1, b, p2)) => {
					let msg = format!("{}: two encodings of {} elements in a row through an input of unknown length: first ok={} consumed {} (encoding is {} bytes), second ok={} consumed {}", name, n, a.is_some(), p1, one_len, b.is_some(), p2 - p1);
					// the round trip (C02), self-delimitation (C14) and input independence (C08) all fail here
					ctx.oracle_fail("C08", msg.clone());
					ctx.oracle_fail("C02", msg.clone());
					ctx.oracle_fail("C03", msg.clone());
					// (for the twelve primitives this is the bulk reader disagreeing with element-by-element decoding)
					ctx.oracle_fail("C07", msg.clone());
					ctx.oracle_fail("C14", msg);
				},
				Err(_) => ctx.oracle_fail("C03", format!("{}: decoding {} elements from an input of unknown length panicked", name, n)),
			}
			#[cfg(feature = "codec-std")]
			{
				let r = catch_unwind(AssertUnwindSafe(|| {
					let mut io = parity_scale_codec::IoReader(std::io::Cursor::new(&two[..]));
					let a = C::decode(&mut io).ok().map(|x| val_string(&x, true));
					let p1 = io.0.position() as usize;
					let b = C::decode(&mut io).ok().map(|x| val_string(&x, true));
					(a, p1, b, io.0.position() as usize)
				}));
				match r {
					Ok((Some(a), p1, Some(b), p2)) if a == want && b == want && p1 == one_len && p2 == 2 * one_len => {},
					Ok((a, p1, b, p2)) => {
						let msg = format!("{}: two encodings of {} elements in a row through IoReader: first ok={} consumed {} (encoding is {} bytes), second ok={} consumed {}", name, n, a.is_some(), p1, one_len, b.is_some(), p2 - p1);
						ctx.oracle_fail("C08", msg.clone());
						ctx.oracle_fail("C02", msg.clone());
						ctx.oracle_fail("C03", msg.clone());
						ctx.oracle_fail("C07", msg.clone());
						ctx.oracle_fail("C14", msg);
					},
					Err(_) => ctx.oracle_fail("C03", format!("{}: decoding {} elements from IoReader panicked", name, n)),
				}
			}
		}
		// truncated by one byte: must fail (C14) and must not panic (C03)
		let cut = &bs[..bs.len() - 2];
		let (ans, _) = dec_answer::<C>(cut);
		ctx.emit("big-cut", name, &format!("dec {} {}", C::ty(4), hex_or_dash(cut)), &ans);
		if ans != "err" && C::min_len() > 0 && n > 0 && core::mem::size_of::<T>() > 0 {
			ctx.oracle_fail("C14", format!("{}: strict prefix of an encoding of {} elements decoded: {}", name, n, &ans[..ans.len().min(40)]));
		}
	}
}

/// Memory-limited decoding of collections spanning several 16 KiB chunks (C12; C08 for the
/// dependence on the input kind).
fn bigmem_for<T: Cat + Clone, C: Cat + FromIterator<T> + DecodeWithMemTracking>(ctx: &mut Ctx, name: &str) {
	let mut g = G::new(ctx.seed ^ 0xB17, 8);
	for n in big_lengths::<T>(ctx.tier_thorough) {
		let v: C = (0..n)
			.map(|_| {
				g.budget = 2;
				T::gen(&mut g)
			})
			.collect();
		let bs = v.encode();
		let (unl, _) = dec_answer::<C>(&bs);
		let (_, u) = mem_run::<C>(&bs, usize::MAX);
		let ty = C::ty(4);
		for l in [usize::MAX, 0, 1, u / 2, u.saturating_sub(1), u, u.saturating_add(1), u.saturating_mul(2)] {
			let (ans, _) = mem_run::<C>(&bs, l);
			ctx.emit("bigmem", name, &format!("mem {} {} {}", l, ty, hex_or_dash(&bs)), &ans);
			if l > u && !ans.starts_with(&unl) {
				ctx.oracle_fail("C12", format!("{} ({} elements): L = {} > U = {} but limited decode gives {}", name, n, l, u, &ans[..ans.len().min(60)]));
			}
			if u > 0 && l <= u && !ans.starts_with("err") {
				ctx.oracle_fail("C12", format!("{} ({} elements): L = {} <= U = {} but limited decode succeeded", name, n, l, u));
			}
			// the same wrapper over an input that cannot report its remaining length
			let r = catch_unwind(AssertUnwindSafe(|| {
				let mut inner = UnknownLenInput { data: &bs, pos: 0 };
				let mut mi = MemTrackingInput::new(&mut inner, l);
				let r = C::decode(&mut mi);
				let used = mi.used_mem();
				(r.is_ok(), used)
			}));
			match r {
				Ok((ok, used)) => {
					if ok != ans.starts_with("ok") {
						ctx.oracle_fail("C08", format!("{} ({} elements) with memory limit {}: slice input gives {} but an unknown-length input gives {}", name, n, l, &ans[..ans.len().min(12)], if ok { "ok" } else { "err" }));
					}
					if ok && !ans.ends_with(&format!("used={}", used)) {
						ctx.oracle_fail("C12", format!("{} ({} elements) with memory limit {}: tracked usage differs between slice input and unknown-length input ({} vs {})", name, n, l, &ans[ans.len().saturating_sub(16)..], used));
					}
				},
				Err(_) => ctx.oracle_fail("C03", format!("{}: memory-limited decode over an unknown-length input panicked", name)),
			}
		}
		// oracle (C12): U is at least the payload the value holds (count x element size)
		let payload = n * core::mem::size_of::<T>();
		if unl.starts_with("ok") && u < payload && 2 * u < payload {
			ctx.oracle_fail("C12", format!("{} ({} elements of {} bytes): tracked usage U = {} is below the payload {}", name, n, core::mem::size_of::<T>(), u, payload));
		}
		ctx.count("bigmem:values", 1);
	}
}

fn bigmem_stream(ctx: &mut Ctx) {
	use crate::derived::{TwinU32, TwinU8};
	use std::collections::{BTreeSet, BinaryHeap, LinkedList, VecDeque};
	bigmem_for::<u8, Vec<u8>>(ctx, "Vec<u8>");
	bigmem_for::<u16, Vec<u16>>(ctx, "Vec<u16>");
	bigmem_for::<i32, Vec<i32>>(ctx, "Vec<i32>");
	bigmem_for::<u64, Vec<u64>>(ctx, "Vec<u64>");
	bigmem_for::<u128, Vec<u128>>(ctx, "Vec<u128>");
	bigmem_for::<f64, Vec<f64>>(ctx, "Vec<f64>");
	bigmem_for::<TwinU32, Vec<TwinU32>>(ctx, "Vec<TwinU32>");
	bigmem_for::<TwinU8, Vec<TwinU8>>(ctx, "Vec<TwinU8>");
	bigmem_for::<(u8, u16), Vec<(u8, u16)>>(ctx, "Vec<(u8,u16)>");
	bigmem_for::<(), Vec<()>>(ctx, "Vec<()>");
	bigmem_for::<u64, VecDeque<u64>>(ctx, "VecDeque<u64>");
	bigmem_for::<u32, BinaryHeap<u32>>(ctx, "BinaryHeap<u32>");
	bigmem_for::<u16, LinkedList<u16>>(ctx, "LinkedList<u16>");
	bigmem_for::<u32, BTreeSet<u32>>(ctx, "BTreeSet<u32>");
	for n in [16383usize, 16385, 40000] {
		let s: String = (0..n).map(|i| if i % 7 == 0 { 'é' } else { 'a' }).collect();
		let bs = s.encode();
		let (_, u) = mem_run::<String>(&bs, usize::MAX);
		for l in [usize::MAX, u, u + 1] {
			let (ans, _) = mem_run::<String>(&bs, l);
			ctx.emit("bigmem", "String", &format!("mem {} str {}", l, hex_or_dash(&bs)), &ans);
		}
	}
}

fn big_stream(ctx: &mut Ctx) {
	use crate::derived::{TwinU32, TwinU8};
	use std::collections::{BTreeSet, LinkedList, VecDeque};
	big_for::<u8, Vec<u8>>(ctx, "Vec<u8>");
	big_for::<i8, Vec<i8>>(ctx, "Vec<i8>");
	big_for::<u16, Vec<u16>>(ctx, "Vec<u16>");
	big_for::<i16, Vec<i16>>(ctx, "Vec<i16>");
	big_for::<u32, Vec<u32>>(ctx, "Vec<u32>");
	big_for::<i32, Vec<i32>>(ctx, "Vec<i32>");
	big_for::<u64, Vec<u64>>(ctx, "Vec<u64>");
	big_for::<i64, Vec<i64>>(ctx, "Vec<i64>");
	big_for::<u128, Vec<u128>>(ctx, "Vec<u128>");
	big_for::<i128, Vec<i128>>(ctx, "Vec<i128>");
	big_for::<f32, Vec<f32>>(ctx, "Vec<f32>");
	big_for::<f64, Vec<f64>>(ctx, "Vec<f64>");
	big_for::<TwinU32, Vec<TwinU32>>(ctx, "Vec<TwinU32>");
	big_for::<TwinU8, Vec<TwinU8>>(ctx, "Vec<TwinU8>");
	big_for::<(u8, u16), Vec<(u8, u16)>>(ctx, "Vec<(u8,u16)>");
	big_for::<Option<u32>, Vec<Option<u32>>>(ctx, "Vec<Option<u32>>");
	big_for::<(), Vec<()>>(ctx, "Vec<()>");
	// node-based collections of variable-size entries with tag bytes, well over 4 KiB of output
	big_for::<Option<u32>, LinkedList<Option<u32>>>(ctx, "LinkedList<Option<u32>>");
	big_for::<(u32, Option<u8>), std::collections::BTreeMap<u32, Option<u8>>>(ctx, "BTreeMap<u32,Option<u8>>");
	big_for::<Option<u16>, BTreeSet<Option<u16>>>(ctx, "BTreeSet<Option<u16>>");
	big_for::<Vec<u8>, LinkedList<Vec<u8>>>(ctx, "LinkedList<Vec<u8>>");
	big_for::<Option<u64>, std::collections::BinaryHeap<Option<u64>>>(ctx, "BinaryHeap<Option<u64>>");
	// zero-sized in memory, one byte on the wire: every one of 50 000 elements is read and checked
	big_for::<crate::derived::Marker, Vec<crate::derived::Marker>>(ctx, "Vec<Marker>");
	big_for::<crate::derived::Marker, VecDeque<crate::derived::Marker>>(ctx, "VecDeque<Marker>");
	// element sizes that do not divide the 16 KiB chunk (3, 24 and 12 bytes in memory)
	big_for::<[u8; 3], Vec<[u8; 3]>>(ctx, "Vec<[u8;3]>");
	big_for::<String, Vec<String>>(ctx, "Vec<String>");
	big_for::<(u32, u32, u16), Vec<(u32, u32, u16)>>(ctx, "Vec<(u32,u32,u16)>");
	big_for::<[u8; 3], VecDeque<[u8; 3]>>(ctx, "VecDeque<[u8;3]>");
	big_for::<u8, VecDeque<u8>>(ctx, "VecDeque<u8>");
	big_for::<u64, VecDeque<u64>>(ctx, "VecDeque<u64>");
	big_for::<TwinU32, VecDeque<TwinU32>>(ctx, "VecDeque<TwinU32>");
	big_for::<u16, LinkedList<u16>>(ctx, "LinkedList<u16>");
	big_for::<u32, BTreeSet<u32>>(ctx, "BTreeSet<u32>");
	// a long shared byte buffer: zero-copy path across several chunk sizes
	#[cfg(feature = "bytes-f")]
	for n in [16383usize, 16385, 50000] {
		let data: Vec<u8> = (0..n).map(|i| (i * 7 % 251) as u8).collect();
		let v = bytes::Bytes::from(data.clone());
		let mut bs = v.encode();
		bs.push(0x5a);
		let (ans, _) = dec_answer::<bytes::Bytes>(&bs);
		ctx.emit("big-rt", "Bytes", &format!("dec bytes {}", hex_or_dash(&bs)), &ans);
		let whole = parity_scale_codec::decode_from_bytes::<(bytes::Bytes, u8)>(bytes::Bytes::from(bs.clone()));
		match whole {
			Ok((b, t)) if b[..] == data[..] && t == 0x5a => {},
			other => ctx.oracle_fail("C08", format!("decode_from_bytes of a {}-byte Bytes followed by a byte gives {:?}", n, other.map(|(b, t)| (b.len(), t)).map_err(|_| "err"))),
		}
		let cut = &bs[..bs.len() - 2];
		if parity_scale_codec::decode_from_bytes::<bytes::Bytes>(bytes::Bytes::copy_from_slice(cut)).is_ok() {
			ctx.oracle_fail("C14", format!("decode_from_bytes accepted a truncated {}-byte Bytes", n));
		}
	}
	// the bit-length cap: 2^29 - 1 bits are accepted when the data is there, 2^29 bits never are -
	// with the 64 MiB of storage words actually present (C03: "bit sequences longer than 2^29-1 bits")
	#[cfg(feature = "bitvec-f")]
	{
		use bitvec::prelude::*;
		let max_bits: u32 = (1 << 29) - 1;
		let mut bs = Compact(max_bits + 1).encode();
		bs.resize(bs.len() + (1 << 26) + 16, 0);
		macro_rules! cap_case {
			($store:ty, $order:ty, $label:expr) => {{
				let r = catch_unwind(AssertUnwindSafe(|| BitVec::<$store, $order>::decode(&mut &bs[..]).map(|b| b.len())));
				match r {
					Ok(Err(_)) => {},
					Ok(Ok(n)) => ctx.oracle_fail("C03", format!("BitVec<{}> accepted a bit sequence of {} bits (the cap is 2^29 - 1) when the storage words are present", $label, n)),
					Err(_) => ctx.oracle_fail("C03", format!("BitVec<{}>::decode panicked on a count of 2^29 bits", $label)),
				}
				let mut ok = Compact(max_bits).encode();
				ok.resize(ok.len() + (1 << 26), 0);
				let r = catch_unwind(AssertUnwindSafe(|| BitVec::<$store, $order>::decode(&mut &ok[..]).map(|b| b.len())));
				if !matches!(r, Ok(Ok(n)) if n == max_bits as usize) {
					ctx.oracle_fail("C03", format!("BitVec<{}> rejected a well-formed bit sequence of 2^29 - 1 bits", $label));
				}
				// `skip` decides like `decode` (C18) - also here, where only the cap separates them; and
				// through an unknown-length input
				let r = catch_unwind(AssertUnwindSafe(|| {
					let mut s = &bs[..];
					let a = BitVec::<$store, $order>::skip(&mut s).is_ok();
					let mut u = UnknownLenInput { data: &bs, pos: 0 };
					let b = BitVec::<$store, $order>::skip(&mut u).is_ok();
					let c = BitBox::<$store, $order>::skip(&mut &bs[..]).is_ok();
					let mut s2 = &ok[..];
					let d = BitVec::<$store, $order>::skip(&mut s2).is_ok() && s2.is_empty();
					(a, b, c, d)
				}));
				if !matches!(r, Ok((false, false, false, true))) {
					ctx.oracle_fail("C03", format!("BitVec<{}>::skip accepts a bit sequence longer than 2^29 - 1 bits (or rejects one of 2^29 - 1): {:?}", $label, r.as_ref().ok()));
					ctx.oracle_fail("C18", format!("BitVec<{}>::skip at the bit-length cap (2^29 bits over a slice, over an unknown-length input, BitBox; 2^29 - 1 bits) gives {:?} where decode gives (rejected, rejected, rejected, accepted)", $label, r.ok()));
				}
				ctx.count("big:bit-cap-cases", 2);
			}};
		}
		cap_case!(u8, Lsb0, "u8,Lsb0");
		cap_case!(u64, Msb0, "u64,Msb0");
	}
	// a tampered element deep in the tail of a long vector of zero-sized-in-memory elements is noticed
	{
		use crate::derived::Marker;
		let n = 40_000usize;
		let mut bs = Compact(n as u32).encode();
		let idx = Marker::Only.encode()[0];
		bs.extend(std::iter::repeat(idx).take(n));
		let good = dec_answer::<Vec<Marker>>(&bs).1.map(|(v, rem)| (v.len(), rem));
		let mut bad = bs.clone();
		let k = bad.len() - 7;
		bad[k] = idx.wrapping_add(1);
		let bad_r = dec_answer::<Vec<Marker>>(&bad).1.is_some();
		let short = dec_answer::<Vec<Marker>>(&bs[..bs.len() - 1]).1.is_some();
		if good != Some((n, 0)) || bad_r || short {
			let msg = format!("Vec<Marker> of {} one-byte elements: complete {:?} (expected {} elements, 0 bytes left), with a wrong byte near the end accepted = {}, one byte short accepted = {}", n, good, n, bad_r, short);
			ctx.oracle_fail("C03", msg.clone());
			ctx.oracle_fail("C14", msg);
		}
	}
	// primitive runs longer than a MiB (and not a multiple of it): the bulk path against the
	// element-by-element encoding of the same numbers
	{
		use crate::derived::Twin;
		let mut r = Rng::new(ctx.seed ^ 0x1A1B);
		let a: Vec<u32> = (0..300_001).map(|_| r.next() as u32).collect();
		let b: Vec<u8> = (0..(1usize << 20) + 5).map(|_| r.next() as u8).collect();
		let c: Vec<u64> = (0..(1usize << 17) + 3).map(|_| r.next()).collect();
		macro_rules! long_run {
			($v:expr, $t:ty, $label:expr) => {{
				let v = &$v;
				let e = v.encode();
				let tw: Vec<Twin<$t>> = v.iter().cloned().map(Twin).collect();
				let et = tw.encode();
				let dq: std::collections::VecDeque<$t> = v.iter().cloned().collect();
				let back = <Vec<$t>>::decode(&mut &e[..]).ok();
				if e != et || dq.encode() != et || v.encoded_size() != et.len() || (&v[..]).encode() != et || back.as_ref() != Some(v) {
					let msg = format!("{} of {} elements ({} bytes): bulk encoding {} bytes, element-wise {} bytes, equal = {}, round trip ok = {}", $label, v.len(), v.len() * core::mem::size_of::<$t>(), e.len(), et.len(), e == et, back.as_ref() == Some(v));
					ctx.oracle_fail("C07", msg.clone());
					ctx.oracle_fail("C01", msg.clone());
					ctx.oracle_fail("C02", msg);
				}
			}};
		}
		long_run!(a, u32, "Vec<u32>");
		long_run!(b, u8, "Vec<u8>");
		long_run!(c, u64, "Vec<u64>");
		ctx.count("big:runs-over-a-MiB", 3);
	}
	// shared holders of payloads above 16 KiB under a memory limit: the payload is what is charged
	{
		use std::rc::Rc;
		use std::sync::Arc;
		let bs = vec![1u8; 40000];
		let r = catch_unwind(AssertUnwindSafe(|| {
			use parity_scale_codec::DecodeWithMemLimit;
			let a = <Rc<[u8; 20000]>>::decode_with_mem_limit(&mut &bs[..], 9).is_ok();
			let b = <Arc<[u32; 5000]>>::decode_with_mem_limit(&mut &bs[..], 20000).is_ok();
			let c = <Rc<[u8; 20000]>>::decode_with_mem_limit(&mut &bs[..], 20001).is_ok();
			let mut s = &bs[..];
			let mut m = MemTrackingInput::new(&mut s, 1 << 30);
			let _ = <(Rc<[u8; 17000]>, Arc<[u16; 9000]>)>::decode(&mut m);
			(a, b, c, m.used_mem())
		}));
		if !matches!(r, Ok((false, false, true, 35000))) {
			ctx.oracle_fail("C12", format!("Rc/Arc of arrays above 16 KiB under memory limits 9 / 20000 / 20001 and their tracked usage: {:?}, expected (false, false, true, 35000)", r.ok()));
		}
	}
	// a count in the five-byte mode (2^30 elements; 2^32 - 1 in the thorough tier): only zero-sized
	// elements make that affordable
	{
		let counts: Vec<usize> = if ctx.tier_thorough { vec![1 << 30, u32::MAX as usize] } else { vec![1 << 30] };
		for n in counts {
			let r = catch_unwind(AssertUnwindSafe(|| {
				let v: Vec<()> = vec![(); n];
				let a = v.encode();
				let b = (&v[..]).encode();
				let n2 = v.encoded_size();
				let d: std::collections::VecDeque<()> = std::iter::repeat(()).take(n).collect();
				let c = d.encode();
				(a, b, c, n2)
			}));
			let want = Compact(n as u32).encode();
			match r {
				Ok((a, b, c, n2)) if a == want && b == want && c == want && n2 == want.len() => {},
				other => ctx.oracle_fail("C01", format!("{} unit elements: Vec / slice / VecDeque encode to {:?}, expected the count prefix {} alone", n, other.ok().map(|(a, b, c, _)| (hex_or_dash(&a), hex_or_dash(&b), hex_or_dash(&c))), hex_or_dash(&want))),
			}
			ctx.count("big:five-byte-count", 1);
		}
	}
	// arrays of large elements behind a holder are decoded in place: a thread with a 256 KiB stack
	// decodes `Box<[[u8; 1 MiB]; 3]>` and friends (by-value elements would overflow it; an overflow
	// aborts the process and is attributed by the check)
	{
		std::fs::write(&ctx.current_path, "Box<[[u8; 1 MiB]; 3]> etc. on a 256 KiB stack\n").ok();
		let h = std::thread::Builder::new().stack_size(256 * 1024).spawn(|| {
			let bs = vec![7u8; 3 << 20];
			let a = <Box<[[u8; 1 << 20]; 3]>>::decode(&mut &bs[..]).map(|b| b[2][5]).ok();
			let b = <std::rc::Rc<[[u32; 1 << 18]; 2]>>::decode(&mut &bs[..]).map(|b| b[1][9]).ok();
			let c = <std::sync::Arc<[[[u16; 1 << 10]; 256]; 2]>>::decode(&mut &bs[..]).map(|b| b[1][2][3]).ok();
			let d = <Box<[crate::derived::TransBig; 2]>>::decode(&mut &bs[..]).map(|b| b[1].0[7]).ok();
			(a, b, c, d)
		});
		match h.map(|h| h.join()) {
			Ok(Ok((Some(7), Some(0x07070707), Some(0x0707), Some(7)))) => {},
			other => ctx.oracle_fail("C03", format!("arrays of megabyte-sized elements behind Box/Rc/Arc on a 256 KiB stack: {:?}", other.map(|r| r.ok()).ok())),
		}
		ctx.count("big:small-stack-holders", 4);
	}
	// a `GenericArray` announces nothing to a memory tracker (like the array it encodes as), in every
	// feature configuration; arrays of primitives above 16 KiB pass through a tracker in one read
	{
		#[cfg(feature = "garray-f")]
		{
			use generic_array::{typenum, GenericArray};
			let bs = [9u8; 64];
			let r = catch_unwind(AssertUnwindSafe(|| {
				let mut s = &bs[..];
				let mut m = MemTrackingInput::new(&mut s, 1);
				let a = <GenericArray<u8, typenum::U32>>::decode(&mut m).is_ok();
				let u1 = m.used_mem();
				let b = <GenericArray<u32, typenum::U4>>::decode(&mut m).is_ok();
				(a, b, u1, m.used_mem())
			}));
			if !matches!(r, Ok((true, true, 0, 0))) {
				let msg = format!("GenericArray<u8, U32> / <u32, U4> under MemTrackingInput(limit 1): (ok, ok, used, used) = {:?}, expected (true, true, 0, 0)", r.ok());
				ctx.oracle_fail("C20", msg.clone());
				ctx.oracle_fail("C12", msg);
			}
		}
		let bs = vec![3u8; 40000];
		let r = catch_unwind(AssertUnwindSafe(|| {
			let plain = <[u8; 20000]>::decode(&mut &bs[..]).is_ok();
			let mut s = &bs[..];
			let mut m = MemTrackingInput::new(&mut s, usize::MAX);
			let a = <[u8; 20000]>::decode(&mut m).is_ok();
			let b = <[u32; 4097]>::decode(&mut m).is_ok();
			let mut s2 = &bs[..];
			let mut m2 = MemTrackingInput::new(&mut s2, 1 << 20);
			let mut c2 = CountedInput::new(&mut m2);
			let c = <Box<[u64; 2049]>>::decode(&mut c2).is_ok();
			let mut u = UnknownLenInput { data: &bs, pos: 0 };
			let mut m3 = MemTrackingInput::new(&mut u, usize::MAX);
			let d = <[u16; 9000]>::decode(&mut m3).is_ok();
			(plain, a, b, c, d)
		}));
		if !matches!(r, Ok((true, true, true, true, true))) {
			let msg = format!("primitive arrays above 16 KiB through MemTrackingInput with a non-binding limit: {:?}, expected all accepted like from the slice", r.ok());
			ctx.oracle_fail("C08", msg.clone());
			ctx.oracle_fail("C12", msg);
		}
	}
	// many sibling holders in one collection under a SMALL but sufficient depth limit (the nesting
	// is 2 or 3 whatever the number of siblings), alone and under the other wrappers: a level that is
	// not given back per element would exhaust it
	{
		use crate::derived::Marker;
		use std::rc::Rc;
		use std::sync::Arc;
		macro_rules! wide {
			($t:ty, $elem:expr, $label:expr) => {{
				for n in [8usize, 70, 300] {
					let v: $t = (0..n).map($elem).collect();
					let bs = v.encode();
					for limit in [3u32, 8] {
						let r = catch_unwind(AssertUnwindSafe(|| {
							let mut s = &bs[..];
							let r = <$t>::decode_with_depth_limit(limit, &mut s);
							(r, s.len())
						}));
						let ans = match r {
							Ok((Ok(x), rem)) => format!("ok {} {}", val_string(&x, true), rem),
							Ok((Err(_), _)) => "err".into(),
							Err(_) => "panic".into(),
						};
						ctx.emit("big-wide", $label, &format!("limit {} {} {}", limit, <$t>::ty(4), hex_or_dash(&bs)), &ans);
						let stacked = catch_unwind(AssertUnwindSafe(|| {
							let mut s = &bs[..];
							let mut m = MemTrackingInput::new(&mut s, usize::MAX);
							let mut c = CountedInput::new(&mut m);
							<$t>::decode_with_depth_limit(limit, &mut c).is_ok()
						}));
						let plain_ok = <$t>::decode(&mut &bs[..]).is_ok();
						if !matches!(stacked, Ok(true)) || !plain_ok {
							ctx.oracle_fail("C08", format!("{} with {} elements: nesting is at most 3 but decoding under a depth limit of {} (over counting and memory-tracking wrappers) gives {:?}, plain decode ok={}", $label, n, limit, stacked.ok(), plain_ok));
						}
					}
				}
			}};
		}
		wide!(Vec<Box<()>>, |_| Box::new(()), "Vec<Box<()>>");
		wide!(Vec<Rc<u32>>, |i| Rc::new(i as u32), "Vec<Rc<u32>>");
		wide!(Vec<Arc<u8>>, |i| Arc::new(i as u8), "Vec<Arc<u8>>");
		wide!(Vec<Box<Marker>>, |_| Box::new(Marker::Only), "Vec<Box<Marker>>");
		wide!(std::collections::VecDeque<Rc<Marker>>, |_| Rc::new(Marker::Only), "VecDeque<Rc<Marker>>");
		wide!(std::collections::LinkedList<Box<u16>>, |i| Box::new(i as u16), "LinkedList<Box<u16>>");
		wide!(Vec<Box<Vec<u8>>>, |i| Box::new(vec![i as u8; i % 3]), "Vec<Box<Vec<u8>>>");
		wide!(Vec<(Arc<u16>, Box<()>)>, |i| (Arc::new(i as u16), Box::new(())), "Vec<(Arc<u16>,Box<()>)>");
	}
	// tuples whose `size_hint()` under-reports (nested heap data, wide compacts): every entry point,
	// `Joiner::and` and `to_keyed_vec` on encodings of more than 256 bytes behind a small hint
	{
		use parity_scale_codec::{Joiner, KeyedVec};
		macro_rules! long_tuple {
			($v:expr, $ty:ty, $label:expr) => {{
				let v: $ty = $v;
				let seed = 0x7u64;
				sinks_case(ctx, $label, &v, &format!("enc4 {} {}", <$ty>::ty(4), val_string(&v, false)), seed);
				let r = catch_unwind(AssertUnwindSafe(|| (vec![0xaau8].and(&v), v.to_keyed_vec(&[0xaa]), v.using_encoded(|s| s.to_vec()))));
				let mut expect = vec![0xaau8];
				expect.extend_from_slice(&v.encode());
				match r {
					Ok((j, k, u)) if j == expect && k == expect && u[..] == expect[1..] => {},
					Ok(_) => ctx.oracle_fail("C07", format!("{}: Joiner / KeyedVec / using_encoded differ from encode() ({} bytes)", $label, expect.len() - 1)),
					Err(_) => ctx.oracle_fail("C01", format!("{}: using_encoded / Joiner / KeyedVec panicked on a value whose encoding is {} bytes", $label, expect.len() - 1)),
				}
			}};
		}
		long_tuple!((7u32, vec!["x".repeat(300)]), (u32, Vec<String>), "(u32, Vec<String>) long");
		long_tuple!((0xabu8, [Compact(u64::MAX); 31]), (u8, [Compact<u64>; 31]), "(u8, [Compact<u64>; 31]) wide");
		long_tuple!((1u8, vec![vec![7u8; 200], vec![8u8; 100]]), (u8, Vec<Vec<u8>>), "(u8, Vec<Vec<u8>>) long");
		long_tuple!((vec![Some("y".repeat(257))], 2u16, true), (Vec<Option<String>>, u16, bool), "(Vec<Option<String>>, u16, bool) long");
		long_tuple!(("z".repeat(255), 9u8), (String, u8), "(String, u8) 255");
		long_tuple!(("z".repeat(256), 9u8), (String, u8), "(String, u8) 256");
	}
	// long vectors whose deep items come only after the first preallocation chunk: the depth needed
	// is that of the deepest item wherever it sits
	{
		let mut v: Vec<Option<Box<u8>>> = vec![None; 2500];
		v.push(Some(Box::new(7)));
		v.push(None);
		let bs = v.encode();
		for limit in [0u32, 1, 2, 3] {
			let r = catch_unwind(AssertUnwindSafe(|| {
				let mut s = &bs[..];
				let r = <Vec<Option<Box<u8>>>>::decode_with_depth_limit(limit, &mut s);
				(r, s.len())
			}));
			let ans = match r {
				Ok((Ok(x), rem)) => format!("ok {} {}", val_string(&x, true), rem),
				Ok((Err(_), _)) => "err".into(),
				Err(_) => "panic".into(),
			};
			ctx.emit("big-deep-tail", "Vec<Option<Box<u8>>>", &format!("limit {} {} {}", limit, <Vec<Option<Box<u8>>>>::ty(4), hex_or_dash(&bs)), &ans);
			if (limit >= 2) != ans.starts_with("ok") {
				ctx.oracle_fail("C11", format!("Vec<Option<Box<u8>>> of 2502 items whose only boxed item is the 2501st (nesting 2): depth limit {} gives {}", limit, &ans[..ans.len().min(20)]));
			}
		}
		let mut w: Vec<Vec<Vec<u8>>> = vec![vec![]; 800];
		w.push(vec![vec![1, 2]]);
		let bs = w.encode();
		for limit in [1u32, 2, 3] {
			let ok = <Vec<Vec<Vec<u8>>>>::decode_with_depth_limit(limit, &mut &bs[..]).is_ok();
			if ok != (limit >= 2) {
				ctx.oracle_fail("C11", format!("Vec<Vec<Vec<u8>>> of 801 items whose only non-empty item is the last (nesting 2): depth limit {} gives ok={}", limit, ok));
			}
		}
	}
	// strings damaged exactly at 4 KiB / 16 KiB multiples: a multi-byte character cut short there and
	// followed by ASCII only - `skip` must fail exactly like `decode`
	for boundary in [4096usize, 8192, 12288, 16384, 32768] {
		for lead in [&[0xc3u8][..], &[0xe2, 0x82], &[0xf0, 0x9f, 0x98], &[0xe2], &[0xf0]] {
			let mut payload = vec![b'a'; boundary - lead.len()];
			payload.extend_from_slice(lead);
			payload.extend(std::iter::repeat(b'b').take(4200));
			let mut bs = Compact(payload.len() as u32).encode();
			bs.extend_from_slice(&payload);
			bs.push(0x77);
			let dec_ok = String::decode(&mut &bs[..]).is_ok();
			let r = catch_unwind(AssertUnwindSafe(|| {
				let mut s = &bs[..];
				(String::skip(&mut s).is_ok(), s.len())
			}));
			if dec_ok || !matches!(r, Ok((false, _))) {
				ctx.oracle_fail("C18", format!("a {}-byte string with a character cut short at byte offset {} followed by ASCII: decode ok={} skip={:?}", payload.len(), boundary, dec_ok, r.ok()));
			}
			ctx.count("big:string-skip-cases", 1);
		}
	}
	// a long string (the Vec<u8> bulk path plus UTF-8 validation)
	for n in [16383usize, 16384, 16385, 40000] {
		let s: String = (0..n).map(|i| if i % 7 == 0 { 'é' } else { 'a' }).collect();
		let (ans, _) = enc_answer(&s);
		ctx.emit("big-enc", "String", &format!("enc str {}", val_string(&s, false)), &ans);
		let bs = s.encode();
		let (ans, _) = dec_answer::<String>(&bs);
		ctx.emit("big-rt", "String", &format!("dec str {}", hex_or_dash(&bs)), &ans);
	}
	// multi-byte characters straddling every 16 KiB chunk boundary of the bulk reader
	for boundary in [16384usize, 32768, 49152] {
		for ch in ['é', '€', '𝄞'] {
			for off in 1..ch.len_utf8() {
				let mut s = "a".repeat(boundary - off);
				s.push(ch);
				s.push_str(&"b".repeat(37));
				let (ans, _) = enc_answer(&s);
				ctx.emit("big-enc", "String", &format!("enc str {}", val_string(&s, false)), &ans);
				let bs = s.encode();
				let (ans, _) = dec_answer::<String>(&bs);
				ctx.emit("big-rt", "String", &format!("dec str {}", hex_or_dash(&bs)), &ans);
				// oracle (C02): a valid string decodes to itself
				if String::decode(&mut &bs[..]).ok().as_deref() != Some(&s[..]) {
					ctx.oracle_fail("C02", format!("a valid {}-byte string with {:?} across byte offset {} does not decode to itself", s.len(), ch, boundary));
				}
				// the same through inputs that cannot report their length (validated in one go all the same)
				{
					let mut u = UnknownLenInput { data: &bs, pos: 0 };
					if String::decode(&mut u).ok().as_deref() != Some(&s[..]) || u.pos != bs.len() {
						ctx.oracle_fail("C08", format!("a valid {}-byte string with {:?} across byte offset {} does not decode to itself from an input of unknown length", s.len(), ch, boundary));
					}
					#[cfg(feature = "codec-std")]
					{
						let mut io = parity_scale_codec::IoReader(std::io::Cursor::new(&bs[..]));
						if String::decode(&mut io).ok().as_deref() != Some(&s[..]) {
							ctx.oracle_fail("C08", format!("a valid {}-byte string with {:?} across byte offset {} does not decode to itself from IoReader", s.len(), ch, boundary));
						}
					}
				}
				// and a broken character at the same place is rejected
				let mut bad = bs.clone();
				let k = bad.len() - 37 - 1;
				bad[k] = b'a';
				let (ans, _) = dec_answer::<String>(&bad);
				ctx.emit("big-rt", "String", &format!("dec str {}", hex_or_dash(&bad)), &ans);
			}
		}
	}
	// long payloads (more than one chunk) that are valid UTF-8 except for their END: an incomplete
	// 2-, 3- or 4-byte character, a stray continuation byte, a complete character (accepted)
	for total in [16385usize, 16386, 16388, 32769, 40000] {
		for tail in [&[0xc3u8][..], &[0xe2, 0x82], &[0xe2], &[0xf0, 0x9d, 0x84], &[0xf0, 0x9d], &[0xf0], &[0x80], &[0xc3, 0xa9], &[0xe2, 0x82, 0xac], &[0xed, 0xa0, 0x80]] {
			let mut payload = vec![b'a'; total - tail.len()];
			payload.extend_from_slice(tail);
			let mut bs = Compact(payload.len() as u32).encode();
			bs.extend_from_slice(&payload);
			let (ans, dv) = dec_answer::<String>(&bs);
			ctx.emit("big-rt", "String", &format!("dec str {}", hex_or_dash(&bs)), &ans);
			// oracle (C03): accepted iff the payload is UTF-8 - also from inputs of unknown length
			let valid = core::str::from_utf8(&payload).is_ok();
			let mut u = UnknownLenInput { data: &bs, pos: 0 };
			let via_unknown = String::decode(&mut u).is_ok();
			if dv.is_some() != valid || via_unknown != valid {
				ctx.oracle_fail("C03", format!("a {}-byte string payload ending in {} is {} UTF-8 but decoding from a slice says {} and from an unknown-length input {}", total, hex_or_dash(tail), if valid { "valid" } else { "not" }, dv.is_some(), via_unknown));
			}
		}
	}
}

// ---------------------------------------------------------------------------------------------
// UTF-8 validity: the model's `utf8Valid` against `String::from_utf8` (C03)
// ---------------------------------------------------------------------------------------------

fn utf8_case(ctx: &mut Ctx, payload: &[u8]) {
	let mut bs = Compact(payload.len() as u32).encode();
	bs.extend_from_slice(payload);
	let (ans, _) = dec_answer::<String>(&bs);
	ctx.emit("utf8", "String", &format!("dec str {}", hex_or_dash(&bs)), &ans);
}

fn utf8_stream(ctx: &mut Ctx) {
	let thorough = ctx.tier_thorough;
	let edge = [0x00u8, 0x7f, 0x80, 0x8f, 0x90, 0x9f, 0xa0, 0xbf, 0xc0, 0xff];
	for a in 0..=255u8 {
		utf8_case(ctx, &[a]);
		for b in 0..=255u8 {
			utf8_case(ctx, &[a, b]);
		}
	}
	for a in 0xe0..=0xefu8 {
		for b in 0..=255u8 {
			if thorough {
				for c in 0..=255u8 {
					utf8_case(ctx, &[a, b, c]);
				}
			} else {
				for &c in &edge {
					utf8_case(ctx, &[a, b, c]);
				}
			}
		}
	}
	for a in 0xf0..=0xf8u8 {
		for &b in &edge {
			for &c in &edge {
				for &d in &edge {
					utf8_case(ctx, &[a, b, c, d]);
					utf8_case(ctx, &[0x41, a, b, c, d, 0x42]);
				}
			}
		}
		for b in 0x80..=0xbfu8 {
			utf8_case(ctx, &[a, b, 0x80, 0x80]);
			utf8_case(ctx, &[a, b, 0xbf, 0xbf]);
		}
	}
	let mut rng = Rng::new(ctx.seed ^ 0x07F8);
	for _ in 0..(if thorough { 200_000 } else { 20_000 }) {
		let n = rng.below(12) as usize;
		let mut g = G::new(rng.next(), 8);
		let mut s = crate::modeled::gen_string(&mut g).into_bytes();
		s.truncate(n.max(1).min(s.len()));
		if !s.is_empty() && rng.chance(1, 2) {
			let i = rng.below(s.len() as u64) as usize;
			s[i] = rng.below(256) as u8;
		}
		utf8_case(ctx, &s);
	}
}

// ---------------------------------------------------------------------------------------------
// DecodeLength (C18)
// ---------------------------------------------------------------------------------------------

fn len_for<C: Cat + parity_scale_codec::DecodeLength>(ctx: &mut Ctx, name: &str, true_len: fn(&C) -> usize) {
	// every count-prefix class boundary (the prefix alone decides `len`): canonical forms must give
	// the count, whatever follows
	for k in [0u32, 1, 62, 63, 64, 65, (1 << 14) - 2, (1 << 14) - 1, 1 << 14, (1 << 14) + 1, (1 << 16) - 1, 1 << 16,
		(1 << 30) - 2, (1 << 30) - 1, 1 << 30, (1 << 30) + 1, u32::MAX - 1, u32::MAX] {
		for extra in [0usize, 3] {
			let mut bs = Compact(k).encode();
			bs.extend(std::iter::repeat(0x01).take(extra));
			let ans = match catch_unwind(AssertUnwindSafe(|| C::len(&bs))) {
				Ok(Ok(n)) => format!("ok {}", n),
				Ok(Err(_)) => "err".into(),
				Err(_) => "panic".into(),
			};
			ctx.emit("len-boundary", name, &format!("len {}", hex_or_dash(&bs)), &ans);
			if ans != format!("ok {}", k) {
				ctx.oracle_fail("C18", format!("{}: len() of a collection encoding that starts with the count {} = {}", name, k, ans));
			}
		}
	}
	let n = if ctx.tier_thorough { 600 } else { 60 };
	let mut g = G::new(ctx.seed ^ 0x1E4 ^ name.len() as u64, 80);
	for i in 0..n {
		g.budget = if i % 10 == 0 { 20000 } else { 80 };
		let v = C::gen(&mut g);
		let mut bs = v.encode();
		for _ in 0..g.rng.below(3) {
			bs.push(g.rng.below(256) as u8);
		}
		let ans = match catch_unwind(AssertUnwindSafe(|| C::len(&bs))) {
			Ok(Ok(n)) => format!("ok {}", n),
			Ok(Err(_)) => "err".into(),
			Err(_) => "panic".into(),
		};
		ctx.emit("len", name, &format!("len {}", hex_or_dash(&bs)), &ans);
		if ans != format!("ok {}", true_len(&v)) {
			ctx.oracle_fail("C18", format!("{}: len() = {} but the collection has {} elements", name, ans, true_len(&v)));
		}
		// on damaged input len() must agree with the model too
		let m = mutate(&mut g.rng, &bs, &bs, true);
		let ans = match catch_unwind(AssertUnwindSafe(|| C::len(&m))) {
			Ok(Ok(n)) => format!("ok {}", n),
			Ok(Err(_)) => "err".into(),
			Err(_) => "panic".into(),
		};
		ctx.emit("len-mut", name, &format!("len {}", hex_or_dash(&m)), &ans);
	}
}

fn len_stream(ctx: &mut Ctx) {
	use std::collections::{BTreeMap, BTreeSet, BinaryHeap, LinkedList, VecDeque};
	len_for::<Vec<u8>>(ctx, "Vec<u8>", |v| v.len());
	len_for::<Vec<u32>>(ctx, "Vec<u32>", |v| v.len());
	len_for::<Vec<String>>(ctx, "Vec<String>", |v| v.len());
	len_for::<Vec<()>>(ctx, "Vec<()>", |v| v.len());
	len_for::<VecDeque<u16>>(ctx, "VecDeque<u16>", |v| v.len());
	len_for::<LinkedList<u8>>(ctx, "LinkedList<u8>", |v| v.len());
	len_for::<BinaryHeap<u32>>(ctx, "BinaryHeap<u32>", |v| v.len());
	len_for::<BTreeSet<u32>>(ctx, "BTreeSet<u32>", |v| v.len());
	len_for::<BTreeMap<u16, Vec<u8>>>(ctx, "BTreeMap<u16,Vec<u8>>", |v| v.len());
	len_for::<VecDeque<()>>(ctx, "VecDeque<()>", |v| v.len());
	len_for::<LinkedList<()>>(ctx, "LinkedList<()>", |v| v.len());
	len_for::<BinaryHeap<()>>(ctx, "BinaryHeap<()>", |v| v.len());
	len_for::<(Vec<()>, u32)>(ctx, "(Vec<()>,u32)", |v| v.0.len());
	len_for::<Vec<Box<()>>>(ctx, "Vec<Box<()>>", |v| v.len());
	len_for::<Vec<crate::derived::Marker>>(ctx, "Vec<Marker>", |v| v.len());
	len_for::<(Vec<u8>,)>(ctx, "(Vec<u8>,)", |v| v.0.len());
	len_for::<(Vec<u16>, u32)>(ctx, "(Vec<u16>,u32)", |v| v.0.len());
	len_for::<(BTreeSet<u8>, String, u8)>(ctx, "(BTreeSet<u8>,String,u8)", |v| v.0.len());
	len_for::<(VecDeque<u8>, Vec<u8>, u8, u8)>(ctx, "(VecDeque<u8>,Vec<u8>,u8,u8)", |v| v.0.len());
}

// ---------------------------------------------------------------------------------------------
// Memory-limited decoding (C12)
// ---------------------------------------------------------------------------------------------

fn mem_run<T: Cat + DecodeWithMemTracking>(bs: &[u8], limit: usize) -> (String, usize) {
	let r = catch_unwind(AssertUnwindSafe(|| {
		let mut s = &bs[..];
		let mut mi = MemTrackingInput::new(&mut s, limit);
		let r = T::decode(&mut mi);
		let used = mi.used_mem();
		(r, s.len(), used)
	}));
	match r {
		Ok((Ok(x), rem, used)) => (format!("ok {} {} used={}", val_string(&x, true), rem, used), used),
		// the usage reached when a limit trips depends on where the decoder happens to announce
		// (chunking); no property speaks about it
		Ok((Err(_), _, used)) => ("err".to_string(), used),
		Err(_) => ("panic".into(), 0),
	}
}

pub fn run_mem_type<T: Cat + DecodeWithMemTracking>(ctx: &mut Ctx, name: &'static str, o: &TypeOpts) {
	let thorough = ctx.tier_thorough;
	let tyseed = name.bytes().fold(ctx.seed, |a, b| a.wrapping_mul(31).wrapping_add(b as u64));
	let mut g = G::new(tyseed ^ 0x3E3, o.budget);
	let n = if thorough { 120 } else { 12 };
	for i in 0..n {
		g.budget = o.budget;
		let v = T::gen(&mut g);
		g.budget = o.budget;
		let w = T::gen(&mut g);
		let mut bs = v.encode();
		if i % 3 == 1 {
			bs = mutate(&mut g.rng, &bs, &w.encode(), !o.zero_width_elems);
		}
		let (unl, _) = dec_answer::<T>(&bs);
		let (top, u) = mem_run::<T>(&bs, usize::MAX);
		let ty = T::ty(bs.len() + 1);
		// the tracked usage of an untampered encoding is the value's heap payload
		if i % 3 != 1 && top.starts_with("ok") {
			ctx.emit("payload", name, &format!("payload {} {}", ty, val_string(&v, false)), &u.to_string());
		}
		ctx.emit("mem", name, &format!("mem {} {} {}", usize::MAX, ty, hex_or_dash(&bs)), &top);
		// oracle (C12): a non-binding limit is transparent
		if unl.starts_with("ok") && !top.starts_with(&unl) {
			ctx.oracle_fail("C12", format!("{}: limit usize::MAX gives {} but unlimited gives {}", name, &top[..top.len().min(60)], &unl[..unl.len().min(60)]));
		}
		// the other wrappers stacked on top of the memory tracker must pass every announcement on:
		// the usage seen through a (non-binding) depth limiter, and through a counting input, is U
		{
			let r = catch_unwind(AssertUnwindSafe(|| {
				let mut s = &bs[..];
				let mut mi = MemTrackingInput::new(&mut s, usize::MAX);
				let ok = T::decode_with_depth_limit(100_000, &mut mi).is_ok();
				(ok, mi.used_mem())
			}));
			match r {
				Ok((ok, used)) => {
					if ok != top.starts_with("ok") || (ok && used != u) {
						ctx.oracle_fail("C12", format!("{}: decode_with_depth_limit over a MemTrackingInput: ok={} used_mem()={} but directly ok={} U={} on {}", name, ok, used, top.starts_with("ok"), u, hex_or_dash(&bs[..bs.len().min(60)])));
					}
				},
				Err(_) => ctx.oracle_fail("C03", format!("{}: depth-limited decode over a memory tracker panicked", name)),
			}
			// a tracker stacked on a tracker (a per-message limit inside a per-connection budget): both
			// see the same usage
			let r2 = catch_unwind(AssertUnwindSafe(|| {
				let mut s = &bs[..];
				let mut lower = MemTrackingInput::new(&mut s, usize::MAX);
				let (ok, upper_used) = {
					let mut upper = MemTrackingInput::new(&mut lower, usize::MAX);
					(T::decode(&mut upper).is_ok(), upper.used_mem())
				};
				(ok, upper_used, lower.used_mem())
			}));
			if let Ok((ok, upper_used, lower_used)) = r2 {
				if ok != top.starts_with("ok") || (ok && (upper_used != u || lower_used != u)) {
					ctx.oracle_fail("C12", format!("{}: a memory tracker over a memory tracker: ok={} upper used_mem()={} lower used_mem()={} but alone ok={} U={} on {}", name, ok, upper_used, lower_used, top.starts_with("ok"), u, hex_or_dash(&bs[..bs.len().min(60)])));
				}
			}
			let r = catch_unwind(AssertUnwindSafe(|| {
				let mut s = &bs[..];
				let mut mi = MemTrackingInput::new(&mut s, usize::MAX);
				let (ok, cnt) = {
					let mut ci = CountedInput::new(&mut mi);
					(T::decode(&mut ci).is_ok(), ci.count())
				};
				(ok, mi.used_mem(), cnt)
			}));
			if let Ok((ok, used, _)) = r {
				if ok != top.starts_with("ok") || (ok && used != u) {
					ctx.oracle_fail("C12", format!("{}: decode through CountedInput over a MemTrackingInput: ok={} used_mem()={} but directly ok={} U={}", name, ok, used, top.starts_with("ok"), u));
				}
			}
		}
		let cap = if thorough { 4096 } else { 96 };
		let limits: Vec<usize> = if u <= cap {
			(0..=u + 1).collect()
		} else {
			vec![0, 1, u / 2, u - 1, u, u + 1, u.saturating_mul(2)]
		};
		for l in limits {
			let (ans, _) = mem_run::<T>(&bs, l);
			ctx.emit("mem", name, &format!("mem {} {} {}", l, ty, hex_or_dash(&bs)), &ans);
			// oracle (C18/C12): skipping under the same limit succeeds exactly when decoding does
			{
				let r = catch_unwind(AssertUnwindSafe(|| {
					let mut s = &bs[..];
					let mut mi = MemTrackingInput::new(&mut s, l);
					let ok = T::skip(&mut mi).is_ok();
					(ok, s.len())
				}));
				let skip_ans = match r {
					Ok((true, rem)) => format!("ok {}", rem),
					Ok((false, _)) => "err".to_string(),
					Err(_) => "panic".to_string(),
				};
				let dec_ok = ans.starts_with("ok");
				let agrees = if dec_ok { ans.split(" used=").next().map_or(false, |a| a.ends_with(&skip_ans[2..])) && skip_ans.starts_with("ok") } else { skip_ans == "err" };
				if !agrees {
					ctx.oracle_fail("C18", format!("{}: under memory limit {} skip gives {} but decode gives {} on {}", name, l, skip_ans, &ans[..ans.len().min(50)], hex_or_dash(&bs[..bs.len().min(40)])));
				}
			}
			if unl.starts_with("ok") {
				// oracle (C12): single threshold U
				if l > u && !ans.starts_with(&unl) {
					ctx.oracle_fail("C12", format!("{}: L = {} > U = {} but limited decode gives {}", name, l, u, &ans[..ans.len().min(60)]));
				}
				if u > 0 && l <= u && !ans.starts_with("err") {
					ctx.oracle_fail("C12", format!("{}: L = {} <= U = {} but limited decode succeeded", name, l, u));
				}
			} else if ans.starts_with("ok") {
				ctx.oracle_fail("C12", format!("{}: unlimited decode fails but limit {} succeeds", name, l));
			}
		}
	}
}

// ---------------------------------------------------------------------------------------------
// The wrappers themselves, driven with arbitrary operation sequences (C19, C12)
// ---------------------------------------------------------------------------------------------

fn gen_ops(rng: &mut Rng, remaining: usize) -> Vec<String> {
	let long = rng.chance(1, 8);
	let n = 1 + rng.below(if long { 100 } else { 12 }) as usize;
	let mut ops = vec![];
	let mut rem = remaining;
	for _ in 0..n {
		let op = match rng.below(10) {
			0..=3 => {
				let k = match rng.below(7) {
					0 => 0,
					1 => 1,
					2 => rem,
					3 => rem + 1,
					4 => rng.below(5) as usize,
					5 => usize::MAX / 2,
					_ => rng.below(rem as u64 + 1) as usize,
				};
				if k <= rem {
					rem -= k;
				}
				format!("r{}", k)
			},
			4..=5 => {
				rem = rem.saturating_sub(1);
				"b".to_string()
			},
			6 => "l".to_string(),
			7 => "d".to_string(),
			8 => "a".to_string(),
			_ => {
				let k = match rng.below(6) {
					0 => 0,
					1 => usize::MAX,
					2 => usize::MAX - rng.below(100) as usize,
					3 => usize::MAX / 2 + 1,
					_ => rng.below(5000) as usize,
				};
				format!("m{}", k)
			},
		};
		ops.push(op);
	}
	ops
}

fn apply_op<I: Input>(i: &mut I, op: &str) -> String {
	let arg = || op[1..].parse::<usize>().unwrap();
	match &op[..1] {
		"r" => {
			let n = arg();
			if n > 1 << 24 {
				// a buffer that large cannot be allocated; over a slice the wrapped read fails on length alone
				return match i.remaining_len() {
					Ok(Some(r)) if r < n => "e".into(),
					_ => "skip".into(),
				};
			}
			let mut buf = vec![0u8; n];
			match i.read(&mut buf) {
				Ok(()) => format!("k{}", hex(&buf)),
				Err(_) => "e".into(),
			}
		},
		"b" => match i.read_byte() {
			Ok(b) => format!("k{:02x}", b),
			Err(_) => "e".into(),
		},
		"l" => match i.remaining_len() {
			Ok(Some(n)) => format!("s{}", n),
			Ok(None) => "n".into(),
			Err(_) => "e".into(),
		},
		"d" => match i.descend_ref() {
			Ok(()) => "k".into(),
			Err(_) => "e".into(),
		},
		"a" => {
			i.ascend_ref();
			"k".into()
		},
		"m" => match i.on_before_alloc_mem(arg()) {
			Ok(()) => "k".into(),
			Err(_) => "e".into(),
		},
		_ => unreachable!(),
	}
}

/// An inner input with an arbitrary `remaining_len` report that logs the hook calls it receives
/// (what a wrapper forwards): the wrappers must count / limit correctly whatever the inner input
/// says about its length, and must forward every hook.
struct ProbeInput<'a> {
	data: &'a [u8],
	pos: usize,
	/// 'x' exact, 'n' none, 'c' constant k, 'p' capped at k
	mode: (char, usize),
	/// reader-like: a failed read consumes what was left
	short: bool,
	log: Vec<String>,
}
impl Input for ProbeInput<'_> {
	fn remaining_len(&mut self) -> Result<Option<usize>, parity_scale_codec::Error> {
		let left = self.data.len() - self.pos;
		Ok(match self.mode.0 {
			'x' => Some(left),
			'n' => None,
			'c' => Some(self.mode.1),
			_ => Some(left.min(self.mode.1)),
		})
	}
	fn read(&mut self, into: &mut [u8]) -> Result<(), parity_scale_codec::Error> {
		if into.len() > self.data.len() - self.pos {
			if self.short {
				self.pos = self.data.len();
			}
			return Err("eof".into());
		}
		into.copy_from_slice(&self.data[self.pos..self.pos + into.len()]);
		self.pos += into.len();
		Ok(())
	}
	fn descend_ref(&mut self) -> Result<(), parity_scale_codec::Error> {
		self.log.push("d".into());
		Ok(())
	}
	fn ascend_ref(&mut self) {
		self.log.push("a".into());
	}
	fn on_before_alloc_mem(&mut self, size: usize) -> Result<(), parity_scale_codec::Error> {
		self.log.push(format!("m{}", size));
		Ok(())
	}
}

fn gen_probe_ops(rng: &mut Rng, remaining: usize) -> Vec<String> {
	let n = 1 + rng.below(14) as usize;
	let mut rem = remaining;
	(0..n)
		.map(|_| match rng.below(10) {
			0..=3 => {
				let k = match rng.below(5) {
					0 => 0,
					1 => 1,
					2 => rem,
					3 => rem + 1 + rng.below(3) as usize,
					_ => rng.below(rem as u64 + 1) as usize,
				};
				if k <= rem {
					rem -= k;
				}
				format!("r{}", k)
			},
			4..=5 => {
				rem = rem.saturating_sub(1);
				"b".to_string()
			},
			6 => "l".to_string(),
			7 => "d".to_string(),
			8 => "a".to_string(),
			_ => format!("m{}", match rng.below(4) { 0 => 0, 1 => usize::MAX, _ => rng.below(5000) as usize }),
		})
		.collect()
}

fn probe_ops_case(ctx: &mut Ctx, rng: &mut Rng) {
	let len = rng.below(40) as usize;
	let data: Vec<u8> = (0..len).map(|_| rng.below(256) as u8).collect();
	let ops = gen_probe_ops(rng, len);
	let k = match rng.below(4) {
		0 => 0,
		1 => len,
		2 => len + 1 + rng.below(1000) as usize,
		_ => rng.below(len as u64 + 1) as usize,
	};
	let mode = [('x', 0), ('n', 0), ('c', k), ('p', k)][rng.below(4) as usize];
	let short = rng.chance(1, 2);
	let mode_s = if mode.0 == 'x' || mode.0 == 'n' { mode.0.to_string() } else { format!("{}{}", mode.0, mode.1) };
	let short_s = if short { "s" } else { "f" };
	{
		let mut probe = ProbeInput { data: &data, pos: 0, mode, short, log: vec![] };
		let mut out = vec![];
		{
			let mut ci = CountedInput::new(&mut probe);
			for op in &ops {
				let r = apply_op(&mut ci, op);
				out.push(format!("{}:{}", r, ci.count()));
			}
			let c = ci.count();
			drop(ci);
			// oracle (C19): the count is the number of bytes the wrapped input delivered, whatever it
			// reports about its remaining length (a failed reader-like read delivers nothing it reports)
			let delivered: usize = ops.iter().zip(out.iter()).map(|(op, o)| if o.starts_with('k') { if op == "b" { 1 } else if op.starts_with('r') { op[1..].parse::<usize>().unwrap() } else { 0 } } else { 0 }).sum();
			if c != delivered as u64 {
				ctx.oracle_fail("C19", format!("CountedInput over an inner input with remaining_len mode {}: count() = {} but {} bytes were delivered after ops {:?} on {}", mode_s, c, delivered, ops, hex_or_dash(&data)));
			}
		}
		let ans = format!("{} | {} {}", out.join(" "), probe.data.len() - probe.pos, probe.log.join(","));
		ctx.emit("countops2", "CountedInput<Probe>", &format!("cops2 {} {} {} {}", mode_s, short_s, hex_or_dash(&data), ops.join(" ")), &ans);
	}
	{
		let limit = match rng.below(5) {
			0 => 0,
			1 => usize::MAX,
			2 => 1,
			_ => rng.below(10000) as usize,
		};
		let mut probe = ProbeInput { data: &data, pos: 0, mode, short, log: vec![] };
		let mut out = vec![];
		{
			let mut mi = MemTrackingInput::new(&mut probe, limit);
			for op in &ops {
				let r = apply_op(&mut mi, op);
				out.push(format!("{}:{}", r, mi.used_mem()));
			}
		}
		let ans = format!("{} | {} {}", out.join(" "), probe.data.len() - probe.pos, probe.log.join(","));
		ctx.emit("memops2", "MemTrackingInput<Probe>", &format!("mops2 {} {} {} {} {}", limit, mode_s, short_s, hex_or_dash(&data), ops.join(" ")), &ans);
	}
}

/// CountedInput over MemTrackingInput (small limits) over the probe: a refused announcement must
/// not change how later reads are counted. And single reads larger than 16 KiB over data that
/// covers only part of them.
fn probe_refusal_case(ctx: &mut Ctx, rng: &mut Rng) {
	let len = rng.below(40) as usize;
	let data: Vec<u8> = (0..len).map(|_| rng.below(256) as u8).collect();
	let ops = gen_probe_ops(rng, len);
	let limit = [0usize, 1, 100, 3000, 6000][rng.below(5) as usize];
	let mut probe = ProbeInput { data: &data, pos: 0, mode: ('x', 0), short: false, log: vec![] };
	let mut out = vec![];
	{
		let mut mi = MemTrackingInput::new(&mut probe, limit);
		let mut ci = CountedInput::new(&mut mi);
		for op in &ops {
			let r = apply_op(&mut ci, op);
			out.push(format!("{}:{}", r, ci.count()));
		}
	}
	// oracle (C19): the count is the position of the wrapped input, refusals or not
	if let Some(last) = out.last() {
		let c: usize = last.rsplit(':').next().unwrap().parse().unwrap();
		if c != probe.pos {
			ctx.oracle_fail("C19", format!("CountedInput over a memory-limited input (limit {}): count() = {} but the input delivered {} bytes after ops {:?}", limit, c, probe.pos, ops));
		}
	}
	let ans = format!("{} | {} {}", out.join(" "), probe.data.len() - probe.pos, probe.log.join(","));
	ctx.emit("countops3", "CountedInput<MemTrackingInput<Probe>>", &format!("cops3 {} {} {}", limit, hex_or_dash(&data), ops.join(" ")), &ans);
}

fn probe_big_reads(ctx: &mut Ctx) {
	for (have, ask) in [(20000usize, 30000usize), (16384, 16385), (16383, 20000), (40000, 32768), (40000, 32769), (33000, 32769), (50000, 50000)] {
		let data: Vec<u8> = (0..have).map(|i| (i * 13 % 251) as u8).collect();
		for short in [false, true] {
			let mut probe = ProbeInput { data: &data, pos: 0, mode: ('x', 0), short, log: vec![] };
			let (ok, c) = {
				let mut ci = CountedInput::new(&mut probe);
				let mut buf = vec![0u8; ask];
				let ok = ci.read(&mut buf).is_ok();
				let _ = ci.read_byte();
				(ok, ci.count())
			};
			let expect: u64 = if ask <= have { ask as u64 + if have > ask { 1 } else { 0 } } else if short { 0 } else { 1 };
			if ok != (ask <= have) || c != expect {
				ctx.oracle_fail("C19", format!("CountedInput: one read of {} bytes over an input holding {} ({}), then read_byte: ok={} count()={} expected count {}", ask, have, if short { "reader-like" } else { "slice-like" }, ok, c, expect));
			}
			ctx.count("countops:big-reads", 1);
		}
	}
}

/// An endless source of zero bytes that never touches the buffer (so a lazily mapped, zeroed
/// buffer of several GiB costs address space only), counting what it delivered; and an input that
/// panics on its k-th call.
struct ZeroSource {
	delivered: u64,
}
impl Input for ZeroSource {
	fn remaining_len(&mut self) -> Result<Option<usize>, parity_scale_codec::Error> {
		Ok(None)
	}
	fn read(&mut self, into: &mut [u8]) -> Result<(), parity_scale_codec::Error> {
		self.delivered += into.len() as u64;
		Ok(())
	}
}
struct DyingInput<'a> {
	data: &'a [u8],
	pos: usize,
	calls_left: usize,
}
impl Input for DyingInput<'_> {
	fn remaining_len(&mut self) -> Result<Option<usize>, parity_scale_codec::Error> {
		Ok(Some(self.data.len() - self.pos))
	}
	fn read(&mut self, into: &mut [u8]) -> Result<(), parity_scale_codec::Error> {
		if self.calls_left == 0 {
			panic!("the wrapped input dies");
		}
		self.calls_left -= 1;
		if into.len() > self.data.len() - self.pos {
			return Err("eof".into());
		}
		into.copy_from_slice(&self.data[self.pos..self.pos + into.len()]);
		self.pos += into.len();
		Ok(())
	}
}

fn count_extremes(ctx: &mut Ctx) {
	// one read wider than u32::MAX bytes (64-bit targets): counted exactly, then the session goes on
	#[cfg(target_pointer_width = "64")]
	{
		let n: usize = (1usize << 32) + 13;
		let r = catch_unwind(AssertUnwindSafe(|| {
			let mut buf: Vec<u8> = vec![0u8; n];
			let mut z = ZeroSource { delivered: 0 };
			let mut ci = CountedInput::new(&mut z);
			let ok = ci.read(&mut buf[..]).is_ok();
			let c1 = ci.count();
			let _ = ci.read_byte();
			let mut four = [0u8; 4];
			let _ = ci.read(&mut four);
			let c2 = ci.count();
			(ok, c1, c2, z.delivered)
		}));
		match r {
			Ok((true, c1, c2, delivered)) if c1 == n as u64 && c2 == n as u64 + 5 && delivered == c2 => {},
			other => ctx.oracle_fail("C19", format!("CountedInput: one read of 2^32 + 13 bytes, then 1 + 4 more: (ok, count after the read, count at the end, delivered) = {:?}", other.ok())),
		}
		ctx.count("countops:wide-read", 1);
	}
	// a growing input (a socket buffer): found empty by a read, refilled, read again through the SAME
	// counting wrapper - the count follows what it delivered
	{
		use std::cell::RefCell;
		use std::rc::Rc;
		struct Growing {
			data: Rc<RefCell<Vec<u8>>>,
			pos: usize,
		}
		impl Input for Growing {
			fn remaining_len(&mut self) -> Result<Option<usize>, parity_scale_codec::Error> {
				Ok(Some(self.data.borrow().len() - self.pos))
			}
			fn read(&mut self, into: &mut [u8]) -> Result<(), parity_scale_codec::Error> {
				let d = self.data.borrow();
				if into.len() > d.len() - self.pos {
					return Err("nothing there yet".into());
				}
				into.copy_from_slice(&d[self.pos..self.pos + into.len()]);
				self.pos += into.len();
				Ok(())
			}
		}
		for probe_wide in [false, true] {
			let shared = Rc::new(RefCell::new(vec![1u8, 2, 3]));
			let mut gi = Growing { data: shared.clone(), pos: 0 };
			let (ok, counts) = {
				let mut ci = CountedInput::new(&mut gi);
				let mut three = [0u8; 3];
				let r1 = ci.read(&mut three).is_ok();
				let r2 = if probe_wide {
					let mut two = [0u8; 2];
					ci.read(&mut two).is_ok()
				} else {
					ci.read_byte().is_ok()
				};
				let c1 = ci.count();
				shared.borrow_mut().extend_from_slice(&[4, 5, 6, 7, 8, 9]);
				let r3 = ci.read_byte().is_ok();
				let mut four = [0u8; 4];
				let r4 = ci.read(&mut four).is_ok();
				((r1, r2, r3, r4), (c1, ci.count()))
			};
			if ok != (true, false, true, true) || counts != (3, 8) || gi.pos != 8 {
				ctx.oracle_fail("C19", format!("CountedInput over an input that is found empty ({}), refilled and read again: results {:?}, counts {:?}, delivered {}", if probe_wide { "by a 2-byte read" } else { "by read_byte" }, ok, counts, gi.pos));
			}
		}
		ctx.count("countops:refilled-input", 2);
	}
	// the wrapped input panics inside `read` on its k-th call; the unwind is caught and the count
	// read afterwards: still the bytes delivered
	let data: Vec<u8> = (0..40u8).collect();
	for k in 0..6usize {
		let r = catch_unwind(AssertUnwindSafe(|| {
			let mut d = DyingInput { data: &data, pos: 0, calls_left: k };
			let mut ci = CountedInput::new(&mut d);
			let died = catch_unwind(AssertUnwindSafe(|| <(u32, u16, u64, [u8; 5], u8, u128)>::decode(&mut ci).is_ok())).is_err();
			let c = ci.count();
			(died, c, d.pos as u64)
		}));
		match r {
			Ok((_, c, delivered)) if c == delivered => {},
			other => ctx.oracle_fail("C19", format!("CountedInput over an input that panics on call {}: (died, count(), delivered) = {:?}", k + 1, other.ok())),
		}
		ctx.count("countops:dying-input", 1);
	}
}

fn wrapops_stream(ctx: &mut Ctx) {
	count_extremes(ctx);
	let mut rng = Rng::new(ctx.seed ^ 0x0B5);
	probe_big_reads(ctx);
	{
		let mut prng = Rng::new(ctx.seed ^ 0x9B0C);
		let n = if ctx.tier_thorough { 20_000 } else { 2_000 };
		for _ in 0..n {
			probe_refusal_case(ctx, &mut prng);
		}
	}
	{
		let mut prng = Rng::new(ctx.seed ^ 0x9B0B);
		let n = if ctx.tier_thorough { 40_000 } else { 4_000 };
		for _ in 0..n {
			probe_ops_case(ctx, &mut prng);
		}
	}
	let n = if ctx.tier_thorough { 40_000 } else { 4_000 };
	for _ in 0..n {
		let len = rng.below(40) as usize;
		let data: Vec<u8> = (0..len).map(|_| rng.below(256) as u8).collect();
		let ops = gen_ops(&mut rng, len);
		// CountedInput over a slice
		{
			let mut s = &data[..];
			let mut ci = CountedInput::new(&mut s);
			let mut out = vec![];
			let mut consumed_before = 0usize;
			let mut bad = None;
			for op in &ops {
				let r = apply_op(&mut ci, op);
				out.push(format!("{}:{}", r, ci.count()));
				let _ = consumed_before;
				consumed_before = 0;
				if r == "skip" {
					bad = Some(op.clone());
				}
			}
			let c = ci.count();
			// oracle (C19): count == bytes delivered by the slice, for any operation sequence
			if c != (data.len() - s.len()) as u64 {
				ctx.oracle_fail("C19", format!("CountedInput: count() = {} but the slice delivered {} bytes after ops {:?} on {}", c, data.len() - s.len(), ops, hex_or_dash(&data)));
			}
			if bad.is_none() {
				ctx.emit("countops", "CountedInput<&[u8]>", &format!("cops {} {}", hex_or_dash(&data), ops.join(" ")), &out.join(" "));
			}
		}
		// MemTrackingInput over a slice
		{
			let limit = match rng.below(6) {
				0 => 0,
				1 => usize::MAX,
				2 => 1,
				3 => usize::MAX - 1,
				_ => rng.below(10000) as usize,
			};
			let mut s = &data[..];
			let mut mi = MemTrackingInput::new(&mut s, limit);
			let mut out = vec![];
			let mut skip = false;
			for op in &ops {
				let r = apply_op(&mut mi, op);
				if r == "skip" {
					skip = true;
				}
				out.push(format!("{}:{}", r, mi.used_mem()));
			}
			if !skip {
				ctx.emit("memops", "MemTrackingInput<&[u8]>", &format!("mops {} {} {}", limit, hex_or_dash(&data), ops.join(" ")), &out.join(" "));
			}
		}
	}
}

// ---------------------------------------------------------------------------------------------
// MaxEncodedLen / ConstEncodedLen (C13)
// ---------------------------------------------------------------------------------------------

pub fn run_mel_type<T: Cat>(ctx: &mut Ctx, name: &'static str, o: &TypeOpts, mel: Option<usize>, cel: bool) {
	let ty = T::ty(4);
	if let Some(m) = mel {
		ctx.emit("mel", name, &format!("mel {}", ty), &format!("{}", m));
	}
	if cel {
		ctx.emit("cel", name, &format!("cel {}", ty), "yes");
	}
	let m = match mel {
		Some(m) => m,
		None => return,
	};
	let tyseed = name.bytes().fold(ctx.seed, |a, b| a.wrapping_mul(31).wrapping_add(b as u64));
	let mut g = G::new(tyseed ^ 0x3E1, o.budget);
	let n = if ctx.tier_thorough { 3000 } else { 300 };
	let mut longest = 0usize;
	for _ in 0..n {
		g.budget = o.budget;
		let v = T::gen(&mut g);
		let l = v.encode().len();
		longest = longest.max(l);
		// oracles (C13): no value exceeds the declared maximum; CEL types always hit it exactly
		if l > m {
			ctx.oracle_fail("C13", format!("{}: max_encoded_len() = {} but {} encodes to {} bytes", name, m, val_string(&v, false), l));
		}
		if cel && l != m {
			ctx.oracle_fail("C13", format!("{}: marked ConstEncodedLen with max_encoded_len() = {} but {} encodes to {} bytes", name, m, val_string(&v, false), l));
		}
	}
	ctx.count("mel:types", 1);
	if longest == m {
		ctx.count("mel:types-where-maximum-was-attained", 1);
	}
}

// ---------------------------------------------------------------------------------------------
// Entry points and sinks (C07)
// ---------------------------------------------------------------------------------------------

/// An `io::Write` that accepts only 1..=7 bytes per `write` call (exercises `write_all`).
#[cfg(feature = "codec-std")]
struct Dribble {
	out: Vec<u8>,
	rng: Rng,
}
#[cfg(feature = "codec-std")]
impl std::io::Write for Dribble {
	fn write(&mut self, buf: &[u8]) -> std::io::Result<usize> {
		let n = (1 + self.rng.below(7) as usize).min(buf.len());
		self.out.extend_from_slice(&buf[..n]);
		Ok(n)
	}
	fn flush(&mut self) -> std::io::Result<()> {
		Ok(())
	}
}

pub fn sinks_case<T: Encode + ?Sized>(ctx: &mut Ctx, name: &str, v: &T, req: &str, seed: u64) {
	let r = catch_unwind(AssertUnwindSafe(|| {
		let a = v.encode();
		let mut b = Vec::new();
		v.encode_to(&mut b);
		#[cfg(feature = "codec-std")]
		let d_out = {
			let mut d = Dribble { out: vec![], rng: Rng::new(seed) };
			v.encode_to(&mut d);
			d.out
		};
		#[cfg(not(feature = "codec-std"))]
		let d_out = {
			let _ = seed;
			let mut d: Vec<u8> = Vec::new();
			v.encode_to(&mut d);
			d
		};
		let mut e: Vec<u8> = Vec::new();
		{
			let dynout: &mut dyn parity_scale_codec::Output = &mut e;
			v.encode_to(dynout);
		}
		let u = v.using_encoded(|s| s.to_vec());
		let n = v.encoded_size();
		(a, b, d_out, e, u, n)
	}));
	// `using_encoded` hands out a borrowed view: it must be the same bytes when the previous
	// callback unwound (a panic caught by the caller), and when it is re-entered from inside a
	// callback (hashers and storage keys do both)
	{
		let r2 = catch_unwind(AssertUnwindSafe(|| {
			let _ = catch_unwind(AssertUnwindSafe(|| v.using_encoded(|_| -> () { panic!("callback panics") })));
			let after_panic = v.using_encoded(|s| s.to_vec());
			let nested = v.using_encoded(|outer| {
				let inner = v.using_encoded(|s| s.to_vec());
				let s2 = "x".using_encoded(|s| s.to_vec());
				let k = parity_scale_codec::KeyedVec::to_keyed_vec(&7u8, outer);
				(outer.to_vec(), inner, s2, k)
			});
			(after_panic, nested, v.encode())
		}));
		match r2 {
			Ok((after_panic, (outer, inner, s2, k), a)) => {
				let mut want_k = a.clone();
				want_k.push(7);
				if after_panic != a || outer != a || inner != a || s2 != vec![4u8, b'x'] || k != want_k {
					let msg = format!("{}: using_encoded after an unwinding callback gives {}, re-entered gives {} / {}, expected {}", name, hex_or_dash(&after_panic), hex_or_dash(&outer), hex_or_dash(&inner), hex_or_dash(&a));
					ctx.oracle_fail("C07", msg.clone());
					ctx.oracle_fail("C06", msg.clone());
					ctx.oracle_fail("C01", msg);
				}
			},
			Err(_) => {
				let msg = format!("{}: using_encoded panics when re-entered from its own callback or after a callback that unwound", name);
				ctx.oracle_fail("C07", msg.clone());
				ctx.oracle_fail("C06", msg.clone());
				ctx.oracle_fail("C01", msg);
			},
		}
	}
	match r {
		Ok((a, b, d, e, u, n)) => {
			// oracle (C07): all entry points and sinks describe the same byte string
			if a != b || a != d || a != e || a != u || a.len() != n {
				ctx.oracle_fail("C07", format!("{}: entry points disagree: encode={} encode_to(Vec)={} encode_to(io::Write)={} encode_to(dyn Output)={} using_encoded={} encoded_size={}",
					name, hex_or_dash(&a), hex_or_dash(&b), hex_or_dash(&d), hex_or_dash(&e), hex_or_dash(&u), n));
			}
			ctx.emit("sinks", name, req, &format!("{} {} {}", hex_or_dash(&a), hex_or_dash(&u), n));
		},
		Err(_) => ctx.emit("sinks", name, req, "panic"),
	}
}

/// Values in `#[codec(skip)]` variants encode to nothing through every entry point - alone and as a
/// field of a derived struct, a tuple, a vector.
pub fn skipped_variant_sinks(ctx: &mut Ctx) {
	use crate::derived::{HoldsSkippable, Mixed, TrailingCommaE};
	macro_rules! all_agree { ($v:expr, $label:expr) => {{
		let v = &$v;
		let r = catch_unwind(AssertUnwindSafe(|| {
			let a = v.encode();
			let mut b = Vec::new();
			v.encode_to(&mut b);
			(a, b, v.using_encoded(|s| s.to_vec()), v.encoded_size(), v.size_hint())
		}));
		match r {
			Ok((a, b, u, n, _)) if a == b && a == u && a.len() == n => Some(a),
			other => {
				ctx.oracle_fail("C07", format!("{}: entry points disagree on a value holding a skipped variant: {:?}", $label, other.ok().map(|(a, b, u, n, _)| (a.len(), b.len(), u.len(), n))));
				None
			},
		}
	}}; }
	let e0 = all_agree!(Mixed::Hidden(3), "Mixed::Hidden");
	if e0.as_deref() != Some(&[][..]) {
		ctx.oracle_fail("C05", format!("Mixed::Hidden (a skipped variant) encodes to {:?}", e0));
	}
	let _ = all_agree!(TrailingCommaE::B, "TrailingCommaE::B");
	let h = all_agree!(HoldsSkippable { a: 1, e: Mixed::Hidden(9), b: 0x0302 }, "HoldsSkippable { e: Mixed::Hidden }");
	if h.as_deref() != Some(&[1u8, 2, 3][..]) {
		ctx.oracle_fail("C05", format!("a derived struct holding a skipped variant between 01 and 0203 encodes to {:?}", h));
	}
	let _ = all_agree!(HoldsSkippable { a: 1, e: Mixed::B(7), b: 5 }, "HoldsSkippable { e: Mixed::B }");
	let _ = all_agree!((Mixed::Hidden(1), 7u8, TrailingCommaE::B), "(Mixed::Hidden, 7, TrailingCommaE::B)");
	let _ = all_agree!(vec![Mixed::A, Mixed::Hidden(2), Mixed::D], "vec![A, Hidden, D]");
	let _ = all_agree!(Some(Mixed::Hidden(2)), "Some(Mixed::Hidden)");
	let _ = all_agree!(Box::new(HoldsSkippable { a: 9, e: Mixed::Hidden(0), b: 1 }), "Box<HoldsSkippable>");
	ctx.count("sinks:skipped-variant-values", 8);
}

fn bulk_lengths<T>(thorough: bool) -> Vec<usize> {
	let sz = core::mem::size_of::<T>().max(1);
	let c = 16384 / sz;
	let mut v = vec![0, 1, 2, 3, 17, c - 1, c, c + 1, 2 * c + 1];
	if thorough {
		v.extend((0..64).map(|i| i * 97 % (3 * c + 2)));
		v.extend_from_slice(&[2 * c - 1, 2 * c, 3 * c - 1, 3 * c, 3 * c + 1]);
	}
	v
}

fn bulk_for<T: Cat + Clone + DecodeAll + DecodeLimit>(ctx: &mut Ctx, name: &'static str) {
	use crate::derived::Twin;
	use std::collections::VecDeque;
	let mut g = G::new(ctx.seed ^ 0xB01C ^ name.len() as u64, 4);
	for n in bulk_lengths::<T>(ctx.tier_thorough) {
		let xs: Vec<T> = (0..n).map(|_| T::gen(&mut g)).collect();
		let tw: Vec<Twin<T>> = xs.iter().cloned().map(Twin).collect();
		// a wrapped deque: rotate so that the contents straddle the end of the ring buffer
		let mut dq: VecDeque<T> = VecDeque::with_capacity(n + 3);
		for x in xs.iter().rev().take(n / 2) {
			dq.push_front(x.clone());
		}
		for x in xs.iter().take(n - n / 2) {
			dq.push_back(x.clone());
		}
		// a wrapped deque with a SHORT first slice and a long second one, and the other way round
		for front in [1usize, 3] {
			if n > front + 2 {
				let mut d2: VecDeque<T> = VecDeque::with_capacity(n + 1);
				for x in xs.iter().skip(front) {
					d2.push_back(x.clone());
				}
				for x in xs.iter().take(front).rev() {
					d2.push_front(x.clone());
				}
				let logical: Vec<T> = d2.iter().cloned().collect();
				// ... also when written piecemeal into an `io::Write` that takes a few bytes per call,
				// through `dyn Output`, and through `using_encoded`
				#[cfg(feature = "codec-std")]
				{
					let mut dr = Dribble { out: vec![], rng: Rng::new(n as u64 ^ front as u64) };
					d2.encode_to(&mut dr);
					let mut e: Vec<u8> = Vec::new();
					{
						let dynout: &mut dyn parity_scale_codec::Output = &mut e;
						d2.encode_to(dynout);
					}
					let mut bw = std::io::BufWriter::with_capacity(5, Dribble { out: vec![], rng: Rng::new(7) });
					d2.encode_to(&mut bw);
					let via_buf = bw.into_inner().map(|d| d.out).unwrap_or_default();
					let want = logical.encode();
					if dr.out != want || e != want || via_buf != want || d2.using_encoded(|b| b.to_vec()) != want || d2.encoded_size() != want.len() {
						let msg = format!("{}: VecDeque of {} elements split {}+{} over the ring buffer: encode_to into a short-writing io::Write gives {} bytes, via BufWriter {} bytes, dyn Output {} bytes; its contents encode to {} bytes", name, n, d2.as_slices().0.len(), d2.as_slices().1.len(), dr.out.len(), via_buf.len(), e.len(), want.len());
						ctx.oracle_fail("C07", msg.clone());
						ctx.oracle_fail("C06", msg);
					}
				}
				if d2.encode() != logical.encode() {
					let msg = format!("{}: VecDeque of {} elements split {}+{} over the ring buffer does not encode like its contents", name, n, d2.as_slices().0.len(), d2.as_slices().1.len());
					ctx.oracle_fail("C07", msg.clone());
					ctx.oracle_fail("C06", msg);
				}
				let mut d3: VecDeque<T> = VecDeque::with_capacity(n + 1);
				for x in xs.iter().take(n - front) {
					d3.push_back(x.clone());
				}
				for _ in 0..front {
					let x = d3.pop_front().unwrap();
					d3.push_back(x);
				}
				let logical: Vec<T> = d3.iter().cloned().collect();
				if d3.encode() != logical.encode() {
					let msg = format!("{}: VecDeque of {} elements split {}+{} over the ring buffer does not encode like its contents", name, n - front, d3.as_slices().0.len(), d3.as_slices().1.len());
					ctx.oracle_fail("C07", msg.clone());
					ctx.oracle_fail("C06", msg);
				}
			}
		}
		// logical content of dq = reversed(second-half-from-rev) ++ first (n - n/2) elements
		let dq_logical: Vec<T> = dq.iter().cloned().collect();
		let dq_tw: Vec<Twin<T>> = dq_logical.iter().cloned().map(Twin).collect();
		let e_vec = xs.encode();
		let e_slice = (&xs[..]).encode();
		let e_tw = tw.encode();
		let e_dq = dq.encode();
		let e_dq_tw = dq_tw.encode();
		// oracle (C07): bulk == element-wise
		if e_vec != e_tw || e_slice != e_tw {
			ctx.oracle_fail("C07", format!("{}: bulk encoding of {} elements differs from the element-wise twin", name, n));
		}
		if e_dq != e_dq_tw {
			ctx.oracle_fail("C07", format!("{}: VecDeque (wrapped: {}) encoding of {} elements differs from the element-wise twin", name, dq.as_slices().1.len() > 0, n));
		}
		let seed = g.rng.next();
		sinks_case(ctx, name, &xs, &format!("enc4 {} {}", Vec::<T>::ty(2), val_string(&xs, false)), seed);
		sinks_case(ctx, name, &tw, &format!("enc4 {} {}", Vec::<Twin<T>>::ty(2), val_string(&tw, false)), seed);
		sinks_case(ctx, name, &dq, &format!("enc4 {} {}", VecDeque::<T>::ty(2), val_string(&dq, false)), seed);
		// decoding: the same bytes through the bulk and the element-wise decoder
		let mut bs = e_vec.clone();
		if n % 3 == 1 {
			bs.pop();
		} else if n % 3 == 2 {
			bs.push(0x5a);
		}
		let (a1, d1) = dec_answer::<Vec<T>>(&bs);
		let (a2, d2) = dec_answer::<Vec<Twin<T>>>(&bs);
		ctx.emit("bulk-dec", name, &format!("dec {} {}", Vec::<T>::ty(2), hex_or_dash(&bs)), &a1);
		ctx.emit("bulk-dec", name, &format!("dec {} {}", Vec::<Twin<T>>::ty(2), hex_or_dash(&bs)), &a2);
		let same = match (&d1, &d2) {
			(Some((v1, r1)), Some((v2, r2))) => r1 == r2 && v1.len() == v2.len() && v1.iter().zip(v2.iter()).all(|(a, b)| val_string(a, true) == val_string(&b.0, true)),
			(None, None) => a1 == a2,
			_ => false,
		};
		if !same {
			ctx.oracle_fail("C07", format!("{}: bulk decoding of {} and element-wise decoding disagree: {} vs {}", name, &hex_or_dash(&bs)[..hex_or_dash(&bs).len().min(40)], &a1[..a1.len().min(40)], &a2[..a2.len().min(40)]));
		}
	}
	// arrays: bulk read vs element-wise twin
	macro_rules! arr {
		($n:expr) => {{
			let xs: [T; $n] = core::array::from_fn(|_| T::gen(&mut g));
			let tw: [Twin<T>; $n] = core::array::from_fn(|i| Twin(xs[i].clone()));
			if xs.encode() != tw.encode() {
				ctx.oracle_fail("C07", format!("{}: array [T; {}] bulk encoding differs from the element-wise twin", name, $n));
			}
			let seed = g.rng.next();
			sinks_case(ctx, name, &xs, &format!("enc4 {} {}", <[T; $n]>::ty(2), val_string(&xs, false)), seed);
			let mut bs = xs.encode();
			if $n % 2 == 1 {
				bs.pop();
			}
			let (a1, d1) = dec_answer::<[T; $n]>(&bs);
			let (a2, d2) = dec_answer::<[Twin<T>; $n]>(&bs);
			ctx.emit("bulk-dec", name, &format!("dec {} {}", <[T; $n]>::ty(2), hex_or_dash(&bs)), &a1);
			ctx.emit("bulk-dec", name, &format!("dec {} {}", <[Twin<T>; $n]>::ty(2), hex_or_dash(&bs)), &a2);
			if d1.is_some() != d2.is_some() {
				ctx.oracle_fail("C07", format!("{}: array [T; {}] bulk and element-wise decoding disagree on success", name, $n));
			}
		}};
	}
	arr!(0);
	arr!(1);
	arr!(7);
	arr!(32);
	arr!(33);
}

/// Element types that are one primitive wide but do NOT take the bulk paths because their decoder
/// validates (`bool`, `OptionBool`, `NonZero*`): sequences and arrays of them must decode exactly
/// like their element-wise twins on ANY bytes - in particular on bytes that are not valid elements.
fn bulk_validating<T: Cat + Clone>(ctx: &mut Ctx, name: &'static str) {
	use crate::derived::Twin;
	use std::collections::VecDeque;
	let mut g = G::new(ctx.seed ^ 0xB01D ^ name.len() as u64, 4);
	let rounds = if ctx.tier_thorough { 600 } else { 80 };
	for r in 0..rounds {
		let n = [0usize, 1, 2, 3, 5, 8, 33][r % 7];
		let xs: Vec<T> = (0..n).map(|_| T::gen(&mut g)).collect();
		let mut bs = xs.encode();
		if xs.encode() != xs.iter().cloned().map(Twin).collect::<Vec<_>>().encode() {
			ctx.oracle_fail("C07", format!("Vec<{}>: encoding differs from the element-wise twin", name));
		}
		// damage element bytes (keep the count): every value 0..=255 turns up somewhere
		if r % 2 == 1 && bs.len() > 1 {
			for _ in 0..1 + g.rng.below(3) {
				let i = 1 + g.rng.below(bs.len() as u64 - 1) as usize;
				bs[i] = [0u8, 1, 2, 3, 4, 0x7f, 0x80, 0xff][g.rng.below(8) as usize];
			}
		}
		macro_rules! same {
			($a:ty, $b:ty, $what:expr) => {{
				let (a1, d1) = dec_answer::<$a>(&bs);
				let (a2, d2) = dec_answer::<$b>(&bs);
				ctx.emit("bulk-dec", name, &format!("dec {} {}", <$a>::ty(2), hex_or_dash(&bs)), &a1);
				let same = match (&d1, &d2) {
					(Some((v1, r1)), Some((v2, r2))) => r1 == r2 && val_string(v1, true).replace("L 1 ", "") == val_string(v2, true).replace("L 1 ", ""),
					(None, None) => a1 == a2,
					_ => false,
				};
				if !same {
					ctx.oracle_fail("C07", format!("{} of {}: decoding {} disagrees with the element-wise twin: {} vs {}", $what, name, hex_or_dash(&bs), &a1[..a1.len().min(40)], &a2[..a2.len().min(40)]));
				}
			}};
		}
		same!(Vec<T>, Vec<Twin<T>>, "Vec");
		same!(VecDeque<T>, VecDeque<Twin<T>>, "VecDeque");
		if bs.len() >= 4 {
			let tail = bs[1..].to_vec();
			let bs = tail;
			let (a1, d1) = dec_answer::<[T; 3]>(&bs);
			let (a2, d2) = dec_answer::<[Twin<T>; 3]>(&bs);
			ctx.emit("bulk-dec", name, &format!("dec {} {}", <[T; 3]>::ty(2), hex_or_dash(&bs)), &a1);
			let same = match (&d1, &d2) {
				(Some((v1, r1)), Some((v2, r2))) => r1 == r2 && val_string(v1, true).replace("L 1 ", "") == val_string(v2, true).replace("L 1 ", ""),
				(None, None) => a1 == a2,
				_ => false,
			};
			if !same {
				ctx.oracle_fail("C07", format!("[{}; 3]: decoding {} disagrees with the element-wise twin: {} vs {}", name, hex_or_dash(&bs), &a1[..a1.len().min(40)], &a2[..a2.len().min(40)]));
			}
		}
	}
}

fn bulk_stream(ctx: &mut Ctx) {
	bulk_validating::<bool>(ctx, "bool");
	bulk_validating::<parity_scale_codec::OptionBool>(ctx, "OptionBool");
	bulk_validating::<core::num::NonZeroU8>(ctx, "NonZeroU8");
	bulk_validating::<core::num::NonZeroI8>(ctx, "NonZeroI8");
	bulk_validating::<core::num::NonZeroU32>(ctx, "NonZeroU32");
	bulk_validating::<core::num::NonZeroU64>(ctx, "NonZeroU64");
	bulk_validating::<Option<bool>>(ctx, "Option<bool>");
	bulk_for::<u8>(ctx, "u8");
	bulk_for::<i8>(ctx, "i8");
	bulk_for::<u16>(ctx, "u16");
	bulk_for::<i16>(ctx, "i16");
	bulk_for::<u32>(ctx, "u32");
	bulk_for::<i32>(ctx, "i32");
	bulk_for::<u64>(ctx, "u64");
	bulk_for::<i64>(ctx, "i64");
	bulk_for::<u128>(ctx, "u128");
	bulk_for::<i128>(ctx, "i128");
	bulk_for::<f32>(ctx, "f32");
	bulk_for::<f64>(ctx, "f64");
}

// ---------------------------------------------------------------------------------------------
// The public `decode_vec_with_len` called directly, with any length
// ---------------------------------------------------------------------------------------------

/// Forwards everything and counts the `on_before_alloc_mem` announcements it lets through.
struct HookCount<I> {
	inner: I,
	n: usize,
	total: usize,
}
impl<I: Input> Input for HookCount<I> {
	fn remaining_len(&mut self) -> Result<Option<usize>, parity_scale_codec::Error> {
		self.inner.remaining_len()
	}
	fn read(&mut self, into: &mut [u8]) -> Result<(), parity_scale_codec::Error> {
		self.inner.read(into)
	}
	fn read_byte(&mut self) -> Result<u8, parity_scale_codec::Error> {
		self.inner.read_byte()
	}
	fn descend_ref(&mut self) -> Result<(), parity_scale_codec::Error> {
		self.inner.descend_ref()
	}
	fn ascend_ref(&mut self) {
		self.inner.ascend_ref()
	}
	fn on_before_alloc_mem(&mut self, size: usize) -> Result<(), parity_scale_codec::Error> {
		self.inner.on_before_alloc_mem(size)?;
		self.n += 1;
		self.total = self.total.saturating_add(size);
		Ok(())
	}
}

fn dvl_case<T: Cat>(ctx: &mut Ctx, name: &str, len: usize, bs: &[u8]) {
	use parity_scale_codec::decode_vec_with_len;
	for kind in ["slice", "io"] {
		let (r, m) = crate::alloc::measure(|| {
			catch_unwind(AssertUnwindSafe(|| {
				if kind == "slice" {
					let mut i = HookCount { inner: &bs[..], n: 0, total: 0 };
					let r = decode_vec_with_len::<T, _>(&mut i, len);
					(r, i.inner.len(), i.n, i.total)
				} else {
					let mut i = HookCount { inner: UnknownLenInput { data: bs, pos: 0 }, n: 0, total: 0 };
					let r = decode_vec_with_len::<T, _>(&mut i, len);
					(r, bs.len() - i.inner.pos, i.n, i.total)
				}
			}))
		});
		// oracle (C09): whatever `len` says, what is requested is bounded by the bytes supplied
		let bound = PREALLOC.max(MEM_PER_INPUT_BYTE * bs.len()) + SLACK;
		if m.max_request > bound || m.peak_live > PREALLOC + MEM_PER_INPUT_BYTE * bs.len() + SLACK {
			ctx.oracle_fail("C09", format!("decode_vec_with_len::<{}>(.., {}) over a {} of {} bytes: largest request {} bytes, peak {} live bytes", name, len, kind, bs.len(), m.max_request, m.peak_live));
		}
		let ans = match r {
			Ok((Ok(v), rem, n, total)) => {
				if v.len() != len {
					ctx.oracle_fail("C03", format!("decode_vec_with_len::<{}>(.., {}) returned {} elements", name, len, v.len()));
				}
				format!("ok {} {} hooks={}/{}", val_string(&v, true), rem, n, total)
			},
			Ok((Err(_), ..)) => "err".into(),
			Err(_) => "panic".into(),
		};
		ctx.emit("dvl", name, &format!("dvl {} {} {} {}", kind, len, <Vec<T>>::ty(4), hex_or_dash(bs)), &ans);
	}
}

fn dvl_for<T: Cat>(ctx: &mut Ctx, name: &'static str, bulk: bool) {
	let mut g = G::new(ctx.seed ^ 0xD71 ^ (name.len() as u64) << 8, 3);
	let sz = core::mem::size_of::<T>().max(1);
	let c = 16384 / sz;
	// lengths that match the data, and lengths that do not
	let mut lens = vec![0usize, 1, 2, 5, c - 1, c, c + 1, 2 * c, 2 * c + 1];
	if ctx.tier_thorough {
		lens.extend_from_slice(&[3 * c - 1, 3 * c + 7, 4 * c]);
	}
	for &n in &lens {
		let n = if bulk { n } else { n.min(3000) };
		let mut bs = vec![];
		for _ in 0..n {
			T::gen(&mut g).encode_to(&mut bs);
		}
		dvl_case::<T>(ctx, name, n, &bs);
		// one element more than the data holds, one fewer, data cut in the last element / chunk
		dvl_case::<T>(ctx, name, n + 1, &bs);
		if n > 0 {
			dvl_case::<T>(ctx, name, n - 1, &bs);
			if !bs.is_empty() {
				dvl_case::<T>(ctx, name, n, &bs[..bs.len() - 1]);
			}
			if bs.len() > 16384 {
				dvl_case::<T>(ctx, name, n, &bs[..16384]);
				dvl_case::<T>(ctx, name, n, &bs[..16385]);
			}
		}
	}
	// lengths no `Compact<u32>` prefix can announce: the byte count overflows, or nearly does
	if bulk || T::min_len() > 0 {
		let data: Vec<u8> = (0..64u8).collect();
		let m = usize::MAX / sz;
		for len in [u32::MAX as usize, u32::MAX as usize + 1, 1usize << 40, m - 1, m, m.saturating_add(1), usize::MAX / 2 + 1, usize::MAX - 1, usize::MAX] {
			if !bulk && len > (1 << 33) {
				// element by element: the model would iterate; the bulk types decide this up front
				continue;
			}
			dvl_case::<T>(ctx, name, len, &data);
		}
	}
}

fn dvl_stream(ctx: &mut Ctx) {
	dvl_for::<u8>(ctx, "u8", true);
	dvl_for::<i8>(ctx, "i8", true);
	dvl_for::<u16>(ctx, "u16", true);
	dvl_for::<i16>(ctx, "i16", true);
	dvl_for::<u32>(ctx, "u32", true);
	dvl_for::<i32>(ctx, "i32", true);
	dvl_for::<u64>(ctx, "u64", true);
	dvl_for::<i64>(ctx, "i64", true);
	dvl_for::<u128>(ctx, "u128", true);
	dvl_for::<i128>(ctx, "i128", true);
	dvl_for::<f32>(ctx, "f32", true);
	dvl_for::<f64>(ctx, "f64", true);
	dvl_for::<bool>(ctx, "bool", false);
	dvl_for::<Option<u8>>(ctx, "Option<u8>", false);
	dvl_for::<parity_scale_codec::Compact<u32>>(ctx, "Compact<u32>", false);
	dvl_for::<(u8, u16)>(ctx, "(u8,u16)", false);
	dvl_for::<[u8; 3]>(ctx, "[u8;3]", false);
	dvl_for::<Vec<u8>>(ctx, "Vec<u8>", false);
	dvl_for::<String>(ctx, "String", false);
	dvl_for::<Box<u32>>(ctx, "Box<u32>", false);
	dvl_for::<()>(ctx, "()", false);
	dvl_for::<crate::derived::TransCompact>(ctx, "TransCompact", false);
}

// ---------------------------------------------------------------------------------------------
// Memory requested while decoding (C09)
// ---------------------------------------------------------------------------------------------

/// Bytes of memory tolerated per input byte (largest `size_of` element per smallest encoding among
/// the catalogue's element types is 40:1; std's growth and realloc overlap need some room).
const MEM_PER_INPUT_BYTE: usize = 192;
/// Fixed allowance per nesting level tolerated by the oracle (the crate's MAX_PREALLOCATION is
/// 16 KiB; the property only demands that the allowance be fixed).
const PREALLOC: usize = 64 * 1024;
const SLACK: usize = 8 * 1024;

/// Derived catalogue types that hold an `Rc`/`Arc`/tree/shared buffer in a field (their descriptor
/// says `box`/`tuple` only): compared by the bounds, not request by request.
const REQS_INEXACT: [&str; 2] = ["UNode", "SharedNode"];

/// A reader that reports `ErrorKind::Interrupted` on every other call and delivers 1..=2 bytes otherwise.
#[cfg(feature = "codec-std")]
pub struct InterruptedRd<'a> {
	pub data: &'a [u8],
	pub pos: usize,
	pub calls: usize,
}
#[cfg(feature = "codec-std")]
impl std::io::Read for InterruptedRd<'_> {
	fn read(&mut self, buf: &mut [u8]) -> std::io::Result<usize> {
		self.calls += 1;
		if self.calls % 2 == 1 {
			return Err(std::io::Error::new(std::io::ErrorKind::Interrupted, "signal"));
		}
		let n = (1 + self.calls / 2 % 2).min(buf.len()).min(self.data.len() - self.pos);
		buf[..n].copy_from_slice(&self.data[self.pos..self.pos + n]);
		self.pos += n;
		Ok(n)
	}
}

/// An input whose `remaining_len` fails (mode 0) or over-reports (1: `usize::MAX / 2`, 2: 1 MiB too much).
struct LyingLenInput<'a> {
	data: &'a [u8],
	pos: usize,
	mode: u8,
}
impl Input for LyingLenInput<'_> {
	fn remaining_len(&mut self) -> Result<Option<usize>, parity_scale_codec::Error> {
		match self.mode {
			0 => Err("length unknown right now".into()),
			1 => Ok(Some(usize::MAX / 2)),
			_ => Ok(Some(self.data.len() - self.pos + (1 << 20))),
		}
	}
	fn read(&mut self, into: &mut [u8]) -> Result<(), parity_scale_codec::Error> {
		if into.len() > self.data.len() - self.pos {
			return Err("eof".into());
		}
		into.copy_from_slice(&self.data[self.pos..self.pos + into.len()]);
		self.pos += into.len();
		Ok(())
	}
}

struct UnknownLenInput<'a> {
	data: &'a [u8],
	pos: usize,
}
impl Input for UnknownLenInput<'_> {
	fn remaining_len(&mut self) -> Result<Option<usize>, parity_scale_codec::Error> {
		Ok(None)
	}
	fn read(&mut self, into: &mut [u8]) -> Result<(), parity_scale_codec::Error> {
		if into.len() > self.data.len() - self.pos {
			return Err("eof".into());
		}
		into.copy_from_slice(&self.data[self.pos..self.pos + into.len()]);
		self.pos += into.len();
		Ok(())
	}
}

thread_local! {
	static ZST_INPUT: std::cell::RefCell<(Vec<u8>, usize)> = std::cell::RefCell::new((vec![], 0));
}
/// An `Input` of size zero (its data lives in a thread-local): nothing in the decoder may depend
/// on `size_of` of the input type.
struct ZstInput;
impl Input for ZstInput {
	fn remaining_len(&mut self) -> Result<Option<usize>, parity_scale_codec::Error> {
		Ok(None)
	}
	fn read(&mut self, into: &mut [u8]) -> Result<(), parity_scale_codec::Error> {
		ZST_INPUT.with(|c| {
			let mut c = c.borrow_mut();
			let (data, pos) = &mut *c;
			if into.len() > data.len() - *pos {
				return Err("eof".into());
			}
			into.copy_from_slice(&data[*pos..*pos + into.len()]);
			*pos += into.len();
			Ok(())
		})
	}
}

fn alloc_case<T: Cat>(ctx: &mut Ctx, name: &str, bs: &[u8], depth_allowance: usize) {
	// attribution of an abort: the request being executed
	let hx = hex_or_dash(bs);
	std::fs::write(&ctx.current_path, format!("{}\t{} bytes: {}\n", name, bs.len(), &hx[..hx.len().min(4000)])).ok();
	let bound_req = PREALLOC.max(MEM_PER_INPUT_BYTE * bs.len()) + SLACK + core::mem::size_of::<T>();
	// exact request comparison: types built from Vec / VecDeque / BinaryHeap / LinkedList / String /
	// Box / arrays / tuples / options / enums only (Rc and Arc re-allocate when converted from the
	// decoded Box, B-trees allocate std's nodes, shared buffers and bit vectors wrap a Vec)
	let tyd = T::ty(2);
	let tn = std::any::type_name::<T>();
	// (GenericArray decodes through a temporary `Vec::with_capacity(N)` of fixed size N * size_of::<T>(),
	// which the descriptor `garr n t` cannot express: bounds only)
	let exact = !(tyd.contains("bmap") || tyd.contains("bset") || tyd.contains("bytes") || tyd.contains("bitseq") || tyd.contains("garr"))
		&& !(tn.contains("Rc<") || tn.contains("Arc<") || REQS_INEXACT.iter().any(|x| tn.contains(x)));
	// long inputs are sampled (the request line carries the input in hex)
	let emit_reqs = exact && (bs.len() <= 4200 || bs.iter().take(64).fold(0u32, |a, b| a.wrapping_mul(31).wrapping_add(*b as u32)) % 16 == 0);
	crate::alloc::set_skip_size(if cfg!(feature = "chain") { core::mem::size_of::<parity_scale_codec::Error>() } else { 0 });
	let bound_peak = depth_allowance * PREALLOC + MEM_PER_INPUT_BYTE * bs.len() + SLACK + core::mem::size_of::<T>();
	#[cfg(feature = "bytes-f")]
	let shared = bytes::Bytes::copy_from_slice(bs);
	ZST_INPUT.with(|c| *c.borrow_mut() = (bs.to_vec(), 0));
	for input_kind in 0..7 {
		#[cfg(not(feature = "bytes-f"))]
		if input_kind == 3 {
			continue;
		}
		let (r, m) = crate::alloc::measure(|| {
			catch_unwind(AssertUnwindSafe(|| match input_kind {
				0 => {
					let mut s = &bs[..];
					T::decode(&mut s).is_ok()
				},
				1 => {
					let mut u = UnknownLenInput { data: bs, pos: 0 };
					T::decode(&mut u).is_ok()
				},
				2 => {
					#[cfg(feature = "codec-std")]
					{
						let mut io = parity_scale_codec::IoReader(std::io::Cursor::new(bs));
						T::decode(&mut io).is_ok()
					}
					#[cfg(not(feature = "codec-std"))]
					{
						let mut u = UnknownLenInput { data: bs, pos: 0 };
						T::decode(&mut u).is_ok()
					}
				},
				3 => {
					#[cfg(feature = "bytes-f")]
					{
						parity_scale_codec::decode_from_bytes::<T>(shared.clone()).is_ok()
					}
					#[cfg(not(feature = "bytes-f"))]
					{
						false
					}
				},
				4 => T::decode(&mut ZstInput).is_ok(),
				// under a generous memory limit (1 GiB) and under a depth limit: the limits bound the
				// decoder, they are not a licence to reserve up to them
				5 => {
					let mut s = &bs[..];
					let mut mi = MemTrackingInput::new(&mut s, 1 << 30);
					T::decode(&mut mi).is_ok()
				},
				_ => {
					let mut u = UnknownLenInput { data: bs, pos: 0 };
					let mut mi = MemTrackingInput::new(&mut u, 1 << 30);
					let mut ci = CountedInput::new(&mut mi);
					T::decode(&mut ci).is_ok()
				},
			}))
		});
		// `skip` is a decode that keeps nothing: the same bound on what it may request (slice and
		// unknown-length input)
		if input_kind <= 1 {
			let (_r, ms) = crate::alloc::measure(|| {
				catch_unwind(AssertUnwindSafe(|| {
					if input_kind == 0 {
						let mut s = &bs[..];
						T::skip(&mut s).is_ok()
					} else {
						let mut u = UnknownLenInput { data: bs, pos: 0 };
						T::skip(&mut u).is_ok()
					}
				}))
			});
			if ms.max_request > bound_req || ms.peak_live > bound_peak {
				ctx.oracle_fail("C09", format!("{} [skip, {}]: largest request {} bytes, peak {} live bytes while stepping over {} input bytes (bounds {} / {}): {}", name, if input_kind == 0 { "slice" } else { "unknown-length input" }, ms.max_request, ms.peak_live, bs.len(), bound_req, bound_peak, &hex_or_dash(bs)[..hex_or_dash(bs).len().min(60)]));
			}
		}
		// inputs whose `remaining_len` cannot be relied on: it fails, or it reports far more than `read`
		// will deliver (an announced frame length, a truncated source) - the bound holds all the same
		if input_kind == 0 {
			for lying in [0u8, 1, 2] {
				let (_r, ml) = crate::alloc::measure(|| {
					catch_unwind(AssertUnwindSafe(|| {
						let mut u = LyingLenInput { data: bs, pos: 0, mode: lying };
						T::decode(&mut u).is_ok()
					}))
				});
				if ml.max_request > bound_req || ml.peak_live > bound_peak {
					ctx.oracle_fail("C09", format!("{} [input whose remaining_len {}]: largest request {} bytes, peak {} live bytes while decoding {} input bytes (bounds {} / {}): {}", name, ["fails", "reports usize::MAX / 2", "reports 1 MiB more than it holds"][lying as usize], ml.max_request, ml.peak_live, bs.len(), bound_req, bound_peak, &hex_or_dash(bs)[..hex_or_dash(bs).len().min(60)]));
				}
			}
		}
		let kind = ["slice", "unknown-length input", "io reader", "shared buffer", "zero-sized input type", "memory-tracking input (1 GiB limit) over a slice", "counting over memory-tracking (1 GiB) over an unknown-length input"][input_kind];
		ctx.count("alloc:measured-decodes", 1);
		// the requests themselves (count, sum, largest) are compared with the model's request trace
		// (`Impl.decodeR`) — exactly, for the types whose allocations are all the crate's own
		if let (Ok(ok), true, true) = (&r, input_kind <= 1, emit_reqs) {
			let hx = hex_or_dash(bs);
			let req = format!("reqs {} {} {} {}", if input_kind == 0 { "slice" } else { "io" }, m.skip_size, T::ty(bs.len() + 1), hx);
			// a failing decode drops its partial result; chained errors box their cause: those
			// requests (of exactly size_of::<Error>()) are left out on both sides
			let (n, total, max) = if *ok {
				let sk = m.skipped_n;
				(m.req_n + sk, m.req_total + sk * m.skip_size, if sk > 0 { m.req_max.max(m.skip_size) } else { m.req_max })
			} else {
				(m.req_n, m.req_total, m.req_max)
			};
			let ans = format!("{} n={} total={} max={}", if *ok { "ok" } else { "err" }, n, total, max);
			ctx.emit("reqs", name, &req, &ans);
		}
		if r.is_err() {
			ctx.oracle_fail("C03", format!("{}: decoding {} panicked", name, hex_or_dash(&bs[..bs.len().min(40)])));
		}
		// oracle (C09): bounded by the input supplied, not by the claimed count
		if m.max_request > bound_req {
			ctx.oracle_fail("C09", format!("{} [{}]: a single allocation of {} bytes while decoding {} input bytes (bound {}): {}", name, kind, m.max_request, bs.len(), bound_req, &hex_or_dash(bs)[..hex_or_dash(bs).len().min(60)]));
		}
		if m.peak_live > bound_peak {
			ctx.oracle_fail("C09", format!("{} [{}]: peak of {} live bytes while decoding {} input bytes (bound {}): {}", name, kind, m.peak_live, bs.len(), bound_peak, &hex_or_dash(bs)[..hex_or_dash(bs).len().min(60)]));
		}
		ctx.count("alloc:max-single-request-seen", 0);
		let key = "alloc:largest-request-over-all-cases";
		let cur = *ctx.counts.get(key).unwrap_or(&0);
		if (m.max_request as u64) > cur {
			ctx.counts.insert(key.to_string(), m.max_request as u64);
		}
	}
	// the outcome itself is compared with the model (slice input)
	if bs.len() <= 80 {
		let req = format!("dec {} {}", T::ty(bs.len() + 1), hx);
		let (ans, _) = dec_answer::<T>(bs);
		ctx.emit("alloc", name, &req, &ans);
	}
}

fn alloc_type<T: Cat>(ctx: &mut Ctx, name: &str, o: &TypeOpts, g: &mut G) {
	if o.zero_width_elems {
		// finding F4: zero-width element types are probed separately (see `alloc_known_findings`)
		return;
	}
	let rounds = if ctx.tier_thorough { 40 } else { 6 };
	let hostile: [u32; 8] = [1 << 16, 1 << 24, (1 << 30) - 1, 1 << 30, u32::MAX - 1, u32::MAX, 1 << 20, 1 << 28];
	for r in 0..rounds {
		g.budget = o.budget;
		let v = T::gen(g);
		let enc = v.encode();
		// every count position: replace each byte position in turn by a hostile compact count,
		// followed by 0..64 KiB of plausible payload (the rest of the valid encoding, repeated)
		let positions: Vec<usize> = if enc.len() <= 12 { (0..enc.len().max(1)).collect() } else { (0..8).map(|_| g.rng.below(enc.len() as u64) as usize).collect() };
		for pos in positions {
			let c = hostile[(r + pos) % hostile.len()];
			let mut bs = enc[..pos.min(enc.len())].to_vec();
			bs.extend_from_slice(&parity_scale_codec::Compact(c).encode());
			let tail = &enc[(pos + 1).min(enc.len())..];
			let payload_len = match g.rng.below(5) {
				0 => 0,
				1 => g.rng.below(64) as usize,
				2 => 4096,
				3 => 20000,
				_ => 65536,
			};
			while bs.len() < pos + 5 + payload_len {
				if tail.is_empty() || g.rng.chance(1, 8) {
					bs.push(g.rng.below(4) as u8);
				} else {
					bs.extend_from_slice(tail);
				}
				if tail.is_empty() && bs.len() > pos + 5 + payload_len {
					break;
				}
			}
			bs.truncate(pos + 5 + payload_len);
			alloc_case::<T>(ctx, name, &bs, 8);
		}
		// and the untampered encoding: memory proportional to a valid input
		alloc_case::<T>(ctx, name, &enc, 8);
	}
}

/// Vectors whose elements are so large that only one (or two, or exactly N) fit into a
/// preallocation chunk: hostile counts with no, little and plenty of data behind them.
fn alloc_big_for<T: Cat>(ctx: &mut Ctx, name: &str) {
	let mut g = G::new(ctx.seed ^ 0xB1E, 2);
	for n in 0..3usize {
		g.budget = 2;
		let _ = n;
		let v = T::gen(&mut g);
		alloc_case::<T>(ctx, name, &v.encode(), 8);
	}
	for c in [2u32, 3, 9, 1 << 16, 1 << 24, (1 << 30) - 1, u32::MAX] {
		for extra in [0usize, 5, 3000, 20000] {
			let mut bs = parity_scale_codec::Compact(c).encode();
			bs.extend((0..extra).map(|i| (i % 251) as u8));
			alloc_case::<T>(ctx, name, &bs, 8);
		}
	}
}

fn alloc_big_elems(ctx: &mut Ctx) {
	use std::collections::VecDeque;
	alloc_big_for::<Vec<[u64; 1024]>>(ctx, "Vec<[u64;1024]>");
	alloc_big_for::<Vec<[u64; 1025]>>(ctx, "Vec<[u64;1025]>");
	alloc_big_for::<Vec<[u64; 1500]>>(ctx, "Vec<[u64;1500]>");
	alloc_big_for::<Vec<[u8; 16384]>>(ctx, "Vec<[u8;16384]>");
	alloc_big_for::<Vec<[u8; 8193]>>(ctx, "Vec<[u8;8193]>");
	alloc_big_for::<Vec<[u16; 4096]>>(ctx, "Vec<[u16;4096]>");
	alloc_big_for::<VecDeque<[u32; 3000]>>(ctx, "VecDeque<[u32;3000]>");
	alloc_big_for::<(u8, Vec<[u64; 2047]>)>(ctx, "(u8,Vec<[u64;2047]>)");
	alloc_big_for::<Vec<Vec<[u64; 1100]>>>(ctx, "Vec<Vec<[u64;1100]>>");
}

/// Finding F4 (known): element types with an empty encoding but a non-empty footprint.
pub fn alloc_known_findings(ctx: &mut Ctx) {
	use std::collections::LinkedList;
	// self-test of the instrumentation: a megabyte request must be seen
	let (_, m) = crate::alloc::measure(|| Vec::<u8>::with_capacity(1 << 20).capacity());
	if m.max_request < (1 << 20) || m.peak_live < (1 << 20) {
		ctx.oracle_fail("C09", format!("allocator instrumentation inactive: a 1 MiB request was measured as {}", m.max_request));
	}
	ctx.count("alloc:instrumentation-selftest", 1);
	let bs = parity_scale_codec::Compact(1u32 << 20).encode();
	std::fs::write(&ctx.current_path, "LinkedList<()>\tF4 probe\n").ok();
	let (_, m) = crate::alloc::measure(|| LinkedList::<()>::decode(&mut &bs[..]).map(|l| l.len()));
	if m.peak_live > PREALLOC + MEM_PER_INPUT_BYTE * bs.len() + SLACK {
		ctx.oracle_fail("C09", format!("F4 LinkedList<()>::decode: {} live bytes requested from {} input bytes claiming 2^20 zero-width elements", m.peak_live, bs.len()));
	}
	let (_, m) = crate::alloc::measure(|| Vec::<crate::derived::AllSkipped>::decode(&mut &bs[..]).map(|l| l.len()));
	if m.peak_live > PREALLOC + MEM_PER_INPUT_BYTE * bs.len() + SLACK {
		ctx.oracle_fail("C09", format!("F4 Vec<AllSkipped>::decode: {} live bytes requested from {} input bytes claiming 2^20 zero-width elements of non-zero size", m.peak_live, bs.len()));
	}
}

/// Finding F5 (known, C03): run in a process of its own - the plain decode does not return.
pub fn inf_probe(ctx: &mut Ctx) {
	use parity_scale_codec::DecodeLimit;
	// with a depth limit the same input is rejected (C11)
	for limit in [0u32, 1, 64, 1024] {
		let r = crate::derived::Inf::decode_with_depth_limit(limit, &mut &[][..]);
		if r.is_ok() {
			ctx.oracle_fail("C11", format!("Inf::decode_with_depth_limit({}) on empty input succeeded", limit));
		}
	}
	std::fs::write(&ctx.current_path, "F5 depth-limited decode of Inf rejected; calling Inf::decode(&[])\n").ok();
	let r = std::thread::Builder::new()
		.stack_size(1 << 20)
		.spawn(|| crate::derived::Inf::decode(&mut &[][..]).is_ok())
		.unwrap()
		.join();
	// reached only if the recursion is bounded
	std::fs::write(&ctx.current_path, format!("F5 returned: {:?}\n", r.map_err(|_| "panic"))).ok();
}
