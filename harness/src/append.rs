//! C15: `EncodeAppend::append_or_new` histories.

use crate::derived::TwinU32;
use crate::modeled::{hex, hex_or_dash, Modeled, G};
use crate::rng::Rng;
use crate::Ctx;
use parity_scale_codec::{Compact, Encode, EncodeAppend, EncodeLike};
use std::collections::VecDeque;
use std::panic::{catch_unwind, AssertUnwindSafe};

/// An `ExactSizeIterator` whose `len()` is whatever it is told (the code trusts `len()` for the
/// count and encodes the items actually yielded).
struct Claimed<I> {
	inner: I,
	claimed: usize,
}
impl<I: Iterator> Iterator for Claimed<I> {
	type Item = I::Item;
	fn next(&mut self) -> Option<I::Item> {
		self.inner.next()
	}
	fn size_hint(&self) -> (usize, Option<usize>) {
		(self.claimed, Some(self.claimed))
	}
}
impl<I: Iterator> ExactSizeIterator for Claimed<I> {
	fn len(&self) -> usize {
		self.claimed
	}
}

fn answer(r: std::thread::Result<Result<Vec<u8>, parity_scale_codec::Error>>) -> (String, Option<Vec<u8>>) {
	match r {
		Ok(Ok(v)) => (hex_or_dash(&v), Some(v)),
		Ok(Err(_)) => ("err".into(), None),
		Err(_) => ("panic".into(), None),
	}
}

/// One history on a real sequence of `T`, through `Vec<T>` or `VecDeque<T>` as the target.
fn history<T: Modeled + Encode + Clone + EncodeLike<T>>(ctx: &mut Ctx, name: &str, rng: &mut Rng, deque: bool, start_len: usize, batches: &[usize]) {
	let mut g = G::new(rng.next(), 4);
	let mut mk = |n: usize| -> Vec<T> {
		(0..n)
			.map(|_| {
				g.budget = 3;
				T::gen(&mut g)
			})
			.collect()
	};
	let mut logical: Vec<T> = mk(start_len);
	let mut enc: Vec<u8> = if start_len == 0 && rng.chance(1, 2) { vec![] } else { logical.encode() };
	for &b in batches {
		let items = mk(b);
		let item_bytes: Vec<u8> = items.iter().flat_map(|i| i.encode()).collect();
		let input = enc.clone();
		let by_ref = rng.chance(1, 2);
		// the buffer handed in: exact fit, or with spare capacity (as it comes back from an earlier
		// append, or from `with_capacity`) - little, or enough for everything appended
		let spare = *rng.pick(&[0usize, 0, 1, 2, 3, 64, 1 << 17]);
		let hand_in = || {
			let mut v = Vec::with_capacity(input.len() + spare);
			v.extend_from_slice(&input);
			v
		};
		let r = catch_unwind(AssertUnwindSafe(|| {
			if deque {
				if by_ref {
					<VecDeque<T> as EncodeAppend>::append_or_new(hand_in(), items.iter())
				} else {
					<VecDeque<T> as EncodeAppend>::append_or_new(hand_in(), items.clone())
				}
			} else if by_ref {
				<Vec<T> as EncodeAppend>::append_or_new(hand_in(), items.iter())
			} else {
				<Vec<T> as EncodeAppend>::append_or_new(hand_in(), items.clone())
			}
		}));
		let (ans, out) = answer(r);
		ctx.emit("append", name, &format!("appendn {} {} {}", hex_or_dash(&input), b, hex_or_dash(&item_bytes)), &ans);
		logical.extend(items);
		// oracle (C15): equals re-encoding the whole
		let expect = logical.encode();
		match out {
			Some(v) => {
				if v != expect {
					ctx.oracle_fail("C15", format!("{}: appending {} items to {} gives {} but re-encoding the whole gives {}", name, b, &hex_or_dash(&input)[..hex_or_dash(&input).len().min(40)], &hex(&v)[..hex(&v).len().min(40)], &hex(&expect)[..hex(&expect).len().min(40)]));
				}
				enc = v;
			},
			None => {
				ctx.oracle_fail("C15", format!("{}: appending {} items to a {}-element sequence failed: {}", name, b, logical.len() - b, ans));
				return;
			},
		}
	}
}

/// Forged prefix `compact(n)` followed by a short payload, with an iterator claiming `m` items.
fn forged(ctx: &mut Ctx, n: u32, payload: &[u8], claimed: usize, actual: usize) {
	let mut input = Compact(n).encode();
	input.extend_from_slice(payload);
	let r = catch_unwind(AssertUnwindSafe(|| {
		<Vec<()> as EncodeAppend>::append_or_new(input.clone(), Claimed { inner: (0..actual).map(|_| ()), claimed })
	}));
	let (ans, out) = answer(r);
	ctx.emit("append-forged", "Vec<()>", &format!("appendn {} {} -", hex_or_dash(&input), claimed), &ans);
	// oracle (C15): an unrepresentable combined count is an error; otherwise the count is n + m
	let total = n as u128 + claimed as u128;
	if total > u32::MAX as u128 {
		if ans != "err" {
			ctx.oracle_fail("C15", format!("append_or_new: count {} + {} items is not representable but the result is {} (expected an error)", n, claimed, ans));
		}
	} else {
		let mut expect = Compact(total as u32).encode();
		expect.extend_from_slice(payload);
		if out.as_deref() != Some(&expect[..]) {
			ctx.oracle_fail("C15", format!("append_or_new: count {} + {} items gives {} expected {}", n, claimed, ans, hex(&expect)));
		}
	}
}

pub fn append_stream(ctx: &mut Ctx) {
	let thorough = ctx.tier_thorough;
	let mut rng = Rng::new(ctx.seed ^ 0xA99E);
	let rounds = if thorough { 400 } else { 40 };
	for r in 0..rounds {
		let start = *rng.pick(&[0usize, 0, 1, 2, 5, 61, 62, 63, 64, 65]);
		let nb = 1 + rng.below(5) as usize;
		let batches: Vec<usize> = (0..nb).map(|_| *rng.pick(&[0usize, 0, 1, 1, 2, 3, 7, 62, 63, 64])).collect();
		let deque = r % 2 == 1;
		history::<u8>(ctx, "u8", &mut rng, deque, start, &batches);
		history::<u32>(ctx, "u32", &mut rng, deque, start, &batches);
		history::<String>(ctx, "String", &mut rng, deque, start, &batches);
		history::<Vec<u8>>(ctx, "Vec<u8>", &mut rng, deque, start, &batches);
		history::<()>(ctx, "()", &mut rng, deque, start, &batches);
		// floats: whole sequences are written in bulk, appended items one at a time - bit for bit the
		// same, whatever the value (signalling NaNs included)
		history::<f32>(ctx, "f32", &mut rng, deque, start, &batches);
		history::<f64>(ctx, "f64", &mut rng, deque, start, &batches);
		history::<TwinU32>(ctx, "TwinU32", &mut rng, deque, start, &batches);
		// zero-sized in memory, one byte on the wire
		history::<crate::derived::Marker>(ctx, "Marker", &mut rng, deque, start, &batches);
	}
	// one batch that takes the count across one or two prefix widths at once (1 -> 4 bytes, 2 -> 4 bytes)
	for (i, &start) in [0usize, 1, 10, 63, 64, 100, 16383].iter().enumerate() {
		for &add in &[16384usize.saturating_sub(start), 16400, 70000] {
			if add == 0 {
				continue;
			}
			for _ in 0..3 {
				history::<u8>(ctx, "u8", &mut rng, i % 2 == 1, start, &[add]);
			}
			history::<u16>(ctx, "u16", &mut rng, i % 2 == 0, start, &[add]);
			history::<crate::derived::Marker>(ctx, "Marker", &mut rng, i % 2 == 0, start, &[add, 1]);
			history::<u32>(ctx, "u32", &mut rng, false, start, &[3, add]);
		}
	}
	// buffers of more than a MiB at the moment the count prefix widens (63 -> 64 items of 17 KB;
	// 2^14 - 1 -> 2^14 items of 80 bytes), handed in with and without spare capacity
	for _ in 0..3 {
		history::<[u8; 17000]>(ctx, "[u8;17000]", &mut rng, false, 63, &[1, 1]);
		history::<[u8; 80]>(ctx, "[u8;80]", &mut rng, true, 16383, &[1, 2]);
		history::<[u8; 80]>(ctx, "[u8;80]", &mut rng, false, 16380, &[5]);
	}
	// alias item forms: &str items into a Vec<String>, &&T, Box<T>
	for _ in 0..rounds {
		let mut g = G::new(rng.next(), 6);
		let xs: Vec<String> = (0..rng.below(4)).map(|_| crate::modeled::gen_string(&mut g)).collect();
		let ys: Vec<String> = (0..rng.below(4)).map(|_| crate::modeled::gen_string(&mut g)).collect();
		let input = xs.encode();
		let item_bytes: Vec<u8> = ys.iter().flat_map(|i| i.encode()).collect();
		let r = catch_unwind(AssertUnwindSafe(|| {
			let strs: Vec<&str> = ys.iter().map(|s| s.as_str()).collect();
			<Vec<String> as EncodeAppend>::append_or_new(input.clone(), strs)
		}));
		let (ans, out) = answer(r);
		ctx.emit("append-alias", "Vec<String> <- &str", &format!("appendn {} {} {}", hex_or_dash(&input), ys.len(), hex_or_dash(&item_bytes)), &ans);
		let mut all = xs.clone();
		all.extend(ys.clone());
		if out.as_deref() != Some(&all.encode()[..]) {
			ctx.oracle_fail("C15", format!("Vec<String>::append_or_new with &str items: got {} expected {}", ans, hex(&all.encode())));
		}
		let bx: Vec<Box<u32>> = (0..rng.below(4)).map(|_| Box::new(rng.next() as u32)).collect();
		let base: Vec<u32> = (0..rng.below(3)).map(|_| rng.next() as u32).collect();
		let input = base.encode();
		let item_bytes: Vec<u8> = bx.iter().flat_map(|i| i.encode()).collect();
		let r = catch_unwind(AssertUnwindSafe(|| <Vec<u32> as EncodeAppend>::append_or_new(input.clone(), bx.clone())));
		let (ans, out) = answer(r);
		ctx.emit("append-alias", "Vec<u32> <- Box<u32>", &format!("appendn {} {} {}", hex_or_dash(&input), bx.len(), hex_or_dash(&item_bytes)), &ans);
		let mut all = base.clone();
		all.extend(bx.iter().map(|b| **b));
		if out.as_deref() != Some(&all.encode()[..]) {
			ctx.oracle_fail("C15", format!("Vec<u32>::append_or_new with Box<u32> items: got {} expected {}", ans, hex(&all.encode())));
		}
	}
	// counts on and around each prefix-width boundary and around 2^32, with forged prefixes
	let big: [u64; 18] = [
		0, 1, 62, 63, 64, 65, (1 << 14) - 2, (1 << 14) - 1, 1 << 14, (1 << 14) + 1, (1 << 30) - 2, (1 << 30) - 1, 1 << 30,
		(1 << 30) + 1, (1 << 32) - 3, (1 << 32) - 2, (1 << 32) - 1, 1 << 31,
	];
	for &n in &big {
		for &m in &[0u64, 1, 2, 63, 64, 1 << 14, (1 << 30) - 1, 1 << 30, (1 << 30) + 1, (1 << 30) + 2, 3 << 30, (1 << 32) - (1 << 14), (1 << 32) - 2, (1 << 32) - 1, 1 << 32, (1 << 32) + 1, (1 << 33) + 7, u64::MAX] {
			let payload: Vec<u8> = (0..rng.below(4)).map(|_| rng.below(256) as u8).collect();
			forged(ctx, n as u32, &payload, m as usize, 2);
		}
	}
	for _ in 0..rounds * 10 {
		let n = rng.biased(32) as u32;
		let m = match rng.below(3) {
			0 => rng.biased(32) as usize,
			1 => (u32::MAX as usize).wrapping_sub(n as usize).wrapping_add(rng.below(5) as usize).wrapping_sub(2),
			_ => rng.biased(64) as usize,
		};
		forged(ctx, n, &[7], m, 1);
	}
	// over-long big-integer prefixes padded with zero bytes (and other non-canonical forms): rejected,
	// like `Compact<u32>::decode` rejects them
	for input in [
		vec![0x07u8, 0, 0, 0, 0x40, 0], vec![0x0b, 0, 0, 0, 0x40, 0, 0], vec![0x07, 1, 0, 0, 0x80, 0], vec![0x13, 0, 0, 0, 0x40, 0, 0, 0, 0],
		vec![0x07, 0, 0, 0, 0x40, 1], vec![0x03, 0, 0, 0, 0x3f], vec![0x03, 5, 0, 0, 0], vec![0x01, 0x00], vec![0x02, 0, 0, 0], vec![0x07, 0, 0, 0, 0x40],
		vec![0x33, 0, 0, 0, 0x40, 0, 0, 0, 0, 0, 0, 0, 0, 0, 0, 0, 0],
	] {
		for extra in [0usize, 2] {
			let mut inp = input.clone();
			inp.extend(std::iter::repeat(0u8).take(extra));
			let r = catch_unwind(AssertUnwindSafe(|| <Vec<()> as EncodeAppend>::append_or_new(inp.clone(), vec![(), ()])));
			let (ans, _) = answer(r);
			ctx.emit("append-badprefix", "Vec<()>", &format!("appendn {} 2 -", hex_or_dash(&inp)), &ans);
			let valid = <Compact<u32> as parity_scale_codec::Decode>::decode(&mut &inp[..]).is_ok();
			if !valid && ans != "err" {
				ctx.oracle_fail("C15", format!("append_or_new accepted input {} that does not begin with a valid count: {}", hex(&inp), ans));
			}
		}
	}
	// NOTHING appended: the buffer is still checked (and an empty one becomes `[0]`)
	for input in [
		vec![], vec![0u8], vec![0x04, 7], vec![0x01], vec![0x01, 0x00], vec![0x01, 0x00, 2, 3], vec![0x02, 0, 0], vec![0x02, 0, 0, 0], vec![0x03, 0, 0, 0, 0x3f], vec![0x03, 0, 0, 0, 0x40, 9],
		vec![0x07, 0, 0, 0, 0x40, 0], vec![0x0b, 0, 0, 0, 0, 1], vec![0x13, 0, 0, 0, 0, 0, 0, 0, 1], vec![0xff], vec![0xfd, 0xff], vec![0x05, 0x01, 9, 9],
	] {
		let none_u8: Vec<u8> = vec![];
		let r1 = catch_unwind(AssertUnwindSafe(|| <Vec<u8> as EncodeAppend>::append_or_new(input.clone(), none_u8.clone())));
		let r2 = catch_unwind(AssertUnwindSafe(|| <VecDeque<u32> as EncodeAppend>::append_or_new(input.clone(), Vec::<u32>::new().iter())));
		let r3 = catch_unwind(AssertUnwindSafe(|| <Vec<()> as EncodeAppend>::append_or_new(input.clone(), Claimed { inner: std::iter::empty::<()>(), claimed: 0 })));
		for (label, r) in [("Vec<u8>", r1), ("VecDeque<u32>", r2), ("Vec<()>", r3)] {
			let (ans, out) = answer(r);
			ctx.emit("append-nothing", label, &format!("appendn {} 0 -", hex_or_dash(&input)), &ans);
			let valid = input.is_empty() || <Compact<u32> as parity_scale_codec::Decode>::decode(&mut &input[..]).is_ok();
			if !valid && ans != "err" {
				ctx.oracle_fail("C15", format!("{}::append_or_new of no items accepted input {} that does not begin with a valid count: {}", label, hex(&input), ans));
			}
			if valid {
				let expect = if input.is_empty() { vec![0u8] } else { input.clone() };
				if out.as_deref() != Some(&expect[..]) {
					ctx.oracle_fail("C15", format!("{}::append_or_new of no items to {} gives {} (expected the same sequence)", label, hex_or_dash(&input), ans));
				}
			}
		}
	}
	// lazy iterators announcing counts that cannot be represented, over items that are NOT zero-sized:
	// an error, never a panic or an attempt to reserve room for them
	for &claimed in &[(1usize << 32) - 1, 1 << 32, (1 << 32) + 5, 1 << 40, usize::MAX / 16, usize::MAX / 8 + 1, usize::MAX / 2 + 1, usize::MAX - 1, usize::MAX] {
		let input = vec![3u8, 4, 5].encode();
		let r1 = catch_unwind(AssertUnwindSafe(|| <Vec<u8> as EncodeAppend>::append_or_new(input.clone(), Claimed { inner: [6u8, 7].into_iter(), claimed })));
		let in2 = vec![1u64, 2].encode();
		let r2 = catch_unwind(AssertUnwindSafe(|| <VecDeque<u64> as EncodeAppend>::append_or_new(in2.clone(), Claimed { inner: [8u64].into_iter(), claimed })));
		let in3 = vec![(1u16, Some(2u32))].encode();
		let r3 = catch_unwind(AssertUnwindSafe(|| <Vec<(u16, Option<u32>)> as EncodeAppend>::append_or_new(in3.clone(), Claimed { inner: std::iter::empty::<(u16, Option<u32>)>(), claimed })));
		let r4 = catch_unwind(AssertUnwindSafe(|| <Vec<String> as EncodeAppend>::append_or_new(vec![], Claimed { inner: std::iter::empty::<String>(), claimed })));
		for (label, inp, items, r) in [("Vec<u8>", input.clone(), vec![6u8, 7], r1), ("VecDeque<u64>", in2.clone(), 8u64.encode(), r2), ("Vec<(u16,Option<u32>)>", in3.clone(), vec![], r3), ("Vec<String>", vec![], vec![], r4)] {
			let (ans, _) = answer(r);
			ctx.emit("append-forged", label, &format!("appendn {} {} {}", hex_or_dash(&inp), claimed, hex_or_dash(&items)), &ans);
			let n = if inp.is_empty() { 0u128 } else { <Compact<u32> as parity_scale_codec::Decode>::decode(&mut &inp[..]).map(|c| c.0 as u128).unwrap_or(0) };
			if n + claimed as u128 > u32::MAX as u128 && ans != "err" {
				ctx.oracle_fail("C15", format!("{}::append_or_new with an iterator announcing {} items: {} (expected an error)", label, claimed, ans));
			}
			if ans == "panic" {
				ctx.oracle_fail("C15", format!("{}::append_or_new with an iterator announcing {} items panicked", label, claimed));
			}
		}
	}
	// inputs that do not begin with a valid count
	for _ in 0..rounds * 5 {
		let len = 1 + rng.below(6) as usize;
		let input: Vec<u8> = (0..len).map(|_| rng.below(256) as u8).collect();
		let r = catch_unwind(AssertUnwindSafe(|| <Vec<u8> as EncodeAppend>::append_or_new(input.clone(), vec![1u8, 2])));
		let (ans, _) = answer(r);
		ctx.emit("append-badprefix", "Vec<u8>", &format!("appendn {} 2 0102", hex_or_dash(&input)), &ans);
		// oracle (C15): no valid count at the front => rejected
		let valid = <Compact<u32> as parity_scale_codec::Decode>::decode(&mut &input[..]).is_ok();
		if !valid && ans != "err" {
			ctx.oracle_fail("C15", format!("append_or_new accepted input {} that does not begin with a valid count: {}", hex(&input), ans));
		}
	}
	if thorough {
		// a genuine iterator of 2^32 + 1 zero-sized items
		let input = vec![()].encode();
		let m = (1usize << 32) + 1;
		let r = catch_unwind(AssertUnwindSafe(|| <Vec<()> as EncodeAppend>::append_or_new(input.clone(), (0..m).map(|_| ()))));
		let (ans, _) = answer(r);
		ctx.emit("append-real-2^32", "Vec<()>", &format!("appendn {} {} -", hex_or_dash(&input), m), &ans);
		if ans != "err" {
			ctx.oracle_fail("C15", format!("appending 2^32 + 1 units to vec![()] gives {} (expected an error)", ans));
		}
	}
}
