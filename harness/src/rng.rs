//! splitmix64: every random choice of a run derives from one seed, so a run replays exactly.

#[derive(Clone)]
pub struct Rng(pub u64);

impl Rng {
	pub fn new(seed: u64) -> Self {
		Rng(seed ^ 0x9E37_79B9_7F4A_7C15)
	}
	pub fn next(&mut self) -> u64 {
		self.0 = self.0.wrapping_add(0x9E37_79B9_7F4A_7C15);
		let mut z = self.0;
		z = (z ^ (z >> 30)).wrapping_mul(0xBF58_476D_1CE4_E5B9);
		z = (z ^ (z >> 27)).wrapping_mul(0x94D0_49BB_1331_11EB);
		z ^ (z >> 31)
	}
	pub fn below(&mut self, n: u64) -> u64 {
		if n == 0 {
			0
		} else {
			self.next() % n
		}
	}
	pub fn chance(&mut self, num: u64, den: u64) -> bool {
		self.below(den) < num
	}
	pub fn next128(&mut self) -> u128 {
		((self.next() as u128) << 64) | self.next() as u128
	}
	pub fn pick<'a, T>(&mut self, xs: &'a [T]) -> &'a T {
		&xs[self.below(xs.len() as u64) as usize]
	}
	/// Boundary-biased unsigned value of `bits` bits.
	pub fn biased(&mut self, bits: u32) -> u128 {
		let mask: u128 = if bits >= 128 { u128::MAX } else { (1u128 << bits) - 1 };
		let v = match self.below(10) {
			0 => 0,
			1 => 1,
			2 => mask,
			3 => mask - 1,
			4 | 5 => {
				// 2^k - 1, 2^k, 2^k + 1 around interesting k
				let ks = [6u32, 7, 8, 14, 15, 16, 24, 30, 31, 32, 40, 48, 56, 62, 63, 64, 72, 96, 120, 126, 127];
				let k = *self.pick(&ks);
				let base: u128 = if k >= 128 { 0 } else { 1u128 << k };
				match self.below(3) {
					0 => base.wrapping_sub(1),
					1 => base,
					_ => base.wrapping_add(1),
				}
			},
			6 => {
				// at most two non-zero byte lanes
				let a = self.below(16) as u32 * 8;
				let b = self.below(16) as u32 * 8;
				((self.below(256) as u128) << a) | ((self.below(256) as u128) << b)
			},
			7 => self.below(300) as u128,
			_ => self.next128(),
		};
		v & mask
	}
	/// Collection length: mostly tiny, sometimes around interesting boundaries, bounded by `cap`.
	pub fn len(&mut self, cap: usize) -> usize {
		let l = match self.below(16) {
			0..=3 => 0,
			4..=7 => 1,
			8..=10 => 2,
			11..=12 => 3 + self.below(5) as usize,
			13 => 62 + self.below(4) as usize,
			_ => self.below(20) as usize,
		};
		l.min(cap)
	}
}
